import Lemmas.RBHeapCtx
set_option linter.unusedSimpArgs false
set_option linter.unusedVariables false
/-! C06 helper lemmas, part 9: the red-red repair loop of the pointer-level `Insert` (`tree.go:120-166`) case by case.
    Core tactics only. -/
namespace RB
variable {K V : Type}
namespace PTree

theorem isRed_of_owns {t : PTree K V} {par : Ptr} {s : AT K V} (h : Owns t par s) : t.isRed s.ptr = s.erase.isRed := by
  cases s with
  | nil => rfl
  | node a c l k v r =>
    simp only [isRed, AT.ptr_node, h.1, AT.erase]
    cases c <;> rfl

/-- `a ≠ b` from the counting form of distinctness; `x` is the address to count (either side after `subst`), `hs` are
    membership facts already turned into `0 < count …` -/
syntax "addr_ne " ident term : tactic
macro_rules
  | `(tactic| addr_ne $hd $x) => `(tactic|
      (intro e; subst e; have h1 := $hd $x
       simp only [ctxAddrs, AT.addrs, List.count_cons, List.count_append, beq_self_eq_true, if_true, List.count_nil] at h1
       omega))

theorem setBlack_spec (t : PTree K V) (i : Nat) (b : Bool) (x : PNode K V) (h : t.get (some i) = some x) :
    ∃ t', t.setBlack (some i) b = some t' ∧ t'.get (some i) = some { x with black := b } ∧
      (∀ j, j ≠ i → t'.get (some j) = t.get (some j)) ∧ t'.root = t.root ∧ t'.count = t.count :=
  ⟨_, upd_of_isSome t i _ (by rw [h]; rfl), by rw [get_mod_self, h]; rfl,
    fun j hj => get_mod_ne t _ (Ne.symm hj), rfl, rfl⟩

theorem OwnsCtx.ptr_get {t : PTree K V} {ctx : Ctx K V} {hole : Ptr} (h : OwnsCtx t ctx hole) :
    ∀ p, ctxPtr ctx = some p → (t.get (some p)).isSome = true ∧ p ∈ ctxAddrs ctx := by
  intro p hp
  cases ctx with
  | nil => cases hp
  | cons f rest =>
    simp only [ctxPtr, Option.some.injEq] at hp; subst hp
    exact ⟨by rw [h.1]; rfl, by simp [ctxAddrs]⟩

theorem fix_outer_L (t : PTree K V) (rest : Ctx K V) (ga pa na : Nat) (gc : Color) (gk pk nk : K) (gv pv nv : V)
    (gsib pr nl nr : AT K V) (fuel : Nat)
    (hctx : OwnsCtx t (⟨.L, ga, gc, gk, gv, gsib⟩ :: rest) (some pa))
    (hsp : Owns t (some ga) (.node pa .red (.node na .red nl nk nv nr) pk pv pr))
    (hd : Distinct (⟨.L, ga, gc, gk, gv, gsib⟩ :: rest) (.node pa .red (.node na .red nl nk nv nr) pk pv pr))
    (hu : gsib.erase.isRed = false) :
    ∃ t', insertFix t (fuel + 2) (some na) (some pa) (some ga) = some t' ∧ t'.count = t.count ∧
      OwnsCtx t' rest (some pa) ∧
      Owns t' (ctxPtr rest) (.node pa .black (.node na .red nl nk nv nr) pk pv (.node ga .red pr gk gv gsib)) := by
  obtain ⟨hg, hgs, hrest⟩ := hctx
  obtain ⟨hp, ⟨hn, hnl, hnr⟩, hpr⟩ := hsp
  have hur := isRed_of_owns hgs
  rw [hu] at hur
  have hne : (some na == pr.ptr) = false := by
    cases hq : pr.ptr with
    | none => rfl
    | some q =>
      have c := List.count_pos_iff.mpr (AT.ptr_mem_addrs hq)
      have : na ≠ q := by addr_ne hd na
      simp [this]
  simp only [AT.ptr_node] at hg hp hur
  have hpR : t.isRed (some pa) = true := by simp only [isRed, hp]; rfl
  rw [insertFix]
  simp only [hpR, hur, hp, hg, Option.isSome_some, Bool.true_and, Bool.and_self,
    if_true, Option.bind_eq_bind, Option.bind_some, beq_self_eq_true, hne, Bool.false_eq_true, if_false]
  have hpg : pa ≠ ga := by addr_ne hd pa
  have hng : na ≠ ga := by addr_ne hd na
  have hnp : na ≠ pa := by addr_ne hd na
  have hfr : ∀ (s : AT K V), (∀ x, 0 < s.addrs.count x → x ≠ pa ∧ x ≠ ga) → ∀ (t' : PTree K V) (par : Ptr),
      (∀ x, x ≠ pa → x ≠ ga → t'.get (some x) = t.get (some x)) → Owns t par s → Owns t' par s :=
    fun s hs t' par hf h => Owns.frame (fun x hx => hf x (hs x (List.count_pos_iff.mpr hx)).1
      (hs x (List.count_pos_iff.mpr hx)).2) h
  have dnl : ∀ x, 0 < nl.addrs.count x → x ≠ pa ∧ x ≠ ga := fun x hx => ⟨by addr_ne hd x, by addr_ne hd x⟩
  have dnr : ∀ x, 0 < nr.addrs.count x → x ≠ pa ∧ x ≠ ga := fun x hx => ⟨by addr_ne hd x, by addr_ne hd x⟩
  have dpr : ∀ x, 0 < pr.addrs.count x → x ≠ pa ∧ x ≠ ga := fun x hx => ⟨by addr_ne hd x, by addr_ne hd x⟩
  have dgs : ∀ x, 0 < gsib.addrs.count x → x ≠ pa ∧ x ≠ ga := fun x hx => ⟨by addr_ne hd x, by addr_ne hd x⟩
  have drest : ∀ x, 0 < (ctxAddrs rest).count x → x ≠ pa ∧ x ≠ ga := fun x hx => ⟨by addr_ne hd x, by addr_ne hd x⟩
  obtain ⟨t1, e1, h1a, h1o, h1r, h1c⟩ := setBlack_spec t pa true _ hp
  have hg1 : t1.get (some ga) = _ := (h1o ga (Ne.symm hpg)).trans hg
  obtain ⟨t2, e2, h2a, h2o, h2r, h2c⟩ := setBlack_spec t1 ga false _ hg1
  have hf2 : ∀ x, x ≠ pa → x ≠ ga → t2.get (some x) = t.get (some x) := fun x h1 h2 => (h2o x h2).trans (h1o x h1)
  have hp2 : t2.get (some pa) = _ := (h2o pa hpg).trans h1a
  have hn2 : t2.get (some na) = _ := (hf2 na hnp hng).trans hn
  have hown2 : Owns t2 (ctxPtr rest) (.node ga .red (.node pa .black (.node na .red nl nk nv nr) pk pv pr) gk gv gsib) :=
    ⟨h2a, ⟨hp2, ⟨hn2, hfr nl dnl t2 _ hf2 hnl, hfr nr dnr t2 _ hf2 hnr⟩, hfr pr dpr t2 _ hf2 hpr⟩, hfr gsib dgs t2 _ hf2 hgs⟩
  have hnd2 : (AT.node ga .red (.node pa .black (.node na .red nl nk nv nr) pk pv pr) gk gv gsib).addrs.Nodup := by
    rw [List.nodup_iff_count]; intro x; have := hd x
    simp only [ctxAddrs, AT.addrs, List.count_cons, List.count_append, List.count_nil] at this ⊢; omega
  have hrest2 : OwnsCtx t2 rest (some ga) :=
    OwnsCtx.frame (fun x hx => hf2 x (drest x (List.count_pos_iff.mpr hx)).1 (drest x (List.count_pos_iff.mpr hx)).2)
      (h2r.trans h1r) hrest
  have hpar2 : ∀ p, ctxPtr rest = some p →
      p ∉ (AT.node ga .red (.node pa .black (.node na .red nl nk nv nr) pk pv pr) gk gv gsib).addrs ∧
      (t2.get (some p)).isSome := by
    intro p hp'
    obtain ⟨h1, h2⟩ := hrest2.ptr_get p hp'
    refine ⟨fun hm => ?_, h1⟩
    have c1 := List.count_pos_iff.mpr hm
    have c2 := List.count_pos_iff.mpr h2
    have := hd p
    simp only [ctxAddrs, AT.addrs, List.count_cons, List.count_append, List.count_nil] at this c1; omega
  obtain ⟨t3, e3, hown3, -, hc3, hr3, hf3, hP3⟩ := rotateRight_owns t2 (ctxPtr rest) ga pa .red .black _ pr gsib gk pk gv pv hown2 hnd2 hpar2
  have hpB : t3.isRed (some pa) = false := by simp only [isRed, hown3.1]; rfl
  refine ⟨t3, ?_, by rw [hc3, h2c, h1c], ?_, hown3⟩
  · simp only [e1, e2, e3, Option.bind_some]
    rw [insertFix]
    simp only [hpB, Bool.and_false, Bool.false_eq_true, if_false]
  · refine OwnsCtx.rehole hrest2 ?_ ?_ hr3 (fun p hp' => Or.inr (hP3 p hp')) ?_
    · rw [List.nodup_iff_count]; intro x; have := hd x
      simp only [ctxAddrs, AT.addrs, List.count_cons, List.count_append, List.count_nil] at this ⊢; omega
    · intro hm
      have c1 := List.count_pos_iff.mpr hm
      have := hd ga
      simp only [ctxAddrs, AT.addrs, List.count_cons, List.count_append, List.count_nil, beq_self_eq_true, if_true] at this; omega
    · intro x hx hne'
      refine hf3 x (fun hm => ?_) hne'
      have c1 := List.count_pos_iff.mpr hm
      have c2 := List.count_pos_iff.mpr hx
      have := hd x
      simp only [ctxAddrs, AT.addrs, List.count_cons, List.count_append, List.count_nil] at this c1; omega

theorem fix_inner_L (t : PTree K V) (rest : Ctx K V) (ga pa na : Nat) (gc : Color) (gk pk nk : K) (gv pv nv : V)
    (gsib pl nl nr : AT K V) (fuel : Nat)
    (hctx : OwnsCtx t (⟨.L, ga, gc, gk, gv, gsib⟩ :: rest) (some pa))
    (hsp : Owns t (some ga) (.node pa .red pl pk pv (.node na .red nl nk nv nr)))
    (hd : Distinct (⟨.L, ga, gc, gk, gv, gsib⟩ :: rest) (.node pa .red pl pk pv (.node na .red nl nk nv nr)))
    (hu : gsib.erase.isRed = false) :
    ∃ t', insertFix t (fuel + 3) (some na) (some pa) (some ga) = some t' ∧ t'.count = t.count ∧
      OwnsCtx t' rest (some na) ∧
      Owns t' (ctxPtr rest) (.node na .black (.node pa .red pl pk pv nl) nk nv (.node ga .red nr gk gv gsib)) := by
  have hctx0 := hctx
  obtain ⟨hg, hgs, hrest⟩ := hctx
  have hsp0 := hsp
  obtain ⟨hp, hpl, hn, hnl, hnr⟩ := hsp
  have hur := isRed_of_owns hgs
  rw [hu] at hur
  simp only [AT.ptr_node] at hg hp hur
  have hpR : t.isRed (some pa) = true := by simp only [isRed, hp]; rfl
  have hnd : (AT.node pa .red pl pk pv (.node na .red nl nk nv nr)).addrs.Nodup := by
    rw [List.nodup_iff_count]; intro x; have := hd x
    simp only [ctxAddrs, AT.addrs, List.count_cons, List.count_append, List.count_nil] at this ⊢; omega
  have hpar : ∀ p, some ga = some p → p ∉ (AT.node pa .red pl pk pv (.node na .red nl nk nv nr)).addrs ∧
      (t.get (some p)).isSome := by
    intro p hp'
    cases hp'
    refine ⟨fun hm => ?_, by rw [hg]; rfl⟩
    have c1 := List.count_pos_iff.mpr hm
    have := hd ga
    simp only [ctxAddrs, AT.addrs, List.count_cons, List.count_append, List.count_nil, beq_self_eq_true, if_true] at this c1
    omega
  obtain ⟨t1, e1, hown1, -, hc1, hr1, hf1, hP1⟩ := rotateLeft_owns t (some ga) pa na .red .red pl nl nr pk nk pv nv hsp0 hnd hpar
  simp only [Option.isSome_some, if_true] at hr1
  have hctx1 : OwnsCtx t1 (⟨.L, ga, gc, gk, gv, gsib⟩ :: rest) (some na) := by
    refine OwnsCtx.rehole hctx0 ?_ ?_ ?_ (fun p hp' => Or.inl (hP1 p hp')) ?_
    · rw [List.nodup_iff_count]; intro x; have := hd x
      simp only [ctxAddrs, AT.addrs, List.count_cons, List.count_append, List.count_nil] at this ⊢; omega
    · intro hm
      have c1 := List.count_pos_iff.mpr hm
      have := hd pa
      simp only [ctxAddrs, AT.addrs, List.count_cons, List.count_append, List.count_nil, beq_self_eq_true, if_true] at this c1
      omega
    · simpa [ctxPtr] using hr1
    · intro x hx hne'
      refine hf1 x (fun hm => ?_) hne'
      have c1 := List.count_pos_iff.mpr hm
      have c2 := List.count_pos_iff.mpr hx
      have := hd x
      simp only [ctxAddrs, AT.addrs, List.count_cons, List.count_append, List.count_nil] at this c1 c2; omega
  have hd1 : Distinct (⟨.L, ga, gc, gk, gv, gsib⟩ :: rest) (.node na .red (.node pa .red pl pk pv nl) nk nv nr) := by
    intro x; have := hd x
    simp only [ctxAddrs, AT.addrs, List.count_cons, List.count_append, List.count_nil] at this ⊢; omega
  obtain ⟨t2, e2, hc2, hctx2, hown2⟩ := fix_outer_L t1 rest ga na pa gc gk nk pk gv nv pv gsib nr pl nl fuel hctx1 hown1 hd1 hu
  refine ⟨t2, ?_, hc2.trans hc1, hctx2, hown2⟩
  rw [insertFix]
  simp only [hpR, hur, hp, hg, Option.isSome_some, Bool.true_and, Bool.and_self,
    if_true, Option.bind_eq_bind, Option.bind_some, beq_self_eq_true, Bool.false_eq_true, if_false, e1, AT.ptr_node]
  exact e2

theorem fix_outer_R (t : PTree K V) (rest : Ctx K V) (ga pa na : Nat) (gc : Color) (gk pk nk : K) (gv pv nv : V)
    (gsib pl nl nr : AT K V) (fuel : Nat)
    (hctx : OwnsCtx t (⟨.R, ga, gc, gk, gv, gsib⟩ :: rest) (some pa))
    (hsp : Owns t (some ga) (.node pa .red pl pk pv (.node na .red nl nk nv nr)))
    (hd : Distinct (⟨.R, ga, gc, gk, gv, gsib⟩ :: rest) (.node pa .red pl pk pv (.node na .red nl nk nv nr)))
    (hu : gsib.erase.isRed = false) :
    ∃ t', insertFix t (fuel + 2) (some na) (some pa) (some ga) = some t' ∧ t'.count = t.count ∧
      OwnsCtx t' rest (some pa) ∧
      Owns t' (ctxPtr rest) (.node pa .black (.node ga .red gsib gk gv pl) pk pv (.node na .red nl nk nv nr)) := by
  obtain ⟨hg, hgs, hrest⟩ := hctx
  obtain ⟨hp, hpr, hn, hnl, hnr⟩ := hsp
  have hur := isRed_of_owns hgs
  rw [hu] at hur
  have hne : (some na == pl.ptr) = false := by
    cases hq : pl.ptr with
    | none => rfl
    | some q =>
      have c := List.count_pos_iff.mpr (AT.ptr_mem_addrs hq)
      have : na ≠ q := by addr_ne hd na
      simp [this]
  have hne2 : (some pa == gsib.ptr) = false := by
    cases hq : gsib.ptr with
    | none => rfl
    | some q =>
      have c := List.count_pos_iff.mpr (AT.ptr_mem_addrs hq)
      have : pa ≠ q := by addr_ne hd pa
      simp [this]
  simp only [AT.ptr_node] at hg hp hur
  have hpR : t.isRed (some pa) = true := by simp only [isRed, hp]; rfl
  rw [insertFix]
  simp only [hpR, hur, hp, hg, Option.isSome_some, Bool.true_and, Bool.and_self,
    if_true, Option.bind_eq_bind, Option.bind_some, beq_self_eq_true, hne, hne2, Bool.false_eq_true, if_false]
  have hpg : pa ≠ ga := by addr_ne hd pa
  have hng : na ≠ ga := by addr_ne hd na
  have hnp : na ≠ pa := by addr_ne hd na
  have hfr : ∀ (s : AT K V), (∀ x, 0 < s.addrs.count x → x ≠ pa ∧ x ≠ ga) → ∀ (t' : PTree K V) (par : Ptr),
      (∀ x, x ≠ pa → x ≠ ga → t'.get (some x) = t.get (some x)) → Owns t par s → Owns t' par s :=
    fun s hs t' par hf h => Owns.frame (fun x hx => hf x (hs x (List.count_pos_iff.mpr hx)).1
      (hs x (List.count_pos_iff.mpr hx)).2) h
  have dnl : ∀ x, 0 < nl.addrs.count x → x ≠ pa ∧ x ≠ ga := fun x hx => ⟨by addr_ne hd x, by addr_ne hd x⟩
  have dnr : ∀ x, 0 < nr.addrs.count x → x ≠ pa ∧ x ≠ ga := fun x hx => ⟨by addr_ne hd x, by addr_ne hd x⟩
  have dpr : ∀ x, 0 < pl.addrs.count x → x ≠ pa ∧ x ≠ ga := fun x hx => ⟨by addr_ne hd x, by addr_ne hd x⟩
  have dgs : ∀ x, 0 < gsib.addrs.count x → x ≠ pa ∧ x ≠ ga := fun x hx => ⟨by addr_ne hd x, by addr_ne hd x⟩
  have drest : ∀ x, 0 < (ctxAddrs rest).count x → x ≠ pa ∧ x ≠ ga := fun x hx => ⟨by addr_ne hd x, by addr_ne hd x⟩
  obtain ⟨t1, e1, h1a, h1o, h1r, h1c⟩ := setBlack_spec t pa true _ hp
  have hg1 : t1.get (some ga) = _ := (h1o ga (Ne.symm hpg)).trans hg
  obtain ⟨t2, e2, h2a, h2o, h2r, h2c⟩ := setBlack_spec t1 ga false _ hg1
  have hf2 : ∀ x, x ≠ pa → x ≠ ga → t2.get (some x) = t.get (some x) := fun x h1 h2 => (h2o x h2).trans (h1o x h1)
  have hp2 : t2.get (some pa) = _ := (h2o pa hpg).trans h1a
  have hn2 : t2.get (some na) = _ := (hf2 na hnp hng).trans hn
  have hown2 : Owns t2 (ctxPtr rest) (.node ga .red gsib gk gv (.node pa .black pl pk pv (.node na .red nl nk nv nr))) :=
    ⟨h2a, hfr gsib dgs t2 _ hf2 hgs, hp2, hfr pl dpr t2 _ hf2 hpr, hn2, hfr nl dnl t2 _ hf2 hnl, hfr nr dnr t2 _ hf2 hnr⟩
  have hnd2 : (AT.node ga .red gsib gk gv (.node pa .black pl pk pv (.node na .red nl nk nv nr))).addrs.Nodup := by
    rw [List.nodup_iff_count]; intro x; have := hd x
    simp only [ctxAddrs, AT.addrs, List.count_cons, List.count_append, List.count_nil] at this ⊢; omega
  have hrest2 : OwnsCtx t2 rest (some ga) :=
    OwnsCtx.frame (fun x hx => hf2 x (drest x (List.count_pos_iff.mpr hx)).1 (drest x (List.count_pos_iff.mpr hx)).2)
      (h2r.trans h1r) hrest
  have hpar2 : ∀ p, ctxPtr rest = some p →
      p ∉ (AT.node ga .red gsib gk gv (.node pa .black pl pk pv (.node na .red nl nk nv nr))).addrs ∧
      (t2.get (some p)).isSome := by
    intro p hp'
    obtain ⟨h1, h2⟩ := hrest2.ptr_get p hp'
    refine ⟨fun hm => ?_, h1⟩
    have c1 := List.count_pos_iff.mpr hm
    have c2 := List.count_pos_iff.mpr h2
    have := hd p
    simp only [ctxAddrs, AT.addrs, List.count_cons, List.count_append, List.count_nil] at this c1; omega
  obtain ⟨t3, e3, hown3, -, hc3, hr3, hf3, hP3⟩ := rotateLeft_owns t2 (ctxPtr rest) ga pa .red .black gsib pl _ gk pk gv pv hown2 hnd2 hpar2
  have hpB : t3.isRed (some pa) = false := by simp only [isRed, hown3.1]; rfl
  refine ⟨t3, ?_, by rw [hc3, h2c, h1c], ?_, hown3⟩
  · simp only [e1, e2, e3, Option.bind_some]
    rw [insertFix]
    simp only [hpB, Bool.and_false, Bool.false_eq_true, if_false]
  · refine OwnsCtx.rehole hrest2 ?_ ?_ hr3 (fun p hp' => Or.inl (hP3 p hp')) ?_
    · rw [List.nodup_iff_count]; intro x; have := hd x
      simp only [ctxAddrs, AT.addrs, List.count_cons, List.count_append, List.count_nil] at this ⊢; omega
    · intro hm
      have c1 := List.count_pos_iff.mpr hm
      have := hd ga
      simp only [ctxAddrs, AT.addrs, List.count_cons, List.count_append, List.count_nil, beq_self_eq_true, if_true] at this; omega
    · intro x hx hne'
      refine hf3 x (fun hm => ?_) hne'
      have c1 := List.count_pos_iff.mpr hm
      have c2 := List.count_pos_iff.mpr hx
      have := hd x
      simp only [ctxAddrs, AT.addrs, List.count_cons, List.count_append, List.count_nil] at this c1; omega


theorem fix_inner_R (t : PTree K V) (rest : Ctx K V) (ga pa na : Nat) (gc : Color) (gk pk nk : K) (gv pv nv : V)
    (gsib pr nl nr : AT K V) (fuel : Nat)
    (hctx : OwnsCtx t (⟨.R, ga, gc, gk, gv, gsib⟩ :: rest) (some pa))
    (hsp : Owns t (some ga) (.node pa .red (.node na .red nl nk nv nr) pk pv pr))
    (hd : Distinct (⟨.R, ga, gc, gk, gv, gsib⟩ :: rest) (.node pa .red (.node na .red nl nk nv nr) pk pv pr))
    (hu : gsib.erase.isRed = false) :
    ∃ t', insertFix t (fuel + 3) (some na) (some pa) (some ga) = some t' ∧ t'.count = t.count ∧
      OwnsCtx t' rest (some na) ∧
      Owns t' (ctxPtr rest) (.node na .black (.node ga .red gsib gk gv nl) nk nv (.node pa .red nr pk pv pr)) := by
  have hctx0 := hctx
  obtain ⟨hg, hgs, hrest⟩ := hctx
  have hsp0 := hsp
  obtain ⟨hp, ⟨hn, hnl, hnr⟩, hpl⟩ := hsp
  have hur := isRed_of_owns hgs
  rw [hu] at hur
  have hne2 : (some pa == gsib.ptr) = false := by
    cases hq : gsib.ptr with
    | none => rfl
    | some q =>
      have c := List.count_pos_iff.mpr (AT.ptr_mem_addrs hq)
      have : pa ≠ q := by addr_ne hd pa
      simp [this]
  simp only [AT.ptr_node] at hg hp hur
  have hpR : t.isRed (some pa) = true := by simp only [isRed, hp]; rfl
  have hnd : (AT.node pa .red (.node na .red nl nk nv nr) pk pv pr).addrs.Nodup := by
    rw [List.nodup_iff_count]; intro x; have := hd x
    simp only [ctxAddrs, AT.addrs, List.count_cons, List.count_append, List.count_nil] at this ⊢; omega
  have hpar : ∀ p, some ga = some p → p ∉ (AT.node pa .red (.node na .red nl nk nv nr) pk pv pr).addrs ∧
      (t.get (some p)).isSome := by
    intro p hp'
    cases hp'
    refine ⟨fun hm => ?_, by rw [hg]; rfl⟩
    have c1 := List.count_pos_iff.mpr hm
    have := hd ga
    simp only [ctxAddrs, AT.addrs, List.count_cons, List.count_append, List.count_nil, beq_self_eq_true, if_true] at this c1
    omega
  obtain ⟨t1, e1, hown1, -, hc1, hr1, hf1, hP1⟩ := rotateRight_owns t (some ga) pa na .red .red nl nr pr pk nk pv nv hsp0 hnd hpar
  simp only [Option.isSome_some, if_true] at hr1
  have hctx1 : OwnsCtx t1 (⟨.R, ga, gc, gk, gv, gsib⟩ :: rest) (some na) := by
    refine OwnsCtx.rehole hctx0 ?_ ?_ ?_ (fun p hp' => Or.inr (hP1 p hp')) ?_
    · rw [List.nodup_iff_count]; intro x; have := hd x
      simp only [ctxAddrs, AT.addrs, List.count_cons, List.count_append, List.count_nil] at this ⊢; omega
    · intro hm
      have c1 := List.count_pos_iff.mpr hm
      have := hd pa
      simp only [ctxAddrs, AT.addrs, List.count_cons, List.count_append, List.count_nil, beq_self_eq_true, if_true] at this c1
      omega
    · simpa [ctxPtr] using hr1
    · intro x hx hne'
      refine hf1 x (fun hm => ?_) hne'
      have c1 := List.count_pos_iff.mpr hm
      have c2 := List.count_pos_iff.mpr hx
      have := hd x
      simp only [ctxAddrs, AT.addrs, List.count_cons, List.count_append, List.count_nil] at this c1 c2; omega
  have hd1 : Distinct (⟨.R, ga, gc, gk, gv, gsib⟩ :: rest) (.node na .red nl nk nv (.node pa .red nr pk pv pr)) := by
    intro x; have := hd x
    simp only [ctxAddrs, AT.addrs, List.count_cons, List.count_append, List.count_nil] at this ⊢; omega
  obtain ⟨t2, e2, hc2, hctx2, hown2⟩ := fix_outer_R t1 rest ga na pa gc gk nk pk gv nv pv gsib nl nr pr fuel hctx1 hown1 hd1 hu
  refine ⟨t2, ?_, hc2.trans hc1, hctx2, hown2⟩
  rw [insertFix]
  simp only [hpR, hur, hp, hg, Option.isSome_some, Bool.true_and, Bool.and_self,
    if_true, Option.bind_eq_bind, Option.bind_some, beq_self_eq_true, hne2, Bool.false_eq_true, if_false, e1, AT.ptr_node]
  exact e2


theorem fix_red_uncle_L (t : PTree K V) (rest : Ctx K V) (fside : Side) (pa ga ua na : Nat) (gc : Color) (pk gk uk : K)
    (pv gv uv : V) (fsib ul ur sl sr : AT K V) (sc : Color) (sk : K) (sv : V) (fuel : Nat)
    (hctx : OwnsCtx t (⟨fside, pa, .red, pk, pv, fsib⟩ :: ⟨.L, ga, gc, gk, gv, .node ua .red ul uk uv ur⟩ :: rest) (some na))
    (hown : Owns t (some pa) (.node na sc sl sk sv sr))
    (hd : Distinct (⟨fside, pa, .red, pk, pv, fsib⟩ :: ⟨.L, ga, gc, gk, gv, .node ua .red ul uk uv ur⟩ :: rest) (.node na sc sl sk sv sr)) :
    ∃ t', insertFix t (fuel + 1) (some na) (some pa) (some ga) =
        insertFix t' fuel (some ga) (ctxPtr rest) (ctxPtr rest.tail) ∧ t'.count = t.count ∧
      OwnsCtx t' rest (some ga) ∧
      Owns t' (ctxPtr rest) (.node ga .red ((⟨fside, pa, .black, pk, pv, fsib⟩ : Frame K V).fill (.node na sc sl sk sv sr)) gk gv
        (.node ua .black ul uk uv ur)) ∧
      Distinct rest (.node ga .red ((⟨fside, pa, .black, pk, pv, fsib⟩ : Frame K V).fill (.node na sc sl sk sv sr)) gk gv
        (.node ua .black ul uk uv ur)) := by
  obtain ⟨hp, hfs, hg, hgs, hrest⟩ := hctx
  obtain ⟨hu, hul, hur⟩ := hgs
  simp only [AT.ptr_node] at hp hg hu hfs hul hur hrest
  have hgp0 : ctxPtr (({ side := Side.L, a := ga, c := gc, k := gk, v := gv, sib := AT.node ua Color.red ul uk uv ur } : Frame K V) :: rest) = some ga := rfl
  simp only [hgp0] at hp
  have hpR : t.isRed (some pa) = true := by simp only [isRed, hp]; rfl
  have huR : t.isRed (some ua) = true := by simp only [isRed, hu]; rfl
  have hpg : pa ≠ ga := by addr_ne hd pa
  have hpu : pa ≠ ua := by addr_ne hd pa
  have hug : ua ≠ ga := by addr_ne hd ua
  have hfr : ∀ (s : AT K V), (∀ x, 0 < s.addrs.count x → x ≠ pa ∧ x ≠ ua ∧ x ≠ ga) → ∀ (t' : PTree K V) (par : Ptr),
      (∀ x, x ≠ pa → x ≠ ua → x ≠ ga → t'.get (some x) = t.get (some x)) → Owns t par s → Owns t' par s :=
    fun s hs t' par hf h => Owns.frame (fun x hx => hf x (hs x (List.count_pos_iff.mpr hx)).1
      (hs x (List.count_pos_iff.mpr hx)).2.1 (hs x (List.count_pos_iff.mpr hx)).2.2) h
  have ds : ∀ x, 0 < (AT.node na sc sl sk sv sr).addrs.count x → x ≠ pa ∧ x ≠ ua ∧ x ≠ ga := by
    intro x hx
    simp only [AT.addrs, List.count_cons, List.count_append] at hx
    exact ⟨by addr_ne hd x, by addr_ne hd x, by addr_ne hd x⟩
  have dfs : ∀ x, 0 < fsib.addrs.count x → x ≠ pa ∧ x ≠ ua ∧ x ≠ ga :=
    fun x hx => ⟨by addr_ne hd x, by addr_ne hd x, by addr_ne hd x⟩
  have dul : ∀ x, 0 < ul.addrs.count x → x ≠ pa ∧ x ≠ ua ∧ x ≠ ga :=
    fun x hx => ⟨by addr_ne hd x, by addr_ne hd x, by addr_ne hd x⟩
  have dur : ∀ x, 0 < ur.addrs.count x → x ≠ pa ∧ x ≠ ua ∧ x ≠ ga :=
    fun x hx => ⟨by addr_ne hd x, by addr_ne hd x, by addr_ne hd x⟩
  have drest : ∀ x, 0 < (ctxAddrs rest).count x → x ≠ pa ∧ x ≠ ua ∧ x ≠ ga :=
    fun x hx => ⟨by addr_ne hd x, by addr_ne hd x, by addr_ne hd x⟩
  obtain ⟨t1, e1, h1a, h1o, h1r, h1c⟩ := setBlack_spec t pa true _ hp
  have hu1 : t1.get (some ua) = _ := (h1o ua (Ne.symm hpu)).trans hu
  obtain ⟨t2, e2, h2a, h2o, h2r, h2c⟩ := setBlack_spec t1 ua true _ hu1
  have hg2 : t2.get (some ga) = _ := ((h2o ga (Ne.symm hug)).trans (h1o ga (Ne.symm hpg))).trans hg
  obtain ⟨t3, e3, h3a, h3o, h3r, h3c⟩ := setBlack_spec t2 ga false _ hg2
  have hf3 : ∀ x, x ≠ pa → x ≠ ua → x ≠ ga → t3.get (some x) = t.get (some x) :=
    fun x h1 h2 h3 => ((h3o x h3).trans (h2o x h2)).trans (h1o x h1)
  have hp3 : t3.get (some pa) = _ := ((h3o pa hpg).trans (h2o pa hpu)).trans h1a
  have hu3 : t3.get (some ua) = _ := (h3o ua hug).trans h2a
  have hrest3 : OwnsCtx t3 rest (some ga) :=
    OwnsCtx.frame (fun x hx => hf3 x (drest x (List.count_pos_iff.mpr hx)).1 (drest x (List.count_pos_iff.mpr hx)).2.1
      (drest x (List.count_pos_iff.mpr hx)).2.2) ((h3r.trans h2r).trans h1r) hrest
  have hgp : (if (ctxPtr rest).isSome = true then (t3.get (ctxPtr rest)).map (·.parent) else some none)
      = some (ctxPtr rest.tail) := by
    cases rest with
    | nil => rfl
    | cons h rest' => simp only [ctxPtr, Option.isSome_some, if_true, hrest3.1, Option.map_some, List.tail_cons]
  refine ⟨t3, ?_, by rw [h3c, h2c, h1c], hrest3, ?_, ?_⟩
  · rw [insertFix]
    simp only [hpR, huR, hp, hg, Option.isSome_some, Bool.true_and, Bool.and_self,
      if_true, Option.bind_eq_bind, Option.bind_some, beq_self_eq_true, Bool.false_eq_true, if_false, e1, e2, e3, h3a]
    cases rest with
    | nil => rfl
    | cons h rest' =>
      simp only [ctxPtr, Option.isSome_some, if_true, hrest3.1, Option.map_some, Option.bind_some, List.tail_cons]
  · cases fside
    · exact ⟨h3a, ⟨hp3, hfr _ ds t3 _ hf3 hown, hfr fsib dfs t3 _ hf3 hfs⟩, hu3, hfr ul dul t3 _ hf3 hul, hfr ur dur t3 _ hf3 hur⟩
    · exact ⟨h3a, ⟨hp3, hfr fsib dfs t3 _ hf3 hfs, hfr _ ds t3 _ hf3 hown⟩, hu3, hfr ul dul t3 _ hf3 hul, hfr ur dur t3 _ hf3 hur⟩
  · intro x; have := hd x
    cases fside <;>
    · simp only [ctxAddrs, AT.addrs, Frame.fill, List.count_cons, List.count_append, List.count_nil] at this ⊢; omega
theorem fix_red_uncle_R (t : PTree K V) (rest : Ctx K V) (fside : Side) (pa ga ua na : Nat) (gc : Color) (pk gk uk : K)
    (pv gv uv : V) (fsib ul ur sl sr : AT K V) (sc : Color) (sk : K) (sv : V) (fuel : Nat)
    (hctx : OwnsCtx t (⟨fside, pa, .red, pk, pv, fsib⟩ :: ⟨.R, ga, gc, gk, gv, .node ua .red ul uk uv ur⟩ :: rest) (some na))
    (hown : Owns t (some pa) (.node na sc sl sk sv sr))
    (hd : Distinct (⟨fside, pa, .red, pk, pv, fsib⟩ :: ⟨.R, ga, gc, gk, gv, .node ua .red ul uk uv ur⟩ :: rest) (.node na sc sl sk sv sr)) :
    ∃ t', insertFix t (fuel + 1) (some na) (some pa) (some ga) =
        insertFix t' fuel (some ga) (ctxPtr rest) (ctxPtr rest.tail) ∧ t'.count = t.count ∧
      OwnsCtx t' rest (some ga) ∧
      Owns t' (ctxPtr rest) (.node ga .red (.node ua .black ul uk uv ur) gk gv
        ((⟨fside, pa, .black, pk, pv, fsib⟩ : Frame K V).fill (.node na sc sl sk sv sr))) ∧
      Distinct rest (.node ga .red (.node ua .black ul uk uv ur) gk gv
        ((⟨fside, pa, .black, pk, pv, fsib⟩ : Frame K V).fill (.node na sc sl sk sv sr))) := by
  obtain ⟨hp, hfs, hg, hgs, hrest⟩ := hctx
  obtain ⟨hu, hul, hur⟩ := hgs
  simp only [AT.ptr_node] at hp hg hu hfs hul hur hrest
  have hgp0 : ctxPtr (({ side := Side.R, a := ga, c := gc, k := gk, v := gv, sib := AT.node ua Color.red ul uk uv ur } : Frame K V) :: rest) = some ga := rfl
  simp only [hgp0] at hp
  have hne2 : (some pa == some ua) = false := by
    have : pa ≠ ua := by addr_ne hd pa
    simp [this]
  have hpR : t.isRed (some pa) = true := by simp only [isRed, hp]; rfl
  have huR : t.isRed (some ua) = true := by simp only [isRed, hu]; rfl
  have hpg : pa ≠ ga := by addr_ne hd pa
  have hpu : pa ≠ ua := by addr_ne hd pa
  have hug : ua ≠ ga := by addr_ne hd ua
  have hfr : ∀ (s : AT K V), (∀ x, 0 < s.addrs.count x → x ≠ pa ∧ x ≠ ua ∧ x ≠ ga) → ∀ (t' : PTree K V) (par : Ptr),
      (∀ x, x ≠ pa → x ≠ ua → x ≠ ga → t'.get (some x) = t.get (some x)) → Owns t par s → Owns t' par s :=
    fun s hs t' par hf h => Owns.frame (fun x hx => hf x (hs x (List.count_pos_iff.mpr hx)).1
      (hs x (List.count_pos_iff.mpr hx)).2.1 (hs x (List.count_pos_iff.mpr hx)).2.2) h
  have ds : ∀ x, 0 < (AT.node na sc sl sk sv sr).addrs.count x → x ≠ pa ∧ x ≠ ua ∧ x ≠ ga := by
    intro x hx
    simp only [AT.addrs, List.count_cons, List.count_append] at hx
    exact ⟨by addr_ne hd x, by addr_ne hd x, by addr_ne hd x⟩
  have dfs : ∀ x, 0 < fsib.addrs.count x → x ≠ pa ∧ x ≠ ua ∧ x ≠ ga :=
    fun x hx => ⟨by addr_ne hd x, by addr_ne hd x, by addr_ne hd x⟩
  have dul : ∀ x, 0 < ul.addrs.count x → x ≠ pa ∧ x ≠ ua ∧ x ≠ ga :=
    fun x hx => ⟨by addr_ne hd x, by addr_ne hd x, by addr_ne hd x⟩
  have dur : ∀ x, 0 < ur.addrs.count x → x ≠ pa ∧ x ≠ ua ∧ x ≠ ga :=
    fun x hx => ⟨by addr_ne hd x, by addr_ne hd x, by addr_ne hd x⟩
  have drest : ∀ x, 0 < (ctxAddrs rest).count x → x ≠ pa ∧ x ≠ ua ∧ x ≠ ga :=
    fun x hx => ⟨by addr_ne hd x, by addr_ne hd x, by addr_ne hd x⟩
  obtain ⟨t1, e1, h1a, h1o, h1r, h1c⟩ := setBlack_spec t pa true _ hp
  have hu1 : t1.get (some ua) = _ := (h1o ua (Ne.symm hpu)).trans hu
  obtain ⟨t2, e2, h2a, h2o, h2r, h2c⟩ := setBlack_spec t1 ua true _ hu1
  have hg2 : t2.get (some ga) = _ := ((h2o ga (Ne.symm hug)).trans (h1o ga (Ne.symm hpg))).trans hg
  obtain ⟨t3, e3, h3a, h3o, h3r, h3c⟩ := setBlack_spec t2 ga false _ hg2
  have hf3 : ∀ x, x ≠ pa → x ≠ ua → x ≠ ga → t3.get (some x) = t.get (some x) :=
    fun x h1 h2 h3 => ((h3o x h3).trans (h2o x h2)).trans (h1o x h1)
  have hp3 : t3.get (some pa) = _ := ((h3o pa hpg).trans (h2o pa hpu)).trans h1a
  have hu3 : t3.get (some ua) = _ := (h3o ua hug).trans h2a
  have hrest3 : OwnsCtx t3 rest (some ga) :=
    OwnsCtx.frame (fun x hx => hf3 x (drest x (List.count_pos_iff.mpr hx)).1 (drest x (List.count_pos_iff.mpr hx)).2.1
      (drest x (List.count_pos_iff.mpr hx)).2.2) ((h3r.trans h2r).trans h1r) hrest
  have hgp : (if (ctxPtr rest).isSome = true then (t3.get (ctxPtr rest)).map (·.parent) else some none)
      = some (ctxPtr rest.tail) := by
    cases rest with
    | nil => rfl
    | cons h rest' => simp only [ctxPtr, Option.isSome_some, if_true, hrest3.1, Option.map_some, List.tail_cons]
  refine ⟨t3, ?_, by rw [h3c, h2c, h1c], hrest3, ?_, ?_⟩
  · rw [insertFix]
    simp only [hpR, huR, hp, hg, Option.isSome_some, Bool.true_and, Bool.and_self,
      if_true, Option.bind_eq_bind, Option.bind_some, beq_self_eq_true, hne2, Bool.false_eq_true, if_false, e1, e2, e3, h3a]
    cases rest with
    | nil => rfl
    | cons h rest' =>
      simp only [ctxPtr, Option.isSome_some, if_true, hrest3.1, Option.map_some, Option.bind_some, List.tail_cons]
  · cases fside
    · exact ⟨h3a, ⟨hu3, hfr ul dul t3 _ hf3 hul, hfr ur dur t3 _ hf3 hur⟩, hp3, hfr _ ds t3 _ hf3 hown, hfr fsib dfs t3 _ hf3 hfs⟩
    · exact ⟨h3a, ⟨hu3, hfr ul dul t3 _ hf3 hul, hfr ur dur t3 _ hf3 hur⟩, hp3, hfr fsib dfs t3 _ hf3 hfs, hfr _ ds t3 _ hf3 hown⟩
  · intro x; have := hd x
    cases fside <;>
    · simp only [ctxAddrs, AT.addrs, Frame.fill, List.count_cons, List.count_append, List.count_nil] at this ⊢; omega


end PTree

theorem zipIns_ok_fst (ctx : Ctx K V) (s : AT K V) : (zipIns ctx (s.erase, .ok)).1 = (plug ctx s).erase := by
  rw [zipIns_ok]

namespace PTree

theorem insertFix_spec : ∀ (m : Nat) (ctx : Ctx K V), ctx.length ≤ m → ∀ (t : PTree K V) (na : Nat) (nl nr : AT K V)
    (nk : K) (nv : V) (fuel : Nat),
    OwnsCtx t ctx (some na) → Owns t (ctxPtr ctx) (.node na .red nl nk nv nr) →
    Distinct ctx (.node na .red nl nk nv nr) → ctx.length + 2 ≤ fuel →
    ∃ t' ctx' s', insertFix t fuel (some na) (ctxPtr ctx) (ctxPtr ctx.tail) = some t' ∧ t'.count = t.count ∧
      OwnsCtx t' ctx' s'.ptr ∧ Owns t' (ctxPtr ctx') s' ∧ Distinct ctx' s' ∧ s'.ptr.isSome ∧
      (plug ctx' s').erase = (zipIns ctx ((AT.node na .red nl nk nv nr).erase, .fresh)).1 := by
  intro m
  induction m with
  | zero =>
    intro ctx hlen t na nl nr nk nv fuel hctx hown hd hfuel
    cases ctx with
    | cons f rest => simp at hlen
    | nil =>
      obtain ⟨k, rfl⟩ : ∃ k, fuel = k + 1 := ⟨fuel - 1, by omega⟩
      refine ⟨t, [], .node na .red nl nk nv nr, ?_, rfl, hctx, hown, hd, rfl, rfl⟩
      rw [insertFix]; rfl
  | succ m ih =>
    intro ctx hlen t na nl nr nk nv fuel hctx hown hd hfuel
    match ctx, hlen, hctx, hown, hd, hfuel with
    | [], _, hctx, hown, hd, hfuel =>
      obtain ⟨k, rfl⟩ : ∃ k, fuel = k + 1 := ⟨fuel - 1, by omega⟩
      refine ⟨t, [], .node na .red nl nk nv nr, ?_, rfl, hctx, hown, hd, rfl, rfl⟩
      rw [insertFix]; rfl
    | [f], _, hctx, hown, hd, hfuel =>
      obtain ⟨k, rfl⟩ : ∃ k, fuel = k + 1 := ⟨fuel - 1, by omega⟩
      refine ⟨t, [f], .node na .red nl nk nv nr, ?_, rfl, hctx, hown, hd, rfl, ?_⟩
      · rw [insertFix]; rfl
      · obtain ⟨fside, pa, fc, pk, pv, fsib⟩ := f
        cases fside <;> cases fc <;> rfl
    | ⟨fside, pa, fc, pk, pv, fsib⟩ :: ⟨gside, ga, gc, gk, gv, gsib⟩ :: rest, hlen, hctx, hown, hd, hfuel =>
      simp only [List.length_cons] at hlen hfuel
      obtain ⟨k, rfl⟩ : ∃ k, fuel = k + 3 := ⟨fuel - 3, by omega⟩
      cases fc with
      | black =>
        refine ⟨t, _, .node na .red nl nk nv nr, ?_, rfl, hctx, hown, hd, rfl, ?_⟩
        · have hpB : t.isRed (some pa) = false := by simp only [isRed, hctx.1]; rfl
          rw [insertFix]
          simp only [ctxPtr, List.tail_cons, hpB, Bool.and_false, Bool.false_eq_true, if_false]
        · simp only [zipIns]
          have : (⟨fside, pa, .black, pk, pv, fsib⟩ : Frame K V).after ((AT.node na .red nl nk nv nr).erase, .fresh)
              = (((⟨fside, pa, .black, pk, pv, fsib⟩ : Frame K V).fill (AT.node na .red nl nk nv nr)).erase, .ok) := by
            cases fside <;> rfl
          rw [this, ← zipIns, zipIns_ok]
          rfl
      | red =>
        obtain ⟨hp, hfs, hg, hgs, hrest⟩ := hctx
        cases gside with
        | L =>
          have rotcase : gsib.erase.isRed = false →
              ∃ t' ctx' s', insertFix t (k + 3) (some na) (some pa) (some ga) = some t' ∧ t'.count = t.count ∧
                OwnsCtx t' ctx' s'.ptr ∧ Owns t' (ctxPtr ctx') s' ∧ Distinct ctx' s' ∧ s'.ptr.isSome ∧
                (plug ctx' s').erase = (zipIns (⟨fside, pa, .red, pk, pv, fsib⟩ :: ⟨.L, ga, gc, gk, gv, gsib⟩ :: rest)
                  ((AT.node na .red nl nk nv nr).erase, .fresh)).1 := by
            intro hu
            cases fside with
            | L =>
              obtain ⟨t', e, hc, hctx', hown'⟩ := fix_outer_L t rest ga pa na gc gk pk nk gv pv nv gsib fsib nl nr (k + 1)
                ⟨hg, hgs, hrest⟩ ⟨hp, hown, hfs⟩ (by
                  intro x; have := hd x
                  simp only [ctxAddrs, AT.addrs, List.count_cons, List.count_append, List.count_nil] at this ⊢; omega) hu
              refine ⟨t', rest, .node pa .black (.node na .red nl nk nv nr) pk pv (.node ga .red fsib gk gv gsib), e, hc, hctx', hown', ?_, rfl, ?_⟩
              · intro x; have := hd x
                simp only [ctxAddrs, AT.addrs, List.count_cons, List.count_append, List.count_nil] at this ⊢; omega
              · simp only [zipIns, Frame.after, T.afterChild, T.fixViol, AT.erase, hu, T.setBlack, T.rotR, T.rotL,
                  Bool.false_eq_true, if_false, if_true, reduceCtorEq]
                rw [← zipIns_ok_fst]; rfl
            | R =>
              obtain ⟨t', e, hc, hctx', hown'⟩ := fix_inner_L t rest ga pa na gc gk pk nk gv pv nv gsib fsib nl nr k
                ⟨hg, hgs, hrest⟩ ⟨hp, hfs, hown⟩ (by
                  intro x; have := hd x
                  simp only [ctxAddrs, AT.addrs, List.count_cons, List.count_append, List.count_nil] at this ⊢; omega) hu
              refine ⟨t', rest, .node na .black (.node pa .red fsib pk pv nl) nk nv (.node ga .red nr gk gv gsib), e, hc, hctx', hown', ?_, rfl, ?_⟩
              · intro x; have := hd x
                simp only [ctxAddrs, AT.addrs, List.count_cons, List.count_append, List.count_nil] at this ⊢; omega
              · simp only [zipIns, Frame.after, T.afterChild, T.fixViol, AT.erase, hu, T.setBlack, T.rotR, T.rotL,
                  Bool.false_eq_true, if_false, if_true, reduceCtorEq]
                rw [← zipIns_ok_fst]; rfl
          cases gsib with
          | nil => exact rotcase rfl
          | node ua uc ul uk uv ur =>
            cases uc with
            | black => exact rotcase rfl
            | red =>
              obtain ⟨t1, e1, hc1, hctx1, hown1, hd1⟩ := fix_red_uncle_L t rest fside pa ga ua na gc pk gk uk pv gv uv
                fsib ul ur nl nr .red nk nv (k + 2) ⟨hp, hfs, hg, hgs, hrest⟩ hown hd
              obtain ⟨t', ctx', s', e, hc, h1, h2, h3, h4, h5⟩ := ih rest (by omega) t1 ga _ _ gk gv (k + 2) hctx1 hown1 hd1
                (by omega)
              refine ⟨t', ctx', s', ?_, hc.trans hc1, h1, h2, h3, h4, ?_⟩
              · exact e1.trans e
              · rw [h5]
                cases fside <;>
                · simp only [zipIns, Frame.after, T.afterChild, T.fixViol, AT.erase, T.setBlack, T.isRed, Frame.fill,
                    Bool.false_eq_true, if_false, if_true, reduceCtorEq]
        | R =>
          have rotcase : gsib.erase.isRed = false →
              ∃ t' ctx' s', insertFix t (k + 3) (some na) (some pa) (some ga) = some t' ∧ t'.count = t.count ∧
                OwnsCtx t' ctx' s'.ptr ∧ Owns t' (ctxPtr ctx') s' ∧ Distinct ctx' s' ∧ s'.ptr.isSome ∧
                (plug ctx' s').erase = (zipIns (⟨fside, pa, .red, pk, pv, fsib⟩ :: ⟨.R, ga, gc, gk, gv, gsib⟩ :: rest)
                  ((AT.node na .red nl nk nv nr).erase, .fresh)).1 := by
            intro hu
            cases fside with
            | R =>
              obtain ⟨t', e, hc, hctx', hown'⟩ := fix_outer_R t rest ga pa na gc gk pk nk gv pv nv gsib fsib nl nr (k + 1)
                ⟨hg, hgs, hrest⟩ ⟨hp, hfs, hown⟩ (by
                  intro x; have := hd x
                  simp only [ctxAddrs, AT.addrs, List.count_cons, List.count_append, List.count_nil] at this ⊢; omega) hu
              refine ⟨t', rest, .node pa .black (.node ga .red gsib gk gv fsib) pk pv (.node na .red nl nk nv nr), e, hc, hctx', hown', ?_, rfl, ?_⟩
              · intro x; have := hd x
                simp only [ctxAddrs, AT.addrs, List.count_cons, List.count_append, List.count_nil] at this ⊢; omega
              · simp only [zipIns, Frame.after, T.afterChild, T.fixViol, AT.erase, hu, T.setBlack, T.rotR, T.rotL,
                  Bool.false_eq_true, if_false, if_true, reduceCtorEq]
                rw [← zipIns_ok_fst]; rfl
            | L =>
              obtain ⟨t', e, hc, hctx', hown'⟩ := fix_inner_R t rest ga pa na gc gk pk nk gv pv nv gsib fsib nl nr k
                ⟨hg, hgs, hrest⟩ ⟨hp, hown, hfs⟩ (by
                  intro x; have := hd x
                  simp only [ctxAddrs, AT.addrs, List.count_cons, List.count_append, List.count_nil] at this ⊢; omega) hu
              refine ⟨t', rest, .node na .black (.node ga .red gsib gk gv nl) nk nv (.node pa .red nr pk pv fsib), e, hc, hctx', hown', ?_, rfl, ?_⟩
              · intro x; have := hd x
                simp only [ctxAddrs, AT.addrs, List.count_cons, List.count_append, List.count_nil] at this ⊢; omega
              · simp only [zipIns, Frame.after, T.afterChild, T.fixViol, AT.erase, hu, T.setBlack, T.rotR, T.rotL,
                  Bool.false_eq_true, if_false, if_true, reduceCtorEq]
                rw [← zipIns_ok_fst]; rfl
          cases gsib with
          | nil => exact rotcase rfl
          | node ua uc ul uk uv ur =>
            cases uc with
            | black => exact rotcase rfl
            | red =>
              obtain ⟨t1, e1, hc1, hctx1, hown1, hd1⟩ := fix_red_uncle_R t rest fside pa ga ua na gc pk gk uk pv gv uv
                fsib ul ur nl nr .red nk nv (k + 2) ⟨hp, hfs, hg, hgs, hrest⟩ hown hd
              obtain ⟨t', ctx', s', e, hc, h1, h2, h3, h4, h5⟩ := ih rest (by omega) t1 ga _ _ gk gv (k + 2) hctx1 hown1 hd1
                (by omega)
              refine ⟨t', ctx', s', ?_, hc.trans hc1, h1, h2, h3, h4, ?_⟩
              · exact e1.trans e
              · rw [h5]
                cases fside <;>
                · simp only [zipIns, Frame.after, T.afterChild, T.fixViol, AT.erase, T.setBlack, T.isRed, Frame.fill,
                    Bool.false_eq_true, if_false, if_true, reduceCtorEq]
theorem upd_spec (t : PTree K V) (i : Nat) (f : PNode K V → PNode K V) (x : PNode K V) (h : t.get (some i) = some x) :
    ∃ t', t.upd (some i) f = some t' ∧ t'.get (some i) = some (f x) ∧
      (∀ j, j ≠ i → t'.get (some j) = t.get (some j)) ∧ t'.root = t.root ∧ t'.count = t.count :=
  ⟨_, upd_of_isSome t i _ (by rw [h]; rfl), by rw [get_mod_self, h]; rfl,
    fun j hj => get_mod_ne t _ (Ne.symm hj), rfl, rfl⟩

theorem alloc_get_lt (t : PTree K V) (k : K) (v : V) {x : Nat} (h : x < t.nodes.size) :
    (t.alloc k v).1.get (some x) = t.get (some x) := by
  simp only [alloc, get]
  rw [Array.getElem?_push_lt h]
  simp [h]

theorem alloc_get_new (t : PTree K V) (k : K) (v : V) :
    (t.alloc k v).1.get (some t.nodes.size) = some ⟨k, v, none, none, none, false⟩ := by
  simp [alloc, get]


theorem plug_ptr_isSome : ∀ (ctx : Ctx K V) (s : AT K V), s.ptr.isSome = true → (plug ctx s).ptr.isSome = true
  | [], s, h => h
  | f :: rest, s, h => by
    apply plug_ptr_isSome rest
    obtain ⟨side, a, c, k, v, sib⟩ := f
    cases side <;> rfl

theorem length_le_ctxAddrs : ∀ (ctx : Ctx K V), ctx.length ≤ (ctxAddrs ctx).length
  | [] => Nat.le_refl 0
  | f :: rest => by
    have := length_le_ctxAddrs rest
    simp only [ctxAddrs, List.length_cons, List.length_append]; omega

theorem insert_finish (t3 : PTree K V) (ctx' : Ctx K V) (s' : AT K V) (X : T K V) (n : Nat)
    (h1 : OwnsCtx t3 ctx' s'.ptr) (h2 : Owns t3 (ctxPtr ctx') s') (h3 : Distinct ctx' s') (h4 : s'.ptr.isSome = true)
    (h5 : (plug ctx' s').erase = X) (hc : t3.count = n) :
    ∃ t' s'', ((t3.setBlack t3.root true).bind fun t4 => some { t4 with count := t4.count + 1 }) = some t' ∧
      Owns t' none s'' ∧ t'.root = s''.ptr ∧ s''.addrs.Nodup ∧ s''.erase = X.setBlack ∧ t'.count = n + 1 := by
  obtain ⟨ho, hr⟩ := owns_plug ctx' s' h1 h2
  have hnd := nodup_plug h3
  have hp := plug_ptr_isSome ctx' s' h4
  subst h5
  cases hP : plug ctx' s' with
  | nil => rw [hP] at hp; cases hp
  | node ra rc pl pk pv pr =>
    rw [hP] at ho hr hnd
    obtain ⟨h0, hl, hrr⟩ := ho
    simp only [AT.ptr_node] at hr
    obtain ⟨t4, e4, h4a, h4o, h4r, h4c⟩ := setBlack_spec t3 ra true _ h0
    simp only [AT.addrs, List.nodup_cons, List.mem_append, not_or, List.nodup_append] at hnd
    refine ⟨{ t4 with count := t4.count + 1 }, .node ra .black pl pk pv pr, ?_, ?_, ?_, ?_, rfl, ?_⟩
    · rw [hr, e4]; rfl
    · refine ⟨h4a, Owns.frame (fun x hx => ?_) hl, Owns.frame (fun x hx => ?_) hrr⟩
      · exact h4o x (by rintro rfl; exact hnd.1.1 hx)
      · exact h4o x (by rintro rfl; exact hnd.1.2 hx)
    · exact h4r.trans hr
    · simp only [AT.addrs, List.nodup_cons, List.mem_append, not_or, List.nodup_append]; exact hnd
    · show t4.count + 1 = n + 1
      rw [h4c, hc]

theorem insert_refines (cmp : K → K → Ordering) (t : PTree K V) (s : AT K V) (hown : Owns t none s)
    (hroot : t.root = s.ptr) (hnd : s.addrs.Nodup) (key : K) (val : V) :
    ∃ t' s', t.insert cmp key val = some t' ∧ Owns t' none s' ∧ t'.root = s'.ptr ∧ s'.addrs.Nodup ∧
      s'.erase = T.insert cmp s.erase key val ∧ t'.count = t.count + 1 := by
  have hlt := hown.addr_lt
  have hh := hown.height_le hnd
  -- the memory after `&node{key, value}`
  have hA1 : ∀ x, x < t.nodes.size → (t.alloc key val).1.get (some x) = t.get (some x) := fun x h => alloc_get_lt t key val h
  have hA2 := alloc_get_new t key val
  have hA3 : (t.alloc key val).1.root = t.root := rfl
  have hA4 : (t.alloc key val).1.count = t.count := rfl
  have hA5 : (t.alloc key val).2 = some t.nodes.size := rfl
  have hE : t.insert cmp key val = (do
      let par ← descend cmp (t.alloc key val).1 key (t.nodes.size + 2) t.root t.root
      let t1 ← (t.alloc key val).1.setParent (t.alloc key val).2 par
      let t2 ← if par.isNone then some { t1 with root := (t.alloc key val).2 }
        else do
          let pk := (← t1.get par).key
          if cmp key pk = .lt then t1.setLeft par (t.alloc key val).2 else t1.setRight par (t.alloc key val).2
      let t3 ← if par.isSome then do
          let gp := (← t2.get par).parent
          insertFix t2 (t.nodes.size + 2) (t.alloc key val).2 par gp
        else some t2
      let t4 ← t3.setBlack t3.root true
      some { t4 with count := t4.count + 1 }) := rfl
  rw [hE, hA5]
  generalize (t.alloc key val).1 = t0 at hA1 hA2 hA3 hA4
  have hown0 : Owns t0 none s := Owns.frame (fun x hx => hA1 x (hlt x hx)) hown
  have hd0 : Distinct ([] : Ctx K V) s := fun x => by
    simp only [ctxAddrs, List.count_nil, Nat.zero_add]; exact List.nodup_iff_count.mp hnd x
  obtain ⟨hdesc, hctx, hfol, hdis, hplug⟩ := descend_spec cmp t0 key s [] (t.nodes.size + 2) s.ptr
    (by simp only [OwnsCtx]; rw [hA3]; exact hroot) hown0 (by omega) trivial hd0 (fun e => by rw [e]; rfl)
  rw [hroot, hdesc]
  generalize descendCtx cmp key [] s = ctx at hdesc hctx hfol hdis hplug
  replace hplug : plug ctx .nil = s := hplug
  simp only [Option.bind_eq_bind, Option.bind_some]
  -- every address of the context is an old one
  have hcl : ∀ x, 0 < (ctxAddrs ctx).count x → x < t.nodes.size := by
    intro x hx
    apply hlt x
    rw [← hplug, ← List.count_pos_iff, plug_addrs_count]
    simp only [AT.addrs, List.count_nil]; omega
  have hcN : (ctxAddrs ctx).count t.nodes.size = 0 := by
    rcases Nat.eq_zero_or_pos ((ctxAddrs ctx).count t.nodes.size) with h | h
    · exact h
    · exact absurd (hcl _ h) (Nat.lt_irrefl _)
  have hlen : ctx.length ≤ t.nodes.size := by
    have h1 : (ctxAddrs ctx).length ≤ (List.range t.nodes.size).length :=
      List.Nodup.length_le_of_subset
        (by rw [List.nodup_iff_count]; intro x; have := hdis x; simp only [AT.addrs, List.count_nil] at this; omega)
        (fun x hx => List.mem_range.mpr (hcl x (List.count_pos_iff.mpr hx)))
    rw [List.length_range] at h1
    exact Nat.le_trans (length_le_ctxAddrs ctx) h1
  obtain ⟨t1, e1, h1a, h1o, h1r, h1c⟩ := upd_spec t0 t.nodes.size (fun x => { x with parent := ctxPtr ctx }) _ hA2
  have hS : (T.ins cmp s.erase key val).1 = (zipIns ctx ((AT.node t.nodes.size .red .nil key val .nil).erase, .fresh)).1 := by
    rw [← hplug, ins_plug cmp key val ctx .nil hfol]; rfl
  unfold T.insert
  rw [hS]
  simp only [setParent, e1, Option.bind_some]
  cases ctx with
  | nil =>
    simp only [ctxPtr, Option.isNone_none, if_true, Option.isSome_none, Bool.false_eq_true, if_false, Option.bind_some]
    refine insert_finish _ [] (.node t.nodes.size .red .nil key val .nil) _ t.count ?_ ?_ ?_ rfl rfl ?_
    · rfl
    · exact ⟨(get_root_upd t1 _ _).trans h1a, trivial, trivial⟩
    · intro x; simp only [ctxAddrs, AT.addrs, List.count_nil, List.count_cons, List.append_nil]
      split <;> omega
    · show t1.count = t.count
      rw [h1c, hA4]
  | cons f rest =>
    obtain ⟨hf0, hfs, hrest⟩ := hctx
    obtain ⟨fside, pa, fc, pk, pv, fsib⟩ := f
    have hpaN : pa ≠ t.nodes.size := by
      intro e
      have := hcl pa (by simp [ctxAddrs])
      omega
    have hf1 : t1.get (some pa) = _ := (h1o pa hpaN).trans hf0
    simp only [ctxPtr, Option.isNone_some, Bool.false_eq_true, if_false, Option.isSome_some, if_true, hf1, Option.bind_some]
    cases fside with
    | L =>
      have hc : cmp key pk = .lt := hfol.1.mpr rfl
      obtain ⟨t2, e2, h2a, h2o, h2r, h2c⟩ := upd_spec t1 pa (fun x => { x with left := some t.nodes.size }) _ hf1
      simp only [hc, if_true, setLeft, e2, h2a, Option.bind_some]
      have hfr : ∀ x, x ≠ pa → x ≠ t.nodes.size → t2.get (some x) = t0.get (some x) :=
        fun x h1 h2 => (h2o x h1).trans (h1o x h2)
      have hctx2 : OwnsCtx t2 (⟨.L, pa, fc, pk, pv, fsib⟩ :: rest) (some t.nodes.size) := by
        refine ⟨h2a, Owns.frame (fun x hx => hfr x ?_ ?_) hfs, OwnsCtx.frame (fun x hx => hfr x ?_ ?_) (h2r.trans h1r) hrest⟩
        · have c : 0 < fsib.addrs.count x := List.count_pos_iff.mpr hx
          intro e; subst e; have := hdis x
          simp only [ctxAddrs, AT.addrs, List.count_cons, List.count_append, List.count_nil, beq_self_eq_true, if_true] at this
          omega
        · have c : 0 < fsib.addrs.count x := List.count_pos_iff.mpr hx
          intro e
          have := hcl x (by simp only [ctxAddrs, List.count_cons, List.count_append]; omega)
          omega
        · have c : 0 < (ctxAddrs rest).count x := List.count_pos_iff.mpr hx
          intro e; subst e; have := hdis x
          simp only [ctxAddrs, AT.addrs, List.count_cons, List.count_append, List.count_nil, beq_self_eq_true, if_true] at this
          omega
        · have c : 0 < (ctxAddrs rest).count x := List.count_pos_iff.mpr hx
          intro e
          have := hcl x (by simp only [ctxAddrs, List.count_cons, List.count_append]; omega)
          omega
      have hown2 : Owns t2 (some pa) (.node t.nodes.size .red .nil key val .nil) :=
        ⟨(h2o _ (Ne.symm hpaN)).trans h1a, trivial, trivial⟩
      have hdis2 : Distinct (⟨.L, pa, fc, pk, pv, fsib⟩ :: rest) (.node t.nodes.size .red .nil key val .nil) := by
        intro x
        have h1 := hdis x
        simp only [AT.addrs, List.count_nil, Nat.add_zero, List.append_nil, List.count_cons] at h1 ⊢
        by_cases hx : t.nodes.size = x
        · subst hx; rw [hcN]; simp
        · simp only [beq_iff_eq, hx, if_false]; omega
      obtain ⟨t3, ctx', s', e3, hc3, g1, g2, g3, g4, g5⟩ := insertFix_spec _ (⟨.L, pa, fc, pk, pv, fsib⟩ :: rest)
        (Nat.le_refl _) t2 t.nodes.size .nil .nil key val (t.nodes.size + 2) hctx2 hown2 hdis2 (by omega)
      have e3' : insertFix t2 (t.nodes.size + 2) (some t.nodes.size) (some pa) (ctxPtr rest) = some t3 := e3
      simp only [e3', Option.bind_some]
      exact insert_finish t3 ctx' s' _ t.count g1 g2 g3 g4 g5 (hc3.trans (h2c.trans (h1c.trans hA4)))
    | R =>
      have hc : ¬ cmp key pk = .lt := fun e => by cases hfol.1.mp e
      obtain ⟨t2, e2, h2a, h2o, h2r, h2c⟩ := upd_spec t1 pa (fun x => { x with right := some t.nodes.size }) _ hf1
      simp only [hc, if_false, setRight, e2, h2a, Option.bind_some]
      have hfr : ∀ x, x ≠ pa → x ≠ t.nodes.size → t2.get (some x) = t0.get (some x) :=
        fun x h1 h2 => (h2o x h1).trans (h1o x h2)
      have hctx2 : OwnsCtx t2 (⟨.R, pa, fc, pk, pv, fsib⟩ :: rest) (some t.nodes.size) := by
        refine ⟨h2a, Owns.frame (fun x hx => hfr x ?_ ?_) hfs, OwnsCtx.frame (fun x hx => hfr x ?_ ?_) (h2r.trans h1r) hrest⟩
        · have c : 0 < fsib.addrs.count x := List.count_pos_iff.mpr hx
          intro e; subst e; have := hdis x
          simp only [ctxAddrs, AT.addrs, List.count_cons, List.count_append, List.count_nil, beq_self_eq_true, if_true] at this
          omega
        · have c : 0 < fsib.addrs.count x := List.count_pos_iff.mpr hx
          intro e
          have := hcl x (by simp only [ctxAddrs, List.count_cons, List.count_append]; omega)
          omega
        · have c : 0 < (ctxAddrs rest).count x := List.count_pos_iff.mpr hx
          intro e; subst e; have := hdis x
          simp only [ctxAddrs, AT.addrs, List.count_cons, List.count_append, List.count_nil, beq_self_eq_true, if_true] at this
          omega
        · have c : 0 < (ctxAddrs rest).count x := List.count_pos_iff.mpr hx
          intro e
          have := hcl x (by simp only [ctxAddrs, List.count_cons, List.count_append]; omega)
          omega
      have hown2 : Owns t2 (some pa) (.node t.nodes.size .red .nil key val .nil) :=
        ⟨(h2o _ (Ne.symm hpaN)).trans h1a, trivial, trivial⟩
      have hdis2 : Distinct (⟨.R, pa, fc, pk, pv, fsib⟩ :: rest) (.node t.nodes.size .red .nil key val .nil) := by
        intro x
        have h1 := hdis x
        simp only [AT.addrs, List.count_nil, Nat.add_zero, List.append_nil, List.count_cons] at h1 ⊢
        by_cases hx : t.nodes.size = x
        · subst hx; rw [hcN]; simp
        · simp only [beq_iff_eq, hx, if_false]; omega
      obtain ⟨t3, ctx', s', e3, hc3, g1, g2, g3, g4, g5⟩ := insertFix_spec _ (⟨.R, pa, fc, pk, pv, fsib⟩ :: rest)
        (Nat.le_refl _) t2 t.nodes.size .nil .nil key val (t.nodes.size + 2) hctx2 hown2 hdis2 (by omega)
      have e3' : insertFix t2 (t.nodes.size + 2) (some t.nodes.size) (some pa) (ctxPtr rest) = some t3 := e3
      simp only [e3', Option.bind_some]
      exact insert_finish t3 ctx' s' _ t.count g1 g2 g3 g4 g5 (hc3.trans (h2c.trans (h1c.trans hA4)))

/-- the memory `t` represents the addressed tree `s`: it owns it from `t.root` (no parent above the root) and the
    addresses are pairwise distinct -/
structure Rep (t : PTree K V) (s : AT K V) : Prop where
  owns : Owns t none s
  root : t.root = s.ptr
  nodup : s.addrs.Nodup

theorem Rep.empty : Rep (PTree.empty : PTree K V) .nil := ⟨trivial, rfl, List.nodup_nil⟩

theorem Rep.abs {t : PTree K V} {s : AT K V} (h : Rep t s) : t.abs = some s.erase :=
  abs_of_owns t s h.owns h.root h.nodup

/-- a history of insertions on the pointer-level model -/
def insertAll (cmp : K → K → Ordering) (t : PTree K V) : List (K × V) → Option (PTree K V)
  | [] => some t
  | (k, v) :: rest => (t.insert cmp k v).bind fun t' => insertAll cmp t' rest

theorem insertAll_refines (cmp : K → K → Ordering) : ∀ (kvs : List (K × V)) (t : PTree K V) (s : AT K V), Rep t s →
    ∃ t' s', insertAll cmp t kvs = some t' ∧ Rep t' s' ∧
      s'.erase = kvs.foldl (fun x e => T.insert cmp x e.1 e.2) s.erase ∧ t'.count = t.count + kvs.length
  | [], t, s, h => ⟨t, s, rfl, h, rfl, rfl⟩
  | (k, v) :: rest, t, s, h => by
    obtain ⟨t1, s1, e1, ho, hr, hn, he, hc⟩ := insert_refines cmp t s h.owns h.root h.nodup k v
    obtain ⟨t2, s2, e2, h2, he2, hc2⟩ := insertAll_refines cmp rest t1 s1 ⟨ho, hr, hn⟩
    refine ⟨t2, s2, ?_, h2, ?_, ?_⟩
    · simp only [insertAll, e1, Option.bind_some, e2]
    · rw [he2, he]; rfl
    · rw [hc2, hc, List.length_cons]; omega

end PTree
end RB
