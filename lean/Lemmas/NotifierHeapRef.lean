import Lemmas.NotifierIndep
import Lemmas.NotifierInv
/-! C17: the heap-cell model with copying merges REFINES the value model the driver executes: along every history the
    dereferenced production map of every notifier is, as a list, the production map of `Nt.step`'s world. -/
namespace NtH
open Nt

section generic
variable {κ ν : Type} [DecidableEq κ]

theorem assocGet_deref (pm : List (κ × Addr)) (heap : Addr → ν) (n : κ) :
    assocGet (pm.map (fun e => (e.1, heap e.2))) n = (assocGet pm n).map heap := by
  induction pm with
  | nil => rfl
  | cons e l ih =>
    obtain ⟨k, a⟩ := e
    simp only [List.map_cons, assocGet]
    split
    · rfl
    · exact ih

/-- writing the cell `a` that name `n` references = `assocSet` of the dereferenced list -/
theorem deref_write (pm : List (κ × Addr)) (heap : Addr → ν) (n : κ) (a : Addr) (v : ν)
    (hg : assocGet pm n = some a) (hn : (pm.map (·.2)).Nodup) :
    pm.map (fun e => (e.1, hset heap a v e.2)) = assocSet (pm.map (fun e => (e.1, heap e.2))) n v := by
  induction pm with
  | nil => simp [assocGet] at hg
  | cons e l ih =>
    obtain ⟨k, b⟩ := e
    simp only [List.map_cons, List.nodup_cons] at hn
    simp only [assocGet] at hg
    simp only [List.map_cons, assocSet]
    by_cases hk : k = n
    · simp only [hk, if_true, Option.some.injEq] at hg ⊢
      subst hg
      have hrest : l.map (fun e => (e.1, hset heap b v e.2)) = l.map (fun e => (e.1, heap e.2)) := by
        apply List.map_congr_left
        intro e he
        have : e.2 ≠ b := fun eq => hn.1 (List.mem_map.mpr ⟨e, he, eq⟩)
        simp [hset, this]
      rw [hrest]; simp [hset]
    · simp only [hk, if_false] at hg ⊢
      have hb : b ≠ a := by
        intro eq; subst eq
        exact hn.1 (List.mem_map.mpr ⟨(n, b), mem_of_assocGet _ _ _ hg, rfl⟩)
      simp only [hset, hb, if_false]
      rw [← ih hg hn.2]
      rfl

/-- a name `n` the map does not know yet gets a fresh cell = `assocSet` of the dereferenced list -/
theorem deref_alloc (pm : List (κ × Addr)) (heap : Addr → ν) (n : κ) (nx : Addr) (v : ν)
    (hg : assocGet pm n = none) (hb : ∀ e ∈ pm, e.2 < nx) :
    (assocSet pm n nx).map (fun e => (e.1, hset heap nx v e.2)) = assocSet (pm.map (fun e => (e.1, heap e.2))) n v := by
  induction pm with
  | nil => simp [assocSet, hset]
  | cons e l ih =>
    obtain ⟨k, b⟩ := e
    simp only [assocGet] at hg
    by_cases hk : k = n
    · simp [hk] at hg
    · simp only [hk, if_false] at hg
      have hbn : b ≠ nx := Nat.ne_of_lt (hb (k, b) (by simp))
      simp only [assocSet, hk, if_false, List.map_cons, hset, hbn]
      rw [← ih hg (fun e he => hb e (List.mem_cons_of_mem _ he))]
      rfl

theorem eq_of_nodup_addrs (l : List (κ × Addr)) (hn : (l.map (·.2)).Nodup) (x y : κ × Addr) (hx : x ∈ l) (hy : y ∈ l)
    (h : x.2 = y.2) : x = y := by
  induction l with
  | nil => cases hx
  | cons e l ih =>
    simp only [List.map_cons, List.nodup_cons] at hn
    rcases List.mem_cons.mp hx with hx | hx <;> rcases List.mem_cons.mp hy with hy | hy
    · rw [hx, hy]
    · exact absurd (List.mem_map.mpr ⟨y, hy, by rw [← h, hx]⟩) hn.1
    · exact absurd (List.mem_map.mpr ⟨x, hx, by rw [h, hy]⟩) hn.1
    · exact ih hn.2 hx hy

/-- dropping name `n` (whose cell `a` may have been written) = `assocDel` of the dereferenced list -/
theorem deref_drop (pm : List (κ × Addr)) (heap : Addr → ν) (n : κ) (a : Addr) (v : ν)
    (hg : assocGet pm n = some a) (hn : (pm.map (·.2)).Nodup) :
    (assocDel pm n).map (fun e => (e.1, hset heap a v e.2)) = assocDel (pm.map (fun e => (e.1, heap e.2))) n := by
  have hmem : (n, a) ∈ pm := mem_of_assocGet _ _ _ hg
  unfold assocDel
  rw [List.filter_map]
  apply List.map_congr_left
  intro e he
  have he' := List.mem_filter.mp he
  have hne : e.1 ≠ n := by simpa using he'.2
  have : e.2 ≠ a := by
    intro eq
    -- two entries with the same address are the same entry
    have := eq_of_nodup_addrs pm hn e (n, a) he'.1 hmem eq
    exact hne (by rw [this])
  simp [hset, this]

/-- the generic update refines `assocSet … (f (getD z))` of the dereferenced list -/
theorem deref_hUpd (H : HWorld κ ν) (hs : Sep H) (i : Nat) (k : κ) (f : ν → ν) (z : ν) :
    deref (hUpd H i k f z) i = assocSet (deref H i) k (f ((assocGet (deref H i) k).getD z)) := by
  unfold hUpd
  have hgd : assocGet (deref H i) k = (assocGet (H.pm i) k).map H.heap := assocGet_deref _ _ _
  rw [hgd]
  cases hg : assocGet (H.pm i) k with
  | some a => exact deref_write _ _ k a _ hg (hs.nodupA i)
  | none =>
    simp only [deref, upd, if_true, Option.map_none, Option.getD_none]
    exact deref_alloc _ _ k _ _ hg (fun e he => hs.bound i e.2 ⟨e.1, he⟩)

theorem deref_hMergeG (comb : ν → ν → ν) (H : HWorld κ ν) (hs : Sep H) (i : Nat) (e : κ × Addr) :
    deref (hMergeG comb true i H e) i =
      (match assocGet (deref H i) e.1 with
       | some mine => assocSet (deref H i) e.1 (comb mine (H.heap e.2))
       | none => assocSet (deref H i) e.1 (H.heap e.2)) := by
  unfold hMergeG
  have hgd : assocGet (deref H i) e.1 = (assocGet (H.pm i) e.1).map H.heap := assocGet_deref _ _ _
  simp only [hgd]
  cases hg : assocGet (H.pm i) e.1 with
  | some a => exact deref_write _ _ e.1 a _ hg (hs.nodupA i)
  | none =>
    simp only [deref, upd, if_true, Option.map_none]
    exact deref_alloc _ _ e.1 _ _ hg (fun x hx => hs.bound i x.2 ⟨x.1, hx⟩)

theorem deref_hDel (H : HWorld κ ν) (i : Nat) (k : κ) : deref (hDel H i k) i = assocDel (deref H i) k := by
  simp only [deref, hDel, upd, if_true]
  unfold assocDel
  rw [List.filter_map]
  rfl

theorem fold_ref {α : Type} (f : HWorld κ ν → α → HWorld κ ν) (g : List (κ × ν) → α → List (κ × ν)) (i : Nat)
    (hf : ∀ H x, Sep H → Frame H (f H x) i) (hd : ∀ H x, Sep H → deref (f H x) i = g (deref H i) x)
    (l : List α) (H : HWorld κ ν) (hs : Sep H) :
    deref (l.foldl f H) i = l.foldl g (deref H i) ∧ Frame H (l.foldl f H) i := by
  induction l generalizing H with
  | nil => exact ⟨rfl, frame_refl H i hs⟩
  | cons x l ih =>
    obtain ⟨a, b⟩ := ih (f H x) (hf H x hs).sep
    simp only [List.foldl_cons]
    exact ⟨by rw [a, hd H x hs], frame_trans (hf H x hs) b⟩

/-- the merge loop over the source's entries: the cells of the source are not touched while the destination is written -/
theorem mergeG_ref (comb : ν → ν → ν) (g : List (κ × ν) → κ × ν → List (κ × ν))
    (hg : ∀ l (e : κ × ν), g l e = (match assocGet l e.1 with
       | some mine => assocSet l e.1 (comb mine e.2)
       | none => assocSet l e.1 e.2))
    (H0 : HWorld κ ν) (hs0 : Sep H0) (i m : Nat) (him : i ≠ m) (l : List (κ × Addr))
    (hl : ∀ e ∈ l, e ∈ H0.pm m) (H : HWorld κ ν) (hfr : Frame H0 H i) :
    deref (l.foldl (hMergeG comb true i) H) i = (l.map (fun e => (e.1, H0.heap e.2))).foldl g (deref H i) ∧
    Frame H0 (l.foldl (hMergeG comb true i) H) i := by
  induction l generalizing H with
  | nil => exact ⟨rfl, hfr⟩
  | cons e l ih =>
    have hown : Owns H0 m e.2 := ⟨e.1, hl e (by simp)⟩
    have hcell : H.heap e.2 = H0.heap e.2 :=
      hfr.cells e.2 (hs0.bound m _ hown) (fun hi => him (hs0.disj i m _ hi hown))
    have h1 := frame_hMergeG comb H hfr.sep i e
    obtain ⟨a, b⟩ := ih (fun x hx => hl x (List.mem_cons_of_mem _ hx)) (hMergeG comb true i H e) (frame_trans hfr h1)
    simp only [List.foldl_cons, List.map_cons]
    exact ⟨by rw [a, deref_hMergeG comb H hfr.sep i e, hcell, hg], b⟩

end generic

end NtH

namespace NtH
open Nt

theorem deref_hRegOne (H : PW) (hs : Sep H) (i : Nat) (n : Name) (t : Nat) (p : Int) :
    deref (hRegOne H i n t p) i = registerOne (deref H i) n t p := deref_hUpd H hs i n _ _

theorem deref_hUnregOne (H : PW) (hs : Sep H) (i t : Nat) (n : Name) :
    deref (hUnregOne i t H n) i = unregStep t (deref H i) n := by
  unfold hUnregOne unregStep
  have hgd : assocGet (deref H i) n = (assocGet (H.pm i) n).map H.heap := assocGet_deref _ _ _
  rw [hgd]
  cases hg : assocGet (H.pm i) n with
  | none => rfl
  | some a =>
    simp only [Option.map_some]
    by_cases he : assocDel (H.heap a) t = []
    · simp only [he, if_true, deref, upd]
      exact deref_drop _ _ n a _ hg (hs.nodupA i)
    · simp only [he, if_false]
      exact deref_write _ _ n a _ hg (hs.nodupA i)

theorem deref_hMergeStep (H : PW) (hs : Sep H) (i : Nat) (e : Name × Addr) :
    deref (hMergeStep true i H e) i = stepMerge (deref H i) (e.1, H.heap e.2) := by
  unfold hMergeStep stepMerge
  rw [deref_hMergeG overlay H hs i e]
  cases assocGet (deref H i) e.1 <;> rfl

theorem merge_ref (H0 : PW) (hs0 : Sep H0) (i m : Nat) (him : i ≠ m) (l : List (Name × Addr))
    (hl : ∀ e ∈ l, e ∈ H0.pm m) (H : PW) (hfr : Frame H0 H i) :
    deref (l.foldl (hMergeStep true i) H) i = (l.map (fun e => (e.1, H0.heap e.2))).foldl stepMerge (deref H i) ∧
    Frame H0 (l.foldl (hMergeStep true i) H) i :=
  mergeG_ref overlay stepMerge (fun l e => by unfold stepMerge; cases assocGet l e.1 <;> rfl) H0 hs0 i m him l hl H hfr

/-- the heap operations a value-level operation amounts to (`w`: the value world, for the name list `Unregister` walks) -/
def toH (w : World) : Op → List HOp
  | .register i t p raws => (normNames raws).map (fun n => HOp.reg i n t p)
  | .unregister i t => match assocGet (w i).names t with
    | none => []
    | some ns => [HOp.unreg i t ns]
  | .merge i m => [HOp.merge true i m]
  | .reset i => [HOp.reset i]
  | _ => []

/-- the refinement relation: separation, and every notifier's dereferenced production map IS the value model's -/
def Ref (w : World) (H : PW) : Prop := Sep H ∧ ∀ i, deref H i = (w i).prod

theorem register_prod (s : NSt) (t : Nat) (p : Int) (raws : List (List Nat)) :
    (register s t p raws).prod = registerAll s.prod (normNames raws) t p := by
  unfold register
  simp only
  split
  · rename_i h; rw [h]; rfl
  · rw [regLoop_prod]; split <;> rfl

theorem startBatch_prod (s : NSt) : (startBatch s).1.prod = s.prod := by
  unfold startBatch; split
  · rfl
  · simp only; split <;> rfl

theorem endBatch_prod (s : NSt) : (endBatch s).1.prod = s.prod := by
  unfold endBatch; split
  · simp only; split <;> rfl
  · rfl

end NtH

namespace NtH
open Nt

theorem ref_of_frame (w : World) (H H' : PW) (i : Nat) (s' : NSt) (hr : Ref w H) (hf : Frame H H' i)
    (hi : deref H' i = s'.prod) : Ref (w.set i s') H' := by
  refine ⟨hf.sep, fun j => ?_⟩
  by_cases hj : j = i
  · subst hj; simp only [World.set, if_true]; exact hi
  · simp only [World.set, if_neg hj]
    rw [deref_of_frame H H' i j hr.1 hf hj]; exact hr.2 j

theorem ref_same (w : World) (H : PW) (i : Nat) (s' : NSt) (hr : Ref w H) (hp : s'.prod = (w i).prod) :
    Ref (w.set i s') H :=
  ref_of_frame w H H i s' hr (frame_refl H i hr.1) (by rw [hr.2 i, hp])

/-- **one operation**: the heap model with copying merges stays in the refinement relation with the value model -/
theorem ref_step (pan : Nat → Bool) (w : World) (H : PW) (hr : Ref w H) (op : Op) :
    Ref (step pan w op).1 ((toH w op).foldl hstep H) := by
  cases op with
  | register i t p raws =>
    simp only [step, toH, List.foldl_map]
    obtain ⟨a, b⟩ := fold_ref (fun H n => hRegOne H i n t p) (fun prod n => registerOne prod n t p) i
      (fun H n hs => frame_hRegOne H hs i n t p) (fun H n hs => deref_hRegOne H hs i n t p) (normNames raws) H hr.1
    refine ref_of_frame w H _ i _ hr b ?_
    show deref (List.foldl (fun H n => hstep H (HOp.reg i n t p)) H (normNames raws)) i = _
    rw [register_prod, ← hr.2 i]
    exact a
  | unregister i t =>
    simp only [step, toH]
    cases hg : assocGet (w i).names t with
    | none =>
      simp only [List.foldl_nil]
      exact ref_same w H i _ hr (by unfold unregister; rw [hg])
    | some ns =>
      simp only [List.foldl_cons, List.foldl_nil, hstep]
      obtain ⟨a, b⟩ := fold_ref (hUnregOne i t) (unregStep t) i
        (fun H n hs => frame_hUnregOne H hs i t n) (fun H n hs => deref_hUnregOne H hs i t n) ns H hr.1
      refine ref_of_frame w H _ i _ hr b ?_
      rw [a, hr.2 i]
      unfold unregister; rw [hg]
  | merge i m =>
    simp only [step, toH, List.foldl_cons, List.foldl_nil, hstep]
    by_cases him : i = m
    · simp only [him, if_true]; exact hr
    · simp only [him, if_false]
      obtain ⟨a, b⟩ := merge_ref H hr.1 i m him (H.pm m) (fun e he => he) H (frame_refl H i hr.1)
      refine ref_of_frame w H _ i _ hr b ?_
      rw [a]
      show List.foldl stepMerge (deref H i) (deref H m) = (mergeFrom (w i) (w m)).prod
      rw [hr.2 i, hr.2 m]; rfl
  | reset i =>
    simp only [step, toH, List.foldl_cons, List.foldl_nil]
    exact ref_of_frame w H _ i _ hr (frame_reset H hr.1 i) (by simp [hstep, deref, upd, reset])
  | setEnabled i b => exact ref_same w H i _ hr rfl
  | startBatch i => exact ref_same w H i _ hr (startBatch_prod _)
  | endBatch i => exact ref_same w H i _ hr (endBatch_prod _)
  | notify i raw => exact hr

/-- the heap world that accompanies a history of the value model -/
def hrunAlong (pan : Nat → Bool) : World → PW → List Op → PW
  | _, H, [] => H
  | w, H, op :: ops => hrunAlong pan (step pan w op).1 ((toH w op).foldl hstep H) ops

theorem ref_run (pan : Nat → Bool) (ops : List Op) (w : World) (H : PW) (hr : Ref w H) :
    Ref (runFrom pan w ops).1 (hrunAlong pan w H ops) := by
  induction ops generalizing w H with
  | nil => exact hr
  | cons op ops ih => simp only [runFrom, hrunAlong]; exact ih _ _ (ref_step pan w H hr op)

theorem ref_init : Ref World.init (HWorld.init []) := ⟨sep_init [], fun _ => rfl⟩

end NtH
