import Lemmas.F64Cmp
import Lemmas.Conv128Big
/-! C02 float lemmas, part 3 (core Lean only): `Uint128FromFloat64` / `Int128FromFloat64` return the truncated value
    saturated to the type's range and never evaluate an out-of-range float → integer conversion. -/
namespace Conv
open GoSem GoSem.F64

/-- truncated magnitude of `m · 2^e` -/
def truncNat (m : Nat) (e : Int) : Nat := if e ≥ 0 then m * 2^e.toNat else m / 2^(-e).toNat

theorem truncInt_fin (s : Bool) (m : Nat) (e : Int) :
    truncInt (.fin s m e) = if s then -(truncNat m e : Int) else (truncNat m e : Int) := by
  unfold truncInt sInt truncNat; rfl

theorem toU64_fin (m : Nat) (e : Int) (h : truncNat m e < 2^64) : toU64 (.fin false m e) = .ok (truncNat m e) := by
  unfold toU64
  rw [truncInt_fin]
  simp only [Bool.false_eq_true, if_false, isFinite, Bool.true_and]
  rw [if_pos (by simp; omega)]
  simp

theorem truncNat_small (m : Nat) (e : Int) (hm : m < 2^53) (he : e ≤ 11) : truncNat m e < 2^64 := by
  unfold truncNat
  split
  · have h1 : 2^e.toNat ≤ 2^11 := Nat.pow_le_pow_right (by decide) (by omega)
    calc m * 2^e.toNat < 2^53 * 2^11 := Nat.mul_lt_mul_of_lt_of_le hm h1 (by decide)
      _ = 2^64 := by decide
  · exact Nat.lt_of_le_of_lt (Nat.div_le_self _ _) (Nat.lt_trans hm (by decide))

/-- a value below 2^64 imported as one word is what `FromBigInt` gives -/
theorem fromBigInt_small (t : Nat) (h : t < 2^64) : (⟨0#64, BitVec.ofNat 64 t⟩ : U128) = U128.fromBigInt (t : Int) := by
  apply U128.eq_of_toNat_eq
  have := U128.fromBigInt_spec (t : Int)
  rw [if_neg (by omega), if_pos (by omega)] at this
  have e : (⟨0#64, BitVec.ofNat 64 t⟩ : U128).toNat = t := by
    simp only [U128.toNat, BitVec.toNat_ofNat]; omega
  omega

theorem fromBigInt_two (n : Nat) (h : n < 2^128) :
    (⟨BitVec.ofNat 64 (n / 2^64), BitVec.ofNat 64 (n % 2^64)⟩ : U128) = U128.fromBigInt (n : Int) := by
  apply U128.eq_of_toNat_eq
  have := U128.fromBigInt_spec (n : Int)
  rw [if_neg (by omega), if_pos (by omega)] at this
  have e : (⟨BitVec.ofNat 64 (n / 2^64), BitVec.ofNat 64 (n % 2^64)⟩ : U128).toNat = n := by
    simp only [U128.toNat, BitVec.toNat_ofNat]; omega
  omega

theorem fromBigInt_big (n : Nat) (h : 2^128 ≤ n) : U128.max = U128.fromBigInt (n : Int) := by
  apply U128.eq_of_toNat_eq
  have := U128.fromBigInt_spec (n : Int)
  rw [if_neg (by omega), if_neg (by omega)] at this
  have e : U128.max.toNat = 2^128 - 1 := by decide
  omega

/-! ### the large branch: `f / 2^64` and `math.Mod(f, 2^64)` are exact -/

theorem div_wrap (m k : Nat) (hm1 : 2^52 ≤ m) (hm2 : m < 2^53) (hk : k ≤ 75) :
    F64.div (.fin false m (k : Int)) wrapUint64Float = .fin false m ((k : Int) - 64) := by
  have hm0 : (m == 0) = false := by simp; omega
  unfold F64.div wrapUint64Float
  simp only [hm0, Bool.false_eq_true, if_false, bne_self_eq_false]
  have hw : ((2:Nat)^52 == 0) = false := by decide
  rw [hw]; simp only [Bool.false_eq_true, if_false]
  have e1 : num m (k : Int) = m * 2^k := by unfold num; rw [if_pos (by omega)]; simp
  have e2 : den (12 : Int) = 1 := by decide
  have e3 : den (k : Int) = 1 := by unfold den; rw [if_pos (by omega)]
  have e4 : num (2^52) (12 : Int) = 2^64 := by decide
  rw [e1, e2, e3, e4, Nat.mul_one, Nat.one_mul]
  have hex : Exact (m * 2^k) (2^64) m ((k : Int) - 64) := by
    unfold Exact
    by_cases hge : 64 ≤ k
    · obtain ⟨j, rfl⟩ : ∃ j, k = 64 + j := ⟨k - 64, by omega⟩
      rw [if_pos (by omega)]
      have : (((64 + j : Nat) : Int) - 64).toNat = j := by omega
      rw [this, ← Nat.pow_add]
    · obtain ⟨j, hj⟩ : ∃ j, 64 = k + j := ⟨64 - k, by omega⟩
      rw [if_neg (by omega)]
      have : (-((k : Int) - 64)).toNat = j := by omega
      rw [this, Nat.mul_assoc, ← Nat.pow_add, ← hj]
  unfold ofRat
  rw [roundRatN_exact false _ _ _ _ (pow_pos' 64) hex hm1 hm2 (by omega) (by omega)]
  exact decode_encodeNormal false _ _ hm1 hm2 (by omega) (by omega)

theorem truncNat_div (m k : Nat) : truncNat m ((k : Int) - 64) = m * 2^k / 2^64 := by
  unfold truncNat
  by_cases hge : 64 ≤ k
  · obtain ⟨j, rfl⟩ : ∃ j, k = 64 + j := ⟨k - 64, by omega⟩
    rw [if_pos (by omega)]
    have : (((64 + j : Nat) : Int) - 64).toNat = j := by omega
    rw [this, Nat.pow_add, ← Nat.mul_assoc, Nat.mul_right_comm, Nat.mul_div_cancel _ (pow_pos' 64)]
  · obtain ⟨j, hj⟩ : ∃ j, 64 = k + (j + 1) := ⟨63 - k, by omega⟩
    rw [if_neg (by omega)]
    have : (-((k : Int) - 64)).toNat = j + 1 := by omega
    rw [this, hj, Nat.pow_add 2 k (j + 1), ← Nat.div_div_eq_div_mul, Nat.mul_div_cancel _ (pow_pos' k)]

/-- every positive integer `k·2^t` with `k < 2^53` is a float whose truncation is itself -/
theorem ofRat_nat_repr (k t : Nat) (hk : 0 < k) (hk2 : k < 2^53) (ht : t ≤ 900) :
    ∃ M E, ofRat false (k * 2^t) 1 = .fin false M E ∧ truncNat M E = k * 2^t := by
  have hkn : k ≠ 0 := by omega
  obtain ⟨l1, l2⟩ := log_bounds k hkn
  have hl : k.log2 < 53 := (Nat.log2_lt hkn).mpr hk2
  have hm1 : 2^52 ≤ k * 2^(52 - k.log2) := by
    calc 2^52 = 2^k.log2 * 2^(52 - k.log2) := by rw [← Nat.pow_add]; congr 1; omega
      _ ≤ _ := Nat.mul_le_mul_right _ l1
  have hm2 : k * 2^(52 - k.log2) < 2^53 := by
    calc k * 2^(52 - k.log2) < 2^(k.log2 + 1) * 2^(52 - k.log2) := Nat.mul_lt_mul_of_pos_right l2 (pow_pos' _)
      _ = 2^53 := by rw [← Nat.pow_add]; congr 1; omega
  have hex : Exact (k * 2^t) 1 (k * 2^(52 - k.log2)) ((t : Int) - (52 - k.log2 : Nat)) := by
    unfold Exact
    split
    · rename_i hge
      have : t = (52 - k.log2) + ((t : Int) - (52 - k.log2 : Nat)).toNat := by omega
      rw [Nat.one_mul, Nat.mul_assoc, ← Nat.pow_add, ← this]
    · rename_i hge
      have : 52 - k.log2 = t + (-((t : Int) - (52 - k.log2 : Nat))).toNat := by omega
      rw [Nat.mul_one, Nat.mul_assoc, ← Nat.pow_add, ← this]
  refine ⟨k * 2^(52 - k.log2), (t : Int) - (52 - k.log2 : Nat), ?_, ?_⟩
  · unfold ofRat
    rw [roundRatN_exact false _ 1 _ _ (by decide) hex hm1 hm2 (by omega) (by omega)]
    exact decode_encodeNormal false _ _ hm1 hm2 (by omega) (by omega)
  · unfold Exact at hex
    unfold truncNat
    split at hex
    · rename_i he; rw [if_pos he, hex, Nat.one_mul]
    · rename_i he
      rw [if_neg he, ← Nat.mul_one (k * 2^(52 - k.log2)), ← hex, Nat.mul_div_cancel _ (pow_pos' _)]

theorem mod_wrap (m k : Nat) (hm1 : 2^52 ≤ m) (hm2 : m < 2^53) (hk : k ≤ 75) :
    toU64 (F64.mod (.fin false m (k : Int)) wrapUint64Float) = .ok (m * 2^k % 2^64) := by
  unfold F64.mod wrapUint64Float
  have hw : ((2:Nat)^52 == 0) = false := by decide
  simp only [hw, Bool.false_eq_true, if_false]
  have e1 : num m (k : Int) = m * 2^k := by unfold num; rw [if_pos (by omega)]; simp
  have e2 : den (12 : Int) = 1 := by decide
  have e3 : den (k : Int) = 1 := by unfold den; rw [if_pos (by omega)]
  have e4 : num (2^52) (12 : Int) = 2^64 := by decide
  rw [e1, e2, e3, e4, Nat.mul_one, Nat.mul_one]
  by_cases hr : m * 2^k % 2^64 = 0
  · have : (m * 2^k % 2^64 == 0) = true := by simp [hr]
    rw [this, if_pos rfl, hr]
    have h0 : truncNat 0 (-1074) = 0 := by unfold truncNat; simp
    rw [toU64_fin 0 (-1074) (by rw [h0]; decide), h0]
  · have : (m * 2^k % 2^64 == 0) = false := by simp [hr]
    rw [this]; simp only [Bool.false_eq_true, if_false]
    have hk64 : k < 64 := by
      apply Classical.byContradiction; intro hc
      obtain ⟨j, rfl⟩ : ∃ j, k = 64 + j := ⟨k - 64, by omega⟩
      apply hr
      rw [Nat.pow_add, ← Nat.mul_assoc, Nat.mul_right_comm]; exact Nat.mul_mod_left _ _
    obtain ⟨j, hj⟩ : ∃ j, 64 = j + k := ⟨64 - k, by omega⟩
    have hrr : m * 2^k % 2^64 = (m % 2^j) * 2^k := by
      rw [hj, Nat.pow_add 2 j k, Nat.mul_mod_mul_right]
    have hpos : 0 < m % 2^j := by
      apply Nat.pos_of_ne_zero; intro hc; apply hr; rw [hrr, hc, Nat.zero_mul]
    obtain ⟨M, E, h1, h2⟩ := ofRat_nat_repr (m % 2^j) k hpos (Nat.lt_of_le_of_lt (Nat.mod_le _ _) hm2) (by omega)
    rw [Nat.mul_one, hrr, h1, toU64_fin M E (by rw [h2, ← hrr]; exact Nat.mod_lt _ (pow_pos' 64)), h2]

/-! ### the two constructors -/

theorem truncNat_lt (m : Nat) (e : Int) (E : Nat) (hm : m < 2^53) (he : e ≤ E) : truncNat m e < 2^(53 + E) := by
  unfold truncNat
  split
  · have h1 : 2^e.toNat ≤ 2^E := Nat.pow_le_pow_right (by decide) (by omega)
    calc m * 2^e.toNat < 2^53 * 2^E := Nat.mul_lt_mul_of_lt_of_le hm h1 (pow_pos' _)
      _ = 2^(53 + E) := by rw [Nat.pow_add]
  · exact Nat.lt_of_le_of_lt (Nat.div_le_self _ _) (Nat.lt_of_lt_of_le hm (Nat.pow_le_pow_right (by decide) (by omega)))

theorem truncNat_ge (m : Nat) (e : Int) (E : Nat) (hm : 2^52 ≤ m) (he : (E : Int) ≤ e) : 2^(52 + E) ≤ truncNat m e := by
  unfold truncNat
  rw [if_pos (by omega)]
  have h1 : 2^E ≤ 2^e.toNat := Nat.pow_le_pow_right (by decide) (by omega)
  calc 2^(52 + E) = 2^52 * 2^E := by rw [Nat.pow_add]
    _ ≤ m * 2^e.toNat := Nat.mul_le_mul hm h1

theorem truncNat_nat (m k : Nat) : truncNat m (k : Int) = m * 2^k := by
  unfold truncNat; rw [if_pos (by omega)]; simp

theorem U128.fromBigInt_nonpos (z : Int) (h : z ≤ 0) : U128.fromBigInt z = U128.zero := by
  apply U128.eq_of_toNat_eq
  have := U128.fromBigInt_spec z
  have e : U128.zero.toNat = 0 := by decide
  split at this
  · omega
  · rw [if_pos (by omega)] at this; omega

/-- **`Uint128FromFloat64` on a finite value**: the truncated value saturated to `[0, 2^128)`; every float → integer
    conversion that is evaluated is in range -/
theorem U128.fromFloat64_fin (s : Bool) (m : Nat) (e : Int) (hwf : WF (.fin s m e)) :
    U128.fromFloat64 (.fin s m e) = .ok (U128.fromBigInt (truncInt (.fin s m e))) := by
  obtain ⟨hm, he1, he2, hn⟩ := hwf
  unfold U128.fromFloat64
  rw [le_zero_fin s m e he1, ne_self_fin, Bool.or_false, truncInt_fin]
  by_cases h0 : s = true ∨ m = 0
  · have : (s || m == 0) = true := by rcases h0 with h | h <;> simp [h]
    rw [if_pos this, U128.fromBigInt_nonpos]
    rcases h0 with h | h
    · rw [if_pos h]; omega
    · subst h
      have : truncNat 0 e = 0 := by unfold truncNat; simp
      rw [this]; split <;> omega
  · have hs : s = false := by cases s <;> simp_all
    have hm0 : m ≠ 0 := fun c => h0 (Or.inr c)
    subst hs
    have : (false || m == 0) = false := by simp [hm0]
    rw [this]
    simp only [Bool.false_eq_true, if_false]
    unfold maxRepresentableUint64Float
    rw [le_allOnes m e 11 hm (by omega)]
    by_cases h11 : e ≤ 11
    · have hb := truncNat_small m e hm h11
      rw [decide_eq_true h11, if_pos rfl, toU64_fin m e hb]
      simp only [Cv.bind]
      rw [fromBigInt_small _ hb]
    · rw [decide_eq_false h11, if_neg (by simp)]
      have hm52 : 2^52 ≤ m := by omega
      unfold maxRepresentableUint128Float
      rw [le_allOnes m e 75 hm (Or.inl hm52)]
      obtain ⟨k, rfl⟩ : ∃ k : Nat, e = k := ⟨e.toNat, by omega⟩
      rw [truncNat_nat]
      by_cases h75 : (k : Int) ≤ 75
      · have hk : k ≤ 75 := by omega
        have hlt : m * 2^k < 2^128 := by
          have := truncNat_lt m k 75 hm h75
          rw [truncNat_nat] at this; exact this
        have hd : truncNat m ((k : Int) - 64) < 2^64 := by
          rw [truncNat_div, Nat.div_lt_iff_lt_mul (pow_pos' 64), ← Nat.pow_add]; exact hlt
        rw [decide_eq_true h75, if_pos rfl, div_wrap m k hm52 hm hk, toU64_fin _ _ hd, mod_wrap m k hm52 hm hk]
        simp only [Cv.bind]
        rw [truncNat_div, fromBigInt_two _ hlt]
      · rw [decide_eq_false h75, if_neg (by simp)]
        have := truncNat_ge m k 76 hm52 (by omega)
        rw [truncNat_nat] at this
        rw [fromBigInt_big _ this]

theorem I128.fromBigInt_of_range (z : Int) (h1 : -(2^127) ≤ z) (h2 : z < 2^127) : (I128.fromBigInt z).toInt = z := by
  rw [I128.fromBigInt_spec, if_neg (by omega), if_pos h2]

/-- **`Int128FromFloat64` on a finite value**: the truncated value saturated to `[-2^127, 2^127)` -/
theorem I128.fromFloat64_fin (s : Bool) (m : Nat) (e : Int) (hwf : WF (.fin s m e)) :
    I128.fromFloat64 (.fin s m e) = .ok (I128.fromBigInt (truncInt (.fin s m e))) := by
  have hwf' := hwf
  obtain ⟨hm, he1, he2, hn⟩ := hwf
  unfold I128.fromFloat64
  rw [eq_zero_fin s m e he1, ne_self_fin, Bool.or_false, lt_zero_fin s m e he1, truncInt_fin]
  by_cases hm0 : m = 0
  · subst hm0
    rw [if_pos (by simp)]
    have : truncNat 0 e = 0 := by unfold truncNat; simp
    rw [this]
    congr 1
    apply I128.eq_of_toInt_eq
    rw [I128.fromBigInt_of_range _ (by split <;> omega) (by split <;> omega)]
    have : I128.zero.toInt = 0 := by decide
    rw [this]; split <;> omega
  · have hmz : (m == 0) = false := by simp [hm0]
    have hmn : (m != 0) = true := by simp [hm0]
    rw [hmz, hmn]
    simp only [Bool.false_eq_true, if_false, Bool.and_true]
    have hn' : 2^52 ≤ m ∨ e < 75 := by omega
    cases s
    · simp only [Bool.false_eq_true, if_false]
      unfold F64.ge maxInt128Float
      rw [pow127_le m e hm hn']
      by_cases h75 : 75 ≤ e
      · rw [decide_eq_true h75, if_pos rfl]
        congr 1
        apply I128.eq_of_toInt_eq
        have := truncNat_ge m e 75 (by omega) (by omega)
        rw [I128.fromBigInt_spec, I128.max_toInt, if_neg (by omega), if_neg (by omega)]
      · rw [decide_eq_false h75, if_neg (by simp), U128.fromFloat64_fin false m e hwf', truncInt_fin]
        simp only [Cv.bind, Bool.false_eq_true, if_false]
        congr 1
        apply I128.eq_of_toInt_eq
        have hb := truncNat_lt m e 74 hm (by omega)
        have hs := U128.fromBigInt_spec (truncNat m e : Int)
        rw [if_neg (by omega), if_pos (by omega)] at hs
        rw [U128.asInt128_toInt_of_lt _ (by omega), I128.fromBigInt_of_range _ (by omega) (by omega)]
        exact hs
    · simp only [if_true]
      unfold minInt128Float
      rw [le_negPow127 m e hm hn']
      by_cases h75 : 75 ≤ e
      · rw [decide_eq_true h75, if_pos rfl]
        congr 1
        apply I128.eq_of_toInt_eq
        have := truncNat_ge m e 75 (by omega) (by omega)
        rw [I128.fromBigInt_spec, I128.min_toInt]
        split
        · rfl
        · split <;> omega
      · rw [decide_eq_false h75, if_neg (by simp)]
        have hneg : F64.neg (.fin true m e) = .fin false m e := rfl
        rw [hneg, U128.fromFloat64_fin false m e ⟨hm, he1, he2, hn⟩, truncInt_fin]
        simp only [Cv.bind, Bool.false_eq_true, if_false]
        congr 1
        apply I128.eq_of_toInt_eq
        have hb := truncNat_lt m e 74 hm (by omega)
        have hs := U128.fromBigInt_spec (truncNat m e : Int)
        rw [if_neg (by omega), if_pos (by omega)] at hs
        have hv := U128.asInt128_toInt_of_lt (U128.fromBigInt (truncNat m e : Int)) (by omega)
        rw [I128.neg_toInt _ (by omega), hv, I128.fromBigInt_of_range _ (by omega) (by omega)]
        omega

end Conv
