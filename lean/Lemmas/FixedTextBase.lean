import Mathlib.Tactic.Ring
import Model.FixedText
/-! C04 helper lemmas, part 1: wrap-around algebra, decimal digits, the "1"-prefix trick and zero stripping
    (adapted from the design blocks b028 / b029 to the byte-level model that the driver runs). -/
namespace FixedText

/-! ### wrap64 -/
theorem wrap64_of_fits (z : Int) (h : fits64 z = true) : wrap64 z = z := by
  simp only [fits64, Bool.and_eq_true, decide_eq_true_eq] at h
  unfold wrap64; omega

theorem wrap64_fits (z : Int) : fits64 (wrap64 z) = true := by
  simp only [fits64, Bool.and_eq_true, decide_eq_true_eq]
  unfold wrap64; omega

/-- `wrap64 x` differs from `x` by a multiple of 2^64 -/
theorem wrap64_cong (x : Int) : ∃ k : Int, wrap64 x = x + k * 2^64 := by
  refine ⟨-((x + 2^63) / 2^64), ?_⟩
  unfold wrap64
  have := Int.emod_add_mul_ediv (x + 2^63) (2^64)
  omega

theorem wrap64_eq_of_cong (x r k : Int) (hr : fits64 r = true) (h : x = r + k * 2^64) : wrap64 x = r := by
  simp only [fits64, Bool.and_eq_true, decide_eq_true_eq] at hr
  subst h
  unfold wrap64
  have : (r + k * 2^64 + 2^63) % 2^64 = (r + 2^63) % 2^64 := by
    rw [show r + k * 2^64 + 2^63 = (r + 2^63) + k * 2^64 by ring]
    exact Int.add_mul_emod_self_right ..
  rw [this]; omega

/-! ### decimal digits -/
theorem natDigits_lt (n : Nat) : ∀ d ∈ natDigits n, d < 10 := by
  induction n using Nat.strongRecOn with
  | _ n ih =>
    cases n with
    | zero => simp [natDigits]
    | succ k =>
      rw [natDigits]
      intro d hd
      rcases List.mem_append.mp hd with h | h
      · exact ih ((k + 1) / 10) (by omega) d h
      · simp at h; omega

/-- no leading zero -/
theorem natDigits_head (n : Nat) (hn : 0 < n) : ∃ d t, natDigits n = d :: t ∧ 0 < d ∧ d < 10 := by
  induction n using Nat.strongRecOn with
  | _ n ih =>
    cases n with
    | zero => omega
    | succ k =>
      rw [natDigits]
      by_cases h : (k + 1) / 10 = 0
      · rw [h]; refine ⟨(k + 1) % 10, [], by simp [natDigits], ?_, ?_⟩ <;> omega
      · obtain ⟨d, t, e, hd, hd'⟩ := ih ((k + 1) / 10) (by omega) (by omega)
        exact ⟨d, t ++ [(k + 1) % 10], by rw [e]; rfl, hd, hd'⟩

theorem isDigit_add (d : Nat) (h : d < 10) : isDigit (48 + d) = true := by
  simp [isDigit]; omega

theorem natStr_all (n : Nat) : (natStr n).all isDigit = true := by
  unfold natStr
  split
  · simp [isDigit]
  · rw [List.all_eq_true]
    intro c hc
    obtain ⟨d, hd, rfl⟩ := List.mem_map.mp hc
    exact isDigit_add d (natDigits_lt n d hd)

theorem natStr_ne_nil (n : Nat) : natStr n ≠ [] := by
  unfold natStr
  split
  · simp
  · rename_i h
    obtain ⟨d, t, e, _, _⟩ := natDigits_head n (by omega)
    rw [e]; simp

/-- first byte of `natStr n`: a digit, and '0' only for n = 0 -/
theorem natStr_head (n : Nat) : ∃ c t, natStr n = c :: t ∧ 48 ≤ c ∧ c ≤ 57 ∧ (c = 48 → n = 0 ∧ t = []) := by
  unfold natStr
  split
  · rename_i h; exact ⟨48, [], rfl, by omega, by omega, fun _ => ⟨h, rfl⟩⟩
  · rename_i h
    obtain ⟨d, t, e, hd, hd'⟩ := natDigits_head n (by omega)
    refine ⟨48 + d, t.map (48 + ·), by rw [e]; rfl, by omega, by omega, fun h0 => by omega⟩

theorem parseDigits_append (a b : Str) :
    parseDigits (a ++ b) = b.foldl (fun acc c => acc * 10 + (c - 48)) (parseDigits a) := by
  simp [parseDigits, List.foldl_append]

theorem parse_natDigits (n : Nat) : parseDigits ((natDigits n).map (48 + ·)) = n := by
  induction n using Nat.strongRecOn with
  | _ n ih =>
    cases n with
    | zero => simp [natDigits, parseDigits]
    | succ k =>
      rw [natDigits]
      simp only [List.map_append, List.map_cons, List.map_nil, parseDigits_append, List.foldl_cons, List.foldl_nil]
      rw [ih ((k + 1) / 10) (by omega)]
      omega

theorem parse_natStr (n : Nat) : parseDigits (natStr n) = n := by
  unfold natStr
  split
  · rename_i h; subst h; rfl
  · exact parse_natDigits n

theorem parseUnsigned_natStr (n : Nat) : parseUnsigned (natStr n) = some n := by
  unfold parseUnsigned
  rw [if_neg]
  · rw [parse_natStr]
  · simp [natStr_ne_nil, natStr_all]

/-! ### the "1"-prefix trick -/
/-- exactly p digits of f (f < 10^p), most significant first, as bytes -/
def digitsPad : Nat → Nat → Str
  | 0, _ => []
  | p+1, f => digitsPad p (f / 10) ++ [48 + f % 10]

theorem digitsPad_length (p f : Nat) : (digitsPad p f).length = p := by
  induction p generalizing f with
  | zero => rfl
  | succ p ih => simp [digitsPad, ih]

theorem digitsPad_all (p f : Nat) : ∀ c ∈ digitsPad p f, isDigit c = true := by
  induction p generalizing f with
  | zero => simp [digitsPad]
  | succ p ih =>
    intro c hc
    simp only [digitsPad, List.mem_append, List.mem_singleton] at hc
    rcases hc with h | h
    · exact ih _ c h
    · subst h; exact isDigit_add _ (by omega)

/-- the digits of 10^p + f are a 1 followed by f written with exactly p digits -/
theorem natDigits_one_prefix (p f : Nat) (hf : f < 10^p) :
    (natDigits (10^p + f)).map (48 + ·) = 49 :: digitsPad p f := by
  induction p generalizing f with
  | zero =>
    have : f = 0 := by simpa using hf
    subst this
    rw [show (10:Nat)^0 + 0 = 0 + 1 from rfl, natDigits]
    simp [natDigits, digitsPad]
  | succ p ih =>
    have hpos : 0 < 10^p := Nat.pow_pos (by decide)
    obtain ⟨n, hn⟩ : ∃ n, 10^(p+1) + f = n + 1 := ⟨10^(p+1) + f - 1, by rw [Nat.pow_succ]; omega⟩
    rw [hn, natDigits, ← hn]
    have h1 : (10^(p+1) + f) / 10 = 10^p + f / 10 := by rw [Nat.pow_succ]; omega
    have h2 : (10^(p+1) + f) % 10 = f % 10 := by rw [Nat.pow_succ]; omega
    have h3 : f / 10 < 10^p := by rw [Nat.pow_succ] at hf; omega
    rw [h1, h2, List.map_append, ih (f / 10) h3]
    rfl

theorem natStr_one_prefix (p f : Nat) (hf : f < 10^p) : natStr (10^p + f) = 49 :: digitsPad p f := by
  have hpos : 0 < 10^p := Nat.pow_pos (by decide)
  unfold natStr
  rw [if_neg (by omega)]
  exact natDigits_one_prefix p f hf

theorem parse_digitsPad (p f acc : Nat) (hf : f < 10^p) :
    (digitsPad p f).foldl (fun a c => a * 10 + (c - 48)) acc = acc * 10^p + f := by
  induction p generalizing f with
  | zero => have : f = 0 := by simpa using hf
            subst this; simp [digitsPad]
  | succ p ih =>
    have h3 : f / 10 < 10^p := by rw [Nat.pow_succ] at hf; omega
    simp only [digitsPad, List.foldl_append, List.foldl_cons, List.foldl_nil, ih (f / 10) h3]
    rw [Nat.pow_succ, ← Nat.mul_assoc]
    omega

theorem parseDigits_one_pad (p f : Nat) (hf : f < 10^p) : parseDigits (49 :: digitsPad p f) = 10^p + f := by
  have := parse_digitsPad p f 1 hf
  simp only [parseDigits, List.foldl_cons]
  rw [show (0 * 10 + (49 - 48) : Nat) = 1 from rfl, this]; omega

/-! ### zero stripping is undone by the padding -/
theorem length_dropWhile_le' (q : Nat → Bool) (l : List Nat) : (l.dropWhile q).length ≤ l.length := by
  induction l with
  | nil => simp
  | cons a l ih => simp only [List.dropWhile_cons]; split <;> simp <;> omega

theorem stripZeros_length_le (l : Str) : (stripZeros l).length ≤ l.length := by
  unfold stripZeros
  have := length_dropWhile_le' (fun x => decide (x = 48)) l.reverse
  simpa using this

theorem strip_pad (l : Str) : stripZeros l ++ List.replicate (l.length - (stripZeros l).length) 48 = l := by
  unfold stripZeros
  have key : ∀ r : List Nat, (r.dropWhile (· = 48)).reverse ++
      List.replicate (r.length - (r.dropWhile (· = 48)).length) 48 = r.reverse := by
    intro r
    induction r with
    | nil => rfl
    | cons a r ih =>
      by_cases ha : a = 48
      · subst ha
        simp only [List.dropWhile_cons, decide_true, if_true, List.length_cons, List.reverse_cons]
        have hle : (r.dropWhile (· = 48)).length ≤ r.length := length_dropWhile_le' _ _
        have : r.length + 1 - (r.dropWhile (· = 48)).length = (r.length - (r.dropWhile (· = 48)).length) + 1 := by omega
        rw [this, List.replicate_succ', ← List.append_assoc, ih]
      · simp [List.dropWhile_cons, ha]
  have := key l.reverse
  simp only [List.reverse_reverse, List.length_reverse] at this
  simpa using this

theorem stripZeros_subset (l : Str) : ∀ c ∈ stripZeros l, c ∈ l := by
  intro c hc
  have h := strip_pad l
  rw [← h]; exact List.mem_append_left _ hc

/-- the stripped list does not end in '0' -/
theorem stripZeros_getLast (l : Str) : (stripZeros l).getLast? ≠ some 48 := by
  unfold stripZeros
  rw [List.getLast?_reverse]
  generalize l.reverse = r
  induction r with
  | nil => simp
  | cons a r ih =>
    simp only [List.dropWhile_cons]
    split
    · exact ih
    · rename_i h; simp at h; simp [h]

end FixedText
