import Lemmas.Errs
import Lemmas.ErrsFmt
import Model.ErrsTrace
/-! C11, lemmas about the text of a stack trace (`Model/ErrsTrace.lean`): the frame loop with its buffer is "the shown frames,
    one line each, joined by newlines"; the first shown frame heads the text; cause links point to older cells in every heap
    the API builds, so the fuel of the `Caused by:` recursion never runs out and the rendering of an error ends with the whole
    rendering of its cause.  Core-only. -/
namespace Errs

/-! ### the frame loop -/

/-- the frame gets a line: it has a function name and is not filtered -/
def shown (trim : Bool) (P : List String) (f : Frame) : Bool := f.fn != "" && !(trim && frameTrimmed P f)

/-- lines joined by single newlines (no leading, no trailing newline) -/
def joinLines : List (List Char) → List Char
  | [] => []
  | l :: ls => l ++ ls.flatMap (fun m => '\n' :: m)

/-- one round of the loop body on the buffer -/
def pushLine (buf l : List Char) : List Char := (if buf.length != 0 then buf ++ ['\n'] else buf) ++ l

theorem framesLoop_foldl (trim : Bool) (P : List String) : ∀ (fs : List Frame) (buf : List Char),
    framesLoop trim P buf fs = ((fs.filter (shown trim P)).map frameLine).foldl pushLine buf := by
  intro fs
  induction fs with
  | nil => intro buf; rfl
  | cons f fs ih =>
    intro buf
    unfold framesLoop
    by_cases h1 : (f.fn != "") = true
    · by_cases h2 : (trim && frameTrimmed P f) = true
      · have hs : shown trim P f = false := by simp [shown, h2]
        simp only [h1, h2, if_true, List.filter_cons, hs]
        exact ih buf
      · have hs : shown trim P f = true := by simp [shown, h1, h2]
        simp only [h1, h2, if_true, List.filter_cons, hs, List.map_cons, List.foldl_cons]
        exact ih _
    · have hs : shown trim P f = false := by simp [shown, h1]
      simp only [h1, List.filter_cons, hs]
      exact ih buf

theorem foldl_pushLine_ne : ∀ (ls : List (List Char)) (buf : List Char), buf ≠ [] →
    ls.foldl pushLine buf = buf ++ ls.flatMap (fun m => '\n' :: m) := by
  intro ls
  induction ls with
  | nil => intro buf _; simp
  | cons l ls ih =>
    intro buf hb
    have hlen : (buf.length != 0) = true := by
      cases buf with
      | nil => exact absurd rfl hb
      | cons x xs => simp
    have hp : pushLine buf l = buf ++ '\n' :: l := by simp [pushLine, hlen]
    rw [List.foldl_cons, hp, ih _ (by simp [hb])]
    simp

theorem foldl_pushLine_nil (ls : List (List Char)) (hne : ∀ l ∈ ls, l ≠ []) : ls.foldl pushLine [] = joinLines ls := by
  cases ls with
  | nil => rfl
  | cons l ls =>
    have hp : pushLine [] l = l := by simp [pushLine]
    rw [List.foldl_cons, hp, foldl_pushLine_ne ls l (hne l (by simp))]
    rfl

theorem bracket_toList : "    [".toList = [' ', ' ', ' ', ' ', '['] := by decide

theorem frameLine_ne (f : Frame) : frameLine f ≠ [] := by
  unfold frameLine
  rw [bracket_toList]
  simp

/-- **the frame loop**: the text is one line per shown frame, in order, joined by newlines -/
theorem framesChars_spec (trim : Bool) (P : List String) (fs : List Frame) :
    framesChars trim P fs = joinLines ((fs.filter (shown trim P)).map frameLine) := by
  unfold framesChars
  rw [framesLoop_foldl]
  apply foldl_pushLine_nil
  intro l hl
  obtain ⟨f, _, rfl⟩ := List.mem_map.mp hl
  exact frameLine_ne f

/-- the first shown frame heads the text -/
theorem framesChars_first (trim : Bool) (P : List String) (lib : List Frame) (c : Frame) (rest : List Frame)
    (hlib : ∀ f ∈ lib, shown trim P f = false) (hc : shown trim P c = true) :
    ∃ tail, framesChars trim P (lib ++ c :: rest) = frameLine c ++ tail := by
  have hl : lib.filter (shown trim P) = [] := by
    rw [List.filter_eq_nil_iff]; intro f hf; simp [hlib f hf]
  rw [framesChars_spec, List.filter_append, hl, List.nil_append, List.filter_cons, hc]
  exact ⟨_, rfl⟩

theorem mem_joinLines : ∀ (ls : List (List Char)) (l : List Char), l ∈ ls → l <:+: joinLines ls := by
  intro ls l hl
  cases ls with
  | nil => cases hl
  | cons a as =>
    rcases List.mem_cons.mp hl with rfl | hm
    · exact ⟨[], as.flatMap (fun m => '\n' :: m), by simp [joinLines]⟩
    · obtain ⟨s, t, rfl⟩ := List.append_of_mem hm
      refine ⟨a ++ s.flatMap (fun m => '\n' :: m) ++ ['\n'], t.flatMap (fun m => '\n' :: m), ?_⟩
      simp [joinLines]

/-- every shown frame has its line in the text -/
theorem framesChars_infix (trim : Bool) (P : List String) (fs : List Frame) (f : Frame) (hf : f ∈ fs)
    (hs : shown trim P f = true) : frameLine f <:+: framesChars trim P fs := by
  rw [framesChars_spec]
  apply mem_joinLines
  exact List.mem_map.mpr ⟨f, List.mem_filter.mpr ⟨hf, hs⟩, rfl⟩

/-- a frame line starts with the bracketed function name -/
theorem frameLine_names (f : Frame) : ∃ tail, frameLine f = "    [".toList ++ f.fn.toList ++ "] ".toList ++ tail :=
  ⟨shortenFile f.fn.toList f.file.toList ++ ':' :: (toString f.line).toList, by unfold frameLine; simp only [List.append_assoc]⟩

/-- the lines of the trimmed trace are among those of the untrimmed one, in the same order -/
theorem shown_trim_sublist (P : List String) (fs : List Frame) :
    (fs.filter (shown true P)).Sublist (fs.filter (shown false P)) := by
  induction fs with
  | nil => exact List.Sublist.slnil
  | cons f fs ih =>
    simp only [List.filter_cons]
    by_cases h1 : shown true P f = true
    · have h2 : shown false P f = true := by
        simp only [shown, Bool.and_eq_true] at h1 ⊢
        exact ⟨h1.1, by simp⟩
      simp only [h1, h2, if_true]
      exact List.Sublist.cons_cons f ih
    · simp only [h1]
      by_cases h2 : shown false P f = true
      · simp only [h2, if_true]; exact List.Sublist.cons f ih
      · simp only [h2]; exact ih

/-! ### cause links point to older cells; the fuel of the `Caused by:` recursion -/

/-- the cause of every cell is an older cell (or not a `*Error`) -/
def CauseWF (h : Heap) : Prop := ∀ (i : Nat) (n : ENode), h[i]? = some n → ∀ c : Nat, n.cause = Val.ref c → c < i

theorem stackG_fuel (blk : Nat → String) (h : Heap) (hc : CauseWF h) : ∀ (fuel fuel' id : Nat), id < fuel → id < fuel' →
    stackG blk h fuel id = stackG blk h fuel' id := by
  intro fuel
  induction fuel with
  | zero => intro _ _ h0; omega
  | succ fuel ih =>
    intro fuel' id h1 h2
    cases fuel' with
    | zero => omega
    | succ f' =>
      unfold stackG
      cases hn : h[id]? with
      | none => rfl
      | some n =>
        simp only []
        cases hcz : n.cause with
        | ref c =>
          have hlt := hc id n hn c hcz
          dsimp only
          rw [ih f' c (by omega) (by omega)]
        | nilIface => rfl
        | typedNil => rfl
        | foreignNil => rfl
        | plain u m => rfl
        | fwrap u m i => rfl

/-- the token rendering of `Model/ErrsFmt.lean` is the instance of the generic recursion at the token blocks -/
theorem stackC_eq_stackG (h : Heap) (T : Toks) : ∀ (fuel id : Nat),
    stackC h T fuel id = stackG (fun i => tokText (tokOf T i)) h fuel id := by
  intro fuel
  induction fuel with
  | zero => intro id; rfl
  | succ fuel ih =>
    intro id
    unfold stackC stackG
    cases hn : h[id]? with
    | none => rfl
    | some n =>
      simp only []
      cases hcz : n.cause with
      | ref c => simp only [ih c]
      | nilIface => rfl
      | typedNil => rfl
      | foreignNil => rfl
      | plain u m => rfl
      | fwrap u m i => rfl

theorem causeWF_empty : CauseWF #[] := by
  intro i n hn; simp at hn

theorem causeWF_push (h : Heap) (n : ENode) (hc : CauseWF h) (hn : ∀ c, n.cause = .ref c → c < h.size) :
    CauseWF (h.push n) := by
  intro i m hm c hcz
  rw [Array.getElem?_push] at hm
  by_cases hi : i = h.size
  · simp [hi] at hm; subst hm; rw [hi]; exact hn c hcz
  · simp [hi] at hm; exact hc i m hm c hcz

theorem causeWF_setNext (h : Heap) (e j : Nat) (hc : CauseWF h) : CauseWF (setNext h e j) := by
  intro i m hm c hcz
  unfold setNext at hm
  rw [Array.getElem?_modify] at hm
  cases hi : h[i]? with
  | none => rw [hi] at hm; simp at hm
  | some n =>
    rw [hi] at hm
    by_cases he : e = i
    · simp [he] at hm; subst hm; exact hc i n hi c hcz
    · simp [he] at hm; subst hm; exact hc i n hi c hcz

theorem causeWF_block (h : Heap) (src : List ENode) (hc : CauseWF h)
    (hs : ∀ m ∈ src, ∀ c, m.cause = .ref c → c < h.size) : CauseWF (h ++ (freshBlock h.size src).toArray) := by
  intro i m hm c hcz
  by_cases hi : i < h.size
  · rw [Array.getElem?_append_left hi] at hm
    exact hc i m hm c hcz
  · have hge : h.size ≤ i := Nat.le_of_not_lt hi
    rw [Array.getElem?_append_right hge] at hm
    simp only [List.getElem?_toArray] at hm
    rw [freshBlock_get] at hm
    cases hk : src[i - h.size]? with
    | none => rw [hk] at hm; simp at hm
    | some x =>
      rw [hk] at hm
      simp at hm
      subst hm
      have := hs x (List.mem_of_getElem? hk) c hcz
      omega

theorem causeWF_copyChain (h : Heap) (id : Nat) (hc : CauseWF h) : CauseWF (copyChain h id).1 := by
  unfold copyChain
  apply causeWF_block h _ hc
  intro m hm c hcz
  obtain ⟨i, _, rfl⟩ := List.mem_map.mp hm
  cases hi : h[i]? with
  | none => rw [hi] at hcz; simp at hcz; cases hcz
  | some n =>
    rw [hi] at hcz
    have h1 := hc i n hi c hcz
    have h2 : i < h.size := (Array.getElem?_eq_some_iff.mp hi).1
    omega

theorem causeWF_argNode (h : Heap) (a : Val) (hc : CauseWF h) : CauseWF (argNode h a).1 := by
  cases a with
  | ref id =>
    by_cases he : isEmpty h id = true
    · simp only [argNode, he, if_true]; exact hc
    · simp only [argNode, he]; exact causeWF_copyChain h id hc
  | nilIface => exact hc
  | typedNil => exact hc
  | foreignNil => exact hc
  | plain u m => exact causeWF_push h _ hc (by intro c hcz; cases hcz)
  | fwrap u m i => exact causeWF_push h _ hc (by intro c hcz; cases hcz)

theorem causeWF_appendLoop : ∀ (args : List Val) (h : Heap) (root cur : Option Nat) (log : List Nat), CauseWF h →
    CauseWF (appendLoop h root cur log args).1 := by
  intro args
  induction args with
  | nil => intro h root cur log hc; exact hc
  | cons a as ih =>
    intro h root cur log hc
    have hA := causeWF_argNode h a hc
    rcases hE : argNode h a with ⟨h1, _ | n, w⟩
    · rw [hE] at hA; simp only [appendLoop, hE]; exact ih _ _ _ _ hA
    · rw [hE] at hA
      cases cur with
      | none => simp only [appendLoop, hE]; exact ih _ _ _ _ hA
      | some e => simp only [appendLoop, hE]; exact ih _ _ _ _ (causeWF_setNext _ _ _ hA)

theorem causeWF_append (h : Heap) (acc : Val) (args : List Val) (hc : CauseWF h) : CauseWF (append h acc args).1 := by
  cases acc with
  | ref id =>
    by_cases he : isEmpty h id = true
    · simp only [append, he, if_true]; exact causeWF_appendLoop _ _ _ _ _ hc
    · simp only [append, he]; exact causeWF_appendLoop _ _ _ _ _ hc
  | nilIface => exact causeWF_appendLoop _ _ _ _ _ hc
  | typedNil => exact causeWF_appendLoop _ _ _ _ _ hc
  | foreignNil => exact causeWF_appendLoop _ _ _ _ _ hc
  | plain u m => exact causeWF_appendLoop _ _ _ _ _ (causeWF_push h _ hc (by intro c hcz; cases hcz))
  | fwrap u m i => exact causeWF_appendLoop _ _ _ _ _ (causeWF_push h _ hc (by intro c hcz; cases hcz))

theorem causeWF_wrap (h : Heap) (v : Val) (hc : CauseWF h) : CauseWF (wrap h v).1 := by
  unfold wrap
  split
  · exact hc
  · split
    · exact hc
    · rename_i h1 h2
      apply causeWF_push h _ hc
      intro c hcz
      have : v = .ref c := hcz
      subst this
      simp [asError] at h2

theorem causeWF_wrapTyped (h : Heap) (v : Val) (hc : CauseWF h) : CauseWF (wrapTyped h v).1 := by
  cases v with
  | ref id => simp only [wrapTyped, isNil]; exact hc
  | nilIface => exact hc
  | typedNil => exact hc
  | foreignNil => exact hc
  | plain u m => exact causeWF_push h _ hc (by intro c hcz; cases hcz)
  | fwrap u m i => exact causeWF_push h _ hc (by intro c hcz; cases hcz)

theorem causeWF_newWithCause (h : Heap) (m : String) (c : Val) (hc : CauseWF h) (hv : ∀ id, c = .ref id → id < h.size) :
    CauseWF (newWithCause h m c).1 := by
  apply causeWF_push h _ hc
  intro c' hcz
  simp only at hcz
  split at hcz
  · cases hcz
  · exact hv c' hcz

theorem causeWF_clone (h : Heap) (v : Val) (pre : String) (hc : CauseWF h) : CauseWF (clone h v pre).1 := by
  cases v with
  | ref id =>
    cases hn : h[id]? with
    | none => simp only [clone, hn]; exact hc
    | some n =>
      simp only [clone, hn]
      apply causeWF_push h _ hc
      intro c hcz
      have h1 := hc id n hn c hcz
      have h2 : id < h.size := (Array.getElem?_eq_some_iff.mp hn).1
      omega
  | nilIface => exact hc
  | typedNil => exact hc
  | foreignNil => exact hc
  | plain u m => exact hc
  | fwrap u m i => exact hc

theorem causeWF_elem (h : Heap) (v : Val) (k : Nat) (hc : CauseWF h) : CauseWF (elem h v k).1 := by
  cases v with
  | ref id =>
    cases hn : (wrappedErrors h id)[k]? with
    | none => simp only [elem, hn]; exact hc
    | some n =>
      simp only [elem, hn]
      apply causeWF_push h _ hc
      intro c hcz
      have hm := List.mem_of_getElem? hn
      unfold wrappedErrors at hm
      obtain ⟨i, _, hi⟩ := List.mem_filterMap.mp hm
      cases hx : h[i]? with
      | none => rw [hx] at hi; cases hi
      | some x =>
        rw [hx] at hi
        simp at hi
        subst hi
        have h1 := hc i x hx c hcz
        have h2 : i < h.size := (Array.getElem?_eq_some_iff.mp hx).1
        omega
  | nilIface => exact hc
  | typedNil => exact hc
  | foreignNil => exact hc
  | plain u m => exact hc
  | fwrap u m i => exact hc

/-- every heap the API can build — including `CloneWithPrefixMessage`, which `Reachable` leaves out; a cause handed to
    `NewWithCause` must exist -/
inductive Built : Heap → Prop
  | empty : Built #[]
  | new (h : Heap) (m : String) : Built h → Built (new h m).1
  | newWithCause (h : Heap) (m : String) (c : Val) : Built h → (∀ id, c = .ref id → id < h.size) →
      Built (newWithCause h m c).1
  | newEmpty (h : Heap) : Built h → Built (newEmpty h).1
  | wrap (h : Heap) (v : Val) : Built h → Built (wrap h v).1
  | wrapTyped (h : Heap) (v : Val) : Built h → Built (wrapTyped h v).1
  | append (h : Heap) (acc : Val) (args : List Val) : Built h → Built (append h acc args).1
  | elem (h : Heap) (v : Val) (i : Nat) : Built h → Built (elem h v i).1
  | clone (h : Heap) (v : Val) (pre : String) : Built h → Built (clone h v pre).1

theorem built_causeWF_aux {h : Heap} (b : Built h) : CauseWF h := by
  induction b with
  | empty => exact causeWF_empty
  | new h m _ ih => exact causeWF_push h _ ih (by intro c hcz; cases hcz)
  | newWithCause h m c _ hv ih => exact causeWF_newWithCause h m c ih hv
  | newEmpty h _ ih => exact causeWF_push h _ ih (by intro c hcz; cases hcz)
  | wrap h v _ ih => exact causeWF_wrap h v ih
  | wrapTyped h v _ ih => exact causeWF_wrapTyped h v ih
  | append h acc args _ ih => exact causeWF_append h acc args ih
  | elem h v i _ ih => exact causeWF_elem h v i ih
  | clone h v pre _ ih => exact causeWF_clone h v pre ih

/-- one step of the recursion for an `*Error` cause that is shown, with the fuel restored: the stack text of the error is
    its own block, the marker, and the whole `Detail` of the cause -/
theorem stackG_ref_cause (blk : Nat → String) (h : Heap) (hc : CauseWF h) (id c : Nat) (n : ENode)
    (hn : h[id]? = some n) (hcz : n.cause = .ref c) (hw : n.wrapped = false) :
    stackG blk h (h.size + 1) id =
      blk id ++ "\n  Caused by: " ++ detailOf (message h c) (stackG blk h (h.size + 1) c) := by
  have h1 := hc id n hn c hcz
  have h2 : id < h.size := (Array.getElem?_eq_some_iff.mp hn).1
  rw [stackG_fuel blk h hc (h.size + 1) h.size c (by omega) (by omega)]
  conv => lhs; unfold stackG
  simp [hn, hcz, hw]

theorem stackG_foreign_cause (blk : Nat → String) (h : Heap) (fuel id : Nat) (n : ENode)
    (hn : h[id]? = some n) (hcz : ∀ c, n.cause ≠ .ref c) (hnn : n.cause ≠ .nilIface) (hw : n.wrapped = false) :
    stackG blk h (fuel + 1) id = blk id ++ "\n  Caused by: " ++ errorText n.cause := by
  unfold stackG
  cases hcc : n.cause with
  | ref c => exact absurd hcc (hcz c)
  | nilIface => exact absurd hcc hnn
  | typedNil => simp [hn, hcc, hw]
  | foreignNil => simp [hn, hcc, hw]
  | plain u m => simp [hn, hcc, hw]
  | fwrap u m i => simp [hn, hcc, hw]

theorem stackG_no_cause (blk : Nat → String) (h : Heap) (fuel id : Nat) (n : ENode)
    (hn : h[id]? = some n) (hcz : n.cause = .nilIface ∨ n.wrapped = true) :
    stackG blk h (fuel + 1) id = blk id := by
  unfold stackG
  rcases hcz with hcz | hcz <;> simp [hn, hcz]

/-! ### `Detail` -/

theorem detailOf_msg (msg st : String) (hm : msg ≠ "") : ∃ rest, detailOf msg st = msg ++ rest := by
  unfold detailOf
  have h1 : (msg == "") = false := by simpa using hm
  by_cases h2 : (st == "") = true
  · exact ⟨"", by simp [h1, h2]⟩
  · exact ⟨"\n" ++ st, by simp [h1, h2, String.append_assoc]⟩

theorem causedBy_ne (a b : String) : (a ++ "\n  Caused by: " ++ b == "") = false := by
  have : a ++ "\n  Caused by: " ++ b ≠ "" := by
    intro h
    have := congrArg String.length h
    simp [String.length_append] at this
  simp [this]

/-- the head of a `Detail`: the message and a newline, or nothing for an error without a message -/
def msgHead (msg : String) : String := if msg == "" then "" else msg ++ "\n"

theorem detailOf_causedBy (msg a b : String) :
    detailOf msg (a ++ "\n  Caused by: " ++ b) = msgHead msg ++ a ++ "\n  Caused by: " ++ b := by
  unfold detailOf msgHead
  by_cases h1 : (msg == "") = true
  · simp [h1, causedBy_ne]
  · simp [h1, String.append_assoc]


/-! ### the file name shown in a frame line -/

/-- the part of a path after its last separator -/
def baseName (file : List Char) : List Char :=
  match lastIndexOfChar pathSep file with
  | some k => file.drop (k + 1)
  | none => file

theorem lastIndexOfChar_none (c : Char) : ∀ l : List Char, lastIndexOfChar c l = none ↔ c ∉ l := by
  intro l
  induction l with
  | nil => simp [lastIndexOfChar]
  | cons x xs ih =>
    unfold lastIndexOfChar
    cases hx : lastIndexOfChar c xs with
    | some k =>
      have : ¬ (c ∉ xs) := fun h => by rw [ih.mpr h] at hx; cases hx
      simp only [reduceCtorEq, false_iff]
      intro h; apply this; intro hm; exact h (List.mem_cons_of_mem _ hm)
    | none =>
      have hxs := ih.mp hx
      by_cases hc : (x == c) = true
      · simp only [hc, if_true, reduceCtorEq, false_iff]
        have : x = c := by simpa using hc
        intro h; exact h (by simp [this])
      · simp only [hc]
        have : ¬ x = c := by simpa using hc
        simp only [Bool.false_eq_true, if_false, true_iff]
        intro hm
        rcases List.mem_cons.mp hm with h | h
        · exact this h.symm
        · exact hxs h

theorem baseName_cons (x : Char) (xs : List Char) :
    baseName (x :: xs) = if pathSep ∈ xs then baseName xs else if x = pathSep then xs else x :: xs := by
  unfold baseName
  rw [lastIndexOfChar]
  cases hx : lastIndexOfChar pathSep xs with
  | some k =>
    have : pathSep ∈ xs := by
      apply Classical.byContradiction; intro h
      rw [(lastIndexOfChar_none pathSep xs).mpr h] at hx; cases hx
    simp [this]
  | none =>
    have hn := (lastIndexOfChar_none pathSep xs).mp hx
    by_cases hc : x = pathSep
    · simp [hn, hc]
    · have : (x == pathSep) = false := by simpa using hc
      simp [hn, hc, this]

/-- whatever precedes a separator does not matter for the base name -/
theorem baseName_append_sep : ∀ (a b : List Char), baseName (a ++ pathSep :: b) = baseName b := by
  intro a
  induction a with
  | nil =>
    intro b
    rw [List.nil_append, baseName_cons]
    by_cases hb : pathSep ∈ b
    · simp [hb]
    · simp only [hb, if_false, if_true]
      unfold baseName
      rw [(lastIndexOfChar_none pathSep b).mpr hb]
  | cons x a ih =>
    intro b
    rw [List.cons_append, baseName_cons]
    have : pathSep ∈ a ++ pathSep :: b := by simp
    simp only [this, if_true]
    exact ih b

theorem baseName_suffix (l : List Char) : baseName l <:+ l := by
  unfold baseName
  cases lastIndexOfChar pathSep l with
  | some k => exact List.drop_suffix _ _
  | none => exact List.suffix_refl _

theorem scanBack_spec (file : List Char) : ∀ d, scanBack file d ≤ d ∧
    (0 < scanBack file d → file[scanBack file d]? = some pathSep) := by
  intro d
  induction d with
  | zero => simp [scanBack]
  | succ d ih =>
    unfold scanBack
    by_cases hb : (file[d + 1]? == some pathSep) = true
    · simp only [hb, if_true]
      exact ⟨Nat.le_refl _, fun _ => by simpa using hb⟩
    · simp only [hb]
      exact ⟨Nat.le_succ_of_le ih.1, ih.2⟩

/-- the first cut of `shortenFile` (everything up to the last separator before the first dot) keeps the base name -/
theorem cut_baseName (file : List Char) (d : Nat) :
    baseName (if scanBack file d > 0 then file.drop (scanBack file d + 1) else file) = baseName file ∧
    (if scanBack file d > 0 then file.drop (scanBack file d + 1) else file) <:+ file := by
  by_cases hi : scanBack file d > 0
  · simp only [hi, if_true]
    have hsep := (scanBack_spec file d).2 hi
    have hlt : scanBack file d < file.length := by
      apply Classical.byContradiction; intro h
      rw [List.getElem?_eq_none (Nat.le_of_not_lt h)] at hsep; cases hsep
    have hsplit : file = file.take (scanBack file d) ++ pathSep :: file.drop (scanBack file d + 1) := by
      conv => lhs; rw [← List.take_append_drop (scanBack file d) file]
      congr 1
      rw [List.drop_eq_getElem_cons hlt]
      congr 1
      have := List.getElem?_eq_getElem hlt
      rw [this] at hsep
      exact Option.some.inj hsep
    refine ⟨?_, List.drop_suffix _ _⟩
    conv => rhs; rw [hsplit]
    exact (baseName_append_sep _ _).symm
  · simp only [hi, if_false]
    exact ⟨trivial, List.suffix_refl _⟩

/-- **the file name in a frame line**: always a suffix of the real path, and never shorter than the base name of the file -/
theorem shortenFile_spec (fn file : List Char) :
    shortenFile fn file <:+ file ∧ baseName file <:+ shortenFile fn file := by
  unfold shortenFile
  cases hd : indexOfChar '.' file with
  | none => exact ⟨List.suffix_refl _, baseName_suffix file⟩
  | some d =>
    simp only []
    obtain ⟨hb, hs⟩ := cut_baseName file d
    generalize hf1 : (if scanBack file d > 0 then file.drop (scanBack file d + 1) else file) = file1 at hb hs
    cases hj : lastIndexOfChar pathSep file1 with
    | none =>
      simp only []
      exact ⟨hs, by rw [← hb]; exact baseName_suffix file1⟩
    | some j =>
      simp only []
      have hbn : baseName file1 = file1.drop (j + 1) := by unfold baseName; rw [hj]
      have key : ∀ b : Bool, (if b = true then file1.drop (j + 1) else file1) <:+ file ∧
          baseName file <:+ (if b = true then file1.drop (j + 1) else file1) := by
        intro b
        cases b
        · simp only [Bool.false_eq_true, if_false]
          exact ⟨hs, by rw [← hb]; exact baseName_suffix file1⟩
        · simp only [if_true]
          exact ⟨List.IsSuffix.trans (List.drop_suffix _ _) hs, by rw [← hb, hbn]; exact List.suffix_refl _⟩
      exact key _

end Errs
