import Lemmas.EvenOdd

/-! C05: a sample point that passes the margin test of `EO.farSeg` (margin > 0) does not lie on the edge. -/

namespace EOQ

/-- `p` lies on the closed segment `ab` -/
def OnSeg (a b p : QPt) : Prop :=
  ∃ t : ℚ, 0 ≤ t ∧ t ≤ 1 ∧ p.x = a.x + t * (b.x - a.x) ∧ p.y = a.y + t * (b.y - a.y)

theorem farSeg_not_onSeg (m : Int) (hm : 0 < m) (a b p : EO.Pt) (h : EO.farSeg m a b p = true) :
    ¬ OnSeg (toQ a) (toQ b) (toQ p) := by
  rintro ⟨t, ht0, ht1, hx, hy⟩
  simp only [toQ] at hx hy
  have hmq : (0 : ℚ) < (m : ℚ) * (m : ℚ) := by
    have : (0 : ℚ) < (m : ℚ) := by exact_mod_cast hm
    exact mul_pos this this
  -- abbreviations over ℚ
  obtain ⟨dx, hdx⟩ : ∃ dx : ℚ, dx = (b.x : ℚ) - a.x := ⟨_, rfl⟩
  obtain ⟨dy, hdy⟩ : ∃ dy : ℚ, dy = (b.y : ℚ) - a.y := ⟨_, rfl⟩
  have ex : (p.x : ℚ) - a.x = t * dx := by rw [hdx]; linarith
  have ey : (p.y : ℚ) - a.y = t * dy := by rw [hdy]; linarith
  have ebx : (p.x : ℚ) - b.x = (t - 1) * dx := by rw [hdx]; linarith
  have eby : (p.y : ℚ) - b.y = (t - 1) * dy := by rw [hdy]; linarith
  have hl2 : 0 ≤ dx * dx + dy * dy := add_nonneg (mul_self_nonneg dx) (mul_self_nonneg dy)
  unfold EO.farSeg at h
  simp only at h
  split at h
  · rename_i h1
    have h1q : ((p.x : ℚ) - a.x) * ((b.x : ℚ) - a.x) + ((p.y : ℚ) - a.y) * ((b.y : ℚ) - a.y) ≤ 0 := by
      exact_mod_cast h1
    have hq : (m : ℚ) * m ≤ ((p.x : ℚ) - a.x) * ((p.x : ℚ) - a.x) + ((p.y : ℚ) - a.y) * ((p.y : ℚ) - a.y) := by
      have := of_decide_eq_true h
      exact_mod_cast this
    rw [ex, ey, ← hdx, ← hdy] at h1q
    rw [ex, ey] at hq
    have e0 : t * (dx * dx + dy * dy) ≤ 0 := by linarith
    have e1 : 0 ≤ t * (dx * dx + dy * dy) := mul_nonneg ht0 hl2
    have e2 : t * dx * (t * dx) + t * dy * (t * dy) = t * (t * (dx * dx + dy * dy)) := by ring
    rw [e2, le_antisymm e0 e1] at hq
    linarith
  · rename_i h1
    split at h
    · rename_i h2
      have h2q : ((b.x : ℚ) - a.x) * ((b.x : ℚ) - a.x) + ((b.y : ℚ) - a.y) * ((b.y : ℚ) - a.y) ≤
          ((p.x : ℚ) - a.x) * ((b.x : ℚ) - a.x) + ((p.y : ℚ) - a.y) * ((b.y : ℚ) - a.y) := by
        exact_mod_cast h2
      have hq : (m : ℚ) * m ≤ ((p.x : ℚ) - b.x) * ((p.x : ℚ) - b.x) + ((p.y : ℚ) - b.y) * ((p.y : ℚ) - b.y) := by
        have := of_decide_eq_true h
        exact_mod_cast this
      rw [ex, ey, ← hdx, ← hdy] at h2q
      rw [ebx, eby] at hq
      have e0 : (1 - t) * (dx * dx + dy * dy) ≤ 0 := by linarith
      have e1 : 0 ≤ (1 - t) * (dx * dx + dy * dy) := mul_nonneg (by linarith) hl2
      have e2 : (t - 1) * dx * ((t - 1) * dx) + (t - 1) * dy * ((t - 1) * dy) =
          (1 - t) * ((1 - t) * (dx * dx + dy * dy)) := by ring
      rw [e2, le_antisymm e0 e1] at hq
      linarith
    · have h1q : ¬ (((p.x : ℚ) - a.x) * ((b.x : ℚ) - a.x) + ((p.y : ℚ) - a.y) * ((b.y : ℚ) - a.y) ≤ 0) := by
        exact_mod_cast h1
      have hq : (m : ℚ) * m * (((b.x : ℚ) - a.x) * ((b.x : ℚ) - a.x) + ((b.y : ℚ) - a.y) * ((b.y : ℚ) - a.y)) ≤
          (((b.x : ℚ) - a.x) * ((p.y : ℚ) - a.y) - ((b.y : ℚ) - a.y) * ((p.x : ℚ) - a.x)) *
          (((b.x : ℚ) - a.x) * ((p.y : ℚ) - a.y) - ((b.y : ℚ) - a.y) * ((p.x : ℚ) - a.x)) := by
        have := of_decide_eq_true h
        exact_mod_cast this
      rw [ex, ey, ← hdx, ← hdy] at h1q hq
      have e2 : (dx * (t * dy) - dy * (t * dx)) * (dx * (t * dy) - dy * (t * dx)) = 0 := by ring
      rw [e2] at hq
      have hpos : 0 < dx * dx + dy * dy := by
        rcases hl2.lt_or_eq with h | h
        · exact h
        · exfalso; apply h1q
          have : t * dx * dx + t * dy * dy = t * (dx * dx + dy * dy) := by ring
          rw [this, ← h]; simp
      have := mul_pos hmq hpos
      linarith

/-- a point that keeps a positive margin from all edges of `P` lies on no edge of `P` -/
theorem clear_not_on_edge (m : Int) (hm : 0 < m) (P : EO.Polygon) (p : EO.Pt) (h : EO.clear m P p = true) :
    ∀ e ∈ EO.allEdges P, ¬ OnSeg (toQ e.1) (toQ e.2) (toQ p) := by
  unfold EO.clear at h
  rw [List.all_eq_true] at h
  intro e he
  exact farSeg_not_onSeg m hm e.1 e.2 p (h e he)

end EOQ
