import Model.EvenOdd
import Lemmas.EvenOdd
import Lemmas.EvenOddPerm
import Lemmas.EvenOddPrune

/-! C05: the library's own point tests.  `Contour.Contains` counts an edge when `pt.X ≤ x-intercept` (and
    `pt.X < max X`), the specification when `pt.x < x-intercept`: the two differ only for points ON the edge
    (`containsEdge_eq_crosses`), so `Polygon.ContainsEvenOdd` is the even-odd rule at every point off the edges and
    `Polygon.Contains` is the union of the contours' regions. -/

namespace EOQ

theorem containsEdge_eq_crosses_le (a b p : EO.Pt) (hab : a.y ≤ b.y) (h : EO.onSeg a b p = false) :
    EO.containsEdge a b p = EO.crosses a b p := by
  unfold EO.onSeg EO.orient EO.inBox at h
  unfold EO.containsEdge EO.leXint EO.crosses
  simp only [Bool.and_eq_false_iff, beq_eq_false_iff_ne, ne_eq, decide_eq_false_iff_not] at h
  rcases Int.lt_trichotomy a.y b.y with hy | hy | hy
  · have h1 : ¬ a.y > b.y := by omega
    have h2 : b.y ≠ a.y := by omega
    simp only [h1, if_false, hy, if_true, h2, ne_eq, not_false_eq_true, decide_true, Bool.and_true, ge_iff_le]
    by_cases c1 : a.y ≤ p.y <;> by_cases c2 : p.y < b.y <;> simp only [c1, c2, decide_true, decide_false,
      Bool.true_and, Bool.false_and, true_and, false_and, and_false]
    -- in the ordinate range
    have dy : 0 < b.y - a.y := by omega
    have py0 : 0 ≤ p.y - a.y := by omega
    have py1 : p.y - a.y < b.y - a.y := by omega
    by_cases hc : (p.x - a.x) * (b.y - a.y) < (p.y - a.y) * (b.x - a.x)
    · -- crossed: the point is left of the larger abscissa
      have hm : p.x < max a.x b.x := by
        rcases Int.le_total a.x b.x with hx | hx
        · rw [Int.max_eq_right hx]
          have : (p.y - a.y) * (b.x - a.x) ≤ (b.y - a.y) * (b.x - a.x) :=
            Int.mul_le_mul_of_nonneg_right (by omega) (by omega)
          by_contra hn
          have : (b.x - a.x) * (b.y - a.y) ≤ (p.x - a.x) * (b.y - a.y) :=
            Int.mul_le_mul_of_nonneg_right (by omega) (by omega)
          nlinarith
        · rw [Int.max_eq_left hx]
          have : (p.y - a.y) * (b.x - a.x) ≤ 0 := Int.mul_nonpos_of_nonneg_of_nonpos py0 (by omega)
          by_contra hn
          have : 0 ≤ (p.x - a.x) * (b.y - a.y) := Int.mul_nonneg (by omega) (by omega)
          omega
      simp only [hm, decide_true, Bool.true_and, hc, Bool.or_eq_true, decide_eq_true_eq]
      right; omega
    · simp only [hc, decide_false]
      by_cases hm : p.x < max a.x b.x
      · simp only [hm, decide_true, Bool.true_and, Bool.or_eq_false_iff, decide_eq_false_iff_not]
        constructor
        · intro hx
          rw [hx] at hc hm
          simp at hm
          have : (p.x - b.x) * (b.y - a.y) < 0 := Int.mul_neg_of_neg_of_pos (by omega) dy
          simp at hc
          omega
        · intro hle
          have heq : (p.x - a.x) * (b.y - a.y) = (p.y - a.y) * (b.x - a.x) := by omega
          -- then the point is on the edge
          rcases h with h | h
          · apply h
            have e1 : (b.x - a.x) * (p.y - a.y) = (p.y - a.y) * (b.x - a.x) := Int.mul_comm _ _
            have e2 : (b.y - a.y) * (p.x - a.x) = (p.x - a.x) * (b.y - a.y) := Int.mul_comm _ _
            omega
          · apply h
            refine ⟨?_, by omega, by omega, by omega⟩
            rcases Int.le_total a.x b.x with hx | hx
            · rw [Int.min_eq_left hx]
              have : 0 ≤ (p.y - a.y) * (b.x - a.x) := Int.mul_nonneg py0 (by omega)
              by_contra hn
              have : (p.x - a.x) * (b.y - a.y) < 0 := Int.mul_neg_of_neg_of_pos (by omega) dy
              omega
            · rw [Int.min_eq_right hx]
              by_contra hn
              have e1 : (p.x - a.x) * (b.y - a.y) < (b.x - a.x) * (b.y - a.y) :=
                Int.mul_lt_mul_of_pos_right (by omega) dy
              have e2 : (b.y - a.y) * (b.x - a.x) ≤ (p.y - a.y) * (b.x - a.x) :=
                Int.mul_le_mul_of_nonpos_right (by omega) (by omega)
              nlinarith
      · simp [hm]
  · simp [hy]
  · omega

theorem onSeg_symm (a b p : EO.Pt) : EO.onSeg a b p = EO.onSeg b a p := by
  unfold EO.onSeg EO.orient EO.inBox
  have e : (b.x - a.x) * (p.y - a.y) - (b.y - a.y) * (p.x - a.x) =
      -((a.x - b.x) * (p.y - b.y) - (a.y - b.y) * (p.x - b.x)) := by ring
  rw [e, Int.min_comm a.x b.x, Int.max_comm a.x b.x, Int.min_comm a.y b.y, Int.max_comm a.y b.y]
  congr 1
  rw [Bool.eq_iff_iff]
  simp only [beq_iff_eq, Int.neg_eq_zero]

theorem containsEdge_symm (a b p : EO.Pt) : EO.containsEdge a b p = EO.containsEdge b a p := by
  unfold EO.containsEdge EO.leXint
  have e : (p.x - a.x) * (b.y - a.y) - (p.y - a.y) * (b.x - a.x) =
      (p.x - b.x) * (b.y - a.y) - (p.y - b.y) * (b.x - a.x) := by ring
  have e1 : (p.x - b.x) * (a.y - b.y) = -((p.x - b.x) * (b.y - a.y)) := by ring
  have e2 : (p.y - b.y) * (a.x - b.x) = -((p.y - b.y) * (b.x - a.x)) := by ring
  rw [Int.max_comm b.x a.x, e1, e2]
  rcases Int.lt_trichotomy a.y b.y with hy | hy | hy
  · have h1 : ¬ a.y > b.y := by omega
    have h2 : b.y > a.y := hy
    have h3 : ¬ b.y < a.y := by omega
    simp only [h1, h2, if_true, if_false]
    congr 1
    · congr 1
      simp only [decide_eq_decide]; omega
    · congr 1
      · simp only [decide_eq_decide]; omega
      · simp only [decide_eq_decide]; omega
  · simp [hy]
  · have h1 : a.y > b.y := hy
    have h2 : ¬ b.y > a.y := by omega
    have h3 : ¬ a.y < b.y := by omega
    simp only [h1, h2, if_true, if_false]
    congr 1
    · congr 1
      simp only [decide_eq_decide]; omega
    · congr 1
      · simp only [decide_eq_decide]; omega
      · simp only [decide_eq_decide]; omega

/-- at a point that is not on the edge, the term of `Contour.Contains` is the crossing test of the specification -/
theorem containsEdge_eq_crosses (a b p : EO.Pt) (h : EO.onSeg a b p = false) :
    EO.containsEdge a b p = EO.crosses a b p := by
  rcases Int.le_total a.y b.y with hab | hab
  · exact containsEdge_eq_crosses_le a b p hab h
  · rw [containsEdge_symm, containsEdge_eq_crosses_le b a p hab (by rw [← onSeg_symm]; exact h)]
    exact (crosses_symm_int a b p).symm

theorem offEdges_cons (c : EO.Contour) (P : EO.Polygon) (p : EO.Pt) :
    EO.offEdges (c :: P) p = (EO.offEdges [c] p && EO.offEdges P p) := by
  unfold EO.offEdges
  rw [allEdges_cons, allEdges_single, List.all_append]

theorem inside_cons_int (c : EO.Contour) (P : EO.Polygon) (p : EO.Pt) :
    EO.inside (c :: P) p = (EO.inside [c] p != EO.inside P p) := by
  have : c :: P = [c] ++ P := rfl
  rw [this]
  unfold EO.inside EO.crossCount EO.allEdges
  rw [List.flatMap_append, List.countP_append]
  generalize List.countP _ (List.flatMap EO.edgesOf [c]) = m
  generalize List.countP _ (List.flatMap EO.edgesOf P) = n
  rcases Nat.mod_two_eq_zero_or_one m with hm | hm <;> rcases Nat.mod_two_eq_zero_or_one n with hn | hn <;>
    simp [Nat.add_mod, hm, hn]

/-- `Contour.Contains` is the even-odd test of the contour at every point that lies on none of its edges -/
theorem containsC_eq_inside (c : EO.Contour) (p : EO.Pt) (h : EO.offEdges [c] p = true) :
    EO.containsC c p = EO.inside [c] p := by
  unfold EO.containsC EO.inside EO.crossCount
  unfold EO.offEdges at h
  rw [allEdges_single] at h ⊢
  rw [List.all_eq_true] at h
  have : (EO.edgesOf c).countP (fun e => EO.containsEdge e.1 e.2 p) =
      (EO.edgesOf c).countP (fun e => EO.crosses e.1 e.2 p) := by
    apply List.countP_congr
    intro e he
    have := h e he
    simp only [Bool.not_eq_true'] at this
    rw [containsEdge_eq_crosses e.1 e.2 p this]
  rw [this]

/-- `Polygon.ContainsEvenOdd` is the even-odd rule of the specification at every point that lies on no edge -/
theorem containsEvenOdd_eq_inside (P : EO.Polygon) (p : EO.Pt) (h : EO.offEdges P p = true) :
    EO.containsEvenOdd P p = EO.inside P p := by
  induction P with
  | nil => rfl
  | cons c P ih =>
    rw [offEdges_cons, Bool.and_eq_true] at h
    rw [inside_cons_int, ← ih h.2, ← containsC_eq_inside c p h.1]
    unfold EO.containsEvenOdd
    rw [List.countP_cons]
    generalize List.countP (fun c => EO.containsC c p) P = n
    cases EO.containsC c p <;> rcases Nat.mod_two_eq_zero_or_one n with hn | hn <;> simp [Nat.add_mod, hn]

/-- `Polygon.Contains` is the UNION of the contours' even-odd regions (not the even-odd rule of the polygon) -/
theorem containsAny_eq (P : EO.Polygon) (p : EO.Pt) (h : EO.offEdges P p = true) :
    EO.containsAny P p = P.any (fun c => EO.inside [c] p) := by
  induction P with
  | nil => rfl
  | cons c P ih =>
    rw [offEdges_cons, Bool.and_eq_true] at h
    unfold EO.containsAny at ih ⊢
    rw [List.any_cons, List.any_cons, ih h.2, containsC_eq_inside c p h.1]

end EOQ
