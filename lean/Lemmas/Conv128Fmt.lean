import Model.Conv128Fmt
import Lemmas.Conv128Misc
/-! C02 helper lemmas, part 17 (core Lean only): `Format` — the text `(*big.Int).Format` writes for a `Uint128` /
    `Int128`, cut to the token `fmt`'s scanner delivers, reads back through `Scan` with the same verb. -/
namespace Conv

/-! ## `nat.utoa` is the digit string the `Scan` lemmas speak about -/

theorem fmtDigit_lower (d : Nat) : fmtDigit false d = baseDigitChar d := by
  unfold fmtDigit baseDigitChar; simp

theorem fmtDigit_upper (d : Nat) : fmtDigit true d = baseDigitCharU d := by
  unfold fmtDigit baseDigitCharU; simp

theorem utoaAux_fuel (up : Bool) (b : Nat) :
    ∀ f1 f2 n, n ≤ f1 → n ≤ f2 → utoaAux up b f1 n = utoaAux up b f2 n := by
  intro f1
  induction f1 with
  | zero =>
    intro f2 n h1 _
    have : n = 0 := by omega
    subst this
    cases f2 with
    | zero => rfl
    | succ k => simp only [utoaAux]; rw [if_neg (by omega)]
  | succ f1 ih =>
    intro f2 n h1 h2
    cases f2 with
    | zero =>
      have : n = 0 := by omega
      subst this; simp only [utoaAux]; rw [if_neg (by omega)]
    | succ f2 =>
      simp only [utoaAux]
      by_cases h : 2 ≤ b ∧ b ≤ n
      · rw [if_pos h, if_pos h]
        have hq : n / b < n := Nat.div_lt_self (by omega) (by omega)
        rw [ih f2 (n / b) (by omega) (by omega)]
      · rw [if_neg h, if_neg h]

theorem utoa_unfold (up : Bool) (b n : Nat) :
    utoa up b n = if 2 ≤ b ∧ b ≤ n then utoa up b (n / b) ++ [fmtDigit up (n % b)] else [fmtDigit up n] := by
  unfold utoa
  cases n with
  | zero => simp only [utoaAux]; rw [if_neg (by omega)]
  | succ k =>
    simp only [utoaAux]
    by_cases h : 2 ≤ b ∧ b ≤ k + 1
    · rw [if_pos h, if_pos h]
      have hq : (k + 1) / b < k + 1 := Nat.div_lt_self (by omega) (by omega)
      rw [utoaAux_fuel up b k ((k + 1) / b) _ (by omega) (by omega)]
    · rw [if_neg h, if_neg h]

theorem utoa_lower (b n : Nat) : utoa false b n = baseDigits b n := by
  induction n using Nat.strongRecOn with
  | _ n ih =>
    rw [utoa_unfold, baseDigits_unfold]
    by_cases h : 2 ≤ b ∧ b ≤ n
    · rw [if_pos h, if_pos h, fmtDigit_lower]
      have : n / b < n := Nat.div_lt_self (by omega) (by omega)
      rw [ih (n / b) this]
    · rw [if_neg h, if_neg h, fmtDigit_lower]

theorem utoa_upper (b n : Nat) : utoa true b n = baseDigitsU b n := by
  induction n using Nat.strongRecOn with
  | _ n ih =>
    rw [utoa_unfold, baseDigitsU_unfold]
    by_cases h : 2 ≤ b ∧ b ≤ n
    · rw [if_pos h, if_pos h, fmtDigit_upper]
      have : n / b < n := Nat.div_lt_self (by omega) (by omega)
      rw [ih (n / b) this]
    · rw [if_neg h, if_neg h, fmtDigit_upper]

theorem zeroPad_eq (k : Nat) : zeroPad k = zeros k := rfl

/-- digits of either case, padded: all digits of the base, not empty, value = the number -/
theorem utoa_padded (up : Bool) (b : Nat) (hb : 2 ≤ b) (hb16 : b ≤ 16) (k n : Nat) :
    (∀ c ∈ zeros k ++ utoa up b n, digitVal c < b) ∧ zeros k ++ utoa up b n ≠ [] ∧
      digitsVal b (zeros k ++ utoa up b n) = n := by
  cases up with
  | false => rw [utoa_lower]; exact padded_facts b hb hb16 k n
  | true => rw [utoa_upper]; exact paddedU_facts b hb hb16 k n

/-! ## a prefixed literal `sign 0<letter> digits` (letter of either case) denotes the signed Horner value -/

/-- hexadecimal, prefix `0x` or `0X`, any digit string (the `big.Rat` branch when a digit is `e`/`E`) -/
theorem parse_hex_body_c (c : Char) (hc : c = 'x' ∨ c = 'X') (sg : List Char) (hsg : IsSign sg) (body : List Char)
    (hne : body ≠ []) (hall : ∀ d ∈ body, digitVal d < 16) :
    parseToBigInt (sg ++ ('0' :: c :: body)) =
      some (if sg = ['-'] then -(digitsVal 16 body : Int) else (digitsVal 16 body : Int)) := by
  cases hexp : hasExpChar (sg ++ ('0' :: c :: body)) with
  | false =>
    have hsd := sepDigits_of_all 16 true body hne hall
    exact parse_of_body sg _ _ hsg (PlainBody.hex c body hc hsd) hexp
  | true =>
    rw [parseToBigInt_exp_iff _ _ hexp]
    have hnd : 0 < ndig body := by
      rw [ndig_of_all 16 (by omega) body hall]
      cases body with
      | nil => exact absurd rfl hne
      | cons _ _ => simp
    have hmant : RatMant ('0' :: c :: body) 16 (mval 16 0 body) (mcount body) :=
      RatMant.pre c 16 body (Or.inr (Or.inr ⟨hc, rfl⟩)) (mant_of_all 16 (by omega) .digit (by decide) body hall) hnd
    have hmv : mval 16 0 body = digitsVal 16 body := by unfold digitsVal; exact mval_of_all 16 (by omega) body hall 0
    have hmc : mcount body = (body.length : Int) := by
      unfold mcount; rw [fracDigits_of_all 16 (by omega) body hall, ndig_of_all 16 (by omega) body hall]
    have hslash : hasSlash (sg ++ ('0' :: c :: body)) = false := by
      have : sg ++ ('0' :: c :: body) = sg ++ (['0', c] ++ body) := rfl
      rw [this, hasSlash_append, hasSlash_append, hasSlash_sign sg hsg, hasSlash_digits 16 (by omega) body hall]
      rcases hc with rfl | rfl <;> decide
    refine ⟨hslash, ?_⟩
    have htail : ∀ neg : Bool, ratTail neg (mval 16 0 body) 16 (mcount body) 10 0 =
        some (if neg then -((digitsVal 16 body : Nat) : Int) else ((digitsVal 16 body : Nat) : Int), 1) := by
      intro neg
      rw [hmv, hmc]
      unfold ratTail
      by_cases hz : digitsVal 16 body = 0
      · rw [hz]; cases neg <;> rfl
      · have hz' : (digitsVal 16 body == 0) = false := by simp [hz]
        have e5 : exp5Of 16 (body.length : Int) 10 0 = 0 := by
          unfold exp5Of; simp
        have e2 : exp2Of 16 (body.length : Int) 0 = 0 := by
          unfold exp2Of
          have : ¬ ((body.length : Int) < 0) := by omega
          simp [this]
        rw [hz', e5, e2]
        simp [numOf, denOf]
    rcases hsg with rfl | rfl | rfl
    · refine ⟨_, 1, (bigRatSetString_iff _ _ _).mpr ⟨[], _, [], 16, _, _, 10, 0, false, by simp, Or.inl ⟨Or.inl rfl, rfl⟩,
        hmant, Or.inl rfl, Or.inl ⟨rfl, rfl, rfl⟩, htail false⟩, ?_⟩
      simp
    · refine ⟨_, 1, (bigRatSetString_iff _ _ _).mpr ⟨['+'], _, [], 16, _, _, 10, 0, false, by simp, Or.inl ⟨Or.inr rfl, rfl⟩,
        hmant, Or.inl rfl, Or.inl ⟨rfl, rfl, rfl⟩, htail false⟩, ?_⟩
      simp
    · refine ⟨_, 1, (bigRatSetString_iff _ _ _).mpr ⟨['-'], _, [], 16, _, _, 10, 0, true, by simp, Or.inr ⟨rfl, rfl⟩,
        hmant, Or.inl rfl, Or.inl ⟨rfl, rfl, rfl⟩, htail true⟩, ?_⟩
      simp

/-- binary and octal prefixes of either case: digits below 14 never contain an exponent character -/
theorem parse_lowbase_body (c : Char) (b : Nat) (hc : ((c = 'b' ∨ c = 'B') ∧ b = 2) ∨ ((c = 'o' ∨ c = 'O') ∧ b = 8))
    (sg : List Char) (hsg : IsSign sg) (body : List Char) (hne : body ≠ []) (hall : ∀ d ∈ body, digitVal d < b) :
    parseToBigInt (sg ++ ('0' :: c :: body)) =
      some (if sg = ['-'] then -(digitsVal b body : Int) else (digitsVal b body : Int)) := by
  have hb14 : b ≤ 14 := by rcases hc with ⟨_, e⟩ | ⟨_, e⟩ <;> omega
  have hsd := sepDigits_of_all b true body hne hall
  have hbody : PlainBody ('0' :: c :: body) (digitsVal b body) := by
    rcases hc with ⟨e1, e2⟩ | ⟨e1, e2⟩
    · subst e2; exact PlainBody.bin c body e1 hsd
    · subst e2; exact PlainBody.oct c body e1 hsd
  have hexp : hasExpChar (sg ++ ('0' :: c :: body)) = false := by
    have hpc : hasExpChar ['0', c] = false := by
      rcases hc with ⟨e1 | e1, _⟩ | ⟨e1 | e1, _⟩ <;> (subst e1; decide)
    have : sg ++ ('0' :: c :: body) = sg ++ (['0', c] ++ body) := rfl
    rw [this, hasExp_append, hasExp_append, hasExp_sign sg hsg, hpc, hasExp_digits b hb14 body hall]; rfl
  exact parse_of_body sg _ _ hsg hbody hexp

/-- a text that already carries the base prefix of the verb is left alone by `scanText` -/
theorem scanText_prefixed (verb : Char) (pfx letters : List Char) (hv : verbPrefix verb = some (pfx, letters))
    (sg : List Char) (hsg : IsSign sg) (c : Char) (hc : letters.contains c = true) (rest : List Char) :
    scanText (sg ++ ('0' :: c :: rest)) verb = sg ++ ('0' :: c :: rest) := by
  have hsp : splitSign (sg ++ ('0' :: c :: rest)) = (sg, '0' :: c :: rest) := by
    rcases hsg with rfl | rfl | rfl <;> simp [splitSign]
  unfold scanText
  rw [hv]
  simp only []
  rw [hsp]
  simp only [isBasePrefixed, hc, if_true]

/-! ## per verb: the token `sign ++ prefix ++ zero padding ++ digits` reads back -/

/-- the six verbs that print in a base and read back in it -/
def IsBaseVerb (ch : Char) : Prop := ch = 'b' ∨ ch = 'o' ∨ ch = 'O' ∨ ch = 'd' ∨ ch = 'x' ∨ ch = 'X'

theorem zeros_succ (k : Nat) (l : List Char) : '0' :: (zeros k ++ l) = zeros (k + 1) ++ l := by
  unfold zeros; rw [List.replicate_succ]; rfl

theorem scan_fmt_body (st : FmtState) (ch : Char) (hch : IsBaseVerb ch) (base : Nat) (hb : verbBase ch = some base)
    (sg : List Char) (hsg : IsSign sg) (zr n : Nat) :
    parseToBigInt (scanText (sg ++ (fmtPrefix st ch ++ (zeros zr ++ utoa (decide (ch = 'X')) base n))) ch) =
      some (if sg = ['-'] then -(n : Int) else (n : Int)) := by
  rcases hch with rfl | rfl | rfl | rfl | rfl | rfl
  · -- b
    have hbase : base = 2 := by have : verbBase 'b' = some 2 := by decide
                                rw [this] at hb; injection hb with hb; exact hb.symm
    subst hbase
    have hx : decide ('b' = 'X') = false := by decide
    rw [hx, utoa_lower]
    obtain ⟨hall, hne, hval⟩ := padded_facts 2 (by omega) (by omega) zr n
    cases hs : st.sharp with
    | false =>
      have : fmtPrefix st 'b' = [] := by unfold fmtPrefix; simp [hs]
      rw [this, List.nil_append]; exact scan_parse_bin sg hsg zr n
    | true =>
      have : fmtPrefix st 'b' = ['0', 'b'] := by unfold fmtPrefix; simp [hs]
      rw [this]
      show parseToBigInt (scanText (sg ++ ('0' :: 'b' :: (zeros zr ++ baseDigits 2 n))) 'b') = _
      rw [scanText_prefixed 'b' ['0', 'b'] ['b', 'B'] (by decide) sg hsg 'b' (by decide),
        parse_lowbase_body 'b' 2 (Or.inl ⟨Or.inl rfl, rfl⟩) sg hsg _ hne hall, hval]
  · -- o
    have hbase : base = 8 := by have : verbBase 'o' = some 8 := by decide
                                rw [this] at hb; injection hb with hb; exact hb.symm
    subst hbase
    have hx : decide ('o' = 'X') = false := by decide
    rw [hx, utoa_lower]
    cases hs : st.sharp with
    | false =>
      have : fmtPrefix st 'o' = [] := by unfold fmtPrefix; simp [hs]
      rw [this, List.nil_append]; exact scan_parse_oct 'o' (Or.inl rfl) sg hsg zr n
    | true =>
      have : fmtPrefix st 'o' = ['0'] := by unfold fmtPrefix; simp [hs]
      rw [this]
      show parseToBigInt (scanText (sg ++ ('0' :: (zeros zr ++ baseDigits 8 n))) 'o') = _
      rw [zeros_succ]; exact scan_parse_oct 'o' (Or.inl rfl) sg hsg (zr + 1) n
  · -- O
    have hbase : base = 8 := by have : verbBase 'O' = some 8 := by decide
                                rw [this] at hb; injection hb with hb; exact hb.symm
    subst hbase
    have hx : decide ('O' = 'X') = false := by decide
    rw [hx, utoa_lower]
    obtain ⟨hall, hne, hval⟩ := padded_facts 8 (by omega) (by omega) zr n
    have : fmtPrefix st 'O' = ['0', 'o'] := by unfold fmtPrefix; simp
    rw [this]
    show parseToBigInt (scanText (sg ++ ('0' :: 'o' :: (zeros zr ++ baseDigits 8 n))) 'O') = _
    rw [scanText_prefixed 'O' ['0', 'o'] ['o', 'O'] (by decide) sg hsg 'o' (by decide),
      parse_lowbase_body 'o' 8 (Or.inr ⟨Or.inl rfl, rfl⟩) sg hsg _ hne hall, hval]
  · -- d
    have hbase : base = 10 := by have : verbBase 'd' = some 10 := by decide
                                 rw [this] at hb; injection hb with hb; exact hb.symm
    subst hbase
    have hx : decide ('d' = 'X') = false := by decide
    rw [hx, utoa_lower, ← natDigits_eq_baseDigits]
    have : fmtPrefix st 'd' = [] := by unfold fmtPrefix; cases st.sharp <;> simp
    rw [this, List.nil_append]; exact scan_parse_dec sg hsg zr n
  · -- x
    have hbase : base = 16 := by have : verbBase 'x' = some 16 := by decide
                                 rw [this] at hb; injection hb with hb; exact hb.symm
    subst hbase
    have hx : decide ('x' = 'X') = false := by decide
    rw [hx, utoa_lower]
    obtain ⟨hall, hne, hval⟩ := padded_facts 16 (by omega) (by omega) zr n
    cases hs : st.sharp with
    | false =>
      have : fmtPrefix st 'x' = [] := by unfold fmtPrefix; simp [hs]
      rw [this, List.nil_append]; exact scan_parse_hex_all 'x' (Or.inl rfl) sg hsg zr n
    | true =>
      have : fmtPrefix st 'x' = ['0', 'x'] := by unfold fmtPrefix; simp [hs]
      rw [this]
      show parseToBigInt (scanText (sg ++ ('0' :: 'x' :: (zeros zr ++ baseDigits 16 n))) 'x') = _
      rw [scanText_prefixed 'x' ['0', 'x'] ['x', 'X'] (by decide) sg hsg 'x' (by decide),
        parse_hex_body_c 'x' (Or.inl rfl) sg hsg _ hne hall, hval]
  · -- X
    have hbase : base = 16 := by have : verbBase 'X' = some 16 := by decide
                                 rw [this] at hb; injection hb with hb; exact hb.symm
    subst hbase
    have hx : decide ('X' = 'X') = true := by decide
    rw [hx, utoa_upper]
    obtain ⟨hall, hne, hval⟩ := paddedU_facts 16 (by omega) (by omega) zr n
    cases hs : st.sharp with
    | false =>
      have : fmtPrefix st 'X' = [] := by unfold fmtPrefix; simp [hs]
      rw [this, List.nil_append]; exact scan_parse_hexU_all 'X' (Or.inr rfl) sg hsg zr n
    | true =>
      have : fmtPrefix st 'X' = ['0', 'X'] := by unfold fmtPrefix; simp [hs]
      rw [this]
      show parseToBigInt (scanText (sg ++ ('0' :: 'X' :: (zeros zr ++ baseDigitsU 16 n))) 'X') = _
      rw [scanText_prefixed 'X' ['0', 'x'] ['x', 'X'] (by decide) sg hsg 'X' (by decide),
        parse_hex_body_c 'X' (Or.inr rfl) sg hsg _ hne hall, hval]

/-! ## the token of a padded rendering -/

theorem takeWhile_blanks (r : Nat) : (blanks r).takeWhile (· ≠ ' ') = [] := by
  cases r with
  | zero => rfl
  | succ k => unfold blanks; rw [List.replicate_succ]; simp

theorem takeWhile_body (body : List Char) (r : Nat) (h : ∀ c ∈ body, c ≠ ' ') :
    (body ++ blanks r).takeWhile (· ≠ ' ') = body := by
  induction body with
  | nil => simpa using takeWhile_blanks r
  | cons c t ih =>
    have hc := h c (by simp)
    simp only [List.cons_append, List.takeWhile_cons]
    rw [if_pos (by simpa using hc), ih (fun d hd => h d (List.mem_cons_of_mem _ hd))]

theorem dropWhile_blanks (l : Nat) (t : List Char) :
    (blanks l ++ t).dropWhile (· = ' ') = t.dropWhile (· = ' ') := by
  induction l with
  | zero => rfl
  | succ k ih =>
    unfold blanks at ih ⊢
    rw [List.replicate_succ]
    simp only [List.cons_append, List.dropWhile_cons, decide_true, if_true]
    exact ih

/-- `fmt`'s token of `[left pad] body [right pad]` is `body` when `body` contains no blank -/
theorem fmtToken_padded (l r : Nat) (body : List Char) (h : ∀ c ∈ body, c ≠ ' ') :
    fmtToken (blanks l ++ (body ++ blanks r)) = body := by
  unfold fmtToken
  rw [dropWhile_blanks]
  cases body with
  | nil =>
    have : ([] ++ blanks r).dropWhile (· = ' ') = (blanks r ++ []).dropWhile (· = ' ') := by simp
    rw [this, dropWhile_blanks]; rfl
  | cons c t =>
    have hc := h c (by simp)
    simp only [List.cons_append, List.dropWhile_cons]
    rw [if_neg (by simpa using hc)]
    exact takeWhile_body (c :: t) r h

/-- the sign as the token carries it: the blank of the flag ` ` is a separator, not part of the token -/
def signTok (st : FmtState) (neg : Bool) : List Char := if neg then ['-'] else if st.plus then ['+'] else []

theorem fmtSign_blank (st : FmtState) (neg : Bool) (l : Nat) :
    ∃ l', blanks l ++ fmtSign st neg = blanks l' ++ signTok st neg := by
  unfold fmtSign signTok
  cases neg with
  | true => exact ⟨l, rfl⟩
  | false =>
    cases st.plus with
    | true => exact ⟨l, rfl⟩
    | false =>
      cases st.space with
      | false => exact ⟨l, rfl⟩
      | true =>
        refine ⟨l + 1, ?_⟩
        simp only [Bool.false_eq_true, if_false, if_true, List.append_nil]
        unfold blanks; rw [List.replicate_succ']

theorem signTok_isSign (st : FmtState) (neg : Bool) : IsSign (signTok st neg) := by
  unfold signTok IsSign
  cases neg <;> cases st.plus <;> simp

theorem signTok_value (st : FmtState) (z : Int) :
    (if signTok st (decide (z < 0)) = ['-'] then -(z.natAbs : Int) else (z.natAbs : Int)) = z := by
  unfold signTok
  by_cases h : z < 0
  · rw [decide_eq_true h]; simp only [if_true]; omega
  · rw [decide_eq_false h]
    cases st.plus <;> simp <;> omega

theorem digit_not_blank {c : Char} {b : Nat} (h : digitVal c < b) (hb : b ≤ 36) : c ≠ ' ' := by
  intro e; subst e
  have : digitVal ' ' = 63 := by decide
  omega

theorem fmtPrefix_not_blank (st : FmtState) (ch : Char) : ∀ c ∈ fmtPrefix st ch, c ≠ ' ' := by
  intro c hc
  unfold fmtPrefix at hc
  split at hc
  · simp at hc; rcases hc with rfl | rfl <;> decide
  · split at hc
    · split at hc
      · simp at hc; rcases hc with rfl | rfl <;> decide
      · split at hc
        · simp at hc; subst hc; decide
        · split at hc
          · simp at hc; rcases hc with rfl | rfl <;> decide
          · split at hc
            · simp at hc; rcases hc with rfl | rfl <;> decide
            · cases hc
    · cases hc

theorem verbBase_range (ch : Char) (base : Nat) (h : verbBase ch = some base) : 2 ≤ base ∧ base ≤ 16 := by
  unfold verbBase at h
  split at h
  · injection h with h; omega
  · split at h
    · injection h with h; omega
    · split at h
      · injection h with h; omega
      · split at h
        · injection h with h; omega
        · cases h

/-- the paddings exist unless the value is zero and the precision is zero (the early `return`) -/
theorem fmtPads_some (st : FmtState) (a b : Nat) (digits : List Char) (h : ¬ (st.prec = some 0 ∧ digits = ['0'])) :
    ∃ l zr r, fmtPads st a b digits = some (l, zr, r) := by
  unfold fmtPads
  cases hp : st.prec with
  | none =>
    simp only []
    cases st.width with
    | none => exact ⟨_, _, _, rfl⟩
    | some w =>
      simp only []
      split
      · split
        · exact ⟨_, _, _, rfl⟩
        · split <;> exact ⟨_, _, _, rfl⟩
      · exact ⟨_, _, _, rfl⟩
  | some p =>
    simp only []
    have key : ∃ z, (if digits.length < p then some (p - digits.length) else if digits = ['0'] ∧ p = 0 then none else some 0)
        = some z := by
      split
      · exact ⟨_, rfl⟩
      · split
        · rename_i hh
          exact absurd ⟨by rw [hp, hh.2], hh.1⟩ h
        · exact ⟨_, rfl⟩
    obtain ⟨z, hz⟩ := key
    rw [hz]
    simp only []
    cases st.width with
    | none => exact ⟨_, _, _, rfl⟩
    | some w =>
      simp only []
      split
      · split
        · exact ⟨_, _, _, rfl⟩
        · split <;> exact ⟨_, _, _, rfl⟩
      · exact ⟨_, _, _, rfl⟩

/-- **the rendering reads back** (on `big.Int` values): for the six base verbs, every combination of flags, width and
    precision — except the empty rendering of 0 with precision 0 — `Format` writes a text whose token, scanned with
    the same verb, parses to the value -/
theorem bigFormat_reads_back (st : FmtState) (ch : Char) (hch : IsBaseVerb ch) (z : Int)
    (hnz : ¬ (st.prec = some 0 ∧ z = 0)) :
    ∃ text, bigFormat st ch z = some text ∧ parseToBigInt (scanText (fmtToken text) ch) = some z := by
  have hvb : ∃ base, verbBase ch = some base := by
    rcases hch with rfl | rfl | rfl | rfl | rfl | rfl
    · exact ⟨2, by decide⟩
    · exact ⟨8, by decide⟩
    · exact ⟨8, by decide⟩
    · exact ⟨10, by decide⟩
    · exact ⟨16, by decide⟩
    · exact ⟨16, by decide⟩
  obtain ⟨base, hb⟩ := hvb
  obtain ⟨hb2, hb16⟩ := verbBase_range ch base hb
  obtain ⟨hall, hne, hval⟩ := utoa_padded (decide (ch = 'X')) base hb2 hb16 0 z.natAbs
  simp only [zeros, List.replicate_zero, List.nil_append] at hall hne hval
  have hd0 : ¬ (st.prec = some 0 ∧ utoa (decide (ch = 'X')) base z.natAbs = ['0']) := by
    intro ⟨h1, h2⟩
    apply hnz
    refine ⟨h1, ?_⟩
    rw [h2] at hval
    have : digitsVal base ['0'] = 0 := by
      unfold digitsVal valFrom; simp; decide
    omega
  obtain ⟨l, zr, r, hp⟩ := fmtPads_some st (fmtSign st (decide (z < 0))).length (fmtPrefix st ch).length _ hd0
  obtain ⟨l', hl'⟩ := fmtSign_blank st (decide (z < 0)) l
  refine ⟨_, by unfold bigFormat; rw [hb]; simp only []; rw [hp], ?_⟩
  have hbody : ∀ c ∈ signTok st (decide (z < 0)) ++ (fmtPrefix st ch ++ (zeros zr ++ utoa (decide (ch = 'X')) base z.natAbs)),
      c ≠ ' ' := by
    intro c hc
    rcases List.mem_append.mp hc with h | h
    · have := signTok_isSign st (decide (z < 0))
      rcases this with e | e | e <;> rw [e] at h <;> simp at h <;> (subst h; decide)
    · rcases List.mem_append.mp h with h | h
      · exact fmtPrefix_not_blank st ch c h
      · rcases List.mem_append.mp h with h | h
        · exact digit_not_blank (zeros_lt base hb2 zr c h) (by omega)
        · exact digit_not_blank (hall c h) (by omega)
  have hre : blanks l ++ fmtSign st (decide (z < 0)) ++ fmtPrefix st ch ++ zeroPad zr ++
      utoa (decide (ch = 'X')) base z.natAbs ++ blanks r =
      blanks l' ++ ((signTok st (decide (z < 0)) ++ (fmtPrefix st ch ++ (zeros zr ++ utoa (decide (ch = 'X')) base z.natAbs)))
        ++ blanks r) := by
    rw [hl', zeroPad_eq]; simp only [List.append_assoc]
  rw [hre, fmtToken_padded l' r _ hbody,
    scan_fmt_body st ch hch base hb _ (signTok_isSign st _) zr z.natAbs, signTok_value]

/-! ## what the text denotes -/

/-- the rendering is `[left pad][sign][prefix][zero pad][digits][right pad]` where the digits are digits of the verb's
    base whose Horner value is the magnitude, and the field is at least as wide as the width asks -/
theorem bigFormat_denotes (st : FmtState) (ch : Char) (base : Nat) (hb : verbBase ch = some base) (z : Int)
    (hnz : ¬ (st.prec = some 0 ∧ z = 0)) :
    ∃ l zr r D, bigFormat st ch z =
        some (blanks l ++ fmtSign st (decide (z < 0)) ++ fmtPrefix st ch ++ zeroPad zr ++ D ++ blanks r) ∧
      (∀ c ∈ D, digitVal c < base) ∧ digitsVal base D = z.natAbs ∧ digitsVal base (zeroPad zr ++ D) = z.natAbs := by
  obtain ⟨hb2, hb16⟩ := verbBase_range ch base hb
  obtain ⟨hall, hne, hval⟩ := utoa_padded (decide (ch = 'X')) base hb2 hb16 0 z.natAbs
  simp only [zeros, List.replicate_zero, List.nil_append] at hall hne hval
  have hd0 : ¬ (st.prec = some 0 ∧ utoa (decide (ch = 'X')) base z.natAbs = ['0']) := by
    intro ⟨h1, h2⟩
    apply hnz
    refine ⟨h1, ?_⟩
    rw [h2] at hval
    have : digitsVal base ['0'] = 0 := by
      unfold digitsVal valFrom; simp; decide
    omega
  obtain ⟨l, zr, r, hp⟩ := fmtPads_some st (fmtSign st (decide (z < 0))).length (fmtPrefix st ch).length _ hd0
  refine ⟨l, zr, r, _, by unfold bigFormat; rw [hb]; simp only []; rw [hp], hall, hval, ?_⟩
  exact (utoa_padded (decide (ch = 'X')) base hb2 hb16 zr z.natAbs).2.2

/-! ## the verbs `v` and `s` (decimal, read back by `FromString` of the token) -/

theorem fmtPads_no_zero (st : FmtState) (a b : Nat) (digits : List Char) (hp : st.prec = none) (hz : st.zero = false)
    (l zr r : Nat) (h : fmtPads st a b digits = some (l, zr, r)) : zr = 0 := by
  unfold fmtPads at h
  rw [hp, hz] at h
  simp only [Bool.false_eq_true, false_and, if_false] at h
  cases hw : st.width with
  | none => rw [hw] at h; simp only [] at h; injection h with h; injection h with _ h; injection h with h _; exact h.symm
  | some w =>
    rw [hw] at h
    simp only [] at h
    split at h
    · split at h
      · injection h with h; injection h with _ h; injection h with h _; exact h.symm
      · injection h with h; injection h with _ h; injection h with h _; exact h.symm
    · injection h with h; injection h with _ h; injection h with h _; exact h.symm

/-- `%v` / `%s` (also with `+`, blank, `-`, `#` and a width) without zero padding: the token parses back -/
theorem bigFormat_reads_back_v (st : FmtState) (ch : Char) (hch : ch = 'v' ∨ ch = 's') (hp : st.prec = none)
    (hz : st.zero = false) (z : Int) :
    ∃ text, bigFormat st ch z = some text ∧ parseToBigInt (scanText (fmtToken text) ch) = some z := by
  have hb : verbBase ch = some 10 := by rcases hch with rfl | rfl <;> decide
  have hx : decide (ch = 'X') = false := by rcases hch with rfl | rfl <;> decide
  have hpf : fmtPrefix st ch = [] := by
    unfold fmtPrefix; rcases hch with rfl | rfl <;> cases st.sharp <;> simp
  have hvp : verbPrefix ch = none := by rcases hch with rfl | rfl <;> decide
  have hd0 : ¬ (st.prec = some 0 ∧ utoa (decide (ch = 'X')) 10 z.natAbs = ['0']) := by
    intro ⟨h1, _⟩; rw [hp] at h1; cases h1
  obtain ⟨l, zr, r, hpd⟩ := fmtPads_some st (fmtSign st (decide (z < 0))).length (fmtPrefix st ch).length _ hd0
  have hzr := fmtPads_no_zero st _ _ _ hp hz l zr r hpd
  subst hzr
  obtain ⟨l', hl'⟩ := fmtSign_blank st (decide (z < 0)) l
  refine ⟨_, by unfold bigFormat; rw [hb]; simp only []; rw [hpd], ?_⟩
  rw [hx, utoa_lower, ← natDigits_eq_baseDigits, hpf]
  have hdig : ∀ c ∈ natDigits z.natAbs, digitVal c < 10 := by
    rw [natDigits_eq_baseDigits]; exact baseDigits_lt 10 (by omega) (by omega) _
  have hbody : ∀ c ∈ signTok st (decide (z < 0)) ++ natDigits z.natAbs, c ≠ ' ' := by
    intro c hc
    rcases List.mem_append.mp hc with h | h
    · have := signTok_isSign st (decide (z < 0))
      rcases this with e | e | e <;> rw [e] at h <;> simp at h <;> (subst h; decide)
    · exact digit_not_blank (hdig c h) (by omega)
  have hre : blanks l ++ fmtSign st (decide (z < 0)) ++ [] ++ zeroPad 0 ++ natDigits z.natAbs ++ blanks r =
      blanks l' ++ ((signTok st (decide (z < 0)) ++ natDigits z.natAbs) ++ blanks r) := by
    rw [hl']; simp [zeroPad, List.append_assoc]
  rw [hre, fmtToken_padded l' r _ hbody]
  have hst : scanText (signTok st (decide (z < 0)) ++ natDigits z.natAbs) ch = signTok st (decide (z < 0)) ++ natDigits z.natAbs := by
    unfold scanText; rw [hvp]
  rw [hst]
  have hsg := signTok_isSign st (decide (z < 0))
  have hexp : hasExpChar (signTok st (decide (z < 0)) ++ natDigits z.natAbs) = false := by
    rw [hasExp_append, hasExp_sign _ hsg, hasExp_digits 10 (by omega) _ hdig]; rfl
  rw [parse_of_body _ _ z.natAbs hsg (plainBody_natDigits _) hexp, signTok_value]

/-! ## without flags, `%d` / `%v` / `%s` print what `String` returns -/

def plainState : FmtState := ⟨false, false, false, false, false, none, none⟩

theorem bigFormat_plain (ch : Char) (hch : ch = 'd' ∨ ch = 'v' ∨ ch = 's') (z : Int) :
    bigFormat plainState ch z = some (intDigits z) := by
  have hb : verbBase ch = some 10 := by rcases hch with rfl | rfl | rfl <;> decide
  have hx : decide (ch = 'X') = false := by rcases hch with rfl | rfl | rfl <;> decide
  have hpf : fmtPrefix plainState ch = [] := by rcases hch with rfl | rfl | rfl <;> decide
  unfold bigFormat
  rw [hb]
  simp only []
  rw [hx, hpf, utoa_lower, ← natDigits_eq_baseDigits]
  have hp : ∀ a b d, fmtPads plainState a b d = some (0, 0, 0) := by intro a b d; rfl
  rw [hp]
  simp only [blanks, zeroPad, List.replicate_zero, List.nil_append, List.append_nil]
  unfold fmtSign intDigits plainState
  by_cases h : z < 0
  · rw [decide_eq_true h, if_pos h]; rfl
  · rw [decide_eq_false h, if_neg h]; rfl

end Conv
