import Model.GeomExt
import Lemmas.GeomPoly
import Mathlib.Data.List.Rotate

/-! Further laws for the model of `Model/Geom.lean` + `Model/GeomExt.lean` (C18): the source form of `Contour.Bounds`
    (loop started from the type limits, `extent` with its guard) is the closed form the older lemmas speak about;
    tightness of `Bounds`; `Contour.Contains` of a rectangle's outline is `Point.In`; the crossing test does not depend on
    the orientation of an edge, on the vertex the contour starts from, or on a translation of contour and point;
    `Expand` / `Inset`. -/
set_option linter.unusedSectionVars false
namespace Geom

section Ring
variable {α : Type} [CommRing α] [LinearOrder α] [IsStrictOrderedRing α]

/-- the guard of `extent` never fires in exact arithmetic -/
theorem extent_eq (widen : α → α → α) (lo hi : α) : extent widen lo hi = 1 + hi - lo := by
  unfold extent
  have : hi < lo + (1 + hi - lo) := by linarith [zero_lt_one (α := α)]
  simp

theorem boundsStep_first (maxV minV : α) (p : Point α) (hx : minV ≤ p.x ∧ p.x ≤ maxV) (hy : minV ≤ p.y ∧ p.y ≤ maxV) :
    boundsStep (boundsStep (maxV, maxV, minV, minV) p) p = boundsStep (p.x, p.y, p.x, p.y) p ∧
    boundsStep (maxV, maxV, minV, minV) p = (p.x, p.y, p.x, p.y) := by
  have e : boundsStep (maxV, maxV, minV, minV) p = (p.x, p.y, p.x, p.y) := by
    obtain ⟨h1, h2⟩ := hx
    obtain ⟨h3, h4⟩ := hy
    simp only [boundsStep, Prod.mk.injEq]
    refine ⟨?_, ?_, ?_, ?_⟩
    · split
      · rfl
      · rename_i h; exact le_antisymm (not_lt.mp h) h2
    · split
      · rfl
      · rename_i h; exact le_antisymm (not_lt.mp h) h4
    · split
      · rfl
      · rename_i h; exact le_antisymm h1 (not_lt.mp h)
    · split
      · rfl
      · rename_i h; exact le_antisymm h3 (not_lt.mp h)
  exact ⟨by rw [e], e⟩

theorem boundsStep_self (p : Point α) : boundsStep (p.x, p.y, p.x, p.y) p = (p.x, p.y, p.x, p.y) := by
  simp [boundsStep]

/-- `Contour.Bounds` as the source computes it (start at the type limits, `extent`) is the closed form
    `Contour.bounds`, for every contour whose coordinates lie within the limits -/
theorem contour_boundsSrc_eq (maxV minV : α) (widen : α → α → α) (c : Contour α)
    (h : ∀ v ∈ c, (minV ≤ v.x ∧ v.x ≤ maxV) ∧ (minV ≤ v.y ∧ v.y ≤ maxV)) :
    Contour.boundsSrc maxV minV widen c = Contour.bounds c := by
  cases c with
  | nil => rfl
  | cons p t =>
    obtain ⟨hx, hy⟩ := h p (List.mem_cons_self ..)
    simp only [Contour.boundsSrc, Contour.bounds, List.foldl_cons, extent_eq]
    rw [(boundsStep_first maxV minV p hx hy).2, boundsStep_self]

theorem polygon_boundsSrc_eq (maxV minV : α) (widen : α → α → α) (p : Polygon α)
    (h : ∀ c ∈ p, ∀ v ∈ c, (minV ≤ v.x ∧ v.x ≤ maxV) ∧ (minV ≤ v.y ∧ v.y ≤ maxV)) :
    Polygon.boundsSrc maxV minV widen p = Polygon.bounds p := by
  cases p with
  | nil => rfl
  | cons c cs =>
    simp only [Polygon.boundsSrc, Polygon.bounds]
    rw [contour_boundsSrc_eq maxV minV widen c (h c (List.mem_cons_self ..))]
    have hcs : ∀ c' ∈ cs, Contour.boundsSrc maxV minV widen c' = Contour.bounds c' :=
      fun c' hc' => contour_boundsSrc_eq maxV minV widen c' (h c' (List.mem_cons_of_mem _ hc'))
    generalize Contour.bounds c = b
    induction cs generalizing b with
    | nil => rfl
    | cons d ds ih =>
      simp only [List.foldl_cons]
      rw [hcs d (List.mem_cons_self ..)]
      exact ih (fun c hc => h c (by
        rcases List.mem_cons.mp hc with e | e
        · exact e ▸ List.mem_cons_self ..
        · exact List.mem_cons_of_mem _ (List.mem_cons_of_mem _ e)))
        (fun c' hc' => hcs c' (List.mem_cons_of_mem _ hc')) _

/-- every component of the loop's final state is a component of the start state or is attained by a vertex -/
theorem boundsFold_attained (l : List (Point α)) (s : α × α × α × α) :
    let r := l.foldl boundsStep s
    (r.1 = s.1 ∨ ∃ v ∈ l, v.x = r.1) ∧ (r.2.1 = s.2.1 ∨ ∃ v ∈ l, v.y = r.2.1) ∧
    (r.2.2.1 = s.2.2.1 ∨ ∃ v ∈ l, v.x = r.2.2.1) ∧ (r.2.2.2 = s.2.2.2 ∨ ∃ v ∈ l, v.y = r.2.2.2) := by
  induction l generalizing s with
  | nil => simp
  | cons p t ih =>
    simp only [List.foldl_cons]
    obtain ⟨a1, a2, a3, a4⟩ := ih (boundsStep s p)
    have lift : ∀ {P : Point α → Prop}, (∃ v ∈ t, P v) → ∃ v ∈ p :: t, P v :=
      fun ⟨v, hv, hp⟩ => ⟨v, List.mem_cons_of_mem _ hv, hp⟩
    refine ⟨?_, ?_, ?_, ?_⟩
    · rcases a1 with a | a
      · rw [a]; simp only [boundsStep]; split
        · exact Or.inr ⟨p, List.mem_cons_self .., rfl⟩
        · exact Or.inl rfl
      · exact Or.inr (lift a)
    · rcases a2 with a | a
      · rw [a]; simp only [boundsStep]; split
        · exact Or.inr ⟨p, List.mem_cons_self .., rfl⟩
        · exact Or.inl rfl
      · exact Or.inr (lift a)
    · rcases a3 with a | a
      · rw [a]; simp only [boundsStep]; split
        · exact Or.inr ⟨p, List.mem_cons_self .., rfl⟩
        · exact Or.inl rfl
      · exact Or.inr (lift a)
    · rcases a4 with a | a
      · rw [a]; simp only [boundsStep]; split
        · exact Or.inr ⟨p, List.mem_cons_self .., rfl⟩
        · exact Or.inl rfl
      · exact Or.inr (lift a)

/-- **`Bounds` is tight**: its origin and its far edges minus one are attained by vertices, and no vertex lies
    beyond them — it is the rectangle `[min x, max x + 1) × [min y, max y + 1)` -/
theorem contour_bounds_tight (c : Contour α) (hne : c ≠ []) :
    let b := Contour.bounds c
    (∃ v ∈ c, v.x = b.x) ∧ (∃ v ∈ c, v.y = b.y) ∧ (∃ v ∈ c, v.x + 1 = b.right) ∧ (∃ v ∈ c, v.y + 1 = b.bottom) ∧
    ∀ v ∈ c, b.x ≤ v.x ∧ b.y ≤ v.y ∧ v.x + 1 ≤ b.right ∧ v.y + 1 ≤ b.bottom := by
  cases c with
  | nil => exact absurd rfl hne
  | cons p t =>
    simp only [Contour.bounds, Rect.right, Rect.bottom]
    obtain ⟨a1, a2, a3, a4⟩ := boundsFold_attained (p :: t) (p.x, p.y, p.x, p.y)
    obtain ⟨_, _, _, _, h⟩ := boundsFold (p :: t) (p.x, p.y, p.x, p.y)
    generalize List.foldl boundsStep (p.x, p.y, p.x, p.y) (p :: t) = r at *
    have hp : p ∈ p :: t := List.mem_cons_self ..
    refine ⟨?_, ?_, ?_, ?_, ?_⟩
    · rcases a1 with a | a
      · exact ⟨p, hp, a.symm⟩
      · exact a
    · rcases a2 with a | a
      · exact ⟨p, hp, a.symm⟩
      · exact a
    · rcases a3 with a | ⟨v, hv, a⟩
      · exact ⟨p, hp, by simp only at a; rw [a]; ring⟩
      · exact ⟨v, hv, by rw [a]; ring⟩
    · rcases a4 with a | ⟨v, hv, a⟩
      · exact ⟨p, hp, by simp only at a; rw [a]; ring⟩
      · exact ⟨v, hv, by rw [a]; ring⟩
    · intro v hv
      obtain ⟨h1, h2, h3, h4⟩ := h v hv
      refine ⟨h1, h2, ?_, ?_⟩ <;> linarith

end Ring

section Field
variable {α : Type} [Field α] [LinearOrder α] [IsStrictOrderedRing α]

/-- the outline of a non-empty rectangle, as a contour, contains exactly the points that are `In` the rectangle —
    edges and corners included: both are half-open the same way -/
theorem rect_outline_contains (r : Rect α) (hr : r.empty = false) (pt : Point α) :
    Contour.contains [r.topLeft, r.topRight, r.bottomRight, r.bottomLeft] pt = pt.inRect r := by
  obtain ⟨hw, hh⟩ := Rect.pos_of_not_empty ((Rect.empty_false_iff r).mp hr)
  have e : Contour.edges [r.topLeft, r.topRight, r.bottomRight, r.bottomLeft] =
      [(r.topLeft, r.topRight), (r.topRight, r.bottomRight), (r.bottomRight, r.bottomLeft), (r.bottomLeft, r.topLeft)] := by
    simp [Contour.edges]
  have hy : ¬ (r.y > r.y + r.h) := by intro h; linarith
  have hy' : r.y + r.h > r.y := by linarith
  have hne : ¬ (r.y + r.h = r.y) := by intro h; linarith
  have hne' : ¬ (r.y = r.y + r.h) := by intro h; linarith
  unfold Contour.contains Contour.crossings
  rw [e]
  simp only [List.countP_cons, List.countP_nil, edgeHit, Rect.topLeft, Rect.topRight, Rect.bottomRight,
    Rect.bottomLeft, Rect.right, Rect.bottom, Point.inRect, hr, gt_iff_lt, lt_self_iff_false, if_false,
    decide_true, Bool.not_true, Bool.and_false, Bool.false_and, max_self, Bool.false_eq_true, if_neg hy, if_pos hy',
    hne, hne', decide_false, Bool.not_false, Bool.and_true, Bool.true_or, ge_iff_le]
  have key : pt.x < r.x → pt.x < r.x + r.w := fun h => by linarith
  have h4' : r.x ≤ pt.x ↔ ¬ pt.x < r.x := not_lt.symm
  by_cases h1 : r.y ≤ pt.y <;> by_cases h2 : pt.y < r.y + r.h <;> by_cases h3 : pt.x < r.x + r.w <;>
    by_cases h4 : pt.x < r.x <;> first | (exfalso; exact h3 (key h4)) | simp [h1, h2, h3, h4, h4']

/-- the crossing test does not depend on the direction in which the edge is traversed -/
theorem edgeHit_symm (pt a b : Point α) : edgeHit pt a b = edgeHit pt b a := by
  unfold edgeHit
  have ex : decide (a.x = b.x) = decide (b.x = a.x) := decide_eq_decide.mpr eq_comm
  have ey : decide (b.y = a.y) = decide (a.y = b.y) := decide_eq_decide.mpr eq_comm
  rcases lt_trichotomy a.y b.y with h | h | h
  · have h1 : ¬ a.y > b.y := not_lt.mpr h.le
    have n1 : b.y - a.y ≠ 0 := by intro e; linarith
    have n2 : a.y - b.y ≠ 0 := by intro e; linarith
    have hf : (pt.y - a.y) * (b.x - a.x) / (b.y - a.y) + a.x = (pt.y - b.y) * (a.x - b.x) / (a.y - b.y) + b.x := by
      field_simp; ring
    simp only [if_neg h1, if_pos (show b.y > a.y from h), hf, max_comm a.x b.x, ex, ey]
  · simp [h]
  · have h1 : ¬ b.y > a.y := not_lt.mpr h.le
    have n1 : b.y - a.y ≠ 0 := by intro e; linarith
    have n2 : a.y - b.y ≠ 0 := by intro e; linarith
    have hf : (pt.y - a.y) * (b.x - a.x) / (b.y - a.y) + a.x = (pt.y - b.y) * (a.x - b.x) / (a.y - b.y) + b.x := by
      field_simp; ring
    simp only [if_neg h1, if_pos (show a.y > b.y from h), hf, max_comm a.x b.x, ex, ey]

/-- the crossing test is invariant under a common translation of the point and the edge -/
theorem edgeHit_translate (t pt a b : Point α) :
    edgeHit (pt.add t) (a.add t) (b.add t) = edgeHit pt a b := by
  unfold edgeHit Point.add
  have c1 : (a.y + t.y > b.y + t.y) ↔ (a.y > b.y) := by constructor <;> intro h <;> linarith
  have hf : (pt.y + t.y - (a.y + t.y)) * (b.x + t.x - (a.x + t.x)) / (b.y + t.y - (a.y + t.y)) + (a.x + t.x) =
      ((pt.y - a.y) * (b.x - a.x) / (b.y - a.y) + a.x) + t.x := by
    rw [show pt.y + t.y - (a.y + t.y) = pt.y - a.y by ring, show b.x + t.x - (a.x + t.x) = b.x - a.x by ring,
      show b.y + t.y - (a.y + t.y) = b.y - a.y by ring]
    ring
  by_cases h : a.y > b.y
  · simp only [if_pos h, hf, max_add_add_right, ge_iff_le, add_le_add_iff_right,
      add_lt_add_iff_right, add_left_inj]
  · simp only [if_neg h, hf, max_add_add_right, ge_iff_le, add_le_add_iff_right,
      add_lt_add_iff_right, add_left_inj]

theorem edges_map {β : Type} (f : Point β → Point β) (c : Contour β) :
    Contour.edges (c.map f) = (Contour.edges c).map (Prod.map f f) := by
  simp only [Contour.edges, ← List.map_drop, ← List.map_take, ← List.map_append, List.zip_map]

/-- `Contour.Contains` is invariant under a common translation of contour and point -/
theorem contains_translate (t : Point α) (c : Contour α) (pt : Point α) :
    Contour.contains (c.map (·.add t)) (pt.add t) = Contour.contains c pt := by
  unfold Contour.contains Contour.crossings
  rw [edges_map, List.countP_map]
  congr 2
  apply List.countP_congr
  intro e _
  simp only [Function.comp, Prod.map, edgeHit_translate]

theorem edges_eq_rotate {β : Type} (c : Contour β) : Contour.edges c = c.zip (c.rotate 1) := by
  unfold Contour.edges
  cases c with
  | nil => rfl
  | cons a t => rw [List.rotate_eq_drop_append_take (by simp)]

theorem edges_rotate {β : Type} (c : Contour β) (k : Nat) :
    Contour.edges (c.rotate k) = (Contour.edges c).rotate k := by
  rw [edges_eq_rotate, edges_eq_rotate, List.rotate_rotate, Nat.add_comm, ← List.rotate_rotate]
  simp only [List.zip]
  rw [List.zipWith_rotate_distrib _ _ _ _ (by simp)]

/-- `Contour.Contains` does not depend on the vertex the contour starts from -/
theorem contains_rotate (c : Contour α) (k : Nat) (pt : Point α) :
    Contour.contains (c.rotate k) pt = Contour.contains c pt := by
  unfold Contour.contains Contour.crossings
  rw [edges_rotate, (List.rotate_perm _ k).countP_eq]

theorem map_swap_zip {β γ : Type} (l : List β) (l' : List γ) : (l.zip l').map Prod.swap = l'.zip l := by
  induction l generalizing l' with
  | nil => cases l' <;> simp
  | cons a t ih =>
    cases l' with
    | nil => simp
    | cons b t' => simp [ih]

theorem rotate_pred_succ {β : Type} (c : List β) : (c.rotate (c.length - 1 % c.length)).rotate 1 = c := by
  rw [List.rotate_rotate]
  rcases Nat.lt_or_ge c.length 2 with h | h
  · rcases Nat.eq_zero_or_pos c.length with h0 | h0
    · rw [List.length_eq_zero_iff.mp h0]; rfl
    · have h1 : c.length = 1 := by omega
      rw [← List.rotate_mod, h1]; simp
  · rw [Nat.mod_eq_of_lt h, show c.length - 1 + 1 = c.length by omega, List.rotate_length]

/-- `Contour.Contains` does not depend on the orientation (clockwise / counter-clockwise) of the contour -/
theorem contains_reverse (c : Contour α) (pt : Point α) :
    Contour.contains c.reverse pt = Contour.contains c pt := by
  unfold Contour.contains Contour.crossings
  congr 2
  rw [edges_eq_rotate, List.rotate_reverse]
  simp only [List.zip]
  rw [← List.reverse_zipWith (by simp), List.countP_reverse]
  have hd := rotate_pred_succ c
  generalize hdd : c.rotate (c.length - 1 % c.length) = d at hd
  have e1 : List.zipWith Prod.mk c d = (Contour.edges d).map Prod.swap := by
    rw [edges_eq_rotate, hd, map_swap_zip]; rfl
  rw [e1, List.countP_map]
  have e2 : List.countP ((fun e => edgeHit pt e.1 e.2) ∘ Prod.swap) (Contour.edges d) =
      List.countP (fun e => edgeHit pt e.1 e.2) (Contour.edges d) := by
    apply List.countP_congr
    intro e _
    simp only [Function.comp, Prod.swap, edgeHit_symm pt e.2 e.1]
  rw [e2, ← hdd, edges_rotate, (List.rotate_perm _ _).countP_eq]

end Field
/-- the loop of the guarded branch of `extent` returns the FIRST of the candidates `size, next size, next (next size), …`
    (at most `n` steps) that puts `hi` below `lo + candidate`, and the last candidate if none does -/
theorem widenLoop_spec {α : Type} [Add α] [Sub α] [LT α] [DecidableLT α] (next : α → α) (lo hi : α) (n : Nat) (size : α) :
    ∃ k, k ≤ n ∧ widenLoop next lo hi n size = Nat.iterate next k size ∧
      (∀ j, j < k → ¬ hi < lo + Nat.iterate next j size) ∧ (k < n → hi < lo + Nat.iterate next k size) := by
  induction n generalizing size with
  | zero => exact ⟨0, Nat.le_refl _, rfl, fun j hj => absurd hj (Nat.not_lt_zero _), fun h => absurd h (Nat.lt_irrefl _)⟩
  | succ n ih =>
    by_cases h : hi < lo + size
    · refine ⟨0, Nat.zero_le _, ?_, fun j hj => absurd hj (Nat.not_lt_zero _), fun _ => h⟩
      simp [widenLoop, h]
    · obtain ⟨k, hk, e, hfirst, hlast⟩ := ih (next size)
      refine ⟨k + 1, Nat.succ_le_succ hk, ?_, ?_, ?_⟩
      · simp only [widenLoop, h, decide_false, Bool.not_false, if_true]; exact e
      · intro j hj
        cases j with
        | zero => exact h
        | succ j => exact hfirst j (Nat.lt_of_succ_lt_succ hj)
      · intro hlt; exact hlast (Nat.lt_of_succ_lt_succ hlt)


/-! ### Unfoldings (NOT counted as property theorems)

These four statements only unfold the model's definitions (`Polygon.transform` IS a nested `List.map`,
`Polygon.containsEvenOdd` IS a `countP … % 2`); they say nothing that could fail about the Go code, whose `Transform` is
`Clone()` followed by an in-place loop and whose `ContainsEvenOdd` is a counting loop.  The link of those loops to the model
is the correspondence stream (`poly ptransform / pevenodd / pcontains / pclone` lines), not a theorem.  They are kept as
helper lemmas for `C18.polygon_contains_crossing`, `C18.contains_translation_invariant`. -/
section Unfoldings
variable {α : Type} [Field α] [LinearOrder α] [IsStrictOrderedRing α]

/-- how the polygon-level functions are composed from `Contour.Contains` (definitional: `ContainsEvenOdd` is the parity
    of the number of containing contours, `Contains` their disjunction); the crossing-number content is
    `contour_contains_crossing` and `evenodd_crossing` -/
theorem evenodd_spec (p : Polygon α) (pt : Point α) :
    (Polygon.containsEvenOdd p pt = true ↔ (p.countP (fun c => Contour.contains c pt)) % 2 = 1) ∧
    (Polygon.contains p pt = true ↔ ∃ c ∈ p, Contour.contains c pt = true) := by
  simp [Polygon.containsEvenOdd, Polygon.contains]

/-- "Transform maps every vertex by the matrix": same shape, vertex `i` of contour `j` is the image of the original
    vertex.  "Without touching the original" is vacuous in a pure model (the operand is a value) and is NOT a theorem:
    it is checked on the Go side only — the harness compares the operand before and after Transform (also after
    overwriting the result), and before and after Bounds / Contains / ContainsEvenOdd; `Rect` and `Matrix` operands are
    Go values passed by copy, so Union/Intersect/Multiply cannot touch them by construction of the language -/
theorem transform_maps_vertices (p : Polygon α) (m : Matrix α) (j i : Nat) :
    (Polygon.transform p m).length = p.length ∧
    ((Polygon.transform p m)[j]?.bind (·[i]?)) = (p[j]?.bind (·[i]?)).map m.transformPoint := by
  simp only [Polygon.transform, List.length_map, List.getElem?_map, true_and]
  cases p[j]? <;> simp

/-- `Transform` composes like the matrices: transforming by the identity changes nothing, transforming by `m` and then
    by `n` is transforming by `m.Multiply(n)` -/
theorem transform_compose (p : Polygon α) (m n : Matrix α) :
    Polygon.transform p Matrix.identity = p ∧
    Polygon.transform (Polygon.transform p m) n = Polygon.transform p (m.multiply n) := by
  constructor
  · simp only [Polygon.transform]
    have : (fun v : Point α => (Matrix.identity : Matrix α).transformPoint v) = id := by
      funext v; simp [Matrix.identity, Matrix.transformPoint]
    simp [this]
  · simp only [Polygon.transform, List.map_map]
    congr 1; funext c
    simp only [Function.comp, List.map_map]
    congr 1; funext v
    simp only [Matrix.multiply, Matrix.transformPoint, Function.comp, Point.mk.injEq]; constructor <;> ring

/-- a polygon that is `Empty` (no vertex at all) contains nothing, has the zero bounds and is its own transform -/
theorem empty_polygon (p : Polygon α) (m : Matrix α) (h : Polygon.empty p = true) :
    Polygon.bounds p = Rect.zero ∧ Polygon.transform p m = p ∧ (∀ c ∈ p, c = []) := by
  have hall : ∀ c ∈ p, c = [] := by
    cases p with
    | nil => simp
    | cons c cs =>
      simp only [Polygon.empty, List.all_eq_true, List.isEmpty_iff] at h
      exact h
  refine ⟨?_, ?_, hall⟩
  · cases p with
    | nil => rfl
    | cons c cs =>
      simp only [Polygon.bounds]
      rw [hall c (List.mem_cons_self ..)]
      have hcs : ∀ c' ∈ cs, c' = [] := fun c' hc' => hall c' (List.mem_cons_of_mem _ hc')
      clear hall h
      induction cs with
      | nil => rfl
      | cons d ds ih =>
        simp only [List.foldl_cons]
        rw [hcs d (List.mem_cons_self ..)]
        have : (Contour.bounds ([] : Contour α)).union (Contour.bounds []) = Contour.bounds [] := by
          simp [Contour.bounds, Rect.union, Rect.zero, Rect.empty]
        rw [this]
        exact ih (fun c' hc' => hcs c' (List.mem_cons_of_mem _ hc'))
  · simp only [Polygon.transform]
    conv => rhs; rw [← List.map_id p]
    apply List.map_congr_left
    intro c hc
    rw [hall c hc]; rfl


end Unfoldings
end Geom
