import Model.Conv128
/-! C02 helper lemmas, part 1: sign bit, injectivity of the value maps, narrowing, `Neg` / `AbsUint128` (core Lean only). -/

namespace Conv
open GoSem

theorem and_signBit (x : BitVec 64) : (x &&& signBit64 == 0#64) = decide (x.toNat < 2^63) := by
  have hs : signBit64 = BitVec.twoPow 64 63 := by decide
  rw [hs, BitVec.and_twoPow]
  have hm := BitVec.msb_eq_decide x
  rw [BitVec.msb_eq_getLsbD_last] at hm
  simp only [show 64 - 1 = 63 from rfl] at hm
  rw [hm]
  by_cases hlt : x.toNat < 2^63
  · have : ¬ (2^63 ≤ x.toNat) := by omega
    simp [this, hlt]
  · have : (2^63 ≤ x.toNat) := by omega
    simp [this, hlt]

theorem and_signBit_ne (x : BitVec 64) : (x &&& signBit64 != 0#64) = decide (2^63 ≤ x.toNat) := by
  have := and_signBit x
  rw [bne, this]
  by_cases h : x.toNat < 2^63 <;> simp [h] <;> omega

theorem U128.toNat_lt (u : U128) : u.toNat < 2^128 := by
  have := u.hi.isLt; have := u.lo.isLt; unfold U128.toNat; omega

theorem I128.toInt_lo (i : I128) : -(2^127 : Int) ≤ i.toInt := by
  have := i.hi.isLt; have := i.lo.isLt; unfold I128.toInt; split <;> omega
theorem I128.toInt_hi (i : I128) : i.toInt < 2^127 := by
  have := i.hi.isLt; have := i.lo.isLt; unfold I128.toInt; split <;> omega

theorem bv_eq_zero_iff (x : BitVec 64) : (x == 0#64) = decide (x.toNat = 0) := by
  by_cases h : x = 0#64
  · subst h; simp
  · have : x.toNat ≠ 0 := fun e => h (BitVec.eq_of_toNat_eq (by simpa using e))
    simp [h, this]

theorem U128.isInt128_iff (u : U128) : u.isInt128 = true ↔ u.asInt128.toInt = (u.toNat : Int) := by
  have := u.hi.isLt; have := u.lo.isLt
  unfold U128.isInt128 U128.asInt128 I128.toInt U128.toNat
  rw [and_signBit]; simp only [decide_eq_true_eq]
  constructor
  · intro h; rw [if_pos h]
  · intro h; split at h <;> omega

theorem U128.isUint64_iff (u : U128) : u.isUint64 = true ↔ u.asUint64.toNat = u.toNat := by
  have := u.hi.isLt; have := u.lo.isLt
  unfold U128.isUint64 U128.asUint64 U128.toNat
  rw [bv_eq_zero_iff]; simp only [decide_eq_true_eq]
  omega

theorem I128.isUint128_iff (i : I128) : i.isUint128 = true ↔ (i.asUint128.toNat : Int) = i.toInt := by
  have := i.hi.isLt; have := i.lo.isLt
  unfold I128.isUint128 I128.asUint128 I128.toInt U128.toNat
  rw [and_signBit]; simp only [decide_eq_true_eq]
  constructor
  · intro h; rw [if_pos h]
  · intro h; split at h <;> omega

theorem I128.isUint64_iff (i : I128) : i.isUint64 = true ↔ (i.asUint64.toNat : Int) = i.toInt := by
  have := i.hi.isLt; have := i.lo.isLt
  unfold I128.isUint64 I128.asUint64 I128.toInt
  rw [bv_eq_zero_iff]; simp only [decide_eq_true_eq]
  constructor
  · intro h; rw [h]; simp
  · intro h; split at h <;> omega

theorem neg_not_sub_one (x : BitVec 64) : -(~~~(x - 1#64)) = x := by
  apply BitVec.eq_of_toNat_eq
  have := x.isLt
  simp only [BitVec.toNat_neg, BitVec.toNat_not, BitVec.toNat_sub, BitVec.toNat_ofNat]
  omega

theorem I128.asInt64_eq_lo (i : I128) : i.asInt64 = i.lo := by
  unfold I128.asInt64; split
  · exact neg_not_sub_one _
  · rfl

theorem bv_eq_max_iff (x : BitVec 64) : (x == maxU64) = decide (x.toNat = 2^64 - 1) := by
  by_cases h : x = maxU64
  · rw [h]; simp [maxU64]
  · have : x.toNat ≠ 2^64 - 1 := fun e => h (BitVec.eq_of_toNat_eq (by simpa [maxU64] using e))
    simp [h, this]

theorem I128.isInt64_iff (i : I128) : i.isInt64 = true ↔ i.asInt64.toInt = i.toInt := by
  have := i.hi.isLt; have := i.lo.isLt
  rw [I128.asInt64_eq_lo]
  unfold I128.isInt64 I128.toInt
  rw [and_signBit_ne, BitVec.toInt_eq_toNat_cond, bv_eq_max_iff, bv_eq_zero_iff]
  have e2 : decide (i.lo ≥ signBit64) = decide (2^63 ≤ i.lo.toNat) := by
    simp [BitVec.le_def, signBit64, GE.ge]
  have e3 : decide (i.lo ≤ maxI64) = decide (i.lo.toNat ≤ 2^63 - 1) := by
    simp [BitVec.le_def, maxI64]
  rw [e2, e3]
  by_cases hs : 2^63 ≤ i.hi.toNat <;> by_cases hl : 2 * i.lo.toNat < 2^64 <;>
    simp only [hs, hl, decide_true, decide_false, if_true, if_false, Bool.false_eq_true, Bool.and_eq_true, decide_eq_true_eq] <;>
    (try rw [if_neg (by omega)]) <;> (try rw [if_pos (by omega)]) <;> omega
/-! ## injectivity of the value maps -/

theorem U128.eq_of_toNat_eq {a b : U128} (h : a.toNat = b.toNat) : a = b := by
  have := a.hi.isLt; have := a.lo.isLt; have := b.hi.isLt; have := b.lo.isLt
  unfold U128.toNat at h
  cases a with | mk ah al => cases b with | mk bh bl =>
  simp only at *
  have h1 : ah.toNat = bh.toNat := by omega
  have h2 : al.toNat = bl.toNat := by omega
  rw [BitVec.eq_of_toNat_eq h1, BitVec.eq_of_toNat_eq h2]

theorem I128.eq_of_toInt_eq {a b : I128} (h : a.toInt = b.toInt) : a = b := by
  have := a.hi.isLt; have := a.lo.isLt; have := b.hi.isLt; have := b.lo.isLt
  unfold I128.toInt at h
  cases a with | mk ah al => cases b with | mk bh bl =>
  simp only at *
  have h1 : ah.toNat = bh.toNat := by split at h <;> split at h <;> omega
  have h2 : al.toNat = bl.toNat := by split at h <;> split at h <;> omega
  rw [BitVec.eq_of_toNat_eq h1, BitVec.eq_of_toNat_eq h2]

/-! ## Neg / AbsUint128 -/

theorem or_eq_zero (x y : BitVec 64) : ((x ||| y) == 0#64) = decide (x.toNat = 0 ∧ y.toNat = 0) := by
  rw [bv_eq_zero_iff, BitVec.toNat_or]
  by_cases h : x.toNat = 0 ∧ y.toNat = 0
  · simp [h]
  · have : ¬ (x.toNat ||| y.toNat = 0) := fun e => h (Nat.or_eq_zero_iff.mp e)
    simp [h, this]

theorem I128.min_toInt : I128.min.toInt = -(2^127) := by decide

theorem I128.beq_min (i : I128) : (i == I128.min) = decide (i.toInt = -(2^127)) := by
  by_cases h : i = I128.min
  · subst h; simp [I128.min_toInt]
  · have : i.toInt ≠ -(2^127) := fun e => h (I128.eq_of_toInt_eq (by rw [e, I128.min_toInt]))
    rw [decide_eq_false this]; simp [h]

theorem not_sub_one (x : BitVec 64) : (~~~(x - 1#64)).toNat = (18446744073709551616 - x.toNat) % 18446744073709551616 := by
  have := x.isLt
  simp only [BitVec.toNat_not, BitVec.toNat_sub, BitVec.toNat_ofNat]; omega
theorem not_add_one (x : BitVec 64) : (~~~x + 1#64).toNat = (18446744073709551616 - x.toNat) % 18446744073709551616 := by
  have := x.isLt
  simp only [BitVec.toNat_add, BitVec.toNat_not, BitVec.toNat_ofNat]; omega
theorem not_toNat (x : BitVec 64) : (~~~x).toNat = 18446744073709551615 - x.toNat := by
  simp only [BitVec.toNat_not]

/-- the two words of the two's-complement negation, as computed by both non-trivial branches of `Neg`/`AbsUint128` -/
def negHi (H L : Nat) : Nat :=
  if (18446744073709551616 - L) % 18446744073709551616 = 0 then (18446744073709551616 - H) % 18446744073709551616
  else 18446744073709551615 - H
def negLo (L : Nat) : Nat := (18446744073709551616 - L) % 18446744073709551616

theorem negWords (H L : Nat) (hH : H < 2^64) (hL : L < 2^64) (hnz : ¬ (H = 0 ∧ L = 0)) :
    negHi H L * 2^64 + negLo L = 2^128 - (H * 2^64 + L) ∧ negHi H L < 2^64 ∧ negLo L < 2^64 := by
  unfold negHi negLo
  split <;> omega

theorem branchA (hi lo : BitVec 64) :
    (if (~~~(lo - 1#64) == 0#64) = true then (⟨~~~hi + 1#64, ~~~(lo - 1#64)⟩ : I128) else ⟨~~~hi, ~~~(lo - 1#64)⟩)
      = ⟨BitVec.ofNat 64 (negHi hi.toNat lo.toNat), BitVec.ofNat 64 (negLo lo.toNat)⟩ := by
  have e1 := not_sub_one lo
  have e2 := not_add_one hi
  have e3 := not_toNat hi
  have hh := hi.isLt; have hl := lo.isLt
  rw [bv_eq_zero_iff, e1]
  unfold negHi negLo
  by_cases hl0 : (18446744073709551616 - lo.toNat) % 18446744073709551616 = 0
  · rw [decide_eq_true hl0, if_pos rfl, if_pos hl0]
    congr 1 <;> apply BitVec.eq_of_toNat_eq <;> simp only [BitVec.toNat_ofNat] <;> omega
  · rw [decide_eq_false hl0, if_neg (by simp), if_neg hl0]
    congr 1 <;> apply BitVec.eq_of_toNat_eq <;> simp only [BitVec.toNat_ofNat] <;> omega

theorem branchB (hi lo : BitVec 64) :
    (if (~~~lo + 1#64 == 0#64) = true then (⟨~~~hi + 1#64, ~~~lo + 1#64⟩ : I128) else ⟨~~~hi, ~~~lo + 1#64⟩)
      = ⟨BitVec.ofNat 64 (negHi hi.toNat lo.toNat), BitVec.ofNat 64 (negLo lo.toNat)⟩ := by
  have e1 := not_add_one lo
  have e2 := not_add_one hi
  have e3 := not_toNat hi
  have hh := hi.isLt; have hl := lo.isLt
  rw [bv_eq_zero_iff, e1]
  unfold negHi negLo
  by_cases hl0 : (18446744073709551616 - lo.toNat) % 18446744073709551616 = 0
  · rw [decide_eq_true hl0, if_pos rfl, if_pos hl0]
    congr 1 <;> apply BitVec.eq_of_toNat_eq <;> simp only [BitVec.toNat_ofNat] <;> omega
  · rw [decide_eq_false hl0, if_neg (by simp), if_neg hl0]
    congr 1 <;> apply BitVec.eq_of_toNat_eq <;> simp only [BitVec.toNat_ofNat] <;> omega

/-- `Neg` negates every value except `MinInt128` (which it returns unchanged) -/
theorem I128.neg_toInt (i : I128) (h : i.toInt ≠ -(2^127)) : i.neg.toInt = - i.toInt := by
  have hh := i.hi.isLt; have hl := i.lo.isLt
  unfold I128.neg
  rw [or_eq_zero, I128.beq_min, and_signBit_ne]
  have hm : decide (i.toInt = -(2^127)) = false := decide_eq_false h
  rw [hm, Bool.or_false]
  by_cases hz : i.hi.toNat = 0 ∧ i.lo.toNat = 0
  · rw [decide_eq_true hz, if_pos rfl]
    unfold I128.toInt; rw [hz.1, hz.2]; simp
  · rw [decide_eq_false hz, if_neg (by simp)]
    obtain ⟨key, k1, k2⟩ := negWords i.hi.toNat i.lo.toNat hh hl hz
    have : (if decide (2 ^ 63 ≤ i.hi.toNat) = true then
              (if (~~~(i.lo - 1#64) == 0#64) = true then (⟨~~~i.hi + 1#64, ~~~(i.lo - 1#64)⟩ : I128) else ⟨~~~i.hi, ~~~(i.lo - 1#64)⟩)
            else (if (~~~i.lo + 1#64 == 0#64) = true then (⟨~~~i.hi + 1#64, ~~~i.lo + 1#64⟩ : I128) else ⟨~~~i.hi, ~~~i.lo + 1#64⟩))
          = ⟨BitVec.ofNat 64 (negHi i.hi.toNat i.lo.toNat), BitVec.ofNat 64 (negLo i.lo.toNat)⟩ := by
      rw [branchA, branchB]; split <;> rfl
    rw [this]
    unfold I128.toInt at h ⊢
    simp only [BitVec.toNat_ofNat, Nat.mod_eq_of_lt k1, Nat.mod_eq_of_lt k2]
    generalize negHi i.hi.toNat i.lo.toNat = A at *
    generalize negLo i.lo.toNat = B at *
    split <;> split at h <;> omega

/-- `AbsUint128` is the absolute value (2^127 for `MinInt128`) -/
theorem I128.absUint128_toNat (i : I128) : (i.absUint128.toNat : Int) = if i.toInt < 0 then - i.toInt else i.toInt := by
  have hh := i.hi.isLt; have hl := i.lo.isLt
  unfold I128.absUint128
  rw [I128.beq_min, and_signBit_ne]
  by_cases hm : i.toInt = -(2^127)
  · rw [decide_eq_true hm, if_pos rfl, if_pos (by omega)]
    unfold U128.toNat
    unfold I128.toInt at hm ⊢
    split at hm <;> simp only [] <;> omega
  · rw [decide_eq_false hm, if_neg (by simp)]
    by_cases hs : 2^63 ≤ i.hi.toNat
    · rw [decide_eq_true hs, if_pos rfl]
      have hz : ¬ (i.hi.toNat = 0 ∧ i.lo.toNat = 0) := by omega
      obtain ⟨key, k1, k2⟩ := negWords i.hi.toNat i.lo.toNat hh hl hz
      have hb := branchA i.hi i.lo
      have : (if (~~~(i.lo - 1#64) == 0#64) = true then (⟨~~~i.hi + 1#64, ~~~(i.lo - 1#64)⟩ : U128) else ⟨~~~i.hi, ~~~(i.lo - 1#64)⟩)
          = ⟨BitVec.ofNat 64 (negHi i.hi.toNat i.lo.toNat), BitVec.ofNat 64 (negLo i.lo.toNat)⟩ := by
        split at hb
        · rename_i c; rw [if_pos c]; injection hb with a b; rw [a, b]
        · rename_i c; rw [if_neg c]; injection hb with a b; rw [a, b]
      rw [this]
      have hv : i.toInt = ((i.hi.toNat * 2^64 + i.lo.toNat : Nat) : Int) - 2^128 := by
        unfold I128.toInt; rw [if_neg (by omega)]
      rw [hv] at hm ⊢
      unfold U128.toNat
      simp only [BitVec.toNat_ofNat, Nat.mod_eq_of_lt k1, Nat.mod_eq_of_lt k2]
      generalize negHi i.hi.toNat i.lo.toNat = A at *
      generalize negLo i.lo.toNat = B at *
      split <;> omega
    · rw [decide_eq_false hs, if_neg (by simp)]
      have hv : i.toInt = ((i.hi.toNat * 2^64 + i.lo.toNat : Nat) : Int) := by
        unfold I128.toInt; rw [if_pos (by omega)]
      rw [hv]
      unfold U128.toNat
      simp only []
      split <;> omega

end Conv
