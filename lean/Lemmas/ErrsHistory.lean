import Lemmas.Errs
import Lemmas.ErrsFrame
/-! C11: what a LATER call can change of an EARLIER value — over histories of `New`, `NewWithCause`, `&Error{}`, `Wrap`,
    `WrapTyped`, `Append`, elements of `WrappedErrors()` and `CloneWithPrefixMessage`.  Core-only. -/
namespace Errs

/-! ### any history writes nothing but links -/

/-- `h'` is reached from `h` by some sequence of API calls (any arguments, any aliasing, clones included) -/
inductive Evolves : Heap → Heap → Prop
  | refl (h : Heap) : Evolves h h
  | new (h h' : Heap) (m : String) : Evolves h h' → Evolves h (new h' m).1
  | newWithCause (h h' : Heap) (m : String) (c : Val) : Evolves h h' → Evolves h (newWithCause h' m c).1
  | newEmpty (h h' : Heap) : Evolves h h' → Evolves h (newEmpty h').1
  | wrap (h h' : Heap) (v : Val) : Evolves h h' → Evolves h (wrap h' v).1
  | wrapTyped (h h' : Heap) (v : Val) : Evolves h h' → Evolves h (wrapTyped h' v).1
  | append (h h' : Heap) (acc : Val) (args : List Val) : Evolves h h' → Evolves h (append h' acc args).1
  | elem (h h' : Heap) (v : Val) (i : Nat) : Evolves h h' → Evolves h (elem h' v i).1
  | clone (h h' : Heap) (v : Val) (pre : String) : Evolves h h' → Evolves h (clone h' v pre).1

theorem onlyLinks_wrap (h : Heap) (v : Val) : OnlyLinks h (wrap h v).1 := by
  unfold wrap
  split
  · exact OnlyLinks.refl h
  · split
    · exact OnlyLinks.refl h
    · exact onlyLinks_push h _

theorem onlyLinks_wrapTyped (h : Heap) (v : Val) : OnlyLinks h (wrapTyped h v).1 := by
  cases v with
  | ref id => simp only [wrapTyped, isNil]; exact OnlyLinks.refl h
  | nilIface => exact OnlyLinks.refl h
  | typedNil => exact OnlyLinks.refl h
  | foreignNil => exact OnlyLinks.refl h
  | plain u m => exact onlyLinks_push h _
  | fwrap u m i => exact onlyLinks_push h _

theorem onlyLinks_clone (h : Heap) (v : Val) (pre : String) : OnlyLinks h (clone h v pre).1 := by
  cases v with
  | ref id =>
    cases hn : h[id]? with
    | none => simp only [clone, hn]; exact OnlyLinks.refl h
    | some n => simp only [clone, hn]; exact onlyLinks_push h _
  | nilIface => exact OnlyLinks.refl h
  | typedNil => exact OnlyLinks.refl h
  | foreignNil => exact OnlyLinks.refl h
  | plain u m => exact OnlyLinks.refl h
  | fwrap u m i => exact OnlyLinks.refl h

theorem onlyLinks_elem (h : Heap) (v : Val) (k : Nat) : OnlyLinks h (elem h v k).1 := by
  cases v with
  | ref id =>
    cases hn : (wrappedErrors h id)[k]? with
    | none => simp only [elem, hn]; exact OnlyLinks.refl h
    | some n => simp only [elem, hn]; exact onlyLinks_push h _
  | nilIface => exact OnlyLinks.refl h
  | typedNil => exact OnlyLinks.refl h
  | foreignNil => exact OnlyLinks.refl h
  | plain u m => exact OnlyLinks.refl h
  | fwrap u m i => exact OnlyLinks.refl h

theorem evolves_onlyLinks {h h' : Heap} (e : Evolves h h') : OnlyLinks h h' := by
  induction e with
  | refl => exact OnlyLinks.refl _
  | new h' m _ ih => exact ih.trans (onlyLinks_push _ _)
  | newWithCause h' m c _ ih => exact ih.trans (onlyLinks_push _ _)
  | newEmpty h' _ ih => exact ih.trans (onlyLinks_push _ _)
  | wrap h' v _ ih => exact ih.trans (onlyLinks_wrap _ _)
  | wrapTyped h' v _ ih => exact ih.trans (onlyLinks_wrapTyped _ _)
  | append h' acc args _ ih => exact ih.trans (onlyLinks_appendFull _ _ _)
  | elem h' v i _ ih => exact ih.trans (onlyLinks_elem _ _ _)
  | clone h' v pre _ ih => exact ih.trans (onlyLinks_clone _ _ _)

/-! ### one `Append` changes only what ends in the accumulator's last cell — with any aliasing -/

/-- `Append` onto a non-empty `*Error`, ANY aliasing among accumulator and arguments: an existing error whose chain does
    not end in the accumulator's last cell has the same chain content afterwards -/
theorem append_others_unchanged (h : Heap) (id : Nat) (args : List Val) (hwf : WF h) (hid : id < h.size)
    (hne : isEmpty h id = false) (hids : ∀ id', Val.ref id' ∈ args → id' < h.size) (a : Nat) (ha : a < h.size)
    (hta : tailOf h (fuelOf h) a ≠ tailOf h (fuelOf h) id) :
    items (append h (.ref id) args).1 a = items h a := by
  have hun : append h (.ref id) args = appendLoop h (some id) (some (tailOf h (fuelOf h) id)) [] args := by
    simp [append, hne]
  rw [hun]
  obtain ⟨c, hm⟩ := hwf.chain_spec hid
  have he0 := c.tail_next
  have P0 : Prog h (tailOf h (fuelOf h) id) h (tailOf h (fuelOf h) id) [] [] := by
    refine ⟨hwf, Nat.le_refl _, ?_, fun _ _ => rfl, by simp, rfl, Or.inl ⟨rfl, rfl⟩, (hm _ c.tail_mem).2,
      c.tail_nonempty hwf hne⟩
    intro a la ea _ ca
    exact ⟨fun hea => by rw [List.append_nil, ← hea]; exact ca, fun _ => ca⟩
  obtain ⟨_, Ls', ec', P⟩ := loop_alias h _ id hwf he0 args h _ [] [] [] P0 hids
  obtain ⟨ca, hma⟩ := hwf.chain_spec ha
  have c' := (P.chains a _ _ ha ca).2 hta
  have hgrow := P.grow
  rw [items_eq_of_chain P.wf c' (by omega)]
  unfold items itemsAt
  apply filterMap_congr'
  intro i hi
  exact P.vis i (hma i hi).2

/-- `Append` onto anything that is not a `*Error` (nil, typed nil, a foreign error): EVERY existing error is unchanged -/
theorem append_fresh_unchanged (h : Heap) (acc : Val) (args : List Val) (hwf : WF h) (hacc : ∀ id, acc ≠ .ref id)
    (hids : ∀ id', Val.ref id' ∈ args → id' < h.size) (a : Nat) (ha : a < h.size) :
    items (append h acc args).1 a = items h a := by
  have hids' : ∀ id, Val.ref id ∈ acc :: args → id < h.size := by
    intro id hmem
    rcases List.mem_cons.mp hmem with he | hm
    · exact absurd he.symm (hacc id)
    · exact hids id hm
  have hna : NoAlias h acc args := fun id he => absurd he (hacc id)
  exact (append_frame_any h acc args hwf hids' hna a ha (fun id he => absurd he (hacc id))).2.1

/-- two existing errors whose chains end in different cells: `id` (non-empty, about to be an accumulator) and `a` -/
structure Sep (h : Heap) (id a : Nat) : Prop where
  wf : WF h
  idLt : id < h.size
  aLt : a < h.size
  ne : isEmpty h id = false
  tails : tailOf h (fuelOf h) a ≠ tailOf h (fuelOf h) id

theorem isEmpty_false_of_vis (h h' : Heap) (i : Nat) (hv : (h'[i]?).bind visible = (h[i]?).bind visible)
    (hne : isEmpty h i = false) : isEmpty h' i = false := by
  cases hx : h[i]? with
  | none => simp [isEmpty, hx] at hne
  | some n =>
    have hn : nodeEmpty n = false := by simpa [isEmpty, hx] using hne
    rw [hx] at hv
    cases hy : h'[i]? with
    | none => rw [hy] at hv; simp [visible, hn] at hv
    | some m =>
      rw [hy] at hv
      by_cases hm : nodeEmpty m = true
      · simp [visible, hn, hm] at hv
      · simpa [isEmpty, hy] using hm

/-- one `Append` onto `id` (any arguments that exist, any aliasing): `a` keeps its content, the result is `id` again, and
    the two still end in different cells — so the step can be repeated -/
theorem sep_append_step (h : Heap) (id a : Nat) (args : List Val) (S : Sep h id a)
    (hids : ∀ id', Val.ref id' ∈ args → id' < h.size) :
    (append h (.ref id) args).2.1 = some id ∧ items (append h (.ref id) args).1 a = items h a ∧
    h.size ≤ (append h (.ref id) args).1.size ∧ Sep (append h (.ref id) args).1 id a := by
  obtain ⟨hwf, hid, ha, hne, hta⟩ := S
  have hun : append h (.ref id) args = appendLoop h (some id) (some (tailOf h (fuelOf h) id)) [] args := by
    simp [append, hne]
  rw [hun]
  obtain ⟨c, hm⟩ := hwf.chain_spec hid
  have he0 := c.tail_next
  have P0 : Prog h (tailOf h (fuelOf h) id) h (tailOf h (fuelOf h) id) [] [] := by
    refine ⟨hwf, Nat.le_refl _, ?_, fun _ _ => rfl, by simp, rfl, Or.inl ⟨rfl, rfl⟩, (hm _ c.tail_mem).2,
      c.tail_nonempty hwf hne⟩
    intro a la ea _ ca
    exact ⟨fun hea => by rw [List.append_nil, ← hea]; exact ca, fun _ => ca⟩
  obtain ⟨hroot, Ls', ec', P⟩ := loop_alias h _ id hwf he0 args h _ [] [] [] P0 hids
  obtain ⟨ca, hma⟩ := hwf.chain_spec ha
  have c' := (P.chains a _ _ ha ca).2 hta
  have cres := (P.chains id _ _ hid c).1 rfl
  have hgrow := P.grow
  have hitems : items (appendLoop h (some id) (some (tailOf h (fuelOf h) id)) [] args).1 a = items h a := by
    rw [items_eq_of_chain P.wf c' (by omega)]
    unfold items itemsAt
    apply filterMap_congr'
    intro i hi
    exact P.vis i (hma i hi).2
  have hta' := (c'.bounds P.wf (by omega)).2.2.2
  have htid' := (cres.bounds P.wf (by omega)).2.2.2
  have hea : tailOf h (fuelOf h) a < h.size := (hma _ ca.tail_mem).2
  refine ⟨hroot, hitems, hgrow, P.wf, by omega, by omega, isEmpty_false_of_vis h _ id (P.vis id hid) hne, ?_⟩
  rw [← hta', ← htid']
  rcases P.cur with ⟨_, hec⟩ | ⟨_, hec⟩
  · rw [hec]; exact hta
  · omega

/-- **any sequence of `Append`s on the accumulator `id`** (arguments that existed at the start, any aliasing): `a` has
    the same content after all of them -/
theorem appendSeq_others_unchanged : ∀ (argss : List (List Val)) (h : Heap) (id a : Nat), Sep h id a →
    (∀ args ∈ argss, ∀ id', Val.ref id' ∈ args → id' < h.size) →
    items (appendSeq h (.ref id) argss).1 a = items h a ∧ (appendSeq h (.ref id) argss).2 = .ref id := by
  intro argss
  induction argss with
  | nil => intro h id a _ _; exact ⟨rfl, rfl⟩
  | cons args rest ih =>
    intro h id a S hargs
    obtain ⟨hroot, hit, hgrow, S'⟩ := sep_append_step h id a args S (hargs args (by simp))
    have hrest : ∀ args' ∈ rest, ∀ id', Val.ref id' ∈ args' → id' < (append h (.ref id) args).1.size := by
      intro args' hm id' hid'
      have := hargs args' (by simp [hm]) id' hid'
      omega
    have := ih (append h (.ref id) args).1 id a S' hrest
    simp only [appendSeq, hroot, ptrVal]
    exact ⟨this.1.trans hit, this.2⟩

/-- a fresh cell without a link (an element of `WrappedErrors()`, a new error, a wrapper) and any older error end in
    different cells, both ways round -/
theorem push_sep (h : Heap) (n : ENode) (hwf : WF h) (hn : n.next = none) (a : Nat) (ha : a < h.size) :
    items (h.push n) a = items h a ∧
    (isEmpty (h.push n) h.size = false → Sep (h.push n) h.size a) ∧
    (isEmpty h a = false → Sep (h.push n) a h.size) := by
  have hwf' := push_wf h n hwf hn
  have hcell : ∀ k, k < h.size → (h.push n)[k]? = h[k]? := by
    intro k hk; rw [Array.getElem?_push]; simp [Nat.ne_of_lt hk]
  have hsz : (h.push n).size = h.size + 1 := by simp
  obtain ⟨ca, hma⟩ := hwf.chain_spec ha
  have ca' : Chain (h.push n) a _ _ := ca.congr (fun i hi => hcell i (hma i hi).2)
  have hb := ca'.bounds hwf' (by omega)
  have hnew : nextOf (h.push n) h.size = none := by simp [nextOf, hn]
  have cn : Chain (h.push n) h.size [h.size] h.size := Chain.last h.size hnew
  have hbn := cn.bounds hwf' (by omega)
  have hlt : tailOf h (fuelOf h) a < h.size := (hma _ ca.tail_mem).2
  have hne : tailOf (h.push n) (fuelOf (h.push n)) a ≠ tailOf (h.push n) (fuelOf (h.push n)) h.size := by
    rw [← hb.2.2.2, ← hbn.2.2.2]; omega
  refine ⟨(arg_frame h _ hwf hwf' (by omega) a ha (fun i hi => hcell i (hma i hi).2)).2, ?_, ?_⟩
  · intro he; exact ⟨hwf', by omega, by omega, he, hne⟩
  · intro he
    exact ⟨hwf', by omega, by omega, by rw [isEmpty_congr h _ a (hcell a ha)]; exact he, fun e => hne e.symm⟩

end Errs
