import Model.EvalSoftFloat
import Mathlib.Tactic.Ring
import Mathlib.Tactic.Linarith
/-! C09: what the IEEE-754 model `Model/EvalSoftFloat.lean` computes.  `roundMag` = (choice of the exponent of the last
    place) ∘ (round to the nearest integer, ties to even) ∘ (encoding); the rounding step is within half a unit of the
    exact quotient, even on ties, and the identity on exact quotients; the encoding decodes to `q · 2^e` for normal and
    subnormal magnitudes; the chosen exponent is the normalising one (`roundExp_upper`, `roundExp_lower`,
    `roundMag_correct`). -/
namespace SoftFloat


/-- the rounding step of `roundMag`: nearest integer to `num/den`, ties to even -/
def rne (num den : Nat) : Nat :=
  if 2 * (num % den) > den ∨ (2 * (num % den) = den ∧ num / den % 2 = 1) then num / den + 1 else num / den

/-- the exponent of the last place `roundMag` chooses for `n/d` -/
def roundExp (f : Fmt) (n d : Nat) : Int :=
  let e1 : Int := (n.log2 : Int) - (d.log2 : Int) - (f.mb : Int)
  let e2 : Int := if (scaled n d e1).1 / (scaled n d e1).2 ≥ 2 ^ f.mb then e1 else e1 - 1
  if e2 < f.emin then f.emin else e2

theorem roundExp_ge (f : Fmt) (n d : Nat) : f.emin ≤ roundExp f n d := by
  unfold roundExp
  simp only
  split <;> omega

/-- `roundMag` is: choose the exponent `e ≥ emin` of the last place, round `n/d / 2^e` to the nearest integer (ties to
    even), encode -/
theorem roundMag_shape (f : Fmt) (n d : Nat) (hn : n ≠ 0) :
    roundMag f n d = (roundExp f n d - f.emin).toNat * 2 ^ f.mb +
      rne (scaled n d (roundExp f n d)).1 (scaled n d (roundExp f n d)).2 := by
  unfold roundMag
  simp only [hn, if_false]
  rfl

theorem rne_cases (q r den : Nat) (_hr : r < den) (x : Nat)
    (hx : x = if 2 * r > den ∨ (2 * r = den ∧ q % 2 = 1) then q + 1 else q) :
    2 * ((x : Int) * den - (den * q + r : Nat)) ≤ den ∧ 2 * (((den * q + r : Nat) : Int) - x * den) ≤ den := by
  subst hx
  split
  · rename_i hc
    push_cast
    rcases hc with hc | ⟨hc, _⟩ <;> constructor <;> nlinarith
  · rename_i hc
    have hle : 2 * r ≤ den := by
      by_contra hgt
      exact hc (Or.inl (by omega))
    push_cast
    constructor <;> nlinarith

/-- round to nearest: the chosen integer is within half a unit of `num/den` … -/
theorem rne_nearest (num den : Nat) (hd : 0 < den) :
    2 * ((rne num den : Int) * den - num) ≤ den ∧ 2 * ((num : Int) - rne num den * den) ≤ den := by
  have h := Nat.div_add_mod num den
  have hr := Nat.mod_lt num hd
  have := rne_cases (num / den) (num % den) den hr (rne num den) rfl
  rw [h] at this
  exact this

/-- … and on an exact tie it is even -/
theorem rne_tie_even (num den : Nat) (htie : 2 * (num % den) = den) : rne num den % 2 = 0 := by
  unfold rne
  by_cases hq : num / den % 2 = 1
  · have : 2 * (num % den) > den ∨ (2 * (num % den) = den ∧ num / den % 2 = 1) := Or.inr ⟨htie, hq⟩
    simp only [this, if_true]; omega
  · have : ¬ (2 * (num % den) > den ∨ (2 * (num % den) = den ∧ num / den % 2 = 1)) := by
      intro h; rcases h with h | h
      · omega
      · exact hq h.2
    simp only [this, if_false]; omega

/-- an exactly representable quotient is not changed -/
theorem rne_exact (q den : Nat) (hd : 0 < den) : rne (q * den) den = q := by
  unfold rne
  simp only [Nat.mul_mod_left, Nat.mul_div_cancel _ hd]
  have : ¬ (2 * 0 > den ∨ 2 * 0 = den ∧ q % 2 = 1) := by omega
  simp only [this, if_false]



theorem isNeg_small (f : Fmt) (b : Nat) (h : b < f.signBit) : isNeg f b = false := by
  unfold isNeg
  rw [Nat.div_eq_of_lt h]
  rfl

/-- decoding the encoding `k · 2^mb + q` of a NORMAL magnitude (`2^mb ≤ q < 2^(mb+1)`, exponent index `k` below the
    all-ones field): the value `q · 2^(k + emin)` -/
theorem decode_encode_normal (f : Fmt) (k q : Nat) (hq1 : 2 ^ f.mb ≤ q) (hq2 : q < 2 * 2 ^ f.mb)
    (hk : k + 1 < f.emaxField) : decode f (k * 2 ^ f.mb + q) = .fin false q ((k : Int) + f.emin) := by
  have hM : 0 < 2 ^ f.mb := Nat.pos_of_ne_zero (by simp)
  have hE : f.emaxField < 2 ^ f.eb := by
    unfold Fmt.emaxField
    have : 0 < 2 ^ f.eb := Nat.pos_of_ne_zero (by simp)
    omega
  have hdiv : (k * 2 ^ f.mb + q) / 2 ^ f.mb = k + 1 := by
    have e : k * 2 ^ f.mb + q = (q - 2 ^ f.mb) + (k + 1) * 2 ^ f.mb := by
      have : (k + 1) * 2 ^ f.mb = k * 2 ^ f.mb + 2 ^ f.mb := by ring
      omega
    rw [e, Nat.add_mul_div_right _ _ hM, Nat.div_eq_of_lt (by omega)]
    omega
  have hmod : (k * 2 ^ f.mb + q) % 2 ^ f.mb = q - 2 ^ f.mb := by
    have e : k * 2 ^ f.mb + q = (q - 2 ^ f.mb) + (k + 1) * 2 ^ f.mb := by
      have : (k + 1) * 2 ^ f.mb = k * 2 ^ f.mb + 2 ^ f.mb := by ring
      omega
    rw [e, Nat.add_mul_mod_self_right, Nat.mod_eq_of_lt (by omega)]
  have hneg : isNeg f (k * 2 ^ f.mb + q) = false := by
    apply isNeg_small
    unfold Fmt.signBit
    rw [Nat.pow_add]
    have : k * 2 ^ f.mb + q < (k + 2) * 2 ^ f.mb := by
      have : (k + 2) * 2 ^ f.mb = k * 2 ^ f.mb + 2 * 2 ^ f.mb := by ring
      omega
    have h2 : (k + 2) * 2 ^ f.mb ≤ 2 ^ f.eb * 2 ^ f.mb := Nat.mul_le_mul_right _ (by omega)
    rw [Nat.mul_comm (2 ^ f.mb)]
    omega
  unfold decode
  simp only [hdiv, hmod, hneg, Nat.mod_eq_of_lt (show k + 1 < 2 ^ f.eb by omega)]
  have h1 : k + 1 ≠ f.emaxField := by omega
  simp only [h1, if_false, Nat.succ_ne_zero, Nat.add_one_ne_zero]
  congr 1
  · omega
  · push_cast; ring

/-- … and of a SUBNORMAL magnitude (`q < 2^mb`, exponent index 0): the value `q · 2^emin` -/
theorem decode_encode_subnormal (f : Fmt) (q : Nat) (hq : q < 2 ^ f.mb) (heb : 1 ≤ f.eb) :
    decode f q = .fin false q f.emin := by
  have hneg : isNeg f q = false := by
    apply isNeg_small
    unfold Fmt.signBit
    rw [Nat.pow_add]
    have : 1 ≤ 2 ^ f.eb := Nat.one_le_two_pow
    calc q < 2 ^ f.mb := hq
      _ = 2 ^ f.mb * 1 := by ring
      _ ≤ 2 ^ f.mb * 2 ^ f.eb := Nat.mul_le_mul_left _ this
  have h0 : 0 ≠ f.emaxField := by
    unfold Fmt.emaxField
    have : 2 ^ 1 ≤ 2 ^ f.eb := Nat.pow_le_pow_right (by omega) heb
    omega
  unfold decode
  simp only [Nat.div_eq_of_lt hq, Nat.zero_mod, Nat.mod_eq_of_lt hq, hneg, h0, if_false, if_true]

theorem scaled_den_pos (n d : Nat) (e : Int) (hd : 0 < d) : 0 < (scaled n d e).2 := by
  unfold scaled
  split
  · exact Nat.mul_pos hd (Nat.pos_of_ne_zero (by simp))
  · exact hd



/-- cross-multiplied reading of `scaled`: `num < K·den ⇔ n·2^(-e)⁺ < K·d·2^e⁺` -/
theorem scaled_lt (n d : Nat) (e : Int) (K : Nat) :
    (scaled n d e).1 < K * (scaled n d e).2 ↔ n * 2 ^ (-e).toNat < K * d * 2 ^ e.toNat := by
  unfold scaled
  split
  · rename_i h
    have : (-e).toNat = 0 := by omega
    simp [this, Nat.mul_assoc]
  · rename_i h
    have : e.toNat = 0 := by omega
    simp [this]

theorem scaled_le (n d : Nat) (e : Int) (K : Nat) :
    K * (scaled n d e).2 ≤ (scaled n d e).1 ↔ K * d * 2 ^ e.toNat ≤ n * 2 ^ (-e).toNat := by
  unfold scaled
  split
  · rename_i h
    have : (-e).toNat = 0 := by omega
    simp [this, Nat.mul_assoc]
  · rename_i h
    have : e.toNat = 0 := by omega
    simp [this]

/-- the two-power bracket of a positive number -/
theorem log2_bracket (n : Nat) (hn : n ≠ 0) : 2 ^ n.log2 ≤ n ∧ n < 2 ^ (n.log2 + 1) :=
  ⟨Nat.log2_self_le hn, Nat.lt_log2_self⟩

/-- `x·2^p < y·2^r` from `x < 2^A`, `2^B ≤ y`, `A + p ≤ B + r` -/
theorem pow_sandwich_lt (x y A B p r : Nat) (hx : x < 2 ^ A) (hy : 2 ^ B ≤ y) (h : A + p ≤ B + r) :
    x * 2 ^ p < y * 2 ^ r := by
  have h1 : x * 2 ^ p < 2 ^ A * 2 ^ p := Nat.mul_lt_mul_of_pos_right hx (Nat.pos_of_ne_zero (by simp))
  have h2 : 2 ^ B * 2 ^ r ≤ y * 2 ^ r := Nat.mul_le_mul_right _ hy
  have h3 : 2 ^ A * 2 ^ p ≤ 2 ^ B * 2 ^ r := by
    rw [← Nat.pow_add, ← Nat.pow_add]
    exact Nat.pow_le_pow_right (by omega) h
  omega


theorem rne_bounds (num den : Nat) : num / den ≤ rne num den ∧ rne num den ≤ num / den + 1 := by
  unfold rne
  split <;> omega

/-- the exponent `roundMag` chooses is not too small: at it the quotient is below `2^(mb+1)` -/
theorem roundExp_upper (f : Fmt) (n d : Nat) (hn : n ≠ 0) (hd : d ≠ 0) :
    (scaled n d (roundExp f n d)).1 < 2 ^ (f.mb + 1) * (scaled n d (roundExp f n d)).2 := by
  obtain ⟨_, hn2⟩ := log2_bracket n hn
  obtain ⟨hd1, _⟩ := log2_bracket d hd
  -- for every exponent at or above e1 the bound follows from the brackets
  have hge : ∀ e : Int, (n.log2 : Int) - d.log2 - f.mb ≤ e →
      (scaled n d e).1 < 2 ^ (f.mb + 1) * (scaled n d e).2 := by
    intro e he
    rw [scaled_lt]
    have hy : 2 ^ (f.mb + 1 + d.log2) ≤ 2 ^ (f.mb + 1) * d := by
      rw [Nat.pow_add]; exact Nat.mul_le_mul_left _ hd1
    exact pow_sandwich_lt n (2 ^ (f.mb + 1) * d) (n.log2 + 1) (f.mb + 1 + d.log2) _ _ hn2 hy (by omega)
  unfold roundExp
  simp only
  by_cases hq : (scaled n d ((n.log2 : Int) - d.log2 - f.mb)).1 / (scaled n d ((n.log2 : Int) - d.log2 - f.mb)).2 ≥ 2 ^ f.mb
  · simp only [hq, if_true]
    split <;> exact hge _ (by omega)
  · simp only [hq, if_false]
    split
    · rename_i hlt
      by_cases h1 : (n.log2 : Int) - d.log2 - f.mb ≤ f.emin
      · exact hge _ h1
      · -- emin = e1 - 1 exactly is impossible here only if …; in general emin ≥ e1 - 1 and emin < e1 gives emin = e1 - 1
        have : f.emin = (n.log2 : Int) - d.log2 - f.mb - 1 := by omega
        rw [this]
        have hlt' : (scaled n d ((n.log2 : Int) - d.log2 - f.mb)).1 <
            2 ^ f.mb * (scaled n d ((n.log2 : Int) - d.log2 - f.mb)).2 := by
          have hden := scaled_den_pos n d ((n.log2 : Int) - d.log2 - f.mb) (Nat.pos_of_ne_zero hd)
          have := Nat.lt_of_not_ge hq
          exact (Nat.div_lt_iff_lt_mul hden).mp this
        rw [scaled_lt] at hlt' ⊢
        generalize hE : (n.log2 : Int) - d.log2 - f.mb = E at *
        by_cases hE0 : 1 ≤ E
        · have e1 : (-E).toNat = 0 := by omega
          have e2 : (-(E - 1)).toNat = 0 := by omega
          have e3 : E.toNat = (E - 1).toNat + 1 := by omega
          rw [e1, e3] at hlt'
          rw [e2]
          rw [Nat.pow_succ] at hlt' ⊢
          nlinarith
        · have e1 : E.toNat = 0 := by omega
          have e2 : (E - 1).toNat = 0 := by omega
          have e3 : (-(E - 1)).toNat = (-E).toNat + 1 := by omega
          rw [e1] at hlt'
          rw [e2, e3]
          rw [Nat.pow_succ, Nat.pow_succ]
          nlinarith
    · rename_i hge2
      -- e = e1 - 1 ≥ emin
      have hlt' : (scaled n d ((n.log2 : Int) - d.log2 - f.mb)).1 <
          2 ^ f.mb * (scaled n d ((n.log2 : Int) - d.log2 - f.mb)).2 := by
        have hden := scaled_den_pos n d ((n.log2 : Int) - d.log2 - f.mb) (Nat.pos_of_ne_zero hd)
        have := Nat.lt_of_not_ge hq
        exact (Nat.div_lt_iff_lt_mul hden).mp this
      rw [scaled_lt] at hlt' ⊢
      generalize hE : (n.log2 : Int) - d.log2 - f.mb = E at *
      by_cases hE0 : 1 ≤ E
      · have e1 : (-E).toNat = 0 := by omega
        have e2 : (-(E - 1)).toNat = 0 := by omega
        have e3 : E.toNat = (E - 1).toNat + 1 := by omega
        rw [e1, e3] at hlt'
        rw [e2]
        rw [Nat.pow_succ] at hlt' ⊢
        nlinarith
      · have e1 : E.toNat = 0 := by omega
        have e2 : (E - 1).toNat = 0 := by omega
        have e3 : (-(E - 1)).toNat = (-E).toNat + 1 := by omega
        rw [e1] at hlt'
        rw [e2, e3]
        rw [Nat.pow_succ, Nat.pow_succ]
        nlinarith


/-- … and not too large: above `emin` the quotient is at least `2^mb` (the result is normalised) -/
theorem roundExp_lower (f : Fmt) (n d : Nat) (hn : n ≠ 0) (hd : d ≠ 0) (habove : f.emin < roundExp f n d) :
    2 ^ f.mb * (scaled n d (roundExp f n d)).2 ≤ (scaled n d (roundExp f n d)).1 := by
  obtain ⟨hn1, _⟩ := log2_bracket n hn
  obtain ⟨_, hd2⟩ := log2_bracket d hd
  unfold roundExp at habove ⊢
  simp only at habove ⊢
  by_cases hq : (scaled n d ((n.log2 : Int) - d.log2 - f.mb)).1 / (scaled n d ((n.log2 : Int) - d.log2 - f.mb)).2 ≥ 2 ^ f.mb
  · simp only [hq, if_true] at habove ⊢
    split
    · rename_i h; simp only [h, if_true] at habove; omega
    · have hden := scaled_den_pos n d ((n.log2 : Int) - d.log2 - f.mb) (Nat.pos_of_ne_zero hd)
      exact (Nat.le_div_iff_mul_le hden).mp hq
  · simp only [hq, if_false] at habove ⊢
    split
    · rename_i h; simp only [h, if_true] at habove; omega
    · rw [scaled_le]
      have hx : 2 ^ f.mb * d < 2 ^ (f.mb + (d.log2 + 1)) := by
        rw [Nat.pow_add]; exact Nat.mul_lt_mul_of_pos_left hd2 (Nat.pos_of_ne_zero (by simp))
      exact Nat.le_of_lt (pow_sandwich_lt (2 ^ f.mb * d) n (f.mb + (d.log2 + 1)) n.log2 _ _ hx hn1 (by omega))

/-- **`roundMag` is IEEE-754 round-to-nearest-even, completely**: for `n/d > 0` it returns `k·2^mb + q` where, with
    `e = k + emin` the exponent of the last place, `q` is the integer nearest to `n/d / 2^e` (ties to even, exact on
    exact quotients) AND the exponent is the right one: `q ≤ 2^(mb+1)`, and `2^mb ≤ q` unless `e = emin` (subnormal
    range) — i.e. `q` has exactly `mb+1` significant bits, or the rounding carried into the next binade
    (`q = 2^(mb+1)`, whose encoding IS the next binade's first value) -/
theorem roundMag_correct (f : Fmt) (n d : Nat) (hn : n ≠ 0) (hd : d ≠ 0) :
    ∃ (k q : Nat), roundMag f n d = k * 2 ^ f.mb + q ∧
      q = rne (scaled n d ((k : Int) + f.emin)).1 (scaled n d ((k : Int) + f.emin)).2 ∧
      q ≤ 2 ^ (f.mb + 1) ∧ (k ≠ 0 → 2 ^ f.mb ≤ q) := by
  have hge := roundExp_ge f n d
  refine ⟨(roundExp f n d - f.emin).toNat, _, roundMag_shape f n d hn, ?_, ?_, ?_⟩
  · have : (((roundExp f n d - f.emin).toNat : Nat) : Int) + f.emin = roundExp f n d := by omega
    rw [this]
  · have hden := scaled_den_pos n d (roundExp f n d) (Nat.pos_of_ne_zero hd)
    have hu := roundExp_upper f n d hn hd
    have hdiv : (scaled n d (roundExp f n d)).1 / (scaled n d (roundExp f n d)).2 < 2 ^ (f.mb + 1) :=
      (Nat.div_lt_iff_lt_mul hden).mpr hu
    have := (rne_bounds (scaled n d (roundExp f n d)).1 (scaled n d (roundExp f n d)).2).2
    omega
  · intro hk
    have habove : f.emin < roundExp f n d := by omega
    have hden := scaled_den_pos n d (roundExp f n d) (Nat.pos_of_ne_zero hd)
    have hl := roundExp_lower f n d hn hd habove
    have hdiv : 2 ^ f.mb ≤ (scaled n d (roundExp f n d)).1 / (scaled n d (roundExp f n d)).2 :=
      (Nat.le_div_iff_mul_le hden).mpr hl
    have := (rne_bounds (scaled n d (roundExp f n d)).1 (scaled n d (roundExp f n d)).2).1
    omega



theorem signBit_eq (f : Fmt) : f.signBit = 2 ^ f.eb * 2 ^ f.mb := by
  unfold Fmt.signBit; rw [Nat.pow_add, Nat.mul_comm]

/-- setting the sign bit of a magnitude below it changes nothing but the sign -/
theorem decode_withSign (f : Fmt) (neg : Bool) (x : Nat) (hx : x < f.signBit) :
    decode f (withSign f neg x) =
      (match decode f x with
       | .nan => .nan
       | .inf _ => .inf neg
       | .fin _ m e => .fin neg m e) := by
  have hpos : 0 < 2 ^ f.mb := Nat.pos_of_ne_zero (by simp)
  have hneg0 : isNeg f x = false := isNeg_small f x hx
  cases neg with
  | false =>
    simp only [withSign, Bool.false_eq_true, if_false]
    unfold decode
    simp only [hneg0]
    split <;> (try split) <;> rfl
  | true =>
    simp only [withSign, if_true]
    have h1 : (x + f.signBit) / 2 ^ f.mb % 2 ^ f.eb = x / 2 ^ f.mb % 2 ^ f.eb := by
      rw [signBit_eq, Nat.add_mul_div_right _ _ hpos, Nat.add_mod_right]
    have h2 : (x + f.signBit) % 2 ^ f.mb = x % 2 ^ f.mb := by
      rw [signBit_eq, Nat.add_mul_mod_self_right]
    have h3 : isNeg f (x + f.signBit) = true := by
      unfold isNeg
      have hS : 0 < f.signBit := by unfold Fmt.signBit; exact Nat.pos_of_ne_zero (by simp)
      rw [Nat.add_div_right _ hS, Nat.div_eq_of_lt hx]
      rfl
    unfold decode
    simp only [h1, h2, h3, hneg0]
    split <;> (try split) <;> rfl

/-- the carry of the rounding into the next binade decodes to the first value of that binade -/
theorem decode_encode_carry (f : Fmt) (k : Nat) (hk : k + 2 < f.emaxField) :
    decode f (k * 2 ^ f.mb + 2 * 2 ^ f.mb) = .fin false (2 ^ f.mb) ((k : Int) + 1 + f.emin) := by
  have := decode_encode_normal f (k + 1) (2 ^ f.mb) (Nat.le_refl _) (by have : 0 < 2 ^ f.mb := Nat.pos_of_ne_zero (by simp); omega) (by omega)
  have e : (k + 1) * 2 ^ f.mb + 2 ^ f.mb = k * 2 ^ f.mb + 2 * 2 ^ f.mb := by ring
  rw [e] at this
  rw [this]
  congr 1


theorem infBits_lt_signBit (f : Fmt) : f.infBits < f.signBit := by
  rw [signBit_eq]
  unfold Fmt.infBits Fmt.emaxField
  have h1 : 0 < 2 ^ f.eb := Nat.pos_of_ne_zero (by simp)
  have h2 : 0 < 2 ^ f.mb := Nat.pos_of_ne_zero (by simp)
  exact Nat.mul_lt_mul_of_pos_right (by omega) h2

theorem decode_infBits (f : Fmt) : decode f f.infBits = .inf false := by
  have h2 : 0 < 2 ^ f.mb := Nat.pos_of_ne_zero (by simp)
  have h1 : 0 < 2 ^ f.eb := Nat.pos_of_ne_zero (by simp)
  have hneg := isNeg_small f f.infBits (infBits_lt_signBit f)
  unfold decode
  have e1 : f.infBits / 2 ^ f.mb % 2 ^ f.eb = f.emaxField := by
    unfold Fmt.infBits
    rw [Nat.mul_div_cancel _ h2]
    unfold Fmt.emaxField
    exact Nat.mod_eq_of_lt (by omega)
  have e2 : f.infBits % 2 ^ f.mb = 0 := by unfold Fmt.infBits; exact Nat.mul_mod_left _ _
  simp only [e1, e2, hneg, if_true]

/-- **`ofRat` is the correctly rounded float**: for `n/d > 0` the result of `ofRat f neg n d` is, with `k`, `q` the
    exponent index and the round-to-nearest-even integer of `roundMag_correct`: ±Inf when the rounded magnitude
    reaches the all-ones exponent (overflow), otherwise the float `± q · 2^(k + emin)` (written `2^mb · 2^(k+1+emin)`
    when the rounding carried) -/
theorem ofRat_value (f : Fmt) (heb : 1 ≤ f.eb) (neg : Bool) (n d : Nat) (hn : n ≠ 0) (hd : d ≠ 0) :
    ∃ (k q : Nat), roundMag f n d = k * 2 ^ f.mb + q ∧
      q = rne (scaled n d ((k : Int) + f.emin)).1 (scaled n d ((k : Int) + f.emin)).2 ∧
      ((f.infBits ≤ k * 2 ^ f.mb + q ∧ decode f (ofRat f neg n d) = .inf neg) ∨
       (k * 2 ^ f.mb + q < f.infBits ∧ q < 2 * 2 ^ f.mb ∧ (k ≠ 0 → 2 ^ f.mb ≤ q) ∧
          decode f (ofRat f neg n d) = .fin neg q ((k : Int) + f.emin)) ∨
       (k * 2 ^ f.mb + q < f.infBits ∧ q = 2 * 2 ^ f.mb ∧
          decode f (ofRat f neg n d) = .fin neg (2 ^ f.mb) ((k : Int) + 1 + f.emin))) := by
  obtain ⟨k, q, h1, h2, h3, h4⟩ := roundMag_correct f n d hn hd
  refine ⟨k, q, h1, h2, ?_⟩
  have hM : 0 < 2 ^ f.mb := Nat.pos_of_ne_zero (by simp)
  have hinf := infBits_lt_signBit f
  have h3' : q ≤ 2 * 2 ^ f.mb := by rw [Nat.pow_succ] at h3; omega
  unfold ofRat
  rw [h1]
  by_cases hov : f.infBits ≤ k * 2 ^ f.mb + q
  · left
    refine ⟨hov, ?_⟩
    rw [Nat.min_eq_right hov, decode_withSign f neg _ hinf, decode_infBits]
  · have hlt : k * 2 ^ f.mb + q < f.infBits := Nat.lt_of_not_ge hov
    rw [Nat.min_eq_left (Nat.le_of_lt hlt), decode_withSign f neg _ (Nat.lt_trans hlt hinf)]
    have hE : f.infBits = f.emaxField * 2 ^ f.mb := rfl
    by_cases hc : q = 2 * 2 ^ f.mb
    · right; right
      refine ⟨hlt, hc, ?_⟩
      have hk : k + 2 < f.emaxField := by
        rw [hE, hc] at hlt
        have : (k + 2) * 2 ^ f.mb < f.emaxField * 2 ^ f.mb := by
          have : (k + 2) * 2 ^ f.mb = k * 2 ^ f.mb + 2 * 2 ^ f.mb := by ring
          omega
        exact Nat.lt_of_mul_lt_mul_right this
      rw [hc, decode_encode_carry f k hk]
    · right; left
      have hq : q < 2 * 2 ^ f.mb := by omega
      refine ⟨hlt, hq, h4, ?_⟩
      by_cases hk0 : k = 0
      · subst hk0
        by_cases hsub : q < 2 ^ f.mb
        · simp only [Nat.zero_mul, Nat.zero_add, decode_encode_subnormal f q hsub heb]
          simp
        · have hk : 0 + 1 < f.emaxField := by
            rw [hE] at hlt
            have : 1 * 2 ^ f.mb < f.emaxField * 2 ^ f.mb := by omega
            exact Nat.lt_of_mul_lt_mul_right this
          rw [decode_encode_normal f 0 q (by omega) hq hk]
      · have hge := h4 hk0
        have hk : k + 1 < f.emaxField := by
          rw [hE] at hlt
          have : (k + 1) * 2 ^ f.mb < f.emaxField * 2 ^ f.mb := by
            have : (k + 1) * 2 ^ f.mb = k * 2 ^ f.mb + 2 ^ f.mb := by ring
            omega
          exact Nat.lt_of_mul_lt_mul_right this
        rw [decode_encode_normal f k q hge hq hk]



/-- `ofScaled` hands `roundMag` the exact rational `n · 2^x` -/
theorem ofScaled_eq (f : Fmt) (neg : Bool) (n : Nat) (x : Int) :
    ∃ N D : Nat, D ≠ 0 ∧ ofScaled f neg n x = ofRat f neg N D ∧
      N * 2 ^ (-x).toNat = n * 2 ^ x.toNat * D ∧ (n ≠ 0 → N ≠ 0) := by
  unfold ofScaled
  split
  · rename_i h
    have h0 : (-x).toNat = 0 := by omega
    exact ⟨n * 2 ^ x.toNat, 1, by omega, rfl, by simp [h0], fun hn => Nat.mul_ne_zero hn (by simp)⟩
  · rename_i h
    have h0 : x.toNat = 0 := by omega
    exact ⟨n, 2 ^ (-x).toNat, by simp, rfl, by simp [h0], fun hn => hn⟩

/-- **multiplication is exact-then-round**: for finite operands `± m·2^e`, `± k·2^g` the product is the signed zero
    `(s ≠ t) 0` when a factor is zero, and otherwise `ofRat` of the EXACT product `m·k · 2^(e+g)` with the sign `s ≠ t` -/
theorem mul_exact_then_round (f : Fmt) (a b : Nat) (s t : Bool) (m k : Nat) (e g : Int)
    (ha : decode f a = .fin s m e) (hb : decode f b = .fin t k g) :
    (m * k = 0 → mul f a b = withSign f (s != t) 0) ∧
    (m * k ≠ 0 → ∃ N D : Nat, D ≠ 0 ∧ N ≠ 0 ∧ mul f a b = ofRat f (s != t) N D ∧
      N * 2 ^ (-(e + g)).toNat = m * k * 2 ^ (e + g).toNat * D) := by
  constructor
  · intro h; simp [mul, ha, hb, h]
  · intro h
    obtain ⟨N, D, hD, hof, hex, hN⟩ := ofScaled_eq f (s != t) (m * k) (e + g)
    exact ⟨N, D, hD, hN h, by simp [mul, ha, hb, h, hof], hex⟩

/-- **addition is exact-then-round**: with `x = min e g` the sum of `± m·2^e` and `± k·2^g` is the integer
    `S = ± m·2^(e-x) ± k·2^(g-x)` in units of `2^x` (exact: both shifts are by non-negative amounts); the result is the
    zero `(s ∧ t) 0` when `S = 0` (−0 only for (−0) + (−0), as IEEE-754 prescribes for round-to-nearest) and otherwise
    `ofRat` of the EXACT `|S| · 2^x` with the sign of `S` -/
theorem add_exact_then_round (f : Fmt) (a b : Nat) (s t : Bool) (m k : Nat) (e g : Int)
    (ha : decode f a = .fin s m e) (hb : decode f b = .fin t k g) :
    ∃ (x : Int) (S : Int), x ≤ e ∧ x ≤ g ∧ (x = e ∨ x = g) ∧
      S = sgn s (m * 2 ^ (e - x).toNat) + sgn t (k * 2 ^ (g - x).toNat) ∧
      (S = 0 → add f a b = withSign f (s && t) 0) ∧
      (S ≠ 0 → ∃ N D : Nat, D ≠ 0 ∧ N ≠ 0 ∧ add f a b = ofRat f (decide (S < 0)) N D ∧
        N * 2 ^ (-x).toNat = S.natAbs * 2 ^ x.toNat * D) := by
  refine ⟨if e ≤ g then e else g, _, by split <;> omega, by split <;> omega, by split <;> simp, rfl, ?_, ?_⟩
  · intro h
    simp only [add, ha, hb]
    simp only [h, if_true]
  · intro h
    obtain ⟨N, D, hD, hof, hex, hN⟩ := ofScaled_eq f (decide
      (sgn s (m * 2 ^ (e - if e ≤ g then e else g).toNat) + sgn t (k * 2 ^ (g - if e ≤ g then e else g).toNat) < 0))
      (sgn s (m * 2 ^ (e - if e ≤ g then e else g).toNat) + sgn t (k * 2 ^ (g - if e ≤ g then e else g).toNat)).natAbs
      (if e ≤ g then e else g)
    refine ⟨N, D, hD, hN (by omega), ?_, hex⟩
    simp only [add, ha, hb]
    simp only [h, if_false, hof]

/-- **division is exact-then-round**: for finite `± m·2^e` and non-zero `± k·2^g` with `m ≠ 0` the quotient is `ofRat`
    of the EXACT `(m·2^e) / (k·2^g)` with the sign `s ≠ t` -/
theorem div_exact_then_round (f : Fmt) (a b : Nat) (s t : Bool) (m k : Nat) (e g : Int)
    (ha : decode f a = .fin s m e) (hb : decode f b = .fin t k g) (hk : k ≠ 0) (hm : m ≠ 0) :
    ∃ N D : Nat, D ≠ 0 ∧ N ≠ 0 ∧ div f a b = ofRat f (s != t) N D ∧
      N * k * 2 ^ (g - e).toNat = m * 2 ^ (e - g).toNat * D := by
  by_cases h : g ≤ e
  · have h0 : (g - e).toNat = 0 := by omega
    exact ⟨m * 2 ^ (e - g).toNat, k, hk, Nat.mul_ne_zero hm (by simp), by simp [div, ha, hb, hk, hm, h],
      by simp [h0]⟩
  · have h0 : (e - g).toNat = 0 := by omega
    refine ⟨m, k * 2 ^ (g - e).toNat, Nat.mul_ne_zero hk (by simp), hm, by simp [div, ha, hb, hk, hm, h], ?_⟩
    simp [h0, Nat.mul_assoc]



/-- flipping the sign bit changes nothing but the sign (any bit pattern) -/
theorem decode_neg (f : Fmt) (b : Nat) :
    decode f (neg f b) =
      (match decode f b with
       | .nan => .nan
       | .inf s => .inf (!s)
       | .fin s m e => .fin (!s) m e) := by
  have hpos : 0 < 2 ^ f.mb := Nat.pos_of_ne_zero (by simp)
  have hS : 0 < f.signBit := by unfold Fmt.signBit; exact Nat.pos_of_ne_zero (by simp)
  unfold neg
  by_cases hn : isNeg f b = true
  · simp only [hn, if_true]
    have hge : f.signBit ≤ b := by
      unfold isNeg at hn
      by_contra hlt
      rw [Nat.div_eq_of_lt (Nat.lt_of_not_ge hlt)] at hn
      simp at hn
    obtain ⟨c, hc⟩ : ∃ c, b = c + f.signBit := ⟨b - f.signBit, by omega⟩
    have hnc : isNeg f c = false := by
      unfold isNeg at hn ⊢
      rw [hc, Nat.add_div_right _ hS] at hn
      have : c / f.signBit % 2 = 0 ∨ c / f.signBit % 2 = 1 := by omega
      rcases this with h | h
      · simp [h]
      · have : (c / f.signBit + 1) % 2 = 0 := by omega
        simp [this] at hn
    have h1 : b / 2 ^ f.mb % 2 ^ f.eb = c / 2 ^ f.mb % 2 ^ f.eb := by
      rw [hc, signBit_eq, Nat.add_mul_div_right _ _ hpos, Nat.add_mod_right]
    have h2 : b % 2 ^ f.mb = c % 2 ^ f.mb := by
      rw [hc, signBit_eq, Nat.add_mul_mod_self_right]
    have h3 : b - f.signBit = c := by omega
    rw [h3]
    unfold decode
    simp only [h1, h2, hn, hnc]
    split <;> (try split) <;> rfl
  · have hn' : isNeg f b = false := by simpa using hn
    simp only [hn', Bool.false_eq_true, if_false]
    have h1 : (b + f.signBit) / 2 ^ f.mb % 2 ^ f.eb = b / 2 ^ f.mb % 2 ^ f.eb := by
      rw [signBit_eq, Nat.add_mul_div_right _ _ hpos, Nat.add_mod_right]
    have h2 : (b + f.signBit) % 2 ^ f.mb = b % 2 ^ f.mb := by
      rw [signBit_eq, Nat.add_mul_mod_self_right]
    have h3 : isNeg f (b + f.signBit) = true := by
      unfold isNeg at hn' ⊢
      rw [Nat.add_div_right _ hS]
      have : b / f.signBit % 2 = 0 := by
        have : b / f.signBit % 2 = 0 ∨ b / f.signBit % 2 = 1 := by omega
        rcases this with h | h
        · exact h
        · simp [h] at hn'
      have : (b / f.signBit + 1) % 2 = 1 := by omega
      simp [this]
    unfold decode
    simp only [h1, h2, h3, hn']
    split <;> (try split) <;> rfl


/-- a bit pattern that decodes as finite or infinite is not a NaN for `isNaN` -/
theorem isNaN_false_of_decode (f : Fmt) (b : Nat) (h : decode f b ≠ .nan) : isNaN f b = false := by
  have hM : 0 < 2 ^ f.mb := Nat.pos_of_ne_zero (by simp)
  have hE : 0 < 2 ^ f.eb := Nat.pos_of_ne_zero (by simp)
  have hdiv : mag f b / 2 ^ f.mb = b / 2 ^ f.mb % 2 ^ f.eb := by
    unfold mag; rw [signBit_eq, Nat.mul_comm]; exact Nat.mod_mul_right_div_self _ _ _
  have hmod : mag f b % 2 ^ f.mb = b % 2 ^ f.mb := by
    unfold mag; rw [signBit_eq, Nat.mul_comm]; exact Nat.mod_mul_right_mod _ _ _
  have hsplit := Nat.div_add_mod (mag f b) (2 ^ f.mb)
  have hef : b / 2 ^ f.mb % 2 ^ f.eb < 2 ^ f.eb := Nat.mod_lt _ hE
  have hmf : b % 2 ^ f.mb < 2 ^ f.mb := Nat.mod_lt _ hM
  unfold isNaN
  simp only [decide_eq_false_iff_not, Nat.not_lt, gt_iff_lt]
  rw [hdiv, hmod] at hsplit
  have hinf : f.infBits = f.emaxField * 2 ^ f.mb := rfl
  have hemax : f.emaxField = 2 ^ f.eb - 1 := rfl
  by_cases hc : b / 2 ^ f.mb % 2 ^ f.eb = f.emaxField
  · -- then the mantissa field is zero (else decode = nan)
    have hm0 : b % 2 ^ f.mb = 0 := by
      by_contra hne
      apply h
      unfold decode
      simp only [hc, if_true, hne, if_false]
    rw [hc, hm0] at hsplit
    rw [hinf, Nat.mul_comm]; omega
  · have hlt : b / 2 ^ f.mb % 2 ^ f.eb + 1 ≤ f.emaxField := by omega
    have h1 : 2 ^ f.mb * (b / 2 ^ f.mb % 2 ^ f.eb + 1) ≤ 2 ^ f.mb * f.emaxField := Nat.mul_le_mul_left _ hlt
    rw [Nat.mul_add, Nat.mul_one] at h1
    rw [hinf, Nat.mul_comm]; omega

/-- **subtraction is addition of the negated operand** for every right operand that is not a NaN, and the negation only
    flips the decoded sign — so `a - b` is exact-then-round like `+` -/
theorem sub_eq_add_neg (f : Fmt) (a b : Nat) (h : decode f b ≠ .nan) : sub f a b = add f a (neg f b) := by
  unfold sub
  simp [isNaN_false_of_decode f b h]

/-- `x − x = +0` for every finite `x` (round-to-nearest: an exact zero difference is positive) -/
theorem sub_self (f : Fmt) (a : Nat) (s : Bool) (m : Nat) (e : Int) (ha : decode f a = .fin s m e) :
    sub f a a = 0 := by
  rw [sub_eq_add_neg f a a (by rw [ha]; simp)]
  have hn : decode f (neg f a) = .fin (!s) m e := by rw [decode_neg, ha]
  unfold add
  simp only [ha, hn, Int.le_refl, if_true, Int.sub_self, Int.toNat_zero, Nat.pow_zero, Nat.mul_one]
  have : sgn s m + sgn (!s) m = 0 := by cases s <;> simp [sgn]
  simp [this, withSign]



/-- the special values of `+ * /` by decoded class: NaN propagates; `Inf + Inf` of one sign is that infinity, of
    opposite signs NaN; `Inf + finite` is the infinity; `Inf · Inf` and `Inf · finite≠0` are infinities of the product
    sign, `Inf · 0` is NaN; `Inf / Inf` is NaN, `Inf / finite` an infinity, `finite / Inf` a zero of the quotient sign;
    `finite≠0 / 0` is an infinity of the quotient sign and `0 / 0` NaN (plain IEEE — the evaluator's own `r == 0` test
    answers first: `float_div_by_zero_configured`) -/
theorem special_values (f : Fmt) (a b : Nat) :
    (decode f a = .nan → add f a b = f.nanBits ∧ mul f a b = f.nanBits ∧ div f a b = f.nanBits) ∧
    (decode f b = .nan → add f a b = f.nanBits ∧ mul f a b = f.nanBits ∧ div f a b = f.nanBits) ∧
    (∀ s t, decode f a = .inf s → decode f b = .inf t →
      add f a b = (if s == t then a else f.nanBits) ∧ mul f a b = withSign f (s != t) f.infBits ∧
      div f a b = f.nanBits) ∧
    (∀ s t k g, decode f a = .inf s → decode f b = .fin t k g →
      add f a b = a ∧ mul f a b = (if k = 0 then f.nanBits else withSign f (s != t) f.infBits) ∧
      div f a b = withSign f (s != t) f.infBits) ∧
    (∀ s t m e, decode f a = .fin s m e → decode f b = .inf t →
      add f a b = b ∧ mul f a b = (if m = 0 then f.nanBits else withSign f (s != t) f.infBits) ∧
      div f a b = withSign f (s != t) 0) ∧
    (∀ s t m e g, decode f a = .fin s m e → decode f b = .fin t 0 g →
      div f a b = (if m = 0 then f.nanBits else withSign f (s != t) f.infBits)) := by
  refine ⟨?_, ?_, ?_, ?_, ?_, ?_⟩
  · intro h; simp [add, mul, div, h]
  · intro h
    cases ha : decode f a <;> simp [add, mul, div, h, ha]
  · intro s t ha hb; simp [add, mul, div, ha, hb]
  · intro s t k g ha hb; simp [add, mul, div, ha, hb]
  · intro s t m e ha hb; simp [add, mul, div, ha, hb]
  · intro s t m e g ha hb; simp [div, ha, hb]

theorem pick_arith (m q r d : Nat) (hdm : d * q + r = m) (hr : r < d) :
    (q * d ≤ m ∧ m < (q + 1) * d) ∧
    (r = 0 → m ≤ q * d ∧ q * d < m + d) ∧
    (r ≠ 0 → m ≤ (q + 1) * d ∧ (q + 1) * d < m + d) ∧
    (2 * r ≥ d → 2 * (q + 1) * d ≤ 2 * m + d ∧ 2 * m + d < (2 * (q + 1) + 2) * d) ∧
    (¬ 2 * r ≥ d → 2 * q * d ≤ 2 * m + d ∧ 2 * m + d < (2 * q + 2) * d) := by
  have e1 : (q + 1) * d = d * q + d := by ring
  have e2 : q * d = d * q := by ring
  have e3 : 2 * (q + 1) * d = 2 * (d * q) + 2 * d := by ring
  have e4 : (2 * (q + 1) + 2) * d = 2 * (d * q) + 4 * d := by ring
  have e5 : 2 * q * d = 2 * (d * q) := by ring
  have e6 : (2 * q + 2) * d = 2 * (d * q) + 2 * d := by ring
  rw [e1, e2, e3, e4, e5, e6]
  refine ⟨by omega, fun _ => by omega, fun _ => by omega, fun _ => by omega, fun _ => by omega⟩

/-- `floor` / `ceil` / `round` on a finite value `± m·2^e`: an integral value (`e ≥ 0`) or a zero is returned as it is;
    otherwise, with `d = 2^(-e)` (so `|x| = m/d = q + r/d`), the result is the signed zero when the chosen integer `N` is 0
    and `ofRat s N 1` — the float of the INTEGER `N` — else, where `N` is the integer the mathematical function gives:
    floor: `N = ⌊|x|⌋` for `x > 0`, `⌈|x|⌉` for `x < 0`; ceil: the other way round; round: `⌊|x| + 1/2⌋`, halves away
    from zero for both signs -/
theorem integral_functions (f : Fmt) (b : Nat) (s : Bool) (m : Nat) (e : Int) (hb : decode f b = .fin s m e) :
    ((0 ≤ e ∨ m = 0) → floor f b = b ∧ ceil f b = b ∧ round f b = b) ∧
    (¬ (0 ≤ e ∨ m = 0) →
      ∃ Nf Nc Nr : Nat,
        floor f b = (if Nf = 0 then withSign f s 0 else ofRat f s Nf 1) ∧
        ceil f b = (if Nc = 0 then withSign f s 0 else ofRat f s Nc 1) ∧
        round f b = (if Nr = 0 then withSign f s 0 else ofRat f s Nr 1) ∧
        (s = false → Nf * 2 ^ (-e).toNat ≤ m ∧ m < (Nf + 1) * 2 ^ (-e).toNat) ∧
        (s = true → m ≤ Nf * 2 ^ (-e).toNat ∧ Nf * 2 ^ (-e).toNat < m + 2 ^ (-e).toNat) ∧
        (s = true → Nc * 2 ^ (-e).toNat ≤ m ∧ m < (Nc + 1) * 2 ^ (-e).toNat) ∧
        (s = false → m ≤ Nc * 2 ^ (-e).toNat ∧ Nc * 2 ^ (-e).toNat < m + 2 ^ (-e).toNat) ∧
        (2 * Nr * 2 ^ (-e).toNat ≤ 2 * m + 2 ^ (-e).toNat ∧ 2 * m + 2 ^ (-e).toNat < (2 * Nr + 2) * 2 ^ (-e).toNat) ∧
        (Nf ≤ m / 2 ^ (-e).toNat + 1 ∧ Nc ≤ m / 2 ^ (-e).toNat + 1 ∧ Nr ≤ m / 2 ^ (-e).toNat + 1)) := by
  constructor
  · intro h
    simp [floor, ceil, round, toIntegral, hb, h]
  · intro h
    have hd : 0 < 2 ^ (-e).toNat := Nat.pos_of_ne_zero (by simp)
    obtain ⟨p1, p2, p3, p4, p5⟩ := pick_arith m (m / 2 ^ (-e).toNat) (m % 2 ^ (-e).toNat) (2 ^ (-e).toNat)
      (Nat.div_add_mod m _) (Nat.mod_lt m hd)
    refine ⟨(if s && m % 2 ^ (-e).toNat != 0 then m / 2 ^ (-e).toNat + 1 else m / 2 ^ (-e).toNat),
      (if !s && m % 2 ^ (-e).toNat != 0 then m / 2 ^ (-e).toNat + 1 else m / 2 ^ (-e).toNat),
      (if 2 * (m % 2 ^ (-e).toNat) ≥ 2 ^ (-e).toNat then m / 2 ^ (-e).toNat + 1 else m / 2 ^ (-e).toNat),
      ?_, ?_, ?_, ?_, ?_, ?_, ?_, ?_, ?_⟩
    · simp [floor, toIntegral, hb, h]
    · simp [ceil, toIntegral, hb, h]
    · simp [round, toIntegral, hb, h]
    · intro hs; subst hs
      simpa using p1
    · intro hs; subst hs
      by_cases h0 : m % 2 ^ (-e).toNat = 0
      · simpa [h0] using p2 h0
      · simpa [h0] using p3 h0
    · intro hs; subst hs
      simpa using p1
    · intro hs; subst hs
      by_cases h0 : m % 2 ^ (-e).toNat = 0
      · simpa [h0] using p2 h0
      · simpa [h0] using p3 h0
    · by_cases h2 : 2 * (m % 2 ^ (-e).toNat) ≥ 2 ^ (-e).toNat
      · simp only [h2, if_true]; exact p4 h2
      · simp only [h2, if_false]; exact p5 h2
    · refine ⟨?_, ?_, ?_⟩ <;> split <;> omega



theorem roundExp_int_le_zero (f : Fmt) (N : Nat) (hN : N ≠ 0) (hlt : N < 2 ^ (f.mb + 1)) (hemin : f.emin ≤ 0) :
    roundExp f N 1 ≤ 0 := by
  have h1 : Nat.log2 1 = 0 := by decide
  have h2 : N.log2 < f.mb + 1 := (Nat.log2_lt hN).mpr hlt
  unfold roundExp
  simp only [h1]
  split <;> split <;> omega

/-- **the float of a small integer is that integer**: for `0 < N < 2^(mb+1)` (in a format whose exponent range holds
    the integers: `bias + mb + 1 < emaxField`, true of binary64 and binary32) `ofRat f neg N 1` decodes to
    `± q · 2^E` with `E ≤ 0` and `q = N · 2^(-E)` — exactly `± N`, no rounding, no overflow -/
theorem ofRat_int_exact (f : Fmt) (heb : 1 ≤ f.eb) (neg : Bool) (N : Nat) (hN : N ≠ 0) (hlt : N < 2 ^ (f.mb + 1))
    (hemin : f.emin ≤ 0) (hfmt : f.bias + f.mb + 1 < f.emaxField) :
    ∃ (q : Nat) (E : Int), decode f (ofRat f neg N 1) = .fin neg q E ∧ E ≤ 0 ∧ q = N * 2 ^ (-E).toNat := by
  have hM : 0 < 2 ^ f.mb := Nat.pos_of_ne_zero (by simp)
  have hre := roundExp_int_le_zero f N hN hlt hemin
  have hge := roundExp_ge f N 1
  have hsc2 : (scaled N 1 (roundExp f N 1)).2 = 1 := by
    unfold scaled
    split
    · rename_i h
      have : roundExp f N 1 = 0 := by omega
      simp [this]
    · rfl
  have hsc1 : (scaled N 1 (roundExp f N 1)).1 = N * 2 ^ (-(roundExp f N 1)).toNat := by
    unfold scaled
    split
    · rename_i h
      have : roundExp f N 1 = 0 := by omega
      simp [this]
    · rfl
  have hq : rne (scaled N 1 (roundExp f N 1)).1 (scaled N 1 (roundExp f N 1)).2 = N * 2 ^ (-(roundExp f N 1)).toNat := by
    rw [hsc2, hsc1]
    have := rne_exact (N * 2 ^ (-(roundExp f N 1)).toNat) 1 (by omega)
    simpa using this
  have hup := roundExp_upper f N 1 hN (by omega)
  rw [hsc2, hsc1, Nat.mul_one] at hup
  have hup' : N * 2 ^ (-(roundExp f N 1)).toNat < 2 * 2 ^ f.mb := by rw [Nat.pow_succ] at hup; omega
  have hshape := roundMag_shape f N 1 hN
  rw [hq] at hshape
  -- the exponent index
  have hemin_def : f.emin = 1 - (f.bias : Int) - (f.mb : Int) := rfl
  have hK : (roundExp f N 1 - f.emin).toNat + 1 < f.emaxField := by omega
  have hE : f.infBits = f.emaxField * 2 ^ f.mb := rfl
  have hx : (roundExp f N 1 - f.emin).toNat * 2 ^ f.mb + N * 2 ^ (-(roundExp f N 1)).toNat < f.infBits := by
    rw [hE]
    have : ((roundExp f N 1 - f.emin).toNat + 2) * 2 ^ f.mb ≤ f.emaxField * 2 ^ f.mb := Nat.mul_le_mul_right _ (by omega)
    have e : ((roundExp f N 1 - f.emin).toNat + 2) * 2 ^ f.mb = (roundExp f N 1 - f.emin).toNat * 2 ^ f.mb + 2 * 2 ^ f.mb := by ring
    omega
  refine ⟨N * 2 ^ (-(roundExp f N 1)).toNat, roundExp f N 1, ?_, hre, rfl⟩
  unfold ofRat
  rw [hshape, Nat.min_eq_left (Nat.le_of_lt hx), decode_withSign f neg _ (Nat.lt_trans hx (infBits_lt_signBit f))]
  by_cases hk0 : (roundExp f N 1 - f.emin).toNat = 0
  · have hree : roundExp f N 1 = f.emin := by omega
    rw [hk0]
    by_cases hsub : N * 2 ^ (-(roundExp f N 1)).toNat < 2 ^ f.mb
    · simp only [Nat.zero_mul, Nat.zero_add]
      rw [decode_encode_subnormal f _ hsub heb, hree]
    · rw [decode_encode_normal f 0 _ (by omega) hup' (by omega)]
      simp [hree]
  · have habove : f.emin < roundExp f N 1 := by omega
    have hlow := roundExp_lower f N 1 hN (by omega) habove
    rw [hsc2, hsc1, Nat.mul_one] at hlow
    rw [decode_encode_normal f _ _ hlow hup' hK]
    have : (((roundExp f N 1 - f.emin).toNat : Nat) : Int) + f.emin = roundExp f N 1 := by omega
    rw [this]



/-- a decoded finite magnitude has at most `mb+1` bits -/
theorem decode_fin_bound (f : Fmt) (b : Nat) (s : Bool) (m : Nat) (e : Int) (h : decode f b = .fin s m e) :
    m < 2 * 2 ^ f.mb := by
  have hM : 0 < 2 ^ f.mb := Nat.pos_of_ne_zero (by simp)
  have hmf : b % 2 ^ f.mb < 2 ^ f.mb := Nat.mod_lt _ hM
  unfold decode at h
  simp only at h
  split at h
  · split at h <;> cases h
  · split at h
    · injection h with _ h2 _; omega
    · injection h with _ h2 _; omega

/-- the integers `floor` / `ceil` / `round` choose for a non-integral finite value are small: at most `2^mb`, so
    `ofRat_int_exact` applies — the results are EXACTLY those integers -/
theorem integral_pick_small (f : Fmt) (b : Nat) (s : Bool) (m : Nat) (e : Int) (hb : decode f b = .fin s m e)
    (he : e < 0) (N : Nat) (hN : N ≤ m / 2 ^ (-e).toNat + 1) : N < 2 ^ (f.mb + 1) := by
  have hm := decode_fin_bound f b s m e hb
  have hM : 0 < 2 ^ f.mb := Nat.pos_of_ne_zero (by simp)
  have hd : 2 ≤ 2 ^ (-e).toNat := by
    have : 1 ≤ (-e).toNat := by omega
    calc 2 = 2 ^ 1 := rfl
      _ ≤ 2 ^ (-e).toNat := Nat.pow_le_pow_right (by omega) this
  have h1 : m / 2 ^ (-e).toNat ≤ m / 2 := Nat.div_le_div_left hd (by omega)
  rw [Nat.pow_succ]
  omega

end SoftFloat
