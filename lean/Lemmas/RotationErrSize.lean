import Lemmas.RotationErr
/-! C12: the size bound on a FAILING file system.  Core-only.

The size counter stays in step with the current file (`Track`) under every environment in which a failing `os.Stat` is
followed by a failing `os.OpenFile` (`StatTied`: the code ignores the Stat error and would otherwise append to a file
whose length it took for 0).  With the counter in step, every file after any history of failing and succeeding calls is
at most `MaxSize` long, or is a PREFIX of one record (a record longer than MaxSize in a file of its own, possibly cut
short by the file system), or an untouched initial file. -/
namespace Rot

/-- whenever `os.Stat(path)` fails, the `os.OpenFile(path)` that follows it fails too -/
def StatTied (env : Env) : Prop := ∀ t, env.fails t .stat = true → env.fails (t + 1) .openFile = true

theorem statTied_calm : StatTied Env.calm := fun _ h => by cases h

theorem openE_track (env : Env) (s : StE) (hst : StatTied env) (ht : Track s.st) :
    Track (openE env s).1.st ∧ ((openE env s).2 = none → (openE env s).1.st.isOpen = true) := by
  unfold openE
  by_cases ho : s.st.isOpen = true
  · rw [if_pos ho]; exact ⟨ht, fun _ => ho⟩
  · have hclosed : s.st.isOpen = false := by simpa using ho
    simp only [ho, if_false]
    by_cases hm : env.fails s.tick .mkdirAll = true
    · simp only [hm, if_true]
      exact ⟨ht, fun h => by cases h⟩
    · simp only [hm, if_false]
      by_cases hf : env.fails (s.tick + 2) .openFile = true
      · simp only [hf, if_true]
        refine ⟨fun h => ?_, fun h => by cases h⟩
        simp at h
      · simp only [hf, if_false]
        have hstat : env.fails (s.tick + 1) .stat = false := by
          cases hx : env.fails (s.tick + 1) .stat with
          | false => rfl
          | true => exact absurd (hst _ hx) hf
        simp only [hstat, Bool.false_eq_true, if_false]
        cases hc : s.st.files 0 with
        | none => exact ⟨fun _ => ⟨[], by simp [Files.set], rfl⟩, fun _ => rfl⟩
        | some c => exact ⟨fun _ => ⟨c, hc, rfl⟩, fun _ => rfl⟩

theorem mv_mem (f : Files) (a b j : Nat) (g : Bytes) (h : mv f a b j = some g) : ∃ i, f i = some g := by
  unfold mv at h
  cases ha : f a with
  | none => rw [ha] at h; exact ⟨j, h⟩
  | some c =>
    rw [ha] at h
    simp only [Files.set] at h
    by_cases h1 : j = a
    · simp [h1] at h
    · by_cases h2 : j = b
      · simp only [h1, h2, if_true, if_false] at h
        split at h
        · cases h
        · exact ⟨a, by rw [ha]; exact h⟩
      · simp only [h1, h2, if_false] at h; exact ⟨j, h⟩

theorem renameChainE_mem (env : Env) (m : Nat) : ∀ (f : Files) (t : Nat) (j : Nat) (g : Bytes),
    (renameChainE env f t m).1 j = some g → ∃ i, f i = some g := by
  induction m with
  | zero => intro f t j g h; exact ⟨j, h⟩
  | succ i ih =>
    intro f t j g h
    rw [renameChainE] at h
    split at h
    · exact ⟨j, h⟩
    · simp only [mvD_get] at h
      obtain ⟨i', hi'⟩ := ih _ _ j g h
      exact mv_mem f i (i + 1) i' g hi'

/-- every file after `rotate()` — completed or failed at any call — is a file that was there before -/
theorem rotateE_mem (cfg : Cfg) (env : Env) (s : StE) (j : Nat) (g : Bytes)
    (h : (rotateE cfg env s).1.st.files j = some g) : ∃ i, s.st.files i = some g := by
  obtain ⟨t0, _, hcases⟩ := rotateE_cases cfg env s
  have hset : ∀ (x j : Nat) (g : Bytes), (s.st.files.set x none) j = some g → ∃ i, s.st.files i = some g := by
    intro x j g h
    simp only [Files.set] at h
    split at h
    · cases h
    · exact ⟨j, h⟩
  have hchain : ∀ f2 t2 e,
      renameChainE env (s.st.files.set cfg.maxBackups none) (t0 + 1) cfg.maxBackups = (f2, t2, e) →
      f2 j = some g → ∃ i, s.st.files i = some g := by
    intro f2 t2 e hch hf
    have := renameChainE_mem env cfg.maxBackups (s.st.files.set cfg.maxBackups none) (t0 + 1) j g (by rw [hch]; exact hf)
    obtain ⟨i, hi⟩ := this
    exact hset _ i g hi
  rcases hcases with ⟨_, e, he⟩ | ⟨_, e, he⟩ | ⟨hb, he⟩ | ⟨hb, f2, t2, e, hch, he⟩ | ⟨hb, f2, t2, hch, he⟩
  · rw [he] at h; exact ⟨j, h⟩
  · rw [he] at h; exact ⟨j, h⟩
  · rw [he] at h; exact hset 0 j g h
  · rw [he] at h; exact hchain f2 t2 _ hch h
  · rw [he] at h; exact hchain f2 t2 _ hch h

theorem track_of_closed (s : St) (h : s.isOpen = false) : Track s := by
  intro ho; rw [h] at ho; cases ho

/-- one pass keeps the counter in step and every file within `Q`, where `Q` holds of short files and of every prefix of
    the record -/
theorem writeStepE_pred (cfg : Cfg) (env : Env) (s : StE) (b : Bytes) (hst : StatTied env) (ht : Track s.st)
    (Q : Bytes → Prop) (hsmall : ∀ f : Bytes, f.length ≤ cfg.maxSize → Q f) (hb : ∀ n, Q (b.take n))
    (hs : ∀ i f, s.st.files i = some f → Q f) :
    Track (writeStepE cfg env s b).ste.st ∧ ∀ i f, (writeStepE cfg env s b).ste.st.files i = some f → Q f := by
  obtain ⟨hto, hopen⟩ := openE_track env s hst ht
  have hso : ∀ i f, (openE env s).1.st.files i = some f → Q f := by
    intro i f h
    rcases openE_files env s with he | ⟨_, he⟩
    · rw [he] at h; exact hs i f h
    · rw [he] at h
      simp only [Files.set] at h
      split at h
      · cases h; exact hsmall [] (Nat.zero_le _)
      · exact hs i f h
  unfold writeStepE
  rcases ho : openE env s with ⟨so, eo⟩
  rw [ho] at hto hopen hso
  simp only at hto hopen hso
  cases eo with
  | some e => exact ⟨hto, hso⟩
  | none =>
    simp only
    have hop := hopen rfl
    obtain ⟨c, hc, hsz⟩ := hto hop
    by_cases hcond : so.st.size > 0 ∧ so.st.size + b.length > cfg.maxSize
    · simp only [hcond, and_self, if_true]
      have hcl := rotateE_closed cfg env so
      have hmem := rotateE_mem cfg env so
      rcases hr : rotateE cfg env so with ⟨s2, e2⟩
      rw [hr] at hcl hmem
      simp only at hcl hmem
      have hq : ∀ i f, s2.st.files i = some f → Q f := by
        intro i f h
        obtain ⟨i', hi'⟩ := hmem i f h
        exact hso i' f hi'
      cases e2 with
      | some e => exact ⟨track_of_closed _ hcl, hq⟩
      | none => exact ⟨track_of_closed _ hcl, hq⟩
    · simp only [hcond, if_false, StepE.ste]
      have key : ∀ n, n ≤ b.length →
          Track { files := so.st.files.set 0 (some ((so.st.files 0).getD [] ++ b.take n)), isOpen := so.st.isOpen,
                  size := so.st.size + n } ∧
          ∀ i f, (so.st.files.set 0 (some ((so.st.files 0).getD [] ++ b.take n))) i = some f → Q f := by
        intro n hn
        refine ⟨fun _ => ⟨c ++ b.take n, by simp [Files.set, hc], ?_⟩, ?_⟩
        · simp only [List.length_append, hsz, List.length_take]; omega
        · intro i f h
          simp only [Files.set] at h
          split at h
          · rw [hc] at h
            simp only [Option.getD_some, Option.some.injEq] at h
            subst h
            by_cases hz : c.length = 0
            · have : c = [] := List.eq_nil_of_length_eq_zero hz
              rw [this, List.nil_append]; exact hb n
            · apply hsmall
              have hlt : (b.take n).length ≤ b.length := by rw [List.length_take]; exact Nat.min_le_right _ _
              simp only [List.length_append]
              have : ¬ (so.st.size + b.length > cfg.maxSize) := fun h2 => hcond ⟨by omega, h2⟩
              omega
          · exact hso i f h
      cases env.wr so.tick (content so.st.files 0).length b.length with
      | none => exact key _ (Nat.le_refl _)
      | some k => exact key _ (Nat.min_le_right _ _)

theorem writeE_pred (cfg : Cfg) (env : Env) (s : StE) (b : Bytes) (hst : StatTied env) (ht : Track s.st)
    (Q : Bytes → Prop) (hsmall : ∀ f : Bytes, f.length ≤ cfg.maxSize → Q f) (hb : ∀ n, Q (b.take n))
    (hs : ∀ i f, s.st.files i = some f → Q f) :
    Track (writeE cfg env s b).s.st ∧ ∀ i f, (writeE cfg env s b).s.st.files i = some f → Q f := by
  have h1 := writeStepE_pred cfg env s b hst ht Q hsmall hb hs
  unfold writeE
  cases hw : writeStepE cfg env s b with
  | ret s' n e => rw [hw] at h1; exact h1
  | again s1 =>
    rw [hw] at h1
    simp only
    have h2 := writeStepE_pred cfg env s1 b hst h1.1 Q hsmall hb h1.2
    cases hw2 : writeStepE cfg env s1 b with
    | ret s' n e => rw [hw2] at h2; exact h2
    | again s2 => rw [hw2] at h2; exact h2

theorem applyE_track (cfg : Cfg) (env : Env) (s : StE) (o : Op) (h : ∀ b, o ≠ .write b) (ht : Track s.st) :
    Track (applyE cfg env s o).s.st := by
  cases o with
  | write b => exact absurd rfl (h b)
  | close =>
    simp only [applyE, closeE]
    split
    · exact track_close _
    · exact ht
  | reopen => simp only [applyE, reopenE]; exact track_fresh _
  | sync =>
    simp only [applyE, syncE]
    split
    · exact ht
    · exact ht

/-- **size bound under failures**, for an arbitrary predicate `Q` that holds of short files and of every prefix of
    every record written -/
theorem runE_pred (cfg : Cfg) (env : Env) (hst : StatTied env) (Q : Bytes → Prop)
    (hsmall : ∀ f : Bytes, f.length ≤ cfg.maxSize → Q f) (ops : List Op) : ∀ s : StE, Track s.st →
    (∀ w ∈ writesOf ops, ∀ n, Q (w.take n)) → (∀ i f, s.st.files i = some f → Q f) →
    Track (runE cfg env s ops).st ∧ ∀ i f, (runE cfg env s ops).st.files i = some f → Q f := by
  induction ops with
  | nil => intro s ht _ hs; exact ⟨ht, hs⟩
  | cons o os ih =>
    intro s ht hw hs
    simp only [runE]
    cases o with
    | write b =>
      obtain ⟨t1, q1⟩ := writeE_pred cfg env s b hst ht Q hsmall (hw b (by simp [writesOf])) hs
      exact ih _ t1 (fun w h => hw w (by simp [writesOf, h])) q1
    | close =>
      refine ih _ (applyE_track cfg env s .close (fun b h => by cases h) ht)
        (fun w h => hw w (by simpa [writesOf] using h)) ?_
      rw [applyE_files cfg env s .close (fun b h => by cases h)]; exact hs
    | reopen =>
      refine ih _ (applyE_track cfg env s .reopen (fun b h => by cases h) ht)
        (fun w h => hw w (by simpa [writesOf] using h)) ?_
      rw [applyE_files cfg env s .reopen (fun b h => by cases h)]; exact hs
    | sync =>
      refine ih _ (applyE_track cfg env s .sync (fun b h => by cases h) ht)
        (fun w h => hw w (by simpa [writesOf] using h)) ?_
      rw [applyE_files cfg env s .sync (fun b h => by cases h)]; exact hs

end Rot
