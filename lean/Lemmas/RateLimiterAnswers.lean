import Lemmas.RateLimiterFifo
/-! Why answers are given (no spurious error for a queued request), the redundancy of the ticker's root guard, and which
    steps may change the state the controller's lock guards.  Core Lean. -/
namespace RL

/-- every answer of the service loop belongs to a request of the queue and has its cause in the state the loop sees -/
theorem service_answer_cause (cap : Nat → Nat) (chain : Nat → List Nat) (closed : Nat → Bool) (p : Nat)
    (used : Nat → Nat) (w : List Req) (id : Nat) (a : Ans) (h : (id, a) ∈ (service cap chain closed p used w).answers) :
    ∃ r ∈ w, r.id = id ∧ ((a = .ok ∧ closed r.lim = false ∧ r.amt ≤ effCap cap (chain r.lim) (cap r.lim)) ∨
      (a = .errClosed ∧ closed r.lim = true) ∨
      (a = .errCap ∧ closed r.lim = false ∧ r.amt > effCap cap (chain r.lim) (cap r.lim))) := by
  induction w generalizing used with
  | nil => simp [service] at h
  | cons r rs ih =>
    have lift : ∀ u, (id, a) ∈ (service cap chain closed p u rs).answers → ∃ r' ∈ r :: rs, r'.id = id ∧
        ((a = .ok ∧ closed r'.lim = false ∧ r'.amt ≤ effCap cap (chain r'.lim) (cap r'.lim)) ∨
        (a = .errClosed ∧ closed r'.lim = true) ∨
        (a = .errCap ∧ closed r'.lim = false ∧ r'.amt > effCap cap (chain r'.lim) (cap r'.lim))) := by
      intro u hu
      obtain ⟨r', hr', x⟩ := ih u hu
      exact ⟨r', List.mem_cons_of_mem _ hr', x⟩
    unfold service at h
    split at h
    · rename_i hc
      rcases List.mem_cons.mp h with e | e
      · obtain ⟨e1, e2⟩ := Prod.mk.inj e
        exact ⟨r, List.mem_cons_self, e1.symm, Or.inr (Or.inl ⟨e2, hc⟩)⟩
      · exact lift used e
    · rename_i hc
      have hc : closed r.lim = false := by simpa using hc
      split at h
      · rename_i hb
        rcases List.mem_cons.mp h with e | e
        · obtain ⟨e1, e2⟩ := Prod.mk.inj e
          exact ⟨r, List.mem_cons_self, e1.symm, Or.inr (Or.inr ⟨e2, hc, hb⟩)⟩
        · exact lift used e
      · rename_i hb
        split at h
        · rcases List.mem_cons.mp h with e | e
          · obtain ⟨e1, e2⟩ := Prod.mk.inj e
            exact ⟨r, List.mem_cons_self, e1.symm, Or.inl ⟨e2, hc, by omega⟩⟩
          · exact lift _ e
        · exact lift used h

/-- a request number occurs once in a queue that is in arrival order -/
theorem queue_id_inj (w : List Req) (hs : w.Pairwise (fun a b => a.id < b.id)) (r r' : Req) (hr : r ∈ w) (hr' : r' ∈ w)
    (e : r.id = r'.id) : r = r' := by
  induction w with
  | nil => cases hr
  | cons x xs ih =>
    obtain ⟨h1, h2⟩ := List.pairwise_cons.mp hs
    rcases List.mem_cons.mp hr with a | a <;> rcases List.mem_cons.mp hr' with b | b
    · rw [a, b]
    · subst a; have := h1 r' b; omega
    · subst b; have := h1 r a; omega
    · exact ih h2 a b

/-- a queued request has no answer yet -/
theorem queued_not_answered {c : Nat} {s : S} (h : Reachable c s) (r : Req) (hr : r ∈ s.waiting) (a : Ans) :
    (r.id, a) ∉ s.answered := by
  intro hin
  have e := exactlyOnce h r.id
  have h1 : 0 < (s.waiting.map (·.id)).count r.id := List.count_pos_iff.mpr (List.mem_map.mpr ⟨r, hr, rfl⟩)
  have h2 : 0 < (s.answered.map (·.1)).count r.id := List.count_pos_iff.mpr (List.mem_map.mpr ⟨(r.id, a), hin, rfl⟩)
  unfold ids at e
  rw [List.count_append] at e
  split at e <;> omega

/-- **no spurious answer to a queued request**: whatever step — of any goroutine — answers a request that is in the queue,
    the answer is nil, or "closed" with its limiter closed at that moment, or the cap error with its limiter open and
    its amount above the smallest capacity then in force along its chain -/
theorem queued_answer_cause {c : Nat} {s s' : S} (h : Reachable c s) (st : Step s s') (r : Req) (hr : r ∈ s.waiting)
    (a : Ans) (ha : (r.id, a) ∈ s'.answered) :
    (a = .ok ∧ s.closed r.lim = false ∧ r.amt ≤ effCap s.cap (s.chain r.lim) (s.cap r.lim)) ∨
    (a = .errClosed ∧ s.closed r.lim = true) ∨
    (a = .errCap ∧ s.closed r.lim = false ∧ r.amt > effCap s.cap (s.chain r.lim) (s.cap r.lim)) := by
  have notin := queued_not_answered h r hr a
  have fresh : ∀ x, (r.id, a) ∈ (s.nextReq, x) :: s.answered → False := by
    intro x hx
    rcases List.mem_cons.mp hx with e | e
    · have := (Prod.mk.inj e).1
      have := (queueOk h r hr).2.2
      omega
    · exact notin e
  cases st with
  | useNeg => exact (fresh _ ha).elim
  | useClosed => exact (fresh _ ha).elim
  | useZero => exact (fresh _ ha).elim
  | useTooBig => exact (fresh _ ha).elim
  | useGrant => exact (fresh _ ha).elim
  | tickRuns h1 h0 =>
    have ha : (r.id, a) ∈ (service s.cap s.chain s.closed (s.ticks + 1) (fun x => if resets s x then 0 else s.used x)
        s.waiting).answers ++ s.answered := ha
    rcases List.mem_append.mp ha with e | e
    · obtain ⟨r', hr', hid, hcause⟩ := service_answer_cause _ _ _ _ _ _ _ _ e
      have : r' = r := queue_id_inj _ (queue_sorted h) r' r hr' hr hid
      subst this
      exact hcause
    · exact absurd e notin
  | drain h1 h0 =>
    have ha : (r.id, a) ∈ s.waiting.map (fun r => (r.id, Ans.errClosed)) ++ s.answered := ha
    rcases List.mem_append.mp ha with e | e
    · obtain ⟨r', _, e'⟩ := List.mem_map.mp e
      have := (Prod.mk.inj e').2
      exact Or.inr (Or.inl ⟨this.symm, allClosed h (Or.inr (Or.inr (Or.inr (Or.inl h1)))) r.lim⟩)
    · exact absurd e notin
  | _ => exact absurd ha notin

/-! ### the ticker's guard `c.root.capacity-c.root.used > 0` is implied by the test that follows it -/

/-- the service loop WITHOUT the root guard (`seeded/control-ind6-c16` drops it) -/
def serviceNG (cap : Nat → Nat) (chain : Nat → List Nat) (closed : Nat → Bool) (period : Nat) :
    (Nat → Nat) → List Req → Svc
  | used, [] => ⟨used, [], [], []⟩
  | used, r :: rs =>
    if closed r.lim then
      let t := serviceNG cap chain closed period used rs
      { t with answers := (r.id, .errClosed) :: t.answers }
    else if r.amt > effCap cap (chain r.lim) (cap r.lim) then
      let t := serviceNG cap chain closed period used rs
      { t with answers := (r.id, .errCap) :: t.answers }
    else if fits cap used (chain r.lim) r.amt = true then
      let t := serviceNG cap chain closed period (charge used (chain r.lim) r.amt) rs
      { t with answers := (r.id, .ok) :: t.answers, grants := ⟨r.id, r.lim, chain r.lim, r.amt, period⟩ :: t.grants }
    else
      let t := serviceNG cap chain closed period used rs
      { t with waiting := r :: t.waiting }

theorem service_guard_redundant (cap : Nat → Nat) (chain : Nat → List Nat) (closed : Nat → Bool) (p : Nat)
    (used : Nat → Nat) (w : List Req) (hw : ∀ r ∈ w, 0 < r.amt ∧ 0 ∈ chain r.lim) :
    service cap chain closed p used w = serviceNG cap chain closed p used w := by
  induction w generalizing used with
  | nil => simp [service, serviceNG]
  | cons r rs ih =>
    have ih' : ∀ u, service cap chain closed p u rs = serviceNG cap chain closed p u rs :=
      fun u => ih u (fun r' hr' => hw r' (List.mem_cons_of_mem _ hr'))
    obtain ⟨hpos, hroot⟩ := hw r List.mem_cons_self
    have e : (used 0 < cap 0 ∧ fits cap used (chain r.lim) r.amt = true) ↔ fits cap used (chain r.lim) r.amt = true := by
      constructor
      · exact fun h => h.2
      · intro hf
        have := (fits_iff cap used _ _).mp hf 0 hroot
        exact ⟨by omega, hf⟩
    unfold service serviceNG
    by_cases hf : fits cap used (chain r.lim) r.amt = true
    · have hg : used 0 < cap 0 ∧ fits cap used (chain r.lim) r.amt = true := e.mpr hf
      simp only [ih', hg, and_self, if_true]
    · have hf : fits cap used (chain r.lim) r.amt = false := by simpa using hf
      simp [ih', hf]

/-! ### which steps change the state guarded by `controller.lock` -/

/-- the fields of the Go structs that the lock guards (`waiting`; per limiter `children`/`parent` = `chain` and
    `unlinked`, `capacity`, `used`, `last`, `closed`; the number of limiters) are the same in both states -/
def GuardedEq (s s' : S) : Prop :=
  s'.n = s.n ∧ s'.cap = s.cap ∧ s'.chain = s.chain ∧ s'.used = s.used ∧ s'.last = s.last ∧ s'.closed = s.closed ∧
  s'.unlinked = s.unlinked ∧ s'.waiting = s.waiting

/-- a step leaves the guarded state alone, or it is taken by the goroutine that holds the lock: the ticker goroutine in one
    of its two critical sections, the goroutine in root `Close` between `Lock()` and `close()`, or the API holder -/
theorem guarded_change {s s' : S} (st : Step s s') :
    GuardedEq s s' ∨ (s.holder = .ticker ∧ (s.tpc = .tcrit ∨ s.tpc = .dcrit)) ∨ (s.holder = .closer ∧ s.cpc = .crit) ∨
    s.holder = .api := by
  cases st with
  | useNeg => exact Or.inl ⟨rfl, rfl, rfl, rfl, rfl, rfl, rfl, rfl⟩
  | apiLock => exact Or.inl ⟨rfl, rfl, rfl, rfl, rfl, rfl, rfl, rfl⟩
  | apiRead h => exact Or.inr (Or.inr (Or.inr h))
  | useClosed l hl h0 => exact Or.inr (Or.inr (Or.inr h0))
  | useZero l hl h0 => exact Or.inr (Or.inr (Or.inr h0))
  | useTooBig l amt hl h0 => exact Or.inr (Or.inr (Or.inr h0))
  | useGrant l amt hl ha h0 => exact Or.inr (Or.inr (Or.inr h0))
  | useWait l amt hl ha h0 => exact Or.inr (Or.inr (Or.inr h0))
  | newChild p c hp h0 => exact Or.inr (Or.inr (Or.inr h0))
  | closeChild l hl hr h0 => exact Or.inr (Or.inr (Or.inr h0))
  | setCap l c hl h0 => exact Or.inr (Or.inr (Or.inr h0))
  | closeLock => exact Or.inl ⟨rfl, rfl, rfl, rfl, rfl, rfl, rfl, rfl⟩
  | closeRoot h0 h1 h2 => exact Or.inr (Or.inr (Or.inl ⟨h0, h2⟩))
  | closeSkip => exact Or.inl ⟨rfl, rfl, rfl, rfl, rfl, rfl, rfl, rfl⟩
  | closeUnlock => exact Or.inl ⟨rfl, rfl, rfl, rfl, rfl, rfl, rfl, rfl⟩
  | tickFires => exact Or.inl ⟨rfl, rfl, rfl, rfl, rfl, rfl, rfl, rfl⟩
  | tickLock => exact Or.inl ⟨rfl, rfl, rfl, rfl, rfl, rfl, rfl, rfl⟩
  | tickRuns h1 h0 => exact Or.inr (Or.inl ⟨h0, Or.inl h1⟩)
  | tickUnlock => exact Or.inl ⟨rfl, rfl, rfl, rfl, rfl, rfl, rfl, rfl⟩
  | doneReceived => exact Or.inl ⟨rfl, rfl, rfl, rfl, rfl, rfl, rfl, rfl⟩
  | drainLock => exact Or.inl ⟨rfl, rfl, rfl, rfl, rfl, rfl, rfl, rfl⟩
  | drain h1 h0 => exact Or.inr (Or.inl ⟨h0, Or.inr h1⟩)
  | drainUnlock => exact Or.inl ⟨rfl, rfl, rfl, rfl, rfl, rfl, rfl, rfl⟩

/-- a limiter is no longer reached by `root.reset()` iff it or one of its ancestors was unlinked by its own `Close` -/
theorem resets_false_iff (s : S) (x : Nat) : resets s x = false ↔ ∃ y ∈ s.chain x, s.unlinked y = true := by
  simp [resets, List.all_eq_false]

/-- the effective cap is attained: it is the own capacity or the capacity of a limiter of the chain -/
theorem effCap_attained (cap : Nat → Nat) (ch : List Nat) (own : Nat) :
    effCap cap ch own = own ∨ ∃ x ∈ ch, effCap cap ch own = cap x := by
  unfold effCap
  induction ch generalizing own with
  | nil => exact Or.inl rfl
  | cons y ys ih =>
    simp only [List.foldl_cons]
    rcases ih (min own (cap y)) with h | ⟨x, hx, h⟩
    · rw [h]
      rcases Nat.le_total own (cap y) with h' | h'
      · exact Or.inl (Nat.min_eq_left h')
      · exact Or.inr ⟨y, List.mem_cons_self, Nat.min_eq_right h'⟩
    · exact Or.inr ⟨x, List.mem_cons_of_mem _ hx, h⟩

end RL
