import Lemmas.FixedTextLaws
import Generated.Facts
/-! C04 helper lemmas, part 9: what integer-target CheckedAs accepts, in closed form, for the sixteen configurations of
    the source and the eight (width, signedness) pairs of Go's integer types.  The proofs run over the literal table:
    with the multiplier a numeral everything is linear and `omega` decides it after the case split
    "the integer part fits the target / it does not". -/
namespace FixedText

/-- the distinct (width, signedness) pairs of the eleven integer target types -/
def signedTargets : List Target := [⟨8, true⟩, ⟨16, true⟩, ⟨32, true⟩, ⟨64, true⟩]
def narrowUnsignedTargets : List Target := [⟨8, false⟩, ⟨16, false⟩, ⟨32, false⟩]
def unsignedTargets : List Target := [⟨8, false⟩, ⟨16, false⟩, ⟨32, false⟩, ⟨64, false⟩]

/-- the value `n` lies in the range of the target type -/
def inRange (t : Target) (n : Int) : Prop :=
  if t.signed then -(2^(t.bits - 1)) ≤ n ∧ n < 2^(t.bits - 1) else 0 ≤ n ∧ n < 2^t.bits

theorem pos_of_config : ∀ c ∈ Facts.fixedConfigs, (0 : Int) < c.2 := by decide

/-! ### f64 -/

/-- signed targets: success ⇔ the value is the whole number `n` and `n` fits the target -/
theorem checkedAs64_signed : ∀ c ∈ Facts.fixedConfigs, ∀ t ∈ signedTargets, ∀ raw n : Int, fits64 raw = true →
    (checkedAs64 c.2 t raw = some n ↔ raw = n * c.2 ∧ inRange t n) := by
  intro c hc t ht raw n hr
  have hpos := pos_of_config c hc
  obtain ⟨h1, h2, h3, h4, h5⟩ := tdiv_facts raw c.2 hpos
  simp only [fits64, Bool.and_eq_true, decide_eq_true_eq] at hr
  unfold checkedAs64 as64 from64 conv wrap64 inRange
  generalize raw.tdiv c.2 = q at *
  generalize raw.tmod c.2 = r at *
  simp only [Facts.fixedConfigs, List.mem_cons, List.not_mem_nil, or_false] at hc
  simp only [signedTargets, List.mem_cons, List.not_mem_nil, or_false] at ht
  rcases hc with rfl | rfl | rfl | rfl | rfl | rfl | rfl | rfl | rfl | rfl | rfl | rfl | rfl | rfl | rfl | rfl <;>
  rcases ht with rfl | rfl | rfl | rfl <;>
  simp only [if_true, ne_eq, ite_not] at * <;>
  (constructor
   · intro hh
     split at hh
     · rename_i hf
       cases hh
       first
       | omega
       | (by_cases hA : -(2^7) ≤ q ∧ q < 2^7 <;> omega)
       | (by_cases hA : -(2^15) ≤ q ∧ q < 2^15 <;> omega)
       | (by_cases hA : -(2^31) ≤ q ∧ q < 2^31 <;> omega)
     · cases hh
   · rintro ⟨rfl, hn⟩
     have hq : q = n := by omega
     subst hq
     rw [if_pos (by omega)]
     congr 1
     omega)

end FixedText
