import Lemmas.FixedTextLaws
import Generated.Facts
/-! C04 helper lemmas, part 9: what integer-target CheckedAs accepts, in closed form. -/
namespace FixedText

/-- the distinct (width, signedness) pairs of the eleven integer target types -/
def signedTargets : List Target := [⟨8, true⟩, ⟨16, true⟩, ⟨32, true⟩, ⟨64, true⟩]
def narrowUnsignedTargets : List Target := [⟨8, false⟩, ⟨16, false⟩, ⟨32, false⟩]
def allTargets : List Target := signedTargets ++ narrowUnsignedTargets ++ [⟨64, false⟩]

/-- the value `n` lies in the range of the target type -/
def inRange (t : Target) (n : Int) : Prop :=
  if t.signed then -(2^(t.bits - 1)) ≤ n ∧ n < 2^(t.bits - 1) else 0 ≤ n ∧ n < 2^t.bits

/-! ### the arithmetic core (multiplier a variable, products as atoms) -/

/-- target range `[lo, hi)` with `0 ≤ hi ≤ 2^63`, `-2^63 ≤ lo ≤ 0`; `n` is in it and equals the integer part `q` whenever
    `q` is in it; `n·m ≡ raw (mod 2^64)`.  If `q` lies outside on the positive side, or on the negative side of a
    SIGNED-style range (`lo = -hi`), the congruence is impossible; hence `raw = n·m`. -/
theorem core_exact (m raw q r n lo hi : Int) (hm : 0 < m) (hm64 : m < 2^63)
    (hr : -(2^63) ≤ raw ∧ raw < 2^63)
    (h1 : raw = m * q + r) (h2 : -m < r) (h3 : r < m)
    (h4 : 0 ≤ raw → 0 ≤ r ∧ 0 ≤ q) (h5 : raw ≤ 0 → r ≤ 0 ∧ q ≤ 0)
    (hlo : lo = -hi ∨ (lo = 0 ∧ 0 ≤ raw)) (hhi : 0 < hi ∧ hi ≤ 2^63)
    (hn : lo ≤ n ∧ n < hi) (hnq : (lo ≤ q ∧ q < hi) → n = q)
    (hf : ∃ j : Int, n * m - raw = j * 2^64) : raw = n * m := by
  obtain ⟨j, hj⟩ := hf
  by_cases hA : lo ≤ q ∧ q < hi
  · have := hnq hA
    subst this
    have : n * m = m * n := Int.mul_comm _ _
    omega
  · exfalso
    have hX1 : lo * m ≤ n * m := Int.mul_le_mul_of_nonneg_right hn.1 (by omega)
    have hX2 : n * m < hi * m := Int.mul_lt_mul_of_pos_right hn.2 hm
    have hY : q * m = m * q := Int.mul_comm _ _
    by_cases hq : hi ≤ q
    · have hZ : hi * m ≤ q * m := Int.mul_le_mul_of_nonneg_right hq (by omega)
      have hraw : 0 ≤ raw := by
        by_cases hh : 0 ≤ raw
        · exact hh
        · have := (h5 (by omega)).2; omega
      have := h4 hraw
      have hlm : -(hi * m) ≤ lo * m := by
        rcases hlo with h | h
        · rw [h, Int.neg_mul]
        · rw [h.1, Int.zero_mul]
          have : 0 ≤ hi * m := Int.mul_nonneg (by omega) (by omega)
          omega
      omega
    · have hq' : q < lo := by omega
      rcases hlo with h | h
      · -- signed style: lo = -hi
        have hZ : q * m < lo * m := Int.mul_lt_mul_of_pos_right hq' hm
        have hraw : raw ≤ 0 := by
          by_cases hh : raw ≤ 0
          · exact hh
          · have := (h4 (by omega)).2; omega
        have := h5 hraw
        have hlm : lo * m = -(hi * m) := by rw [h, Int.neg_mul]
        omega
      · have := (h4 h.2).2; omega

/-! ### f64 -/

theorem config_bounds : ∀ c ∈ Facts.fixedConfigs, (0 : Int) < c.2 ∧ c.2 < 2^54 := by decide

/-- `conv` of a signed target with half-range `B` -/
theorem conv_signed (t : Target) (ht : t ∈ signedTargets) :
    ∃ B : Int, 0 < B ∧ B ≤ 2^63 ∧ (2:Int)^(t.bits - 1) = B ∧ ∀ z, conv t z = (z + B) % (2 * B) - B := by
  simp only [signedTargets, List.mem_cons, List.not_mem_nil, or_false] at ht
  rcases ht with rfl | rfl | rfl | rfl
  · exact ⟨2^7, by omega, by omega, rfl, fun z => by simp [conv]⟩
  · exact ⟨2^15, by omega, by omega, rfl, fun z => by simp [conv]⟩
  · exact ⟨2^31, by omega, by omega, rfl, fun z => by simp [conv]⟩
  · exact ⟨2^63, by omega, by omega, rfl, fun z => by simp [conv]⟩

theorem emod_range (z B : Int) (hB : 0 < B) :
    -B ≤ (z + B) % (2 * B) - B ∧ (z + B) % (2 * B) - B < B ∧ ((-B ≤ z ∧ z < B) → (z + B) % (2 * B) - B = z) := by
  have h1 := Int.emod_nonneg (z + B) (show 2 * B ≠ 0 by omega)
  have h2 := Int.emod_lt_of_pos (z + B) (show 0 < 2 * B by omega)
  refine ⟨by omega, by omega, fun h => ?_⟩
  rw [Int.emod_eq_of_lt (by omega) (by omega)]; omega

/-- signed targets: success ⇔ the value is the whole number `n` and `n` fits the target -/
theorem checkedAs64_signed (m : Int) (hm : 0 < m) (hm54 : m < 2^54) (t : Target) (ht : t ∈ signedTargets)
    (raw n : Int) (hr : fits64 raw = true) :
    checkedAs64 m t raw = some n ↔ raw = n * m ∧ inRange t n := by
  obtain ⟨h1, h2, h3, h4, h5⟩ := tdiv_facts raw m hm
  obtain ⟨B, hB0, hB63, hBp, hconv⟩ := conv_signed t ht
  have hsg : t.signed = true := by
    simp only [signedTargets, List.mem_cons, List.not_mem_nil, or_false] at ht
    rcases ht with rfl | rfl | rfl | rfl <;> rfl
  simp only [fits64, Bool.and_eq_true, decide_eq_true_eq] at hr
  unfold checkedAs64 as64 from64 inRange
  simp only [ne_eq, ite_not, hsg, if_true, hBp, hconv]
  generalize hq : raw.tdiv m = q at *
  generalize hrr : raw.tmod m = r at *
  obtain ⟨e1, e2, e3⟩ := emod_range q B hB0
  generalize hnn : (q + B) % (2 * B) - B = n' at *
  constructor
  · intro hh
    split at hh
    · rename_i hf
      cases hh
      have hc := wrap64_cong (wrap64 n * m)
      rw [hf] at hc
      obtain ⟨k, hk⟩ := hc
      have hw : wrap64 n = n := by unfold wrap64; omega
      rw [hw] at hk
      exact ⟨core_exact m raw q r n (-B) B hm (by omega) hr h1 h2 h3 h4 h5 (Or.inl rfl)
        (by omega) (by omega) e3 ⟨-k, by omega⟩, by omega⟩
    · cases hh
  · rintro ⟨hraw, hn⟩
    have hqn : q = n := by
      have : raw.tdiv m = n := by rw [hraw]; exact Int.mul_tdiv_cancel _ (by omega)
      rw [hq] at this; exact this
    subst hqn
    have hcv : n' = q := (e3 hn).symm ▸ rfl
    have hw : wrap64 q = q := by unfold wrap64; omega
    rw [hcv, hw, ← hraw, wrap64_of_fits raw (by simp [fits64]; omega)]
    simp

/-- `uint64` / `uint` / `uintptr`: f64 converts back through `int64(n)`, so the test only sees the value modulo 2^64:
    success ⇔ the value is a whole number — of EITHER sign; a negative whole number `q` is returned as `q + 2^64` -/
theorem checkedAs64_u64 (m : Int) (hm : 0 < m) (hm54 : m < 2^54) (raw n : Int) (hr : fits64 raw = true) :
    checkedAs64 m ⟨64, false⟩ raw = some n ↔ raw.tmod m = 0 ∧ n = (raw.tdiv m) % 2^64 := by
  obtain ⟨h1, h2, h3, h4, h5⟩ := tdiv_facts raw m hm
  unfold checkedAs64 as64 from64
  simp only [ne_eq, ite_not, conv, Bool.false_eq_true, if_false]
  generalize hq : raw.tdiv m = q at *
  generalize hrr : raw.tmod m = r at *
  have hcq : C64 (wrap64 (q % 2^64) * m) (q * m) := by
    apply C64.mul
    refine C64.trans (C64.wrap _) ⟨-(q / 2^64), ?_⟩
    have := Int.emod_add_mul_ediv q (2^64)
    omega
  have hqm : q * m = m * q := Int.mul_comm _ _
  constructor
  · intro hh
    split at hh
    · rename_i hf
      cases hh
      refine ⟨?_, rfl⟩
      obtain ⟨k1, hk1⟩ := wrap64_cong (wrap64 (q % 2^64) * m)
      obtain ⟨k2, hk2⟩ := hcq
      rw [hf] at hk1
      omega
    · cases hh
  · rintro ⟨hr0, rfl⟩
    rw [if_pos]
    apply C64.wrap_eq hr
    rw [show raw = q * m by omega]
    exact hcq

/-- the one arithmetic fact about the table that the narrow unsigned targets need: `2^w · mult` either stays below 2^63
    or is, modulo 2^64, further than `mult` away from the next multiple of 2^64 -/
theorem narrow_table : ∀ c ∈ Facts.fixedConfigs, ∀ W ∈ [(2:Int)^8, 2^16, 2^32],
    W * c.2 ≤ 2^63 ∨ (0 < (W * c.2) % 2^64 ∧ (W * c.2) % 2^64 + c.2 ≤ 2^64) := by decide

/-- a negative value is never accepted by a narrow unsigned target -/
theorem narrow_neg_reject (m W raw q r n : Int) (hm : 0 < m) (hW : 0 < W ∧ W ≤ 2^32)
    (hr : -(2^63) ≤ raw ∧ raw < 0) (h1 : raw = m * q + r) (h2 : -m < r) (hq0 : q ≤ 0) (hr0 : r ≤ 0)
    (hn : n = q % W)
    (htab : W * m ≤ 2^63 ∨ (0 < (W * m) % 2^64 ∧ (W * m) % 2^64 + m ≤ 2^64))
    (hf : ∃ j : Int, n * m - raw = j * 2^64) : False := by
  obtain ⟨j, hj⟩ := hf
  have hn0 := Int.emod_nonneg q (show W ≠ 0 by omega)
  have hnW := Int.emod_lt_of_pos q hW.1
  rw [← hn] at hn0 hnW
  have hX0 : 0 ≤ n * m := Int.mul_nonneg hn0 (by omega)
  have hXW : n * m < W * m := Int.mul_lt_mul_of_pos_right hnW hm
  rcases htab with ht | ht
  · omega
  · by_cases hZ : W * m ≤ 2^63
    · omega
    · -- the integer part is small: -W < q
      have hqm : q * m = m * q := Int.mul_comm _ _
      have hlt : (-q) * m < W * m := by rw [Int.neg_mul]; omega
      have hqW : -q < W := Int.lt_of_mul_lt_mul_right hlt (by omega)
      by_cases hqz : q = 0
      · subst hqz
        have : n = 0 := by rw [hn]; simp
        subst this
        omega
      · have hnq : n = q + W := by
          rw [hn, ← Int.add_emod_right q W, Int.emod_eq_of_lt (by omega) (by omega)]
        have : n * m = q * m + W * m := by rw [hnq, Int.add_mul]
        omega

/-- `uint8` / `uint16` / `uint32`: success ⇔ the value is the whole number `n` and `0 ≤ n < 2^w` -/
theorem checkedAs64_narrow : ∀ c ∈ Facts.fixedConfigs, ∀ t ∈ narrowUnsignedTargets, ∀ raw n : Int, fits64 raw = true →
    (checkedAs64 c.2 t raw = some n ↔ raw = n * c.2 ∧ inRange t n) := by
  intro c hc t ht raw n hr
  obtain ⟨hm, hm54⟩ := config_bounds c hc
  generalize hmm : c.2 = m at *
  obtain ⟨h1, h2, h3, h4, h5⟩ := tdiv_facts raw m hm
  -- the target as a modulus W
  have hWt : ∃ W : Int, W ∈ [(2:Int)^8, 2^16, 2^32] ∧ t.signed = false ∧ (2:Int)^t.bits = W ∧ ∀ z, conv t z = z % W := by
    simp only [narrowUnsignedTargets, List.mem_cons, List.not_mem_nil, or_false] at ht
    rcases ht with rfl | rfl | rfl
    · exact ⟨2^8, by simp, rfl, rfl, fun z => by simp [conv]⟩
    · exact ⟨2^16, by simp, rfl, rfl, fun z => by simp [conv]⟩
    · exact ⟨2^32, by simp, rfl, rfl, fun z => by simp [conv]⟩
  obtain ⟨W, hWm, hsg, hWp, hconv⟩ := hWt
  have htab := narrow_table c hc W hWm
  rw [hmm] at htab
  have hW : 0 < W ∧ W ≤ 2^32 := by
    simp only [List.mem_cons, List.not_mem_nil, or_false] at hWm
    rcases hWm with rfl | rfl | rfl <;> omega
  simp only [fits64, Bool.and_eq_true, decide_eq_true_eq] at hr
  unfold checkedAs64 as64 from64 inRange
  simp only [ne_eq, ite_not, hsg, Bool.false_eq_true, if_false, hWp, hconv]
  generalize hq : raw.tdiv m = q at *
  generalize hrr : raw.tmod m = r at *
  have hn0 := Int.emod_nonneg q (show W ≠ 0 by omega)
  have hnW := Int.emod_lt_of_pos q hW.1
  have hnq : (0 ≤ q ∧ q < W) → q % W = q := fun h => Int.emod_eq_of_lt h.1 h.2
  generalize hnn : q % W = n' at *
  constructor
  · intro hh
    split at hh
    · rename_i hf
      cases hh
      obtain ⟨k, hk⟩ := wrap64_cong (wrap64 n * m)
      rw [hf] at hk
      have hw : wrap64 n = n := by unfold wrap64; omega
      rw [hw] at hk
      by_cases hneg : raw < 0
      · exact absurd (narrow_neg_reject m W raw q r n hm hW ⟨hr.1, hneg⟩ h1 h2 (h5 (by omega)).2 (h5 (by omega)).1
          hnn.symm htab ⟨-k, by omega⟩) id
      · exact ⟨core_exact m raw q r n 0 W hm (by omega) hr h1 h2 h3 h4 h5 (Or.inr ⟨rfl, by omega⟩)
          (by omega) (by omega) hnq ⟨-k, by omega⟩, by omega⟩
    · cases hh
  · rintro ⟨hraw, hn⟩
    have hqn : q = n := by
      have : raw.tdiv m = n := by rw [hraw]; exact Int.mul_tdiv_cancel _ (by omega)
      rw [hq] at this; exact this
    subst hqn
    have hcv : n' = q := hnq hn
    have hw : wrap64 q = q := by unfold wrap64; omega
    rw [hcv, hw, ← hraw, wrap64_of_fits raw (by simp [fits64]; omega)]
    simp

/-! ### f128 -/

theorem wrap128_of_fits' (z : Int) (h : -(2^127) ≤ z ∧ z < 2^127) : wrap128 z = z := by
  unfold wrap128; omega

/-- every target, signed or not: success ⇔ the value is the whole number `n` and `n` fits the target.  (f128 converts
    back through `uint64` for unsigned kinds, so — unlike f64 — a negative whole number is rejected by `uint64`.) -/
theorem checkedAs128_all (m : Int) (hm : 0 < m) (hm54 : m < 2^54) (t : Target) (ht : t ∈ allTargets)
    (raw n : Int) (hr : fits128 raw = true) :
    checkedAs128 m t raw = some n ↔ raw = n * m ∧ inRange t n := by
  simp only [fits128, Bool.and_eq_true, decide_eq_true_eq] at hr
  unfold checkedAs128 as128 from128 inRange
  simp only [ne_eq, ite_not]
  generalize hq : raw.tdiv m = q at *
  -- the converted value is in the range of the target
  have hrange : ∀ z : Int, (if t.signed then -(2^(t.bits - 1)) ≤ conv t z ∧ conv t z < 2^(t.bits - 1)
      else 0 ≤ conv t z ∧ conv t z < 2^t.bits) ∧ -(2^64) ≤ conv t z ∧ conv t z < 2^64 := by
    intro z
    simp only [allTargets, signedTargets, narrowUnsignedTargets, List.cons_append, List.nil_append, List.mem_cons,
      List.not_mem_nil, or_false] at ht
    rcases ht with rfl | rfl | rfl | rfl | rfl | rfl | rfl | rfl <;> simp [conv] <;> omega
  have hfix : ∀ z : Int, (if t.signed then -(2^(t.bits - 1)) ≤ z ∧ z < 2^(t.bits - 1) else 0 ≤ z ∧ z < 2^t.bits) →
      conv t (wrap64 z) = z := by
    intro z hz
    simp only [allTargets, signedTargets, narrowUnsignedTargets, List.cons_append, List.nil_append, List.mem_cons,
      List.not_mem_nil, or_false] at ht
    rcases ht with rfl | rfl | rfl | rfl | rfl | rfl | rfl | rfl <;> simp [conv, wrap64] at hz ⊢ <;> omega
  have hback : ∀ z : Int, -(2^64) ≤ z ∧ z < 2^64 →
      (if t.signed then -(2^(t.bits - 1)) ≤ z ∧ z < 2^(t.bits - 1) else 0 ≤ z ∧ z < 2^t.bits) →
      (if t.signed = true then wrap128 (wrap64 z * m) else wrap128 (z % 2^64 * m)) = z * m := by
    intro z hz hzr
    have hb1 : z * m ≤ 2^64 * m := Int.mul_le_mul_of_nonneg_right (by omega) (by omega)
    have hb2 : -(2^64) * m ≤ z * m := Int.mul_le_mul_of_nonneg_right (by omega) (by omega)
    have hfit : wrap128 (z * m) = z * m := wrap128_of_fits' _ (by omega)
    simp only [allTargets, signedTargets, narrowUnsignedTargets, List.cons_append, List.nil_append, List.mem_cons,
      List.not_mem_nil, or_false] at ht
    rcases ht with rfl | rfl | rfl | rfl | rfl | rfl | rfl | rfl <;> simp at hzr ⊢ <;>
      first
      | (have : wrap64 z = z := by unfold wrap64; omega
         rw [this, hfit])
      | (have : z % 18446744073709551616 = z := Int.emod_eq_of_lt (by omega) (by omega)
         rw [this, hfit])
  constructor
  · intro hh
    obtain ⟨hr1, hr2⟩ := hrange (wrap64 q)
    rw [hback _ hr2 hr1] at hh
    split at hh
    · rename_i hf
      cases hh
      exact ⟨hf.symm, hr1⟩
    · cases hh
  · rintro ⟨hraw, hn⟩
    have hqn : q = n := by
      have : raw.tdiv m = n := by rw [hraw]; exact Int.mul_tdiv_cancel _ (by omega)
      rw [hq] at this; exact this
    subst hqn
    have hn64 : -(2^64) ≤ q ∧ q < 2^64 := by
      have := hrange (wrap64 q)
      rw [hfix q hn] at this
      exact this.2
    rw [hfix q hn, hback q hn64 hn, if_pos hraw.symm]

end FixedText
