import Model.NotifierMerge
/-! C17, several notifiers with one mutex each: programs that hold at most one lock at a time never dead-lock. -/
namespace NtM
open Nt

/-- every goroutine is outside every bracket and holds nothing (`mode t = none`) or inside a bracket on exactly the lock
    it holds (`mode t = some l`), and the rest of its program continues accordingly -/
def MInv (c : Conf) : Prop :=
  ∃ mode : Nat → Option Nat, ∀ t, ok (mode t) (c.threads t).prog = true ∧ ∀ l, (c.held l = some t ↔ mode t = some l)

theorem minv_init (w : World) (progs : Nat → List Instr) (h : ∀ t, OneAtATime (progs t) = true) : MInv (init w progs) :=
  ⟨fun _ => none, fun t => ⟨h t, fun l => by simp [init]⟩⟩

theorem upd_same {α : Type} (f : Nat → α) (t : Nat) (v : α) : upd f t v t = v := by simp [upd]
theorem upd_other {α : Type} (f : Nat → α) (t u : Nat) (v : α) (h : u ≠ t) : upd f t v u = f u := by simp [upd, h]

theorem minv_step (c c' : Conf) (t : Nat) (hi : MInv c) (hs : step c t = some c') : MInv c' := by
  obtain ⟨mode, hm⟩ := hi
  obtain ⟨hok, hheld⟩ := hm t
  unfold step at hs
  cases hp : (c.threads t).prog with
  | nil => rw [hp] at hs; cases hs
  | cons i rest =>
    rw [hp] at hs hok
    -- an action: locks and modes unchanged, the program advances
    have act : ∀ (w' : World) (cp : Copy), i.isAct = true →
        c' = { c with w := w', threads := upd c.threads t ⟨rest, cp⟩ } → MInv c' := by
      intro w' cp hact hc'
      subst hc'
      refine ⟨mode, fun u => ?_⟩
      by_cases hu : u = t
      · subst hu
        refine ⟨?_, hheld⟩
        simp only [upd_same]
        cases hmu : mode u with
        | none => rw [hmu] at hok; cases i <;> simp [ok, Instr.isAct] at hok hact
        | some l => rw [hmu] at hok; cases i <;> simp [ok, Instr.isAct] at hok hact ⊢ <;> exact hok
      · simp only [upd_other _ _ _ _ hu]
        exact hm u
    cases i with
    | lock l =>
      simp only at hs
      cases hh : c.held l with
      | some x => rw [hh] at hs; cases hs
      | none =>
        rw [hh] at hs
        simp only [Option.some.injEq] at hs
        subst hs
        have hmt : mode t = none := by
          cases hmt : mode t with
          | none => rfl
          | some l' => rw [hmt] at hok; simp [ok] at hok
        rw [hmt] at hok
        refine ⟨upd mode t (some l), fun u => ?_⟩
        by_cases hu : u = t
        · subst hu
          simp only [upd_same]
          refine ⟨by simpa [ok] using hok, fun l' => ?_⟩
          by_cases hl : l' = l
          · subst hl; simp [upd_same]
          · simp only [upd_other _ _ _ _ hl, Option.some.injEq]
            rw [hheld l', hmt]
            constructor
            · intro h; cases h
            · intro h; exact absurd h.symm hl
        · simp only [upd_other _ _ _ _ hu]
          refine ⟨(hm u).1, fun l' => ?_⟩
          by_cases hl : l' = l
          · subst hl
            simp only [upd_same, Option.some.injEq]
            rw [← (hm u).2 l', hh]
            constructor
            · intro h; exact absurd h.symm hu
            · intro h; cases h
          · simp only [upd_other _ _ _ _ hl]; exact (hm u).2 l'
    | unlock l =>
      simp only [Option.some.injEq] at hs
      subst hs
      have hmt : mode t = some l ∧ ok none rest = true := by
        cases hmt : mode t with
        | none => rw [hmt] at hok; simp [ok] at hok
        | some l' =>
          rw [hmt] at hok
          simp only [ok, Bool.and_eq_true, beq_iff_eq] at hok
          exact ⟨by rw [hok.1], hok.2⟩
      refine ⟨upd mode t none, fun u => ?_⟩
      by_cases hu : u = t
      · subst hu
        simp only [upd_same]
        refine ⟨hmt.2, fun l' => ?_⟩
        by_cases hl : l' = l
        · subst hl; simp [upd_same]
        · simp only [upd_other _ _ _ _ hl]
          rw [hheld l', hmt.1]
          constructor
          · intro h; simp only [Option.some.injEq] at h; exact absurd h.symm hl
          · intro h; cases h
      · simp only [upd_other _ _ _ _ hu]
        refine ⟨(hm u).1, fun l' => ?_⟩
        by_cases hl : l' = l
        · subst hl
          simp only [upd_same]
          have ht : c.held l' = some t := (hheld l').mpr hmt.1
          rw [← (hm u).2 l', ht]
          constructor
          · intro h; cases h
          · intro h; simp only [Option.some.injEq] at h; exact absurd h.symm hu
        · simp only [upd_other _ _ _ _ hl]; exact (hm u).2 l'
    | copyOut m =>
      simp only [Option.some.injEq] at hs
      exact act c.w _ rfl hs.symm
    | mergeIn n =>
      simp only [Option.some.injEq] at hs
      exact act _ (c.threads t).copy rfl hs.symm
    | mergeDirect n m =>
      simp only [Option.some.injEq] at hs
      exact act _ (c.threads t).copy rfl hs.symm

theorem minv_exec (sch : List Nat) (c c' : Conf) (hi : MInv c) (he : exec c sch = some c') : MInv c' := by
  induction sch generalizing c with
  | nil => simp only [exec, Option.some.injEq] at he; subst he; exact hi
  | cons t ts ih =>
    simp only [exec] at he
    cases hs : step c t with
    | none => rw [hs] at he; cases he
    | some c1 => rw [hs] at he; exact ih c1 (minv_step c c1 t hi hs) he

/-- **progress**: in a configuration satisfying the invariant some goroutine can take a step unless all have finished -/
theorem minv_progress (c : Conf) (hi : MInv c) : (∃ t, (step c t).isSome = true) ∨ AllDone c := by
  obtain ⟨mode, hm⟩ := hi
  by_cases hin : ∃ t, (mode t).isSome = true
  · -- somebody is inside a bracket: its next instruction is an action or the unlock
    obtain ⟨t, ht⟩ := hin
    left; refine ⟨t, ?_⟩
    obtain ⟨l, hl⟩ := Option.isSome_iff_exists.mp ht
    have hok := (hm t).1
    rw [hl] at hok
    unfold step
    cases hp : (c.threads t).prog with
    | nil => rw [hp] at hok; simp [ok] at hok
    | cons i rest =>
      rw [hp] at hok
      cases i with
      | lock l' => simp [ok] at hok
      | _ => rfl
  · -- nobody holds a lock
    have hnone : ∀ t, mode t = none := by
      intro t
      cases h : mode t with
      | none => rfl
      | some l => exact absurd ⟨t, by simp [h]⟩ hin
    have hfree : ∀ l, c.held l = none := by
      intro l
      cases h : c.held l with
      | none => rfl
      | some t =>
        have := ((hm t).2 l).mp h
        rw [hnone t] at this; cases this
    by_cases hw : ∃ t, (c.threads t).prog ≠ []
    · obtain ⟨t, ht⟩ := hw
      left; refine ⟨t, ?_⟩
      have hok := (hm t).1
      rw [hnone t] at hok
      unfold step
      cases hp : (c.threads t).prog with
      | nil => exact absurd hp ht
      | cons i rest =>
        rw [hp] at hok
        cases i with
        | lock l => simp [hfree l]
        | _ => simp [ok] at hok
    · right
      intro t
      cases hp : (c.threads t).prog with
      | nil => rfl
      | cons i rest => exact absurd ⟨t, by simp [hp]⟩ hw

theorem ok_append (p q : List Instr) (mode : Option Nat) (hp : ok mode p = true) (hq : ok none q = true) :
    ok mode (p ++ q) = true := by
  induction p generalizing mode with
  | nil =>
    cases mode with
    | none => simpa using hq
    | some l => simp [ok] at hp
  | cons i rest ih =>
    cases mode with
    | none =>
      cases i with
      | lock l => simp only [ok, List.cons_append] at hp ⊢; exact ih _ hp
      | _ => simp [ok] at hp
    | some l =>
      cases i with
      | lock l' => simp [ok] at hp
      | unlock l' =>
        simp only [ok, List.cons_append, Bool.and_eq_true, beq_iff_eq] at hp ⊢
        exact ⟨hp.1, ih _ hp.2⟩
      | copyOut m => simp only [ok, List.cons_append] at hp ⊢; exact ih _ hp
      | mergeIn n => simp only [ok, List.cons_append] at hp ⊢; exact ih _ hp
      | mergeDirect n m => simp only [ok, List.cons_append] at hp ⊢; exact ih _ hp

theorem mergeProg_ok (n m : Nat) : OneAtATime (mergeProg n m) = true := by
  unfold OneAtATime mergeProg
  split <;> simp [ok]

/-- any sequence of `RegisterFromNotifier` calls is a one-lock-at-a-time program -/
theorem mergeCalls_ok (calls : List (Nat × Nat)) : OneAtATime (calls.flatMap (fun nm => mergeProg nm.1 nm.2)) = true := by
  induction calls with
  | nil => rfl
  | cons c cs ih =>
    simp only [List.flatMap_cons]
    exact ok_append _ _ none (mergeProg_ok c.1 c.2) ih

/-- two goroutines merging in opposite directions with the nested variant -/
def nestedProgs : Nat → List Instr := fun t => if t = 0 then nestedProg 0 1 else if t = 1 then nestedProg 1 0 else []

/-- the same two calls as the code makes them -/
def crossProgs : Nat → List Instr := fun t => if t = 0 then mergeProg 0 1 else if t = 1 then mergeProg 1 0 else []

/-- run alone, the program of `n.RegisterFromNotifier(m)` computes the atomic `merge` step of the sequential model -/
theorem mergeProg_sequential (pan : Nat → Bool) (w : World) (n m : Nat) :
    (exec (init w (fun u => if u = 0 then mergeProg n m else [])) (List.replicate (mergeProg n m).length 0)).map (·.w) =
      some (Nt.step pan w (.merge n m)).1 := by
  by_cases h : n = m
  · simp [mergeProg, h, exec, Nt.step, init]
  · simp [mergeProg, h, exec, NtM.step, Nt.step, init, upd, List.replicate, Copy.toNSt, mergeFrom]

end NtM
