import Lemmas.Rotation
/-! C12: the functional specification of one `Write` and its lifting over histories of operations. Core-only. -/
namespace Rot

theorem set_self (f : Files) (i : Nat) (v : Option Bytes) (h : f i = v) : f.set i v = f := by
  funext j
  by_cases hj : j = i
  · subst hj; simp [Files.set, h]
  · simp [Files.set, hj]

theorem set_set (f : Files) (i : Nat) (a b : Option Bytes) : (f.set i a).set i b = f.set i b := by
  funext j
  by_cases hj : j = i <;> simp [Files.set, hj]

/-- the test `r.size > 0 && r.size+writeSize > r.maxSize`, expressed on the directory -/
def wouldRotate (cfg : Cfg) (f : Files) (b : Bytes) : Prop :=
  0 < (content f 0).length ∧ (content f 0).length + b.length > cfg.maxSize

instance (cfg : Cfg) (f : Files) (b : Bytes) : Decidable (wouldRotate cfg f b) := by
  unfold wouldRotate; infer_instance

/-- what the `if r.file == nil { … }` block establishes -/
theorem open_spec (s : St) (ht : Track s) :
    (openIfNeeded s).isOpen = true ∧ (openIfNeeded s).size = (content s.files 0).length ∧
    (openIfNeeded s).files = s.files.set 0 (some (content s.files 0)) := by
  unfold openIfNeeded
  split
  · rename_i ho
    obtain ⟨c, hc, hs⟩ := ht ho
    refine ⟨ho, ?_, ?_⟩
    · simp [content, hc, hs]
    · rw [set_self]; simp [content, hc]
  · split
    · rename_i c hc
      refine ⟨rfl, ?_, ?_⟩
      · simp [content, hc]
      · rw [set_self]; simp [content, hc]
    · rename_i hc
      exact ⟨rfl, by simp [content, hc], by simp [content, hc]⟩

theorem St.ext' {a b : St} (h1 : a.files = b.files) (h2 : a.isOpen = b.isOpen) (h3 : a.size = b.size) : a = b := by
  cases a; cases b; simp at *; exact ⟨h1, h2, h3⟩

/-- one pass of the retry loop as a function of the directory alone -/
theorem writeStep_spec (cfg : Cfg) (s : St) (b : Bytes) (ht : Track s) :
    writeStep cfg s b =
      if wouldRotate cfg s.files b then .again { files := shift cfg s.files, isOpen := false, size := 0 }
      else .done { files := s.files.set 0 (some (content s.files 0 ++ b)), isOpen := true,
                   size := (content s.files 0 ++ b).length } := by
  obtain ⟨ho, hs, hf⟩ := open_spec s ht
  by_cases h : wouldRotate cfg s.files b
  · rw [if_pos h]
    have h' : (content s.files 0).length > 0 ∧ (content s.files 0).length + b.length > cfg.maxSize := h
    unfold writeStep
    simp only [hs]
    rw [if_pos h']
    -- the current file is not empty, hence exists, hence opening did not change the directory
    have hf' : (openIfNeeded s).files = s.files := by
      rw [hf]; apply set_self
      cases hc : s.files 0 with
      | none => simp [content, hc] at h'
      | some c => simp [content, hc]
    simp [rotate, rotateFiles_eq_shift, hf']
  · rw [if_neg h]
    have h' : ¬ ((content s.files 0).length > 0 ∧ (content s.files 0).length + b.length > cfg.maxSize) := h
    unfold writeStep
    simp only [hs]
    rw [if_neg h']
    congr 1
    apply St.ext'
    · simp only [hf, set_set]
      simp [Files.set, content]
    · exact ho
    · simp

theorem shift_zero (cfg : Cfg) (f : Files) : shift cfg f 0 = none := by simp [shift]

/-- **the functional specification of `Write`** (for a state whose size counter is in step with the file): either the
    bytes are appended to the current file, or — when the file is not empty and would grow beyond MaxSize — the
    directory is shifted once and the bytes become the whole new current file -/
theorem write_spec (cfg : Cfg) (s : St) (b : Bytes) (ht : Track s) :
    write cfg s b =
      if wouldRotate cfg s.files b then { files := (shift cfg s.files).set 0 (some b), isOpen := true, size := b.length }
      else { files := s.files.set 0 (some (content s.files 0 ++ b)), isOpen := true,
             size := (content s.files 0 ++ b).length } := by
  unfold write
  rw [writeStep_spec cfg s b ht]
  by_cases h : wouldRotate cfg s.files b
  · simp only [if_pos h]
    have ht1 : Track { files := shift cfg s.files, isOpen := false, size := 0 } := by intro h; cases h
    rw [writeStep_spec cfg _ b ht1]
    have : ¬ wouldRotate cfg (shift cfg s.files) b := by
      simp [wouldRotate, content, shift_zero]
    simp [this, content, shift_zero]
  · simp only [if_neg h]

theorem rotates_iff (cfg : Cfg) (s : St) (b : Bytes) (ht : Track s) :
    rotates cfg s b = true ↔ wouldRotate cfg s.files b := by
  unfold rotates
  rw [writeStep_spec cfg s b ht]
  split <;> simp [Step.isDone, *]

/-- the bounded retry loop never needs more than two passes -/
theorem iterate_eq_write (cfg : Cfg) (s : St) (b : Bytes) (n : Nat) : iterate cfg (n + 2) s b = .done (write cfg s b) := by
  rcases write_terminates cfg s b with ⟨s', h⟩ | ⟨s1, s', h1, h2⟩
  · simp [iterate, write, h]
  · simp [iterate, write, h1, h2]

theorem track_write (cfg : Cfg) (s : St) (b : Bytes) (ht : Track s) : Track (write cfg s b) := (write_size cfg s b ht).1

/-! ### operations other than `Write` -/

theorem track_fresh (f : Files) : Track (fresh f) := by intro h; cases h
theorem track_close (s : St) : Track (close s) := by intro h; cases h
theorem track_reopen (s : St) : Track (reopen s) := by intro h; cases h

theorem track_apply (cfg : Cfg) (s : St) (o : Op) (ht : Track s) : Track (apply cfg s o) := by
  cases o with
  | write b => exact track_write cfg s b ht
  | close => exact track_close s
  | reopen => exact track_reopen s
  | sync => exact ht

theorem track_run (cfg : Cfg) (s : St) (ops : List Op) (ht : Track s) : Track (run cfg s ops) := by
  induction ops generalizing s with
  | nil => exact ht
  | cons o os ih => exact ih _ (track_apply cfg s o ht)

/-- `Close`, a restart and `Sync` leave the directory alone -/
theorem apply_files (cfg : Cfg) (s : St) (o : Op) (h : ∀ b, o ≠ .write b) : (apply cfg s o).files = s.files := by
  cases o with
  | write b => exact absurd rfl (h b)
  | close => rfl
  | reopen => rfl
  | sync => rfl

/-! ### the retained stream -/

theorem write_retained_keep (cfg : Cfg) (s : St) (b : Bytes) (ht : Track s) (h : ¬ wouldRotate cfg s.files b) :
    retained cfg (write cfg s b).files = retained cfg s.files ++ b := by
  rw [write_spec cfg s b ht, if_neg h]
  exact retained_append s.files b _

theorem write_retained_rot (cfg : Cfg) (s : St) (b : Bytes) (ht : Track s) (h : wouldRotate cfg s.files b) :
    retained cfg s.files ++ b =
      (if cfg.maxBackups = 0 then retained cfg s.files else content s.files cfg.maxBackups)
        ++ retained cfg (write cfg s b).files := by
  rw [write_spec cfg s b ht, if_pos h]
  have e : (shift cfg s.files).set 0 (some b) =
      (shift cfg s.files).set 0 (some (content (shift cfg s.files) 0 ++ b)) := by
    simp [content, shift_zero]
  have hr : retained cfg ((shift cfg s.files).set 0 (some b)) = retained cfg (shift cfg s.files) ++ b := by
    rw [e]; exact retained_append _ b _
  simp only [hr]
  rcases retained_shift cfg s.files with h1 | ⟨h0, h1⟩
  · by_cases h0 : cfg.maxBackups = 0
    · rw [if_pos h0]
      have hs : retained cfg (shift cfg s.files) = [] := by
        simp [retained, h0, retainedUpTo, content, shift_zero]
      rw [hs]; simp
    · rw [if_neg h0, ← List.append_assoc, ← h1]
  · rw [if_pos h0, h1]; simp

theorem run_cons (cfg : Cfg) (s : St) (o : Op) (os : List Op) : run cfg s (o :: os) = run cfg (apply cfg s o) os := rfl

/-- after any history the retained files, oldest first, are a suffix of (initial retained content ++ everything
    written); no hypothesis on the state -/
theorem run_suffix (cfg : Cfg) (s : St) (ops : List Op) :
    ∃ pre, retained cfg s.files ++ (writesOf ops).flatten = pre ++ retained cfg (run cfg s ops).files := by
  induction ops generalizing s with
  | nil => exact ⟨[], by simp [run, writesOf]⟩
  | cons o os ih =>
    cases o with
    | write b =>
      obtain ⟨p1, h1⟩ := write_suffix cfg s b
      obtain ⟨p2, h2⟩ := ih (write cfg s b)
      refine ⟨p1 ++ p2, ?_⟩
      simp only [run, apply, writesOf, List.flatten_cons]
      rw [← List.append_assoc, h1, List.append_assoc, h2, List.append_assoc]
    | close => simpa [run, apply, writesOf, close] using ih (close s)
    | reopen => simpa [run, apply, writesOf, reopen, close, fresh] using ih (reopen s)
    | sync => simpa [run, apply, writesOf] using ih s

/-- the indexes `k+1 … MaxBackups` hold no file -/
def EmptyAbove (cfg : Cfg) (f : Files) (k : Nat) : Prop := ∀ i, k < i → i ≤ cfg.maxBackups → f i = none

theorem emptyAbove_write (cfg : Cfg) (s : St) (b : Bytes) (ht : Track s) (k : Nat) (hk : EmptyAbove cfg s.files k) :
    EmptyAbove cfg (write cfg s b).files (k + if rotates cfg s b then 1 else 0) := by
  intro i hi hm
  rw [write_spec cfg s b ht]
  by_cases h : wouldRotate cfg s.files b
  · have hr : rotates cfg s b = true := (rotates_iff cfg s b ht).2 h
    rw [hr] at hi
    simp only [if_true] at hi
    rw [if_pos h]
    have i0 : i ≠ 0 := by omega
    simp only [Files.set, i0, if_false, shift, hm, if_true]
    exact hk (i - 1) (by omega) (by omega)
  · have hr : rotates cfg s b = false := by
      cases hh : rotates cfg s b with
      | false => rfl
      | true => exact absurd ((rotates_iff cfg s b ht).1 hh) h
    rw [hr] at hi
    simp only [Bool.false_eq_true, if_false, Nat.add_zero] at hi
    rw [if_neg h]
    have i0 : i ≠ 0 := by omega
    simp only [Files.set, i0, if_false]
    exact hk i hi hm

/-- nothing is lost while the dropped (oldest) slot is still empty: if initially only the indexes `0…k` are occupied
    and the history rotates at most `MaxBackups − k` times (i.e. at most `MaxBackups+1` files get filled), the
    retained files are exactly the initial content followed by everything written -/
theorem run_whole (cfg : Cfg) (s : St) (ops : List Op) (k : Nat) (ht : Track s)
    (hk : EmptyAbove cfg s.files k) (hr : k + rotations cfg s ops ≤ cfg.maxBackups) :
    retained cfg (run cfg s ops).files = retained cfg s.files ++ (writesOf ops).flatten := by
  induction ops generalizing s k with
  | nil => simp [run, writesOf]
  | cons o os ih =>
    cases o with
    | write b =>
      simp only [rotations] at hr
      have hk' := emptyAbove_write cfg s b ht k hk
      have ih' := ih (write cfg s b) _ (track_write cfg s b ht) hk' (by omega)
      simp only [run, apply, writesOf, List.flatten_cons]
      rw [ih']
      by_cases h : wouldRotate cfg s.files b
      · have hrot : rotates cfg s b = true := (rotates_iff cfg s b ht).2 h
        rw [hrot] at hr
        simp only [if_true] at hr
        have hm : cfg.maxBackups ≠ 0 := by omega
        have hw := write_retained_rot cfg s b ht h
        rw [if_neg hm] at hw
        have hc : content s.files cfg.maxBackups = [] := by
          simp [content, hk cfg.maxBackups (by omega) (Nat.le_refl _)]
        rw [hc, List.nil_append] at hw
        rw [← hw, List.append_assoc]
      · rw [write_retained_keep cfg s b ht h, List.append_assoc]
    | close => simpa [run, apply, writesOf, close, rotations] using ih (close s) k (track_close s) hk (by simpa [rotations, apply] using hr)
    | reopen => simpa [run, apply, writesOf, reopen, close, fresh, rotations] using ih (reopen s) k (track_reopen s) hk (by simpa [rotations, apply] using hr)
    | sync => simpa [run, apply, writesOf, rotations] using ih s k ht hk (by simpa [rotations, apply] using hr)

/-! ### frame and size bounds over histories -/

theorem run_frame (cfg : Cfg) (s : St) (ops : List Op) (j : Nat) (hj : cfg.maxBackups < j) :
    (run cfg s ops).files j = s.files j := by
  induction ops generalizing s with
  | nil => rfl
  | cons o os ih =>
    rw [run_cons, ih]
    cases o with
    | write b => exact write_frame cfg s b j hj
    | close => rfl
    | reopen => rfl
    | sync => rfl

/-- every file after a `Write` is the record itself, an old file, an old non-empty current file extended within
    MaxSize — stated for an arbitrary predicate `Q` that holds for short files and for the record -/
theorem write_pred (cfg : Cfg) (s : St) (b : Bytes) (ht : Track s) (Q : Bytes → Prop)
    (hsmall : ∀ f : Bytes, f.length ≤ cfg.maxSize → Q f) (hb : Q b)
    (hs : ∀ i f, s.files i = some f → Q f) :
    ∀ i f, (write cfg s b).files i = some f → Q f := by
  intro i f
  rw [write_spec cfg s b ht]
  by_cases h : wouldRotate cfg s.files b
  · rw [if_pos h]
    by_cases i0 : i = 0
    · subst i0; simp only [Files.set, if_true]; intro e; cases e; exact hb
    · simp only [Files.set, i0, if_false, shift]
      split
      · exact hs _ f
      · exact hs _ f
  · rw [if_neg h]
    by_cases i0 : i = 0
    · subst i0; simp only [Files.set, if_true]; intro e; cases e
      by_cases hz : (content s.files 0).length = 0
      · have : content s.files 0 = [] := List.eq_nil_of_length_eq_zero hz
        rw [this, List.nil_append]; exact hb
      · apply hsmall
        unfold wouldRotate at h
        simp only [List.length_append]
        have hp : 0 < (content s.files 0).length := by omega
        have : ¬ ((content s.files 0).length + b.length > cfg.maxSize) := fun h2 => h ⟨hp, h2⟩
        omega
    · simp only [Files.set, i0, if_false]; exact hs i f

theorem run_pred (cfg : Cfg) (s : St) (ops : List Op) (ht : Track s) (Q : Bytes → Prop)
    (hsmall : ∀ f : Bytes, f.length ≤ cfg.maxSize → Q f) (hw : ∀ w ∈ writesOf ops, Q w)
    (hs : ∀ i f, s.files i = some f → Q f) :
    ∀ i f, (run cfg s ops).files i = some f → Q f := by
  induction ops generalizing s with
  | nil => exact hs
  | cons o os ih =>
    rw [run_cons]
    cases o with
    | write b =>
      have hb : Q b := hw b (by simp [writesOf])
      exact ih _ (track_write cfg s b ht) (fun w h => hw w (by simp [writesOf, h]))
        (write_pred cfg s b ht Q hsmall hb hs)
    | close => exact ih _ (track_close s) (fun w h => hw w (by simpa [writesOf] using h)) hs
    | reopen => exact ih _ (track_reopen s) (fun w h => hw w (by simpa [writesOf] using h)) hs
    | sync => exact ih _ ht (fun w h => hw w (by simpa [writesOf] using h)) hs

/-! ### `Close` and re-opening are invisible in the directory -/

/-- `Write` depends on the state only through the directory (once the size counter is in step) -/
theorem write_congr (cfg : Cfg) (s t : St) (b : Bytes) (hs : Track s) (ht : Track t) (h : s.files = t.files) :
    write cfg s b = write cfg t b := by
  rw [write_spec cfg s b hs, write_spec cfg t b ht, h]

def Op.isWrite : Op → Bool
  | .write _ => true
  | _ => false

theorem run_files_filter (cfg : Cfg) (s t : St) (ops : List Op) (hs : Track s) (ht : Track t) (h : s.files = t.files) :
    (run cfg s ops).files = (run cfg t (ops.filter Op.isWrite)).files := by
  induction ops generalizing s t with
  | nil => exact h
  | cons o os ih =>
    cases o with
    | write b =>
      simp only [List.filter, Op.isWrite, run, apply]
      rw [write_congr cfg s t b hs ht h]
      exact ih _ _ (track_write cfg t b ht) (track_write cfg t b ht) rfl
    | close => simpa [List.filter, Op.isWrite, run, apply] using ih (close s) t (track_close s) ht (by simpa [close] using h)
    | reopen => simpa [List.filter, Op.isWrite, run, apply] using ih (reopen s) t (track_reopen s) ht (by simpa [reopen, close, fresh] using h)
    | sync => simpa [List.filter, Op.isWrite, run, apply] using ih s t hs ht h

/-! ### `New` -/

theorem new_foldl_none (opts : List Opt) :
    opts.foldl (fun acc o => match acc with | none => none | some r => applyOpt r o) none = none := by
  induction opts with
  | nil => rfl
  | cons o os ih => simpa [List.foldl] using ih

theorem applyOpt_none_iff (r : Built) (o : Opt) : applyOpt r o = none ↔ o = .path "" := by
  cases o with
  | path p =>
    by_cases hp : p = ""
    · subst hp; simp [applyOpt]
    · simp [applyOpt, hp]
  | maxSize n => simp [applyOpt]
  | maxBackups n => simp [applyOpt]
  | mask m => simp [applyOpt]

theorem new_foldl_none_iff (opts : List Opt) (r : Built) :
    opts.foldl (fun acc o => match acc with | none => none | some r => applyOpt r o) (some r) = none
      ↔ Opt.path "" ∈ opts := by
  induction opts generalizing r with
  | nil => simp
  | cons o os ih =>
    simp only [List.foldl, List.mem_cons]
    cases h : applyOpt r o with
    | none =>
      have := (applyOpt_none_iff r o).1 h
      simp [new_foldl_none, this]
    | some r' =>
      have hne : o ≠ .path "" := fun e => by rw [(applyOpt_none_iff r o).2 e] at h; cases h
      rw [ih r']
      constructor
      · intro h; exact Or.inr h
      · intro h; rcases h with h | h
        · exact absurd h.symm hne
        · exact h

/-! ### the interpreter's array representation -/

theorem ofArray_toArray (f : Files) (n j : Nat) : ofArray (toArray f n) j = if j < n then f j else none := by
  unfold ofArray toArray
  by_cases h : j < n
  · simp [h, Array.getD]
  · simp [h, Array.getD]

/-! ### restarts with other limits (segmented histories) -/

theorem track_runSegs (s : St) (segs : List (Cfg × List Op)) (ht : Track s) : Track (runSegs s segs) := by
  induction segs generalizing s with
  | nil => exact ht
  | cons x rest ih =>
    obtain ⟨cfg, ops⟩ := x
    exact ih _ (track_run cfg _ ops (track_reopen s))

/-- no index above every segment's MaxBackups is ever touched -/
theorem runSegs_frame (s : St) (segs : List (Cfg × List Op)) (j : Nat) (hj : ∀ x ∈ segs, x.1.maxBackups < j) :
    (runSegs s segs).files j = s.files j := by
  induction segs generalizing s with
  | nil => rfl
  | cons x rest ih =>
    obtain ⟨cfg, ops⟩ := x
    simp only [runSegs]
    rw [ih _ (fun y hy => hj y (List.mem_cons_of_mem _ hy))]
    rw [run_frame cfg (reopen s) ops j (hj (cfg, ops) (by simp))]
    rfl

theorem runSegs_pred (s : St) (segs : List (Cfg × List Op)) (Q : Bytes → Prop)
    (hsmall : ∀ x ∈ segs, ∀ f : Bytes, f.length ≤ x.1.maxSize → Q f) (hw : ∀ w ∈ writesOfSegs segs, Q w)
    (hs : ∀ i f, s.files i = some f → Q f) :
    ∀ i f, (runSegs s segs).files i = some f → Q f := by
  induction segs generalizing s with
  | nil => exact hs
  | cons x rest ih =>
    obtain ⟨cfg, ops⟩ := x
    simp only [runSegs]
    apply ih
    · intro y hy; exact hsmall y (List.mem_cons_of_mem _ hy)
    · intro w hwm; exact hw w (by simp [writesOfSegs, hwm])
    · exact run_pred cfg (reopen s) ops (track_reopen s) Q (hsmall (cfg, ops) (by simp))
        (fun w hwm => hw w (by simp [writesOfSegs, hwm])) hs

/-- as long as MaxBackups stays the same (`retained` reads the same slots), the suffix property spans restarts with
    other MaxSize values -/
theorem runSegs_suffix (B : Nat) (s : St) (segs : List (Cfg × List Op)) (hB : ∀ x ∈ segs, x.1.maxBackups = B) :
    ∃ pre, retainedUpTo s.files B ++ (writesOfSegs segs).flatten = pre ++ retainedUpTo (runSegs s segs).files B := by
  induction segs generalizing s with
  | nil => exact ⟨[], by simp [runSegs, writesOfSegs]⟩
  | cons x rest ih =>
    obtain ⟨cfg, ops⟩ := x
    have hb : cfg.maxBackups = B := hB (cfg, ops) (by simp)
    obtain ⟨p1, h1⟩ := run_suffix cfg (reopen s) ops
    obtain ⟨p2, h2⟩ := ih (run cfg (reopen s) ops) (fun y hy => hB y (List.mem_cons_of_mem _ hy))
    simp only [retained, hb] at h1
    have hre : (reopen s).files = s.files := rfl
    rw [hre] at h1
    refine ⟨p1 ++ p2, ?_⟩
    simp only [runSegs, writesOfSegs, List.flatten_append]
    rw [← List.append_assoc, h1, List.append_assoc, h2, List.append_assoc]

/-! ### restarts in which MaxBackups grows -/

/-- empty slots above `m` contribute nothing to the read-back -/
theorem retainedUpTo_empty_above (f : Files) (m : Nat) : ∀ B, m ≤ B → (∀ j, m < j → j ≤ B → f j = none) →
    retainedUpTo f B = retainedUpTo f m := by
  intro B
  induction B with
  | zero => intro hm _; have : m = 0 := by omega
            subst this; rfl
  | succ k ih =>
    intro hm he
    by_cases hk : m = k + 1
    · subst hk; rfl
    · have hmk : m ≤ k := by omega
      simp only [retainedUpTo]
      have : content f (k + 1) = [] := by simp [content, he (k + 1) (by omega) (Nat.le_refl _)]
      rw [this, List.nil_append]
      exact ih hmk (fun j h1 h2 => he j h1 (by omega))

/-- the suffix clause spans restarts in which MaxBackups only GROWS (MaxSize changes freely), read with any `B` at least
    as large as every segment's MaxBackups — provided the slots between the first segment's MaxBackups and `B` are empty
    at the start (no stale backups from an instance with a larger limit) -/
theorem runSegs_suffix_grow (B : Nat) : ∀ (segs : List (Cfg × List Op)) (s : St),
    segs.Pairwise (fun x y => x.1.maxBackups ≤ y.1.maxBackups) → (∀ x ∈ segs, x.1.maxBackups ≤ B) →
    (∀ x, segs.head? = some x → ∀ j, x.1.maxBackups < j → j ≤ B → s.files j = none) →
    ∃ pre, retainedUpTo s.files B ++ (writesOfSegs segs).flatten = pre ++ retainedUpTo (runSegs s segs).files B := by
  intro segs
  induction segs with
  | nil => intro s _ _ _; exact ⟨[], by simp [runSegs, writesOfSegs]⟩
  | cons x rest ih =>
    intro s hp hB he
    obtain ⟨cfg, ops⟩ := x
    have hle : cfg.maxBackups ≤ B := hB (cfg, ops) (by simp)
    have hemp := he (cfg, ops) rfl
    obtain ⟨p1, h1⟩ := run_suffix cfg (reopen s) ops
    have hre : (reopen s).files = s.files := rfl
    simp only [retained] at h1
    rw [hre] at h1
    -- slots in (cfg.maxBackups, B] are empty before and, by the frame, after the segment
    have hafter : ∀ j, cfg.maxBackups < j → j ≤ B → (run cfg (reopen s) ops).files j = none := by
      intro j h1' h2'
      rw [run_frame cfg (reopen s) ops j h1']
      exact hemp j h1' h2'
    have e1 := retainedUpTo_empty_above s.files cfg.maxBackups B hle hemp
    have e2 := retainedUpTo_empty_above (run cfg (reopen s) ops).files cfg.maxBackups B hle hafter
    have hp' := List.pairwise_cons.1 hp
    obtain ⟨p2, h2⟩ := ih (run cfg (reopen s) ops) hp'.2 (fun y hy => hB y (List.mem_cons_of_mem _ hy))
      (by
        intro y hy j h1' h2'
        have hy' : y ∈ rest := by
          cases rest with
          | nil => cases hy
          | cons z zs => simp only [List.head?_cons, Option.some.injEq] at hy; subst hy; simp
        exact hafter j (Nat.lt_of_le_of_lt (hp'.1 y hy') h1') h2')
    refine ⟨p1 ++ p2, ?_⟩
    simp only [runSegs, writesOfSegs, List.flatten_append]
    rw [e1, ← List.append_assoc, h1, ← e2, List.append_assoc, h2, List.append_assoc]

/-! ### contrast: a rotation that trusts a per-instance count of the backups it made -/

/-- the variant of `rotateFiles` that shifts only the slots this Rotator instance has filled itself (`made` rotations so
    far) and removes `path-MaxBackups` only once it has made that many: the same as `rotateFiles` on a directory that was
    empty when the instance started, but blind to backups left by an earlier run -/
def rotateFilesCounting (cfg : Cfg) (made : Nat) (f : Files) : Files :=
  if cfg.maxBackups < 1 then f.set 0 none
  else if made + 1 > cfg.maxBackups then renameChain (f.set cfg.maxBackups none) cfg.maxBackups
  else renameChain f (made + 1)

end Rot
