import Lemmas.Errs
import Lemmas.ErrsFrame
import Lemmas.ErrsTrace
import Lemmas.ErrsWalk
/-! C11: the fuel `walkFuel` of the model's `errors.Is` walk is always enough.  Every `*Error` mentioned anywhere inside the
    cause of a cell (also below foreign wrappers) is an OLDER cell in every heap the API builds from existing values
    (`DeepCauseWF`, `builtD_deep`); a potential that drops with every `Unwrap` step bounds the walk.  Core-only. -/
namespace Errs

/-- one more than the cell a value mentions (at the bottom of its foreign wrappers), 0 if none -/
def top : Val → Nat
  | .ref id => id + 1
  | .fwrap _ _ inner => top inner
  | _ => 0

/-- every `*Error` mentioned inside the cause of a cell is an older cell -/
def DeepCauseWF (h : Heap) : Prop := ∀ (i : Nat) (n : ENode), h[i]? = some n → top n.cause ≤ i

theorem deep_causeWF {h : Heap} (hd : DeepCauseWF h) : CauseWF h := by
  intro i n hn c hc
  have := hd i n hn
  rw [hc] at this
  simp only [top] at this
  omega

theorem costBelow_mono (h : Heap) : ∀ (k k' : Nat), k ≤ k' → costBelow h k ≤ costBelow h k' := by
  intro k k' hk
  induction k' with
  | zero => have : k = 0 := by omega
            subst this; exact Nat.le_refl _
  | succ j ih =>
    by_cases he : k = j + 1
    · subst he; exact Nat.le_refl _
    · have := ih (by omega)
      simp only [costBelow]; omega

/-- the potential of a walk standing on `v` -/
def potential (h : Heap) (v : Val) : Nat := valDepth v + costBelow h (top v)

theorem top_unwrap_le (h : Heap) (hd : DeepCauseWF h) (id : Nat) : top (unwrap h (.ref id)) ≤ id := by
  cases hx : h[id]? with
  | none => simp [unwrap, hx, top]
  | some n => simp only [unwrap, hx]; exact hd id n hx

theorem potential_ref (h : Heap) (hd : DeepCauseWF h) (id : Nat) :
    potential h (unwrap h (.ref id)) + 2 ≤ potential h (.ref id) := by
  have h1 := costBelow_mono h _ _ (top_unwrap_le h hd id)
  simp only [potential, top, valDepth, costBelow]
  omega

theorem potential_fwrap (h : Heap) (u : Nat) (m : String) (inner : Val) :
    potential h inner + 1 = potential h (.fwrap u m inner) := by
  simp only [potential, top, valDepth]; omega

/-- above the potential the amount of fuel does not matter -/
theorem isWalk_fuel (h : Heap) (cmp : Val → Bool) (t : Val) (hd : DeepCauseWF h) :
    ∀ (fuel fuel' : Nat) (v : Val), potential h v < fuel → potential h v < fuel' →
      isWalk h cmp t fuel v = isWalk h cmp t fuel' v := by
  intro fuel
  induction fuel with
  | zero => intro _ _ h0; omega
  | succ f ih =>
    intro fuel' v h1 h2
    cases fuel' with
    | zero => omega
    | succ f' =>
      cases v with
      | ref id =>
        have hp := potential_ref h hd id
        simp only [isWalk]
        rw [ih f' (unwrap h (.ref id)) (by omega) (by omega)]
      | fwrap u m inner =>
        have hp := potential_fwrap h u m inner
        simp only [isWalk]
        rw [ih f' inner (by omega) (by omega)]
      | nilIface => simp [isWalk]
      | typedNil => simp [isWalk]
      | foreignNil => simp [isWalk]
      | plain u m => simp [isWalk]

theorem walkFuel_gt (h : Heap) (v : Val) (hv : top v ≤ h.size) : potential h v < walkFuel h v := by
  have := costBelow_mono h _ _ hv
  simp only [potential, walkFuel]; omega

/-- **`walkFuel` is enough**: more fuel changes nothing -/
theorem walkFuel_enough (h : Heap) (cmp : Val → Bool) (t : Val) (hd : DeepCauseWF h) (v : Val) (hv : top v ≤ h.size)
    (fuel : Nat) (hf : walkFuel h v ≤ fuel) : isWalk h cmp t fuel v = isWalk h cmp t (walkFuel h v) v := by
  have := walkFuel_gt h v hv
  exact isWalk_fuel h cmp t hd fuel (walkFuel h v) v (by omega) this

/-! ### `DeepCauseWF` holds in every heap built from existing values (1) -/

theorem deep_empty : DeepCauseWF #[] := by
  intro i n hn; simp at hn

theorem deep_push (h : Heap) (n : ENode) (hd : DeepCauseWF h) (hn : top n.cause ≤ h.size) : DeepCauseWF (h.push n) := by
  intro i m hm
  rw [Array.getElem?_push] at hm
  by_cases hi : i = h.size
  · simp [hi] at hm; subst hm; rw [hi]; exact hn
  · simp [hi] at hm; exact hd i m hm

theorem deep_setNext (h : Heap) (e j : Nat) (hd : DeepCauseWF h) : DeepCauseWF (setNext h e j) := by
  intro i m hm
  unfold setNext at hm
  rw [Array.getElem?_modify] at hm
  cases hi : h[i]? with
  | none => rw [hi] at hm; simp at hm
  | some n =>
    rw [hi] at hm
    by_cases he : e = i
    · simp [he] at hm; subst hm; exact hd i n hi
    · simp [he] at hm; subst hm; exact hd i n hi

theorem deep_block (h : Heap) (src : List ENode) (hd : DeepCauseWF h)
    (hs : ∀ m ∈ src, top m.cause ≤ h.size) : DeepCauseWF (h ++ (freshBlock h.size src).toArray) := by
  intro i m hm
  by_cases hi : i < h.size
  · rw [Array.getElem?_append_left hi] at hm
    exact hd i m hm
  · have hge : h.size ≤ i := Nat.le_of_not_lt hi
    rw [Array.getElem?_append_right hge] at hm
    simp only [List.getElem?_toArray] at hm
    rw [freshBlock_get] at hm
    cases hk : src[i - h.size]? with
    | none => rw [hk] at hm; simp at hm
    | some x =>
      rw [hk] at hm
      simp at hm
      subst hm
      have := hs x (List.mem_of_getElem? hk)
      simp only
      omega

theorem deep_copyChain (h : Heap) (id : Nat) (hd : DeepCauseWF h) : DeepCauseWF (copyChain h id).1 := by
  unfold copyChain
  apply deep_block h _ hd
  intro m hm
  obtain ⟨i, _, rfl⟩ := List.mem_map.mp hm
  cases hi : h[i]? with
  | none =>
    have hdflt : top (default : ENode).cause = 0 := rfl
    simp only [Option.getD_none, hdflt]; omega
  | some n =>
    have h1 := hd i n hi
    have h2 : i < h.size := (Array.getElem?_eq_some_iff.mp hi).1
    simp only [Option.getD_some]
    omega

theorem top_wrapper (v : Val) : top (wrapperNode v).cause = top v := rfl

theorem deep_argNode (h : Heap) (a : Val) (hd : DeepCauseWF h) (ha : top a ≤ h.size) : DeepCauseWF (argNode h a).1 := by
  cases a with
  | ref id =>
    by_cases he : isEmpty h id = true
    · simp only [argNode, he, if_true]; exact hd
    · simp only [argNode, he]; exact deep_copyChain h id hd
  | nilIface => exact hd
  | typedNil => exact hd
  | foreignNil => exact hd
  | plain u m => exact deep_push h _ hd ha
  | fwrap u m i => exact deep_push h _ hd ha

theorem deep_appendLoop : ∀ (args : List Val) (h : Heap) (root cur : Option Nat) (log : List Nat), DeepCauseWF h →
    (∀ a ∈ args, top a ≤ h.size) → DeepCauseWF (appendLoop h root cur log args).1 := by
  intro args
  induction args with
  | nil => intro h root cur log hd _; exact hd
  | cons a as ih =>
    intro h root cur log hd hargs
    have hA := deep_argNode h a hd (hargs a (by simp))
    have hsz := (onlyLinks_argNode h a).1
    rcases hE : argNode h a with ⟨h1, _ | n, w⟩
    · rw [hE] at hA hsz; simp only [appendLoop, hE]
      exact ih _ _ _ _ hA (fun b hb => Nat.le_trans (hargs b (by simp [hb])) hsz)
    · rw [hE] at hA hsz
      cases cur with
      | none =>
        simp only [appendLoop, hE]
        exact ih _ _ _ _ hA (fun b hb => Nat.le_trans (hargs b (by simp [hb])) hsz)
      | some e =>
        simp only [appendLoop, hE]
        refine ih _ _ _ _ (deep_setNext _ _ _ hA) (fun b hb => ?_)
        rw [setNext_size]
        exact Nat.le_trans (hargs b (by simp [hb])) hsz

theorem deep_append (h : Heap) (acc : Val) (args : List Val) (hd : DeepCauseWF h) (hacc : top acc ≤ h.size)
    (hargs : ∀ a ∈ args, top a ≤ h.size) : DeepCauseWF (append h acc args).1 := by
  have hargs' : ∀ (x : ENode), ∀ a ∈ args, top a ≤ (h.push x).size := by
    intro x a ha; have := hargs a ha; simp; omega
  cases acc with
  | ref id =>
    by_cases he : isEmpty h id = true
    · simp only [append, he, if_true]; exact deep_appendLoop _ _ _ _ _ hd hargs
    · simp only [append, he]; exact deep_appendLoop _ _ _ _ _ hd hargs
  | nilIface => exact deep_appendLoop _ _ _ _ _ hd hargs
  | typedNil => exact deep_appendLoop _ _ _ _ _ hd hargs
  | foreignNil => exact deep_appendLoop _ _ _ _ _ hd hargs
  | plain u m => exact deep_appendLoop _ _ _ _ _ (deep_push h _ hd hacc) (hargs' _)
  | fwrap u m i => exact deep_appendLoop _ _ _ _ _ (deep_push h _ hd hacc) (hargs' _)

theorem deep_wrap (h : Heap) (v : Val) (hd : DeepCauseWF h) (hv : top v ≤ h.size) : DeepCauseWF (wrap h v).1 := by
  unfold wrap
  split
  · exact hd
  · split
    · exact hd
    · exact deep_push h _ hd hv

theorem deep_wrapTyped (h : Heap) (v : Val) (hd : DeepCauseWF h) (hv : top v ≤ h.size) : DeepCauseWF (wrapTyped h v).1 := by
  cases v with
  | ref id => simp only [wrapTyped, isNil]; exact hd
  | nilIface => exact hd
  | typedNil => exact hd
  | foreignNil => exact hd
  | plain u m => exact deep_push h _ hd hv
  | fwrap u m i => exact deep_push h _ hd hv

theorem deep_newWithCause (h : Heap) (m : String) (c : Val) (hd : DeepCauseWF h) (hv : top c ≤ h.size) :
    DeepCauseWF (newWithCause h m c).1 := by
  apply deep_push h _ hd
  simp only
  split
  · simp [top]
  · exact hv

theorem deep_clone (h : Heap) (v : Val) (pre : String) (hd : DeepCauseWF h) : DeepCauseWF (clone h v pre).1 := by
  cases v with
  | ref id =>
    cases hn : h[id]? with
    | none => simp only [clone, hn]; exact hd
    | some n =>
      simp only [clone, hn]
      apply deep_push h _ hd
      have h1 := hd id n hn
      have h2 : id < h.size := (Array.getElem?_eq_some_iff.mp hn).1
      simp only
      omega
  | nilIface => exact hd
  | typedNil => exact hd
  | foreignNil => exact hd
  | plain u m => exact hd
  | fwrap u m i => exact hd

theorem deep_elem (h : Heap) (v : Val) (k : Nat) (hd : DeepCauseWF h) : DeepCauseWF (elem h v k).1 := by
  cases v with
  | ref id =>
    cases hn : (wrappedErrors h id)[k]? with
    | none => simp only [elem, hn]; exact hd
    | some n =>
      simp only [elem, hn]
      apply deep_push h _ hd
      have hm := List.mem_of_getElem? hn
      unfold wrappedErrors at hm
      obtain ⟨i, _, hi⟩ := List.mem_filterMap.mp hm
      cases hx : h[i]? with
      | none => rw [hx] at hi; cases hi
      | some x =>
        rw [hx] at hi
        simp at hi
        subst hi
        have h1 := hd i x hx
        have h2 : i < h.size := (Array.getElem?_eq_some_iff.mp hx).1
        simp only
        omega
  | nilIface => exact hd
  | typedNil => exact hd
  | foreignNil => exact hd
  | plain u m => exact hd
  | fwrap u m i => exact hd

/-- every heap the API can build when every value handed to a call mentions existing errors only (`top v ≤ size`: true of
    every value a program can hold — a value is made before it is used) -/
inductive BuiltD : Heap → Prop
  | empty : BuiltD #[]
  | new (h : Heap) (m : String) : BuiltD h → BuiltD (new h m).1
  | newWithCause (h : Heap) (m : String) (c : Val) : BuiltD h → top c ≤ h.size → BuiltD (newWithCause h m c).1
  | newEmpty (h : Heap) : BuiltD h → BuiltD (newEmpty h).1
  | wrap (h : Heap) (v : Val) : BuiltD h → top v ≤ h.size → BuiltD (wrap h v).1
  | wrapTyped (h : Heap) (v : Val) : BuiltD h → top v ≤ h.size → BuiltD (wrapTyped h v).1
  | append (h : Heap) (acc : Val) (args : List Val) : BuiltD h → top acc ≤ h.size → (∀ a ∈ args, top a ≤ h.size) →
      BuiltD (append h acc args).1
  | elem (h : Heap) (v : Val) (i : Nat) : BuiltD h → BuiltD (elem h v i).1
  | clone (h : Heap) (v : Val) (pre : String) : BuiltD h → BuiltD (clone h v pre).1

theorem builtD_deep {h : Heap} (b : BuiltD h) : DeepCauseWF h := by
  induction b with
  | empty => exact deep_empty
  | new h m _ ih => exact deep_push h _ ih (by simp [top])
  | newWithCause h m c _ hv ih => exact deep_newWithCause h m c ih hv
  | newEmpty h _ ih => exact deep_push h _ ih (by simp [top])
  | wrap h v _ hv ih => exact deep_wrap h v ih hv
  | wrapTyped h v _ hv ih => exact deep_wrapTyped h v ih hv
  | append h acc args _ ha hargs ih => exact deep_append h acc args ih ha hargs
  | elem h v i _ ih => exact deep_elem h v i ih
  | clone h v pre _ ih => exact deep_clone h v pre ih


/-! ### the walk reads causes only: heaps that agree on the causes of the cells below `k` give the same walk -/

theorem isWalk_congr (h h' : Heap) (cmp : Val → Bool) (t : Val) (k : Nat)
    (hag : ∀ id, id < k → unwrap h' (.ref id) = unwrap h (.ref id)) (hd : DeepCauseWF h) :
    ∀ (fuel : Nat) (v : Val), top v ≤ k → isWalk h' cmp t fuel v = isWalk h cmp t fuel v := by
  intro fuel
  induction fuel with
  | zero => intro v _; rfl
  | succ f ih =>
    intro v hv
    cases v with
    | ref id =>
      have hid : id < k := by simp only [top] at hv; omega
      have hle := top_unwrap_le h hd id
      simp only [isWalk]
      rw [hag id hid, ih (unwrap h (.ref id)) (by omega)]
    | fwrap u m inner =>
      simp only [isWalk]
      rw [ih inner (by simpa [top] using hv)]
    | nilIface => simp [isWalk]
    | typedNil => simp [isWalk]
    | foreignNil => simp [isWalk]
    | plain u m => simp [isWalk]

theorem costBelow_congr (h h' : Heap) (k : Nat) (hag : ∀ id, id < k → unwrap h' (.ref id) = unwrap h (.ref id)) :
    ∀ j, j ≤ k → costBelow h' j = costBelow h j := by
  intro j
  induction j with
  | zero => intro _; rfl
  | succ j ih =>
    intro hj
    simp only [costBelow]
    rw [ih (by omega), hag j (by omega)]

/-- `errors.Is` from a value that exists in `h` answers the same in any larger heap that agrees with `h` on the causes of the
    cells of `h` -/
theorem errorsIs_congr (h h' : Heap) (cmp : Val → Bool) (v t : Val) (hsz : h.size ≤ h'.size)
    (hag : ∀ id, id < h.size → unwrap h' (.ref id) = unwrap h (.ref id)) (hd : DeepCauseWF h) (hv : top v ≤ h.size) :
    errorsIs h' cmp v t = errorsIs h cmp v t := by
  have hc : costBelow h h.size ≤ costBelow h' h'.size := by
    rw [← costBelow_congr h h' h.size hag h.size (Nat.le_refl _)]
    exact costBelow_mono h' _ _ hsz
  have hf : walkFuel h v ≤ walkFuel h' v := by simp only [walkFuel]; omega
  unfold errorsIs
  rw [isWalk_congr h h' cmp t h.size hag hd (walkFuel h' v) v hv, walkFuel_enough h cmp t hd v hv _ hf]

/-- a fresh cell whose cause is the existing non-nil value `c`: `errors.Is(cell, t)` is `errors.Is(c, t)` asked BEFORE the
    cell was made, for every non-nil target other than the new cell -/
theorem errorsIs_push_transparent (h : Heap) (cmp : Val → Bool) (n : ENode) (t : Val) (hd : DeepCauseWF h)
    (hv : top n.cause ≤ h.size) (hc0 : n.cause ≠ .nilIface) (ht0 : t ≠ .nilIface) (ht : t ≠ .ref h.size) :
    errorsIs (h.push n) cmp (.ref h.size) t = errorsIs h cmp n.cause t := by
  have hd' : DeepCauseWF (h.push n) := deep_push h _ hd hv
  have hsz : (h.push n).size = h.size + 1 := by simp
  have hu : unwrap (h.push n) (.ref h.size) = n.cause := by simp [unwrap]
  have hag : ∀ id, id < h.size → unwrap (h.push n) (.ref id) = unwrap h (.ref id) := by
    intro id hid; simp [unwrap, Array.getElem?_push, Nat.ne_of_lt hid]
  rw [← errorsIs_congr h (h.push n) cmp n.cause t (by omega) hag hd hv]
  have e1 : (Val.ref h.size == Val.nilIface) = false := by simp
  have e2 : (t == Val.nilIface) = false := by simpa using ht0
  have e3 : (n.cause == Val.nilIface) = false := by simpa using hc0
  simp only [errorsIs, e1, e2, e3, Bool.or_self, Bool.false_eq_true, if_false]
  have hwf : walkFuel (h.push n) (.ref h.size) = (costBelow (h.push n) h.size + valDepth n.cause + 2) + 1 := by
    simp only [walkFuel, hsz, costBelow, hu, valDepth]; omega
  rw [hwf, isWalk_ref_step _ _ _ _ _ ht, hu]
  have hpot : potential (h.push n) n.cause ≤ valDepth n.cause + costBelow (h.push n) h.size := by
    have := costBelow_mono (h.push n) _ _ hv
    simp only [potential]; omega
  exact isWalk_fuel _ cmp t hd' _ _ n.cause (by omega) (walkFuel_gt _ n.cause (by omega))

end Errs
