import Model.NotifierHeap
import Lemmas.NotifierWorld
/-! C17: notifiers are independent of each other.  Value world: an operation changes only the notifier it writes.  Heap
    world (inner maps as cells): the same holds as long as no inner map is reachable from two notifiers (`Sep`), which the
    deep-copying merge of the code preserves and the shallow one destroys. -/
namespace Nt

/-- the notifier an operation writes (`merge n m` writes `n` and only reads `m`; `notify` writes nothing) -/
def Op.writes : Op → Nat
  | .register n .. => n
  | .unregister n _ => n
  | .merge n _ => n
  | .setEnabled n _ => n
  | .reset n => n
  | .startBatch n => n
  | .endBatch n => n
  | .notify n _ => n

theorem step_other (pan : Nat → Bool) (w : World) (op : Op) (i : Nat) (h : op.writes ≠ i) : (step pan w op).1 i = w i := by
  have h' : ¬ i = op.writes := fun e => h e.symm
  cases op with
  | merge n m =>
    simp only [step]
    split
    · rfl
    · simp only [World.set]; exact if_neg h'
  | notify n raw => rfl
  | _ => simp only [step, World.set]; exact if_neg h'

theorem runFrom_others (pan : Nat → Bool) (ops : List Op) (w : World) (i : Nat) (h : ∀ op ∈ ops, op.writes ≠ i) :
    (runFrom pan w ops).1 i = w i := by
  induction ops generalizing w with
  | nil => rfl
  | cons op ops ih =>
    simp only [runFrom]
    rw [ih _ (fun o ho => h o (List.mem_cons_of_mem _ ho)), step_other pan w op i (h op (by simp))]

end Nt

namespace NtH
open Nt

section generic
variable {κ ν : Type} [DecidableEq κ]

/-- notifier `i` holds a reference to cell `a` -/
def Owns (H : HWorld κ ν) (i : Nat) (a : Addr) : Prop := ∃ n, (n, a) ∈ H.pm i

/-- **separation**: every referenced cell is allocated, and no cell is referenced by two notifiers -/
structure Sep (H : HWorld κ ν) : Prop where
  bound : ∀ i a, Owns H i a → a < H.next
  disj : ∀ i j a, Owns H i a → Owns H j a → i = j
  /-- within one notifier no two names reference the same cell -/
  nodupA : ∀ i, ((H.pm i).map (·.2)).Nodup

theorem sep_init (z : ν) : Sep (HWorld.init z : HWorld κ ν) :=
  ⟨fun i a h => (by obtain ⟨n, hn⟩ := h; cases hn), fun i j a h _ => (by obtain ⟨n, hn⟩ := h; cases hn), fun _ => List.nodup_nil⟩

/-- what a step working for notifier `i` may do: allocate, change `i`'s references (only dropping old ones or adding
    fresh cells), write cells `i` owns or fresh ones — and keep the separation -/
structure Frame (H H' : HWorld κ ν) (i : Nat) : Prop where
  mono : H.next ≤ H'.next
  others : ∀ j, j ≠ i → H'.pm j = H.pm j
  cells : ∀ a, a < H.next → ¬ Owns H i a → H'.heap a = H.heap a
  fresh : ∀ a, Owns H' i a → Owns H i a ∨ H.next ≤ a
  sep : Sep H'

theorem frame_refl (H : HWorld κ ν) (i : Nat) (hs : Sep H) : Frame H H i :=
  ⟨Nat.le_refl _, fun _ _ => rfl, fun _ _ _ => rfl, fun _ h => Or.inl h, hs⟩

theorem frame_trans {H H' H'' : HWorld κ ν} {i : Nat} (h1 : Frame H H' i) (h2 : Frame H' H'' i) : Frame H H'' i := by
  refine ⟨Nat.le_trans h1.mono h2.mono, fun j hj => (h2.others j hj).trans (h1.others j hj), ?_, ?_, h2.sep⟩
  · intro a ha hno
    rw [h2.cells a (Nat.lt_of_lt_of_le ha h1.mono) ?_, h1.cells a ha hno]
    intro ho
    rcases h1.fresh a ho with h | h
    · exact hno h
    · exact absurd ha (Nat.not_lt.mpr h)
  · intro a ho
    rcases h2.fresh a ho with h | h
    · exact h1.fresh a h
    · exact Or.inr (Nat.le_trans h1.mono h)

theorem mem_assocSet {α β : Type} [DecidableEq α] (l : List (α × β)) (k : α) (v : β) (x : α × β)
    (h : x ∈ assocSet l k v) : x ∈ l ∨ x = (k, v) := by
  induction l with
  | nil => simp [assocSet] at h; exact Or.inr h
  | cons a l ih =>
    obtain ⟨k', v'⟩ := a
    simp only [assocSet] at h
    split at h
    · rcases List.mem_cons.mp h with h | h
      · exact Or.inr h
      · exact Or.inl (List.mem_cons_of_mem _ h)
    · rcases List.mem_cons.mp h with h | h
      · exact Or.inl (by rw [h]; simp)
      · rcases ih h with h | h
        · exact Or.inl (List.mem_cons_of_mem _ h)
        · exact Or.inr h

theorem mem_assocDel {α β : Type} [DecidableEq α] (l : List (α × β)) (k : α) (x : α × β) (h : x ∈ assocDel l k) : x ∈ l :=
  (List.mem_filter.mp h).1

theorem owns_upd_self (H : HWorld κ ν) (i : Nat) (v : List (κ × Addr)) (h' : Addr → ν) (nx : Addr) (a : Addr) :
    Owns { heap := h', next := nx, pm := upd H.pm i v } i a ↔ ∃ n, (n, a) ∈ v := by
  simp [Owns, upd]

theorem owns_upd_other (H : HWorld κ ν) (i j : Nat) (hj : j ≠ i) (v : List (κ × Addr)) (h' : Addr → ν)
    (nx : Addr) (a : Addr) : Owns { heap := h', next := nx, pm := upd H.pm i v } j a ↔ Owns H j a := by
  simp [Owns, upd, hj]

theorem addrs_assocSet (l : List (κ × Addr)) (n : κ) (a : Addr) :
    ∀ x ∈ (assocSet l n a).map (·.2), x ∈ l.map (·.2) ∨ x = a := by
  intro x hx
  obtain ⟨e, he, rfl⟩ := List.mem_map.mp hx
  rcases mem_assocSet _ _ _ _ he with h | h
  · exact Or.inl (List.mem_map.mpr ⟨e, h, rfl⟩)
  · rw [h]; exact Or.inr rfl

theorem addrs_assocSet_nodup (l : List (κ × Addr)) (n : κ) (a : Addr) (hn : (l.map (·.2)).Nodup)
    (ha : a ∉ l.map (·.2)) : ((assocSet l n a).map (·.2)).Nodup := by
  induction l with
  | nil => simp [assocSet]
  | cons e l ih =>
    obtain ⟨k, b⟩ := e
    simp only [List.map_cons, List.nodup_cons, List.mem_cons, not_or] at hn ha
    simp only [assocSet]
    split
    · simp only [List.map_cons, List.nodup_cons]
      exact ⟨ha.2, hn.2⟩
    · simp only [List.map_cons, List.nodup_cons]
      refine ⟨?_, ih hn.2 ha.2⟩
      intro hm
      rcases addrs_assocSet l n a b hm with h | h
      · exact hn.1 h
      · exact ha.1 h.symm

/-- writing a cell that `i` owns (no change of references) -/
theorem frame_write (H : HWorld κ ν) (i : Nat) (hs : Sep H) (a : Addr) (ho : Owns H i a) (v : ν) :
    Frame H { H with heap := hset H.heap a v } i := by
  refine ⟨Nat.le_refl _, fun _ _ => rfl, ?_, fun _ h => Or.inl h, ⟨hs.bound, hs.disj, hs.nodupA⟩⟩
  intro b _ hno
  have : b ≠ a := fun e => hno (e ▸ ho)
  simp [hset, this]

/-- allocating a fresh cell with content `v` and letting `i`'s name `n` point to it -/
theorem frame_alloc (H : HWorld κ ν) (i : Nat) (hs : Sep H) (n : κ) (v : ν) :
    Frame H { heap := hset H.heap H.next v, next := H.next + 1, pm := upd H.pm i (assocSet (H.pm i) n H.next) } i := by
  refine ⟨Nat.le_succ _, fun j hj => by simp [upd, hj], ?_, ?_, ?_, ?_, ?_⟩
  · intro b hb _
    have : b ≠ H.next := Nat.ne_of_lt hb
    simp [hset, this]
  · intro a ho
    obtain ⟨n', hn'⟩ := (owns_upd_self H i _ _ _ a).mp ho
    rcases mem_assocSet _ _ _ _ hn' with h | h
    · exact Or.inl ⟨n', h⟩
    · simp only [Prod.mk.injEq] at h; exact Or.inr (Nat.le_of_eq h.2.symm)
  · intro k a ho
    by_cases hk : k = i
    · subst hk
      obtain ⟨n', hn'⟩ := (owns_upd_self H k _ _ _ a).mp ho
      rcases mem_assocSet _ _ _ _ hn' with h | h
      · exact Nat.lt_succ_of_lt (hs.bound k a ⟨n', h⟩)
      · simp only [Prod.mk.injEq] at h; rw [h.2]; exact Nat.lt_succ_self _
    · exact Nat.lt_succ_of_lt (hs.bound k a ((owns_upd_other H i k hk _ _ _ a).mp ho))
  · intro k j a hk hj
    -- a cell owned afterwards is an old one (owner unchanged) or the fresh one (owner i)
    have old : ∀ x, Owns { heap := hset H.heap H.next v, next := H.next + 1, pm := upd H.pm i (assocSet (H.pm i) n H.next) } x a →
        (Owns H x a) ∨ (x = i ∧ a = H.next) := by
      intro x hx
      by_cases hxi : x = i
      · subst hxi
        obtain ⟨n', hn'⟩ := (owns_upd_self H x _ _ _ a).mp hx
        rcases mem_assocSet _ _ _ _ hn' with h | h
        · exact Or.inl ⟨n', h⟩
        · simp only [Prod.mk.injEq] at h; exact Or.inr ⟨rfl, h.2⟩
      · exact Or.inl ((owns_upd_other H i x hxi _ _ _ a).mp hx)
    rcases old k hk with h1 | ⟨h1, h1'⟩ <;> rcases old j hj with h2 | ⟨h2, h2'⟩
    · exact hs.disj k j a h1 h2
    · exact absurd (hs.bound k a h1) (by rw [h2']; exact Nat.lt_irrefl _)
    · exact absurd (hs.bound j a h2) (by rw [h1']; exact Nat.lt_irrefl _)
    · rw [h1, h2]
  · intro k
    by_cases hk : k = i
    · subst hk
      simp only [upd, if_true]
      exact addrs_assocSet_nodup _ n H.next (hs.nodupA k) (fun hm => by
        obtain ⟨x, hx, hxa⟩ := List.mem_map.mp hm
        exact absurd (hs.bound k x.2 ⟨x.1, hx⟩) (by rw [hxa]; exact Nat.lt_irrefl _))
    · simp only [upd, if_neg hk]; exact hs.nodupA k

/-- dropping references of `i` (no allocation, no write) keeps the frame -/
theorem frame_drop (H : HWorld κ ν) (i : Nat) (hs : Sep H) (h' : Addr → ν) (v : List (κ × Addr))
    (hsub : ∀ x ∈ v, x ∈ H.pm i) (hv : (v.map (·.2)).Nodup) (hcells : ∀ a, a < H.next → ¬ Owns H i a → h' a = H.heap a) :
    Frame H { heap := h', next := H.next, pm := upd H.pm i v } i := by
  have sub : ∀ k a, Owns { heap := h', next := H.next, pm := upd H.pm i v } k a → Owns H k a := by
    intro k a ho
    by_cases hk : k = i
    · subst hk
      obtain ⟨n', hn'⟩ := (owns_upd_self H k _ _ _ a).mp ho
      exact ⟨n', hsub _ hn'⟩
    · exact (owns_upd_other H i k hk _ _ _ a).mp ho
  exact ⟨Nat.le_refl _, fun j hj => by simp [upd, hj], hcells, fun a ho => Or.inl (sub i a ho),
    ⟨fun k a ho => hs.bound k a (sub k a ho), fun k j a hk hj => hs.disj k j a (sub k a hk) (sub j a hj),
      fun k => by
        by_cases hk : k = i
        · subst hk; simp only [upd, if_true]; exact hv
        · simp only [upd, if_neg hk]; exact hs.nodupA k⟩⟩

theorem frame_hUpd (H : HWorld κ ν) (hs : Sep H) (i : Nat) (k : κ) (f : ν → ν) (z : ν) : Frame H (hUpd H i k f z) i := by
  unfold hUpd
  cases hg : assocGet (H.pm i) k with
  | some a => exact frame_write H i hs a ⟨k, mem_of_assocGet _ _ _ hg⟩ _
  | none => exact frame_alloc H i hs k _

theorem frame_hMergeG (comb : ν → ν → ν) (H : HWorld κ ν) (hs : Sep H) (i : Nat) (e : κ × Addr) :
    Frame H (hMergeG comb true i H e) i := by
  unfold hMergeG
  cases hg : assocGet (H.pm i) e.1 with
  | some a => exact frame_write H i hs a ⟨e.1, mem_of_assocGet _ _ _ hg⟩ _
  | none => simp only [if_true]; exact frame_alloc H i hs e.1 _

theorem frame_hDel (H : HWorld κ ν) (hs : Sep H) (i : Nat) (k : κ) : Frame H (hDel H i k) i :=
  frame_drop H i hs _ _ (fun x hx => mem_assocDel _ _ _ hx)
    ((hs.nodupA i).sublist (List.Sublist.map _ List.filter_sublist)) (fun _ _ _ => rfl)

theorem frame_reset (H : HWorld κ ν) (hs : Sep H) (i : Nat) : Frame H { H with pm := upd H.pm i [] } i :=
  frame_drop H i hs _ [] (fun x hx => by cases hx) List.nodup_nil (fun _ _ _ => rfl)

/-- under separation a step leaves every OTHER notifier's dereferenced map alone -/
theorem deref_of_frame (H H' : HWorld κ ν) (i j : Nat) (hs : Sep H) (hf : Frame H H' i) (hj : j ≠ i) : deref H' j = deref H j := by
  unfold deref
  rw [hf.others j hj]
  apply List.map_congr_left
  intro e he
  have ho : Owns H j e.2 := ⟨e.1, he⟩
  rw [hf.cells e.2 (hs.bound j _ ho) (fun hi => hj (hs.disj j i _ ho hi))]

end generic

theorem frame_hRegOne (H : PW) (hs : Sep H) (i : Nat) (n : Name) (t : Nat) (p : Int) :
    Frame H (hRegOne H i n t p) i := frame_hUpd H hs i n _ _

theorem frame_hUnregOne (H : PW) (hs : Sep H) (i t : Nat) (n : Name) : Frame H (hUnregOne i t H n) i := by
  unfold hUnregOne
  cases hg : assocGet (H.pm i) n with
  | none => exact frame_refl H i hs
  | some a =>
    have ho : Owns H i a := ⟨n, mem_of_assocGet _ _ _ hg⟩
    simp only
    split
    · refine frame_drop H i hs _ _ (fun x hx => mem_assocDel _ _ _ hx)
        ((hs.nodupA i).sublist (List.Sublist.map _ List.filter_sublist)) ?_
      intro b _ hno
      have : b ≠ a := fun e => hno (e ▸ ho)
      simp [hset, this]
    · exact frame_write H i hs a ho _

theorem frame_hMergeStep (H : PW) (hs : Sep H) (i : Nat) (e : Name × Addr) : Frame H (hMergeStep true i H e) i :=
  frame_hMergeG overlay H hs i e

section generic2
variable {κ ν : Type} [DecidableEq κ]
theorem frame_foldl {α : Type} (f : HWorld κ ν → α → HWorld κ ν) (i : Nat) (hf : ∀ H x, Sep H → Frame H (f H x) i) (l : List α)
    (H : HWorld κ ν) (hs : Sep H) : Frame H (l.foldl f H) i := by
  induction l generalizing H with
  | nil => exact frame_refl H i hs
  | cons x l ih => exact frame_trans (hf H x hs) (ih _ (hf H x hs).sep)

end generic2

/-- is the operation one the code performs (every merge copies the inner maps) -/
def HOp.deep : HOp → Bool
  | .merge d _ _ => d
  | _ => true

theorem frame_hstep (H : PW) (hs : Sep H) (op : HOp) (hd : op.deep = true) : Frame H (hstep H op) op.target := by
  cases op with
  | reg i n t p => exact frame_hRegOne H hs i n t p
  | unreg i t ns => exact frame_foldl _ i (fun H n hs => frame_hUnregOne H hs i t n) ns H hs
  | merge d i m =>
    simp only [HOp.deep] at hd
    subst hd
    simp only [hstep, HOp.target]
    split
    · exact frame_refl H i hs
    · exact frame_foldl _ i (fun H e hs => frame_hMergeStep H hs i e) _ H hs
  | reset i => exact frame_reset H hs i

theorem sep_hrunFrom (ops : List HOp) (H : PW) (hs : Sep H) (hd : ∀ op ∈ ops, op.deep = true) : Sep (ops.foldl hstep H) := by
  induction ops generalizing H with
  | nil => exact hs
  | cons op ops ih =>
    exact ih _ (frame_hstep H hs op (hd op (by simp))).sep (fun o ho => hd o (List.mem_cons_of_mem _ ho))

/-- history of the contrast `C17.shared_inner_map_refuted`: notifier 0 registers target 1 (priority 5) for "a", notifier 1
    merges notifier 0 (`d` = with copied inner maps), registers target 2 (priority 7) for "a", unregisters target 1 -/
def shareHist (d : Bool) : List HOp := [.reg 0 [[97]] 1 5, .merge d 1 0, .reg 1 [[97]] 2 7, .unreg 1 1 [[[97]]]]

end NtH
