import Lemmas.I128Div
import Lemmas.U128Knuth
/-! C01 helper lemmas: `Int128.Div64` (its own sign fix-up on an `int64` operand, through `Uint128.Div64`). -/
namespace I128
open U128 (W Res)

theorem neg64_iff (n : W) : neg64 n = decide (int64Val n < 0) := by
  have := n.isLt
  unfold neg64 int64Val
  by_cases h : n.toNat ≥ 2^63
  · rw [if_pos h, decide_eq_true h, eq_comm, decide_eq_true_iff]; omega
  · rw [if_neg h, decide_eq_false h, eq_comm, decide_eq_false_iff_not]; omega

/-- magnitude of the `int64` operand as the code computes it (`-n` wraps at `MinInt64`, whose pattern read as a
    `uint64` is its magnitude 2^63) -/
theorem mag64_toNat (n : W) : (if neg64 n = true then -n else n).toNat = (int64Val n).natAbs := by
  have := n.isLt
  unfold neg64 int64Val
  by_cases h : n.toNat ≥ 2^63
  · rw [if_pos h, decide_eq_true h, if_pos rfl, BitVec.toNat_neg]; omega
  · rw [if_neg h, decide_eq_false h, if_neg (by simp)]; omega

/-- **Int128.Div64**: quotient truncated toward zero (reduced mod 2^128) for every non-zero `int64` divisor -/
theorem divW_correct (a : I128) (n : W) (h : int64Val n ≠ 0) :
    ∃ q, a.divW n = .ok q ∧ q.toInt = wrap128 (a.toInt.tdiv (int64Val n)) := by
  have ma := mag_toNat a
  have ma' : (if a.lessThan zero = true then a.neg else a).toU.toNat = a.toInt.natAbs := Int.ofNat.inj ma
  have mn := mag64_toNat n
  have hn0 : (U128.ofW (if neg64 n = true then -n else n)).toNat ≠ 0 := by rw [U128.ofW_toNat, mn]; omega
  obtain ⟨q, r, e, hq, _⟩ := U128.divMod_total (if a.lessThan zero = true then a.neg else a).toU
    (U128.ofW (if neg64 n = true then -n else n)) hn0
  unfold divW
  simp only [U128.divW_eq, U128.div_eq_divMod, e, U128.Res.map]
  refine ⟨_, rfl, ?_⟩
  rw [tdiv_abs, lessThan_zero, neg64_iff]
  have hq' : (q.toNat : Int) = ((a.toInt.natAbs / (int64Val n).natAbs : Nat) : Int) := by
    rw [hq, ma', U128.ofW_toNat, mn]
  split
  · rw [neg_ofU_toInt, hq']
  · rw [ofU_toInt, hq']
end I128
