import Model.Conv128Fmt
/-! C02 helper definitions, part 18 (core Lean only): comparing the constants and tables that the model copies by hand
    with what `vlib/C02.py` reads out of the working tree's sources on every run (`Generated/C02Facts.lean`).
    A source fact is optional (`none` / `[]` when the source no longer spells it in the expected form): agreement means
    "absent, or equal to the model's". -/
namespace Conv

def agreesNat (src : Option Nat) (model : Nat) : Bool := match src with | none => true | some v => v == model
def agreesInt (src : Option Int) (model : Int) : Bool := match src with | none => true | some v => v == model
def agreesPair (src : Option (Nat × Nat)) (hi lo : BitVec 64) : Bool :=
  match src with | none => true | some (h, l) => h == hi.toNat && l == lo.toNat

def sameChars (a b : List Char) : Bool := a.all (b.contains ·) && b.all (a.contains ·)

/-- one arm of the `switch verb` of `scanText`: the model's `verbPrefix` has the same prefix and the same set of
    prefix letters -/
def scanArmAgrees (e : Char × List Char × List Char) : Bool :=
  match verbPrefix e.1 with
  | some (pfx, letters) => pfx == e.2.1 && sameChars letters e.2.2
  | none => false

/-- the verbs the model treats (every other verb leaves the text alone, in the source: `default: return text`) -/
def scanModelVerbs : List Char := ['b', 'o', 'O', 'd', 'x', 'X']
def fmtModelVerbs : List Char := ['b', 'o', 'O', 'd', 's', 'v', 'x', 'X']

def sharpState (sharp : Bool) : FmtState := ⟨false, false, sharp, false, false, none, none⟩

/-- the integer literals inside the `float64(…)` constant declarations, as the model's `constsComputed` uses them -/
def litMaxU128 : Int := 2^128 - 1
def litMinI128 : Int := -(2^127)
def litMaxI128 : Int := 2^127 - 1

theorem constsComputed_uses_literals :
    constsComputed = [GoSem.F64.ofNat (2^64 - 1), GoSem.F64.nextTowardZero (GoSem.F64.ofNat (2^64 - 1)),
      GoSem.F64.nextTowardZero (GoSem.F64.ofNat litMaxU128.toNat),
      GoSem.F64.add (GoSem.F64.ofNat (2^64 - 1)) (GoSem.F64.ofNat 1), GoSem.F64.ofInt litMinI128, GoSem.F64.ofInt litMaxI128] := by
  rfl

end Conv
