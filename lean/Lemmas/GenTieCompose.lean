import Props.C01
import Lemmas.GenTie
/-! C01, translator tie — the compositional route of the proof portfolio of `Props/C01Gen.lean` (the spec-based fallback
    of build-c01 is `Lemmas/GenTieSpec.lean`; this file is independent of it).

    `gen_tie` (Lemmas/GenTie.lean) compares a regenerated definition with the model syntactically up to control flow and
    linear arithmetic.  A rewrite of the Go code that keeps the behaviour but changes the ALGORITHM (negation as `0 − i`
    through `bits.Sub64`, `Abs` through `Neg`, the ordering predicates through one `LessThan`, `Mul64` through
    `bits.Mul64`) needs more: `tie_spec` first rewrites every call of an already tied function into its model function
    (simp set `gen_eq`: the tie theorems in the order they are proved), folds borrow / carry chains into the 128-bit
    operations of the model, replaces every model function by its SPECIFICATION (`Props/C01.lean`: values mod 2^128,
    order of `toInt`), and decides the resulting statement about `toInt` / `toNat` by linear arithmetic; equality of the
    records follows from `I128.toInt_inj` / `U128.toNat_inj`. -/

namespace GenTieCompose
open U128 (W add64 sub64 mul64)

/-! ## borrow / carry chains are the 128-bit operations of the model -/

theorem fold_sub_I (ah al bh bl : W) :
    (⟨(sub64 ah bh (sub64 al bl 0#64).2).1, (sub64 al bl 0#64).1⟩ : I128) = I128.sub ⟨ah, al⟩ ⟨bh, bl⟩ := rfl
theorem fold_add_I (ah al bh bl : W) :
    (⟨(add64 ah bh (add64 al bl 0#64).2).1, (add64 al bl 0#64).1⟩ : I128) = I128.add ⟨ah, al⟩ ⟨bh, bl⟩ := rfl
theorem fold_sub_U (ah al bh bl : W) :
    (⟨(sub64 ah bh (sub64 al bl 0#64).2).1, (sub64 al bl 0#64).1⟩ : U128) = U128.sub ⟨ah, al⟩ ⟨bh, bl⟩ := rfl
theorem fold_add_U (ah al bh bl : W) :
    (⟨(add64 ah bh (add64 al bl 0#64).2).1, (add64 al bl 0#64).1⟩ : U128) = U128.add ⟨ah, al⟩ ⟨bh, bl⟩ := rfl
theorem toU_mk (x : I128) : (⟨x.hi, x.lo⟩ : U128) = x.toU := rfl
theorem zero_toInt : (⟨0#64, 0#64⟩ : I128).toInt = 0 := by decide

/-- `hi, lo := bits.Mul64(a, b)` with a word added to `hi`: the value -/
theorem mul64_mk_toNat (a b c : W) :
    (⟨(mul64 a b).1 + c, (mul64 a b).2⟩ : U128).toNat = (a.toNat * b.toNat + c.toNat * 2^64) % 2^128 := by
  have ha := a.isLt; have hb := b.isLt; have hc := c.isLt
  have hab : a.toNat * b.toNat < 2^64 * 2^64 := Nat.mul_lt_mul'' ha hb
  unfold U128.toNat mul64
  simp only [BitVec.toNat_add, BitVec.toNat_ofNat, BitVec.toNat_mul]
  generalize a.toNat * b.toNat = p at *
  omega

/-- `Mul64` through `bits.Mul64(u.lo, n)` and `u.hi * n` -/
theorem mul64_chain (u : U128) (n : W) :
    (⟨(mul64 u.lo n).1 + u.hi * n, (mul64 u.lo n).2⟩ : U128).toNat = (u.toNat * n.toNat) % 2^128 := by
  rw [mul64_mk_toNat, BitVec.toNat_mul]
  have e : u.toNat * n.toNat = u.hi.toNat * n.toNat * 2^64 + u.lo.toNat * n.toNat := by
    unfold U128.toNat; rw [Nat.add_mul, Nat.mul_right_comm]
  rw [e]
  generalize u.hi.toNat * n.toNat = h
  generalize u.lo.toNat * n.toNat = l
  omega

/-! ## idioms of the signed type as statements about `toInt` -/

theorem isNegative_iff (i : I128) : (i.hi &&& 9223372036854775808#64 ≠ 0#64) ↔ i.toInt < 0 := I128.isNeg_iff i
theorem isNonneg_iff (i : I128) : (i.hi &&& 9223372036854775808#64 = 0#64) ↔ 0 ≤ i.toInt := by
  have := isNegative_iff i; rw [ne_eq] at this
  constructor
  · intro h; by_contra hc; exact (this.mpr (by omega)) h
  · intro h; by_contra hc; have := this.mp hc; omega
theorem toInt_ite (c : Prop) [Decidable c] (a b : I128) :
    (if c then a else b).toInt = if c then a.toInt else b.toInt := by split <;> rfl
theorem toNat_ite (c : Prop) [Decidable c] (a b : U128) :
    (if c then a else b).toNat = if c then a.toNat else b.toNat := by split <;> rfl
theorem natCast_ite (c : Prop) [Decidable c] (a b : Nat) :
    ((if c then a else b : Nat) : Int) = if c then (a : Int) else (b : Int) := by split <;> rfl
theorem toU_toNat (i : I128) : (i.toU.toNat : Int) = i.toInt % 340282366920938463463374607431768211456 := by
  have := I128.toNat_as_int i; norm_num at this; exact this
theorem wrap128_def (z : Int) : I128.wrap128 z =
    (z + 170141183460469231731687303715884105728) % 340282366920938463463374607431768211456
      - 170141183460469231731687303715884105728 := by unfold I128.wrap128; norm_num
theorem toInt_bounds (i : I128) :
    -170141183460469231731687303715884105728 ≤ i.toInt ∧ i.toInt < 170141183460469231731687303715884105728 := by
  have := I128.toInt_range i; norm_num at this; exact this

end GenTieCompose

/-! ## the proof script -/

/-- `tie_spec [definition under study, facts]`: unfold the definition under study; rewrite the calls of already tied
    functions into the model (`gen_eq`); unfold generated helpers that have no tie (`gen_def`); fold borrow / carry
    chains; replace every model function by its specification; then decide: `Bool` connectives become propositions, every
    `if` is split, `wrap128` is unfolded, `omega` closes -/
syntax "tie_spec" "[" Lean.Parser.Tactic.simpLemma,* "]" : tactic
macro_rules
  | `(tactic| tie_spec [$ls,*]) => `(tactic|
      (try with_reducible refine Bool.eq_iff_iff.mpr ?_) <;>
      (simp only [$ls,*, gen_eq, GenTieCompose.fold_sub_I, GenTieCompose.fold_add_I, GenTieCompose.fold_sub_U,
        GenTieCompose.fold_add_U, GenTieCompose.toU_mk, I128.mk_eta, GenTieCompose.toInt_ite, GenTieCompose.toNat_ite,
        Bool.and_eq_true, Bool.or_eq_true, decide_eq_true_eq, Bool.ite_eq_true_distrib, Bool.ite_eq_false_distrib,
        Bool.not_eq_true', decide_eq_false_iff_not, Bool.false_eq_true, Bool.true_eq_false, eq_self_iff_true]) <;>
      (try simp only [gen_def, GenTieCompose.isNegative_iff, GenTieCompose.isNonneg_iff, decide_eq_true_eq,
        decide_eq_false_iff_not, Bool.not_eq_true', ne_eq]) <;>
      (try simp only [C01.iadd_spec, C01.isub_spec, C01.imul_spec, C01.iinc_spec, C01.idec_spec, C01.iadd64_spec,
        C01.isub64_spec, C01.imul64_spec, C01.neg_spec, C01.abs_spec, C01.absUint128_spec, C01.sign_spec,
        C01.icmp_spec, C01.icmp64_spec, C01.igt_spec, C01.ige_spec, C01.ilt_spec, C01.ile_spec, C01.ieq_spec,
        C01.igt64_spec, C01.ige64_spec, C01.ilt64_spec, C01.ile64_spec, C01.ieq64_spec, (C01.ifrom64_spec _).1,
        C01.add_spec, C01.sub_spec, C01.mul_spec, C01.mul64_spec, C01.add64_spec, C01.sub64_spec,
        GenTieCompose.zero_toInt, GenTieCompose.toU_toNat, GenTieCompose.toInt_ite, GenTieCompose.toNat_ite,
        GenTieCompose.natCast_ite, BitVec.reduceToInt, decide_eq_true_eq, decide_eq_false_iff_not, Bool.not_eq_true',
        decide_eq_decide, Int.zero_sub, ge_iff_le, gt_iff_lt]) <;>
      (try split_ifs) <;>
      first
      | with_reducible rfl
      | omega
      | ((try simp only [GenTieCompose.wrap128_def] at *) <;> omega))
