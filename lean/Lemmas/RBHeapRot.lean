import Lemmas.RBHeap
set_option linter.unusedSimpArgs false
set_option linter.unusedVariables false
/-! C06 helper lemmas, part 6: the two pointer-level rotations keep every parent link (`tree.go:172-210`). -/
namespace RB
namespace PTree
variable {K V : Type}

theorem get_mod_self (t : PTree K V) (i : Nat) (f : PNode K V → PNode K V) :
    (t.mod i f).get (some i) = (t.get (some i)).map f := by
  rw [get_mod]; simp

theorem get_mod_ne (t : PTree K V) {i j : Nat} (f : PNode K V → PNode K V) (h : i ≠ j) :
    (t.mod i f).get (some j) = t.get (some j) := by
  rw [get_mod]; simp [h]

theorem upd_eq (t : PTree K V) (i : Nat) (f : PNode K V → PNode K V) :
    t.upd (some i) f = if (t.get (some i)).isSome then some (t.mod i f) else none := by
  by_cases h : (t.get (some i)).isSome = true
  · rw [upd_of_isSome t i f h, if_pos h]
  · rw [if_neg h]
    simp only [get] at h
    have : ¬ i < t.nodes.size := by
      intro h'
      apply h
      simp [h']
    simp [upd, this]

@[simp] theorem get_root_upd (t : PTree K V) (r : Ptr) (p : Ptr) :
    ({ t with root := r } : PTree K V).get p = t.get p := by
  cases p <;> rfl

theorem mod_root_comm (t : PTree K V) (r : Ptr) (i : Nat) (f : PNode K V → PNode K V) :
    ({ t with root := r } : PTree K V).mod i f = { t.mod i f with root := r } := rfl

end PTree
end RB

namespace RB

theorem AT.ptr_mem_addrs {K V : Type} {s : AT K V} {x : Nat} (h : s.ptr = some x) : x ∈ s.addrs := by
  cases s with
  | nil => simp [AT.ptr] at h
  | node a c l k v r => simp only [AT.ptr, Option.some.injEq] at h; subst h; simp [AT.addrs]

namespace PTree
variable {K V : Type}

theorem get_some' (t : PTree K V) (i : Nat) : t.get (some i) = t.nodes[i]? := rfl

theorem upd_eq' (t : PTree K V) (i : Nat) (f : PNode K V → PNode K V) :
    t.upd (some i) f = if t.nodes[i]?.isSome then some { t with nodes := t.nodes.modify i f } else none := by
  rw [upd_eq]; rfl

/-- what a rotation at `a` does to the node above: the child link that pointed to `a` now points to `b`
    (`if n.parent.left == n { n.parent.left = right } else { n.parent.right = right }`) -/
def relinkL (a b : Nat) (x : PNode K V) : PNode K V :=
  if x.left == some a then { x with left := some b } else { x with right := some b }

/-- the mirror image (`rotateRight` tests `n.parent.right == n` first) -/
def relinkR (a b : Nat) (x : PNode K V) : PNode K V :=
  if x.right == some a then { x with right := some b } else { x with left := some b }

/-- common part of the rotation proofs: from the pointwise description of the memory after `rotateLeft` to `Owns` of the
    rotated tree and the frame -/
theorem rotL_post {t t' : PTree K V} {par : Ptr} {a b : Nat} {c rc : Color} {l rl rr : AT K V} {k rk : K} {v rv : V}
    (hl : Owns t (some a) l) (hrl : Owns t (some b) rl) (hrr : Owns t (some b) rr)
    (hnd : (AT.node a c l k v (.node b rc rl rk rv rr)).addrs.Nodup)
    (hpar : ∀ p, par = some p → p ∉ (AT.node a c l k v (.node b rc rl rk rv rr)).addrs)
    (hA : t'.get (some a) = some ⟨k, v, some b, l.ptr, rl.ptr, decide (c = .black)⟩)
    (hB : t'.get (some b) = some ⟨rk, rv, par, some a, rr.ptr, decide (rc = .black)⟩)
    (hRL : ∀ j, rl.ptr = some j → t'.get (some j) = (t.get (some j)).map fun x => { x with parent := some a })
    (hO : ∀ j, j ≠ a → j ≠ b → rl.ptr ≠ some j → par ≠ some j → t'.get (some j) = t.get (some j)) :
    Owns t' par (.node b rc (.node a c l k v rl) rk rv rr) ∧
    (∀ j, j ∉ (AT.node a c l k v (.node b rc rl rk rv rr)).addrs → par ≠ some j → t'.get (some j) = t.get (some j)) := by
  simp only [AT.addrs, List.nodup_cons, List.mem_append, List.mem_cons, not_or, List.nodup_append] at hnd hpar
  obtain ⟨⟨hal, hab, harl, harr⟩, hlnd, ⟨⟨hbrl, hbrr⟩, hrlnd, hrrnd, hrlrr⟩, hlx⟩ := hnd
  refine ⟨⟨hB, ⟨hA, ?_, ?_⟩, ?_⟩, ?_⟩
  · refine Owns.frame (fun x hx => hO x ?_ ?_ ?_ ?_) hl
    · rintro rfl; exact hal hx
    · exact hlx x hx b (Or.inl rfl)
    · intro e; exact hlx x hx x (Or.inr (Or.inl (AT.ptr_mem_addrs e))) rfl
    · intro e; exact (hpar x e).2.1 hx
  · refine Owns.reparent hRL (fun x hx hne => hO x ?_ ?_ hne ?_) hrlnd hrl
    · rintro rfl; exact harl hx
    · rintro rfl; exact hbrl hx
    · intro e; exact (hpar x e).2.2.2.1 hx
  · refine Owns.frame (fun x hx => hO x ?_ ?_ ?_ ?_) hrr
    · rintro rfl; exact harr hx
    · rintro rfl; exact hbrr hx
    · intro e; exact hrlrr x (AT.ptr_mem_addrs e) x hx rfl
    · intro e; exact (hpar x e).2.2.2.2 hx
  · intro j hj hjp
    simp only [AT.addrs, List.mem_append, List.mem_cons, not_or] at hj
    refine hO j hj.1 hj.2.2.1 ?_ hjp
    intro e; exact hj.2.2.2.1 (AT.ptr_mem_addrs e)

theorem exists_of_isSome {α : Type} {o : Option α} (h : o.isSome = true) : ∃ x, o = some x := by
  cases o with
  | none => simp at h
  | some x => exact ⟨x, rfl⟩

/-- evaluate the body of a rotation on a memory whose relevant cells are known -/
syntax "rot_eval " "[" Lean.Parser.Tactic.simpLemma,* "]" : tactic
macro_rules
  | `(tactic| rot_eval [$ls,*]) => `(tactic|
      simp only [rotateLeft, rotateRight, setRight, setLeft, setParent, upd_eq', get_some', get_none, Array.getElem?_modify,
        beq_self_eq_true, beq_iff_eq, relinkL, relinkR,
        Option.bind_eq_bind, Option.bind_some, Option.bind_none, Option.isSome_some, Option.isSome_none, Option.map_some,
        if_true, if_false, ↓reduceIte, Bool.false_eq_true, Option.some.injEq, exists_eq_left', $ls,*])

theorem rotateLeft_pointwise (t : PTree K V) (par q : Ptr) (a b : Nat) (ka kb : K) (va vb : V) (la rb : Ptr)
    (ca cb : Bool)
    (ha : t.get (some a) = some ⟨ka, va, par, la, some b, ca⟩)
    (hb : t.get (some b) = some ⟨kb, vb, some a, q, rb, cb⟩)
    (hab : a ≠ b)
    (hq : ∀ j, q = some j → j ≠ a ∧ j ≠ b ∧ (t.get (some j)).isSome)
    (hp : ∀ p, par = some p → p ≠ a ∧ p ≠ b ∧ q ≠ some p ∧ (t.get (some p)).isSome) :
    ∃ t', t.rotateLeft (some a) = some t' ∧ t'.count = t.count ∧
      t'.root = (if par.isSome then t.root else some b) ∧
      t'.get (some a) = some ⟨ka, va, some b, la, q, ca⟩ ∧
      t'.get (some b) = some ⟨kb, vb, par, some a, rb, cb⟩ ∧
      (∀ j, q = some j → t'.get (some j) = (t.get (some j)).map fun x => { x with parent := some a }) ∧
      (∀ p, par = some p → t'.get (some p) = (t.get (some p)).map (relinkL a b)) ∧
      (∀ j, j ≠ a → j ≠ b → q ≠ some j → par ≠ some j → t'.get (some j) = t.get (some j)) := by
  have hba : b ≠ a := fun e => hab e.symm
  simp only [get_some'] at ha hb hq hp
  cases q with
  | none =>
    cases par with
    | none =>
      rot_eval [ha, hb, hab, hba]
      refine ⟨trivial, trivial, trivial, trivial, ?_, ?_, ?_⟩
      · intro j hj; cases hj
      · intro j hj; cases hj
      · intro j h1 h2 _ _
        have h1' := Ne.symm h1
        have h2' := Ne.symm h2
        rot_eval [h1', h2']
    | some p =>
      obtain ⟨hpa, hpb, -, hps⟩ := hp p rfl
      obtain ⟨pn, hpn⟩ := exists_of_isSome hps
      have hap := Ne.symm hpa
      have hbp := Ne.symm hpb
      by_cases hpl : pn.left = some a
      · rot_eval [ha, hb, hab, hba, hpn, hpa, hpb, hap, hbp, hpl]
        refine ⟨trivial, trivial, trivial, trivial, ?_, ?_, ?_⟩
        · intro j hj; cases hj
        · intro j hj; cases hj; rot_eval [ha, hb, hab, hba, hpn, hpa, hpb, hap, hbp, hpl]
        · intro j h1 h2 _ h4
          have h1' := Ne.symm h1
          have h2' := Ne.symm h2
          have h4' : p ≠ j := fun e => h4 (by rw [e])
          rot_eval [h1', h2', h4']
      · rot_eval [ha, hb, hab, hba, hpn, hpa, hpb, hap, hbp, hpl]
        refine ⟨trivial, trivial, trivial, trivial, ?_, ?_, ?_⟩
        · intro j hj; cases hj
        · intro j hj; cases hj; rot_eval [ha, hb, hab, hba, hpn, hpa, hpb, hap, hbp, hpl]
        · intro j h1 h2 _ h4
          have h1' := Ne.symm h1
          have h2' := Ne.symm h2
          have h4' : p ≠ j := fun e => h4 (by rw [e])
          rot_eval [h1', h2', h4']
  | some r =>
    obtain ⟨hra, hrb, hrs⟩ := hq r rfl
    obtain ⟨rn, hrn⟩ := exists_of_isSome hrs
    have har := Ne.symm hra
    have hbr := Ne.symm hrb
    cases par with
    | none =>
      rot_eval [ha, hb, hab, hba, hrn, hra, hrb, har, hbr]
      refine ⟨trivial, trivial, trivial, trivial, ?_, ?_, ?_⟩
      · intro j hj; cases hj; rot_eval [ha, hb, hab, hba, hrn, hra, hrb, har, hbr]
      · intro j hj; cases hj
      · intro j h1 h2 h3 _
        have h1' := Ne.symm h1
        have h2' := Ne.symm h2
        have h3' : r ≠ j := fun e => h3 (by rw [e])
        rot_eval [h1', h2', h3']
    | some p =>
      obtain ⟨hpa, hpb, hpr, hps⟩ := hp p rfl
      obtain ⟨pn, hpn⟩ := exists_of_isSome hps
      have hap := Ne.symm hpa
      have hbp := Ne.symm hpb
      have hrp : r ≠ p := fun e => hpr (by rw [e])
      have hpr' := Ne.symm hrp
      by_cases hpl : pn.left = some a
      · rot_eval [ha, hb, hab, hba, hrn, hra, hrb, har, hbr, hpn, hpa, hpb, hap, hbp, hpl, hrp, hpr']
        refine ⟨trivial, trivial, trivial, trivial, ?_, ?_, ?_⟩
        · intro j hj; cases hj; rot_eval [ha, hb, hab, hba, hrn, hra, hrb, har, hbr, hpn, hpa, hpb, hap, hbp, hpl, hrp, hpr']
        · intro j hj; cases hj; rot_eval [ha, hb, hab, hba, hrn, hra, hrb, har, hbr, hpn, hpa, hpb, hap, hbp, hpl, hrp, hpr']
        · intro j h1 h2 h3 h4
          have h1' := Ne.symm h1
          have h2' := Ne.symm h2
          have h3' : r ≠ j := fun e => h3 (by rw [e])
          have h4' : p ≠ j := fun e => h4 (by rw [e])
          rot_eval [h1', h2', h3', h4']
      · rot_eval [ha, hb, hab, hba, hrn, hra, hrb, har, hbr, hpn, hpa, hpb, hap, hbp, hpl, hrp, hpr']
        refine ⟨trivial, trivial, trivial, trivial, ?_, ?_, ?_⟩
        · intro j hj; cases hj; rot_eval [ha, hb, hab, hba, hrn, hra, hrb, har, hbr, hpn, hpa, hpb, hap, hbp, hpl, hrp, hpr']
        · intro j hj; cases hj; rot_eval [ha, hb, hab, hba, hrn, hra, hrb, har, hbr, hpn, hpa, hpb, hap, hbp, hpl, hrp, hpr']
        · intro j h1 h2 h3 h4
          have h1' := Ne.symm h1
          have h2' := Ne.symm h2
          have h3' : r ≠ j := fun e => h3 (by rw [e])
          have h4' : p ≠ j := fun e => h4 (by rw [e])
          rot_eval [h1', h2', h3', h4']

theorem rotateRight_pointwise (t : PTree K V) (par q : Ptr) (a b : Nat) (ka kb : K) (va vb : V) (ra lb : Ptr)
    (ca cb : Bool)
    (ha : t.get (some a) = some ⟨ka, va, par, some b, ra, ca⟩)
    (hb : t.get (some b) = some ⟨kb, vb, some a, lb, q, cb⟩)
    (hab : a ≠ b)
    (hq : ∀ j, q = some j → j ≠ a ∧ j ≠ b ∧ (t.get (some j)).isSome)
    (hp : ∀ p, par = some p → p ≠ a ∧ p ≠ b ∧ q ≠ some p ∧ (t.get (some p)).isSome) :
    ∃ t', t.rotateRight (some a) = some t' ∧ t'.count = t.count ∧
      t'.root = (if par.isSome then t.root else some b) ∧
      t'.get (some a) = some ⟨ka, va, some b, q, ra, ca⟩ ∧
      t'.get (some b) = some ⟨kb, vb, par, lb, some a, cb⟩ ∧
      (∀ j, q = some j → t'.get (some j) = (t.get (some j)).map fun x => { x with parent := some a }) ∧
      (∀ p, par = some p → t'.get (some p) = (t.get (some p)).map (relinkR a b)) ∧
      (∀ j, j ≠ a → j ≠ b → q ≠ some j → par ≠ some j → t'.get (some j) = t.get (some j)) := by
  have hba : b ≠ a := fun e => hab e.symm
  simp only [get_some'] at ha hb hq hp
  cases q with
  | none =>
    cases par with
    | none =>
      rot_eval [ha, hb, hab, hba]
      refine ⟨trivial, trivial, trivial, trivial, ?_, ?_, ?_⟩
      · intro j hj; cases hj
      · intro j hj; cases hj
      · intro j h1 h2 _ _
        have h1' := Ne.symm h1
        have h2' := Ne.symm h2
        rot_eval [h1', h2']
    | some p =>
      obtain ⟨hpa, hpb, -, hps⟩ := hp p rfl
      obtain ⟨pn, hpn⟩ := exists_of_isSome hps
      have hap := Ne.symm hpa
      have hbp := Ne.symm hpb
      by_cases hpl : pn.right = some a
      · rot_eval [ha, hb, hab, hba, hpn, hpa, hpb, hap, hbp, hpl]
        refine ⟨trivial, trivial, trivial, trivial, ?_, ?_, ?_⟩
        · intro j hj; cases hj
        · intro j hj; cases hj; rot_eval [ha, hb, hab, hba, hpn, hpa, hpb, hap, hbp, hpl]
        · intro j h1 h2 _ h4
          have h1' := Ne.symm h1
          have h2' := Ne.symm h2
          have h4' : p ≠ j := fun e => h4 (by rw [e])
          rot_eval [h1', h2', h4']
      · rot_eval [ha, hb, hab, hba, hpn, hpa, hpb, hap, hbp, hpl]
        refine ⟨trivial, trivial, trivial, trivial, ?_, ?_, ?_⟩
        · intro j hj; cases hj
        · intro j hj; cases hj; rot_eval [ha, hb, hab, hba, hpn, hpa, hpb, hap, hbp, hpl]
        · intro j h1 h2 _ h4
          have h1' := Ne.symm h1
          have h2' := Ne.symm h2
          have h4' : p ≠ j := fun e => h4 (by rw [e])
          rot_eval [h1', h2', h4']
  | some r =>
    obtain ⟨hra, hrb, hrs⟩ := hq r rfl
    obtain ⟨rn, hrn⟩ := exists_of_isSome hrs
    have har := Ne.symm hra
    have hbr := Ne.symm hrb
    cases par with
    | none =>
      rot_eval [ha, hb, hab, hba, hrn, hra, hrb, har, hbr]
      refine ⟨trivial, trivial, trivial, trivial, ?_, ?_, ?_⟩
      · intro j hj; cases hj; rot_eval [ha, hb, hab, hba, hrn, hra, hrb, har, hbr]
      · intro j hj; cases hj
      · intro j h1 h2 h3 _
        have h1' := Ne.symm h1
        have h2' := Ne.symm h2
        have h3' : r ≠ j := fun e => h3 (by rw [e])
        rot_eval [h1', h2', h3']
    | some p =>
      obtain ⟨hpa, hpb, hpr, hps⟩ := hp p rfl
      obtain ⟨pn, hpn⟩ := exists_of_isSome hps
      have hap := Ne.symm hpa
      have hbp := Ne.symm hpb
      have hrp : r ≠ p := fun e => hpr (by rw [e])
      have hpr' := Ne.symm hrp
      by_cases hpl : pn.right = some a
      · rot_eval [ha, hb, hab, hba, hrn, hra, hrb, har, hbr, hpn, hpa, hpb, hap, hbp, hpl, hrp, hpr']
        refine ⟨trivial, trivial, trivial, trivial, ?_, ?_, ?_⟩
        · intro j hj; cases hj; rot_eval [ha, hb, hab, hba, hrn, hra, hrb, har, hbr, hpn, hpa, hpb, hap, hbp, hpl, hrp, hpr']
        · intro j hj; cases hj; rot_eval [ha, hb, hab, hba, hrn, hra, hrb, har, hbr, hpn, hpa, hpb, hap, hbp, hpl, hrp, hpr']
        · intro j h1 h2 h3 h4
          have h1' := Ne.symm h1
          have h2' := Ne.symm h2
          have h3' : r ≠ j := fun e => h3 (by rw [e])
          have h4' : p ≠ j := fun e => h4 (by rw [e])
          rot_eval [h1', h2', h3', h4']
      · rot_eval [ha, hb, hab, hba, hrn, hra, hrb, har, hbr, hpn, hpa, hpb, hap, hbp, hpl, hrp, hpr']
        refine ⟨trivial, trivial, trivial, trivial, ?_, ?_, ?_⟩
        · intro j hj; cases hj; rot_eval [ha, hb, hab, hba, hrn, hra, hrb, har, hbr, hpn, hpa, hpb, hap, hbp, hpl, hrp, hpr']
        · intro j hj; cases hj; rot_eval [ha, hb, hab, hba, hrn, hra, hrb, har, hbr, hpn, hpa, hpb, hap, hbp, hpl, hrp, hpr']
        · intro j h1 h2 h3 h4
          have h1' := Ne.symm h1
          have h2' := Ne.symm h2
          have h3' : r ≠ j := fun e => h3 (by rw [e])
          have h4' : p ≠ j := fun e => h4 (by rw [e])
          rot_eval [h1', h2', h3', h4']

theorem rotR_post {t t' : PTree K V} {par : Ptr} {a b : Nat} {c lc : Color} {ll lr r : AT K V} {k lk : K} {v lv : V}
    (hll : Owns t (some b) ll) (hlr : Owns t (some b) lr) (hr : Owns t (some a) r)
    (hnd : (AT.node a c (.node b lc ll lk lv lr) k v r).addrs.Nodup)
    (hpar : ∀ p, par = some p → p ∉ (AT.node a c (.node b lc ll lk lv lr) k v r).addrs)
    (hA : t'.get (some a) = some ⟨k, v, some b, lr.ptr, r.ptr, decide (c = .black)⟩)
    (hB : t'.get (some b) = some ⟨lk, lv, par, ll.ptr, some a, decide (lc = .black)⟩)
    (hLR : ∀ j, lr.ptr = some j → t'.get (some j) = (t.get (some j)).map fun x => { x with parent := some a })
    (hO : ∀ j, j ≠ a → j ≠ b → lr.ptr ≠ some j → par ≠ some j → t'.get (some j) = t.get (some j)) :
    Owns t' par (.node b lc ll lk lv (.node a c lr k v r)) ∧
    (∀ j, j ∉ (AT.node a c (.node b lc ll lk lv lr) k v r).addrs → par ≠ some j → t'.get (some j) = t.get (some j)) := by
  simp only [AT.addrs, List.nodup_cons, List.mem_append, List.mem_cons, not_or, List.nodup_append] at hnd hpar
  obtain ⟨⟨⟨hab, hall, halr⟩, har⟩, ⟨⟨hbll, hblr⟩, hllnd, hlrnd, hlllr⟩, hrnd, hx⟩ := hnd
  refine ⟨⟨hB, ?_, ⟨hA, ?_, ?_⟩⟩, ?_⟩
  · refine Owns.frame (fun x hx' => hO x ?_ ?_ ?_ ?_) hll
    · rintro rfl; exact hall hx'
    · rintro rfl; exact hbll hx'
    · intro e; exact hlllr x hx' x (AT.ptr_mem_addrs e) rfl
    · intro e; exact (hpar x e).2.1.2.1 hx'
  · refine Owns.reparent hLR (fun x hx' hne => hO x ?_ ?_ hne ?_) hlrnd hlr
    · rintro rfl; exact halr hx'
    · rintro rfl; exact hblr hx'
    · intro e; exact (hpar x e).2.1.2.2 hx'
  · refine Owns.frame (fun x hx' => hO x ?_ ?_ ?_ ?_) hr
    · rintro rfl; exact har hx'
    · rintro rfl; exact hx x (Or.inl rfl) x hx' rfl
    · intro e; exact hx x (Or.inr (Or.inr (AT.ptr_mem_addrs e))) x hx' rfl
    · intro e; exact (hpar x e).2.2 hx'
  · intro j hj hjp
    simp only [AT.addrs, List.mem_append, List.mem_cons, not_or] at hj
    refine hO j hj.1 hj.2.1.1 ?_ hjp
    intro e; exact hj.2.1.2.2 (AT.ptr_mem_addrs e)


theorem Owns.root_isSome {t : PTree K V} {par : Ptr} {s : AT K V} (h : Owns t par s) :
    ∀ j, s.ptr = some j → (t.get (some j)).isSome = true := by
  intro j hj
  cases s with
  | nil => cases hj
  | node a c l k v r =>
    simp only [AT.ptr, Option.some.injEq] at hj; subst hj
    rw [h.1]; rfl

/-- **`rotateLeft` keeps every parent link** (`tree.go:172-190`): applied to a node `a` whose subtree is owned (all child
    and parent links consistent, pairwise distinct addresses) and whose right child `b` exists, it never dereferences
    nil; afterwards the memory owns the rotated subtree with ALL parent links repaired — `b` under `par`, `a` under `b`,
    the inner grandchild `rl` (which changes sides) under `a` —, the link from above is re-pointed (`relinkL`, else
    `t.root`), `count` and every other cell are untouched; the functional content is `T.rotL`. -/
theorem rotateLeft_owns (t : PTree K V) (par : Ptr) (a b : Nat) (c rc : Color) (l rl rr : AT K V) (k rk : K)
    (v rv : V)
    (hown : Owns t par (.node a c l k v (.node b rc rl rk rv rr)))
    (hnd : (AT.node a c l k v (.node b rc rl rk rv rr)).addrs.Nodup)
    (hpar : ∀ p, par = some p → p ∉ (AT.node a c l k v (.node b rc rl rk rv rr)).addrs ∧ (t.get (some p)).isSome) :
    ∃ t', t.rotateLeft (some a) = some t' ∧
      Owns t' par (.node b rc (.node a c l k v rl) rk rv rr) ∧
      (AT.node b rc (.node a c l k v rl) rk rv rr).erase = (AT.node a c l k v (.node b rc rl rk rv rr)).erase.rotL ∧
      t'.count = t.count ∧
      t'.root = (if par.isSome then t.root else some b) ∧
      (∀ j, j ∉ (AT.node a c l k v (.node b rc rl rk rv rr)).addrs → par ≠ some j → t'.get (some j) = t.get (some j)) ∧
      (∀ p, par = some p → t'.get (some p) = (t.get (some p)).map (relinkL a b)) := by
  obtain ⟨ha, hl, hb, hrl, hrr⟩ := hown
  have hnd' := hnd
  have hpar' := hpar
  simp only [AT.addrs, List.nodup_cons, List.mem_append, List.mem_cons, not_or, List.nodup_append] at hnd' hpar'
  have hab : a ≠ b := hnd'.1.2.1
  obtain ⟨t', hrot, hcount, hroot, hA, hB, hRL, hP, hO⟩ :=
    rotateLeft_pointwise t par rl.ptr a b k rk v rv l.ptr rr.ptr _ _ ha hb hab
      (fun j hj => ⟨by rintro rfl; exact hnd'.1.2.2.1 (AT.ptr_mem_addrs hj),
                    by rintro rfl; exact hnd'.2.2.1.1.1 (AT.ptr_mem_addrs hj), hrl.root_isSome j hj⟩)
      (fun p hp => ⟨(hpar' p hp).1.1, (hpar' p hp).1.2.2.1,
                    fun e => (hpar' p hp).1.2.2.2.1 (AT.ptr_mem_addrs e), (hpar' p hp).2⟩)
  obtain ⟨hown', hframe⟩ := rotL_post hl hrl hrr hnd (fun p hp => (hpar p hp).1) hA hB hRL hO
  exact ⟨t', hrot, hown', rfl, hcount, hroot, hframe, hP⟩

/-- **`rotateRight` keeps every parent link** (`tree.go:192-210`), the mirror image -/
theorem rotateRight_owns (t : PTree K V) (par : Ptr) (a b : Nat) (c lc : Color) (ll lr r : AT K V) (k lk : K)
    (v lv : V)
    (hown : Owns t par (.node a c (.node b lc ll lk lv lr) k v r))
    (hnd : (AT.node a c (.node b lc ll lk lv lr) k v r).addrs.Nodup)
    (hpar : ∀ p, par = some p → p ∉ (AT.node a c (.node b lc ll lk lv lr) k v r).addrs ∧ (t.get (some p)).isSome) :
    ∃ t', t.rotateRight (some a) = some t' ∧
      Owns t' par (.node b lc ll lk lv (.node a c lr k v r)) ∧
      (AT.node b lc ll lk lv (.node a c lr k v r)).erase = (AT.node a c (.node b lc ll lk lv lr) k v r).erase.rotR ∧
      t'.count = t.count ∧
      t'.root = (if par.isSome then t.root else some b) ∧
      (∀ j, j ∉ (AT.node a c (.node b lc ll lk lv lr) k v r).addrs → par ≠ some j → t'.get (some j) = t.get (some j)) ∧
      (∀ p, par = some p → t'.get (some p) = (t.get (some p)).map (relinkR a b)) := by
  obtain ⟨ha, ⟨hb, hll, hlr⟩, hr⟩ := hown
  have hnd' := hnd
  have hpar' := hpar
  simp only [AT.addrs, List.nodup_cons, List.mem_append, List.mem_cons, not_or, List.nodup_append] at hnd' hpar'
  have hab : a ≠ b := hnd'.1.1.1
  obtain ⟨t', hrot, hcount, hroot, hA, hB, hLR, hP, hO⟩ :=
    rotateRight_pointwise t par lr.ptr a b k lk v lv r.ptr ll.ptr _ _ ha hb hab
      (fun j hj => ⟨by rintro rfl; exact hnd'.1.1.2.2 (AT.ptr_mem_addrs hj),
                    by rintro rfl; exact hnd'.2.1.1.2 (AT.ptr_mem_addrs hj), hlr.root_isSome j hj⟩)
      (fun p hp => ⟨(hpar' p hp).1.1, (hpar' p hp).1.2.1.1,
                    fun e => (hpar' p hp).1.2.1.2.2 (AT.ptr_mem_addrs e), (hpar' p hp).2⟩)
  obtain ⟨hown', hframe⟩ := rotR_post hll hlr hr hnd (fun p hp => (hpar p hp).1) hA hB hLR hO
  exact ⟨t', hrot, hown', rfl, hcount, hroot, hframe, hP⟩


end PTree
end RB
