import Model.SafeFile
/-! Helper lemmas for C14: frame lemma of the action semantics, closed form of the action sequence of
    `Safe.writeFile` under every fault, bufio chunking. Core Lean only. -/
namespace Safe

/-! ## file-system frame lemmas -/

theorem set_same (fs : FS) (p : Path) (v : Option FileData) : fs.set p v p = v := by simp [FS.set]

theorem set_other (fs : FS) (p q : Path) (v : Option FileData) (h : q ≠ p) : fs.set p v q = fs q := by
  simp [FS.set, h]

theorem apply_untouched (u : Nat) (fs : FS) (q : Path) (a : Act) (h : q ∉ targets a) : applyAct u fs a q = fs q := by
  cases a with
  | createExcl p m => simp [targets] at h; simp [applyAct, set_other _ _ _ _ h]
  | write p c =>
    simp [targets] at h
    simp only [applyAct]
    cases fs p with
    | none => rfl
    | some d => simp [set_other _ _ _ _ h]
  | unlink p => simp [targets] at h; simp [applyAct, set_other _ _ _ _ h]
  | rename s d =>
    simp [targets] at h
    simp only [applyAct]
    cases fs s with
    | none => rfl
    | some c => simp [set_other _ _ _ _ h.1, set_other _ _ _ _ h.2]
  | writeFail _ _ => rfl
  | close _ => rfl
  | closeFail _ => rfl
  | renameFail _ _ => rfl

theorem run_untouched (u : Nat) (fs : FS) (q : Path) (as : List Act) (h : ∀ a ∈ as, q ∉ targets a) :
    run u fs as q = fs q := by
  induction as generalizing fs with
  | nil => rfl
  | cons a as ih =>
    simp only [run]
    rw [ih _ (fun b hb => h b (by simp [hb])), apply_untouched u fs q a (h a (by simp))]

theorem run_append (u : Nat) (fs : FS) (a b : List Act) : run u fs (a ++ b) = run u (run u fs a) b := by
  induction a generalizing fs with
  | nil => rfl
  | cons x a ih => simp [run, ih]

/-! ## the writes -/

/-- actions that only write (successfully or not) to `tmp` -/
def OnlyWrites (tmp : Path) (l : List Act) : Prop := ∀ a ∈ l, (∃ c, a = .write tmp c) ∨ (∃ n, a = .writeFail tmp n)

theorem onlyWrites_targets (tmp q : Path) (hq : q ≠ tmp) (l : List Act) (h : OnlyWrites tmp l) :
    ∀ a ∈ l, q ∉ targets a := by
  intro a ha
  rcases h a ha with ⟨c, rfl⟩ | ⟨n, rfl⟩ <;> simp [targets, hq]

theorem onlyWrites_take (tmp : Path) (l : List Act) (k : Nat) (h : OnlyWrites tmp l) : OnlyWrites tmp (l.take k) :=
  fun a ha => h a (List.mem_of_mem_take ha)

/-- writes keep the temporary file in existence and keep its mode -/
theorem writes_keep (u : Nat) (fs : FS) (tmp : Path) (l : List Act) (h : OnlyWrites tmp l) (d : FileData)
    (hd : fs tmp = some d) : ∃ c, run u fs l tmp = some ⟨c, d.mode⟩ := by
  induction l generalizing fs d with
  | nil => exact ⟨d.content, by simpa [run] using hd⟩
  | cons a l ih =>
    have hl : OnlyWrites tmp l := fun b hb => h b (by simp [hb])
    rcases h a (by simp) with ⟨c, rfl⟩ | ⟨n, rfl⟩
    · simp only [run]
      exact ih (applyAct u fs (.write tmp c)) hl ⟨d.content ++ c, d.mode⟩ (by simp [applyAct, hd, set_same])
    · simp only [run]
      exact ih (applyAct u fs (.writeFail tmp n)) hl d (by simpa [applyAct] using hd)

/-- all chunks written successfully: the temporary file holds their concatenation -/
theorem tmp_content (u : Nat) (fs : FS) (tmp : Path) (cs : List Bytes) (d : FileData) (h : fs tmp = some d) :
    run u fs (cs.map (Act.write tmp)) tmp = some ⟨d.content ++ cs.flatten, d.mode⟩ := by
  induction cs generalizing fs d with
  | nil => simpa [run] using h
  | cons c cs ih =>
    simp only [List.map_cons, run]
    rw [ih (applyAct u fs (Act.write tmp c)) ⟨d.content ++ c, d.mode⟩ (by simp [applyAct, h, set_same])]
    simp [List.append_assoc]

/-- just before the rename of a fault-free run the temporary file holds every chunk, with the final mode -/
theorem before_rename_tmp (u : Nat) (fs : FS) (tmp : Path) (mode : Nat) (cs : List Bytes) :
    run u fs ([Act.createExcl tmp mode] ++ cs.map (Act.write tmp) ++ [Act.close tmp]) tmp =
      some ⟨cs.flatten, lessUmask mode u⟩ := by
  rw [run_append, run_append]
  have h0 : run u fs [Act.createExcl tmp mode] tmp = some ⟨[], lessUmask mode u⟩ := by
    simp [run, applyAct, set_same]
  have h1 := tmp_content u (run u fs [Act.createExcl tmp mode]) tmp cs _ h0
  have hc : ∀ X : FS, run u X [Act.close tmp] = X := fun _ => rfl
  rw [hc, h1]
  simp

/-- the atomic step -/
theorem run_rename (u : Nat) (fs : FS) (pre : List Act) (tmp dst : Path) (d : FileData)
    (h : run u fs pre tmp = some d) :
    run u fs (pre ++ [Act.rename tmp dst]) = ((run u fs pre).set tmp none).set dst (some d) := by
  rw [run_append]
  simp only [run, applyAct, h]

theorem onlyWrites_map (tmp : Path) (cs : List Bytes) : OnlyWrites tmp (cs.map (Act.write tmp)) := by
  intro a ha
  simp at ha
  obtain ⟨c, _, rfl⟩ := ha
  exact Or.inl ⟨c, rfl⟩

/-! ## `writeAll` -/

def openFile (tmp dst : Path) : File := { tmp := tmp, dst := dst }

theorem writeAll_none (tmp dst : Path) (cs : List Bytes) :
    writeAll (openFile tmp dst) cs none = (.ok, cs.map (Act.write tmp)) := by
  induction cs with
  | nil => rfl
  | cons c cs ih =>
    simp only [writeAll, Option.map_none, reduceCtorEq, if_false]
    rw [ih]
    simp [File.write, openFile]

/-- a write fault beyond the last chunk never fires -/
theorem writeAll_ge (tmp dst : Path) (cs : List Bytes) (k : Nat) (hk : cs.length ≤ k) :
    writeAll (openFile tmp dst) cs (some k) = (.ok, cs.map (Act.write tmp)) := by
  induction cs generalizing k with
  | nil => rfl
  | cons c cs ih =>
    simp only [List.length_cons] at hk
    have hk0 : k ≠ 0 := by omega
    simp only [writeAll, Option.some.injEq, hk0, if_false, Option.map_some]
    rw [ih (k - 1) (by omega)]
    simp [File.write, openFile]

/-- chunk `k` fails: the first `k` chunks are written, the failing call follows, nothing after it -/
theorem writeAll_lt (tmp dst : Path) (cs : List Bytes) (k : Nat) (hk : k < cs.length) :
    writeAll (openFile tmp dst) cs (some k) =
      (.errno, (cs.take k).map (Act.write tmp) ++ [Act.writeFail tmp (cs[k]'hk).length]) := by
  induction cs generalizing k with
  | nil => simp at hk
  | cons c cs ih =>
    cases k with
    | zero => simp [writeAll, File.write, openFile]
    | succ k =>
      simp only [List.length_cons] at hk
      have hk' : k < cs.length := by omega
      simp only [writeAll, Option.some.injEq, Nat.succ_ne_zero, if_false, Option.map_some, Nat.add_sub_cancel]
      rw [ih k hk']
      simp [File.write, openFile]

/-- in every case `writeAll` issues only writes to `tmp` -/
theorem writeAll_onlyWrites (tmp dst : Path) (cs : List Bytes) (o : Option Nat) :
    OnlyWrites tmp (writeAll (openFile tmp dst) cs o).2 := by
  cases o with
  | none => rw [writeAll_none]; exact onlyWrites_map tmp cs
  | some k =>
    by_cases hk : k < cs.length
    · rw [writeAll_lt tmp dst cs k hk]
      intro a ha
      simp only [List.mem_append, List.mem_map, List.mem_singleton] at ha
      rcases ha with ⟨c, _, rfl⟩ | rfl
      · exact Or.inl ⟨c, rfl⟩
      · exact Or.inr ⟨_, rfl⟩
    · rw [writeAll_ge tmp dst cs k (by omega)]; exact onlyWrites_map tmp cs

theorem writeAll_res (tmp dst : Path) (cs : List Bytes) (o : Option Nat) :
    (writeAll (openFile tmp dst) cs o).1 = .ok ∨ (writeAll (openFile tmp dst) cs o).1 = .errno := by
  cases o with
  | none => rw [writeAll_none]; exact Or.inl rfl
  | some k =>
    by_cases hk : k < cs.length
    · rw [writeAll_lt tmp dst cs k hk]; exact Or.inr rfl
    · rw [writeAll_ge tmp dst cs k (by omega)]; exact Or.inl rfl

/-- a successful `writeAll` wrote every chunk -/
theorem writeAll_ok (tmp dst : Path) (cs : List Bytes) (o : Option Nat)
    (h : (writeAll (openFile tmp dst) cs o).1 = .ok) :
    (writeAll (openFile tmp dst) cs o).2 = cs.map (Act.write tmp) := by
  cases o with
  | none => rw [writeAll_none]
  | some k =>
    by_cases hk : k < cs.length
    · rw [writeAll_lt tmp dst cs k hk] at h; cases h
    · rw [writeAll_ge tmp dst cs k (by omega)]

/-! ## shape of the action sequence of `writeFile` -/

/-- what follows the writes -/
inductive Tail (tmp dst : Path) : List Act → Prop
  | commit : Tail tmp dst [.close tmp, .rename tmp dst]
  | abort : Tail tmp dst [.close tmp, .unlink tmp]
  | closeFail : Tail tmp dst [.closeFail tmp, .unlink tmp]
  | renameFail : Tail tmp dst [.close tmp, .renameFail tmp dst, .unlink tmp]

/-- **closed form**: create, writes to `tmp` only, then one of the four tails; the commit tail occurs exactly when the
    result is `ok`, and then every chunk of the whole content has been written before it -/
theorem writeFile_shape (tmp dst : Path) (N mode : Nat) (pieces : List Bytes) (fault : Fault) :
    ∃ ws tl, (writeFileClosed tmp dst N mode pieces fault).2 = [.createExcl tmp mode] ++ ws ++ tl ∧
      OnlyWrites tmp ws ∧ Tail tmp dst tl ∧
      ((writeFileClosed tmp dst N mode pieces fault).1 = .ok ↔ tl = [.close tmp, .rename tmp dst]) ∧
      (tl = [.close tmp, .rename tmp dst] → ws = (chunks N pieces).map (Act.write tmp)) := by
  have hcreate : File.create tmp dst mode = (openFile tmp dst, [.createExcl tmp mode]) := rfl
  have hne1 : ([Act.close tmp, .unlink tmp] : List Act) ≠ [.close tmp, .rename tmp dst] := by simp
  have hne2 : ([Act.closeFail tmp, .unlink tmp] : List Act) ≠ [.close tmp, .rename tmp dst] := by simp
  have hne3 : ([Act.close tmp, .renameFail tmp dst, .unlink tmp] : List Act) ≠ [.close tmp, .rename tmp dst] := by simp
  unfold writeFileClosed
  simp only [hcreate]
  have hw := writeAll_onlyWrites tmp dst (attempted N pieces fault) fault.writeAt
  have hr := writeAll_res tmp dst (attempted N pieces fault) fault.writeAt
  have hok := writeAll_ok tmp dst (attempted N pieces fault) fault.writeAt
  generalize writeAll (openFile tmp dst) (attempted N pieces fault) fault.writeAt = w at hw hr hok
  by_cases hfail : w.1 ≠ .ok ∨ fault.isCallback = true
  · -- failure before Commit: deferred Close removes the temporary file
    rw [if_pos hfail]
    refine ⟨w.2, [.close tmp, .unlink tmp], ?_, hw, Tail.abort, ?_, ?_⟩
    · simp [File.close, openFile]
    · constructor
      · intro h
        exfalso
        by_cases h1 : w.1 ≠ .ok
        · rw [if_pos h1] at h; exact h1 h
        · rw [if_neg h1] at h; cases fault <;> simp [Fault.stopRes] at h
      · intro h; exact absurd h hne1
    · intro h; exact absurd h hne1
  · rw [if_neg hfail]
    have hwok : w.1 = .ok := by
      apply Classical.byContradiction; intro h; exact hfail (Or.inl h)
    have hncb : fault.isCallback = false := by
      cases hc : fault.isCallback with
      | false => rfl
      | true => exact absurd (Or.inr hc) hfail
    have hatt : attempted N pieces fault = chunks N pieces := by
      cases fault <;> first | rfl | (simp [Fault.isCallback] at hncb)
    by_cases hcl : fault = .close
    · refine ⟨w.2, [.closeFail tmp, .unlink tmp], ?_, hw, Tail.closeFail, ?_, ?_⟩
      · simp [File.commit, File.close, openFile, hcl]
      · constructor
        · intro h; simp [File.commit, openFile, hcl] at h
        · intro h; exact absurd h hne2
      · intro h; exact absurd h hne2
    · by_cases hrn : fault = .rename
      · refine ⟨w.2, [.close tmp, .renameFail tmp dst, .unlink tmp], ?_, hw, Tail.renameFail, ?_, ?_⟩
        · simp [File.commit, File.close, openFile, hrn]
        · constructor
          · intro h; simp [File.commit, openFile, hrn] at h
          · intro h; exact absurd h hne3
        · intro h; exact absurd h hne3
      · refine ⟨w.2, [.close tmp, .rename tmp dst], ?_, hw, Tail.commit, ?_, ?_⟩
        · simp [File.commit, File.close, openFile, hcl, hrn]
        · constructor
          · intro _; rfl
          · intro _; simp [File.commit, File.close, openFile, hcl, hrn]
        · intro _; rw [hok hwok, hatt]

/-- with a fault that actually fires the result is not `ok` -/
def Fault.fires (N : Nat) (pieces : List Bytes) : Fault → Prop
  | .none => False
  | .callback _ => True
  | .panic _ => True
  | .write k => k < (chunks N pieces).length
  | .close => True
  | .rename => True

theorem writeFile_ok_iff (tmp dst : Path) (N mode : Nat) (pieces : List Bytes) (fault : Fault) :
    (writeFileClosed tmp dst N mode pieces fault).1 = .ok ↔ ¬ fault.fires N pieces := by
  have hcreate : File.create tmp dst mode = (openFile tmp dst, [.createExcl tmp mode]) := rfl
  cases fault with
  | none =>
    unfold writeFileClosed
    simp only [hcreate, Fault.writeAt, attempted, writeAll_none]
    simp [Fault.isCallback, File.commit, File.close, openFile, Fault.fires]
  | callback j =>
    simp only [Fault.fires, not_true_eq_false, iff_false]
    unfold writeFileClosed
    simp only [Fault.isCallback, or_true, if_true]
    intro h
    split at h
    · rename_i h1; exact h1 h
    · cases h
  | panic j =>
    simp only [Fault.fires, not_true_eq_false, iff_false]
    unfold writeFileClosed
    simp only [Fault.isCallback, or_true, if_true]
    intro h
    split at h
    · rename_i h1; exact h1 h
    · cases h
  | write k =>
    simp only [Fault.fires]
    by_cases hk : k < (chunks N pieces).length
    · simp only [hk, not_true_eq_false, iff_false]
      unfold writeFileClosed
      simp only [hcreate, Fault.writeAt, attempted, writeAll_lt tmp dst _ k hk]
      simp
    · simp only [hk, not_false_eq_true, iff_true]
      unfold writeFileClosed
      simp only [hcreate, Fault.writeAt, attempted, writeAll_ge tmp dst _ k (Nat.le_of_not_lt hk)]
      simp [Fault.isCallback, File.commit, File.close, openFile]
  | close =>
    unfold writeFileClosed
    simp only [hcreate, Fault.writeAt, attempted, writeAll_none]
    simp [Fault.isCallback, File.commit, File.close, openFile, Fault.fires]
  | rename =>
    unfold writeFileClosed
    simp only [hcreate, Fault.writeAt, attempted, writeAll_none]
    simp [Fault.isCallback, File.commit, File.close, openFile, Fault.fires]

/-! ## bufio chunking -/

theorem bufWrite_concat (N : Nat) (buf p : Bytes) :
    (bufWrite N buf p).1.flatten ++ (bufWrite N buf p).2 = buf ++ p := by
  unfold bufWrite
  split
  · simp
  · split
    · rename_i h; have : buf = [] := List.eq_nil_of_length_eq_zero h; simp [this]
    · split <;> simp [List.append_assoc, List.take_append_drop]

/-- the buffer never holds more than `N` bytes -/
theorem bufWrite_buf_le (N : Nat) (buf p : Bytes) (h : buf.length ≤ N) : (bufWrite N buf p).2.length ≤ N := by
  unfold bufWrite
  split
  · simp; omega
  · split
    · simp
    · split
      · assumption
      · simp

/-- every chunk written before the final flush is at least a full buffer (bufio never issues small writes early) -/
theorem bufWrite_chunk_ge (N : Nat) (buf p : Bytes) (h : buf.length ≤ N) :
    ∀ c ∈ (bufWrite N buf p).1, N ≤ c.length := by
  unfold bufWrite
  split
  · simp
  · rename_i h1
    split
    · rename_i h0; intro c hc; simp at hc; subst hc; omega
    · rename_i h0
      have hfull : (buf ++ p.take (N - buf.length)).length = N := by
        simp [List.length_take]; omega
      split
      · intro c hc; simp at hc; subst hc; omega
      · rename_i h2
        intro c hc
        simp at hc
        rcases hc with rfl | rfl
        · omega
        · omega

/-- a chunk is longer than the buffer only when a single piece was (it is then a suffix of that piece, written
    directly) -/
theorem bufWrite_chunk_le (N : Nat) (buf p : Bytes) (h : buf.length ≤ N) (M : Nat) (hN : N ≤ M) (hp : p.length ≤ M) :
    ∀ c ∈ (bufWrite N buf p).1, c.length ≤ M := by
  unfold bufWrite
  split
  · simp
  · split
    · intro c hc; simp at hc; subst hc; exact hp
    · have hfull : (buf ++ p.take (N - buf.length)).length ≤ N := by
        simp [List.length_take]; omega
      split
      · intro c hc; simp at hc; subst hc; omega
      · intro c hc
        simp at hc
        rcases hc with rfl | rfl
        · omega
        · simp; omega

theorem feed_concat (N : Nat) (buf : Bytes) (ps : List Bytes) :
    (feed N buf ps).1.flatten ++ (feed N buf ps).2 = buf ++ ps.flatten := by
  induction ps generalizing buf with
  | nil => simp [feed]
  | cons p ps ih =>
    simp only [feed, List.flatten_append, List.append_assoc, List.flatten_cons]
    rw [ih, ← List.append_assoc, bufWrite_concat, List.append_assoc]

theorem feed_buf_le (N : Nat) (buf : Bytes) (ps : List Bytes) (h : buf.length ≤ N) : (feed N buf ps).2.length ≤ N := by
  induction ps generalizing buf with
  | nil => simpa [feed] using h
  | cons p ps ih => simp only [feed]; exact ih _ (bufWrite_buf_le N buf p h)

theorem feed_chunk_ge (N : Nat) (buf : Bytes) (ps : List Bytes) (h : buf.length ≤ N) :
    ∀ c ∈ (feed N buf ps).1, N ≤ c.length := by
  induction ps generalizing buf with
  | nil => simp [feed]
  | cons p ps ih =>
    simp only [feed, List.mem_append]
    intro c hc
    rcases hc with hc | hc
    · exact bufWrite_chunk_ge N buf p h c hc
    · exact ih _ (bufWrite_buf_le N buf p h) c hc

theorem feed_chunk_le (N : Nat) (buf : Bytes) (ps : List Bytes) (h : buf.length ≤ N) (M : Nat) (hN : N ≤ M)
    (hp : ∀ p ∈ ps, p.length ≤ M) : ∀ c ∈ (feed N buf ps).1, c.length ≤ M := by
  induction ps generalizing buf with
  | nil => simp [feed]
  | cons p ps ih =>
    simp only [feed, List.mem_append]
    intro c hc
    rcases hc with hc | hc
    · exact bufWrite_chunk_le N buf p h M hN (hp p (by simp)) c hc
    · exact ih _ (bufWrite_buf_le N buf p h) (fun q hq => hp q (by simp [hq])) c hc

theorem flush_flatten (buf : Bytes) : (flush buf).flatten = buf := by
  unfold flush
  split
  · rename_i h; simp [List.eq_nil_of_length_eq_zero h]
  · simp

theorem chunks_flatten (N : Nat) (pieces : List Bytes) : (chunks N pieces).flatten = pieces.flatten := by
  have := feed_concat N [] pieces
  simp only [chunks, List.flatten_append, flush_flatten]
  simpa using this

end Safe

namespace Safe

/-! ## histories of the `safe.File` API -/

/-- a handle that has been closed (by `Commit` or `Close`) issues no system call any more -/
theorem steps_closed (f : File) (hcl : f.closed = true) (hfd : f.fdOpen = false) (ops : List Op) :
    (f.steps ops).2 = [] := by
  induction ops generalizing f with
  | nil => rfl
  | cons o os ih =>
    simp only [File.steps]
    cases o with
    | write c fails => simp [File.step, File.write, hfd, ih f hcl hfd]
    | commit a b =>
      by_cases hc : f.committed = true
      · simp [File.step, File.commit, hc, ih f hcl hfd]
      · simp [File.step, File.commit, hc, hcl, ih f hcl hfd]
    | close a =>
      by_cases hc : f.committed = true
      · simp [File.step, File.close, hc, ih f hcl hfd]
      · simp [File.step, File.close, hc, hcl, ih f hcl hfd]
    | closeFd => simp [File.step, File.closeFd, hfd, ih f hcl hfd]

/-- running a prefix of `a ++ b` when `a` does not touch `q`: either we are still inside `a`, or `a` is done -/
theorem run_take_append (u : Nat) (fs : FS) (q : Path) (a b : List Act) (k : Nat)
    (ha : ∀ x ∈ a, q ∉ targets x) :
    run u fs ((a ++ b).take k) q = fs q ∨
    run u fs ((a ++ b).take k) q = run u (run u fs a) (b.take (k - a.length)) q := by
  by_cases hk : k ≤ a.length
  · left
    rw [List.take_append_of_le_length hk]
    exact run_untouched u fs q _ (fun x hx => ha x (List.mem_of_mem_take hx))
  · right
    rw [List.take_append, List.take_of_length_le (by omega), run_append]

/-- **atomicity over API histories**: from an open, uncommitted handle whose temporary file holds `w`, after any
    prefix of the actions of any history the destination is what it was, or the history commits `p` (its first
    `Commit`/`Close` is a successful `Commit`, `p` = the bytes written before it) and the destination holds `w ++ p` -/
theorem steps_atomic (u : Nat) (tmp dst : Path) (hne : tmp ≠ dst) (m : Nat) (ops : List Op) :
    ∀ (f : File) (fs : FS) (w : Bytes) (k : Nat), f.tmp = tmp → f.dst = dst → f.closed = false → f.committed = false →
      fs tmp = some ⟨w, m⟩ →
      run u fs ((f.steps ops).2.take k) dst = fs dst ∨
      ∃ p, committed f.fdOpen ops = some p ∧ run u fs ((f.steps ops).2.take k) dst = some ⟨w ++ p, m⟩ := by
  have hd : dst ≠ tmp := fun e => hne e.symm
  induction ops with
  | nil => intro f fs w k _ _ _ _ _; left; simp [File.steps, run]
  | cons o os ih =>
    intro f fs w k ht hds hcl hc hw
    simp only [File.steps]
    cases o with
    | write c fails =>
      simp only [File.step]
      by_cases hfd : f.fdOpen = true
      · cases fails with
        | false =>
          have hacts : (f.write c false).2 = [Act.write tmp c] := by simp [File.write, hfd, ht]
          rw [hacts]
          rcases run_take_append u fs dst [Act.write tmp c] (f.steps os).2 k
            (by intro x hx; simp at hx; subst hx; simp [targets, hd]) with h | h
          · exact Or.inl h
          · rw [h]
            have hfs1 : run u fs [Act.write tmp c] tmp = some ⟨w ++ c, m⟩ := by simp [run, applyAct, hw, set_same]
            have hdst1 : run u fs [Act.write tmp c] dst = fs dst :=
              run_untouched u fs dst _ (by intro x hx; simp at hx; subst hx; simp [targets, hd])
            rcases ih f (run u fs [Act.write tmp c]) (w ++ c) (k - 1) ht hds hcl hc hfs1 with h2 | h2
            · left; simpa [hdst1] using h2
            · obtain ⟨p, hp, h2⟩ := h2
              right
              exact ⟨c ++ p, by rw [hfd] at hp; simp [committed, hfd, hp], by simpa [List.append_assoc] using h2⟩
        | true =>
          have hacts : (f.write c true).2 = [Act.writeFail tmp c.length] := by simp [File.write, hfd, ht]
          rw [hacts]
          rcases run_take_append u fs dst [Act.writeFail tmp c.length] (f.steps os).2 k
            (by intro x hx; simp at hx; subst hx; simp [targets]) with h | h
          · exact Or.inl h
          · rw [h]
            have hfs1 : run u fs [Act.writeFail tmp c.length] = fs := rfl
            rw [hfs1]
            rcases ih f fs w (k - 1) ht hds hcl hc hw with h2 | h2
            · left; simpa using h2
            · obtain ⟨p, hp, h2⟩ := h2
              right
              exact ⟨p, by rw [hfd] at hp; simp [committed, hfd, hp], by simpa using h2⟩
      · have hfd' : f.fdOpen = false := by simpa using hfd
        have hacts : (f.write c fails).2 = [] := by simp [File.write, hfd']
        rw [hacts, List.nil_append]
        rcases ih f fs w k ht hds hcl hc hw with h2 | h2
        · exact Or.inl h2
        · obtain ⟨p, hp, h2⟩ := h2
          right
          exact ⟨p, by rw [hfd'] at hp; simp [committed, hfd', hp], h2⟩
    | closeFd =>
      simp only [File.step]
      by_cases hfd : f.fdOpen = true
      · have h1 : f.closeFd = ({ f with fdOpen := false }, .ok, [Act.close tmp]) := by simp [File.closeFd, hfd, ht]
        rw [h1]
        rcases run_take_append u fs dst [Act.close tmp] (({ f with fdOpen := false } : File).steps os).2 k
          (by intro x hx; simp at hx; subst hx; simp [targets]) with h | h
        · exact Or.inl h
        · rw [h]
          have hfs1 : run u fs [Act.close tmp] = fs := rfl
          rw [hfs1]
          rcases ih { f with fdOpen := false } fs w (k - 1) ht hds hcl hc hw with h2 | h2
          · left; simpa using h2
          · obtain ⟨p, hp, h2⟩ := h2
            right
            exact ⟨p, by simpa [committed, hfd] using hp, by simpa using h2⟩
      · have hfd' : f.fdOpen = false := by simpa using hfd
        have h1 : f.closeFd = (f, .closed, []) := by simp [File.closeFd, hfd']
        rw [h1, List.nil_append]
        rcases ih f fs w k ht hds hcl hc hw with h2 | h2
        · exact Or.inl h2
        · obtain ⟨p, hp, h2⟩ := h2
          right
          rw [hfd'] at hp ⊢
          exact ⟨p, by simpa [committed] using hp, h2⟩
    | close a =>
      simp only [File.step]
      -- the handle is closed afterwards, the rest of the history is silent, and close never names dst
      have hrest : ((f.close a).1.steps os).2 = [] := by
        apply steps_closed <;> cases hfd : f.fdOpen <;> cases a <;> simp [File.close, hc, hcl, hfd]
      rw [hrest, List.append_nil]
      left
      apply run_untouched
      intro x hx
      have hx' := List.mem_of_mem_take hx
      cases hfd : f.fdOpen <;> cases a <;> simp [File.close, hc, hcl, hfd, ht] at hx' <;>
        (first | (subst hx'; simp [targets, hd]) | (rcases hx' with rfl | rfl <;> simp [targets, hd]))
    | commit a b =>
      simp only [File.step]
      have hrest : ((f.commit a b).1.steps os).2 = [] := by
        apply steps_closed <;> cases hfd : f.fdOpen <;> cases a <;> cases b <;> simp [File.commit, hc, hcl, hfd]
      rw [hrest, List.append_nil]
      by_cases hgood : f.fdOpen = true ∧ a = false ∧ b = false
      · obtain ⟨hfd, rfl, rfl⟩ := hgood
        have hacts : (f.commit false false).2.2 = [Act.close tmp] ++ [Act.rename tmp dst] := by
          simp [File.commit, hc, hcl, hfd, ht, hds]
        rw [hacts]
        rcases run_take_append u fs dst [Act.close tmp] [Act.rename tmp dst] k
          (by intro x hx; simp at hx; subst hx; simp [targets]) with h | h
        · exact Or.inl h
        · rw [h]
          have hfs1 : run u fs [Act.close tmp] = fs := rfl
          rw [hfs1]
          match hk : k - [Act.close tmp].length with
          | 0 => left; simp [run]
          | j + 1 =>
            right
            exact ⟨[], by simp [committed, hfd], by simp [run, applyAct, hw, set_same, set_other _ _ _ _ hd]⟩
      · left
        apply run_untouched
        intro x hx
        have hx' := List.mem_of_mem_take hx
        cases hfd : f.fdOpen <;> cases a <;> cases b <;> simp [File.commit, hc, hcl, hfd, ht, hds] at hx' <;>
          (first
            | (exfalso; exact hgood ⟨hfd, rfl, rfl⟩)
            | (subst hx'; simp [targets, hd])
            | (rcases hx' with rfl | rfl <;> simp [targets, hd])
            | (rcases hx' with rfl | rfl | rfl <;> simp [targets, hd]))

end Safe

namespace Safe

/-! ## from the shape of an action sequence to the property -/

/-- create, writes to `tmp`, one of the four tails, all chunks written if the tail is the commit tail:
    old or new at every prefix -/
theorem shape_atomic (u : Nat) (fs : FS) (tmp dst : Path) (hne : tmp ≠ dst) (mode : Nat) (ws tl : List Act)
    (cs : List Bytes) (k : Nat) (hws : OnlyWrites tmp ws) (htl : Tail tmp dst tl)
    (hcommit : tl = [.close tmp, .rename tmp dst] → ws = cs.map (Act.write tmp)) :
    run u fs (([Act.createExcl tmp mode] ++ ws ++ tl).take k) dst = fs dst ∨
    run u fs (([Act.createExcl tmp mode] ++ ws ++ tl).take k) dst = some ⟨cs.flatten, lessUmask mode u⟩ := by
  have hd : dst ≠ tmp := fun e => hne e.symm
  have hcreate : dst ∉ targets (Act.createExcl tmp mode) := by simp [targets, hd]
  have hwr := onlyWrites_targets tmp dst hd ws hws
  have hfail : ∀ l : List Act, (∀ a ∈ l, dst ∉ targets a) → run u fs (l.take k) dst = fs dst :=
    fun l hl => run_untouched u fs dst _ (fun a ha => hl a (List.mem_of_mem_take ha))
  have hpre : ∀ x : List Act, (∀ a ∈ x, dst ∉ targets a) →
      ∀ a ∈ [Act.createExcl tmp mode] ++ ws ++ x, dst ∉ targets a := by
    intro x hx a ha
    simp only [List.mem_append, List.mem_singleton] at ha
    rcases ha with (rfl | ha) | ha
    · exact hcreate
    · exact hwr a ha
    · exact hx a ha
  cases htl with
  | abort => left; apply hfail; apply hpre; intro a ha; simp at ha; rcases ha with rfl | rfl <;> simp [targets, hd]
  | closeFail => left; apply hfail; apply hpre; intro a ha; simp at ha; rcases ha with rfl | rfl <;> simp [targets, hd]
  | renameFail =>
    left; apply hfail; apply hpre; intro a ha; simp at ha; rcases ha with rfl | rfl | rfl <;> simp [targets, hd]
  | commit =>
    have hws' := hcommit rfl
    have hsplit : [Act.createExcl tmp mode] ++ ws ++ [Act.close tmp, Act.rename tmp dst] =
        ([Act.createExcl tmp mode] ++ ws ++ [Act.close tmp]) ++ [Act.rename tmp dst] := by simp
    rw [hsplit]
    have hp := hpre [Act.close tmp] (by intro a ha; simp at ha; subst ha; simp [targets])
    by_cases hk : k ≤ ([Act.createExcl tmp mode] ++ ws ++ [Act.close tmp]).length
    · left
      rw [List.take_append_of_le_length hk]
      exact run_untouched u fs dst _ (fun a ha => hp a (List.mem_of_mem_take ha))
    · right
      rw [List.take_of_length_le (by simp at hk ⊢; omega)]
      have htmp : run u fs ([Act.createExcl tmp mode] ++ ws ++ [Act.close tmp]) tmp =
          some ⟨cs.flatten, lessUmask mode u⟩ := by
        rw [hws', before_rename_tmp]
      rw [run_rename u fs _ tmp dst _ htmp, set_same]

/-- any tail but the commit tail: the destination is untouched and the temporary file is gone -/
theorem shape_failure (u : Nat) (fs : FS) (tmp dst : Path) (hne : tmp ≠ dst) (mode : Nat) (ws tl : List Act)
    (hws : OnlyWrites tmp ws) (htl : Tail tmp dst tl) (hnc : tl ≠ [.close tmp, .rename tmp dst]) :
    run u fs ([Act.createExcl tmp mode] ++ ws ++ tl) dst = fs dst ∧
    run u fs ([Act.createExcl tmp mode] ++ ws ++ tl) tmp = none := by
  have hd : dst ≠ tmp := fun e => hne e.symm
  constructor
  · apply run_untouched
    intro a ha
    simp only [List.mem_append, List.mem_singleton] at ha
    rcases ha with (rfl | ha) | ha
    · simp [targets, hd]
    · exact onlyWrites_targets tmp dst hd ws hws a ha
    · cases htl with
      | commit => exact absurd rfl hnc
      | abort => simp at ha; rcases ha with rfl | rfl <;> simp [targets, hd]
      | closeFail => simp at ha; rcases ha with rfl | rfl <;> simp [targets, hd]
      | renameFail => simp at ha; rcases ha with rfl | rfl | rfl <;> simp [targets, hd]
  · rw [run_append]
    cases htl with
    | commit => exact absurd rfl hnc
    | abort => simp [run, applyAct, set_same]
    | closeFail => simp [run, applyAct, set_same]
    | renameFail => simp [run, applyAct, set_same]

/-- the commit tail: the destination holds all chunks with the final mode, the temporary file is gone -/
theorem shape_commit (u : Nat) (fs : FS) (tmp dst : Path) (hne : tmp ≠ dst) (mode : Nat) (cs : List Bytes) :
    run u fs ([Act.createExcl tmp mode] ++ cs.map (Act.write tmp) ++ [.close tmp, .rename tmp dst]) dst =
      some ⟨cs.flatten, lessUmask mode u⟩ ∧
    run u fs ([Act.createExcl tmp mode] ++ cs.map (Act.write tmp) ++ [.close tmp, .rename tmp dst]) tmp = none := by
  have hd : dst ≠ tmp := fun e => hne e.symm
  have hsplit : [Act.createExcl tmp mode] ++ cs.map (Act.write tmp) ++ [Act.close tmp, Act.rename tmp dst] =
      ([Act.createExcl tmp mode] ++ cs.map (Act.write tmp) ++ [Act.close tmp]) ++ [Act.rename tmp dst] := by simp
  have htmp := before_rename_tmp u fs tmp mode cs
  rw [hsplit, run_rename u fs _ tmp dst _ htmp]
  exact ⟨by rw [set_same], by rw [set_other _ _ _ _ (fun e => hd e.symm), set_same]⟩

/-- **closed form of `fileRun`** (the `safe.File` API used directly: one `write(2)` per piece) -/
theorem fileRun_shape (tmp dst : Path) (mode : Nat) (pieces : List Bytes) (doCommit : Bool) (fault : Fault) :
    ∃ ws tl, (fileRun tmp dst mode pieces doCommit fault).2 = [.createExcl tmp mode] ++ ws ++ tl ∧
      OnlyWrites tmp ws ∧ Tail tmp dst tl ∧
      (tl = [.close tmp, .rename tmp dst] ↔ ((fileRun tmp dst mode pieces doCommit fault).1 = .ok ∧ doCommit = true)) ∧
      (tl = [.close tmp, .rename tmp dst] → ws = pieces.map (Act.write tmp)) := by
  have hcreate : File.create tmp dst mode = (openFile tmp dst, [.createExcl tmp mode]) := rfl
  have hne1 : ([Act.close tmp, .unlink tmp] : List Act) ≠ [.close tmp, .rename tmp dst] := by simp
  have hne2 : ([Act.closeFail tmp, .unlink tmp] : List Act) ≠ [.close tmp, .rename tmp dst] := by simp
  have hne3 : ([Act.close tmp, .renameFail tmp dst, .unlink tmp] : List Act) ≠ [.close tmp, .rename tmp dst] := by simp
  unfold fileRun
  simp only [hcreate]
  have hw := writeAll_onlyWrites tmp dst pieces fault.writeAt
  have hok := writeAll_ok tmp dst pieces fault.writeAt
  generalize writeAll (openFile tmp dst) pieces fault.writeAt = w at hw hok
  by_cases hfail : w.1 ≠ .ok
  · rw [if_pos hfail]
    refine ⟨w.2, [.close tmp, .unlink tmp], ?_, hw, Tail.abort, ?_, ?_⟩
    · simp [File.close, openFile]
    · exact ⟨fun h => absurd h hne1, fun h => absurd h.1 hfail⟩
    · intro h; exact absurd h hne1
  · rw [if_neg hfail]
    have hwok : w.1 = .ok := Classical.byContradiction hfail
    cases doCommit with
    | false =>
      simp only [Bool.false_eq_true, if_false]
      by_cases hcl : fault = .close
      · refine ⟨w.2, [.closeFail tmp, .unlink tmp], ?_, hw, Tail.closeFail, ?_, ?_⟩
        · simp [File.close, openFile, hcl]
        · exact ⟨fun h => absurd h hne2, fun h => by simp at h⟩
        · intro h; exact absurd h hne2
      · refine ⟨w.2, [.close tmp, .unlink tmp], ?_, hw, Tail.abort, ?_, ?_⟩
        · simp [File.close, openFile, hcl]
        · exact ⟨fun h => absurd h hne1, fun h => by simp at h⟩
        · intro h; exact absurd h hne1
    | true =>
      simp only [if_true]
      by_cases hcl : fault = .close
      · refine ⟨w.2, [.closeFail tmp, .unlink tmp], ?_, hw, Tail.closeFail, ?_, ?_⟩
        · simp [File.commit, File.close, openFile, hcl]
        · exact ⟨fun h => absurd h hne2, fun h => by simp [File.commit, openFile, hcl] at h⟩
        · intro h; exact absurd h hne2
      · by_cases hrn : fault = .rename
        · refine ⟨w.2, [.close tmp, .renameFail tmp dst, .unlink tmp], ?_, hw, Tail.renameFail, ?_, ?_⟩
          · simp [File.commit, File.close, openFile, hrn]
          · exact ⟨fun h => absurd h hne3, fun h => by simp [File.commit, openFile, hrn] at h⟩
          · intro h; exact absurd h hne3
        · refine ⟨w.2, [.close tmp, .rename tmp dst], ?_, hw, Tail.commit, ?_, ?_⟩
          · simp [File.commit, File.close, openFile, hcl, hrn]
          · exact ⟨fun _ => ⟨by simp [File.commit, File.close, openFile, hcl, hrn], trivial⟩, fun _ => rfl⟩
          · intro _; exact hok hwok

end Safe

namespace Safe

/-! ## `writeFile` (bufio with its sticky error, callback behaviour) equals its closed form -/

def errBW : BW := { buf := [], err := true, failIn := none }

theorem map_sub_zero (o : Option Nat) : o.map (· - 0) = o := by cases o <;> rfl

theorem sys_fail (tmp dst : Path) (b : BW) (c : Bytes) (h : b.failIn = some 0) :
    b.sys (openFile tmp dst) c = (errBW, [Act.writeFail tmp c.length]) := by
  simp [BW.sys, h, File.write, openFile, errBW]

theorem sys_ok (tmp dst : Path) (b : BW) (c : Bytes) (h : b.failIn ≠ some 0) :
    b.sys (openFile tmp dst) c = ({ b with failIn := b.failIn.map (· - 1) }, [Act.write tmp c]) := by
  simp [BW.sys, h, File.write, openFile]

/-- the bufio state and the actions after trying to write the chunks `cs`, `buf'` being what stays buffered -/
def after (f : File) (b : BW) (cs : List Bytes) (buf' : Bytes) : BW × List Act :=
  (if (writeAll f cs b.failIn).1 = .ok then { buf := buf', err := false, failIn := b.failIn.map (· - cs.length) }
   else errBW, (writeAll f cs b.failIn).2)

theorem writeAll_one (tmp dst : Path) (c : Bytes) (o : Option Nat) :
    writeAll (openFile tmp dst) [c] o =
      if o = some 0 then (.errno, [Act.writeFail tmp c.length]) else (.ok, [Act.write tmp c]) := by
  by_cases h : o = some 0 <;> simp [writeAll, h, File.write, openFile]

/-- one `bufio.Writer.Write` = the pure chunking rule + writing those chunks until one fails -/
theorem write_sim (N : Nat) (tmp dst : Path) (b : BW) (hb : b.err = false) (p : Bytes) :
    b.write N (openFile tmp dst) p =
      after (openFile tmp dst) b (bufWrite N b.buf p).1 (bufWrite N b.buf p).2 := by
  obtain ⟨buf, err, failIn⟩ := b
  simp only at hb; subst hb
  unfold BW.write bufWrite after
  simp only [Bool.false_eq_true, if_false]
  split
  · simp [writeAll, map_sub_zero]
  · split
    · rename_i hlen
      have hbuf : buf = [] := List.eq_nil_of_length_eq_zero hlen
      subst hbuf
      by_cases h0 : failIn = some 0
      · rw [sys_fail _ _ _ _ h0]; simp [writeAll_one, h0]
      · rw [sys_ok _ _ _ _ h0]; simp [writeAll_one, h0]
    · by_cases hr : (p.drop (N - buf.length)).length ≤ N
      · simp only [hr, if_true]
        by_cases h0 : failIn = some 0
        · rw [sys_fail _ _ _ _ h0]; simp [writeAll_one, h0, errBW]
        · rw [sys_ok _ _ _ _ h0]; simp [writeAll_one, h0]
      · simp only [hr, if_false]
        by_cases h0 : failIn = some 0
        · rw [sys_fail _ _ _ _ h0]; simp [writeAll, h0, File.write, openFile, errBW]
        · rw [sys_ok _ _ _ _ h0]
          simp only [Bool.false_eq_true, if_false]
          by_cases h1 : failIn.map (· - 1) = some 0
          · rw [sys_fail _ _ _ _ h1]
            simp [writeAll, h0, h1, File.write, openFile]
          · rw [sys_ok _ _ _ _ h1]
            have h2 : (failIn.map (· - 1)).map (· - 1) = failIn.map (· - 2) := by
              cases failIn <;> simp; omega
            simp [writeAll, h0, h1, File.write, openFile, h2]

end Safe

namespace Safe

theorem writeAll_append (tmp dst : Path) (a c : List Bytes) (o : Option Nat) :
    writeAll (openFile tmp dst) (a ++ c) o =
      if (writeAll (openFile tmp dst) a o).1 = .ok then
        ((writeAll (openFile tmp dst) c (o.map (· - a.length))).1,
         (writeAll (openFile tmp dst) a o).2 ++ (writeAll (openFile tmp dst) c (o.map (· - a.length))).2)
      else writeAll (openFile tmp dst) a o := by
  induction a generalizing o with
  | nil => simp [writeAll, map_sub_zero]
  | cons x a ih =>
    simp only [List.cons_append, writeAll]
    by_cases h0 : o = some 0
    · simp [h0, File.write, openFile]
    · simp only [h0, if_false]
      rw [ih]
      have hm : (o.map (· - 1)).map (· - a.length) = o.map (· - (x :: a).length) := by
        cases o <;> simp; omega
      rw [hm]
      split <;> simp [List.append_assoc]

theorem after_err_false (f : File) (b : BW) (cs : List Bytes) (buf' : Bytes) :
    (after f b cs buf').1.err = false ↔ (writeAll f cs b.failIn).1 = .ok := by
  unfold after
  split <;> simp_all [errBW]

/-- composing two rounds of chunk writing -/
theorem after_after (tmp dst : Path) (b : BW) (cs cs2 : List Bytes) (buf1 buf2 : Bytes)
    (hok : (writeAll (openFile tmp dst) cs b.failIn).1 = .ok) :
    ((after (openFile tmp dst) (after (openFile tmp dst) b cs buf1).1 cs2 buf2).1,
      (after (openFile tmp dst) b cs buf1).2 ++ (after (openFile tmp dst) (after (openFile tmp dst) b cs buf1).1 cs2 buf2).2) =
      after (openFile tmp dst) b (cs ++ cs2) buf2 := by
  have hm : (b.failIn.map (· - cs.length)).map (· - cs2.length) = b.failIn.map (· - (cs ++ cs2).length) := by
    cases b.failIn <;> simp; omega
  unfold after
  simp only [hok, if_true, writeAll_append, hm]

/-- once the sticky error is set a callback that keeps writing does not touch the file any more -/
theorem callback_keep_err (N : Nat) (f : File) (stop : Res) (b : BW) (hb : b.err = true) (ps : List Bytes) :
    callback N f .swallowKeep stop b none ps = (b, .ok, []) := by
  induction ps with
  | nil => simp [callback]
  | cons p ps ih => simp [callback, BW.write, hb, ih]

/-- the callback without an error of its own = chunking all pieces + writing the chunks until one fails; it returns
    the write error only if it propagates errors -/
theorem callback_sim (N : Nat) (tmp dst : Path) (cb : CbMode) (stop : Res) (ps : List Bytes) :
    ∀ b : BW, b.err = false →
      callback N (openFile tmp dst) cb stop b none ps =
        ((after (openFile tmp dst) b (feed N b.buf ps).1 (feed N b.buf ps).2).1,
         (if (after (openFile tmp dst) b (feed N b.buf ps).1 (feed N b.buf ps).2).1.err = true ∧ cb = .propagate
          then .errno else .ok),
         (after (openFile tmp dst) b (feed N b.buf ps).1 (feed N b.buf ps).2).2) := by
  induction ps with
  | nil =>
    intro b hb
    obtain ⟨buf, err, failIn⟩ := b
    simp only at hb; subst hb
    simp [callback, feed, after, writeAll, map_sub_zero]
  | cons p ps ih =>
    intro b hb
    simp only [callback, feed]
    rw [write_sim N tmp dst b hb p]
    have hne : (none : Option Nat) ≠ some 0 := by simp
    simp only [hne, if_false, Option.map_none]
    by_cases hok : (writeAll (openFile tmp dst) (bufWrite N b.buf p).1 b.failIn).1 = .ok
    · -- the chunks of this piece were written: go on with the next piece
      have herr := (after_err_false (openFile tmp dst) b (bufWrite N b.buf p).1 (bufWrite N b.buf p).2).mpr hok
      have hbuf : (after (openFile tmp dst) b (bufWrite N b.buf p).1 (bufWrite N b.buf p).2).1.buf = (bufWrite N b.buf p).2 := by
        simp [after, hok]
      simp only [herr, Bool.false_eq_true, false_and, if_false]
      rw [ih _ herr, hbuf]
      have hc := after_after tmp dst b (bufWrite N b.buf p).1 (feed N (bufWrite N b.buf p).2 ps).1
        (bufWrite N b.buf p).2 (feed N (bufWrite N b.buf p).2 ps).2 hok
      have h1 := congrArg Prod.fst hc
      have h2 := congrArg Prod.snd hc
      simp only at h1 h2
      rw [h2]
      simp only [h1]
      congr
    · -- a write failed: the sticky error is set
      have hafter : after (openFile tmp dst) b (bufWrite N b.buf p).1 (bufWrite N b.buf p).2 =
          (errBW, (writeAll (openFile tmp dst) (bufWrite N b.buf p).1 b.failIn).2) := by
        simp [after, hok]
      have hall : after (openFile tmp dst) b ((bufWrite N b.buf p).1 ++ (feed N (bufWrite N b.buf p).2 ps).1)
          (feed N (bufWrite N b.buf p).2 ps).2 = (errBW, (writeAll (openFile tmp dst) (bufWrite N b.buf p).1 b.failIn).2) := by
        simp [after, writeAll_append, hok]
      simp only [hafter, hall]
      cases cb with
      | propagate => simp [errBW]
      | swallowStop => simp [errBW]
      | swallowKeep =>
        simp only [errBW, true_and, reduceCtorEq, if_false]
        have := callback_keep_err N (openFile tmp dst) stop errBW rfl ps
        simp only [errBW] at this
        rw [this]
        simp

/-- a callback that fails by itself after `j` pieces (no write fault): the chunks of the first `j` pieces -/
theorem callback_cbfail (N : Nat) (tmp dst : Path) (cb : CbMode) (stop : Res) (ps : List Bytes) :
    ∀ (b : BW) (j : Nat), b.err = false → b.failIn = none →
      (callback N (openFile tmp dst) cb stop b (some j) ps).2 =
        (stop, (feed N b.buf (ps.take j)).1.map (Act.write tmp)) := by
  induction ps with
  | nil => intro b j _ _; simp [callback, feed]
  | cons p ps ih =>
    intro b j hb hf
    cases j with
    | zero => simp [callback, feed]
    | succ j =>
      simp only [callback, List.take_succ_cons, feed]
      rw [write_sim N tmp dst b hb p]
      have hw : writeAll (openFile tmp dst) (bufWrite N b.buf p).1 b.failIn = (.ok, (bufWrite N b.buf p).1.map (Act.write tmp)) := by
        rw [hf]; exact writeAll_none tmp dst _
      have hafter : after (openFile tmp dst) b (bufWrite N b.buf p).1 (bufWrite N b.buf p).2 =
          ({ buf := (bufWrite N b.buf p).2, err := false, failIn := none }, (bufWrite N b.buf p).1.map (Act.write tmp)) := by
        rw [hf] at hw
        simp [after, hw, hf]
      rw [hafter]
      simp only [Option.some.injEq, Nat.succ_ne_zero, if_false, Bool.false_eq_true, false_and, Option.map_some,
        Nat.add_sub_cancel]
      rw [ih _ j rfl rfl]
      simp

end Safe

namespace Safe

theorem flush_sim (tmp dst : Path) (b : BW) (hb : b.err = false) :
    b.flush (openFile tmp dst) = after (openFile tmp dst) b (flush b.buf) [] := by
  obtain ⟨buf, err, failIn⟩ := b
  simp only at hb; subst hb
  unfold BW.flush flush after
  simp only [Bool.false_eq_true, if_false]
  split
  · rename_i h
    have : buf = [] := List.eq_nil_of_length_eq_zero h
    subst this
    simp [writeAll, map_sub_zero]
  · by_cases h0 : failIn = some 0
    · rw [sys_fail _ _ _ _ h0]; simp [writeAll_one, h0]
    · rw [sys_ok _ _ _ _ h0]; simp [writeAll_one, h0]

/-- faults other than a failing callback -/
theorem writeFile_closed_nocb (tmp dst : Path) (N mode : Nat) (pieces : List Bytes) (cb : CbMode) (fault : Fault)
    (hcb : fault.cbAt = none) (hic : fault.isCallback = false) :
    writeFile tmp dst N mode pieces cb fault = writeFileClosed tmp dst N mode pieces fault := by
  have hcreate : File.create tmp dst mode = (openFile tmp dst, [.createExcl tmp mode]) := rfl
  have hatt : attempted N pieces fault = chunks N pieces := by
    cases fault <;> first | rfl | (simp [Fault.isCallback] at hic)
  unfold writeFile writeFileClosed
  simp only [hcreate, hcb, hatt, hic, Bool.false_eq_true, or_false]
  rw [callback_sim N tmp dst cb _ pieces _ rfl]
  simp only
  -- the chunks of the callback, then the chunk of the final Flush
  have hch : chunks N pieces = (feed N [] pieces).1 ++ flush (feed N [] pieces).2 := rfl
  generalize hcs : (feed N [] pieces).1 = cs at hch ⊢
  generalize hbf : (feed N [] pieces).2 = buf' at hch ⊢
  rw [hch, writeAll_append]
  by_cases hok1 : (writeAll (openFile tmp dst) cs fault.writeAt).1 = .ok
  · -- every chunk of the callback was written; Flush writes the rest (or fails)
    have hA : after (openFile tmp dst) { failIn := fault.writeAt } cs buf' =
        ({ buf := buf', err := false, failIn := fault.writeAt.map (· - cs.length) },
         (writeAll (openFile tmp dst) cs fault.writeAt).2) := by
      simp [after, hok1]
    simp only [hA, Bool.false_eq_true, false_and, if_false, hok1, if_true, ne_eq, not_true_eq_false]
    rw [flush_sim tmp dst _ rfl]
    simp only
    by_cases hok2 : (writeAll (openFile tmp dst) (flush buf') (fault.writeAt.map (· - cs.length))).1 = .ok
    · simp [after, hok2, List.append_assoc]
    · have he := writeAll_res tmp dst (flush buf') (fault.writeAt.map (· - cs.length))
      have he' : (writeAll (openFile tmp dst) (flush buf') (fault.writeAt.map (· - cs.length))).1 = .errno := by
        rcases he with h | h
        · exact absurd h hok2
        · exact h
      simp only [after, hok2, he', if_false, errBW, if_true, ne_eq, reduceCtorEq, not_false_eq_true]
      simp [List.append_assoc, File.close, openFile]
  · -- a write inside the callback failed: whatever the callback returns, the error comes back
    have he := writeAll_res tmp dst cs fault.writeAt
    have he' : (writeAll (openFile tmp dst) cs fault.writeAt).1 = .errno := by
      rcases he with h | h
      · exact absurd h hok1
      · exact h
    have hA : after (openFile tmp dst) { failIn := fault.writeAt } cs buf' =
        (errBW, (writeAll (openFile tmp dst) cs fault.writeAt).2) := by
      simp [after, hok1]
    simp only [hA, hok1, if_false]
    cases cb with
    | propagate => simp [errBW, he']
    | swallowStop => simp [errBW, he', BW.flush]
    | swallowKeep => simp [errBW, he', BW.flush]

/-- **the statement-by-statement model equals its closed form, whatever the callback does with write errors** -/
theorem writeFile_closed (tmp dst : Path) (N mode : Nat) (pieces : List Bytes) (cb : CbMode) (fault : Fault) :
    writeFile tmp dst N mode pieces cb fault = writeFileClosed tmp dst N mode pieces fault := by
  cases fault with
  | none => exact writeFile_closed_nocb tmp dst N mode pieces cb _ rfl rfl
  | write k => exact writeFile_closed_nocb tmp dst N mode pieces cb _ rfl rfl
  | close => exact writeFile_closed_nocb tmp dst N mode pieces cb _ rfl rfl
  | rename => exact writeFile_closed_nocb tmp dst N mode pieces cb _ rfl rfl
  | callback j =>
    have hcreate : File.create tmp dst mode = (openFile tmp dst, [.createExcl tmp mode]) := rfl
    unfold writeFile writeFileClosed
    simp only [hcreate, Fault.cbAt, Fault.writeAt, Fault.isCallback, attempted, or_true, if_true]
    rw [callback_cbfail N tmp dst cb _ pieces _ j rfl rfl, writeAll_none]
    simp [Fault.stopRes]
  | panic j =>
    have hcreate : File.create tmp dst mode = (openFile tmp dst, [.createExcl tmp mode]) := rfl
    unfold writeFile writeFileClosed
    simp only [hcreate, Fault.cbAt, Fault.writeAt, Fault.isCallback, attempted, or_true, if_true]
    rw [callback_cbfail N tmp dst cb _ pieces _ j rfl rfl, writeAll_none]
    simp [Fault.stopRes]

end Safe
