import Lemmas.LogHandlers
/-! C13: derivation TREES.  Any number of `WithGroup` / `WithAttrs` derivations, each from ANY handler made so far (the
root, a child, a sibling's child …), in any order: what a handler sees through its slice is the list of entries on the
path from the root to it — nothing an aunt, a sibling or a cousin was given.  Core Lean only. -/
namespace TL

/-- one derivation: from handler number `parent` (0 is the root, `k+1` the handler made by the `k`-th derivation), with
    the entry `WithGroup` / `WithAttrs` adds -/
structure DOp where
  parent : Nat
  entry : Entry

/-- the store and the slice headers of all handlers after a history of derivations, by the code's way of deriving
    (`Store.derive`: `make(len+1)`, `copy`, assign) -/
structure DState where
  store : Store := {}
  hs : List Slice := [{ arr := 0, len := 0 }]      -- the root handler: a nil list

def DState.step (d : DState) (op : DOp) : DState :=
  let p := (d.hs[op.parent]?).getD { arr := 0, len := 0 }
  let r := d.store.derive p op.entry
  { store := r.1, hs := d.hs ++ [r.2] }

def runD (ops : List DOp) : DState := ops.foldl DState.step {}

/-- the same history with Go's `append(h.list, ga)` (in place when the backing array has a free slot): CONTRAST -/
def DState.stepAppend (d : DState) (op : DOp) : DState :=
  let p := (d.hs[op.parent]?).getD { arr := 0, len := 0 }
  let r := d.store.deriveAppend p op.entry
  { store := r.1, hs := d.hs ++ [r.2] }

def runDAppend (ops : List DOp) : DState := ops.foldl DState.stepAppend {}

/-- the entries on the path from the root to each handler, computed WITHOUT any store: handler 0 has none; the handler
    made from `parent` with entry `e` has its parent's path followed by `e` -/
def pathsStep (ps : List (List Entry)) (op : DOp) : List (List Entry) :=
  ps ++ [(ps[op.parent]?).getD [] ++ [op.entry]]

def paths (ops : List DOp) : List (List Entry) := ops.foldl pathsStep [[]]

/-- invariant of a history: every slice header is valid in the store and shows exactly its path -/
def DState.Inv (d : DState) (ps : List (List Entry)) : Prop :=
  d.hs.length = ps.length ∧ ∀ (i : Nat) (s : Slice), d.hs[i]? = some s → d.store.valid s ∧ d.store.view s = (ps[i]?).getD []

theorem DState.step_inv (d : DState) (ps : List (List Entry)) (op : DOp) (h : d.Inv ps) :
    (d.step op).Inv (pathsStep ps op) := by
  obtain ⟨hl, hv⟩ := h
  have hp : d.store.valid ((d.hs[op.parent]?).getD { arr := 0, len := 0 }) ∧
      d.store.view ((d.hs[op.parent]?).getD { arr := 0, len := 0 }) = (ps[op.parent]?).getD [] := by
    cases hq : d.hs[op.parent]? with
    | some s => simpa using hv op.parent s hq
    | none =>
      have hge : d.hs.length ≤ op.parent := by
        rcases Nat.lt_or_ge op.parent d.hs.length with hlt | hge
        · rw [List.getElem?_eq_getElem hlt] at hq; cases hq
        · exact hge
      have : ps[op.parent]? = none := List.getElem?_eq_none (by omega)
      simp [this, Store.valid, Store.view]
  refine ⟨by simp [DState.step, pathsStep, hl], ?_⟩
  intro i s hi
  simp only [DState.step] at hi ⊢
  by_cases hlt : i < d.hs.length
  · rw [List.getElem?_append_left hlt] at hi
    obtain ⟨h1, h2⟩ := hv i s hi
    have fr := Store.derive_frame d.store ((d.hs[op.parent]?).getD { arr := 0, len := 0 }) op.entry s h1
    refine ⟨fr.1, ?_⟩
    rw [fr.2, h2]
    simp only [pathsStep]
    rw [List.getElem?_append_left (by omega)]
  · have hge : d.hs.length ≤ i := Nat.le_of_not_lt hlt
    rw [List.getElem?_append_right hge] at hi
    have hi0 : i - d.hs.length = 0 := by
      rcases Nat.eq_zero_or_pos (i - d.hs.length) with h0 | hpos
      · exact h0
      · rw [List.getElem?_eq_none (by simp; omega)] at hi; cases hi
    rw [hi0] at hi
    simp only [List.getElem?_cons_zero, Option.some.injEq] at hi
    subst hi
    have nw := Store.derive_new d.store ((d.hs[op.parent]?).getD { arr := 0, len := 0 }) op.entry
    refine ⟨nw.1, ?_⟩
    rw [nw.2, hp.2]
    have hi' : i = ps.length := by omega
    simp only [pathsStep]
    rw [List.getElem?_append_right (by omega), hi']
    simp

theorem foldl_inv : ∀ (ops : List DOp) (d : DState) (ps : List (List Entry)), d.Inv ps →
    (ops.foldl DState.step d).Inv (ops.foldl pathsStep ps)
  | [], _, _, h => h
  | op :: ops, d, ps, h => foldl_inv ops (d.step op) (pathsStep ps op) (DState.step_inv d ps op h)

theorem runD_inv (ops : List DOp) : (runD ops).Inv (paths ops) := by
  refine foldl_inv ops {} [[]] ⟨rfl, ?_⟩
  intro i s hi
  cases i with
  | zero =>
    simp only [List.getElem?_cons_zero, Option.some.injEq] at hi
    subst hi
    exact ⟨Or.inr rfl, by simp [Store.view]⟩
  | succ n => simp at hi

theorem foldl_pathsStep_keeps : ∀ (more : List DOp) (ps : List (List Entry)) (i : Nat), i < ps.length →
    (more.foldl pathsStep ps)[i]? = ps[i]?
  | [], _, _, _ => rfl
  | op :: more, ps, i, hi => by
    simp only [List.foldl_cons]
    have hi2 : i < (pathsStep ps op).length := by simp [pathsStep]; omega
    rw [foldl_pathsStep_keeps more (pathsStep ps op) i hi2]
    simp only [pathsStep]
    exact List.getElem?_append_left hi

/-- a later derivation never changes the path of an existing handler: `paths` only grows at the end -/
theorem paths_append (ops more : List DOp) (i : Nat) (hi : i < (paths ops).length) :
    (paths (ops ++ more))[i]? = (paths ops)[i]? := by
  unfold paths at hi ⊢
  rw [List.foldl_append]
  exact foldl_pathsStep_keeps more _ i hi

end TL
