import Lemmas.RotationHist
import Lemmas.MutexLin
/-! C12 under concurrency: the methods of `Rotator` as micro-step programs for the generic mutex machine
    (`Model/Mutex.lean`), and the proof that the micro-steps of every method compute the sequential model
    (`Rot.apply`).  Core-only.

    The micro-steps are the individual actions between `r.lock.Lock()` and the deferred `Unlock()`:
    the `if r.file == nil` block (MkdirAll/Stat/OpenFile), the size test, `rotate()`'s close, its `os.Remove`, every
    single `os.Rename` of the chain, the reset of `file`/`size` before `goto retry`, and the write itself BYTE BY BYTE
    (finer than the single `write(2)` of the implementation, so that "bytes of one write are never split" is a
    statement with content).  `Close`, `Sync` and a restart are single actions. -/
namespace Rot

/-- control state of a goroutine inside a method (program counter + the argument still needed) -/
inductive PC where
  | wOpen (b : Bytes)                -- at `retry:`, before the `if r.file == nil` block
  | wCheck (b : Bytes)               -- before `if r.size > 0 && r.size+writeSize > r.maxSize`
  | rRemove (b : Bytes)              -- in rotate(), file closed, before `os.Remove`
  | rRename (b : Bytes) (i : Nat)    -- in rotate(), before `os.Rename(path-(i-1), path-i)`; 0 = chain finished
  | wBytes (b rest : Bytes)          -- in `r.file.Write(b)`, `rest` not yet written
  | call (o : Op)                    -- Close / Sync / restart: one action
  | ret (n : Nat)                    -- at `return n, nil` (the deferred Unlock follows)
deriving Repr

def pcStart : Op → PC
  | .write b => .wOpen b
  | o => .call o

def micro (cfg : Cfg) : PC → St → PC × St
  | .wOpen b, s => (.wCheck b, openIfNeeded s)
  | .wCheck b, s =>
    if s.size > 0 ∧ s.size + b.length > cfg.maxSize then (.rRemove b, { s with isOpen := false })
    else (.wBytes b b, s)
  | .rRemove b, s =>
    if cfg.maxBackups < 1 then (.rRename b 0, { s with files := s.files.set 0 none })
    else (.rRename b cfg.maxBackups, { s with files := s.files.set cfg.maxBackups none })
  | .rRename b (i+1), s => (.rRename b i, { s with files := mv s.files i (i+1) })
  | .rRename b 0, s => (.wOpen b, { s with isOpen := false, size := 0 })
  | .wBytes b (x :: rest), s =>
    (.wBytes b rest, { s with files := s.files.set 0 (some (content s.files 0 ++ [x])), size := s.size + 1 })
  | .wBytes b [], s => (.ret b.length, s)
  | .call o, s => (.ret 0, apply cfg s o)
  | .ret n, s => (.ret n, s)

def pcDone : PC → Option Nat
  | .ret n => some n
  | _ => none

/-- the Rotator's methods as a system for the generic mutex machine -/
def sys (cfg : Cfg) : Mutex.Sys St Op PC Nat := { start := pcStart, micro := micro cfg, done := pcDone }

/-- the sequential reference: the result (`n` of `Write`, 0 for the others) and `Rot.apply` -/
def resultOf : Op → Nat
  | .write b => b.length
  | _ => 0
def runOp (cfg : Cfg) (o : Op) (s : St) : Nat × St := (resultOf o, apply cfg s o)

open Mutex (Runs)

theorem St.eta (s : St) : ({ files := s.files, isOpen := s.isOpen, size := s.size } : St) = s := by cases s; rfl

/-- the byte loop appends exactly the remaining bytes to the (existing) current file -/
theorem runs_bytes (cfg : Cfg) (b : Bytes) : ∀ (rest : Bytes) (s : St) (c : Bytes), s.files 0 = some c →
    Runs (sys cfg) (.wBytes b rest) s b.length
      { s with files := s.files.set 0 (some (c ++ rest)), size := s.size + rest.length } := by
  intro rest
  induction rest with
  | nil =>
    intro s c hc
    refine Runs.step rfl ?_
    have : ({ s with files := s.files.set 0 (some (c ++ [])), size := s.size + ([] : Bytes).length } : St) = s := by
      rw [List.append_nil, set_self s.files 0 (some c) hc]; exact St.eta s
    rw [this]
    exact Runs.fin rfl
  | cons x rest ih =>
    intro s c hc
    refine Runs.step rfl ?_
    have hcont : content s.files 0 = c := by simp [content, hc]
    have h1 : ((sys cfg).micro (.wBytes b (x :: rest)) s).1 = .wBytes b rest := rfl
    have h2 : ((sys cfg).micro (.wBytes b (x :: rest)) s).2 =
        { s with files := s.files.set 0 (some (c ++ [x])), size := s.size + 1 } := by
      show ({ s with files := s.files.set 0 (some (content s.files 0 ++ [x])), size := s.size + 1 } : St) = _
      rw [hcont]
    rw [h1, h2]
    have := ih { s with files := s.files.set 0 (some (c ++ [x])), size := s.size + 1 } (c ++ [x]) (by simp [Files.set])
    have e : ({ s with files := s.files.set 0 (some (c ++ x :: rest)), size := s.size + (x :: rest).length } : St) =
        { ({ s with files := s.files.set 0 (some (c ++ [x])), size := s.size + 1 } : St) with
          files := (s.files.set 0 (some (c ++ [x]))).set 0 (some (c ++ [x] ++ rest)),
          size := s.size + 1 + rest.length } := by
      apply St.ext'
      · simp only [set_set]; simp
      · rfl
      · simp only [List.length_cons]; omega
    rw [e]; exact this

/-- the rename loop of `rotate()` followed by the reset: lands at `retry:` with the chain applied -/
theorem runs_chain (cfg : Cfg) (b : Bytes) : ∀ (i : Nat) (s : St) (r : Nat) (s'' : St),
    Runs (sys cfg) (.wOpen b) { files := renameChain s.files i, isOpen := false, size := 0 } r s'' →
    Runs (sys cfg) (.rRename b i) s r s'' := by
  intro i
  induction i with
  | zero => intro s r s'' h; exact Runs.step rfl h
  | succ i ih =>
    intro s r s'' h
    refine Runs.step rfl ?_
    exact ih { s with files := mv s.files i (i+1) } r s'' h

/-- a pass that ends in `goto retry` -/
theorem runs_again (cfg : Cfg) (s : St) (b : Bytes) (s1 : St) (h : writeStep cfg s b = .again s1) (r : Nat) (s'' : St)
    (hr : Runs (sys cfg) (.wOpen b) s1 r s'') : Runs (sys cfg) (.wOpen b) s r s'' := by
  unfold writeStep at h
  simp only at h
  refine Runs.step rfl ?_
  show Runs (sys cfg) (.wCheck b) (openIfNeeded s) r s''
  generalize openIfNeeded s = t at h
  by_cases hc : t.size > 0 ∧ t.size + b.length > cfg.maxSize
  · rw [if_pos hc] at h
    injection h with h
    subst h
    refine Runs.step rfl ?_
    have e1 : ((sys cfg).micro (.wCheck b) t) = (.rRemove b, { t with isOpen := false }) := by
      show (if t.size > 0 ∧ t.size + b.length > cfg.maxSize then _ else _) = _
      rw [if_pos hc]
    rw [e1]
    refine Runs.step rfl ?_
    by_cases hm : cfg.maxBackups < 1
    · have e2 : ((sys cfg).micro (.rRemove b) { t with isOpen := false }) =
          (.rRename b 0, { t with isOpen := false, files := t.files.set 0 none }) := by
        show (if cfg.maxBackups < 1 then _ else _) = _
        rw [if_pos hm]
      rw [e2]
      apply runs_chain
      have : rotate cfg t = { files := renameChain (t.files.set 0 none) 0, isOpen := false, size := 0 } := by
        simp [rotate, rotateFiles, hm, renameChain]
      rw [← this]; exact hr
    · have e2 : ((sys cfg).micro (.rRemove b) { t with isOpen := false }) =
          (.rRename b cfg.maxBackups, { t with isOpen := false, files := t.files.set cfg.maxBackups none }) := by
        show (if cfg.maxBackups < 1 then _ else _) = _
        rw [if_neg hm]
      rw [e2]
      apply runs_chain
      have : rotate cfg t = { files := renameChain (t.files.set cfg.maxBackups none) cfg.maxBackups, isOpen := false, size := 0 } := by
        simp [rotate, rotateFiles, hm]
      rw [← this]; exact hr
  · rw [if_neg hc] at h; cases h

/-- a pass that ends in `return` -/
theorem runs_done (cfg : Cfg) (s : St) (b : Bytes) (s' : St) (h : writeStep cfg s b = .done s')
    (hf : ∃ c, (openIfNeeded s).files 0 = some c) : Runs (sys cfg) (.wOpen b) s b.length s' := by
  unfold writeStep at h
  simp only at h
  refine Runs.step rfl ?_
  show Runs (sys cfg) (.wCheck b) (openIfNeeded s) b.length s'
  generalize openIfNeeded s = t at h hf
  obtain ⟨c, hc⟩ := hf
  by_cases hcond : t.size > 0 ∧ t.size + b.length > cfg.maxSize
  · rw [if_pos hcond] at h; cases h
  · rw [if_neg hcond] at h
    injection h with h
    subst h
    refine Runs.step rfl ?_
    have e1 : ((sys cfg).micro (.wCheck b) t) = (.wBytes b b, t) := by
      show (if t.size > 0 ∧ t.size + b.length > cfg.maxSize then _ else _) = _
      rw [if_neg hcond]
    rw [e1]
    have := runs_bytes cfg b b t c hc
    simpa [hc] using this

/-- **the micro-steps of `Write` compute the sequential `write`** (state in step) -/
theorem runs_write (cfg : Cfg) (s : St) (b : Bytes) (ht : Track s) :
    Runs (sys cfg) (.wOpen b) s b.length (write cfg s b) := by
  have hopen : ∀ t : St, Track t → ∃ c, (openIfNeeded t).files 0 = some c := by
    intro t htt
    obtain ⟨h1, h2⟩ := track_open t htt
    obtain ⟨c, hc, _⟩ := h1 h2
    exact ⟨c, hc⟩
  rcases write_terminates cfg s b with ⟨s', h⟩ | ⟨s1, s', h1, h2⟩
  · have : write cfg s b = s' := by simp [write, h]
    rw [this]; exact runs_done cfg s b s' h (hopen s ht)
  · have : write cfg s b = s' := by simp [write, h1, h2]
    rw [this]
    have ht1 : Track s1 := by
      unfold writeStep at h1
      simp only at h1
      split at h1
      · injection h1 with h1; subst h1; intro ho; cases ho
      · cases h1
    exact runs_again cfg s b s1 h1 _ _ (runs_done cfg s1 b s' h2 (hopen s1 ht1))

/-- every method: its micro-steps compute the sequential model and return the sequential result -/
theorem runs_op (cfg : Cfg) (o : Op) (s : St) (ht : Track s) :
    Runs (sys cfg) ((sys cfg).start o) s (runOp cfg o s).1 (runOp cfg o s).2 := by
  cases o with
  | write b => exact runs_write cfg s b ht
  | close => exact Runs.step rfl (Runs.fin rfl)
  | reopen => exact Runs.step rfl (Runs.fin rfl)
  | sync => exact Runs.step rfl (Runs.fin rfl)

theorem track_runOp (cfg : Cfg) (o : Op) (s : St) (ht : Track s) : Track (runOp cfg o s).2 := track_apply cfg s o ht

/-- the reference execution of the generic machine is `Rot.run` on the operations in acquisition order, and every
    operation's result is `resultOf` -/
theorem seqExec_runOp (cfg : Cfg) (s : St) (acq : List (Nat × Op)) :
    Mutex.seqExec (runOp cfg) s acq = (acq.map (fun x => (x.1, x.2, resultOf x.2)), run cfg s (acq.map (·.2))) := by
  induction acq generalizing s with
  | nil => rfl
  | cons x xs ih =>
    obtain ⟨t, op⟩ := x
    simp only [Mutex.seqExec, List.map_cons, run]
    rw [ih]
    rfl

theorem resOf_map (t : Nat) (acq : List (Nat × Op)) :
    Mutex.resOf t (acq.map (fun x => (x.1, x.2, resultOf x.2))) = (Mutex.opsOf t acq).map resultOf := by
  induction acq with
  | nil => rfl
  | cons x xs ih =>
    simp only [Mutex.resOf, Mutex.opsOf, List.map_cons, List.filter_cons] at ih ⊢
    by_cases h : (x.1 == t) = true
    · simp only [h, if_true, List.map_cons]; rw [ih]
    · simp only [h]; exact ih

/-- an acquired operation belongs to the program of its thread -/
theorem mem_opsOf {t : Nat} {op : Op} {acq : List (Nat × Op)} (h : (t, op) ∈ acq) : op ∈ Mutex.opsOf t acq := by
  simp only [Mutex.opsOf, List.mem_map, List.mem_filter]
  exact ⟨(t, op), ⟨h, by simp⟩, rfl⟩

theorem writesOf_mem {w : Bytes} {ops : List Op} (h : w ∈ writesOf ops) : Op.write w ∈ ops := by
  induction ops with
  | nil => simp [writesOf] at h
  | cons o os ih =>
    cases o with
    | write b =>
      simp only [writesOf, List.mem_cons] at h
      rcases h with h | h
      · subst h; simp
      · exact List.mem_cons_of_mem _ (ih h)
    | close => exact List.mem_cons_of_mem _ (ih (by simpa [writesOf] using h))
    | reopen => exact List.mem_cons_of_mem _ (ih (by simpa [writesOf] using h))
    | sync => exact List.mem_cons_of_mem _ (ih (by simpa [writesOf] using h))

/-! ### every method finishes within a bounded number of micro-steps -/

open Mutex (RunsN)

/-- micro-steps one `Write(b)` can take at most: two passes (open, test), one rotation (close, remove, one rename per
    backup slot, reset) and the bytes -/
def opBound (cfg : Cfg) : Op → Nat
  | .write b => b.length + cfg.maxBackups + 7
  | _ => 1

theorem bytesN (cfg : Cfg) (b : Bytes) : ∀ (rest : Bytes) (s : St),
    ∃ s', RunsN (sys cfg) (rest.length + 1) (.wBytes b rest) s b.length s' := by
  intro rest
  induction rest with
  | nil => intro s; exact ⟨s, RunsN.step rfl (RunsN.fin rfl)⟩
  | cons x rest ih =>
    intro s
    obtain ⟨s', h⟩ := ih { s with files := s.files.set 0 (some (content s.files 0 ++ [x])), size := s.size + 1 }
    exact ⟨s', RunsN.step rfl h⟩

theorem chainN (cfg : Cfg) (b : Bytes) : ∀ (i : Nat) (s : St) (n r : Nat) (s'' : St),
    RunsN (sys cfg) n (.wOpen b) { files := renameChain s.files i, isOpen := false, size := 0 } r s'' →
    RunsN (sys cfg) (n + i + 1) (.rRename b i) s r s'' := by
  intro i
  induction i with
  | zero => intro s n r s'' h; exact RunsN.step rfl h
  | succ i ih =>
    intro s n r s'' h
    have := ih { s with files := mv s.files i (i+1) } n r s'' h
    have e : n + (i + 1) + 1 = (n + i + 1) + 1 := by omega
    rw [e]; exact RunsN.step rfl this

/-- a pass that does not rotate -/
theorem passN_done (cfg : Cfg) (b : Bytes) (s : St)
    (hc : ¬ ((openIfNeeded s).size > 0 ∧ (openIfNeeded s).size + b.length > cfg.maxSize)) :
    ∃ s', RunsN (sys cfg) (b.length + 3) (.wOpen b) s b.length s' := by
  obtain ⟨s', h⟩ := bytesN cfg b b (openIfNeeded s)
  refine ⟨s', RunsN.step rfl ?_⟩
  show RunsN (sys cfg) (b.length + 1 + 1) (.wCheck b) (openIfNeeded s) b.length s'
  refine RunsN.step rfl ?_
  have e1 : ((sys cfg).micro (.wCheck b) (openIfNeeded s)) = (.wBytes b b, openIfNeeded s) := by
    show (if (openIfNeeded s).size > 0 ∧ (openIfNeeded s).size + b.length > cfg.maxSize then _ else _) = _
    rw [if_neg hc]
  rw [e1]; exact h

/-- from the size test on, when it decides to rotate: one rotation, then a pass that cannot rotate again (the size is 0
    after re-opening) -/
theorem checkN_rot (cfg : Cfg) (b : Bytes) (t : St) (hc : t.size > 0 ∧ t.size + b.length > cfg.maxSize) :
    ∃ n s', n ≤ b.length + cfg.maxBackups + 6 ∧ RunsN (sys cfg) n (.wCheck b) t b.length s' := by
  have h0 := reopen_after_rotate cfg t
  have hc1 : ¬ ((openIfNeeded (rotate cfg t)).size > 0 ∧
      (openIfNeeded (rotate cfg t)).size + b.length > cfg.maxSize) := by rw [h0]; omega
  obtain ⟨s', h1⟩ := passN_done cfg b (rotate cfg t) hc1
  have e1 : ((sys cfg).micro (.wCheck b) t) = (.rRemove b, { t with isOpen := false }) := by
    show (if t.size > 0 ∧ t.size + b.length > cfg.maxSize then _ else _) = _
    rw [if_pos hc]
  by_cases hm : cfg.maxBackups < 1
  · have e2 : ((sys cfg).micro (.rRemove b) { t with isOpen := false }) =
        (.rRename b 0, { t with isOpen := false, files := t.files.set 0 none }) := by
      show (if cfg.maxBackups < 1 then _ else _) = _
      rw [if_pos hm]
    have hrot : rotate cfg t = { files := renameChain (t.files.set 0 none) 0, isOpen := false, size := 0 } := by
      simp [rotate, rotateFiles, hm, renameChain]
    rw [hrot] at h1
    have hch := chainN cfg b 0 { t with isOpen := false, files := t.files.set 0 none } _ _ _ h1
    refine ⟨b.length + 3 + 0 + 1 + 1 + 1, s', by omega, ?_⟩
    refine RunsN.step rfl ?_
    rw [e1]
    refine RunsN.step rfl ?_
    rw [e2]; exact hch
  · have e2 : ((sys cfg).micro (.rRemove b) { t with isOpen := false }) =
        (.rRename b cfg.maxBackups, { t with isOpen := false, files := t.files.set cfg.maxBackups none }) := by
      show (if cfg.maxBackups < 1 then _ else _) = _
      rw [if_neg hm]
    have hrot : rotate cfg t = { files := renameChain (t.files.set cfg.maxBackups none) cfg.maxBackups, isOpen := false, size := 0 } := by
      simp [rotate, rotateFiles, hm]
    rw [hrot] at h1
    have hch := chainN cfg b cfg.maxBackups { t with isOpen := false, files := t.files.set cfg.maxBackups none } _ _ _ h1
    refine ⟨b.length + 3 + cfg.maxBackups + 1 + 1 + 1, s', by omega, ?_⟩
    refine RunsN.step rfl ?_
    rw [e1]
    refine RunsN.step rfl ?_
    rw [e2]; exact hch

/-- `Write` from ANY state (in step or not) finishes within `opBound` micro-steps -/
theorem writeN (cfg : Cfg) (b : Bytes) (s : St) :
    ∃ n r s', n ≤ opBound cfg (.write b) ∧ RunsN (sys cfg) n (.wOpen b) s r s' := by
  by_cases hc : (openIfNeeded s).size > 0 ∧ (openIfNeeded s).size + b.length > cfg.maxSize
  · obtain ⟨n, s', hn, h⟩ := checkN_rot cfg b (openIfNeeded s) hc
    exact ⟨n + 1, b.length, s', by simp only [opBound]; omega, RunsN.step rfl h⟩
  · obtain ⟨s', h⟩ := passN_done cfg b s hc
    exact ⟨b.length + 3, b.length, s', by simp only [opBound]; omega, h⟩

/-- every method, from every state, finishes within `opBound` micro-steps -/
theorem op_bounded (cfg : Cfg) (o : Op) (s : St) :
    ∃ n r s', n ≤ opBound cfg o ∧ RunsN (sys cfg) n ((sys cfg).start o) s r s' := by
  cases o with
  | write b => exact writeN cfg b s
  | close => exact ⟨1, 0, _, Nat.le_refl _, RunsN.step rfl (RunsN.fin rfl)⟩
  | reopen => exact ⟨1, 0, _, Nat.le_refl _, RunsN.step rfl (RunsN.fin rfl)⟩
  | sync => exact ⟨1, 0, _, Nat.le_refl _, RunsN.step rfl (RunsN.fin rfl)⟩

end Rot
