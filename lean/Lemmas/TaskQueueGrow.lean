import Lemmas.TaskQueueW2
/-! C15: the backlog of an unbounded queue grows beyond any fixed size (non-vacuity of the order theorems over backlog
    growth: `fifo`, `fifo_single_worker` are statements about ALL of these states).  Core Lean only. -/
namespace TQW
open TQ

/-- the states in which the workers sleep while tasks are poured in: dispatcher at its select, `in` empty -/
structure Pouring (c : Cfg) (s : TS) : Prop where
  reach : TReachable code c s
  pc : s.q.pc = .sel
  inq : s.q.inq = []
  shut : s.q.shut = 0
  tqle : s.q.tq.length ≤ c.workers
  full : s.q.backlog ≠ [] → s.q.tq.length = c.workers

/-- one more `Submit`: it goes to `tasks` while there is room and nothing waits, else to the backlog -/
theorem pour_one (c : Cfg) (hd : c.depth < 0) (hi : 1 ≤ c.inCap) (s : TS) (P : Pouring c s) :
    ∃ s', Pouring c s' ∧ s'.q.tq.length + s'.q.backlog.length = s.q.tq.length + s.q.backlog.length + 1 := by
  obtain ⟨hr, hpc, hq, hs, hle, hfull⟩ := P
  -- submit
  have h1 : next (noH c) s.q (.submit false) = some (doSubmit s.q false) := by
    simp [next, hs, hq, noH]; omega
  let s1 : TS := { s with q := doSubmit s.q false }
  have r1 : TReachable code c s1 := TReachable.step _ _ hr (TStep.other s _ _ rfl h1)
  -- recv
  have h2 : next (noH c) s1.q .recv = some { s1.q with inq := [], pc := .got s.q.nextId, received := s1.q.received + 1 } := by
    simp [next, s1, hq, hpc]
  let s2 : TS := { s1 with q := { s1.q with inq := [], pc := .got s.q.nextId, received := s1.q.received + 1 } }
  have r2 : TReachable code c s2 := TReachable.step _ _ r1 (TStep.other s1 _ _ rfl h2)
  by_cases hc : s.q.backlog = [] ∧ s.q.tq.length < c.workers
  · -- direct hand-off
    have h3 : next (noH c) s2.q .handoff = some { s2.q with tq := s2.q.tq ++ [s.q.nextId], pc := .sel } := by
      simp [next, s2, s1, canHandOff, noH, hc.1, hc.2]
    let s3 : TS := { s2 with q := { s2.q with tq := s2.q.tq ++ [s.q.nextId], pc := .sel } }
    have r3 : TReachable code c s3 := TReachable.step _ _ r2 (TStep.other s2 _ _ rfl h3)
    refine ⟨s3, ⟨r3, rfl, rfl, hs, ?_, ?_⟩, ?_⟩
    · simp [s3, s2, s1]; omega
    · intro hb; simp [s3, s2, s1, hc.1] at hb
    · simp [s3, s2, s1]; omega
  · -- to the backlog (unbounded: there is always room)
    have hnc : ¬ canHandOff (noH c) s2.q := by
      simp only [canHandOff, s2, s1, noH]; exact hc
    have hroom : roomInBacklog (noH c) s2.q := Or.inl (by simpa [noH] using hd)
    have h3 : next (noH c) s2.q .toBacklog = some { s2.q with backlog := s2.q.backlog ++ [s.q.nextId], pc := .sel } := by
      simp only [next, s2]
      simp only [s2] at hnc hroom
      simp [hnc, hroom]
    let s3 : TS := { s2 with q := { s2.q with backlog := s2.q.backlog ++ [s.q.nextId], pc := .sel } }
    have r3 : TReachable code c s3 := TReachable.step _ _ r2 (TStep.other s2 _ _ rfl h3)
    have htq : s.q.tq.length = c.workers := by
      by_cases hb : s.q.backlog = []
      · have : ¬ s.q.tq.length < c.workers := fun h => hc ⟨hb, h⟩
        omega
      · exact hfull hb
    refine ⟨s3, ⟨r3, rfl, rfl, hs, ?_, ?_⟩, ?_⟩
    · simp [s3, s2, s1]; exact hle
    · intro _; simp [s3, s2, s1]; exact htq
    · simp [s3, s2, s1]; omega

theorem pour (c : Cfg) (hd : c.depth < 0) (hi : 1 ≤ c.inCap) (n : Nat) :
    ∃ s, Pouring c s ∧ s.q.tq.length + s.q.backlog.length = n := by
  induction n with
  | zero => exact ⟨init c, ⟨TReachable.init, rfl, rfl, rfl, by simp [init], by intro h; simp [init] at h⟩, by simp [init]⟩
  | succ n ih =>
    obtain ⟨s, P, hn⟩ := ih
    obtain ⟨s', P', hn'⟩ := pour_one c hd hi s P
    exact ⟨s', P', by omega⟩

/-- **the backlog of an unbounded queue reaches every size** (with every worker still asleep) -/
theorem backlog_reaches_any_size (c : Cfg) (hd : c.depth < 0) (hi : 1 ≤ c.inCap) (N : Nat) :
    ∃ s, TReachable code c s ∧ s.q.backlog.length = N ∧ s.q.tq.length = c.workers ∧ s.q.shut = 0 := by
  obtain ⟨s, P, hn⟩ := pour c hd hi (c.workers + N)
  have hle := P.tqle
  by_cases hb : s.q.backlog = []
  · have : s.q.backlog.length = 0 := by rw [hb]; rfl
    have hN : N = 0 := by omega
    exact ⟨s, P.reach, by omega, by omega, P.shut⟩
  · have := P.full hb
    exact ⟨s, P.reach, by omega, this, P.shut⟩

end TQW
