import Lemmas.Errs
import Model.ErrsWalk
/-! C11, lemmas about `errors.Is` / `errors.As` over the `Unwrap` chain, `Recovery` and the `Log*` record
    (`Model/ErrsWalk.lean`).  Core-only. -/
namespace Errs

theorem valDepth_pos (v : Val) : 1 ≤ valDepth v := by
  cases v <;> simp [valDepth]

theorem walkFuel_ge (h : Heap) (v : Val) : 2 ≤ walkFuel h v := by
  have := valDepth_pos v
  unfold walkFuel; omega

/-- `errors.As` finds something exactly when the model's `asError` (used by `Wrap`) says so -/
theorem asError_iff_asTarget : ∀ v : Val, asError v = true ↔ asTarget v ≠ .nilIface := by
  intro v
  induction v with
  | nilIface => simp [asError, asTarget]
  | typedNil => simp [asError, asTarget]
  | foreignNil => simp [asError, asTarget]
  | ref id => simp [asError, asTarget]
  | plain u m => simp [asError, asTarget]
  | fwrap u m inner ih => simpa [asError, asTarget] using ih

/-- what `errors.As` stores is a `*Error`: a cell or the nil pointer -/
theorem asTarget_kind : ∀ v : Val, asTarget v = .nilIface ∨ asTarget v = .typedNil ∨ ∃ id, asTarget v = .ref id := by
  intro v
  induction v with
  | nilIface => simp [asTarget]
  | typedNil => simp [asTarget]
  | foreignNil => simp [asTarget]
  | ref id => simp [asTarget]
  | plain u m => simp [asTarget]
  | fwrap u m inner ih => simpa [asTarget] using ih

/-- one step of the `errors.Is` loop through a cell that is not the target -/
theorem isWalk_ref_step (h : Heap) (cmp : Val → Bool) (t : Val) (fuel id : Nat) (hne : t ≠ .ref id) :
    isWalk h cmp t (fuel + 1) (.ref id) = isWalk h cmp t fuel (unwrap h (.ref id)) := by
  have h1 : (Val.ref id == t) = false := by
    simp only [beq_eq_false_iff_ne, ne_eq]; exact fun e => hne e.symm
  have h0 : (Val.ref id == Val.nilIface) = false := by simp
  simp [isWalk, h1, h0]

/-- the loop stops with `found` at a comparable target -/
theorem isWalk_self (h : Heap) (cmp : Val → Bool) (t : Val) (fuel : Nat) (ht : t ≠ .nilIface) (hc : cmp t = true) :
    isWalk h cmp t (fuel + 1) t = .found := by
  have h0 : (t == Val.nilIface) = false := by simpa using ht
  simp [isWalk, h0, hc]

/-- a fresh cell whose cause is the comparable non-nil value `c`: `errors.Is(cell, c)` -/
theorem errorsIs_push_cause (h : Heap) (cmp : Val → Bool) (n : ENode) (c : Val) (hn : n.cause = c)
    (hc0 : c ≠ .nilIface) (hcr : c ≠ .ref h.size) (hcmp : cmp c = true) :
    errorsIs (h.push n) cmp (.ref h.size) c = .found := by
  unfold errorsIs
  have h0 : (Val.ref h.size == Val.nilIface) = false := by simp
  have h1 : (c == Val.nilIface) = false := by simpa using hc0
  simp only [h0, h1, Bool.or_self, Bool.false_eq_true, if_false]
  obtain ⟨k, hk⟩ : ∃ k, walkFuel (h.push n) (.ref h.size) = k + 2 :=
    ⟨walkFuel (h.push n) (.ref h.size) - 2, by have := walkFuel_ge (h.push n) (.ref h.size); omega⟩
  rw [hk, isWalk_ref_step _ _ _ _ _ hcr]
  have hu : unwrap (h.push n) (.ref h.size) = c := by simp [unwrap, hn]
  rw [hu]
  exact isWalk_self _ _ _ _ hc0 hcmp

theorem recoveryF_heap (s : FHeap) (f : Nat) (msg : String) (p : PanicVal) (b : Bool) :
    (recoveryF s f msg p b).1.h = (recovery s.h msg p b).1 ∧ (recoveryF s f msg p b).2 = (recovery s.h msg p b).2 := by
  cases p <;> cases b <;> simp [recoveryF, recovery, newWithCauseF, newF]

theorem wrapTypedF_heap (s : FHeap) (f : Nat) (v : Val) :
    (wrapTypedF s f v).1.h = (wrapTyped s.h v).1 ∧ (wrapTypedF s f v).2 = (wrapTyped s.h v).2 := by
  unfold wrapTypedF; split <;> exact ⟨rfl, rfl⟩

theorem logRecordF_heap (s : FHeap) (f : Nat) (v : Val) :
    (logRecordF s f v).1.h = (logRecord s.h v).1 ∧ (logRecordF s f v).2 = (logRecord s.h v).2 := by
  obtain ⟨h1, h2⟩ := wrapTypedF_heap s f v
  unfold logRecordF logRecord
  simp only []
  rw [h2]
  cases hv : (wrapTyped s.h v).2 <;> simp [h1]

/-- no nil `*errs.Error` is the value itself or sits at the bottom of its foreign wrappers -/
def nilFree : Val → Bool
  | .typedNil => false
  | .fwrap _ _ inner => nilFree inner
  | _ => true

theorem isWalk_no_panic (h : Heap) (cmp : Val → Bool) (t : Val)
    (hh : ∀ (i : Nat) (n : ENode), h[i]? = some n → nilFree n.cause = true) :
    ∀ (fuel : Nat) (v : Val), nilFree v = true → isWalk h cmp t fuel v ≠ .panics := by
  intro fuel
  induction fuel with
  | zero => intro v _; simp [isWalk]
  | succ f ih =>
    intro v hv
    unfold isWalk
    split
    · simp
    · split
      · simp
      · cases v with
        | typedNil => simp [nilFree] at hv
        | ref id =>
          simp only []
          apply ih
          cases hx : h[id]? with
          | none => simp [unwrap, hx, nilFree]
          | some n => simp only [unwrap, hx]; exact hh id n hx
        | fwrap u m inner => simp only []; exact ih inner (by simpa [nilFree] using hv)
        | nilIface => simp
        | foreignNil => simp
        | plain u m => simp

/-! ### `errors.As` with a target of any type -/

theorem asWalk_ref_step (h : Heap) (ty : Val → Nat) (k fuel id : Nat) (hne : ty (.ref id) ≠ k) :
    asWalk h ty k (fuel + 1) (.ref id) = asWalk h ty k fuel (unwrap h (.ref id)) := by
  have h0 : (Val.ref id == Val.nilIface) = false := by simp
  have h1 : (ty (Val.ref id) == k) = false := by simpa using hne
  simp [asWalk, h0, h1]

theorem asWalk_self (h : Heap) (ty : Val → Nat) (k fuel : Nat) (v : Val) (hv : v ≠ .nilIface) (ht : ty v = k) :
    asWalk h ty k (fuel + 1) v = .found v := by
  have h0 : (v == Val.nilIface) = false := by simpa using hv
  simp [asWalk, h0, ht]

/-- a fresh cell whose cause is the non-nil value `c` of type `k` (not the type of `*errs.Error`): `errors.As(cell, &T_k)`
    stores `c` -/
theorem errorsAs_push_cause (h : Heap) (ty : Val → Nat) (k : Nat) (n : ENode) (c : Val) (hn : n.cause = c)
    (hc0 : c ≠ .nilIface) (hty : ty c = k) (hr : ty (.ref h.size) ≠ k) :
    errorsAs (h.push n) ty k (.ref h.size) = .found c := by
  unfold errorsAs
  obtain ⟨j, hj⟩ : ∃ j, walkFuel (h.push n) (.ref h.size) = j + 2 :=
    ⟨walkFuel (h.push n) (.ref h.size) - 2, by have := walkFuel_ge (h.push n) (.ref h.size); omega⟩
  rw [hj, asWalk_ref_step _ _ _ _ _ hr]
  have hu : unwrap (h.push n) (.ref h.size) = c := by simp [unwrap, hn]
  rw [hu]
  exact asWalk_self _ _ _ _ _ hc0 hty

/-! ### `%q`: the quoted rendering can be read back -/

/-- reading a `strconv.Quote`d body back (the five escapes the model writes) -/
def unquoteChars : List Char → List Char
  | '\\' :: 'n' :: r => '\n' :: unquoteChars r
  | '\\' :: 't' :: r => '\t' :: unquoteChars r
  | '\\' :: 'r' :: r => '\r' :: unquoteChars r
  | '\\' :: '"' :: r => '"' :: unquoteChars r
  | '\\' :: '\\' :: r => '\\' :: unquoteChars r
  | c :: r => c :: unquoteChars r
  | [] => []

theorem unq_other (c : Char) (r : List Char) (hc : c ≠ '\\') : unquoteChars (c :: r) = c :: unquoteChars r := by
  conv => lhs; unfold unquoteChars
  split <;> simp_all
def quoteChars (l : List Char) : List Char := l.flatMap (fun c => (quoteChar c).toList)
theorem quoteChar_cases (c : Char) :
    (c = '"' ∧ (quoteChar c).toList = ['\\', '"']) ∨ (c = '\\' ∧ (quoteChar c).toList = ['\\', '\\']) ∨
    (c = '\n' ∧ (quoteChar c).toList = ['\\', 'n']) ∨ (c = '\t' ∧ (quoteChar c).toList = ['\\', 't']) ∨
    (c = '\r' ∧ (quoteChar c).toList = ['\\', 'r']) ∨ (c ≠ '\\' ∧ (quoteChar c).toList = [c]) := by
  unfold quoteChar
  by_cases h1 : c = '"'
  · subst h1; left; exact ⟨rfl, by decide⟩
  by_cases h2 : c = '\\'
  · subst h2; right; left; exact ⟨rfl, by decide⟩
  by_cases h3 : c = '\n'
  · subst h3; right; right; left; exact ⟨rfl, by decide⟩
  by_cases h4 : c = '\t'
  · subst h4; right; right; right; left; exact ⟨rfl, by decide⟩
  by_cases h5 : c = '\r'
  · subst h5; right; right; right; right; left; exact ⟨rfl, by decide⟩
  right; right; right; right; right
  refine ⟨h2, ?_⟩
  simp [h1, h2, h3, h4, h5]
theorem unquote_quote : ∀ l : List Char, unquoteChars (quoteChars l) = l := by
  intro l
  induction l with
  | nil => rfl
  | cons c r ih =>
    have hq : quoteChars (c :: r) = (quoteChar c).toList ++ quoteChars r := by simp [quoteChars]
    rw [hq]
    rcases quoteChar_cases c with ⟨rfl, h⟩ | ⟨rfl, h⟩ | ⟨rfl, h⟩ | ⟨rfl, h⟩ | ⟨rfl, h⟩ | ⟨hc, h⟩
    all_goals rw [h]
    · simp [unquoteChars, ih]
    · simp [unquoteChars, ih]
    · simp [unquoteChars, ih]
    · simp [unquoteChars, ih]
    · simp [unquoteChars, ih]
    · simp only [List.singleton_append]; rw [unq_other c _ hc, ih]

end Errs
