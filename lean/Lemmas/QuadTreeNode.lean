import Model.QuadTree
/-! Node-level refinement lemmas of the quadtree model (`Model/QuadTree.lean`), generic over the rectangle operations
    and their four pruning laws.  Core Lean only.  (Type-checked during design, Appendix C of DESIGN.md.) -/
namespace QT

/-- what the quadtree needs to know about the rectangle predicates (proved for `geom` in `Lemmas/QuadTreeGeom.lean`
    from C18's rectangle theorems) -/
class RectLaws (R : Type) (P : outParam Type) [L : RectOps R P] : Prop where
  prune_point : ∀ (a b : R) (p : P), L.contains a b = true → L.inPt p b = true → L.inPt p a = true
  prune_intersects : ∀ a b q : R, L.contains a b = true → L.intersects b q = true → L.intersects a q = true
  prune_containsRect : ∀ a b q : R, L.contains a b = true → L.contains b q = true → L.intersects a q = true
  prune_containedBy : ∀ a b q : R, L.contains a b = true → L.contains q b = true → L.intersects a q = true
  contains_trans : ∀ a b c : R, L.contains a b = true → L.contains b c = true → L.contains a c = true
  contains_nonempty : ∀ a b : R, L.contains a b = true → L.empty a = false ∧ L.empty b = false
  contains_refl : ∀ a : R, L.empty a = false → L.contains a a = true
  union_empty_left : ∀ a b : R, L.empty a = true → L.empty b = false → L.union a b = b
  union_contains : ∀ a b : R, L.empty a = false → L.empty b = false →
    L.contains (L.union a b) a = true ∧ L.contains (L.union a b) b = true
  zero_empty : L.empty (L.zero : R) = true

namespace Node
variable {R P : Type} [L : RectOps R P]

/-- every item stored below a node is contained in that node's rectangle — and so on recursively -/
def Inv : Node R → Prop
  | leaf r cs => ∀ it ∈ cs, L.contains r it.rect = true
  | split r cs c0 c1 c2 c3 =>
    (∀ it ∈ cs ++ (all c0 ++ (all c1 ++ (all c2 ++ all c3))), L.contains r it.rect = true) ∧
    Inv c0 ∧ Inv c1 ∧ Inv c2 ∧ Inv c3


theorem all_contained (n : Node R) (h : Inv n) : ∀ it ∈ all n, L.contains n.rect it.rect = true := by
  cases n with
  | leaf r cs => simpa [Inv, all, rect] using h
  | split r cs c0 c1 c2 c3 => simpa [all, rect] using h.1


theorem perm_ins_mid {α : Type} (pre b a post : List α) (it : α) (h : b.Perm (it :: a)) :
    (pre ++ (b ++ post)).Perm (it :: (pre ++ (a ++ post))) := by
  have h1 : (b ++ post).Perm (it :: (a ++ post)) := by
    have := h.append_right post
    simpa using this
  have h2 : (pre ++ (b ++ post)).Perm (pre ++ it :: (a ++ post)) := h1.append_left pre
  exact h2.trans List.perm_middle

/-- what we need to know about the recursive inserter -/
def InsOK (ins : Node R → Item R → Node R) : Prop :=
  ∀ c it, Inv c → L.contains c.rect it.rect = true →
    Inv (ins c it) ∧ (all (ins c it)).Perm (it :: all c) ∧ (ins c it).rect = c.rect

theorem addHere_ok : InsOK (addHere (R := R)) := by
  intro c it hc hin
  cases c with
  | leaf r cs =>
    refine ⟨?_, ?_, rfl⟩
    · intro x hx
      simp at hx
      rcases hx with hx | hx
      · exact hc x hx
      · subst hx; simpa [rect] using hin
    · simpa [addHere, all] using List.perm_append_singleton it cs
  | split r cs c0 c1 c2 c3 =>
    obtain ⟨hall, h0, h1, h2, h3⟩ := hc
    have hp : ((cs ++ [it]) ++ (all c0 ++ (all c1 ++ (all c2 ++ all c3)))).Perm
        (it :: (cs ++ (all c0 ++ (all c1 ++ (all c2 ++ all c3))))) := by
      have : (cs ++ [it]).Perm (it :: cs) := List.perm_append_singleton it cs
      simpa using this.append_right _
    refine ⟨⟨?_, h0, h1, h2, h3⟩, ?_, rfl⟩
    · intro x hx
      rcases List.mem_cons.mp (hp.mem_iff.mp hx) with e | e
      · subst e; simpa [rect] using hin
      · exact hall x e
    · simpa only [addHere, all] using hp

theorem route_ok (ins : Node R → Item R → Node R) (hins : InsOK ins) : InsOK (route ins) := by
  intro n it hn hin
  cases n with
  | leaf r cs => exact addHere_ok (leaf r cs) it hn hin
  | split r cs c0 c1 c2 c3 =>
    obtain ⟨hall, h0, h1, h2, h3⟩ := hn
    simp only [route]
    have hnew : L.contains r it.rect = true := by simpa [rect] using hin
    split
    · rename_i hc
      obtain ⟨i1, i2, i3⟩ := hins c0 it h0 hc
      refine ⟨⟨?_, i1, h1, h2, h3⟩, ?_, rfl⟩
      · intro x hx
        have hp : (cs ++ (all (ins c0 it) ++ (all c1 ++ (all c2 ++ all c3)))).Perm
            (it :: (cs ++ (all c0 ++ (all c1 ++ (all c2 ++ all c3))))) := perm_ins_mid cs _ _ _ it i2
        have := hp.mem_iff.mp hx
        rcases List.mem_cons.mp this with e | e
        · subst e; exact hnew
        · exact hall x e
      · simp only [all]; exact perm_ins_mid cs _ _ _ it i2
    · split
      · rename_i hc
        obtain ⟨i1, i2, i3⟩ := hins c1 it h1 hc
        have hp : (cs ++ (all c0 ++ (all (ins c1 it) ++ (all c2 ++ all c3)))).Perm
            (it :: (cs ++ (all c0 ++ (all c1 ++ (all c2 ++ all c3))))) := by
          have := perm_ins_mid (cs ++ all c0) _ _ (all c2 ++ all c3) it i2
          simpa [List.append_assoc] using this
        refine ⟨⟨?_, h0, i1, h2, h3⟩, ?_, rfl⟩
        · intro x hx
          rcases List.mem_cons.mp (hp.mem_iff.mp hx) with e | e
          · subst e; exact hnew
          · exact hall x e
        · simp only [all]; exact hp
      · split
        · rename_i hc
          obtain ⟨i1, i2, i3⟩ := hins c2 it h2 hc
          have hp : (cs ++ (all c0 ++ (all c1 ++ (all (ins c2 it) ++ all c3)))).Perm
              (it :: (cs ++ (all c0 ++ (all c1 ++ (all c2 ++ all c3))))) := by
            have := perm_ins_mid (cs ++ (all c0 ++ all c1)) _ _ (all c3) it i2
            simpa [List.append_assoc] using this
          refine ⟨⟨?_, h0, h1, i1, h3⟩, ?_, rfl⟩
          · intro x hx
            rcases List.mem_cons.mp (hp.mem_iff.mp hx) with e | e
            · subst e; exact hnew
            · exact hall x e
          · simp only [all]; exact hp
        · split
          · rename_i hc
            obtain ⟨i1, i2, i3⟩ := hins c3 it h3 hc
            have hp : (cs ++ (all c0 ++ (all c1 ++ (all c2 ++ all (ins c3 it))))).Perm
                (it :: (cs ++ (all c0 ++ (all c1 ++ (all c2 ++ all c3))))) := by
              have := perm_ins_mid (cs ++ (all c0 ++ (all c1 ++ all c2))) _ _ [] it i2
              simpa [List.append_assoc] using this
            refine ⟨⟨?_, h0, h1, h2, i1⟩, ?_, rfl⟩
            · intro x hx
              rcases List.mem_cons.mp (hp.mem_iff.mp hx) with e | e
              · subst e; exact hnew
              · exact hall x e
            · simp only [all]; exact hp
          · exact addHere_ok (split r cs c0 c1 c2 c3) it ⟨hall, h0, h1, h2, h3⟩ hin

/-- re-inserting the old contents into the freshly split node -/
theorem refill_ok (ins : Node R → Item R → Node R) (hins : InsOK ins) (r : R) (cs : List (Item R)) (acc : Node R)
    (hacc : Inv acc) (hr : acc.rect = r) (hcs : ∀ it ∈ cs, L.contains r it.rect = true) :
    let res := cs.foldl (fun a one => route ins a one) acc
    Inv res ∧ (all res).Perm (cs.reverse ++ all acc) ∧ res.rect = r := by
  induction cs generalizing acc with
  | nil => simp [hacc, hr]
  | cons c cs ih =>
    have hc := hcs c (by simp)
    obtain ⟨r1, r2, r3⟩ := route_ok ins hins acc c hacc (by rw [hr]; exact hc)
    have := ih (route ins acc c) r1 (by rw [r3, hr]) (fun it hit => hcs it (by simp [hit]))
    obtain ⟨q1, q2, q3⟩ := this
    refine ⟨q1, ?_, q3⟩
    simp only [List.foldl_cons, List.reverse_cons, List.append_assoc, List.singleton_append]
    exact q2.trans ((r2.append_left cs.reverse))

theorem insert_ok (threshold : Nat) (fuel : Nat) : InsOK (insert (L := L) threshold fuel) := by
  induction fuel with
  | zero => intro c it hc hin; simpa [insert] using addHere_ok c it hc hin
  | succ f ih =>
    intro n it hn hin
    simp only [insert]
    -- the node after the optional split
    have key : ∀ n' : Node R, Inv n' → n'.rect = n.rect → (all n').Perm (all n) →
        Inv (route (insert threshold f) n' it) ∧ (all (route (insert threshold f) n' it)).Perm (it :: all n) ∧
        (route (insert threshold f) n' it).rect = n.rect := by
      intro n' h1 h2 h3
      obtain ⟨a, b, c⟩ := route_ok _ ih n' it h1 (by rw [h2]; exact hin)
      exact ⟨a, b.trans (h3.cons it), by rw [c, h2]⟩
    cases n with
    | split r cs c0 c1 c2 c3 => exact key _ hn rfl (List.Perm.refl _)
    | leaf r cs =>
      simp only
      split
      · -- the leaf is split and its contents re-inserted
        have hleaf : ∀ q : R, Inv (leaf q ([] : List (Item R))) := by intro q x hx; simp at hx
        have hacc : Inv (split r [] (leaf (L.quadrants r).1 []) (leaf (L.quadrants r).2.1 [])
            (leaf (L.quadrants r).2.2.1 []) (leaf (L.quadrants r).2.2.2 [])) := by
          refine ⟨?_, hleaf _, hleaf _, hleaf _, hleaf _⟩
          intro x hx; simp [all] at hx
        obtain ⟨q1, q2, q3⟩ := refill_ok (insert threshold f) ih r cs _ hacc rfl hn
        apply key _ q1 q3
        have : (cs.reverse ++ all (split r [] (leaf (L.quadrants r).1 []) (leaf (L.quadrants r).2.1 [])
            (leaf (L.quadrants r).2.2.1 []) (leaf (L.quadrants r).2.2.2 []))).Perm cs := by
          simp [all]
        exact q2.trans this
      · exact key _ hn rfl (List.Perm.refl _)


theorem swapRemove_perm (cs cs' : List (Item R)) (id : Nat) (h : swapRemove cs id = some cs') :
    ∃ x, x.id = id ∧ cs.Perm (x :: cs') := by
  induction cs generalizing cs' with
  | nil => simp [swapRemove] at h
  | cons c cs ih =>
    simp only [swapRemove] at h
    split at h
    · rename_i hid
      refine ⟨c, hid, ?_⟩
      injection h with h
      subst h
      cases hl : cs.getLast? with
      | none =>
        have : cs = [] := by simpa using hl
        subst this; simp
      | some l =>
        simp only
        have hne : cs ≠ [] := by intro e; rw [e] at hl; simp at hl
        have hl' : cs.getLast hne = l := by
          rw [List.getLast?_eq_some_getLast hne] at hl; exact Option.some.inj hl
        have e := List.dropLast_concat_getLast hne
        rw [hl'] at e
        apply List.Perm.cons
        have : (cs.dropLast ++ [l]).Perm (l :: cs.dropLast) := List.perm_append_comm
        rw [e] at this
        exact this
    · cases hr : swapRemove cs id with
      | none => rw [hr] at h; simp at h
      | some t =>
        rw [hr] at h
        simp only [Option.map_some, Option.some.injEq] at h
        subst h
        obtain ⟨x, hx, hp⟩ := ih t hr
        exact ⟨x, hx, (List.Perm.cons c hp).trans (List.Perm.swap x c t)⟩


/-- what a successful removal guarantees -/
def RemOK (id : Nat) (n n' : Node R) : Prop :=
  n'.rect = n.rect ∧ (Inv n → Inv n') ∧ ∃ x, x.id = id ∧ (all n).Perm (x :: all n')

theorem inv_of_sub (r : R) (A B : List (Item R)) (h : ∀ it ∈ A, L.contains r it.rect = true) (x : Item R)
    (hp : A.Perm (x :: B)) : ∀ it ∈ B, L.contains r it.rect = true :=
  fun it hit => h it (hp.symm.subset (List.mem_cons_of_mem _ hit))

theorem remove_ok (id : Nat) (b : R) (n n' : Node R) (h : remove id b n = some n') : RemOK id n n' := by
  induction n generalizing n' with
  | leaf r cs =>
    simp only [remove] at h
    cases hs : swapRemove cs id with
    | none => rw [hs] at h; simp at h
    | some cs' =>
      rw [hs] at h; simp only [Option.map_some, Option.some.injEq] at h; subst h
      obtain ⟨x, hx, hp⟩ := swapRemove_perm cs cs' id hs
      exact ⟨rfl, fun hi => inv_of_sub r cs cs' hi x hp, x, hx, hp⟩
  | split r cs c0 c1 c2 c3 ih0 ih1 ih2 ih3 =>
    simp only [remove] at h
    cases hs : swapRemove cs id with
    | some cs' =>
      rw [hs] at h; simp only [Option.some.injEq] at h; subst h
      obtain ⟨x, hx, hp⟩ := swapRemove_perm cs cs' id hs
      have hp' : (all (split r cs c0 c1 c2 c3)).Perm (x :: all (split r cs' c0 c1 c2 c3)) := by
        simp only [all]
        exact (List.Perm.append_right _ hp)
      exact ⟨rfl, fun hi => ⟨inv_of_sub r _ _ hi.1 x hp', hi.2⟩, x, hx, hp'⟩
    | none =>
      rw [hs] at h
      simp only at h
      split at h
      · have lift : ∀ (n' : Node R) (x : Item R), x.id = id → n'.rect = r →
            (Inv (split r cs c0 c1 c2 c3) → (∀ it ∈ all n', L.contains r it.rect = true) → Inv n') →
            (all (split r cs c0 c1 c2 c3)).Perm (x :: all n') → RemOK id (split r cs c0 c1 c2 c3) n' := by
          intro n' x hx hr hinv hp
          exact ⟨hr, fun hi => hinv hi (inv_of_sub r _ _ hi.1 x hp), x, hx, hp⟩
        cases h0 : remove id b c0 with
        | some c0' =>
          rw [h0] at h; simp only [Option.some.injEq] at h; subst h
          obtain ⟨_, hi0, x, hx, hp⟩ := ih0 c0' h0
          refine lift _ x hx rfl (fun hi ha => ⟨ha, hi0 hi.2.1, hi.2.2.1, hi.2.2.2.1, hi.2.2.2.2⟩) ?_
          simp only [all]
          exact perm_ins_mid cs _ _ _ x hp
        | none =>
          rw [h0] at h; simp only at h
          cases h1 : remove id b c1 with
          | some c1' =>
            rw [h1] at h; simp only [Option.some.injEq] at h; subst h
            obtain ⟨_, hi1, x, hx, hp⟩ := ih1 c1' h1
            refine lift _ x hx rfl (fun hi ha => ⟨ha, hi.2.1, hi1 hi.2.2.1, hi.2.2.2.1, hi.2.2.2.2⟩) ?_
            simp only [all]
            simpa [List.append_assoc] using perm_ins_mid (cs ++ all c0) _ _ (all c2 ++ all c3) x hp
          | none =>
            rw [h1] at h; simp only at h
            cases h2 : remove id b c2 with
            | some c2' =>
              rw [h2] at h; simp only [Option.some.injEq] at h; subst h
              obtain ⟨_, hi2, x, hx, hp⟩ := ih2 c2' h2
              refine lift _ x hx rfl (fun hi ha => ⟨ha, hi.2.1, hi.2.2.1, hi2 hi.2.2.2.1, hi.2.2.2.2⟩) ?_
              simp only [all]
              simpa [List.append_assoc] using perm_ins_mid (cs ++ all c0 ++ all c1) _ _ (all c3) x hp
            | none =>
              rw [h2] at h; simp only at h
              cases h3 : remove id b c3 with
              | some c3' =>
                rw [h3] at h; simp only [Option.some.injEq] at h; subst h
                obtain ⟨_, hi3, x, hx, hp⟩ := ih3 c3' h3
                refine lift _ x hx rfl (fun hi ha => ⟨ha, hi.2.1, hi.2.2.1, hi.2.2.2.1, hi3 hi.2.2.2.2⟩) ?_
                simp only [all]
                simpa [List.append_assoc] using perm_ins_mid (cs ++ all c0 ++ all c1 ++ all c2) _ _ [] x hp
              | none => rw [h3] at h; cases h
      · cases h

theorem swapRemove_some (cs : List (Item R)) (id : Nat) (x : Item R) (hx : x ∈ cs) (hid : x.id = id) :
    (swapRemove cs id).isSome = true := by
  induction cs with
  | nil => simp at hx
  | cons c cs ih =>
    simp only [swapRemove]
    split
    · rfl
    · rename_i hne
      rcases List.mem_cons.mp hx with e | e
      · exact absurd (e ▸ hid) hne
      · have := ih e
        cases hs : swapRemove cs id with
        | none => rw [hs] at this; simp at this
        | some t => simp

/-- **pruning is sound for removal**: an item stored anywhere below a node that satisfies the invariant is found,
    provided its bounds are the ones it was stored with -/
theorem remove_complete (id : Nat) (b : R) (n : Node R) (hi : Inv n) (x : Item R) (hx : x ∈ all n) (hid : x.id = id)
    (hb : x.rect = b) : (remove id b n).isSome = true := by
  induction n with
  | leaf r cs =>
    simp only [remove, all] at hx ⊢
    have := swapRemove_some cs id x hx hid
    cases hs : swapRemove cs id with
    | none => rw [hs] at this; simp at this
    | some t => simp
  | split r cs c0 c1 c2 c3 ih0 ih1 ih2 ih3 =>
    simp only [remove]
    cases hs : swapRemove cs id with
    | some t => simp
    | none =>
      simp only
      have hc : L.contains r b = true := by rw [← hb]; exact hi.1 x hx
      rw [if_pos hc]
      have hx' : x ∈ all c0 ∨ x ∈ all c1 ∨ x ∈ all c2 ∨ x ∈ all c3 := by
        simp only [all, List.mem_append] at hx
        rcases hx with h | h | h | h | h
        · have := swapRemove_some cs id x h hid; rw [hs] at this; simp at this
        · exact Or.inl h
        · exact Or.inr (Or.inl h)
        · exact Or.inr (Or.inr (Or.inl h))
        · exact Or.inr (Or.inr (Or.inr h))
      cases h0 : remove id b c0 with
      | some t => simp
      | none =>
        simp only
        cases h1 : remove id b c1 with
        | some t => simp
        | none =>
          simp only
          cases h2 : remove id b c2 with
          | some t => simp
          | none =>
            simp only
            cases h3 : remove id b c3 with
            | some t => simp
            | none =>
              exfalso
              rcases hx' with h | h | h | h
              · have := ih0 hi.2.1 h; rw [h0] at this; simp at this
              · have := ih1 hi.2.2.1 h; rw [h1] at this; simp at this
              · have := ih2 hi.2.2.2.1 h; rw [h2] at this; simp at this
              · have := ih3 hi.2.2.2.2 h; rw [h3] at this; simp at this


/-- **pruning is sound**: if the node test `pr` holds for every rectangle that contains an item satisfying `f`, the
    pruned search returns exactly the stored items that satisfy `f`, in storage order -/
theorem find_eq_filter (pr : R → Bool) (f : Item R → Bool)
    (hpr : ∀ (a : R) (it : Item R), L.contains a it.rect = true → f it = true → pr a = true)
    (n : Node R) (h : Inv n) : find pr f n = (all n).filter f := by
  induction n with
  | leaf r cs =>
    simp only [find, all]
    split
    · rfl
    · rename_i hq
      symm
      rw [List.filter_eq_nil_iff]
      intro it hit hi
      exact hq (hpr r it (h it hit) hi)
  | split r cs c0 c1 c2 c3 ih0 ih1 ih2 ih3 =>
    obtain ⟨hall, h0, h1, h2, h3⟩ := h
    simp only [find, all]
    split
    · rw [ih0 h0, ih1 h1, ih2 h2, ih3 h3]
      simp [List.filter_append]
    · rename_i hq
      symm
      rw [List.filter_eq_nil_iff]
      intro it hit hi
      exact hq (hpr r it (hall it hit) hi)

theorem isEmpty_app {α : Type} (a b : List α) : (a ++ b).isEmpty = (a.isEmpty && b.isEmpty) := by
  cases a <;> simp

theorem any_eq_filter_nonempty (f : Item R → Bool) (cs : List (Item R)) : cs.any f = !(cs.filter f).isEmpty := by
  induction cs with
  | nil => rfl
  | cons c t ih =>
    by_cases hc : f c = true
    · simp [List.filter, hc]
    · have hc' : f c = false := by simpa using hc
      simp [List.filter, hc', ih]

/-- each boolean traversal is true exactly when the corresponding `find` is non-empty (no invariant needed) -/
theorem any_eq_find_nonempty (pr : R → Bool) (f : Item R → Bool) (n : Node R) :
    any pr f n = !(find pr f n).isEmpty := by
  induction n with
  | leaf r cs =>
    simp only [any, find]
    by_cases h : pr r = true
    · simp [h, any_eq_filter_nonempty]
    · have h' : pr r = false := by simpa using h
      simp [h']
  | split r cs c0 c1 c2 c3 ih0 ih1 ih2 ih3 =>
    simp only [any, find]
    by_cases h : pr r = true
    · simp only [h, Bool.true_and, if_true, ih0, ih1, ih2, ih3, any_eq_filter_nonempty, isEmpty_app,
        Bool.not_and]
    · have h' : pr r = false := by simpa using h
      simp [h']

/-- folding an invariant-preserving inserter over a list of items that the node's rectangle contains -/
theorem fold_ok (g : Node R → Item R → Node R) (hg : InsOK g) (r : R) (cs : List (Item R)) (acc : Node R)
    (hacc : Inv acc) (hr : acc.rect = r) (hcs : ∀ it ∈ cs, L.contains r it.rect = true) :
    let res := cs.foldl g acc
    Inv res ∧ (all res).Perm (cs.reverse ++ all acc) ∧ res.rect = r := by
  induction cs generalizing acc with
  | nil => simp [hacc, hr]
  | cons c cs ih =>
    have hc := hcs c (by simp)
    obtain ⟨r1, r2, r3⟩ := hg acc c hacc (by rw [hr]; exact hc)
    have := ih (g acc c) r1 (by rw [r3, hr]) (fun it hit => hcs it (by simp [hit]))
    obtain ⟨q1, q2, q3⟩ := this
    refine ⟨q1, ?_, q3⟩
    simp only [List.foldl_cons, List.reverse_cons, List.append_assoc, List.singleton_append]
    exact q2.trans ((r2.append_left cs.reverse))


end Node
end QT
