import Model.BitSetChecked
import Lemmas.BitSetStore
/-! C08: every word access of every operation is in bounds — the checked transcription (`Model/BitSetChecked.lean`,
    `none` = Go's "index out of range" panic) returns `some` of what the total model computes, on EVERY state. -/
namespace BS

theorem getW?_lt (d : List W) (i : Nat) (h : i < d.length) : getW? d i = some (getW d i) := by
  unfold getW? getW
  rw [List.getD_eq_getElem?_getD, List.getElem?_eq_getElem h]; rfl

theorem setW?_lt (d : List W) (i : Nat) (w : W) (h : i < d.length) : setW? d i w = some (d.set i w) := by
  unfold setW?; simp [h]

theorem getW?_ge (d : List W) (i : Nat) (h : d.length ≤ i) : getW? d i = none := by
  unfold getW?; exact List.getElem?_eq_none h

theorem stateC_eq (b : T) (i : Nat) : stateC b i = some (state b i) := by
  unfold stateC state
  simp only
  split
  · rfl
  · rename_i h
    rw [getW?_lt _ _ (by omega)]; rfl

theorem setBitC_eq (b : T) (i : Nat) : setBitC b i = some (setBit b i) := by
  have hlen := ensure_length b (wordIdx i + 1)
  unfold setBitC setBit
  simp only [Option.bind_eq_bind, Option.pure_def]
  rw [getW?_lt _ _ (by omega)]
  simp only [Option.bind_some]
  split
  · rw [setW?_lt _ _ _ (by omega)]; rfl
  · rfl

theorem clearBitC_eq (b : T) (i : Nat) : clearBitC b i = some (clearBit b i) := by
  unfold clearBitC clearBit
  simp only [Option.bind_eq_bind, Option.pure_def]
  split
  · rename_i h
    rw [getW?_lt _ _ h]
    simp only [Option.bind_some]
    split
    · rw [setW?_lt _ _ _ h]; rfl
    · rfl
  · rfl

theorem flipBitC_eq (b : T) (i : Nat) : flipBitC b i = some (flipBit b i) := by
  have hlen := ensure_length b (wordIdx i + 1)
  unfold flipBitC flipBit
  simp only [Option.bind_eq_bind, Option.pure_def]
  rw [getW?_lt _ _ (by omega)]
  simp only [Option.bind_some]
  rw [setW?_lt _ _ _ (by omega)]; rfl

theorem rangeLoopC_eq (whole : W → Int → W × Int) (act : W → Int → Nat → W × Int) (i1 i2 lb : Nat) (n : Nat) :
    ∀ (d : List W) (s : Int) (i j : Nat), i + n ≤ d.length →
      rangeLoopC whole act i1 i2 lb d s i j n = some (rangeLoop whole act i1 i2 lb d s i j n) := by
  induction n with
  | zero => intro d s i j _; rfl
  | succ n ih =>
    intro d s i j h
    simp only [rangeLoopC, rangeLoop, Option.bind_eq_bind, Option.pure_def]
    rw [getW?_lt _ _ (by omega)]
    simp only [Option.bind_some]
    split
    · rw [setW?_lt _ _ _ (by omega)]
      simp only [Option.bind_some]
      exact ih _ _ _ _ (by simp; omega)
    · rw [setW?_lt _ _ _ (by omega)]
      simp only [Option.bind_some]
      exact ih _ _ _ _ (by simp; omega)

theorem runRangeC_eq (whole : W → Int → W × Int) (act : W → Int → Nat → W × Int) (b : T) (s e i1 i2 : Nat)
    (h : i1 ≤ i2 + 1) (h2 : i2 < b.data.length) :
    runRangeC whole act b s e i1 i2 = some (runRange whole act b s e i1 i2) := by
  unfold runRangeC runRange
  simp only [Option.bind_eq_bind, Option.pure_def]
  rw [rangeLoopC_eq _ _ _ _ _ _ _ _ _ _ (by omega)]
  rfl

theorem wordIdx_mono (a b : Nat) (h : a ≤ b) : wordIdx a ≤ wordIdx b := by
  rw [wordIdx_eq, wordIdx_eq]; exact Nat.div_le_div_right h

theorem setRangeC_eq (b : T) (s e : Nat) : setRangeC b s e = some (setRange b s e) := by
  unfold setRangeC setRange
  simp only
  generalize hse : (if s > e then (e, s) else (s, e)) = se
  have hle : se.1 ≤ se.2 := by rw [← hse]; split <;> simp <;> omega
  have hlen := ensure_length b (wordIdx se.2 + 1)
  have := wordIdx_mono _ _ hle
  exact runRangeC_eq _ _ _ _ _ _ _ (by omega) (by omega)

theorem flipRangeC_eq (b : T) (s e : Nat) : flipRangeC b s e = some (flipRange b s e) := by
  unfold flipRangeC flipRange
  simp only
  generalize hse : (if s > e then (e, s) else (s, e)) = se
  have hle : se.1 ≤ se.2 := by rw [← hse]; split <;> simp <;> omega
  have hlen := ensure_length b (wordIdx se.2 + 1)
  have := wordIdx_mono _ _ hle
  exact runRangeC_eq _ _ _ _ _ _ _ (by omega) (by omega)

theorem clearRangeC_eq (b : T) (s e : Nat) : clearRangeC b s e = some (clearRange b s e) := by
  unfold clearRangeC clearRange
  simp only
  generalize hse : (if s > e then (e, s) else (s, e)) = se
  have hle : se.1 ≤ se.2 := by rw [← hse]; split <;> simp <;> omega
  have := wordIdx_mono _ _ hle
  split
  · rfl
  · rename_i h1
    split
    · exact runRangeC_eq _ _ _ _ _ _ _ (by simp only; omega) (by simp only; omega)
    · exact runRangeC_eq _ _ _ _ _ _ _ (by simp only; omega) (by simp only; omega)

theorem nextLoopC_eq (skip : W) (test : W → W → Bool) (d : List W) (n : Nat) : ∀ i fb, n ≤ d.length - i →
    nextLoopC skip test d i fb n = some (nextLoop skip test d i fb n) := by
  induction n with
  | zero => intro i fb _; rfl
  | succ n ih =>
    intro i fb h
    simp only [nextLoopC, nextLoop, Option.bind_eq_bind]
    rw [getW?_lt _ _ (by omega)]
    simp only [Option.bind_some]
    generalize (if getW d i != skip then scanUp test (getW d i) fb (dbpw - fb) else none) = inner
    cases inner with
    | some j => rfl
    | none => exact ih _ _ (by omega)

theorem prevLoopC_eq (skip : W) (test : W → W → Bool) (d : List W) (n : Nat) : ∀ fb, n ≤ d.length →
    prevLoopC skip test d fb n = some (prevLoop skip test d fb n) := by
  induction n with
  | zero => intro fb _; rfl
  | succ n ih =>
    intro fb h
    simp only [prevLoopC, prevLoop, Option.bind_eq_bind]
    rw [getW?_lt _ _ (by omega)]
    simp only [Option.bind_some]
    generalize (if getW d n != skip then scanDown test (getW d n) (fb + 1) else none) = inner
    cases inner with
    | some j => rfl
    | none => exact ih _ (by omega)

theorem nextSetC_eq (b : T) (s : Nat) : nextSetC b s = some (nextSet b s) := by
  unfold nextSetC nextSet
  simp only [Option.bind_eq_bind, Option.pure_def]
  rw [nextLoopC_eq _ _ _ _ _ _ (Nat.le_refl _)]
  simp only [Option.bind_some]
  generalize nextLoop 0#64 testSet b.data (wordIdx s) (bitIndexForMask (wordMask s)) (b.data.length - wordIdx s) = res
  cases res <;> rfl

theorem nextClearC_eq (b : T) (s : Nat) : nextClearC b s = some (nextClear b s) := by
  unfold nextClearC nextClear
  simp only [Option.bind_eq_bind, Option.pure_def]
  rw [nextLoopC_eq _ _ _ _ _ _ (Nat.le_refl _)]
  simp only [Option.bind_some]
  generalize nextLoop (BitVec.allOnes 64) testClear b.data (wordIdx s) (bitIndexForMask (wordMask s))
    (b.data.length - wordIdx s) = res
  cases res <;> rfl

theorem previousSetC_eq (b : T) (s : Nat) : previousSetC b s = some (previousSet b s) := by
  unfold previousSetC previousSet
  simp only [Option.bind_eq_bind, Option.pure_def]
  generalize hp : (if wordIdx s + 1 > b.data.length then (b.data.length, 63)
    else (wordIdx s + 1, bitIndexForMask (wordMask s))) = p
  have hle : p.1 ≤ b.data.length := by rw [← hp]; split <;> simp only <;> omega
  rw [prevLoopC_eq _ _ _ _ _ hle]
  simp only [Option.bind_some]
  generalize prevLoop 0#64 testSet b.data p.2 p.1 = res
  cases res <;> rfl

theorem previousClearC_eq (b : T) (s : Nat) : previousClearC b s = some (previousClear b s) := by
  unfold previousClearC previousClear
  simp only [Option.bind_eq_bind, Option.pure_def]
  split
  · rfl
  · rw [prevLoopC_eq _ _ _ _ _ (by omega)]
    simp only [Option.bind_some]
    generalize prevLoop (BitVec.allOnes 64) testClear b.data (bitIndexForMask (wordMask s)) (wordIdx s + 1) = res
    cases res <;> rfl

theorem firstSetC_eq (b : T) : firstSetC b = some (firstSet b) := nextSetC_eq b 0
theorem lastSetC_eq (b : T) : lastSetC b = some (lastSet b) := previousSetC_eq b _

theorem trimLoopC_eq (d : List W) (n : Nat) (h : n ≤ d.length) : trimLoopC d n = some (trimLoop d n) := by
  induction n with
  | zero => rfl
  | succ n ih =>
    simp only [trimLoopC, trimLoop, Option.bind_eq_bind, Option.pure_def]
    rw [getW?_lt _ _ (by omega)]
    simp only [Option.bind_some]
    split
    · rfl
    · exact ih (by omega)

theorem trimC_eq (b : T) : trimC b = some (trim b) := by
  unfold trimC trim
  simp only [Option.bind_eq_bind, Option.pure_def]
  rw [trimLoopC_eq _ _ (Nat.le_refl _)]
  simp only [Option.bind_some]
  generalize trimLoop b.data b.data.length = res
  cases res <;> rfl

theorem dataC_eq (b : T) : dataC b = some (data b) := by
  unfold dataC data
  simp only [Option.bind_eq_bind, Option.pure_def]
  rw [trimC_eq]; rfl

theorem loadLoopC_eq (ws : List W) (n : Nat) : ∀ s : Int, n ≤ ws.length → loadLoopC ws s n = some (loadLoop ws s n) := by
  induction n with
  | zero => intro s _; rfl
  | succ n ih =>
    intro s h
    simp only [loadLoopC, loadLoop, Option.bind_eq_bind, Option.pure_def]
    rw [getW?_lt _ _ (by omega)]
    simp only [Option.bind_some]
    exact ih _ (by omega)

theorem loadC_eq (b : T) (ws : List W) : loadC b ws = some (load b ws) := by
  unfold loadC load
  simp only [Option.bind_eq_bind, Option.pure_def]
  rw [trimC_eq]
  simp only [Option.bind_some]
  rw [loadLoopC_eq _ _ _ (trim_length_le { b with data := ws })]
  rfl

theorem prefixEqC_eq (s l : List W) (n : Nat) : ∀ i, i + n = s.length → s.length ≤ l.length →
    prefixEqC s l i n = some (prefixEq (s.drop i) (l.drop i)) := by
  induction n with
  | zero =>
    intro i h _
    have : s.drop i = [] := List.drop_eq_nil_of_le (by omega)
    rw [this]; rfl
  | succ n ih =>
    intro i h hl
    have hs : i < s.length := by omega
    have hl' : i < l.length := by omega
    simp only [prefixEqC, Option.bind_eq_bind, Option.pure_def]
    rw [getW?_lt _ _ hs, getW?_lt _ _ hl']
    simp only [Option.bind_some]
    rw [List.drop_eq_getElem_cons hs, List.drop_eq_getElem_cons hl']
    have e1 : getW s i = s[i] := by unfold getW; rw [List.getD_eq_getElem?_getD, List.getElem?_eq_getElem hs]; rfl
    have e2 : getW l i = l[i] := by unfold getW; rw [List.getD_eq_getElem?_getD, List.getElem?_eq_getElem hl']; rfl
    simp only [prefixEq, e1, e2]
    split
    · rfl
    · exact ih (i + 1) (by omega) hl

theorem shorterLongerC_eq (s l : List W) (h : s.length ≤ l.length) :
    (do let p ← prefixEqC s l 0 s.length
        if !p then some false else tailZeroC l s.length)
      = some (if !prefixEq s l then false else allZero (l.drop s.length)) := by
  simp only [Option.bind_eq_bind]
  rw [prefixEqC_eq s l s.length 0 (by omega) h]
  simp only [Option.bind_some, List.drop_zero]
  unfold tailZeroC
  simp only [h, if_true]
  split <;> rfl

theorem equalC_eq (a b : T) : equalC a b = some (equal a b) := by
  unfold equalC equal
  split
  · rfl
  · simp only
    by_cases hl : a.data.length > b.data.length
    · simp only [hl, if_true]
      exact shorterLongerC_eq b.data a.data (by omega)
    · simp only [hl, if_false]
      exact shorterLongerC_eq a.data b.data (by omega)

/-- one call of a history never indexes out of range, whatever the state -/
theorem applyOpC_eq (p : Pair) (op : Op) : applyOpC p op = some (applyOp p op) := by
  cases op <;>
    simp only [applyOpC, applyOp, Option.bind_eq_bind, Option.pure_def, setBitC_eq, clearBitC_eq, flipBitC_eq,
      setRangeC_eq, clearRangeC_eq, flipRangeC_eq, loadC_eq, trimC_eq, dataC_eq, Option.bind_some]

theorem foldlM_applyOpC (ops : List Op) : ∀ p : Pair, ops.foldlM applyOpC p = some (ops.foldl applyOp p) := by
  induction ops with
  | nil => intro p; rfl
  | cons op ops ih =>
    intro p
    simp only [List.foldlM_cons, List.foldl_cons, applyOpC_eq, Option.bind_eq_bind, Option.bind_some]
    exact ih _

theorem runC_eq (ops : List Op) : runC ops = some (run ops) := foldlM_applyOpC ops {}

end BS
