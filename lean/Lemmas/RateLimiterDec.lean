import Lemmas.RateLimiterInt
import Lemmas.RateLimiterExec
/-! C16: the machine-int decisions of `Use` and of one iteration of the service loop (`Model/RateLimiterInt.lean`) are the
    model's decisions whenever capacities and usages are Go `int`s; the model's decisions are what `RL.exec` and
    `RL.service` act on.  Core Lean. -/
namespace RL

def castI (f : Nat → Nat) : Nat → Int := fun x => (f x : Int)

theorem availI_cast (cap used : Nat → Nat) (ch : List Nat) : availI (castI cap) (castI used) ch = availGo cap used ch := by
  cases ch <;> rfl

/-- `a ≤ effectiveCap()` iff `a` is within the capacity of every limiter of the (non-empty) chain -/
theorem le_effCapI_iff (cap : Nat → Nat) (ch : List Nat) (hne : ch ≠ []) (a : Int) :
    a ≤ effCapI (castI cap) ch ↔ ∀ x ∈ ch, a ≤ (cap x : Int) := by
  cases ch with
  | nil => exact absurd rfl hne
  | cons l ps =>
    unfold effCapI
    rw [foldl_min_ge (castI cap)]
    simp only [List.mem_cons, forall_eq_or_imp, castI]

/-- `amount > effectiveCap()` on machine ints is the model's test `amt > effCap` -/
theorem refuseCap_iff (cap : Nat → Nat) (ch : List Nat) (l : Nat) (hl : l ∈ ch) (amt : Int) (h0 : 0 ≤ amt) :
    amt > effCapI (castI cap) ch ↔ amt.toNat > effCap cap ch (cap l) := by
  have hne : ch ≠ [] := List.ne_nil_of_mem hl
  have a := le_effCapI_iff cap ch hne amt
  have b := le_effCap_iff cap ch (cap l) amt.toNat
  constructor
  · intro h
    apply Classical.byContradiction
    intro hn
    have hle : amt.toNat ≤ effCap cap ch (cap l) := by omega
    have := b.mp hle
    have : amt ≤ effCapI (castI cap) ch := a.mpr (fun x hx => by have := this.2 x hx; omega)
    omega
  · intro h
    apply Classical.byContradiction
    intro hn
    have hle : amt ≤ effCapI (castI cap) ch := by omega
    have h1 := a.mp hle
    have : amt.toNat ≤ effCap cap ch (cap l) :=
      b.mpr ⟨by have := h1 l hl; omega, fun x hx => by have := h1 x hx; omega⟩
    omega

/-- **the machine-int decision of `Use` is the model's** when capacities and usages are Go `int`s -/
theorem useDecI_eq_useDecN (s : S) (l : Nat) (amt : Int) (hl : l ∈ s.chain l)
    (hc : ∀ x, s.cap x ≤ maxInt) (hu : ∀ x, s.used x ≤ maxInt) :
    useDecI (castI s.cap) (castI s.used) s.closed (s.chain l) l amt = useDecN s l amt := by
  unfold useDecI useDecN
  by_cases hneg : amt < 0
  · simp only [hneg, if_true]
  · simp only [hneg, if_false]
    by_cases hcl : s.closed l = true
    · simp only [hcl, if_true]
    · simp only [hcl, if_false, Bool.false_eq_true]
      have h0 : 0 ≤ amt := by omega
      have hz : (amt = 0) ↔ (amt.toNat = 0) := by omega
      by_cases hzero : amt = 0
      · simp only [hzero, if_true, Int.toNat_zero]
      · have hz' : ¬ amt.toNat = 0 := fun h => hzero (hz.mpr h)
        simp only [hzero, hz', if_false]
        have hcap := refuseCap_iff s.cap (s.chain l) l hl amt h0
        by_cases hbig : amt > effCapI (castI s.cap) (s.chain l)
        · simp only [hbig, hcap.mp hbig, if_true]
        · have hbig' : ¬ amt.toNat > effCap s.cap (s.chain l) (s.cap l) := fun h => hbig (hcap.mpr h)
          simp only [hbig, hbig', if_false]
          have hfit := fitsGo_eq_fits s.cap s.used (s.chain l) amt.toNat (List.ne_nil_of_mem hl)
            (fun x _ => hc x) (fun x _ => hu x)
          rw [availI_cast]
          unfold fitsGo at hfit
          have hcast : ((amt.toNat : Nat) : Int) = amt := Int.toNat_of_nonneg h0
          rw [hcast] at hfit
          cases hf : fits s.cap s.used (s.chain l) amt.toNat with
          | true => rw [hf] at hfit; have := of_decide_eq_true hfit; simp only [this, if_true]
          | false => rw [hf] at hfit; have := of_decide_eq_false hfit; simp only [this, if_false, Bool.false_eq_true]

/-- … and `RL.exec` acts on exactly that decision -/
theorem useDecN_is_exec (s : S) (hf : s.holder = .free) (l : Nat) (amt : Int) (hl : l < s.n) :
    exec s (.use l amt) = applyUseDec s l amt (useDecN s l amt) := by
  unfold useDecN
  by_cases hneg : amt < 0
  · simp only [hneg, if_true, applyUseDec]; exact exec_use_neg s hf l amt hl hneg
  · simp only [hneg, if_false]
    have h0 : 0 ≤ amt := by omega
    cases hcl : s.closed l with
    | true => simp only [if_true, applyUseDec]; exact exec_use_closed s hf l amt hl h0 hcl
    | false =>
      simp only [Bool.false_eq_true, if_false]
      by_cases hz : amt.toNat = 0
      · have : amt = 0 := by omega
        subst this
        simp only [Int.toNat_zero, if_true, applyUseDec]; exact exec_use_zero s hf l hl hcl
      · have hpos : 0 < amt := by omega
        simp only [hz, if_false]
        by_cases hbig : amt.toNat > effCap s.cap (s.chain l) (s.cap l)
        · simp only [hbig, if_true, applyUseDec]; exact exec_use_toobig s hf l amt hl hpos hcl hbig
        · simp only [hbig, if_false]
          have e := exec_use_room s hf l amt hl hpos hcl (by show amt.toNat ≤ effCap _ _ _; omega)
          rw [e]
          cases fits s.cap s.used (s.chain l) amt.toNat <;> simp [applyUseDec]

/-- **one iteration of the tick's loop on machine ints decides what the model's `service` decides** -/
theorem tickDecI_eq_tickDecN (cap : Nat → Nat) (chain : Nat → List Nat) (closed : Nat → Bool) (used : Nat → Nat) (r : Req)
    (hl : r.lim ∈ chain r.lim) (hc : ∀ x, cap x ≤ maxInt) (hu : ∀ x, used x ≤ maxInt) :
    tickDecI (castI cap) (castI used) closed (chain r.lim) r.lim (r.amt : Int) = tickDecN cap chain closed used r := by
  unfold tickDecI tickDecN
  by_cases hcl : closed r.lim = true
  · simp only [hcl, if_true]
  · simp only [hcl, if_false, Bool.false_eq_true]
    have hcap := refuseCap_iff cap (chain r.lim) r.lim hl (r.amt : Int) (by omega)
    simp only [Int.toNat_natCast] at hcap
    by_cases hbig : (r.amt : Int) > effCapI (castI cap) (chain r.lim)
    · simp only [hbig, hcap.mp hbig, if_true]
    · have hbig' : ¬ r.amt > effCap cap (chain r.lim) (cap r.lim) := fun h => hbig (hcap.mpr h)
      simp only [hbig, hbig', if_false]
      have hfit := fitsGo_eq_fits cap used (chain r.lim) r.amt (List.ne_nil_of_mem hl) (fun x _ => hc x) (fun x _ => hu x)
      have hroot := rootGuardGo_exact cap used (hc 0) (hu 0)
      unfold fitsGo at hfit
      unfold rootGuardGo leftGo at hroot
      rw [availI_cast]
      have g : (wrap64 (castI cap 0 - castI used 0) > 0) ↔ used 0 < cap 0 := by
        have := hroot
        simp only [castI]
        constructor
        · intro h; exact of_decide_eq_true (this ▸ decide_eq_true h)
        · intro h; exact of_decide_eq_true (this.symm ▸ decide_eq_true h)
      cases hf : fits cap used (chain r.lim) r.amt with
      | true =>
        rw [hf] at hfit; have ha := of_decide_eq_true hfit
        by_cases hr : used 0 < cap 0
        · simp [g.mpr hr, hr, ha]
        · have : ¬ wrap64 (castI cap 0 - castI used 0) > 0 := fun h => hr (g.mp h)
          simp [this, hr]
      | false =>
        rw [hf] at hfit; have ha := of_decide_eq_false hfit
        simp [ha]

/-- `RL.service` acts on exactly the decision `tickDecN` for the request at the head of what is left of the queue -/
theorem tickDecN_is_service (cap : Nat → Nat) (chain : Nat → List Nat) (closed : Nat → Bool) (p : Nat) (used : Nat → Nat)
    (r : Req) (rs : List Req) :
    service cap chain closed p used (r :: rs) =
      match tickDecN cap chain closed used r with
      | .refuseClosed =>
        let t := service cap chain closed p used rs
        { t with answers := (r.id, .errClosed) :: t.answers }
      | .refuseCap =>
        let t := service cap chain closed p used rs
        { t with answers := (r.id, .errCap) :: t.answers }
      | .grant =>
        let t := service cap chain closed p (charge used (chain r.lim) r.amt) rs
        { t with answers := (r.id, .ok) :: t.answers, grants := ⟨r.id, r.lim, chain r.lim, r.amt, p⟩ :: t.grants }
      | _ =>
        let t := service cap chain closed p used rs
        { t with waiting := r :: t.waiting } := by
  unfold tickDecN
  rw [service]
  split
  · rfl
  · split
    · rfl
    · split <;> rfl

/-- root of capacity 2^62 + 1 (just above `MaxInt/2`), all of it granted in the current period -/
def halfWitness : S := run (init 4611686018427387905) [.use 0 4611686018427387905]

theorem halfWitness_reachable : Reachable 4611686018427387905 halfWitness :=
  Reachable.init.steps (exec_steps _ _)

end RL
