import Model.Fixed

/-! C03, CONTRAST variants: the code paths of `xmath/fixed` *without* the mechanism a clause of the property rests on,
    transcribed on the same machine-integer semantics as `Model/Fixed.lean` (these are the bodies the functions had
    before the corresponding `fix:` commits of `/repo`, kept as reverse patches under `seeded/revert-c03-*`, or a
    one-token variant of the present body).  They are never run by the driver; `Props/C03.lean` proves that each of
    them violates the clause the present code satisfies.  Core-only. -/
namespace Fixed.Contrast
open Fixed

/-- `Round` with the negative half tested strictly (`rem < -one/2`; reverse patch `revert-c03-f64-round`) -/
def roundStrict64 (m a : Int) : Int :=
  let value := F64.trunc m a
  let rem := F64.sub a value
  if rem ≥ F64.quo m 2 then F64.add value m
  else if rem < F64.quo (F64.negI m) 2 then F64.sub value m
  else value

/-- the same variant of the 128-bit `Round` (`rem.LessThan(negHalf)`; `revert-c03-f128-round`) -/
def roundStrict128 (m a : Int) : Int :=
  let half := F128.quo m 2
  let value := F128.trunc m a
  let rem := F128.sub a value
  if F128.ge rem half then F128.add value m
  else if F128.lt rem (F128.neg half) then F128.sub value m
  else value

/-- `Ceil` without the sign test (`if f != v` instead of `if f > 0 && f != v`) -/
def ceilNoSign64 (m a : Int) : Int :=
  let v := F64.trunc m a
  if a ≠ v then F64.add v m else v

/-- f64 `From` with the product formed in the SOURCE type (`Int[T](value * FROM(Multiplier[T]()))` for every kind;
    `revert-c03-f64-from`): both factors are first reduced to the source kind -/
def fromIntInSource64 (k : Kind) (m v : Int) : Int := wrap64 (toKind k (toKind k v * toKind k m))

/-- f128 `From` without the unsigned case (every integer goes through `Int128From64(int64(value))`;
    `revert-c03-f128-from`) -/
def fromIntSignedOnly128 (m v : Int) : Int := F128.mulI (wrap64 v) m

/-- `Mod` through `Mul`, `Div` and `Trunc` (`f - value.Mul(f.Div(value).Trunc())`; `revert-c03-mod-direct`) -/
def modViaDiv64 (m a b : Int) : Option Int :=
  (F64.div m a b).map fun q => F64.sub a (F64.mul m b (F64.trunc m q))
def modViaDiv128 (m a b : Int) : Option Int :=
  (F128.div m a b).map fun q => F128.sub a (F128.mul m b (F128.trunc m q))

/-- `Mul` that scales down BEFORE multiplying (`f / mult * value`): no intermediate overflow, but the fraction digits
    of the first factor are lost -/
def mulScaleFirst64 (m a b : Int) : Int := F64.mulI (F64.quo a m) b
/-- `Round` as "push half a unit away from zero, then `Trunc`" (`(f + half).Trunc()` / `(f - half).Trunc()`; seeded
    change `ind7-c03-b`): the sum wraps for operands within half a unit of the limits -/
def roundAddHalf64 (m a : Int) : Int :=
  let half := F64.quo m 2
  if a < 0 then F64.trunc m (F64.sub a half) else F64.trunc m (F64.add a half)
def roundAddHalf128 (m a : Int) : Int :=
  let half := F128.quo m 2
  if F128.lt a 0 then F128.trunc m (F128.sub a half) else F128.trunc m (F128.add a half)

end Fixed.Contrast
