import Lemmas.BitSetHist
import Lemmas.BitSetOps
import Lemmas.BitSetStore
import Lemmas.BitSetSearch
/-! C08: laws that combine two or more calls — `Data` as a canonical form, `Trim` idempotent, the range forms as
    iterated single-index forms, `Equal` as an equivalence relation. -/
namespace BS

/-- a word list is minimal when it is empty or ends in a non-zero word (what `Trim` leaves, `C08.trim_spec`) -/
def Minimal (l : List W) : Prop := l = [] ∨ getW l (l.length - 1) ≠ 0#64

theorem minimal_len_le (l1 l2 : List W) (h1 : Minimal l1) (h : ∀ i, getW l1 i = getW l2 i) : l1.length ≤ l2.length := by
  rcases h1 with h1 | h1
  · subst h1; simp
  · by_cases hl : l1.length ≤ l2.length
    · exact hl
    · exfalso; apply h1; rw [h]; exact getW_of_ge _ _ (by omega)

theorem getW_eq_getElem (l : List W) (i : Nat) (h : i < l.length) : getW l i = l[i] := by
  unfold getW; rw [List.getD_eq_getElem?_getD, List.getElem?_eq_getElem h]; rfl

/-- two minimal word lists that denote the same words are the same list -/
theorem minimal_ext (l1 l2 : List W) (h1 : Minimal l1) (h2 : Minimal l2) (h : ∀ i, getW l1 i = getW l2 i) : l1 = l2 := by
  have a := minimal_len_le l1 l2 h1 h
  have b := minimal_len_le l2 l1 h2 (fun i => (h i).symm)
  apply List.ext_getElem (by omega)
  intro i hi1 hi2
  have := h i
  rw [getW_eq_getElem _ _ hi1, getW_eq_getElem _ _ hi2] at this
  exact this

/-- `Data()` is a canonical form: two bit sets have the same members exactly when `Data()` returns the same words -/
theorem data_canonical (a b : T) : (∀ x, mem a x = mem b x) ↔ (data a).2 = (data b).2 := by
  show _ ↔ (trim a).data = (trim b).data
  constructor
  · intro h
    apply minimal_ext _ _ (trim_minimal a) (trim_minimal b)
    apply (words_eq_iff_bits _ _).mpr
    intro x
    rw [trim_bit, trim_bit]; exact h x
  · intro h x
    have := congrArg (fun d => bit d x) h
    simp only [trim_bit] at this
    exact this

theorem T_ext (a b : T) (hd : a.data = b.data) (hs : a.set = b.set) : a = b := by
  cases a; cases b; simp only at hd hs; subst hd; subst hs; rfl

/-- `Trim` is idempotent, and so is the trimming part of `Data` -/
theorem trim_idem (b : T) : trim (trim b) = trim b := by
  apply T_ext
  · apply minimal_ext _ _ (trim_minimal _) (trim_minimal _)
    intro i; exact trim_getW (trim b) i
  · exact trim_set (trim b)

/-- a bit set whose storage is already minimal is left alone by `Trim` -/
theorem trim_of_minimal (b : T) (h : Minimal b.data) : trim b = b := by
  apply T_ext
  · apply minimal_ext _ _ (trim_minimal _) h
    intro i; exact trim_getW b i
  · exact trim_set b

/-! ### the range forms are the single-index forms iterated over the range -/

theorem foldl_inv (op : T → Nat → T) (hop : ∀ b i, Inv b → Inv (op b i)) (l : List Nat) :
    ∀ b, Inv b → Inv (l.foldl op b) := by
  induction l with
  | nil => intro b h; exact h
  | cons i l ih => intro b h; exact ih _ (hop b i h)

theorem range_step (lo n x : Nat) :
    (decide (x = lo) || decide (lo + 1 ≤ x ∧ x < lo + 1 + n)) = decide (lo ≤ x ∧ x < lo + (n + 1)) := by
  rw [← Bool.decide_or]; apply decide_eq_decide.mpr; omega

theorem range_zero (lo x : Nat) : decide (lo ≤ x ∧ x < lo + 0) = false := by
  apply decide_eq_false; omega

theorem foldl_setBit_mem (n : Nat) : ∀ (b : T) (lo x : Nat),
    mem ((List.range' lo n).foldl setBit b) x = (mem b x || decide (lo ≤ x ∧ x < lo + n)) := by
  induction n with
  | zero => intro b lo x; rw [range_zero]; simp
  | succ n ih =>
    intro b lo x
    rw [List.range'_succ, List.foldl_cons, ih, setBit_mem, Bool.or_assoc, range_step]

theorem foldl_clearBit_mem (n : Nat) : ∀ (b : T) (lo x : Nat),
    mem ((List.range' lo n).foldl clearBit b) x = (mem b x && !decide (lo ≤ x ∧ x < lo + n)) := by
  induction n with
  | zero => intro b lo x; rw [range_zero]; simp
  | succ n ih =>
    intro b lo x
    rw [List.range'_succ, List.foldl_cons, ih, clearBit_mem, Bool.and_assoc, ← Bool.not_or, range_step]

theorem foldl_flipBit_mem (n : Nat) : ∀ (b : T) (lo x : Nat),
    mem ((List.range' lo n).foldl flipBit b) x = (mem b x ^^ decide (lo ≤ x ∧ x < lo + n)) := by
  induction n with
  | zero => intro b lo x; rw [range_zero]; simp
  | succ n ih =>
    intro b lo x
    rw [List.range'_succ, List.foldl_cons, ih, flipBit_mem, Bool.xor_assoc, ← range_step]
    by_cases h1 : x = lo
    · have e2 : decide (lo + 1 ≤ x ∧ x < lo + 1 + n) = false := by apply decide_eq_false; omega
      rw [e2]; simp [h1]
    · have e1 : decide (x = lo) = false := decide_eq_false h1
      rw [e1]; simp

/-- the indexes of the closed range between the two arguments, in increasing order -/
def rangeIdx (s e : Nat) : List Nat := List.range' (min s e) (max s e - min s e + 1)

theorem rangeIdx_decide (s e x : Nat) :
    decide (min s e ≤ x ∧ x < min s e + (max s e - min s e + 1)) = decide (min s e ≤ x ∧ x ≤ max s e) := by
  apply decide_eq_decide.mpr; omega

theorem count_of_mem (a b : T) (ha : Inv a) (hb : Inv b) (h : ∀ x, mem a x = mem b x) : count a = count b := by
  unfold count; unfold Inv at ha hb
  rw [ha, hb, card_congr _ _ h]

/-! ### Equal is an equivalence relation (no invariant needed) -/

theorem equal_refl (a : T) : equal a a = true := (equal_iff_raw a a).mpr ⟨rfl, fun _ => rfl⟩
theorem equal_symm (a b : T) : equal a b = equal b a := by
  apply Bool.eq_iff_iff.mpr
  rw [equal_iff_raw, equal_iff_raw]
  exact ⟨fun h => ⟨h.1.symm, fun x => (h.2 x).symm⟩, fun h => ⟨h.1.symm, fun x => (h.2 x).symm⟩⟩
theorem equal_trans (a b c : T) (h1 : equal a b = true) (h2 : equal b c = true) : equal a c = true := by
  rw [equal_iff_raw] at *
  exact ⟨h1.1.trans h2.1, fun x => (h1.2 x).trans (h2.2 x)⟩


/-! ### the range forms as iterated single-index forms: members AND count -/

theorem setRange_iterated (b : T) (s e : Nat) (hb : Inv b) :
    (∀ x, mem (setRange b s e) x = mem ((rangeIdx s e).foldl setBit b) x)
    ∧ count (setRange b s e) = count ((rangeIdx s e).foldl setBit b) := by
  have hm : ∀ x, mem (setRange b s e) x = mem ((rangeIdx s e).foldl setBit b) x := fun x => by
    unfold rangeIdx; rw [setRange_mem, foldl_setBit_mem, rangeIdx_decide]
  exact ⟨hm, count_of_mem _ _ ((setRange_spec b s e).2 hb) (foldl_inv setBit (fun b i h => setBit_inv b i h) _ b hb) hm⟩

theorem clearRange_iterated (b : T) (s e : Nat) (hb : Inv b) :
    (∀ x, mem (clearRange b s e) x = mem ((rangeIdx s e).foldl clearBit b) x)
    ∧ count (clearRange b s e) = count ((rangeIdx s e).foldl clearBit b) := by
  have hm : ∀ x, mem (clearRange b s e) x = mem ((rangeIdx s e).foldl clearBit b) x := fun x => by
    unfold rangeIdx; rw [clearRange_mem, foldl_clearBit_mem, rangeIdx_decide]
  exact ⟨hm, count_of_mem _ _ ((clearRange_spec b s e).2 hb) (foldl_inv clearBit (fun b i h => clearBit_inv b i h) _ b hb) hm⟩

theorem flipRange_iterated (b : T) (s e : Nat) (hb : Inv b) :
    (∀ x, mem (flipRange b s e) x = mem ((rangeIdx s e).foldl flipBit b) x)
    ∧ count (flipRange b s e) = count ((rangeIdx s e).foldl flipBit b) := by
  have hm : ∀ x, mem (flipRange b s e) x = mem ((rangeIdx s e).foldl flipBit b) x := fun x => by
    unfold rangeIdx; rw [flipRange_mem, foldl_flipBit_mem, rangeIdx_decide]
  exact ⟨hm, count_of_mem _ _ ((flipRange_spec b s e).2 hb) (foldl_inv flipBit (fun b i h => flipBit_inv b i h) _ b hb) hm⟩

/-! ### observations are functions of the members: the answers of the searches are unique -/

/-- "the least index at or after `s` where `p` is `t`, or -1" has one answer -/
theorem least_unique (p : Nat → Bool) (t : Bool) (s : Nat) (v w : Int)
    (hv : (v = -1 ∧ ∀ x, s ≤ x → p x = !t) ∨ ∃ r : Nat, v = Int.ofNat r ∧ s ≤ r ∧ p r = t ∧ ∀ x, s ≤ x → x < r → p x = !t)
    (hw : (w = -1 ∧ ∀ x, s ≤ x → p x = !t) ∨ ∃ r : Nat, w = Int.ofNat r ∧ s ≤ r ∧ p r = t ∧ ∀ x, s ≤ x → x < r → p x = !t) :
    v = w := by
  rcases hv with ⟨hv, hn⟩ | ⟨r, hv, hr, hp, hm⟩ <;> rcases hw with ⟨hw, hn'⟩ | ⟨r', hw, hr', hp', hm'⟩
  · rw [hv, hw]
  · have := hn r' hr'; rw [hp'] at this; cases t <;> simp at this
  · have := hn' r hr; rw [hp] at this; cases t <;> simp at this
  · have : r = r' := by
      rcases Nat.lt_trichotomy r r' with h | h | h
      · have := hm' r hr h; rw [hp] at this; cases t <;> simp at this
      · exact h
      · have := hm r' hr' h; rw [hp'] at this; cases t <;> simp at this
    rw [hv, hw, this]

/-- "the greatest index at or before `s` where `p` is `t`, or -1" has one answer -/
theorem greatest_unique (p : Nat → Bool) (t : Bool) (s : Nat) (v w : Int)
    (hv : (v = -1 ∧ ∀ x, x ≤ s → p x = !t) ∨ ∃ r : Nat, v = Int.ofNat r ∧ r ≤ s ∧ p r = t ∧ ∀ x, r < x → x ≤ s → p x = !t)
    (hw : (w = -1 ∧ ∀ x, x ≤ s → p x = !t) ∨ ∃ r : Nat, w = Int.ofNat r ∧ r ≤ s ∧ p r = t ∧ ∀ x, r < x → x ≤ s → p x = !t) :
    v = w := by
  rcases hv with ⟨hv, hn⟩ | ⟨r, hv, hr, hp, hm⟩ <;> rcases hw with ⟨hw, hn'⟩ | ⟨r', hw, hr', hp', hm'⟩
  · rw [hv, hw]
  · have := hn r' hr'; rw [hp'] at this; cases t <;> simp at this
  · have := hn' r hr; rw [hp] at this; cases t <;> simp at this
  · have : r = r' := by
      rcases Nat.lt_trichotomy r r' with h | h | h
      · have := hm r' h hr'; rw [hp'] at this; cases t <;> simp at this
      · exact h
      · have := hm' r h hr; rw [hp] at this; cases t <;> simp at this
    rw [hv, hw, this]

/-- "the greatest member, or -1" has one answer -/
theorem last_unique (p : Nat → Bool) (v w : Int)
    (hv : (v = -1 ∧ ∀ x, p x = false) ∨ ∃ r : Nat, v = Int.ofNat r ∧ p r = true ∧ ∀ x, r < x → p x = false)
    (hw : (w = -1 ∧ ∀ x, p x = false) ∨ ∃ r : Nat, w = Int.ofNat r ∧ p r = true ∧ ∀ x, r < x → p x = false) :
    v = w := by
  rcases hv with ⟨hv, hn⟩ | ⟨r, hv, hp, hm⟩ <;> rcases hw with ⟨hw, hn'⟩ | ⟨r', hw, hp', hm'⟩
  · rw [hv, hw]
  · have := hn r'; rw [hp'] at this; cases this
  · have := hn' r; rw [hp] at this; cases this
  · have : r = r' := by
      rcases Nat.lt_trichotomy r r' with h | h | h
      · have := hm r' h; rw [hp'] at this; cases this
      · exact h
      · have := hm' r h; rw [hp] at this; cases this
    rw [hv, hw, this]

theorem mem_funext (a b : T) (h : ∀ x, mem a x = mem b x) : mem a = mem b := funext h

theorem nextSet_ext (a b : T) (h : ∀ x, mem a x = mem b x) (s : Nat) : nextSet a s = nextSet b s := by
  have ha := nextSet_spec a s
  rw [mem_funext a b h] at ha
  exact least_unique (mem b) true s _ _ ha (nextSet_spec b s)

theorem previousSet_ext (a b : T) (h : ∀ x, mem a x = mem b x) (s : Nat) : previousSet a s = previousSet b s := by
  have ha := previousSet_spec a s
  rw [mem_funext a b h] at ha
  exact greatest_unique (mem b) true s _ _ ha (previousSet_spec b s)

theorem nextClear_ext (a b : T) (h : ∀ x, mem a x = mem b x) (s : Nat) : nextClear a s = nextClear b s := by
  have ha := nextClear_spec a s
  rw [mem_funext a b h] at ha
  exact least_unique (mem b) false s _ _ (Or.inr ha) (Or.inr (nextClear_spec b s))

theorem previousClear_ext (a b : T) (h : ∀ x, mem a x = mem b x) (s : Nat) : previousClear a s = previousClear b s := by
  have ha := previousClear_spec a s
  rw [mem_funext a b h] at ha
  exact greatest_unique (mem b) false s _ _ ha (previousClear_spec b s)

theorem firstSet_ext (a b : T) (h : ∀ x, mem a x = mem b x) : firstSet a = firstSet b := nextSet_ext a b h 0

theorem lastSet_ext (a b : T) (h : ∀ x, mem a x = mem b x) : lastSet a = lastSet b := by
  have ha := lastSet_spec a
  rw [mem_funext a b h] at ha
  exact last_unique (mem b) _ _ ha (lastSet_spec b)

theorem state_ext (a b : T) (h : ∀ x, mem a x = mem b x) (i : Nat) : state a i = state b i := by
  rw [state_eq_mem, state_eq_mem, h]

theorem equal_ext (a b c : T) (ha : Inv a) (hb : Inv b) (h : ∀ x, mem a x = mem b x) : equal a c = equal b c := by
  have hc := count_of_mem a b ha hb h
  apply Bool.eq_iff_iff.mpr
  rw [equal_iff_raw, equal_iff_raw]
  unfold count at hc
  rw [hc]
  constructor
  · exact fun ⟨h1, h2⟩ => ⟨h1, fun x => (h x).symm.trans (h2 x)⟩
  · exact fun ⟨h1, h2⟩ => ⟨h1, fun x => (h x).trans (h2 x)⟩

/-! ### history level: calls that are not supposed to change the set can be erased from a history -/

/-- `Trim`, `EnsureCapacity`, `Data` -/
def Op.isStorageOnly : Op → Bool
  | .trim _ | .ensure _ _ | .data _ => true
  | _ => false

theorem specRun_erase (ops : List Op) : ∀ sp : SPair,
    (ops.filter (fun o => !o.isStorageOnly)).foldl specOp sp = ops.foldl specOp sp := by
  induction ops with
  | nil => intro sp; rfl
  | cons op ops ih =>
    intro sp
    by_cases hs : op.isStorageOnly = true
    · have e : specOp sp op = sp := by
        cases op <;> first | rfl | (simp [Op.isStorageOnly] at hs)
      rw [List.filter_cons_of_neg (by simp [hs]), List.foldl_cons, ih, e]
    · rw [List.filter_cons_of_pos (by simp [hs]), List.foldl_cons, List.foldl_cons, ih]


/-- every observation the API offers gives the same answer on `a` and on `b` (and against any third bit set) -/
def ObsEq (a b : T) : Prop :=
  (∀ i, state a i = state b i) ∧ count a = count b ∧ firstSet a = firstSet b ∧ lastSet a = lastSet b
  ∧ (∀ s, nextSet a s = nextSet b s) ∧ (∀ s, previousSet a s = previousSet b s)
  ∧ (∀ s, nextClear a s = nextClear b s) ∧ (∀ s, previousClear a s = previousClear b s)
  ∧ (data a).2 = (data b).2 ∧ equal a b = true ∧ (∀ c, equal a c = equal b c) ∧ (∀ c, equal c a = equal c b)

theorem obsEq_of_mem (a b : T) (ha : Inv a) (hb : Inv b) (h : ∀ x, mem a x = mem b x) : ObsEq a b :=
  ⟨state_ext a b h, count_of_mem a b ha hb h, firstSet_ext a b h, lastSet_ext a b h, nextSet_ext a b h,
   previousSet_ext a b h, nextClear_ext a b h, previousClear_ext a b h, (data_canonical a b).mp h,
   (equal_iff a b ha hb).mpr h, fun c => equal_ext a b c ha hb h,
   fun c => by rw [equal_symm c a, equal_symm c b]; exact equal_ext a b c ha hb h⟩

/-- a history and the same history without its `Trim` / `EnsureCapacity` / `Data` calls denote the same two sets -/
theorem run_erase_mem (ops : List Op) (r : Reg) (x : Nat) :
    mem ((run ops).get r) x = mem ((run (ops.filter (fun o => !o.isStorageOnly))).get r) x := by
  rw [run_mem ops r x, run_mem _ r x]
  unfold specRun
  rw [specRun_erase]

end BS
