import Lemmas.BitSetHist
import Lemmas.BitSetOps
import Lemmas.BitSetStore
/-! C08: laws that combine two or more calls — `Data` as a canonical form, `Trim` idempotent, the range forms as
    iterated single-index forms, `Equal` as an equivalence relation. -/
namespace BS

/-- a word list is minimal when it is empty or ends in a non-zero word (what `Trim` leaves, `C08.trim_spec`) -/
def Minimal (l : List W) : Prop := l = [] ∨ getW l (l.length - 1) ≠ 0#64

theorem minimal_len_le (l1 l2 : List W) (h1 : Minimal l1) (h : ∀ i, getW l1 i = getW l2 i) : l1.length ≤ l2.length := by
  rcases h1 with h1 | h1
  · subst h1; simp
  · by_cases hl : l1.length ≤ l2.length
    · exact hl
    · exfalso; apply h1; rw [h]; exact getW_of_ge _ _ (by omega)

theorem getW_eq_getElem (l : List W) (i : Nat) (h : i < l.length) : getW l i = l[i] := by
  unfold getW; rw [List.getD_eq_getElem?_getD, List.getElem?_eq_getElem h]; rfl

/-- two minimal word lists that denote the same words are the same list -/
theorem minimal_ext (l1 l2 : List W) (h1 : Minimal l1) (h2 : Minimal l2) (h : ∀ i, getW l1 i = getW l2 i) : l1 = l2 := by
  have a := minimal_len_le l1 l2 h1 h
  have b := minimal_len_le l2 l1 h2 (fun i => (h i).symm)
  apply List.ext_getElem (by omega)
  intro i hi1 hi2
  have := h i
  rw [getW_eq_getElem _ _ hi1, getW_eq_getElem _ _ hi2] at this
  exact this

/-- `Data()` is a canonical form: two bit sets have the same members exactly when `Data()` returns the same words -/
theorem data_canonical (a b : T) : (∀ x, mem a x = mem b x) ↔ (data a).2 = (data b).2 := by
  show _ ↔ (trim a).data = (trim b).data
  constructor
  · intro h
    apply minimal_ext _ _ (trim_minimal a) (trim_minimal b)
    apply (words_eq_iff_bits _ _).mpr
    intro x
    rw [trim_bit, trim_bit]; exact h x
  · intro h x
    have := congrArg (fun d => bit d x) h
    simp only [trim_bit] at this
    exact this

theorem T_ext (a b : T) (hd : a.data = b.data) (hs : a.set = b.set) : a = b := by
  cases a; cases b; simp only at hd hs; subst hd; subst hs; rfl

/-- `Trim` is idempotent, and so is the trimming part of `Data` -/
theorem trim_idem (b : T) : trim (trim b) = trim b := by
  apply T_ext
  · apply minimal_ext _ _ (trim_minimal _) (trim_minimal _)
    intro i; exact trim_getW (trim b) i
  · exact trim_set (trim b)

/-- a bit set whose storage is already minimal is left alone by `Trim` -/
theorem trim_of_minimal (b : T) (h : Minimal b.data) : trim b = b := by
  apply T_ext
  · apply minimal_ext _ _ (trim_minimal _) h
    intro i; exact trim_getW b i
  · exact trim_set b

/-! ### the range forms are the single-index forms iterated over the range -/

theorem foldl_inv (op : T → Nat → T) (hop : ∀ b i, Inv b → Inv (op b i)) (l : List Nat) :
    ∀ b, Inv b → Inv (l.foldl op b) := by
  induction l with
  | nil => intro b h; exact h
  | cons i l ih => intro b h; exact ih _ (hop b i h)

theorem foldl_setBit_mem (n : Nat) : ∀ (b : T) (lo x : Nat),
    mem ((List.range' lo n).foldl setBit b) x = (mem b x || decide (lo ≤ x ∧ x < lo + n)) := by
  induction n with
  | zero => intro b lo x; simp
  | succ n ih =>
    intro b lo x
    rw [List.range'_succ, List.foldl_cons, ih, setBit_mem]
    cases mem b x <;> simp <;> omega

theorem foldl_clearBit_mem (n : Nat) : ∀ (b : T) (lo x : Nat),
    mem ((List.range' lo n).foldl clearBit b) x = (mem b x && !decide (lo ≤ x ∧ x < lo + n)) := by
  induction n with
  | zero => intro b lo x; simp
  | succ n ih =>
    intro b lo x
    rw [List.range'_succ, List.foldl_cons, ih, clearBit_mem]
    cases mem b x <;> simp <;> omega

theorem foldl_flipBit_mem (n : Nat) : ∀ (b : T) (lo x : Nat),
    mem ((List.range' lo n).foldl flipBit b) x = (mem b x ^^ decide (lo ≤ x ∧ x < lo + n)) := by
  induction n with
  | zero => intro b lo x; simp
  | succ n ih =>
    intro b lo x
    rw [List.range'_succ, List.foldl_cons, ih, flipBit_mem]
    by_cases h1 : x = lo
    · subst h1; cases mem b x <;> simp
    · have e1 : decide (x = lo) = false := by simpa using h1
      rw [e1]
      have e2 : decide (lo + 1 ≤ x ∧ x < lo + 1 + n) = decide (lo ≤ x ∧ x < lo + (n + 1)) := by
        apply decide_eq_decide.mpr; omega
      rw [e2]; simp

/-- the indexes of the closed range between the two arguments, in increasing order -/
def rangeIdx (s e : Nat) : List Nat := List.range' (min s e) (max s e - min s e + 1)

theorem rangeIdx_decide (s e x : Nat) :
    decide (min s e ≤ x ∧ x < min s e + (max s e - min s e + 1)) = decide (min s e ≤ x ∧ x ≤ max s e) := by
  apply decide_eq_decide.mpr; omega

theorem count_of_mem (a b : T) (ha : Inv a) (hb : Inv b) (h : ∀ x, mem a x = mem b x) : count a = count b := by
  unfold count; unfold Inv at ha hb
  rw [ha, hb, card_congr _ _ h]

/-! ### Equal is an equivalence relation (no invariant needed) -/

theorem equal_refl (a : T) : equal a a = true := (equal_iff_raw a a).mpr ⟨rfl, fun _ => rfl⟩
theorem equal_symm (a b : T) : equal a b = equal b a := by
  apply Bool.eq_iff_iff.mpr
  rw [equal_iff_raw, equal_iff_raw]
  exact ⟨fun h => ⟨h.1.symm, fun x => (h.2 x).symm⟩, fun h => ⟨h.1.symm, fun x => (h.2 x).symm⟩⟩
theorem equal_trans (a b c : T) (h1 : equal a b = true) (h2 : equal b c = true) : equal a c = true := by
  rw [equal_iff_raw] at *
  exact ⟨h1.1.trans h2.1, fun x => (h1.2 x).trans (h2.2 x)⟩

end BS
