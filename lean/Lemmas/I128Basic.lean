import Lemmas.U128Bits
import Model.I128
/-! C01 helper lemmas: the signed layer (`Model/I128.lean`) against two's-complement `toInt`. -/
namespace I128
open U128 (W signBit w_eq_iff)

/-- reduction of an integer into [-2^127, 2^127) -/
def wrap128 (z : Int) : Int := (z + 2^127) % 2^128 - 2^127

theorem and_signBit (x : W) : x &&& signBit = if x.toNat ≥ 2^63 then signBit else 0#64 := by
  have hs : signBit = BitVec.twoPow 64 63 := by decide
  have hm : x.getLsbD 63 = decide (x.toNat ≥ 2^63) := by
    have := BitVec.msb_eq_decide x
    rw [BitVec.msb_eq_getLsbD_last] at this; simpa using this
  by_cases h : x.toNat ≥ 2^63
  · rw [if_pos h]
    have hm' : x.getLsbD 63 = true := by rw [hm]; exact decide_eq_true h
    apply BitVec.eq_of_getLsbD_eq; intro i hi
    rw [BitVec.getLsbD_and, hs, BitVec.getLsbD_twoPow]
    by_cases h63 : 63 = i
    · subst h63; rw [hm']; simp
    · simp [h63]
  · rw [if_neg h]
    have hm' : x.getLsbD 63 = false := by rw [hm]; exact decide_eq_false h
    apply BitVec.eq_of_getLsbD_eq; intro i hi
    rw [BitVec.getLsbD_and, hs, BitVec.getLsbD_twoPow]
    by_cases h63 : 63 = i
    · subst h63; rw [hm']; simp
    · simp [h63]
theorem sign_eq_iff (x y : W) : x &&& signBit = y &&& signBit ↔ (x.toNat < 2^63 ↔ y.toNat < 2^63) := by
  rw [and_signBit, and_signBit]
  have h0 : signBit ≠ 0#64 := by decide
  have h1 : 0#64 ≠ signBit := by decide
  by_cases hx : x.toNat ≥ 2^63 <;> by_cases hy : y.toNat ≥ 2^63
  · rw [if_pos hx, if_pos hy]; constructor <;> intro _ <;> [omega; rfl]
  · rw [if_pos hx, if_neg hy]; constructor <;> intro h <;> [exact absurd h h0; omega]
  · rw [if_neg hx, if_pos hy]; constructor <;> intro h <;> [exact absurd h h1; omega]
  · rw [if_neg hx, if_neg hy]; constructor <;> intro _ <;> [omega; rfl]
theorem sign_zero_iff (x : W) : x &&& signBit = 0#64 ↔ x.toNat < 2^63 := by
  rw [and_signBit]
  have h0 : signBit ≠ 0#64 := by decide
  by_cases hx : x.toNat ≥ 2^63
  · rw [if_pos hx]; constructor <;> intro h <;> [exact absurd h h0; omega]
  · rw [if_neg hx]; constructor <;> intro _ <;> [omega; rfl]

theorem toInt_eq (i : I128) :
    i.toInt = if i.toU.toNat ≥ 2^127 then (i.toU.toNat : Int) - 2^128 else (i.toU.toNat : Int) := by
  have := i.hi.isLt; have := i.lo.isLt
  unfold toInt toU U128.toNat
  simp only
  split <;> split <;> omega

theorem toInt_range (i : I128) : -2^127 ≤ i.toInt ∧ i.toInt < 2^127 := by
  have := i.toU.toNat_lt
  rw [toInt_eq]; split <;> omega

theorem toInt_inj {a b : I128} (h : a.toInt = b.toInt) : a = b := by
  have h1 := a.toU.toNat_lt; have h2 := b.toU.toNat_lt
  rw [toInt_eq, toInt_eq] at h
  have : a.toU.toNat = b.toU.toNat := by split at h <;> split at h <;> omega
  have := U128.toNat_inj this
  cases a; cases b; simp [toU] at this; simp [this]

/-- how `toInt` of a result follows from the unsigned value of the result -/
theorem toInt_of_toNat (r : I128) (z : Int) (h : (r.toU.toNat : Int) = z % 2^128) : r.toInt = wrap128 z := by
  have := r.toU.toNat_lt
  rw [toInt_eq]; unfold wrap128; split <;> omega

theorem toNat_as_int (i : I128) : (i.toU.toNat : Int) = i.toInt % 2^128 := by
  have := i.toU.toNat_lt
  rw [toInt_eq]; split <;> omega

theorem add_toU (i n : I128) : (i.add n).toU = i.toU.add n.toU := rfl
theorem sub_toU (i n : I128) : (i.sub n).toU = i.toU.sub n.toU := rfl
theorem mul_toU (i n : I128) : (i.mul n).toU = i.toU.mul n.toU := rfl
theorem inc_toU (i : I128) : i.inc.toU = i.toU.inc := rfl
theorem dec_toU (i : I128) : i.dec.toU = i.toU.dec := rfl

theorem add_toInt (i n : I128) : (i.add n).toInt = wrap128 (i.toInt + n.toInt) := by
  apply toInt_of_toNat
  rw [add_toU, U128.add_toNat]
  have h1 := toNat_as_int i; have h2 := toNat_as_int n
  omega
theorem sub_toInt (i n : I128) : (i.sub n).toInt = wrap128 (i.toInt - n.toInt) := by
  apply toInt_of_toNat
  have := n.toU.toNat_lt
  rw [sub_toU, U128.sub_toNat]
  have h1 := toNat_as_int i; have h2 := toNat_as_int n
  omega
theorem inc_toInt (i : I128) : i.inc.toInt = wrap128 (i.toInt + 1) := by
  apply toInt_of_toNat
  rw [inc_toU, U128.inc_toNat]
  have h1 := toNat_as_int i
  omega
theorem dec_toInt (i : I128) : i.dec.toInt = wrap128 (i.toInt - 1) := by
  apply toInt_of_toNat
  rw [dec_toU, U128.dec_toNat]
  have h1 := toNat_as_int i
  omega
theorem mul_toInt (i n : I128) : (i.mul n).toInt = wrap128 (i.toInt * n.toInt) := by
  apply toInt_of_toNat
  rw [mul_toU, U128.mul_toNat]
  have h1 := toNat_as_int i; have h2 := toNat_as_int n
  rw [Int.natCast_mod, Int.natCast_mul, h1, h2]
  simp [Int.mul_emod]
theorem negA (hi lo : W) :
    (⟨if ~~~(lo - 1#64) = 0#64 then ~~~hi + 1#64 else ~~~hi, ~~~(lo - 1#64)⟩ : U128).toNat
      = (2^128 - (hi.toNat * 2^64 + lo.toNat)) % 2^128 := by
  have := hi.isLt; have := lo.isLt
  unfold U128.toNat
  simp only [w_eq_iff, apply_ite BitVec.toNat, BitVec.toNat_not, BitVec.toNat_sub, BitVec.toNat_add, BitVec.toNat_ofNat]
  split <;> omega
theorem negB (hi lo : W) :
    (⟨if ~~~lo + 1#64 = 0#64 then ~~~hi + 1#64 else ~~~hi, ~~~lo + 1#64⟩ : U128).toNat
      = (2^128 - (hi.toNat * 2^64 + lo.toNat)) % 2^128 := by
  have := hi.isLt; have := lo.isLt
  unfold U128.toNat
  simp only [w_eq_iff, apply_ite BitVec.toNat, BitVec.toNat_not, BitVec.toNat_sub, BitVec.toNat_add, BitVec.toNat_ofNat]
  split <;> omega

theorem negA' (i : I128) :
    (⟨if ~~~(i.lo - 1#64) = 0#64 then ~~~i.hi + 1#64 else ~~~i.hi, ~~~(i.lo - 1#64)⟩ : U128).toNat
      = (2^128 - i.toU.toNat) % 2^128 := negA i.hi i.lo
theorem negB' (i : I128) :
    (⟨if ~~~i.lo + 1#64 = 0#64 then ~~~i.hi + 1#64 else ~~~i.hi, ~~~i.lo + 1#64⟩ : U128).toNat
      = (2^128 - i.toU.toNat) % 2^128 := negB i.hi i.lo

theorem isZero_iff (i : I128) : i.hi ||| i.lo = 0#64 ↔ i.toU.toNat = 0 := by
  have := i.hi.isLt; have := i.lo.isLt
  simp only [BitVec.or_eq_zero_iff, w_eq_iff, BitVec.toNat_ofNat]
  unfold toU U128.toNat; simp only; omega

theorem eq_min_iff (i : I128) : i = minI128 ↔ i.toU.toNat = 2^127 := by
  have := i.hi.isLt; have := i.lo.isLt
  have hs : signBit.toNat = 2^63 := by decide
  cases i with | mk a b =>
  simp only [minI128, I128.mk.injEq, w_eq_iff, BitVec.toNat_ofNat, hs]
  unfold toU U128.toNat; simp only at *; omega

theorem neg_toNat (i : I128) : (i.neg).toU.toNat = (2^128 - i.toU.toNat) % 2^128 := by
  have hlt := i.toU.toNat_lt
  unfold neg
  by_cases h1 : i.hi ||| i.lo = 0#64 ∨ i = minI128
  · rw [if_pos h1]
    rcases h1 with h | h
    · rw [(isZero_iff i).mp h]; omega
    · rw [(eq_min_iff i).mp h]; omega
  · rw [if_neg h1]
    split
    · exact negA' i
    · exact negB' i

/-- **Neg**: two's-complement negation (`MinInt128` and 0 are the fixed points) -/
theorem neg_toInt (i : I128) : i.neg.toInt = wrap128 (- i.toInt) := by
  apply toInt_of_toNat
  have hlt := i.toU.toNat_lt
  rw [neg_toNat]
  have h1 := toNat_as_int i
  omega

theorem isNeg_iff (i : I128) : i.hi &&& signBit ≠ 0#64 ↔ i.toInt < 0 := by
  have := i.hi.isLt; have := i.lo.isLt
  rw [ne_eq, sign_zero_iff]; unfold toInt toU U128.toNat; simp only
  split <;> omega

/-- **Abs**: `|i|` wrapped (only `MinInt128` wraps, to itself) -/
theorem abs_toInt (i : I128) : i.abs.toInt = wrap128 (if i.toInt < 0 then - i.toInt else i.toInt) := by
  have hr := toInt_range i
  unfold abs
  by_cases h : i.hi &&& signBit ≠ 0#64
  · rw [if_pos h, if_pos ((isNeg_iff i).mp h)]
    apply toInt_of_toNat
    have hlt := i.toU.toNat_lt
    have h1 := toNat_as_int i
    have hn := (isNeg_iff i).mp h
    have e : ∀ x : Nat, x = (2^128 - i.toU.toNat) % 2^128 → (x : Int) = -i.toInt % 2^128 := by
      intro x hx; omega
    exact e _ (negA' i)
  · have h' : ¬ i.toInt < 0 := fun x => h ((isNeg_iff i).mpr x)
    rw [if_neg h, if_neg h']
    unfold wrap128; omega

/-- **AbsUint128**: the magnitude as an unsigned value, exact for every input (including `MinInt128` ↦ 2^127) -/
theorem absUint128_toNat (i : I128) : (i.absUint128.toNat : Int) = if i.toInt < 0 then - i.toInt else i.toInt := by
  have hr := toInt_range i
  have hlt := i.toU.toNat_lt
  have h1 := toNat_as_int i
  unfold absUint128
  by_cases hm : i = minI128
  · rw [if_pos hm]
    have := (eq_min_iff i).mp hm
    have e : i.toInt = -2^127 := by rw [toInt_eq]; split <;> omega
    rw [e]; omega
  · rw [if_neg hm]
    have hm' : i.toU.toNat ≠ 2^127 := fun e => hm ((eq_min_iff i).mpr e)
    by_cases h : i.hi &&& signBit ≠ 0#64
    · rw [if_pos h, if_pos ((isNeg_iff i).mp h)]
      have hn := (isNeg_iff i).mp h
      have e : ∀ x : Nat, x = (2^128 - i.toU.toNat) % 2^128 → (x : Int) = -i.toInt := by
        intro x hx; omega
      exact e _ (negA' i)
    · have h' : ¬ i.toInt < 0 := fun x => h ((isNeg_iff i).mpr x)
      rw [if_neg h, if_neg h']
      omega

/-- **Sign** -/
theorem sign_eq (i : I128) : i.sign = if i.toInt < 0 then -1 else if i.toInt = 0 then 0 else 1 := by
  have hlt := i.toU.toNat_lt
  unfold sign
  by_cases h0 : i.hi ||| i.lo = 0#64
  · have := (isZero_iff i).mp h0
    have e : i.toInt = 0 := by rw [toInt_eq]; split <;> omega
    rw [if_pos h0, e]; simp
  · rw [if_neg h0]
    have hz : i.toU.toNat ≠ 0 := fun e => h0 ((isZero_iff i).mpr e)
    by_cases h : i.hi &&& signBit = 0#64
    · have hn : ¬ i.toInt < 0 := fun x => ((isNeg_iff i).mpr x) h
      have hne : i.toInt ≠ 0 := by rw [toInt_eq]; split <;> omega
      rw [if_pos h, if_neg hn, if_neg hne]
    · rw [if_neg h, if_pos ((isNeg_iff i).mp h)]
theorem toInt_mk (a b : W) : (I128.mk a b).toInt =
    if a.toNat ≥ 2^63 then ((a.toNat * 2^64 + b.toNat : Nat) : Int) - 2^128 else ((a.toNat * 2^64 + b.toNat : Nat) : Int) := rfl

theorem cmpHL_eq (i : I128) (a b : W) :
    cmpHL i a b = if i.toInt < (I128.mk a b).toInt then -1 else if i.toInt = (I128.mk a b).toInt then 0 else 1 := by
  have := i.hi.isLt; have := i.lo.isLt; have := a.isLt; have := b.isLt
  cases i with | mk c d =>
  simp only [cmpHL, sign_eq_iff, sign_zero_iff, toInt_mk] at *
  simp only [w_eq_iff] at *
  split <;> split <;> (try split) <;> (try split) <;> (try split) <;> (try split) <;> (try split) <;> omega

macro "spred" : tactic => `(tactic| (
  simp only [sign_eq_iff, sign_zero_iff, toInt_mk, ne_eq] at *
  repeat' split
  all_goals (
    rw [Bool.eq_iff_iff]
    simp only [Bool.or_eq_true, Bool.and_eq_true, decide_eq_true_eq, w_eq_iff, Bool.false_eq_true, false_iff, true_iff] at *
    try omega)))

theorem gtHL_eq (i : I128) (a b : W) : gtHL i a b = decide (i.toInt > (I128.mk a b).toInt) := by
  have := i.hi.isLt; have := i.lo.isLt; have := a.isLt; have := b.isLt
  cases i with | mk c d =>
  unfold gtHL
  spred

theorem geHL_eq (i : I128) (a b : W) : geHL i a b = decide (i.toInt ≥ (I128.mk a b).toInt) := by
  have := i.hi.isLt; have := i.lo.isLt; have := a.isLt; have := b.isLt
  cases i with | mk c d =>
  unfold geHL
  spred
theorem ltHL_eq (i : I128) (a b : W) : ltHL i a b = decide (i.toInt < (I128.mk a b).toInt) := by
  have := i.hi.isLt; have := i.lo.isLt; have := a.isLt; have := b.isLt
  cases i with | mk c d =>
  unfold ltHL
  spred
theorem leHL_eq (i : I128) (a b : W) : leHL i a b = decide (i.toInt ≤ (I128.mk a b).toInt) := by
  have := i.hi.isLt; have := i.lo.isLt; have := a.isLt; have := b.isLt
  cases i with | mk c d =>
  unfold leHL
  spred
theorem equal_eq (i n : I128) : i.equal n = decide (i.toInt = n.toInt) := by
  have := i.hi.isLt; have := i.lo.isLt; have := n.hi.isLt; have := n.lo.isLt
  cases i with | mk c d =>
  cases n with | mk a b =>
  unfold equal
  spred

/-- the sign-extended operand of every `…64` method has the value of the `int64` -/
theorem ext64_toInt (n : W) : (I128.mk (ext64 n) n).toInt = int64Val n := by
  have := n.isLt
  have hm : maxU64.toNat = 2^64 - 1 := by decide
  unfold ext64 neg64 int64Val
  rw [toInt_mk]
  by_cases h : n.toNat ≥ 2^63
  · simp only [h, decide_true, if_true, hm]; omega
  · simp only [h, decide_false, if_false, Bool.false_eq_true]
    have : (0#64).toNat = 0 := rfl
    rw [this]; omega

theorem mk_eta (n : I128) : I128.mk n.hi n.lo = n := rfl
/-- `Add64(n int64)` is `Add` of the sign-extended operand, word for word -/
theorem addW_eq (i : I128) (n : W) : i.addW n = i.add ⟨ext64 n, n⟩ := by
  unfold addW add ext64 U128.add64
  by_cases h : neg64 n = true
  · simp only [h, if_true, I128.mk.injEq, and_true]
    rw [BitVec.add_assoc, BitVec.add_comm maxU64]
  · simp only [h, if_false, I128.mk.injEq, and_true, Bool.false_eq_true]
    rw [BitVec.add_zero]

theorem subW_eq (i : I128) (n : W) : i.subW n = i.sub ⟨ext64 n, n⟩ := by
  unfold subW sub ext64 U128.sub64
  by_cases h : neg64 n = true
  · simp only [h, if_true, I128.mk.injEq, and_true]
    simp only [BitVec.sub_eq_add_neg]
    ac_rfl
  · simp only [h, if_false, I128.mk.injEq, and_true, Bool.false_eq_true]
    rw [BitVec.sub_zero]

theorem addW_toInt (i : I128) (n : W) : (i.addW n).toInt = wrap128 (i.toInt + int64Val n) := by
  rw [addW_eq, add_toInt, ext64_toInt]
theorem subW_toInt (i : I128) (n : W) : (i.subW n).toInt = wrap128 (i.toInt - int64Val n) := by
  rw [subW_eq, sub_toInt, ext64_toInt]

theorem from64_toInt (n : W) : (from64 n).toInt = int64Val n := ext64_toInt n
theorem fromUint64_toInt (n : W) : (fromUint64 n).toInt = n.toNat := by
  have := n.isLt
  unfold fromUint64; rw [toInt_mk]
  have : (0#64).toNat = 0 := rfl
  rw [this]; simp

theorem mulW_toInt (i : I128) (n : W) : (i.mulW n).toInt = wrap128 (i.toInt * int64Val n) := by
  unfold mulW; rw [mul_toInt, from64_toInt]
end I128
