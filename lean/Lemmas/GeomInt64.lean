import Model.Geom
/-! C18: the rectangle layer of `Model/Geom.lean` at `Int64` — Go's `int` with its wrap-around — against the same
    functions at `Int`.  The driver runs both; these lemmas say when they agree: the predicates as soon as `X+Width` and
    `Y+Height` of the operands do not wrap, `Intersect` / `Union` when moreover all edges lie in `[-2^62, 2^62)` (so
    that the recomputed sizes `edge - origin` cannot wrap either).  Core-only. -/
namespace Geom

def Point.toInt (p : Point Int64) : Point Int := ⟨p.x.toInt, p.y.toInt⟩
def Rect.toInt (r : Rect Int64) : Rect Int := ⟨r.x.toInt, r.y.toInt, r.w.toInt, r.h.toInt⟩

/-- `X+Width` and `Y+Height` stay inside the int64 range -/
def Rect.NoWrap (r : Rect Int64) : Prop :=
  -2 ^ 63 ≤ r.x.toInt + r.w.toInt ∧ r.x.toInt + r.w.toInt < 2 ^ 63 ∧
  -2 ^ 63 ≤ r.y.toInt + r.h.toInt ∧ r.y.toInt + r.h.toInt < 2 ^ 63

/-- all four edges lie in `[-2^62, 2^62)` -/
def Rect.Half (r : Rect Int64) : Prop :=
  (-2 ^ 62 ≤ r.x.toInt ∧ r.x.toInt < 2 ^ 62) ∧ (-2 ^ 62 ≤ r.y.toInt ∧ r.y.toInt < 2 ^ 62) ∧
  (-2 ^ 62 ≤ r.x.toInt + r.w.toInt ∧ r.x.toInt + r.w.toInt < 2 ^ 62) ∧
  (-2 ^ 62 ≤ r.y.toInt + r.h.toInt ∧ r.y.toInt + r.h.toInt < 2 ^ 62)

theorem Rect.Half.noWrap {r : Rect Int64} (h : r.Half) : r.NoWrap := by
  obtain ⟨_, _, ⟨a, b⟩, ⟨c, d⟩⟩ := h
  exact ⟨by omega, by omega, by omega, by omega⟩

theorem toInt_add_of_fits (a b : Int64) (h1 : -2 ^ 63 ≤ a.toInt + b.toInt) (h2 : a.toInt + b.toInt < 2 ^ 63) :
    (a + b).toInt = a.toInt + b.toInt := by
  rw [Int64.toInt_add]; exact Int.bmod_eq_of_le (by omega) (by omega)

theorem toInt_sub_of_fits (a b : Int64) (h1 : -2 ^ 63 ≤ a.toInt - b.toInt) (h2 : a.toInt - b.toInt < 2 ^ 63) :
    (a - b).toInt = a.toInt - b.toInt := by
  rw [Int64.toInt_sub]; exact Int.bmod_eq_of_le (by omega) (by omega)

theorem decide_le64 (a b : Int64) : decide (a ≤ b) = decide (a.toInt ≤ b.toInt) :=
  decide_eq_decide.mpr Int64.le_iff_toInt_le
theorem decide_lt64 (a b : Int64) : decide (a < b) = decide (a.toInt < b.toInt) :=
  decide_eq_decide.mpr Int64.lt_iff_toInt_lt

theorem Rect.empty_toInt (r : Rect Int64) : r.toInt.empty = r.empty := by
  simp only [Rect.empty, Rect.toInt, decide_le64, Int64.toInt_zero]
  rfl

theorem Rect.right_toInt (r : Rect Int64) (h : r.NoWrap) : r.right.toInt = r.toInt.right := by
  simp only [Rect.right, Rect.toInt]; exact toInt_add_of_fits _ _ h.1 h.2.1
theorem Rect.bottom_toInt (r : Rect Int64) (h : r.NoWrap) : r.bottom.toInt = r.toInt.bottom := by
  simp only [Rect.bottom, Rect.toInt]; exact toInt_add_of_fits _ _ h.2.2.1 h.2.2.2

/-- `Point.In` on machine integers is `Point.In` on the integers as long as the far edges do not wrap -/
theorem inRect_toInt (p : Point Int64) (r : Rect Int64) (h : r.NoWrap) : p.inRect r = p.toInt.inRect r.toInt := by
  simp only [Point.inRect, ← Rect.empty_toInt, decide_le64, decide_lt64, Rect.right_toInt r h, Rect.bottom_toInt r h]
  rfl

/-- `Rect.Contains` likewise -/
theorem contains_toInt (a b : Rect Int64) (ha : a.NoWrap) (hb : b.NoWrap) :
    a.contains b = a.toInt.contains b.toInt := by
  simp only [Rect.contains, ← Rect.empty_toInt, decide_le64, Rect.right_toInt a ha, Rect.bottom_toInt a ha,
    Rect.right_toInt b hb, Rect.bottom_toInt b hb]
  rfl

/-- `Rect.Intersects` likewise -/
theorem intersects_toInt (a b : Rect Int64) (ha : a.NoWrap) (hb : b.NoWrap) :
    a.intersects b = a.toInt.intersects b.toInt := by
  simp only [Rect.intersects, ← Rect.empty_toInt, decide_lt64, gt_iff_lt, Rect.right_toInt a ha, Rect.bottom_toInt a ha,
    Rect.right_toInt b hb, Rect.bottom_toInt b hb]
  rfl

theorem toInt_max (a b : Int64) : (max a b).toInt = max a.toInt b.toInt := by
  show (if a ≤ b then b else a).toInt = (if a.toInt ≤ b.toInt then b.toInt else a.toInt)
  by_cases h : a ≤ b
  · rw [if_pos h, if_pos (Int64.le_iff_toInt_le.mp h)]
  · rw [if_neg h, if_neg (fun h' => h (Int64.le_iff_toInt_le.mpr h'))]

theorem toInt_min (a b : Int64) : (min a b).toInt = min a.toInt b.toInt := by
  show (if a ≤ b then a else b).toInt = (if a.toInt ≤ b.toInt then a.toInt else b.toInt)
  by_cases h : a ≤ b
  · rw [if_pos h, if_pos (Int64.le_iff_toInt_le.mp h)]
  · rw [if_neg h, if_neg (fun h' => h (Int64.le_iff_toInt_le.mpr h'))]

theorem Rect.zero_toInt : (Rect.zero : Rect Int64).toInt = Rect.zero := by
  simp only [Rect.zero, Rect.toInt, Int64.toInt_zero]

/-- `Rect.Intersect` on machine integers is `Rect.Intersect` on the integers when all edges lie in `[-2^62, 2^62)` -/
theorem intersect_toInt (a b : Rect Int64) (ha : a.Half) (hb : b.Half) :
    (a.intersect b).toInt = a.toInt.intersect b.toInt := by
  have ra := Rect.right_toInt a ha.noWrap
  have ba := Rect.bottom_toInt a ha.noWrap
  have rb := Rect.right_toInt b hb.noWrap
  have bb := Rect.bottom_toInt b hb.noWrap
  obtain ⟨⟨a1, a2⟩, ⟨a3, a4⟩, ⟨a5, a6⟩, ⟨a7, a8⟩⟩ := ha
  obtain ⟨⟨b1, b2⟩, ⟨b3, b4⟩, ⟨b5, b6⟩, ⟨b7, b8⟩⟩ := hb
  have hw : (min a.right b.right - max a.x b.x).toInt = min a.toInt.right b.toInt.right - max a.toInt.x b.toInt.x := by
    have e : (min a.right b.right).toInt - (max a.x b.x).toInt =
        min a.toInt.right b.toInt.right - max a.toInt.x b.toInt.x := by
      rw [toInt_min, toInt_max, ra, rb]; rfl
    rw [toInt_sub_of_fits, e]
    · rw [e]; simp only [Rect.right, Rect.toInt]; omega
    · rw [e]; simp only [Rect.right, Rect.toInt]; omega
  have hh : (min a.bottom b.bottom - max a.y b.y).toInt = min a.toInt.bottom b.toInt.bottom - max a.toInt.y b.toInt.y := by
    have e : (min a.bottom b.bottom).toInt - (max a.y b.y).toInt =
        min a.toInt.bottom b.toInt.bottom - max a.toInt.y b.toInt.y := by
      rw [toInt_min, toInt_max, ba, bb]; rfl
    rw [toInt_sub_of_fits, e]
    · rw [e]; simp only [Rect.bottom, Rect.toInt]; omega
    · rw [e]; simp only [Rect.bottom, Rect.toInt]; omega
  unfold Rect.intersect
  rw [← Rect.empty_toInt a, ← Rect.empty_toInt b]
  by_cases he : (a.toInt.empty || b.toInt.empty) = true
  · rw [if_pos he, if_pos he, Rect.zero_toInt]
  · rw [if_neg he, if_neg he]
    simp only [decide_le64, hw, hh, Int64.toInt_zero]
    by_cases hz : (decide (min a.toInt.right b.toInt.right - max a.toInt.x b.toInt.x ≤ 0) ||
        decide (min a.toInt.bottom b.toInt.bottom - max a.toInt.y b.toInt.y ≤ 0)) = true
    · rw [if_pos hz, if_pos hz, Rect.zero_toInt]
    · rw [if_neg hz, if_neg hz]
      simp only [Rect.toInt, hw, hh, toInt_max]

/-- `Rect.Union` likewise -/
theorem union_toInt (a b : Rect Int64) (ha : a.Half) (hb : b.Half) :
    (a.union b).toInt = a.toInt.union b.toInt := by
  have ra := Rect.right_toInt a ha.noWrap
  have ba := Rect.bottom_toInt a ha.noWrap
  have rb := Rect.right_toInt b hb.noWrap
  have bb := Rect.bottom_toInt b hb.noWrap
  obtain ⟨⟨a1, a2⟩, ⟨a3, a4⟩, ⟨a5, a6⟩, ⟨a7, a8⟩⟩ := ha
  obtain ⟨⟨b1, b2⟩, ⟨b3, b4⟩, ⟨b5, b6⟩, ⟨b7, b8⟩⟩ := hb
  have hw : (max a.right b.right - min a.x b.x).toInt = max a.toInt.right b.toInt.right - min a.toInt.x b.toInt.x := by
    have e : (max a.right b.right).toInt - (min a.x b.x).toInt =
        max a.toInt.right b.toInt.right - min a.toInt.x b.toInt.x := by
      rw [toInt_min, toInt_max, ra, rb]; rfl
    rw [toInt_sub_of_fits, e]
    · rw [e]; simp only [Rect.right, Rect.toInt]; omega
    · rw [e]; simp only [Rect.right, Rect.toInt]; omega
  have hh : (max a.bottom b.bottom - min a.y b.y).toInt = max a.toInt.bottom b.toInt.bottom - min a.toInt.y b.toInt.y := by
    have e : (max a.bottom b.bottom).toInt - (min a.y b.y).toInt =
        max a.toInt.bottom b.toInt.bottom - min a.toInt.y b.toInt.y := by
      rw [toInt_min, toInt_max, ba, bb]; rfl
    rw [toInt_sub_of_fits, e]
    · rw [e]; simp only [Rect.bottom, Rect.toInt]; omega
    · rw [e]; simp only [Rect.bottom, Rect.toInt]; omega
  unfold Rect.union
  simp only [← Rect.empty_toInt a, ← Rect.empty_toInt b]
  by_cases h1 : (a.toInt.empty && b.toInt.empty) = true
  · rw [if_pos h1, if_pos h1, Rect.zero_toInt]
  · rw [if_neg h1, if_neg h1]
    by_cases h2 : a.toInt.empty = true
    · rw [if_pos h2, if_pos h2]
    · rw [if_neg h2, if_neg h2]
      by_cases h3 : b.toInt.empty = true
      · rw [if_pos h3, if_pos h3]
      · rw [if_neg h3, if_neg h3]
        simp only [Rect.toInt, hw, hh, toInt_min]

end Geom
