import Lemmas.Conv128Parse
/-! C02 helper lemmas, part 7 (core Lean only): the declarative grammar of the integer literals accepted by
    `big.Int.SetString(s, 0)` and its equivalence with the scanner `bigIntSetString` (both directions). -/
namespace Conv

/-- `SepDigits b p l`: `l` is a non-empty sequence of base-`b` digits and underscores that ends with a digit, in which
    every underscore directly follows a digit — or stands at the very beginning when `p` is true (after a base
    prefix).  Hence no leading (without prefix), trailing or doubled underscore. -/
inductive SepDigits (b : Nat) : Bool → List Char → Prop
  | last (p : Bool) (c : Char) : digitVal c < b → SepDigits b p [c]
  | digit (p : Bool) (c : Char) (t : List Char) : digitVal c < b → SepDigits b true t → SepDigits b p (c :: t)
  | sep (t : List Char) : SepDigits b false t → SepDigits b true ('_' :: t)

/-- Horner value of the digits of `l` in base `b`, starting from `acc`; underscores are skipped -/
def valFrom (b acc : Nat) (l : List Char) : Nat := l.foldl (fun v c => if c = '_' then v else v * b + digitVal c) acc

/-- value of a digit string with separators -/
def digitsVal (b : Nat) (l : List Char) : Nat := valFrom b 0 l

/-- unsigned integer literal of base-0 `SetString`: `0`; a decimal literal not starting with `0`; `0b`/`0o`/`0x`
    (either case) followed by digits of that base, where an underscore may follow the prefix; or the legacy octal
    form `0` followed by octal digits (an underscore may follow the `0`) -/
inductive PlainBody : List Char → Nat → Prop
  | zero : PlainBody ['0'] 0
  | dec (c : Char) (t : List Char) : c ≠ '0' → SepDigits 10 false (c :: t) → PlainBody (c :: t) (digitsVal 10 (c :: t))
  | bin (c : Char) (t : List Char) : c = 'b' ∨ c = 'B' → SepDigits 2 true t → PlainBody ('0' :: c :: t) (digitsVal 2 t)
  | oct (c : Char) (t : List Char) : c = 'o' ∨ c = 'O' → SepDigits 8 true t → PlainBody ('0' :: c :: t) (digitsVal 8 t)
  | hex (c : Char) (t : List Char) : c = 'x' ∨ c = 'X' → SepDigits 16 true t → PlainBody ('0' :: c :: t) (digitsVal 16 t)
  | oct0 (c : Char) (t : List Char) : SepDigits 8 true (c :: t) → PlainBody ('0' :: c :: t) (digitsVal 8 (c :: t))

/-- **integer literal**: an optional sign followed by an unsigned literal; `z` is the denoted value -/
def IsPlainIntLiteral (s : List Char) (z : Int) : Prop :=
  ∃ sg body v, s = sg ++ body ∧ PlainBody body v ∧
    (((sg = [] ∨ sg = ['+']) ∧ z = (v : Int)) ∨ (sg = ['-'] ∧ z = -(v : Int)))

/-! ## characters -/

theorem digitVal_lt_ne {c : Char} {b : Nat} (h : digitVal c < b) (hb : b ≤ 36) (d : Char) (hd : digitVal d = 63) : c ≠ d := by
  intro e; subst e; omega

theorem dv_us : digitVal '_' = 63 := by decide
theorem dv_dot : digitVal '.' = 63 := by decide
theorem dv_minus : digitVal '-' = 63 := by decide
theorem dv_plus : digitVal '+' = 63 := by decide

/-! ## the digit loop -/

theorem scanLoop_nil (b : Nat) (st : LoopSt) : scanLoop b st [] = (st, []) := by
  unfold scanLoop; rfl

theorem scanLoop_digit (b : Nat) (st : LoopSt) (c : Char) (t : List Char) (hf : st.fracOk = false)
    (hc : digitVal c < b) (hb : b ≤ 36) :
    scanLoop b st (c :: t) =
      scanLoop b { st with prev := .digit, count := st.count + 1, val := st.val * b + digitVal c } t := by
  rw [scanLoop]
  rw [if_neg (by rw [hf]; simp), if_neg (digitVal_lt_ne hc hb '_' dv_us), if_neg (by omega)]

theorem scanLoop_sepc (b : Nat) (st : LoopSt) (t : List Char) (hf : st.fracOk = false) :
    scanLoop b st ('_' :: t) =
      scanLoop b { st with invalSep := st.invalSep || st.prev != .digit, prev := .sep } t := by
  rw [scanLoop]
  rw [if_neg (by rw [hf]; simp), if_pos rfl]

theorem scanLoop_stop (b : Nat) (st : LoopSt) (c : Char) (t : List Char) (hf : st.fracOk = false)
    (h1 : c ≠ '_') (h2 : digitVal c ≥ b) : scanLoop b st (c :: t) = (st, c :: t) := by
  rw [scanLoop]
  rw [if_neg (by rw [hf]; simp), if_neg h1, if_pos h2]

/-- grammar ⇒ scanner: on a well-formed digit string the loop reads everything, computes the Horner value, counts at
    least one digit, ends on a digit and reports no separator error -/
theorem scanLoop_of_sep (b : Nat) (hb : b ≤ 36) (p : Bool) (l : List Char) (h : SepDigits b p l) :
    ∀ st : LoopSt, st.fracOk = false → (p = true → st.prev = .digit) →
      (scanLoop b st l).2 = [] ∧ (scanLoop b st l).1.val = valFrom b st.val l ∧
      st.count < (scanLoop b st l).1.count ∧ (scanLoop b st l).1.prev = .digit ∧
      (scanLoop b st l).1.invalSep = st.invalSep := by
  induction h with
  | last p c hc =>
    intro st hf _
    rw [scanLoop_digit b st c [] hf hc hb, scanLoop_nil]
    have : c ≠ '_' := digitVal_lt_ne hc hb '_' dv_us
    refine ⟨rfl, ?_, Nat.lt_succ_self _, rfl, rfl⟩
    simp [valFrom, this]
  | digit p c t hc _ ih =>
    intro st hf _
    rw [scanLoop_digit b st c t hf hc hb]
    obtain ⟨a1, a2, a3, a4, a5⟩ :=
      ih { st with prev := .digit, count := st.count + 1, val := st.val * b + digitVal c } hf (fun _ => rfl)
    have : c ≠ '_' := digitVal_lt_ne hc hb '_' dv_us
    refine ⟨a1, ?_, by simp only [] at a3; omega, a4, a5⟩
    rw [a2]; simp [valFrom, this]
  | sep t _ ih =>
    intro st hf hp
    rw [scanLoop_sepc b st t hf]
    obtain ⟨a1, a2, a3, a4, a5⟩ :=
      ih { st with invalSep := st.invalSep || st.prev != .digit, prev := .sep } hf (fun c => by cases c)
    refine ⟨a1, ?_, a3, a4, ?_⟩
    · rw [a2]; simp [valFrom]
    · rw [a5]; simp [hp rfl]

theorem scanLoop_invalSep_mono (b : Nat) (l : List Char) :
    ∀ st : LoopSt, st.invalSep = true → (scanLoop b st l).1.invalSep = true := by
  induction l with
  | nil => intro st h; rw [scanLoop_nil]; exact h
  | cons c t ih =>
    intro st h
    rw [scanLoop]
    split
    · exact ih _ (by simp [h])
    · split
      · exact ih _ (by simp [h])
      · split
        · exact h
        · exact ih _ h

/-- scanner ⇒ grammar: if the loop reads everything without a separator error and does not end on an underscore, the
    text was empty or a well-formed digit string -/
theorem sep_of_scanLoop (b : Nat) (l : List Char) :
    ∀ st : LoopSt, st.fracOk = false → (scanLoop b st l).2 = [] → (scanLoop b st l).1.invalSep = false →
      (scanLoop b st l).1.prev ≠ .sep → l = [] ∨ SepDigits b (st.prev == .digit) l := by
  induction l with
  | nil => intro _ _ _ _ _; exact Or.inl rfl
  | cons c t ih =>
    intro st hf h1 h2 h3
    right
    by_cases c1 : c = '_'
    · subst c1
      rw [scanLoop_sepc b st t hf] at h1 h2 h3
      have hst : (st.invalSep || st.prev != .digit) = false := by
        cases hx : (st.invalSep || st.prev != .digit)
        · rfl
        · have := scanLoop_invalSep_mono b t { st with invalSep := st.invalSep || st.prev != .digit, prev := .sep } hx
          rw [this] at h2; cases h2
      have hp : st.prev = .digit := by
        cases hq : st.prev <;> simp [hq] at hst ⊢
      rcases ih { st with invalSep := st.invalSep || st.prev != .digit, prev := .sep } hf h1 h2 h3 with e | e
      · subst e; rw [scanLoop_nil] at h3; exact absurd rfl h3
      · rw [hp]
        exact SepDigits.sep t e
    · by_cases c2 : digitVal c ≥ b
      · rw [scanLoop_stop b st c t hf c1 c2] at h1; cases h1
      · have hc : digitVal c < b := by omega
        rw [scanLoop] at h1 h2 h3
        rw [if_neg (by rw [hf]; simp), if_neg c1, if_neg c2] at h1 h2 h3
        rcases ih { st with prev := .digit, count := st.count + 1, val := st.val * b + digitVal c } hf h1 h2 h3
          with e | e
        · subst e; exact SepDigits.last _ c hc
        · exact SepDigits.digit _ c t hc e

/-! ## `nat.scan` -/

theorem sep_head_false {b : Nat} {c : Char} {t : List Char} (h : SepDigits b false (c :: t)) : digitVal c < b := by
  cases h with
  | last _ _ hc => exact hc
  | digit _ _ _ hc _ => exact hc

theorem sep_head_true {b : Nat} {c : Char} {t : List Char} (h : SepDigits b true (c :: t)) :
    c = '_' ∨ digitVal c < b := by
  cases h with
  | last _ _ hc => exact Or.inr hc
  | digit _ _ _ hc _ => exact Or.inr hc
  | sep _ _ => exact Or.inl rfl

/-- `natScan` in terms of the prefix and the loop result -/
theorem natScan_split (r : List Char) (b : Nat) (px : Pfx) (cnt : Nat) (pv : Prev) (body : List Char)
    (hp : scanPrefix false r = (b, px, cnt, pv, body)) :
    (natScan false r).rest =
        (scanLoop b { val := 0, count := cnt, prev := pv, invalSep := false, fracOk := false, dp := none } body).2 ∧
    ((natScan false r).err = false →
        (scanLoop b { val := 0, count := cnt, prev := pv, invalSep := false, fracOk := false, dp := none } body).1.invalSep = false ∧
        (scanLoop b { val := 0, count := cnt, prev := pv, invalSep := false, fracOk := false, dp := none } body).1.prev ≠ .sep ∧
        ((scanLoop b { val := 0, count := cnt, prev := pv, invalSep := false, fracOk := false, dp := none } body).1.count = 0 →
          px = .zero)) ∧
    ((scanLoop b { val := 0, count := cnt, prev := pv, invalSep := false, fracOk := false, dp := none } body).1.count ≠ 0 →
        (natScan false r).val =
          (scanLoop b { val := 0, count := cnt, prev := pv, invalSep := false, fracOk := false, dp := none } body).1.val ∧
        ((scanLoop b { val := 0, count := cnt, prev := pv, invalSep := false, fracOk := false, dp := none } body).1.invalSep = false →
         (scanLoop b { val := 0, count := cnt, prev := pv, invalSep := false, fracOk := false, dp := none } body).1.prev = .digit →
          (natScan false r).err = false)) := by
  unfold natScan
  rw [hp]
  simp only []
  generalize scanLoop b { val := 0, count := cnt, prev := pv, invalSep := false, fracOk := false, dp := none } body = res
  by_cases hc : res.1.count = 0
  · have : (res.1.count == 0) = true := by simp [hc]
    rw [this]
    simp only [if_true]
    by_cases hz : px = .zero
    · subst hz
      simp only [beq_self_eq_true, if_true]
      refine ⟨by first | rfl | trivial, ?_, fun c => (c hc).elim⟩
      intro he
      cases hi : res.1.invalSep
      · rw [hi] at he
        refine ⟨by first | rfl | trivial, ?_, fun _ => by first | rfl | trivial⟩
        intro hq; rw [hq] at he; simp at he
      · rw [hi] at he; simp at he
    · have : (px == Pfx.zero) = false := by cases px <;> simp_all
      rw [this]
      simp only [Bool.false_eq_true, if_false]
      refine ⟨by first | rfl | trivial, fun he => (by cases he), fun c => (c hc).elim⟩
  · have : (res.1.count == 0) = false := by simp [hc]
    rw [this]
    simp only [Bool.false_eq_true, if_false]
    refine ⟨by first | rfl | trivial, ?_, fun _ => ⟨by first | rfl | trivial, ?_⟩⟩
    · intro he
      cases hi : res.1.invalSep
      · rw [hi] at he
        refine ⟨by first | rfl | trivial, ?_, fun c => (hc c).elim⟩
        intro hq; rw [hq] at he; simp at he
      · rw [hi] at he; simp at he
    · intro h1 h2; rw [h1, h2]; rfl

theorem scanPrefix_nonzero (c : Char) (t : List Char) (hc : c ≠ '0') :
    scanPrefix false (c :: t) = (10, .none, 0, .other, c :: t) := by
  unfold scanPrefix
  split
  · rename_i heq; injection heq with a _; exact absurd a hc
  · rename_i heq; injection heq with a _; exact absurd a hc
  · rfl

theorem scanPrefix_oct0 (c : Char) (t : List Char) (h1 : ¬ (c = 'b' ∨ c = 'B')) (h2 : ¬ (c = 'o' ∨ c = 'O'))
    (h3 : ¬ (c = 'x' ∨ c = 'X')) : scanPrefix false ('0' :: c :: t) = (8, .zero, 0, .digit, c :: t) := by
  simp only [scanPrefix]
  rw [if_neg h1, if_neg h2, if_neg h3]
  rfl

/-- grammar ⇒ scanner for the unsigned literal -/
theorem natScan_of_body (r : List Char) (v : Nat) (h : PlainBody r v) :
    (natScan false r).err = false ∧ (natScan false r).rest = [] ∧ (natScan false r).val = v := by
  have key : ∀ (b : Nat) (px : Pfx) (pv : Prev) (body : List Char) (p : Bool), b ≤ 36 →
      scanPrefix false r = (b, px, 0, pv, body) → SepDigits b p body → (p = true → pv = .digit) →
      (natScan false r).err = false ∧ (natScan false r).rest = [] ∧ (natScan false r).val = digitsVal b body := by
    intro b px pv body p hb hp hs hpv
    obtain ⟨s1, _, s3⟩ := natScan_split r b px 0 pv body hp
    obtain ⟨a1, a2, a3, a4, a5⟩ := scanLoop_of_sep b hb p body hs
      { val := 0, count := 0, prev := pv, invalSep := false, fracOk := false, dp := none } rfl hpv
    obtain ⟨t1, t2⟩ := s3 (by omega)
    exact ⟨t2 a5 a4, by rw [s1, a1], by rw [t1, a2]; rfl⟩
  cases h with
  | zero => exact ⟨rfl, rfl, rfl⟩
  | dec c t hc hs => exact key 10 .none .other (c :: t) false (by omega) (scanPrefix_nonzero c t hc) hs (fun x => by cases x)
  | bin c t hc hs =>
    refine key 2 .b .digit t true (by omega) ?_ hs (fun _ => rfl)
    rcases hc with hc | hc <;> (subst hc; rfl)
  | oct c t hc hs =>
    refine key 8 .o .digit t true (by omega) ?_ hs (fun _ => rfl)
    rcases hc with hc | hc <;> (subst hc; rfl)
  | hex c t hc hs =>
    refine key 16 .x .digit t true (by omega) ?_ hs (fun _ => rfl)
    rcases hc with hc | hc <;> (subst hc; rfl)
  | oct0 c t hs =>
    have hd := sep_head_true hs
    have ne : ∀ d : Char, d ≠ '_' → ¬ digitVal d < 8 → c ≠ d := by
      intro d d1 d2 e; subst e
      rcases hd with h | h
      · exact d1 h
      · exact d2 h
    refine key 8 .zero .digit (c :: t) true (by omega) (scanPrefix_oct0 c t ?_ ?_ ?_) hs (fun _ => rfl)
    · intro h; rcases h with h | h
      · exact ne 'b' (by decide) (by decide) h
      · exact ne 'B' (by decide) (by decide) h
    · intro h; rcases h with h | h
      · exact ne 'o' (by decide) (by decide) h
      · exact ne 'O' (by decide) (by decide) h
    · intro h; rcases h with h | h
      · exact ne 'x' (by decide) (by decide) h
      · exact ne 'X' (by decide) (by decide) h

/-- scanner ⇒ grammar for the unsigned literal -/
theorem body_of_natScan (r : List Char) (he : (natScan false r).err = false) (hr : (natScan false r).rest = []) :
    PlainBody r (natScan false r).val := by
  have key : ∀ (b : Nat) (px : Pfx) (pv : Prev) (body : List Char), b ≤ 36 →
      scanPrefix false r = (b, px, 0, pv, body) → (px = .zero → body ≠ []) →
      SepDigits b (pv == .digit) body ∧ (natScan false r).val = digitsVal b body := by
    intro b px pv body hb hp hz
    obtain ⟨s1, s2, s3⟩ := natScan_split r b px 0 pv body hp
    obtain ⟨i1, i2, i3⟩ := s2 he
    rw [s1] at hr
    have hsep : SepDigits b (pv == .digit) body := by
      rcases sep_of_scanLoop b body
        { val := 0, count := 0, prev := pv, invalSep := false, fracOk := false, dp := none } rfl hr i1 i2 with e | e
      · subst e
        rw [scanLoop_nil] at i3
        exact absurd rfl (hz (i3 rfl))
      · exact e
    refine ⟨hsep, ?_⟩
    obtain ⟨a1, a2, a3, a4, a5⟩ := scanLoop_of_sep b hb _ body hsep
      { val := 0, count := 0, prev := pv, invalSep := false, fracOk := false, dp := none } rfl
      (fun c => by cases pv <;> simp_all)
    obtain ⟨t1, _⟩ := s3 (by omega)
    rw [t1, a2]; rfl
  cases r with
  | nil => simp [natScan, scanPrefix, scanLoop] at he
  | cons c t =>
    by_cases c0 : c = '0'
    · subst c0
      cases t with
      | nil => exact PlainBody.zero
      | cons d u =>
        by_cases h1 : d = 'b' ∨ d = 'B'
        · have hp : scanPrefix false ('0' :: d :: u) = (2, .b, 0, .digit, u) := by
            rcases h1 with h | h <;> (subst h; rfl)
          obtain ⟨k1, k2⟩ := key 2 .b .digit u (by omega) hp (fun c => by cases c)
          rw [k2]; exact PlainBody.bin d u h1 k1
        · by_cases h2 : d = 'o' ∨ d = 'O'
          · have hp : scanPrefix false ('0' :: d :: u) = (8, .o, 0, .digit, u) := by
              rcases h2 with h | h <;> (subst h; rfl)
            obtain ⟨k1, k2⟩ := key 8 .o .digit u (by omega) hp (fun c => by cases c)
            rw [k2]; exact PlainBody.oct d u h2 k1
          · by_cases h3 : d = 'x' ∨ d = 'X'
            · have hp : scanPrefix false ('0' :: d :: u) = (16, .x, 0, .digit, u) := by
                rcases h3 with h | h <;> (subst h; rfl)
              obtain ⟨k1, k2⟩ := key 16 .x .digit u (by omega) hp (fun c => by cases c)
              rw [k2]; exact PlainBody.hex d u h3 k1
            · obtain ⟨k1, k2⟩ := key 8 .zero .digit (d :: u) (by omega) (scanPrefix_oct0 d u h1 h2 h3)
                (fun _ => by simp)
              rw [k2]; exact PlainBody.oct0 d u k1
    · obtain ⟨k1, k2⟩ := key 10 .none .other (c :: t) (by omega) (scanPrefix_nonzero c t c0) (fun c => by cases c)
      rw [k2]; exact PlainBody.dec c t c0 k1

/-! ## `big.Int.SetString(s, 0)` -/

theorem body_head {r : List Char} {v : Nat} (h : PlainBody r v) : ∃ c t, r = c :: t ∧ c ≠ '-' ∧ c ≠ '+' := by
  cases h with
  | zero => exact ⟨'0', [], rfl, by decide, by decide⟩
  | dec c t _ hs =>
    have := sep_head_false hs
    exact ⟨c, t, rfl, digitVal_lt_ne this (by omega) '-' dv_minus, digitVal_lt_ne this (by omega) '+' dv_plus⟩
  | bin c t _ _ => exact ⟨'0', c :: t, rfl, by decide, by decide⟩
  | oct c t _ _ => exact ⟨'0', c :: t, rfl, by decide, by decide⟩
  | hex c t _ _ => exact ⟨'0', c :: t, rfl, by decide, by decide⟩
  | oct0 c t _ => exact ⟨'0', c :: t, rfl, by decide, by decide⟩

/-- **`big.Int.SetString(s, 0)` accepts exactly the integer literals of the grammar, with the denoted value** -/
theorem bigIntSetString_iff (s : List Char) (z : Int) : bigIntSetString s = some z ↔ IsPlainIntLiteral s z := by
  constructor
  · intro h
    unfold bigIntSetString at h
    cases hs : scanSign s with
    | none => rw [hs] at h; cases h
    | some p =>
      obtain ⟨neg, r⟩ := p
      rw [hs] at h
      simp only [] at h
      by_cases he : (natScan false r).err = true
      · rw [if_pos he] at h; cases h
      · rw [if_neg he] at h
        have he' : (natScan false r).err = false := by
          cases hx : (natScan false r).err
          · rfl
          · exact absurd hx he
        by_cases hr : (natScan false r).rest.isEmpty = true
        · have hrest : (natScan false r).rest = [] := List.isEmpty_iff.mp hr
          rw [if_neg (by simp [hr])] at h
          injection h with hz
          have hb := body_of_natScan r he' hrest
          unfold scanSign at hs
          split at hs
          · cases hs
          · rename_i c t
            by_cases c1 : c = '-'
            · rw [if_pos c1] at hs; injection hs with hs; injection hs with e1 e2
              subst e1; subst e2; subst c1
              exact ⟨['-'], _, _, rfl, hb, Or.inr ⟨rfl, by rw [← hz]; rfl⟩⟩
            · rw [if_neg c1] at hs
              by_cases c2 : c = '+'
              · rw [if_pos c2] at hs; injection hs with hs; injection hs with e1 e2
                subst e1; subst e2; subst c2
                exact ⟨['+'], _, _, rfl, hb, Or.inl ⟨Or.inr rfl, by rw [← hz]; rfl⟩⟩
              · rw [if_neg c2] at hs; injection hs with hs; injection hs with e1 e2
                subst e1; subst e2
                exact ⟨[], _, _, rfl, hb, Or.inl ⟨Or.inl rfl, by rw [← hz]; rfl⟩⟩
        · rw [if_pos (by simpa using hr)] at h; cases h
  · rintro ⟨sg, body, v, hs, hb, hz⟩
    obtain ⟨c, t, hct, n1, n2⟩ := body_head hb
    obtain ⟨k1, k2, k3⟩ := natScan_of_body body v hb
    have fin : ∀ neg : Bool, scanSign s = some (neg, body) → bigIntSetString s = some (if neg then -(v : Int) else v) := by
      intro neg hsg
      unfold bigIntSetString
      rw [hsg]
      simp only []
      rw [k1, k2, k3]
      rfl
    rcases hz with ⟨hsg | hsg, hz⟩ | ⟨hsg, hz⟩
    · subst hsg; subst hz
      refine fin false ?_
      rw [hs, hct]; simp only [List.nil_append, scanSign]
      rw [if_neg n1, if_neg n2]
    · subst hsg; subst hz
      refine fin false ?_
      rw [hs]; rfl
    · subst hsg; subst hz
      refine fin true ?_
      rw [hs]; rfl

end Conv
