import Lemmas.RateLimiterInt
import Lemmas.RateLimiterGrants
/-! C16: the variants of `rate/limiter.go` WITHOUT one of its mechanisms, each next to the transcription it differs from,
    and the concrete runs on which the variant violates the statement the repaired code satisfies.

    * `useOwn` / `tickOwn`: the "too big" test against the limiter's OWN capacity only (the code before commit 8ceae61,
      `seeded/revert-c16-ancestor-cap`);
    * `useChargeOwn`: a grant charged to the limiter only, not to its ancestors (`seeded/own-c16-1`);
    * `leftGoZ`: `capacity - used` in machine ints for a capacity that was NOT clamped to 0 (the code before commit
      4e94d2c, `seeded/revert-c16-negative-cap`);
    * `useZeroFirst`: `amount == 0` answered before the limiter is looked at (before commit 0fbede5,
      `seeded/revert-c16-use0-closed`). -/
namespace RL

/-! ### the cap test against the own capacity only -/

/-- body of `Use` (lock held by the caller, taken and released around it) with `amount > l.capacity` -/
def useOwn (s : S) (l amt : Nat) : S :=
  if s.closed l then answer s .errClosed
  else if amt = 0 then doUseZero s l
  else if amt > s.cap l then answer s .errCap
  else if fits s.cap s.used (s.chain l) amt then doUseGrant s l amt
  else doUseWait s l amt

/-- the service loop with `req.amount > req.limiter.capacity` -/
def serviceOwn (cap : Nat → Nat) (chain : Nat → List Nat) (closed : Nat → Bool) (period : Nat) :
    (Nat → Nat) → List Req → Svc
  | used, [] => ⟨used, [], [], []⟩
  | used, r :: rs =>
    if closed r.lim then
      let t := serviceOwn cap chain closed period used rs
      { t with answers := (r.id, .errClosed) :: t.answers }
    else if r.amt > cap r.lim then
      let t := serviceOwn cap chain closed period used rs
      { t with answers := (r.id, .errCap) :: t.answers }
    else if used 0 < cap 0 ∧ fits cap used (chain r.lim) r.amt = true then
      let t := serviceOwn cap chain closed period (charge used (chain r.lim) r.amt) rs
      { t with answers := (r.id, .ok) :: t.answers, grants := ⟨r.id, r.lim, chain r.lim, r.amt, period⟩ :: t.grants }
    else
      let t := serviceOwn cap chain closed period used rs
      { t with waiting := r :: t.waiting }

/-- one whole tick (fire, lock, body, unlock) of that variant -/
def tickOwn (s : S) : S :=
  let t := serviceOwn s.cap s.chain s.closed (s.ticks + 1) (fun x => if resets s x then 0 else s.used x) s.waiting
  { s with used := t.used, last := fun x => if resets s x then s.used x else s.last x, waiting := t.waiting,
           answered := t.answers ++ s.answered, glog := t.grants ++ s.glog, ticks := s.ticks + 1 }

def iter {α : Type} (f : α → α) : Nat → α → α
  | 0, a => a
  | n + 1, a => iter f n (f a)

/-- root of capacity 2 with a child of capacity 9 -/
def starveTree : S := exec (init 2) (.newChild 0 9)

/-- what stays true of the starving state under every tick of the variant -/
structure Starving (s : S) : Prop where
  w : s.waiting = [⟨1, 5, 0⟩]
  a : s.answered = []
  c0 : s.cap 0 = 2
  c1 : s.cap 1 = 9
  ch : s.chain 1 = [1, 0]
  cl : s.closed 1 = false

theorem starving_start : Starving (useOwn starveTree 1 5) := by
  refine ⟨?_, ?_, ?_, ?_, ?_, ?_⟩
  · rfl
  all_goals decide

theorem starving_tick (s : S) (h : Starving s) : Starving (tickOwn s) := by
  obtain ⟨w, a, c0, c1, ch, cl⟩ := h
  have key : ∀ u : Nat → Nat,
      serviceOwn s.cap s.chain s.closed (s.ticks + 1) u [⟨1, 5, 0⟩] = ⟨u, [⟨1, 5, 0⟩], [], []⟩ := by
    intro u
    have nf : fits s.cap u [1, 0] 5 = false := by
      simp only [fits, List.all_cons, List.all_nil, c0, c1, Bool.and_true]
      have : decide (u 0 + 5 ≤ 2) = false := by simp
      rw [this, Bool.and_false]
    simp [serviceOwn, cl, c1, ch, nf]
  refine ⟨?_, ?_, c0, c1, ch, cl⟩
  · simp only [tickOwn, w, key]
  · simp only [tickOwn, w, key, a, List.nil_append]

theorem starving_forever (n : Nat) (s : S) (h : Starving s) : Starving (iter tickOwn n s) := by
  induction n generalizing s with
  | zero => exact h
  | succ n ih => exact ih _ (starving_tick s h)

/-! ### a grant charged to the limiter only -/

/-- body of `Use` that charges `l.used += amount` but not the ancestors -/
def useChargeOwn (s : S) (l amt : Nat) : S :=
  if s.closed l then answer s .errClosed
  else if amt = 0 then doUseZero s l
  else if amt > effCap s.cap (s.chain l) (s.cap l) then answer s .errCap
  else if fits s.cap s.used (s.chain l) amt then
    { s with used := charge s.used [l] amt, glog := ⟨s.nextReq, l, s.chain l, amt, s.ticks⟩ :: s.glog,
             answered := (s.nextReq, .ok) :: s.answered, nextReq := s.nextReq + 1 }
  else doUseWait s l amt

/-- root of capacity 2 with two children of capacity 2; each child is asked for 2 in the first period -/
def overdrawn : S := useChargeOwn (useChargeOwn (run (init 2) [.newChild 0 2, .newChild 0 2]) 1 2) 2 2

/-! ### `capacity - used` for a capacity that was not clamped -/

/-- `pa := p.capacity - p.used` in machine ints, the capacity being any Go `int` -/
def leftGoZ (cap : Int) (used : Nat) : Int := wrap64 (cap - (used : Int))

/-! ### `amount == 0` answered first -/

/-- body of `Use` that answers `amount == 0` with nil before looking at `l.closed` -/
def useZeroFirst (s : S) (l amt : Nat) : S :=
  if amt = 0 then doUseZero s l
  else if s.closed l then answer s .errClosed
  else if amt > effCap s.cap (s.chain l) (s.cap l) then answer s .errCap
  else if fits s.cap s.used (s.chain l) amt then doUseGrant s l amt
  else doUseWait s l amt

/-! ### a cached effective cap refreshed one level deep; child `Close` that settles the account (round 7) -/

/-- a CACHED effective cap (`seeded/ind7-c16-a`: `cappedBy`), refreshed by `SetCap(l)` for `l` and its DIRECT children only -/
def refreshOneLevel (s : S) (cache : Nat → Nat) (l : Nat) : Nat → Nat :=
  fun x => if x = l ∨ (s.chain x).tail.head? = some l then effCap s.cap (s.chain x) (s.cap x) else cache x

/-- root 9 → child 8 → grandchild 7 -/
def depth3 : S := run (init 9) [.newChild 0 8, .newChild 1 7]
/-- … after `SetCap(3)` on the root -/
def depth3Set : S := exec depth3 (.setCap 0 3)

/-- child `Close` that "settles the account" (`seeded/ind7-c16-b`): what the child used is given back to its ancestors -/
def closeSettle (s : S) (l : Nat) : S :=
  { doCloseChild s l with used := fun x => if x ∈ s.chain l ∧ x ≠ l then s.used x - s.used l else s.used x }

end RL
