import Lemmas.RateLimiter
/-! Everything the limiter stores stays below the largest capacity it was ever given: with capacities that are Go
    `int`s no addition the code performs can wrap.  Core Lean. -/
namespace RL

/-- `math.MaxInt` on the 64-bit platforms the library is built for -/
def maxInt : Nat := 2 ^ 63 - 1

def Bounded (s : S) : Prop :=
  (∀ x, s.cap x ≤ s.capHi) ∧ (∀ x, s.used x ≤ s.capHi) ∧ (∀ x, s.last x ≤ s.capHi) ∧ (∀ r ∈ s.waiting, r.amt ≤ s.capHi)

theorem service_used_bound (cap : Nat → Nat) (chain : Nat → List Nat) (closed : Nat → Bool) (p M : Nat)
    (used : Nat → Nat) (w : List Req) (hc : ∀ x, cap x ≤ M) (h : ∀ x, used x ≤ M) :
    ∀ x, (service cap chain closed p used w).used x ≤ M := by
  induction w generalizing used with
  | nil => simpa [service] using h
  | cons r rs ih =>
    unfold service
    split
    · exact ih used h
    · split
      · exact ih used h
      · split
        · rename_i hf
          apply ih
          intro x
          unfold charge
          split
          · rename_i hx
            have := (fits_iff cap used _ _).mp hf.2 x hx
            exact Nat.le_trans this (hc x)
          · exact h x
        · exact ih used h

theorem bounded {c : Nat} {s : S} (h : Reachable c s) : Bounded s := by
  induction h with
  | init => exact ⟨fun _ => Nat.le_refl _, fun _ => Nat.zero_le _, fun _ => Nat.zero_le _, fun r hr => by simp [init] at hr⟩
  | step s s' _ st ih =>
    obtain ⟨hc, hu, hl, hw⟩ := ih
    cases st with
    | useGrant l amt hl' ha h0 h1 h2 h3 =>
      refine ⟨hc, ?_, hl, hw⟩
      intro x
      show charge s.used (s.chain l) amt x ≤ s.capHi
      unfold charge
      split
      · rename_i hx
        exact Nat.le_trans ((fits_iff _ _ _ _).mp h3 x hx) (hc x)
      · exact hu x
    | useWait l amt hl' ha h0 h1 h2 h3 =>
      refine ⟨hc, hu, hl, ?_⟩
      intro r hr
      have hr : r ∈ s.waiting ++ [(⟨l, amt, s.nextReq⟩ : Req)] := hr
      rcases List.mem_append.mp hr with h | h
      · exact hw r h
      · simp at h; subst h; exact Nat.le_trans (Nat.le_trans h2 (effCap_le_own _ _ _)) (hc l)
    | newChild p cp hp h0 h1 =>
      have hm : s.capHi ≤ max s.capHi cp := Nat.le_max_left _ _
      refine ⟨?_, ?_, ?_, fun r hr => Nat.le_trans (hw r hr) hm⟩
      · intro x
        show upd s.cap s.n cp x ≤ max s.capHi cp
        unfold upd; split
        · exact Nat.le_max_right _ _
        · exact Nat.le_trans (hc x) hm
      · intro x
        show upd s.used s.n 0 x ≤ max s.capHi cp
        unfold upd; split
        · exact Nat.zero_le _
        · exact Nat.le_trans (hu x) hm
      · intro x
        show upd s.last s.n 0 x ≤ max s.capHi cp
        unfold upd; split
        · exact Nat.zero_le _
        · exact Nat.le_trans (hl x) hm
    | setCap l cp hl' h0 =>
      have hm : s.capHi ≤ max s.capHi cp := Nat.le_max_left _ _
      refine ⟨?_, fun x => Nat.le_trans (hu x) hm, fun x => Nat.le_trans (hl x) hm, fun r hr => Nat.le_trans (hw r hr) hm⟩
      intro x
      show upd s.cap l cp x ≤ max s.capHi cp
      unfold upd; split
      · exact Nat.le_max_right _ _
      · exact Nat.le_trans (hc x) hm
    | tickRuns h1 h0 =>
      refine ⟨hc, ?_, ?_, ?_⟩
      · apply service_used_bound _ _ _ _ _ _ _ hc
        intro x
        split
        · exact Nat.zero_le _
        · exact hu x
      · intro x
        show (if resets s x then s.used x else s.last x) ≤ s.capHi
        split
        · exact hu x
        · exact hl x
      · intro r hr
        exact hw r ((service_waiting_sub _ _ _ _ _ _).subset hr)
    | drain h1 h0 => exact ⟨hc, hu, hl, fun r hr => by cases hr⟩
    | _ => exact ⟨hc, hu, hl, hw⟩

end RL
