import Lemmas.EvalTok
import Lemmas.EvalTotal
import Lemmas.EvalCall
/-! C09, lexing layer: the character-level scan loop `parseLoop` of `Model/Eval.lean`, run on the rendering of a token
    list in any blank layout, performs exactly the steps of the token machine of `Lemmas/EvalTok.lean`. Core only. -/
namespace Eval

/-! ### unfolding the scan loop -/
theorem parseLoop_nil (ops : List Op) (fns : List Bytes) (pre : Bytes) (st : St) (hv : Bool) (un : Option Op) :
    parseLoop ops fns pre [] st hv un = .ok st := by
  rw [parseLoop]

theorem parseLoop_space (ops : List Op) (fns : List Bytes) (pre : Bytes) (c : Nat) (t : Bytes) (st : St) (hv : Bool)
    (un : Option Op) (h : isScanSpace c = true) :
    parseLoop ops fns pre (c :: t) st hv un = parseLoop ops fns (c :: pre) t st hv un := by
  rw [parseLoop]; simp [h]

/-- what the loop does with the decision of one iteration -/
def contLoop (ops : List Op) (fns : List Bytes) (n : Nat) : Next → R St
  | .done r => r
  | .cont p r st hv un => if r.length < n then parseLoop ops fns p r st hv un else .panic

theorem parseLoop_step (ops : List Op) (fns : List Bytes) (pre : Bytes) (c : Nat) (t : Bytes) (st : St) (hv : Bool)
    (un : Option Op) (h : isScanSpace c = false) :
    parseLoop ops fns pre (c :: t) st hv un = contLoop ops fns (t.length + 1) (scanStep ops fns pre c t st hv un) := by
  rw [parseLoop]
  simp only [h, Bool.false_eq_true, if_false, List.length_cons]
  cases scanStep ops fns pre c t st hv un <;> rfl

def Blank (b : Bytes) : Prop := ∀ c ∈ b, isScanSpace c = true

theorem parseLoop_blanks (ops : List Op) (fns : List Bytes) (b : Bytes) (hb : Blank b) (pre r : Bytes) (st : St)
    (hv : Bool) (un : Option Op) :
    parseLoop ops fns pre (b ++ r) st hv un = parseLoop ops fns (b.reverse ++ pre) r st hv un := by
  induction b generalizing pre with
  | nil => simp
  | cons c b ih =>
    have hc : isScanSpace c = true := hb c (by simp)
    rw [List.cons_append, parseLoop_space _ _ _ _ _ _ _ _ hc, ih (fun x hx => hb x (by simp [hx]))]
    simp


/-! ### nextOperator on rendered text -/

/-- some operator symbol of the table starts with this byte -/
def startsOp (ops : List Op) (c : Nat) : Bool := ops.any (fun o => o.sym.head? == some c)

theorem firstMatch_none (ops : List Op) (hne : SymsNonempty ops) (pre : Bytes) (c : Nat) (t : Bytes)
    (h : startsOp ops c = false) : firstMatch ops pre (c :: t) = none := by
  unfold firstMatch
  rw [List.find?_eq_none]
  intro o ho hm
  have hp := matchAt_prefix o pre (c :: t) (by simpa using hm)
  have hs := hne o ho
  cases hsym : o.sym with
  | nil => exact hs hsym
  | cons a s =>
    rw [hsym] at hp
    simp [List.isPrefixOf] at hp
    have : startsOp ops c = true := by
      unfold startsOp
      rw [List.any_eq_true]
      exact ⟨o, ho, by simp [hsym, hp.1]⟩
    rw [h] at this; exact Bool.noConfusion this

theorem nextOperator_here (ops : List Op) (pre : Bytes) (c : Nat) (t : Bytes) (o : Op)
    (h : firstMatch ops pre (c :: t) = some o) : nextOperator ops pre (c :: t) = some ([], o, pre, c :: t) := by
  simp [nextOperator, h]

theorem nextOperator_skip (ops : List Op) (hne : SymsNonempty ops) (sk : Bytes)
    (hsk : ∀ c ∈ sk, startsOp ops c = false) (pre r : Bytes) :
    nextOperator ops pre (sk ++ r) =
      (match nextOperator ops (sk.reverse ++ pre) r with
       | some (s, o, p, q) => some (sk ++ s, o, p, q)
       | none => none) := by
  induction sk generalizing pre with
  | nil => simp; cases nextOperator ops pre r with
    | none => rfl
    | some x => obtain ⟨a, b, c, d⟩ := x; rfl
  | cons c sk ih =>
    have hc := hsk c (by simp)
    simp only [List.cons_append, nextOperator, firstMatch_none ops hne pre c (sk ++ r) hc]
    rw [ih (fun x hx => hsk x (by simp [hx]))]
    simp only [List.reverse_cons, List.append_assoc, List.singleton_append]
    cases nextOperator ops (sk.reverse ++ c :: pre) r with
    | none => rfl
    | some x => obtain ⟨a, b, c, d⟩ := x; rfl

theorem advance_sym (s pre rest : Bytes) : advance s.length pre (s ++ rest) = (s.reverse ++ pre, rest) := by
  induction s generalizing pre with
  | nil => simp [advance]
  | cons c s ih => simp [advance, ih]

/-! ### strings.TrimSpace on an atom followed by blanks -/

theorem scanSpace_ascii (c : Nat) (h : isScanSpace c = true) : isAsciiSpace c = true := by
  simp [isScanSpace] at h
  rcases h with ((h | h) | h) | h <;> subst h <;> decide

theorem trimWith_zero (f : Bytes → Nat) (n : Nat) (s : Bytes) (h : f s = 0) : trimWith f n s = s := by
  cases n <;> simp [trimWith, h]

theorem leadSpace_atom (c : Nat) (t : Bytes) (h1 : 32 < c) (h2 : c < 128) : leadSpace (c :: t) = 0 := by
  have : isAsciiSpace c = false := by simp [isAsciiSpace]; omega
  simp [leadSpace, this, h2]

theorem trailSpace_atom (c : Nat) (t : Bytes) (h1 : 32 < c) (h2 : c < 128) : trailSpace (c :: t) = 0 := by
  have : isAsciiSpace c = false := by simp [isAsciiSpace]; omega
  simp [trailSpace, this, h2]

theorem trimWith_trail (b y : Bytes) (hb : Blank b) (hy : trailSpace y = 0) (n : Nat) (hn : b.length < n) :
    trimWith trailSpace n (b ++ y) = y := by
  induction b generalizing n with
  | nil => simpa using trimWith_zero trailSpace n y hy
  | cons c b ih =>
    cases n with
    | zero => simp at hn
    | succ n =>
      have hc : isAsciiSpace c = true := scanSpace_ascii c (hb c (by simp))
      have h1 : trailSpace (c :: (b ++ y)) = 1 := by simp [trailSpace, hc]
      simp only [List.cons_append, trimWith, h1]
      simp only [Nat.succ_ne_zero, if_false, List.drop_succ_cons, List.drop_zero]
      exact ih (fun x hx => hb x (by simp [hx])) n (by simp at hn; omega)

theorem trimSpace_atom (x b : Bytes) (hx : x ≠ []) (hxc : ∀ c ∈ x, 32 < c ∧ c < 128) (hb : Blank b) :
    trimSpace (x ++ b) = x := by
  have hl : trimLeft (x ++ b) = x ++ b := by
    unfold trimLeft
    cases x with
    | nil => exact absurd rfl hx
    | cons a x' =>
      have := hxc a (by simp)
      exact trimWith_zero _ _ _ (leadSpace_atom a _ this.1 this.2)
  unfold trimSpace
  rw [hl]
  unfold trimRight
  have hrev : (x ++ b).reverse = b.reverse ++ x.reverse := by simp
  rw [hrev]
  have hy : trailSpace x.reverse = 0 := by
    cases hxr : x.reverse with
    | nil => simp at hxr; exact absurd hxr hx
    | cons a y =>
      have ha : a ∈ x := by
        have : a ∈ x.reverse := by rw [hxr]; simp
        simpa using this
      have := hxc a ha
      exact trailSpace_atom a y this.1 this.2
  rw [trimWith_trail b.reverse x.reverse (fun c hc => hb c (by simpa using hc)) hy _ (by have := List.length_pos_iff.mpr hx; simp; omega)]
  simp


/-! ### one iteration of the scan loop = one step of the token machine -/

/-- at an operator symbol the iteration does what `stepTok` does and moves behind the symbol -/
theorem operatorPhase_tok (ops : List Op) (fns : List Bytes) (pre rest : Bytes) (o : Op) (m m2 : MSt)
    (h : stepTok m (.sym o) = .ok m2) :
    operatorPhase ops fns pre (o.sym ++ rest) o m.st m.hv m.un = .cont (o.sym.reverse ++ pre) rest m2.st m2.hv m2.un := by
  unfold stepTok at h
  unfold operatorPhase
  by_cases h1 : (o.un && !m.hv) = true
  · simp only [h1, if_true] at h ⊢
    cases hu : m.un with
    | some u => simp [hu] at h
    | none =>
      simp only [hu] at h
      injection h with h; subst h
      simp [advance_sym]
  · simp only [h1, if_false] at h ⊢
    by_cases h2 : (m.hv && o.sym == LP) = true
    · simp [h2] at h
    · simp only [h2, if_false] at h
      unfold processOperator
      simp only [h2, if_false]
      have hso : (if (o.sym == LP) = true then R.ok (pushEntry m.st o m.un)
                  else if (o.sym == RP) = true then closeParen m.st else pushBinary m.st o m.un) =
                 stackOp m.st o m.un := rfl
      rw [hso]
      cases hs : stackOp m.st o m.un with
      | ok st' =>
        rw [hs] at h
        injection h with h; subst h
        simp [advance_sym]
      | err => simp [hs] at h
      | panic => simp [hs] at h

/-- side conditions on the operator table used by the lexing lemmas -/
structure TableOK (ops : List Op) : Prop where
  ne : SymsNonempty ops
  blank : ∀ c, isScanSpace c = true → startsOp ops c = false
  /-- the only operator symbol starting with `-` is `-` itself (the one the exponent hack of `Operator.match` hides) -/
  minus : ∀ o ∈ ops, o.sym.head? = some 45 → o.sym = MINUS
  /-- … and the only one starting with `+` is `+` -/
  plus : ∀ o ∈ ops, o.sym.head? = some 43 → o.sym = PLUS

/-- every byte of the operand starts no operator symbol, or it is the `-` of an exponent (`1.2e-2`: preceded, inside
    the operand, by a digit and `e`); `pre` = the bytes of the operand before the position, reversed -/
def atomScan (ops : List Op) : Bytes → Bytes → Bool
  | _, [] => true
  | pre, c :: t => (!startsOp ops c || ((c == 45 || c == 43) && expHack pre)) && atomScan ops (c :: pre) t

/-- bytes an operand may consist of: printable ASCII that starts no operator symbol (except the `-` of an exponent),
    not ending in the digit·`e` of an unfinished exponent literal (`2e`, `1.5e` — a following `-` would be taken for
    its sign; names such as `$e`, `$rate`, `$a1e` are fine) -/
def AtomOK (ops : List Op) (x : Bytes) : Prop :=
  x ≠ [] ∧ (∀ c ∈ x, 32 < c ∧ c < 128) ∧ atomScan ops [] x = true ∧ expHack x.reverse = false

theorem atomScan_plain (ops : List Op) (x : Bytes) (h : ∀ c ∈ x, startsOp ops c = false) (pre : Bytes) :
    atomScan ops pre x = true := by
  induction x generalizing pre with
  | nil => rfl
  | cons c t ih => simp [atomScan, h c (by simp), ih (fun y hy => h y (by simp [hy]))]

/-- an operand without exponent sign: no byte starts an operator symbol -/
theorem atomOK_plain (ops : List Op) (x : Bytes) (h1 : x ≠ []) (h2 : ∀ c ∈ x, 32 < c ∧ c < 128 ∧ startsOp ops c = false)
    (h3 : expHack x.reverse = false) : AtomOK ops x :=
  ⟨h1, fun c hc => ⟨(h2 c hc).1, (h2 c hc).2.1⟩, atomScan_plain ops x (fun c hc => (h2 c hc).2.2) [], h3⟩

theorem atomScan_mem (ops : List Op) (x pre : Bytes) (h : atomScan ops pre x = true) :
    ∀ c ∈ x, startsOp ops c = false ∨ (c = 45 ∨ c = 43) := by
  induction x generalizing pre with
  | nil => simp
  | cons c t ih =>
    simp only [atomScan, Bool.and_eq_true, Bool.or_eq_true, Bool.not_eq_true', beq_iff_eq] at h
    intro y hy
    rcases List.mem_cons.mp hy with e | e
    · subst e
      rcases h.1 with h1 | h1
      · exact Or.inl h1
      · exact Or.inr h1.1
    · exact ih _ h.2 y e

theorem atomScan_head (ops : List Op) (c : Nat) (t : Bytes) (h : atomScan ops [] (c :: t) = true) :
    startsOp ops c = false := by
  simp only [atomScan, expHack, Bool.and_false, Bool.or_false, Bool.and_eq_true, Bool.not_eq_true'] at h
  exact h.1

/-- where a backward walk over a numeric literal may end: at the start of the expression or at a byte that is neither
    a digit, a decimal point nor part of a name (a blank, the last byte of an operator symbol, a parenthesis) -/
def stopByte (c : Nat) : Bool := !(isDigit c || c == 46) && !isNameByte c
def StopPre (pre : Bytes) : Prop := ∀ c, pre.head? = some c → stopByte c = true

theorem stopPre_nil : StopPre [] := by intro c h; simp at h

theorem endsNumeric_append (p q : Bytes) (h : endsNumeric p = true) (hq : StopPre q) : endsNumeric (p ++ q) = true := by
  induction p with
  | nil =>
    cases q with
    | nil => rfl
    | cons c t =>
      have := hq c rfl
      simp only [stopByte, Bool.and_eq_true, Bool.not_eq_true'] at this
      simp [endsNumeric, this.1, this.2]
  | cons ch t ih =>
    simp only [List.cons_append, endsNumeric] at h ⊢
    split
    · rename_i hd; simp only [hd, if_true] at h; exact ih h
    · rename_i hd; simpa [hd] using h

theorem endsNumeric_append_false (p q : Bytes) (h : endsNumeric p = false) : endsNumeric (p ++ q) = false := by
  induction p with
  | nil => simp [endsNumeric] at h
  | cons ch t ih =>
    simp only [List.cons_append, endsNumeric] at h ⊢
    split
    · rename_i hd; simp only [hd, if_true] at h; exact ih h
    · rename_i hd; simpa [hd] using h

theorem expHack_cons2 (c d : Nat) (t : Bytes) :
    expHack (c :: d :: t) = ((c == 101 || c == 69) && isDigit d && endsNumeric (d :: t)) := rfl

theorem expHack_append (p q : Bytes) (h : expHack p = true) (hq : StopPre q) : expHack (p ++ q) = true := by
  match p, h with
  | c :: d :: r, h =>
    rw [expHack_cons2] at h
    simp only [Bool.and_eq_true] at h
    have := endsNumeric_append (d :: r) q h.2 hq
    simp only [List.cons_append] at this ⊢
    rw [expHack_cons2]
    simp [h.1.1, h.1.2, this]
  | [c], h => simp [expHack] at h
  | [], h => simp [expHack] at h

/-- an operand that does not end in an unfinished exponent keeps a following sign an operator, whatever precedes it -/
theorem expHack_append_false (p q : Bytes) (h : expHack p = false) (hp : p ≠ []) (hq : StopPre q) :
    expHack (p ++ q) = false := by
  match p, h, hp with
  | [c], _, _ =>
    cases q with
    | nil => simp [expHack]
    | cons d t =>
      have := hq d rfl
      simp only [stopByte, Bool.and_eq_true, Bool.not_eq_true', Bool.or_eq_false_iff] at this
      simp only [List.cons_append, List.nil_append]
      rw [expHack_cons2]
      simp [this.1.1]
  | c :: d :: r, h, _ =>
    rw [expHack_cons2] at h
    simp only [List.cons_append]
    rw [expHack_cons2]
    cases hcd : ((c == 101 || c == 69) && isDigit d) with
    | false => simp [hcd]
    | true =>
      simp only [hcd, Bool.true_and] at h
      have := endsNumeric_append_false (d :: r) q h
      simp only [List.cons_append] at this
      simp [hcd, this]

theorem stopPre_hack (pre : Bytes) (h : StopPre pre) : expHack pre = false := by
  match pre, h with
  | [], _ => rfl
  | [c], _ => rfl
  | c :: d :: t, h =>
    rw [expHack_cons2]
    have := h c rfl
    simp only [stopByte, Bool.and_eq_true, Bool.not_eq_true'] at this
    have hc : (c == 101 || c == 69) = false := by
      cases h1 : (c == 101 || c == 69) with
      | false => rfl
      | true =>
        simp only [Bool.or_eq_true, beq_iff_eq] at h1
        rcases h1 with h1 | h1 <;> subst h1 <;> simp [isNameByte] at this
    simp [hc]

theorem stopPre_blank (b p : Bytes) (hb : Blank b) (hp : StopPre p) : StopPre (b.reverse ++ p) := by
  cases hr : b.reverse with
  | nil => simpa using hp
  | cons c t =>
    intro d hd
    simp only [List.cons_append, List.head?_cons, Option.some.injEq] at hd
    subst hd
    have hc : c ∈ b := by
      have : c ∈ b.reverse := by rw [hr]; simp
      simpa using this
    have := hb c hc
    simp only [isScanSpace, Bool.or_eq_true, beq_iff_eq] at this
    rcases this with ((h | h) | h) | h <;> subst h <;> decide

theorem hack_blank (b p : Bytes) (hb : Blank b) (hp : expHack p = false) : expHack (b.reverse ++ p) = false := by
  cases hr : b.reverse with
  | nil => simpa using hp
  | cons c t =>
    have hc : c ∈ b := by
      have : c ∈ b.reverse := by rw [hr]; simp
      simpa using this
    have hsp := hb c hc
    have hce : (c == 101 || c == 69) = false := by
      simp only [isScanSpace, Bool.or_eq_true, beq_iff_eq] at hsp
      rcases hsp with ((h | h) | h) | h <;> subst h <;> decide
    cases htp : t ++ p with
    | nil => simp only [List.cons_append, htp]; rfl
    | cons d u =>
      simp only [List.cons_append, htp]
      rw [expHack_cons2]
      simp [hce]

/-- the exponent hack: after a digit and `e` no operator matches at a `-` -/
theorem firstMatch_none_hack (ops : List Op) (hne : SymsNonempty ops)
    (hM : ∀ o ∈ ops, o.sym.head? = some 45 → o.sym = MINUS) (hP : ∀ o ∈ ops, o.sym.head? = some 43 → o.sym = PLUS)
    (pre : Bytes) (c : Nat) (hc : c = 45 ∨ c = 43) (t : Bytes) (h : expHack pre = true) :
    firstMatch ops pre (c :: t) = none := by
  unfold firstMatch
  rw [List.find?_eq_none]
  intro o ho hm
  have hm' : o.matchAt pre (c :: t) = true := by simpa using hm
  have hp := matchAt_prefix o pre (c :: t) hm'
  have hs := hne o ho
  cases hsym : o.sym with
  | nil => exact hs hsym
  | cons a s =>
    rw [hsym] at hp
    simp [List.isPrefixOf] at hp
    unfold Op.matchAt at hm'
    rcases hc with hc | hc
    · have h45 : o.sym = MINUS := hM o ho (by simp [hsym, hp.1, hc])
      simp [h45, h] at hm'
    · have h43 : o.sym = PLUS := hP o ho (by simp [hsym, hp.1, hc])
      simp [h43, h] at hm'

/-- `nextOperator` passes over the bytes of an operand -/
theorem nextOperator_skip_atom (ops : List Op) (hne : SymsNonempty ops)
    (hM : ∀ o ∈ ops, o.sym.head? = some 45 → o.sym = MINUS) (hP : ∀ o ∈ ops, o.sym.head? = some 43 → o.sym = PLUS)
    (x a : Bytes) (hx : atomScan ops a x = true) (pre r : Bytes) (hstop : StopPre pre) :
    nextOperator ops (a ++ pre) (x ++ r) =
      (match nextOperator ops (x.reverse ++ (a ++ pre)) r with
       | some (s, o, p, q) => some (x ++ s, o, p, q)
       | none => none) := by
  induction x generalizing a with
  | nil => simp; cases nextOperator ops (a ++ pre) r with
    | none => rfl
    | some y => obtain ⟨a1, b1, c1, d1⟩ := y; rfl
  | cons c t ih =>
    simp only [atomScan, Bool.and_eq_true, Bool.or_eq_true, Bool.not_eq_true', beq_iff_eq] at hx
    have hfm : firstMatch ops (a ++ pre) (c :: (t ++ r)) = none := by
      rcases hx.1 with h1 | h1
      · exact firstMatch_none ops hne _ c _ h1
      · exact firstMatch_none_hack ops hne hM hP _ c h1.1 _ (expHack_append a pre h1.2 hstop)
    simp only [List.cons_append, nextOperator, hfm]
    have := ih (c :: a) hx.2
    simp only [List.cons_append] at this
    rw [this]
    simp only [List.reverse_cons, List.append_assoc, List.singleton_append]
    cases nextOperator ops (t.reverse ++ c :: (a ++ pre)) r with
    | none => rfl
    | some y => obtain ⟨a1, b1, c1, d1⟩ := y; rfl

/-- the byte before the position is not `e` (so the exponent hack cannot apply) -/
def NoE (pre : Bytes) : Prop := pre.head? ≠ some 101 ∧ pre.head? ≠ some 69

theorem noE_hack (pre : Bytes) (h : NoE pre) : expHack pre = false := by
  match pre, h with
  | [], _ => rfl
  | [c], _ => rfl
  | c :: d :: t, h =>
    rw [expHack_cons2]
    have h1 : c ≠ 101 := fun e => h.1 (by simp [e])
    have h2 : c ≠ 69 := fun e => h.2 (by simp [e])
    simp [h1, h2]

theorem blank_last (b : Bytes) (hb : Blank b) : b.getLast? ≠ some 101 := by
  intro h
  have : (101 : Nat) ∈ b := List.mem_of_getLast? h
  have := hb 101 this
  simp [isScanSpace] at this

theorem atom_not_space (c : Nat) (h : 32 < c) : isScanSpace c = false := by
  simp [isScanSpace]; omega

/-- loop head, blanks, then an operator symbol -/
theorem loop_sym (ops : List Op) (fns : List Bytes) (hT : TableOK ops) (b : Bytes) (hb : Blank b) (pre rest : Bytes)
    (o : Op) (ho : o ∈ ops) (m m2 : MSt)
    (hfm : firstMatch ops (b.reverse ++ pre) (o.sym ++ rest) = some o) (h : stepTok m (.sym o) = .ok m2) :
    parseLoop ops fns pre (b ++ (o.sym ++ rest)) m.st m.hv m.un =
      parseLoop ops fns (o.sym.reverse ++ (b.reverse ++ pre)) rest m2.st m2.hv m2.un := by
  rw [parseLoop_blanks ops fns b hb]
  cases hsym : o.sym with
  | nil => exact absurd hsym (hT.ne o ho)
  | cons c s =>
    have hc : isScanSpace c = false := by
      cases hsc : isScanSpace c with
      | false => rfl
      | true =>
        have := hT.blank c hsc
        unfold startsOp at this
        rw [List.any_eq_false] at this
        have := this o ho
        simp [hsym] at this
    rw [hsym] at hfm
    rw [List.cons_append, parseLoop_step _ _ _ _ _ _ _ _ hc]
    unfold scanStep
    rw [nextOperator_here ops _ c (s ++ rest) o hfm]
    simp only [if_true]
    have := operatorPhase_tok ops fns (b.reverse ++ pre) rest o m m2 h
    rw [hsym] at this
    rw [List.cons_append] at this
    rw [this]
    simp [contLoop]
    omega

/-- the operand part of an iteration: from the start of an atom to the next operator symbol -/
theorem scan_atom (ops : List Op) (hT : TableOK ops) (x b2 : Bytes) (hx : AtomOK ops x) (hb2 : Blank b2)
    (pre r : Bytes) (hstop : StopPre pre) :
    nextOperator ops pre (x ++ (b2 ++ r)) =
      (match nextOperator ops (b2.reverse ++ (x.reverse ++ pre)) r with
       | some (s, o, p, q) => some (x ++ (b2 ++ s), o, p, q)
       | none => none) := by
  have := nextOperator_skip_atom ops hT.ne hT.minus hT.plus x [] hx.2.2.1 pre (b2 ++ r) hstop
  simp only [List.nil_append] at this
  rw [this, nextOperator_skip ops hT.ne b2 (fun c hc => hT.blank c (hb2 c hc))]
  cases nextOperator ops (b2.reverse ++ (x.reverse ++ pre)) r with
  | none => rfl
  | some q => obtain ⟨a, b, c, d⟩ := q; rfl

/-- loop head, blanks, an atom, blanks, end of input -/
theorem loop_opd_end (ops : List Op) (fns : List Bytes) (hT : TableOK ops) (b x b2 : Bytes) (hb : Blank b)
    (hx : AtomOK ops x) (hb2 : Blank b2) (pre : Bytes) (hstop : StopPre pre) (st : St) (hv : Bool) (un : Option Op) :
    parseLoop ops fns pre (b ++ (x ++ b2)) st hv un = .ok (pushOperand st un x) := by
  rw [parseLoop_blanks ops fns b hb]
  have hxc : ∀ c ∈ x, 32 < c ∧ c < 128 := hx.2.1
  have htrim := trimSpace_atom x b2 hx.1 hxc hb2
  have hno : nextOperator ops (b.reverse ++ pre) (x ++ b2) = none := by
    have := scan_atom ops hT x b2 hx hb2 (b.reverse ++ pre) [] (stopPre_blank b pre hb hstop)
    simp only [List.append_nil] at this
    rw [this]; simp [nextOperator]
  cases hxe : x with
  | nil => exact absurd hxe hx.1
  | cons c t =>
    have hc : isScanSpace c = false := atom_not_space c (hxc c (by simp [hxe])).1
    rw [hxe] at hno htrim
    rw [List.cons_append, parseLoop_step _ _ _ _ _ _ _ _ hc]
    unfold scanStep
    rw [← List.cons_append, hno]
    simp only [htrim, contLoop, List.cons_ne_nil, if_false]

/-- loop head, blanks, an atom, blanks, an operator symbol -/
theorem loop_opd_sym (ops : List Op) (fns : List Bytes) (hT : TableOK ops) (b x b2 : Bytes) (hb : Blank b)
    (hx : AtomOK ops x) (hb2 : Blank b2) (pre rest : Bytes) (hstop : StopPre pre) (o : Op) (ho : o ∈ ops) (st : St)
    (hv : Bool) (un : Option Op) (m2 : MSt)
    (hfm : firstMatch ops (b2.reverse ++ (x.reverse ++ (b.reverse ++ pre))) (o.sym ++ rest) = some o)
    (h : stepTok ⟨pushOperand st un x, true, none⟩ (.sym o) = .ok m2) :
    parseLoop ops fns pre (b ++ (x ++ (b2 ++ (o.sym ++ rest)))) st hv un =
      parseLoop ops fns (o.sym.reverse ++ (b2.reverse ++ (x.reverse ++ (b.reverse ++ pre)))) rest m2.st m2.hv m2.un := by
  rw [parseLoop_blanks ops fns b hb]
  have hxc : ∀ c ∈ x, 32 < c ∧ c < 128 := hx.2.1
  have htrim := trimSpace_atom x b2 hx.1 hxc hb2
  have hsne : o.sym ≠ [] := hT.ne o ho
  have hnx : nextOperator ops (b.reverse ++ pre) (x ++ (b2 ++ (o.sym ++ rest))) =
      some (x ++ (b2 ++ []), o, b2.reverse ++ (x.reverse ++ (b.reverse ++ pre)), o.sym ++ rest) := by
    rw [scan_atom ops hT x b2 hx hb2 (b.reverse ++ pre) (o.sym ++ rest) (stopPre_blank b pre hb hstop)]
    cases hsym : o.sym with
    | nil => exact absurd hsym hsne
    | cons c s =>
      rw [hsym] at hfm
      rw [List.cons_append, nextOperator_here ops _ c (s ++ rest) o hfm]
  cases hxe : x with
  | nil => exact absurd hxe hx.1
  | cons c t =>
    have hc : isScanSpace c = false := atom_not_space c (hxc c (by simp [hxe])).1
    rw [hxe] at hnx htrim h hfm
    rw [List.cons_append, parseLoop_step _ _ _ _ _ _ _ _ hc]
    unfold scanStep
    rw [← List.cons_append, hnx]
    have := operatorPhase_tok ops fns (b2.reverse ++ ((c :: t).reverse ++ (b.reverse ++ pre))) rest o
      ⟨pushOperand st un (c :: t), true, none⟩ m2 h
    simp only [List.append_nil, htrim] at this ⊢
    simp only [List.cons_append, List.cons_ne_nil, if_false, reduceCtorEq] at this ⊢
    rw [this]
    simp only [contLoop]
    have hlen : rest.length < (t ++ (b2 ++ (o.sym ++ rest))).length + 1 := by simp; omega
    rw [if_pos hlen]

/-- loop head, blanks, a function name, blanks, `(`, a balanced argument text, `)`: the call is captured, the loop
    continues behind the closing parenthesis with an operand pending -/
theorem loop_call (ops : List Op) (fns : List Bytes) (hT : TableOK ops) (lp rp : Op) (hP : ParenTable ops lp rp)
    (b0 f b args : Bytes) (hb0 : Blank b0) (hf : AtomOK ops f) (hfn : f ∈ fns) (hb : Blank b) (ha : Bal args)
    (pre rest : Bytes) (hstop : StopPre pre) (st : St) (hv : Bool) (un : Option Op) :
    parseLoop ops fns pre (b0 ++ (f ++ (b ++ (40 :: (args ++ 41 :: rest))))) st hv un =
      parseLoop ops fns (41 :: (args.reverse ++ 40 :: (b.reverse ++ (f.reverse ++ (b0.reverse ++ pre))))) rest
        (pushCall st un f args) true none := by
  rw [parseLoop_blanks ops fns b0 hb0]
  have hxc : ∀ c ∈ f, 32 < c ∧ c < 128 := hf.2.1
  have htrim := trimSpace_atom f b hf.1 hxc hb
  have hnx : nextOperator ops (b0.reverse ++ pre) (f ++ (b ++ (40 :: (args ++ 41 :: rest)))) =
      some (f ++ (b ++ []), lp, b.reverse ++ (f.reverse ++ (b0.reverse ++ pre)), 40 :: (args ++ 41 :: rest)) := by
    rw [scan_atom ops hT f b hf hb (b0.reverse ++ pre) (40 :: (args ++ 41 :: rest)) (stopPre_blank b0 pre hb0 hstop),
      nextOperator_here ops _ 40 _ lp (hP.lp40 _ _)]
  have hcap : captureArgs ops ((args ++ 41 :: rest).length + 1) 1
      (40 :: (b.reverse ++ (f.reverse ++ (b0.reverse ++ pre)))) (args ++ 41 :: rest) [] =
      .ok (args, rp, args.reverse ++ 40 :: (b.reverse ++ (f.reverse ++ (b0.reverse ++ pre))), 41 :: rest) := by
    rw [captureArgs_parenSplit ops hT.ne lp rp hP _ 1 _ _ _ (Nat.le_refl 1) (Nat.lt_succ_self _), bal_close args ha rest]
    simp
  have hcall : callFunction fns (pushOperand st un f) args = .ok (pushCall st un f args) := by
    simp [callFunction, pushOperand, pushCall, hfn]
  cases hfe : f with
  | nil => exact absurd hfe hf.1
  | cons c t =>
    have hc : isScanSpace c = false := atom_not_space c (hxc c (by simp [hfe])).1
    rw [hfe] at hnx htrim hcap hcall
    rw [List.cons_append, parseLoop_step _ _ _ _ _ _ _ _ hc]
    unfold scanStep
    rw [← List.cons_append (a := c) (as := t), hnx]
    have hl1 : (lp.sym == LP) = true := by rw [hP.lpS]; decide
    have hr1 : (rp.sym == RP) = true := by rw [hP.rpS]; decide
    have hrl : rp.sym.length = 1 := by rw [hP.rpS]; rfl
    simp only [List.append_nil, htrim, List.append_eq_nil_iff, reduceCtorEq, false_and, if_false, operatorPhase,
      hP.lpU, Bool.false_and, Bool.false_eq_true, processOperator, hl1, Bool.and_self, if_true, hcap, hcall, hrl,
      advance, hr1, contLoop]
    have hlen : rest.length < (t ++ (b ++ 40 :: (args ++ 41 :: rest))).length + 1 := by simp; omega
    rw [if_pos hlen]


/-! ### rendering a token list in a blank layout, and the bridge -/

def Tok.bytes : Tok → Bytes
  | .opd x => x
  | .sym o => o.sym
  | .call f b args => f ++ (b ++ 40 :: (args ++ [41]))

/-- `ws k` is the run of blanks before token number `k` (after the last token for `k` = number of tokens) -/
def render (ws : Nat → Bytes) : Nat → List Tok → Bytes
  | k, [] => ws k
  | k, t :: ts => ws k ++ (t.bytes ++ render ws (k + 1) ts)

/-- side conditions on the operator table for the symbol lookup: at the first byte of a symbol the table order finds
    that operator unless the next byte is `=` (`!`/`!=`, `<`/`<=`, `>`/`>=`; a closing parenthesis is never
    ambiguous); `=` starts a symbol (so it is not an atom byte); no unary operator starts with `=`; every symbol ends
    in a byte that is neither a digit, a decimal point nor part of a name -/
structure LexTable (ops : List Op) : Prop extends TableOK ops where
  fm : ∀ o ∈ ops, ∀ pre rest, expHack pre = false → (o.sym = RP ∨ rest.head? ≠ some 61) →
    firstMatch ops pre (o.sym ++ rest) = some o
  eq61 : startsOp ops 61 = true
  un61 : ∀ u ∈ ops, u.un = true → u.sym.head? ≠ some 61
  lastStop : ∀ o ∈ ops, ∀ c, o.sym.getLast? = some c → stopByte c = true

/-- the next token does not start with `=` -/
def NextNot61 : List Tok → Prop
  | [] => True
  | t :: _ => t.bytes ≠ [] ∧ t.bytes.head? ≠ some 61

/-- what the lexing layer needs of a token list: operands are atoms and are followed by an operator symbol or the
    end; an operator symbol other than `)` is not followed by a token starting with `=` -/
def LexOK (ops : List Op) (fns : List Bytes) : List Tok → Prop
  | [] => True
  | .opd x :: ts => AtomOK ops x ∧ (ts = [] ∨ ∃ o ts', ts = .sym o :: ts') ∧ LexOK ops fns ts
  | .sym o :: ts => o ∈ ops ∧ (o.sym = RP ∨ NextNot61 ts) ∧ LexOK ops fns ts
  | .call f b args :: ts => AtomOK ops f ∧ f ∈ fns ∧ Blank b ∧ Bal args ∧ LexOK ops fns ts

theorem blank_not61 (b s : Bytes) (hb : Blank b) (hs : s.head? ≠ some 61) : (b ++ s).head? ≠ some 61 := by
  cases b with
  | nil => simpa using hs
  | cons c t =>
    have := hb c (by simp)
    simp only [List.cons_append, List.head?_cons, ne_eq, Option.some.injEq]
    intro h; subst h; simp [isScanSpace] at this

theorem render_not61 (ws : Nat → Bytes) (hws : ∀ k, Blank (ws k)) (k : Nat) (ts : List Tok) (h : NextNot61 ts) :
    (render ws k ts).head? ≠ some 61 := by
  cases ts with
  | nil =>
    have := blank_not61 (ws k) [] (hws k) (by simp)
    simpa [render] using this
  | cons t ts =>
    simp only [render]
    apply blank_not61 _ _ (hws k)
    obtain ⟨h1, h2⟩ := h
    cases hb : t.bytes with
    | nil => exact absurd hb h1
    | cons c r => rw [hb] at h2; simpa using h2

theorem runToks_cons_ok (m m' : MSt) (t : Tok) (ts : List Tok) (h : runToks m (t :: ts) = .ok m') :
    ∃ m1, stepTok m t = .ok m1 ∧ runToks m1 ts = .ok m' := by
  simp only [runToks] at h
  cases hs : stepTok m t with
  | ok m1 => rw [hs] at h; exact ⟨m1, rfl, h⟩
  | err => simp [hs] at h
  | panic => simp [hs] at h

/-- the next token is scanned as an operand (an atom or the name of a call) -/
def NeedStop : List Tok → Prop
  | .opd _ :: _ => True
  | .call _ _ _ :: _ => True
  | _ => False

theorem stopPre_sym (ops : List Op) (hL : LexTable ops) (o : Op) (ho : o ∈ ops) (p : Bytes) :
    StopPre (o.sym.reverse ++ p) := by
  have hne := hL.ne o ho
  cases hr : o.sym.reverse with
  | nil => simp at hr; exact absurd hr hne
  | cons c t =>
    intro d hd
    simp only [List.cons_append, List.head?_cons, Option.some.injEq] at hd
    subst hd
    apply hL.lastStop o ho
    have : o.sym.reverse.head? = some c := by rw [hr]; rfl
    rwa [List.head?_reverse] at this

/-- **the bridge**: if the token machine accepts a lexable token list, the character-level scan loop run on any blank
    layout of it ends with the same stacks -/
theorem parseLoop_render (ops : List Op) (fns : List Bytes) (hL : LexTable ops) (lp rp : Op)
    (hP : ParenTable ops lp rp) (ws : Nat → Bytes) (hws : ∀ k, Blank (ws k)) :
    ∀ (ts : List Tok) (k : Nat) (m m' : MSt) (pre : Bytes), expHack pre = false → (NeedStop ts → StopPre pre) →
      LexOK ops fns ts → runToks m ts = .ok m' →
      parseLoop ops fns pre (render ws k ts) m.st m.hv m.un = .ok m'.st := by
  intro ts
  have hT : TableOK ops := hL.toTableOK
  induction ts with
  | nil =>
    intro k m m' pre _ _ _ hrun
    simp only [runToks] at hrun
    injection hrun with hrun; subst hrun
    have := parseLoop_blanks ops fns (ws k) (hws k) pre [] m.st m.hv m.un
    simp only [List.append_nil] at this
    simp only [render, this, parseLoop_nil]
  | cons t ts ih =>
    intro k m m' pre hpre hstop hlex hrun
    obtain ⟨m1, hstep, hrest⟩ := runToks_cons_ok m m' t ts hrun
    cases t with
    | sym o =>
      obtain ⟨ho, hnb, hlex'⟩ := hlex
      have hfm : ∀ pre, expHack pre = false → firstMatch ops pre (o.sym ++ render ws (k + 1) ts) = some o := fun p hp =>
        hL.fm o ho p _ hp (hnb.elim Or.inl (fun h => Or.inr (render_not61 ws hws _ _ h)))
      have hpre1 : expHack ((ws k).reverse ++ pre) = false := hack_blank _ _ (hws k) hpre
      simp only [render, Tok.bytes]
      rw [loop_sym ops fns hT (ws k) (hws k) pre _ o ho m m1 (hfm _ hpre1) hstep]
      have hs := stopPre_sym ops hL o ho ((ws k).reverse ++ pre)
      exact ih (k + 1) m1 m' _ (stopPre_hack _ hs) (fun _ => hs) hlex' hrest
    | call f b args =>
      obtain ⟨hf, hfn, hb, ha, hlex'⟩ := hlex
      have hm1 : m1 = ⟨pushCall m.st m.un f args, true, none⟩ := by
        simp only [stepTok] at hstep; injection hstep with hstep; exact hstep.symm
      subst hm1
      have e : ws k ++ ((Tok.call f b args).bytes ++ render ws (k + 1) ts) =
          ws k ++ (f ++ (b ++ (40 :: (args ++ 41 :: render ws (k + 1) ts)))) := by
        simp [Tok.bytes, List.append_assoc]
      simp only [render]
      rw [e, loop_call ops fns hT lp rp hP (ws k) f b args (hws k) hf hfn hb ha _ _ (hstop trivial)]
      have hs : StopPre (41 :: (args.reverse ++ 40 :: (b.reverse ++ (f.reverse ++ ((ws k).reverse ++ pre))))) := by
        intro c hc; simp at hc; subst hc; decide
      exact ih (k + 1) _ m' _ (stopPre_hack _ hs) (fun _ => hs) hlex' hrest
    | opd x =>
      obtain ⟨hx, hnext, hlex'⟩ := hlex
      have hsp : StopPre pre := hstop trivial
      have hm1 : m1 = ⟨pushOperand m.st m.un x, true, none⟩ := by
        simp only [stepTok] at hstep; injection hstep with hstep; exact hstep.symm
      rcases hnext with hnil | ⟨o, ts', hts⟩
      · subst hnil
        simp only [runToks] at hrest
        injection hrest with hrest; subst hrest
        simp only [render, Tok.bytes]
        rw [loop_opd_end ops fns hT (ws k) x (ws (k + 1)) (hws k) hx (hws (k + 1)) pre hsp]
        rw [hm1]
      · subst hts
        subst hm1
        obtain ⟨m2, hstep2, _⟩ := runToks_cons_ok _ m' (.sym o) ts' hrest
        have hsp1 : StopPre ((ws k).reverse ++ pre) := stopPre_blank _ _ (hws k) hsp
        have hpre2 : expHack (x.reverse ++ ((ws k).reverse ++ pre)) = false :=
          expHack_append_false _ _ hx.2.2.2 (by simpa using hx.1) hsp1
        have hpre3 : expHack ((ws (k + 1)).reverse ++ (x.reverse ++ ((ws k).reverse ++ pre))) = false :=
          hack_blank _ _ (hws (k + 1)) hpre2
        have key := ih (k + 1) _ m' _ hpre2 (fun h => absurd h (by simp [NeedStop])) hlex' hrest
        obtain ⟨ho, hnb, _⟩ := hlex'
        have hfm : ∀ pre, expHack pre = false → firstMatch ops pre (o.sym ++ render ws (k + 1 + 1) ts') = some o :=
          fun p hp => hL.fm o ho p _ hp (hnb.elim Or.inl (fun h => Or.inr (render_not61 ws hws _ _ h)))
        simp only [render, Tok.bytes] at key ⊢
        rw [loop_sym ops fns hT (ws (k + 1)) (hws (k + 1)) _ _ o ho _ m2 (hfm _ hpre3) hstep2] at key
        rw [loop_opd_sym ops fns hT (ws k) x (ws (k + 1)) (hws k) hx (hws (k + 1)) pre _ hsp o ho m.st m.hv m.un m2
          (hfm _ hpre3) hstep2]
        exact key

end Eval
