import Lemmas.ExtractInv
/-! C19: containment for every path outside the root, the guard (`ensureNoSymlinks_ok`) and its connection with
    kernel-style link-following resolution (`resolve`, `resolve_lexical`), error propagation, and reproduction. -/
namespace Ex

/-! ### containment for every path that is not at or below the root -/

theorem Sys.outside {root : P} {fs fs' : FS} (h : Sys root fs fs')
    (hanc : ∀ j, j < root.length → ∃ m, fs.get (root.take j) = some (.dir m)) (q : P) (hq : ¬ root <+: q) :
    fs'.get q = fs.get q := by
  by_cases hrel : Related root q
  · rcases hrel with hpre | hpre
    · have e : q = root.take q.length := List.prefix_iff_eq_take.mp hpre
      have hlen : q.length < root.length := by
        rcases Nat.lt_or_ge q.length root.length with h | h
        · exact h
        · exfalso; apply hq
          rw [hpre.eq_of_length_le h]; exact List.prefix_refl _
      obtain ⟨m, hm⟩ := hanc q.length hlen
      rw [← e] at hm
      rw [h.mono q _ hm, hm]
    · exact absurd hpre hq
  · exact h.frame q hrel

/-! ### the guard -/

theorem ensureNoSymlinks_ok (fs : FS) (hw : WF fs) (root p : P) (h : ensureNoSymlinks fs root p = true) :
    (∀ j, root.length < j → j ≤ p.length → ∀ t, fs.get (p.take j) ≠ some (.symlink t)) ∧
    (p = root → ∀ t, fs.get root ≠ some (.symlink t)) := by
  unfold ensureNoSymlinks at h
  split at h
  · rename_i e
    refine ⟨fun j h1 h2 => by rw [e] at h2; omega, fun _ t hg => ?_⟩
    rw [hg] at h; simp at h
  · rename_i hne
    refine ⟨?_, fun e => absurd e hne⟩
    split at h
    · cases h
    · exact fun j h1 h2 => noSymFrom_spec fs hw p _ _ (by omega) (by omega) h j (by omega) h2

/-- kernel-style resolution of the components `rest` from the directory `cur`: every symbolic link met on the way
    (also at the last component) is followed — an absolute target restarts at `/`, a relative one continues from the
    directory of the link; `.`/`..`/empty components as in the kernel; missing components are taken literally;
    `none` = too many links (`ELOOP`).  Not executed by the driver: it is the yardstick for the lexical model. -/
def resolve (fs : FS) : Nat → P → List Comp → Option P
  | 0, _, _ => none
  | _+1, cur, [] => some cur
  | fuel+1, cur, c :: rest =>
    match fs.get (cleanStep cur c) with
    | some (.symlink t) =>
      if t.head? = some 47 then resolve fs fuel [] (splitSlash t ++ rest)
      else resolve fs fuel cur (splitSlash t ++ rest)
    | _ => resolve fs fuel (cleanStep cur c) rest

/-- no component is empty, `.` or `..` (what `filepath.Clean` guarantees) -/
def NoDots (p : P) : Prop := ∀ c ∈ p, ¬ (c = [] ∨ c = [46]) ∧ c ≠ [46, 46]

theorem cleanStep_nodots (acc : P) (seg : List Nat) (ha : NoDots acc) : NoDots (cleanStep acc seg) := by
  unfold cleanStep
  split
  · exact ha
  · rename_i h1
    split
    · intro c hc; rw [List.dropLast_eq_take] at hc; exact ha c (List.mem_of_mem_take hc)
    · rename_i h2
      intro c hc
      rcases List.mem_append.mp hc with h | h
      · exact ha c h
      · simp at h; subst h; exact ⟨h1, h2⟩

theorem cleanJoin_nodots (root : P) (name : List Nat) (hr : NoDots root) : NoDots (cleanJoin root name) := by
  unfold cleanJoin
  generalize splitSlash name = segs
  induction segs generalizing root with
  | nil => exact hr
  | cons s t ih => simp only [List.foldl_cons]; exact ih _ (cleanStep_nodots root s hr)

theorem resolve_lexical_aux (fs : FS) (p : P) (hd : NoDots p)
    (hns : ∀ j, j ≤ p.length → ∀ t, fs.get (p.take j) ≠ some (.symlink t)) :
    ∀ (fuel i : Nat), i ≤ p.length → p.length - i < fuel → resolve fs fuel (p.take i) (p.drop i) = some p := by
  intro fuel
  induction fuel with
  | zero => intro i _ h; omega
  | succ f ih =>
    intro i hi hf
    by_cases hlt : i < p.length
    · rw [List.drop_eq_getElem_cons hlt]
      have hstep : cleanStep (p.take i) p[i] = p.take (i + 1) := by
        have hc := hd p[i] (List.getElem_mem hlt)
        unfold cleanStep
        rw [if_neg hc.1, if_neg hc.2, List.take_succ_eq_append_getElem hlt]
      simp only [resolve, hstep]
      split
      · rename_i t hg; exact absurd hg (hns (i + 1) (by omega) t)
      · exact ih (i + 1) (by omega) (by omega)
    · have e : i = p.length := by omega
      subst e
      simp [resolve]

theorem resolve_lexical (fs : FS) (p : P) (hd : NoDots p) (fuel : Nat) (hf : p.length < fuel)
    (hns : ∀ j, j ≤ p.length → ∀ t, fs.get (p.take j) ≠ some (.symlink t)) :
    resolve fs fuel [] p = some p := by
  have := resolve_lexical_aux fs p hd hns fuel 0 (by omega) (by omega)
  simpa using this

theorem noSymlink_all (fs : FS) (hw : WF fs) (root p : P) (hp : root <+: p)
    (hroot : ∀ j, j ≤ root.length → ∀ t, fs.get (root.take j) ≠ some (.symlink t))
    (h : ensureNoSymlinks fs root p = true) :
    ∀ j, j ≤ p.length → ∀ t, fs.get (p.take j) ≠ some (.symlink t) := by
  intro j hj t
  by_cases hle : j ≤ root.length
  · obtain ⟨s, rfl⟩ := hp
    rw [List.take_append_of_le_length hle]
    exact hroot j hle t
  · exact (ensureNoSymlinks_ok fs hw root p h).1 j (by omega) hj t

/-! ### error propagation -/

theorem tarOne_short (fs : FS) (root : P) (mask : Nat) (e : Entry) (hs : e.short = true) (hk : e.kind = .reg) :
    (tarOne fs root mask e).2 = false := by
  unfold tarOne
  simp only [hk]
  split
  · rfl
  split
  · rfl
  split
  · rfl
  split
  · rfl
  split
  · rfl
  · simp [hs]

theorem zipOne_short (fs : FS) (root : P) (mask : Nat) (e : Entry) (hs : e.short = true) (hk : e.kind ≠ .dir) :
    (zipOne fs root mask e).2 = false := by
  unfold zipOne
  simp only []
  split
  · rfl
  split
  · rfl
  split
  · simp [hs]
  · rename_i h; exact absurd h hk
  · rfl
  · split
    · rfl
    split
    · rfl
    · simp [hs]

theorem extractWith_false_of_mem (one : FS → Entry → FS × Bool) (e : Entry) (h : ∀ fs, (one fs e).2 = false)
    (es : List Entry) (he : e ∈ es) (fs : FS) : (extractWith one fs es).2 = false := by
  induction es generalizing fs with
  | nil => cases he
  | cons x xs ih =>
    unfold extractWith
    split
    · rfl
    · rename_i fs' hx
      rcases List.mem_cons.mp he with rfl | hm
      · have := h fs; rw [hx] at this; cases this
      · exact ih hm fs'

theorem extractWith_stop (one : FS → Entry → FS × Bool) (fs fs1 : FS) (es1 es2 : List Entry) (e : Entry)
    (h1 : extractWith one fs es1 = (fs1, true)) (h2 : (one fs1 e).2 = false) :
    extractWith one fs (es1 ++ e :: es2) = ((one fs1 e).1, false) := by
  induction es1 generalizing fs with
  | nil =>
    simp [extractWith] at h1; subst h1
    simp only [List.nil_append]
    unfold extractWith
    split
    · rename_i fs' hx; rw [hx]
    · rename_i fs' hx; rw [hx] at h2; cases h2
  | cons x xs ih =>
    simp only [List.cons_append]
    unfold extractWith at h1 ⊢
    split
    · rename_i fs' hx; rw [hx] at h1; cases h1
    · rename_i fs' hx; rw [hx] at h1; exact ih fs' h1

/-! ### reproduction -/

/-- every file node points at an allocated inode -/
def InoOK (fs : FS) : Prop := ∀ p ino, fs.get p = some (.file ino) → ino < fs.inodes.size

theorem Eff.inoOK {root : P} {fs fs' : FS} (h : Eff root fs fs') (hio : InoOK fs) : InoOK fs' := by
  cases h with
  | mkdir q m _ _ _ =>
    intro p ino hg
    by_cases e : p = q
    · rw [e, get_put_same] at hg; cases hg
    · rw [get_put_other _ _ _ _ e] at hg; exact hio p ino hg
  | symlink q t _ _ _ =>
    intro p ino hg
    by_cases e : p = q
    · rw [e, get_put_same] at hg; cases hg
    · rw [get_put_other _ _ _ _ e] at hg; exact hio p ino hg
  | create q data mode _ _ _ =>
    intro p ino hg
    show ino < (fs.inodes.push _).size
    rw [Array.size_push]
    by_cases e : p = q
    · rw [e, get_put_same] at hg; cases hg; omega
    · rw [get_put_other _ _ _ _ e] at hg; have := hio p ino hg; omega
  | overwrite q i data _ _ =>
    intro p ino hg
    show ino < (setData fs.inodes i data).size
    rw [setData_size]; exact hio p ino hg
  | hardlink q tgt i _ _ hgt _ _ =>
    intro p ino hg
    by_cases e : p = q
    · rw [e, get_put_same] at hg; cases hg; exact hio tgt _ hgt
    · rw [get_put_other _ _ _ _ e] at hg; exact hio p ino hg

theorem Sys.inoOK {root : P} {fs fs' : FS} (h : Sys root fs fs') (hio : InoOK fs) : InoOK fs' := by
  induction h with
  | refl => exact hio
  | step e _ ih => exact ih (e.inoOK hio)

theorem mkdirFrom_frame (p : P) (mode : Nat) (fuel i : Nat) (fs fs' : FS) (h : mkdirFrom p mode fuel i fs = some fs')
    (q : P) (hq : ∀ j, q ≠ p.take j) : fs'.get q = fs.get q := by
  induction fuel generalizing i fs with
  | zero => simp [mkdirFrom] at h; rw [← h]
  | succ f ih =>
    simp only [mkdirFrom] at h
    split at h
    · simp at h; rw [← h]
    · split at h
      · rw [ih _ _ h, get_put_other _ _ _ _ (hq i)]
      · exact ih _ _ h
      · cases h

theorem mkdirFrom_inodes (p : P) (mode : Nat) (fuel i : Nat) (fs fs' : FS) (h : mkdirFrom p mode fuel i fs = some fs') :
    fs'.inodes = fs.inodes := by
  induction fuel generalizing i fs with
  | zero => simp [mkdirFrom] at h; rw [← h]
  | succ f ih =>
    simp only [mkdirFrom] at h
    split at h
    · simp at h; rw [← h]
    · split at h
      · rw [ih _ _ h]; rfl
      · exact ih _ _ h
      · cases h

theorem dropLast_take_ne (path : P) (hne : path ≠ []) (j : Nat) : path ≠ path.dropLast.take j := by
  intro e
  have := congrArg List.length e
  simp [List.length_take] at this
  have : 0 < path.length := List.length_pos_iff.mpr hne
  omega

/-- a directory entry that creates its directory gives it the recorded mode -/
theorem mkdirFrom_last (p : P) (mode : Nat) (fuel i : Nat) (fs fs' : FS) (h : mkdirFrom p mode fuel i fs = some fs')
    (hi : i ≤ p.length) (hi1 : 1 ≤ i) (hf : p.length + 2 ≤ fuel + i) (hn : fs.get p = none) :
    fs'.get p = some (.dir mode) := by
  induction fuel generalizing i fs with
  | zero => omega
  | succ f ih =>
    simp only [mkdirFrom] at h
    split at h
    · omega
    · by_cases hlast : i = p.length
      · subst hlast
        rw [List.take_length] at h
        rw [hn] at h
        simp only at h
        have hrest : mkdirFrom p mode f (p.length + 1) (fs.put p (.dir mode)) = some (fs.put p (.dir mode)) := by
          cases f with
          | zero => rfl
          | succ g => simp [mkdirFrom]
        rw [hrest] at h
        simp at h; rw [← h, get_put_same]
      · have hne : p ≠ p.take i := by
          intro e; have := congrArg List.length e
          simp [List.length_take] at this; omega
        split at h
        · exact ih (i + 1) _ h (by omega) (by omega) (by omega) (by rw [get_put_other _ _ _ _ hne]; exact hn)
        · exact ih (i + 1) _ h (by omega) (by omega) (by omega) hn
        · cases h

/-- what a successful iteration of the tar loop has established (`fs` before, `fs'` after) -/
def Post (root : P) (mask : Nat) (e : Entry) (fs fs' : FS) : Prop :=
  (e.kind = .reg → ∃ ino nd, fs'.get (cleanJoin root e.name) = some (.file ino) ∧ fs'.inodes[ino]? = some nd ∧
      nd.data = e.data ∧ e.short = false ∧ (fs.get (cleanJoin root e.name) = none → nd.mode = perm e.mode &&& mask)) ∧
  (e.kind = .dir → ∃ m, fs'.get (cleanJoin root e.name) = some (.dir m) ∧
      (fs.get (cleanJoin root e.name) = none → m = perm e.mode &&& mask)) ∧
  (e.kind = .symlink → fs'.get (cleanJoin root e.name) = some (.symlink e.link)) ∧
  (e.kind = .link → ∃ ino, fs'.get (cleanJoin root e.name) = some (.file ino) ∧
      fs'.get (cleanJoin root e.link) = some (.file ino))

theorem writeFile_post (fs fs' : FS) (p : P) (mode : Nat) (data : List Nat) (hio : InoOK fs)
    (h : writeFile fs p mode data = some fs') :
    ∃ ino nd, fs'.get p = some (.file ino) ∧ fs'.inodes[ino]? = some nd ∧ nd.data = data ∧
      (fs.get p = none → nd.mode = mode) := by
  unfold writeFile at h
  split at h
  · cases h
  · cases h
  · rename_i ino hg
    simp at h; subst h
    have hlt := hio p ino hg
    refine ⟨ino, { fs.inodes[ino] with data := data }, hg, ?_, rfl, fun hn => by rw [hn] at hg; cases hg⟩
    show (setData fs.inodes ino data)[ino]? = _
    unfold setData
    simp [hlt]
  · rename_i hg
    split at h
    · simp at h; subst h
      refine ⟨fs.inodes.size, { data := data, mode := mode }, get_put_same _ _ _, ?_, rfl, fun _ => rfl⟩
      show (fs.inodes.push _)[fs.inodes.size]? = _
      simp
    · cases h

theorem prefix_ne_nil (root path : P) (hne : root ≠ []) (hp : root <+: path) : path ≠ [] := by
  intro e; rw [e] at hp; exact hne (List.prefix_nil.mp hp)

theorem mkdirAll_parent_none (fs fs1 : FS) (path : P) (mode : Nat) (hne : path ≠ [])
    (h1 : mkdirAll fs path.dropLast mode = some fs1) (hn : fs.get path = none) : fs1.get path = none := by
  rw [mkdirFrom_frame _ _ _ _ _ _ h1 path (dropLast_take_ne path hne)]; exact hn

theorem mkdirAll_self_sys (fs fs1 : FS) (p : P) (mode : Nat) (h1 : mkdirAll fs p mode = some fs1) :
    Sys p fs fs1 ∧ ∀ j, 1 ≤ j → j ≤ p.length → ∃ m, fs1.get (p.take j) = some (.dir m) :=
  mkdirAll_sys p p mode (fun j => take_related _ _ (List.prefix_refl _) j) fs fs1 h1

theorem tarOne_post' (fs : FS) (root : P) (hr : GoodPath root) (hroot : root ≠ []) (mask : Nat) (e : Entry)
    (hio : InoOK fs) (r : FS × Bool) (h : tarOne fs root mask e = r) (hok : r.2 = true) :
    Post root mask e fs r.1 := by
  unfold tarOne at h
  split at h
  · subst h; cases hok
  simp only [] at h
  split at h
  · subst h; cases hok
  rename_i hchk
  have hp : root <+: cleanJoin root e.name :=
    lexOK_prefix root _ hr (cleanJoin_good root e.name hr) _ (by simpa using hchk)
  have hne := prefix_ne_nil root _ hroot hp
  split at h
  · subst h; cases hok
  split at h
  · -- regular file
    rename_i hk
    split at h
    · subst h; cases hok
    rename_i fs1 h1
    split at h
    · subst h; cases hok
    rename_i fs2 h2
    subst h
    have hio1 := (mkdirAll_self_sys fs fs1 _ _ h1).1.inoOK hio
    obtain ⟨ino, nd, g1, g2, g3, g4⟩ := writeFile_post fs1 fs2 _ _ _ hio1 h2
    refine ⟨fun _ => ⟨ino, nd, g1, g2, g3, by simpa using hok, fun hn => g4 (mkdirAll_parent_none fs fs1 _ _ hne h1 hn)⟩,
      fun hk' => ?_, fun hk' => ?_, fun hk' => ?_⟩ <;> (rw [hk] at hk'; cases hk')
  · -- hard link
    rename_i hk
    split at h
    · subst h; cases hok
    rename_i fs1 h1
    split at h
    · subst h; cases hok
    split at h
    · subst h; cases hok
    split at h
    · subst h; cases hok
    rename_i fs2 h2
    subst h
    refine ⟨fun hk' => ?_, fun hk' => ?_, fun hk' => ?_, fun _ => ?_⟩
    · rw [hk] at hk'; cases hk'
    · rw [hk] at hk'; cases hk'
    · rw [hk] at hk'; cases hk'
    · unfold linkAt at h2
      split at h2
      · rename_i ino hg
        split at h2
        · cases h2
        · rename_i hq
          split at h2
          · simp at h2; subst h2
            refine ⟨ino, get_put_same _ _ _, ?_⟩
            rw [get_put_other _ _ _ _ (by intro e'; rw [e', hq] at hg; cases hg)]; exact hg
          · cases h2
      · cases h2
  · -- symbolic link
    rename_i hk
    split at h
    · subst h; cases hok
    rename_i fs1 h1
    split at h
    · subst h; cases hok
    rename_i fs2 h2
    subst h
    refine ⟨fun hk' => ?_, fun hk' => ?_, fun _ => ?_, fun hk' => ?_⟩
    · rw [hk] at hk'; cases hk'
    · rw [hk] at hk'; cases hk'
    · unfold symlinkAt at h2
      split at h2
      · cases h2
      · split at h2
        · cases h2
        · split at h2
          · simp at h2; subst h2; exact get_put_same _ _ _
          · cases h2
    · rw [hk] at hk'; cases hk'
  · -- directory
    rename_i hk
    split at h
    · subst h; cases hok
    rename_i fs1 h1
    subst h
    refine ⟨fun hk' => ?_, fun _ => ?_, fun hk' => ?_, fun hk' => ?_⟩
    · rw [hk] at hk'; cases hk'
    · have hlen : 1 ≤ (cleanJoin root e.name).length := List.length_pos_iff.mpr hne
      obtain ⟨m, hm⟩ := (mkdirAll_self_sys fs fs1 _ _ h1).2 _ hlen (Nat.le_refl _)
      rw [List.take_length] at hm
      refine ⟨m, hm, fun hn => ?_⟩
      have := mkdirFrom_last _ _ _ 1 fs fs1 h1 hlen (Nat.le_refl _) (by omega) hn
      rw [this] at hm; cases hm; rfl
    · rw [hk] at hk'; cases hk'
    · rw [hk] at hk'; cases hk'
  · -- skipped type flags
    rename_i k1 k2 k3 k4
    subst h
    exact ⟨fun hk' => absurd hk' k1, fun hk' => absurd hk' k4, fun hk' => absurd hk' k3, fun hk' => absurd hk' k2⟩

theorem tarOne_post (fs : FS) (root : P) (hr : GoodPath root) (hroot : root ≠ []) (mask : Nat) (e : Entry)
    (hio : InoOK fs) (hok : (tarOne fs root mask e).2 = true) : Post root mask e fs (tarOne fs root mask e).1 :=
  tarOne_post' fs root hr hroot mask e hio _ rfl hok

/-- an iteration that does not overwrite an existing file leaves every allocated inode alone -/
theorem tarOne_keep (fs : FS) (root : P) (hr : GoodPath root) (hroot : root ≠ []) (mask : Nat) (e : Entry)
    (hfresh : e.kind = .reg → fs.get (cleanJoin root e.name) = none)
    (r : FS × Bool) (h : tarOne fs root mask e = r) :
    ∀ i, i < fs.inodes.size → r.1.inodes[i]? = fs.inodes[i]? := by
  intro i hi
  unfold tarOne at h
  split at h
  · subst h; rfl
  simp only [] at h
  split at h
  · subst h; rfl
  rename_i hchk
  have hpn : cleanJoin root e.name ≠ [] := prefix_ne_nil root _ hroot
    (lexOK_prefix root _ hr (cleanJoin_good root e.name hr) _ (by simpa using hchk))
  split at h
  · subst h; rfl
  split at h
  · rename_i hk
    split at h
    · subst h; rfl
    rename_i fs1 h1
    have e1 := mkdirFrom_inodes _ _ _ _ _ _ h1
    have hn1 := mkdirAll_parent_none fs fs1 _ _ hpn h1 (hfresh hk)
    split at h
    · subst h; rw [e1]
    rename_i fs2 h2
    subst h
    unfold writeFile at h2
    rw [hn1] at h2
    simp only at h2
    split at h2
    · simp at h2; subst h2
      show (fs1.inodes.push _)[i]? = _
      rw [e1, Array.getElem?_push]; simp; omega
    · cases h2
  · split at h
    · subst h; rfl
    rename_i fs1 h1
    have e1 := mkdirFrom_inodes _ _ _ _ _ _ h1
    split at h
    · subst h; rw [e1]
    split at h
    · subst h; rw [e1]
    split at h
    · subst h; rw [e1]
    rename_i fs2 h2
    subst h
    unfold linkAt at h2
    split at h2
    · split at h2
      · cases h2
      · split at h2
        · simp at h2; subst h2; rw [put_inodes, e1]
        · cases h2
    · cases h2
  · split at h
    · subst h; rfl
    rename_i fs1 h1
    have e1 := mkdirFrom_inodes _ _ _ _ _ _ h1
    split at h
    · subst h; rw [e1]
    rename_i fs2 h2
    subst h
    unfold symlinkAt at h2
    split at h2
    · cases h2
    · split at h2
      · cases h2
      · split at h2
        · simp at h2; subst h2; rw [put_inodes, e1]
        · cases h2
  · split at h
    · subst h; rfl
    rename_i fs1 h1
    subst h
    rw [mkdirFrom_inodes _ _ _ _ _ _ h1]
  · subst h; rfl

/-- no regular-file entry finds its path already present when its turn comes (no duplicate names, no overwrite
    through a hard link, nothing in the way in the destination) -/
def FreshRun (root : P) (mask : Nat) : FS → List Entry → Prop
  | _, [] => True
  | fs, e :: es => (e.kind = .reg → fs.get (cleanJoin root e.name) = none) ∧ FreshRun root mask (tarOne fs root mask e).1 es

/-- what is true of an entry at the end of a successful, conflict-free extraction -/
def Final (root : P) (mask : Nat) (e : Entry) (fs' : FS) : Prop :=
  (e.kind = .reg → ∃ ino nd, fs'.get (cleanJoin root e.name) = some (.file ino) ∧ fs'.inodes[ino]? = some nd ∧
      nd.data = e.data ∧ nd.mode = perm e.mode &&& mask) ∧
  (e.kind = .dir → ∃ m, fs'.get (cleanJoin root e.name) = some (.dir m)) ∧
  (e.kind = .symlink → fs'.get (cleanJoin root e.name) = some (.symlink e.link)) ∧
  (e.kind = .link → ∃ ino, fs'.get (cleanJoin root e.name) = some (.file ino) ∧
      fs'.get (cleanJoin root e.link) = some (.file ino))

theorem extractWith_cons (one : FS → Entry → FS × Bool) (fs : FS) (e : Entry) (es : List Entry) :
    extractWith one fs (e :: es) = if (one fs e).2 = true then extractWith one (one fs e).1 es else ((one fs e).1, false) := by
  cases h : one fs e with
  | mk a b =>
    cases b
    · simp [extractWith, h]
    · simp [extractWith, h]

theorem tarExtract_cons (fs : FS) (root : P) (mask : Nat) (e : Entry) (es : List Entry) :
    tarExtract fs root mask (e :: es) =
      if (tarOne fs root mask e).2 = true then tarExtract (tarOne fs root mask e).1 root mask es
      else ((tarOne fs root mask e).1, false) := by
  unfold tarExtract; rw [extractWith_cons]

theorem fresh_keep (root : P) (hr : GoodPath root) (hroot : root ≠ []) (mask : Nat) (es : List Entry) (fs : FS)
    (hfresh : FreshRun root mask fs es) :
    ∀ i, i < fs.inodes.size → (tarExtract fs root mask es).1.inodes[i]? = fs.inodes[i]? := by
  induction es generalizing fs with
  | nil => intro i _; rfl
  | cons x xs ih =>
    intro i hi
    obtain ⟨hx, hrest⟩ := hfresh
    have hk := tarOne_keep fs root hr hroot mask x hx _ rfl i hi
    have hsz : fs.inodes.size ≤ (tarOne fs root mask x).1.inodes.size := (tarOne_sys root hr fs mask x).fr.size
    rw [tarExtract_cons]
    split
    · rw [ih _ hrest i (by omega)]; exact hk
    · exact hk

theorem tar_reproduces (root : P) (mask : Nat) (hr : GoodPath root) (hroot : root ≠ []) (es : List Entry) (fs : FS)
    (hio : InoOK fs) (hfresh : FreshRun root mask fs es) (hok : (tarExtract fs root mask es).2 = true) :
    ∀ e ∈ es, Final root mask e (tarExtract fs root mask es).1 := by
  induction es generalizing fs with
  | nil => intro e he; cases he
  | cons x xs ih =>
    intro e he
    obtain ⟨hx, hrest⟩ := hfresh
    rw [tarExtract_cons] at hok ⊢
    by_cases hb : (tarOne fs root mask x).2 = true
    · rw [if_pos hb] at hok ⊢
      have s1 : Sys root fs (tarOne fs root mask x).1 := tarOne_sys root hr fs mask x
      have sF : Sys root (tarOne fs root mask x).1 (tarExtract (tarOne fs root mask x).1 root mask xs).1 :=
        extractWith_sys root _ (fun fs e => tarOne_sys root hr fs mask e) _ xs
      have keep := fresh_keep root hr hroot mask xs _ hrest
      rcases List.mem_cons.mp he with rfl | hm
      · obtain ⟨p1, p2, p3, p4⟩ := tarOne_post fs root hr hroot mask e hio hb
        refine ⟨fun hk => ?_, fun hk => ?_, fun hk => ?_, fun hk => ?_⟩
        · obtain ⟨ino, nd, g1, g2, g3, _, g5⟩ := p1 hk
          have hlt : ino < (tarOne fs root mask e).1.inodes.size := by
            rcases Nat.lt_or_ge ino (tarOne fs root mask e).1.inodes.size with h | h
            · exact h
            · rw [Array.getElem?_eq_none h] at g2; cases g2
          exact ⟨ino, nd, sF.mono _ _ g1, by rw [keep ino hlt]; exact g2, g3, g5 (hx hk)⟩
        · obtain ⟨m, g1, _⟩ := p2 hk; exact ⟨m, sF.mono _ _ g1⟩
        · exact sF.mono _ _ (p3 hk)
        · obtain ⟨ino, g1, g2⟩ := p4 hk; exact ⟨ino, sF.mono _ _ g1, sF.mono _ _ g2⟩
      · exact ih _ (s1.inoOK hio) hrest hok e hm
    · rw [if_neg hb] at hok; cases hok

end Ex
