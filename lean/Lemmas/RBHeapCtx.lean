import Lemmas.RBHeapRead
set_option linter.unusedSimpArgs false
set_option linter.unusedVariables false
/-! C06 helper lemmas, part 8: contexts (zippers) of addressed trees — the vocabulary of the refinement proof of the
    pointer-level `Insert`.  Core tactics only. -/
namespace RB

/-- one step of a root-ward path: the node `a` whose child on side `side` is the hole; `sib` is its other subtree -/
structure Frame (K V : Type) where
  side : Side
  a : Nat
  c : Color
  k : K
  v : V
  sib : AT K V

/-- a path from a hole up to the root, innermost frame first -/
abbrev Ctx (K V : Type) := List (Frame K V)

variable {K V : Type}

def Frame.fill (f : Frame K V) (s : AT K V) : AT K V :=
  match f.side with
  | .L => .node f.a f.c s f.k f.v f.sib
  | .R => .node f.a f.c f.sib f.k f.v s

/-- address of the node directly above the hole (`none`: the hole is the root) -/
def ctxPtr : Ctx K V → Ptr
  | [] => none
  | f :: _ => some f.a

def plug : Ctx K V → AT K V → AT K V
  | [], s => s
  | f :: rest, s => plug rest (f.fill s)

def ctxAddrs : Ctx K V → List Nat
  | [] => []
  | f :: rest => f.a :: (f.sib.addrs ++ ctxAddrs rest)

/-- all addresses of the context and of the subtree in the hole are pairwise distinct (stated by counting, so that any
    regrouping is linear arithmetic) -/
def Distinct (ctx : Ctx K V) (s : AT K V) : Prop := ∀ x, (ctxAddrs ctx).count x + s.addrs.count x ≤ 1

/-- the functional fix-up of `Insert` along a context: `afterChild` at every frame -/
def Frame.after (f : Frame K V) (res : T K V × St) : T K V × St :=
  match f.side with
  | .L => T.afterChild f.c res.1 f.k f.v f.sib.erase .L res.2
  | .R => T.afterChild f.c f.sib.erase f.k f.v res.1 .R res.2

def zipIns : Ctx K V → T K V × St → T K V × St
  | [], res => res
  | f :: rest, res => zipIns rest (f.after res)

/-- the context is the descent path of `key` (`compare(key, cur.key) < 0` → left, else right) -/
def Follows (cmp : K → K → Ordering) (key : K) : Ctx K V → Prop
  | [] => True
  | f :: rest => (cmp key f.k = .lt ↔ f.side = .L) ∧ Follows cmp key rest

theorem ins_fill (cmp : K → K → Ordering) (key : K) (val : V) (f : Frame K V) (s : AT K V)
    (h : cmp key f.k = .lt ↔ f.side = .L) :
    T.ins cmp (f.fill s).erase key val = f.after (T.ins cmp s.erase key val) := by
  obtain ⟨side, a, c, k, v, sib⟩ := f
  cases side with
  | L =>
    have : cmp key k = .lt := h.mpr rfl
    simp only [Frame.fill, AT.erase, T.ins, this, if_true, Frame.after]
  | R =>
    have : ¬ cmp key k = .lt := fun e => by cases h.mp e
    simp only [Frame.fill, AT.erase, T.ins, this, if_false, Frame.after]

theorem ins_plug (cmp : K → K → Ordering) (key : K) (val : V) : ∀ (ctx : Ctx K V) (s : AT K V), Follows cmp key ctx →
    T.ins cmp (plug ctx s).erase key val = zipIns ctx (T.ins cmp s.erase key val)
  | [], s, _ => rfl
  | f :: rest, s, ⟨h1, h2⟩ => by
    simp only [plug, zipIns]
    rw [ins_plug cmp key val rest (f.fill s) h2, ins_fill cmp key val f s h1]

theorem after_ok (f : Frame K V) (s : AT K V) : f.after (s.erase, .ok) = ((f.fill s).erase, .ok) := by
  obtain ⟨side, a, c, k, v, sib⟩ := f
  cases side <;> simp only [Frame.after, Frame.fill, T.afterChild, AT.erase]

theorem zipIns_ok : ∀ (ctx : Ctx K V) (s : AT K V), zipIns ctx (s.erase, .ok) = ((plug ctx s).erase, .ok)
  | [], s => rfl
  | f :: rest, s => by
    simp only [zipIns, plug, after_ok]
    exact zipIns_ok rest (f.fill s)

namespace PTree

/-- the memory holds the context: every frame's node with its links (the child on the hole side is `hole`), every parent
    link pointing to the frame above, the sibling subtrees owned, and `t.root` pointing to the outermost node -/
def OwnsCtx (t : PTree K V) : Ctx K V → Ptr → Prop
  | [], hole => t.root = hole
  | f :: rest, hole =>
    t.get (some f.a) = some ⟨f.k, f.v, ctxPtr rest, (match f.side with | .L => hole | .R => f.sib.ptr),
      (match f.side with | .L => f.sib.ptr | .R => hole), decide (f.c = .black)⟩ ∧
    Owns t (some f.a) f.sib ∧ OwnsCtx t rest (some f.a)

theorem OwnsCtx.frame {t t' : PTree K V} : ∀ {ctx : Ctx K V} {hole : Ptr},
    (∀ x ∈ ctxAddrs ctx, t'.get (some x) = t.get (some x)) → t'.root = t.root → OwnsCtx t ctx hole → OwnsCtx t' ctx hole
  | [], _, _, hr, h => by simp only [OwnsCtx] at h ⊢; rw [hr]; exact h
  | f :: rest, hole, hf, hr, ⟨h0, hs, hrest⟩ => by
    refine ⟨?_, Owns.frame (fun x hx => hf x ?_) hs, OwnsCtx.frame (fun x hx => hf x ?_) hr hrest⟩
    · rw [hf f.a (by simp [ctxAddrs])]; exact h0
    · simp [ctxAddrs, hx]
    · simp [ctxAddrs, hx]

/-- zipping up: a context and the subtree in its hole are the whole tree -/
theorem owns_plug {t : PTree K V} : ∀ (ctx : Ctx K V) (s : AT K V), OwnsCtx t ctx s.ptr → Owns t (ctxPtr ctx) s →
    Owns t none (plug ctx s) ∧ t.root = (plug ctx s).ptr
  | [], s, h1, h2 => ⟨h2, h1⟩
  | f :: rest, s, ⟨h0, hs, hrest⟩, h2 => by
    simp only [plug]
    apply owns_plug rest (f.fill s)
    · obtain ⟨side, a, c, k, v, sib⟩ := f
      cases side <;> exact hrest
    · obtain ⟨side, a, c, k, v, sib⟩ := f
      cases side
      · exact ⟨h0, h2, hs⟩
      · exact ⟨h0, hs, h2⟩

theorem plug_addrs_count (x : Nat) : ∀ (ctx : Ctx K V) (s : AT K V),
    (plug ctx s).addrs.count x = (ctxAddrs ctx).count x + s.addrs.count x
  | [], s => by simp [plug, ctxAddrs]
  | f :: rest, s => by
    rw [plug, plug_addrs_count x rest (f.fill s)]
    obtain ⟨side, a, c, k, v, sib⟩ := f
    cases side <;> simp only [Frame.fill, AT.addrs, ctxAddrs, List.count_cons, List.count_append] <;> omega

theorem nodup_plug {ctx : Ctx K V} {s : AT K V} (h : Distinct ctx s) : (plug ctx s).addrs.Nodup := by
  rw [List.nodup_iff_count]
  intro x
  rw [plug_addrs_count]
  exact h x

end PTree

/-- the descent of `Insert` on addressed trees: extends the context down to the nil link where the new node goes -/
def descendCtx (cmp : K → K → Ordering) (key : K) : Ctx K V → AT K V → Ctx K V
  | ctx, .nil => ctx
  | ctx, .node a c l k v r =>
    if cmp key k = .lt then descendCtx cmp key (⟨.L, a, c, k, v, r⟩ :: ctx) l
    else descendCtx cmp key (⟨.R, a, c, k, v, l⟩ :: ctx) r

namespace PTree

theorem descend_spec (cmp : K → K → Ordering) (t : PTree K V) (key : K) :
    ∀ (s : AT K V) (ctx : Ctx K V) (fuel : Nat) (par : Ptr), OwnsCtx t ctx s.ptr → Owns t (ctxPtr ctx) s →
      s.erase.height < fuel → Follows cmp key ctx → Distinct ctx s → (s = .nil → par = ctxPtr ctx) →
      descend cmp t key fuel s.ptr par = some (ctxPtr (descendCtx cmp key ctx s)) ∧
      OwnsCtx t (descendCtx cmp key ctx s) none ∧ Follows cmp key (descendCtx cmp key ctx s) ∧
      Distinct (descendCtx cmp key ctx s) .nil ∧ plug (descendCtx cmp key ctx s) .nil = plug ctx s
  | .nil, ctx, fuel, par, h1, h2, hf, hfo, hd, hp => by
    cases fuel with
    | zero => cases hf
    | succ n =>
      simp only [descendCtx, descend, AT.ptr_nil, Option.isSome_none, Bool.false_eq_true, if_false, hp rfl]
      exact ⟨trivial, h1, hfo, hd, trivial⟩
  | .node a c l k v r, ctx, fuel, par, h1, ⟨h0, hl, hr⟩, hf, hfo, hd, _ => by
    cases fuel with
    | zero => cases hf
    | succ n =>
      simp only [AT.erase, T.height] at hf
      simp only [descendCtx, descend, AT.ptr_node, Option.isSome_some, if_true, h0, Option.bind_eq_bind, Option.bind_some]
      by_cases hc : cmp key k = .lt
      · simp only [hc, if_true]
        have := descend_spec cmp t key l (⟨.L, a, c, k, v, r⟩ :: ctx) n (some a) ⟨h0, hr, h1⟩ hl (by omega)
          ⟨⟨fun _ => rfl, fun _ => hc⟩, hfo⟩
          (by intro x; have := hd x
              simp only [ctxAddrs, AT.addrs, List.count_cons, List.count_append] at this ⊢; omega)
          (fun _ => rfl)
        exact this
      · simp only [hc, if_false]
        have := descend_spec cmp t key r (⟨.R, a, c, k, v, l⟩ :: ctx) n (some a) ⟨h0, hl, h1⟩ hr (by omega)
          ⟨⟨fun e => absurd e hc, fun e => by cases e⟩, hfo⟩
          (by intro x; have := hd x
              simp only [ctxAddrs, AT.addrs, List.count_cons, List.count_append] at this ⊢; omega)
          (fun _ => rfl)
        exact this

end PTree

namespace PTree

/-- re-pointing the hole of a context from `a` to `b` (what a rotation at `a`, or linking a new node, does to the node
    above or to `t.root`) -/
theorem OwnsCtx.rehole {t t' : PTree K V} {ctx : Ctx K V} {a b : Nat}
    (h : OwnsCtx t ctx (some a)) (hnd : (ctxAddrs ctx).Nodup) (ha : a ∉ ctxAddrs ctx)
    (hroot : t'.root = if (ctxPtr ctx).isSome then t.root else some b)
    (hhead : ∀ p, ctxPtr ctx = some p → t'.get (some p) = (t.get (some p)).map (relinkL a b) ∨
      t'.get (some p) = (t.get (some p)).map (relinkR a b))
    (hother : ∀ x ∈ ctxAddrs ctx, ctxPtr ctx ≠ some x → t'.get (some x) = t.get (some x)) :
    OwnsCtx t' ctx (some b) := by
  cases ctx with
  | nil => simpa [OwnsCtx, ctxPtr] using hroot
  | cons f rest =>
    obtain ⟨h0, hs, hrest⟩ := h
    obtain ⟨side, fa, c, k, v, sib⟩ := f
    simp only [ctxAddrs, List.nodup_cons, List.mem_append, List.mem_cons, not_or, List.nodup_append] at hnd ha
    simp only [ctxPtr, Option.isSome_some, if_true] at hroot
    have hsib : sib.ptr ≠ some a := fun e => ha.2.1 (AT.ptr_mem_addrs e)
    refine ⟨?_, Owns.frame (fun x hx => hother x ?_ ?_) hs, OwnsCtx.frame (fun x hx => hother x ?_ ?_) hroot hrest⟩
    · have := hhead fa rfl
      rw [h0] at this
      cases side
      · simp only [Option.map_some, relinkL, relinkR, beq_self_eq_true, if_true, beq_iff_eq, hsib, if_false] at this
        rcases this with h | h <;> exact h
      · simp only [Option.map_some, relinkL, relinkR, beq_self_eq_true, if_true, beq_iff_eq, hsib, if_false] at this
        rcases this with h | h <;> exact h
    · simp [ctxAddrs, hx]
    · simp only [ctxPtr, ne_eq, Option.some.injEq]; rintro rfl; exact hnd.1.1 hx
    · simp [ctxAddrs, hx]
    · simp only [ctxPtr, ne_eq, Option.some.injEq]; rintro rfl; exact hnd.1.2 hx

end PTree
end RB
