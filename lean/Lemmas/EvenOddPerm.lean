import Lemmas.EvenOdd
import Mathlib.Data.List.Perm.Basic

/-! C05: the even-odd rule does not depend on where a contour starts nor on its direction. -/

namespace EOQ

theorem pairs_snoc {α : Type} (l : List α) (a f : α) (hl : l ≠ []) :
    EO.pairs (l ++ [a]) f = EO.pairs l a ++ [(a, f)] := by
  induction l with
  | nil => exact absurd rfl hl
  | cons x t ih =>
    cases t with
    | nil => simp [EO.pairs]
    | cons y t' =>
      have := ih (by simp)
      simp only [List.cons_append, EO.pairs] at this ⊢
      rw [this]

/-- moving the first vertex to the end permutes the edges -/
theorem edgesOf_rotate1 {α : Type} (v : α) (t : List α) :
    (EO.edgesOf (t ++ [v])).Perm (EO.edgesOf (v :: t)) := by
  cases t with
  | nil => simp
  | cons u t' =>
    have h := pairs_snoc (u :: t') v u (by simp)
    simp only [List.cons_append, EO.edgesOf, EO.pairs] at h ⊢
    rw [h]
    exact List.perm_append_singleton _ _

/-- any rotation of a contour has the same edges up to order -/
theorem edgesOf_rotate {α : Type} (l₁ l₂ : List α) :
    (EO.edgesOf (l₂ ++ l₁)).Perm (EO.edgesOf (l₁ ++ l₂)) := by
  induction l₁ generalizing l₂ with
  | nil => simp
  | cons v t ih =>
    have h1 : l₂ ++ v :: t = (l₂ ++ [v]) ++ t := by simp
    have h2 : t ++ (l₂ ++ [v]) = (t ++ l₂) ++ [v] := by simp
    rw [h1]
    refine (ih (l₂ ++ [v])).trans ?_
    rw [h2]
    exact edgesOf_rotate1 v (t ++ l₂)

theorem pairs_reverse {α : Type} (t : List α) (v w : α) :
    (EO.pairs (v :: t.reverse) w).Perm ((EO.pairs (w :: t) v).map Prod.swap) := by
  induction t generalizing w with
  | nil => simp [EO.pairs]
  | cons a t' ih =>
    have h1 : v :: (a :: t').reverse = (v :: t'.reverse) ++ [a] := by simp
    rw [h1, pairs_snoc _ _ _ (by simp)]
    simp only [EO.pairs, List.map_cons, Prod.swap]
    exact (List.perm_append_singleton _ _).trans (List.Perm.cons _ (ih a))

/-- reversing a contour reverses every edge (up to order) -/
theorem edgesOf_reverse {α : Type} (c : List α) :
    (EO.edgesOf c.reverse).Perm ((EO.edgesOf c).map Prod.swap) := by
  cases c with
  | nil => simp [EO.edgesOf]
  | cons v t =>
    rw [List.reverse_cons]
    refine (edgesOf_rotate1 v t.reverse).trans ?_
    simp only [EO.edgesOf]
    exact pairs_reverse t v v

theorem allEdges_perm {α : Type} (P₁ P₂ : List (List α)) (c' : List α) (E : List (α × α))
    (hE : (EO.edgesOf c').Perm E) :
    (EO.allEdges (P₁ ++ c' :: P₂)).Perm (EO.allEdges P₁ ++ E ++ EO.allEdges P₂) := by
  unfold EO.allEdges
  rw [List.flatMap_append, List.flatMap_cons, List.append_assoc]
  exact List.Perm.append_left _ (List.Perm.append_right _ hE)

theorem allEdges_split {α : Type} (P₁ P₂ : List (List α)) (c : List α) :
    EO.allEdges (P₁ ++ c :: P₂) = EO.allEdges P₁ ++ EO.edgesOf c ++ EO.allEdges P₂ := by
  unfold EO.allEdges
  rw [List.flatMap_append, List.flatMap_cons, List.append_assoc]

/-- the crossing test does not depend on the direction of the edge -/
theorem crosses_symm (a b p : QPt) : crosses a b p ↔ crosses b a p := by
  rw [crosses_iff, crosses_iff]
  have key : (p.x - a.x) * (b.y - a.y) - (p.y - a.y) * (b.x - a.x) =
      (p.y - b.y) * (a.x - b.x) - (p.x - b.x) * (a.y - b.y) := by ring
  constructor
  · rintro (⟨h0, h1, h2, h3⟩ | ⟨h0, h1, h2, h3⟩)
    · exact Or.inr ⟨h0, h1, h2, by linarith⟩
    · exact Or.inl ⟨h0, h1, h2, by linarith⟩
  · rintro (⟨h0, h1, h2, h3⟩ | ⟨h0, h1, h2, h3⟩)
    · exact Or.inr ⟨h0, h1, h2, by linarith⟩
    · exact Or.inl ⟨h0, h1, h2, by linarith⟩

theorem crosses_symm_int (a b p : EO.Pt) : EO.crosses a b p = EO.crosses b a p := by
  have h := crosses_symm (toQ a) (toQ b) (toQ p)
  rw [← crosses_toQ, ← crosses_toQ] at h
  cases h1 : EO.crosses a b p <;> cases h2 : EO.crosses b a p <;> simp_all

/-- rotation of one contour, over ℚ -/
theorem inside_rotate (P₁ P₂ : QPolygon) (l₁ l₂ : QContour) (p : QPt) :
    inside (P₁ ++ (l₂ ++ l₁) :: P₂) p ↔ inside (P₁ ++ (l₁ ++ l₂) :: P₂) p := by
  unfold inside crossCount
  rw [(allEdges_perm P₁ P₂ (l₂ ++ l₁) _ (edgesOf_rotate l₁ l₂)).countP_eq, ← allEdges_split]

/-- reversal of one contour, over ℚ -/
theorem inside_reverse (P₁ P₂ : QPolygon) (c : QContour) (p : QPt) :
    inside (P₁ ++ c.reverse :: P₂) p ↔ inside (P₁ ++ c :: P₂) p := by
  unfold inside crossCount
  rw [(allEdges_perm P₁ P₂ c.reverse _ (edgesOf_reverse c)).countP_eq, allEdges_split]
  simp only [List.countP_append, List.countP_map]
  have : List.countP ((fun e : QPt × QPt => decide (crosses e.1 e.2 p)) ∘ Prod.swap) (EO.edgesOf c) =
      List.countP (fun e : QPt × QPt => decide (crosses e.1 e.2 p)) (EO.edgesOf c) := by
    apply List.countP_congr
    intro e _
    simp only [Function.comp, Prod.swap, decide_eq_true_eq]
    exact crosses_symm e.2 e.1 p
  rw [this]

/-- rotation of one contour, executable definition -/
theorem inside_rotate_int (P₁ P₂ : EO.Polygon) (l₁ l₂ : EO.Contour) (p : EO.Pt) :
    EO.inside (P₁ ++ (l₂ ++ l₁) :: P₂) p = EO.inside (P₁ ++ (l₁ ++ l₂) :: P₂) p := by
  unfold EO.inside EO.crossCount
  rw [(allEdges_perm P₁ P₂ (l₂ ++ l₁) _ (edgesOf_rotate l₁ l₂)).countP_eq, ← allEdges_split]

/-- reversal of one contour, executable definition -/
theorem inside_reverse_int (P₁ P₂ : EO.Polygon) (c : EO.Contour) (p : EO.Pt) :
    EO.inside (P₁ ++ c.reverse :: P₂) p = EO.inside (P₁ ++ c :: P₂) p := by
  unfold EO.inside EO.crossCount
  rw [(allEdges_perm P₁ P₂ c.reverse _ (edgesOf_reverse c)).countP_eq, allEdges_split]
  simp only [List.countP_append, List.countP_map]
  have : List.countP ((fun e : EO.Pt × EO.Pt => EO.crosses e.1 e.2 p) ∘ Prod.swap) (EO.edgesOf c) =
      List.countP (fun e : EO.Pt × EO.Pt => EO.crosses e.1 e.2 p) (EO.edgesOf c) := by
    apply List.countP_congr
    intro e _
    simp only [Function.comp, Prod.swap]
    rw [crosses_symm_int]
  rw [this]

end EOQ
