import Lemmas.Errs
import Model.LogHandlers
/-! C13 on the errs heap: `ML.accumulate` (the loop `result = errs.Append(result, err)` from a nil `*errs.Error`) builds
    its aggregate beside the children's error values, never into them.  Rests on the C11 theorems about `Errs.append`. -/
namespace ML
open Errs

theorem foldl_eq_appendSeq : ∀ (rets : List Val) (h : Heap) (acc : Val),
    rets.foldl (fun a v => ((append a.1 a.2 [v]).1, ptrVal (append a.1 a.2 [v]).2.1)) (h, acc) =
      appendSeq h acc (rets.map fun v => [v])
  | [], h, acc => rfl
  | v :: rest, h, acc => by
    simp only [List.foldl_cons, List.map_cons, appendSeq]
    exact foldl_eq_appendSeq rest _ _

theorem accumulate_eq_appendSeq (h : Heap) (rets : List Val) :
    accumulate h rets = appendSeq h .typedNil (rets.map fun v => [v]) :=
  foldl_eq_appendSeq rets h .typedNil

/-- where the accumulator lives while the loop runs: nowhere yet, or in a cell whose chain ends beyond the heap the
    call started with -/
def AccFresh (n : Nat) (hk : Heap) (acc : Val) : Prop :=
  acc = .typedNil ∨ ∃ a, acc = .ref a ∧ a < hk.size ∧ n ≤ tailOf hk (fuelOf hk) a ∧ isEmpty hk a = false

/-- the accumulator is a nil `*Error` or a non-empty cell of the heap -/
def AccShape (hk : Heap) (acc : Val) : Prop :=
  acc = .typedNil ∨ ∃ a, acc = .ref a ∧ a < hk.size ∧ isEmpty hk a = false

theorem frame_gen (h0 : Heap) (hwf0 : WF h0) : ∀ (rets : List Val) (hk : Heap) (acc : Val),
    WF hk → h0.size ≤ hk.size → (∀ i, i < h0.size → hk[i]? = h0[i]?) → AccFresh h0.size hk acc →
    (∀ id, Val.ref id ∈ rets → id < h0.size) →
    (∀ i, i < h0.size →
      (rets.foldl (fun a v => ((append a.1 a.2 [v]).1, ptrVal (append a.1 a.2 [v]).2.1)) (hk, acc)).1[i]? = h0[i]?) ∧
    AccShape (rets.foldl (fun a v => ((append a.1 a.2 [v]).1, ptrVal (append a.1 a.2 [v]).2.1)) (hk, acc)).1
      (rets.foldl (fun a v => ((append a.1 a.2 [v]).1, ptrVal (append a.1 a.2 [v]).2.1)) (hk, acc)).2
  | [], hk, acc, _, _, hfr, hacc, _ => by
    refine ⟨fun i hi => hfr i hi, ?_⟩
    rcases hacc with h | ⟨a, h, ha, _, hne⟩
    · exact Or.inl h
    · exact Or.inr ⟨a, h, ha, hne⟩
  | v :: rest, hk, acc, hwf, hsz, hfr, hacc, hrets => by
    have hne : acc ≠ .nilIface := by
      rcases hacc with h | ⟨a, h, _⟩ <;> rw [h] <;> simp
    have hids : ∀ id, Val.ref id ∈ acc :: [v] → id < hk.size := by
      intro id hmem
      rcases List.mem_cons.mp hmem with heq | hmem
      · rcases hacc with h | ⟨a, h, ha, _, _⟩
        · rw [h] at heq; cases heq
        · rw [h] at heq; cases heq; exact ha
      · have : Val.ref id = v := by simpa using hmem
        exact Nat.lt_of_lt_of_le (hrets id (by simp [this])) hsz
    -- the accumulator's last cell is never inside the chain of a value that existed before the call
    have htail : ∀ a, acc = .ref a → ∀ id', id' < h0.size → tailOf hk (fuelOf hk) a ∉ chain hk (fuelOf hk) id' := by
      intro a ha id' hid' hmem
      obtain ⟨l, e, c, hl, hm⟩ := hwf0.exists_chain (h0.size - id') id' (Nat.le_refl _) hid'
      have c' : Chain hk id' l e := c.congr (fun i hi => hfr i (hm i hi).2)
      have hf : l.length ≤ fuelOf hk := by unfold fuelOf; omega
      rw [c'.chain_eq _ hf] at hmem
      have h1 := (hm _ hmem).2
      rcases hacc with h | ⟨a', h, _, ht, _⟩
      · rw [h] at ha; cases ha
      · rw [h] at ha; cases ha; omega
    have hna : NoAlias hk acc [v] := by
      intro id hid id' hmem
      rw [accOf_of_ne acc _ hne] at hid
      rw [restOf_of_ne acc _ hne] at hmem
      have : Val.ref id' = v := by simpa using hmem
      exact htail id hid id' (hrets id' (by simp [this]))
    have D := append_spec [v] acc hk hwf hids hna
    have hfr' : ∀ i, i < h0.size → (append hk acc [v]).1[i]? = h0[i]? := by
      intro i hi
      rw [D.frame i (Nat.lt_of_lt_of_le hi hsz) ?_]
      · exact hfr i hi
      · intro id hid
        rw [accOf_of_ne acc _ hne] at hid
        rcases hacc with h | ⟨a, h, _, ht, _⟩
        · rw [h] at hid; cases hid
        · rw [h] at hid; cases hid; omega
    have hacc' : AccFresh h0.size (append hk acc [v]).1 (ptrVal (append hk acc [v]).2.1) := by
      cases hr : (append hk acc [v]).2.1 with
      | none => left; simp [ptrVal]
      | some r =>
        right
        refine ⟨r, by simp [ptrVal], D.rootLt r hr, ?_, root_nonempty D r hr⟩
        rcases D.tail r hr with ht | ⟨heq, hacc2⟩
        · omega
        · rw [accOf_of_ne acc _ hne] at hacc2
          rcases hacc with h | ⟨a, h, _, ht, _⟩
          · rw [h] at hacc2; cases hacc2
          · rw [h] at hacc2; cases hacc2; rw [heq]; exact ht
    simp only [List.foldl_cons]
    exact frame_gen h0 hwf0 rest _ _ D.wf (Nat.le_trans hsz D.grow) hfr' hacc'
      (fun id hmem => hrets id (List.mem_cons_of_mem _ hmem))


/-- no cell that existed before `Handle` started is modified by its accumulation loop -/
theorem accumulate_frame (h : Heap) (rets : List Val) (hwf : WF h) (hids : ∀ id, Val.ref id ∈ rets → id < h.size) :
    ∀ i, i < h.size → (accumulate h rets).1[i]? = h[i]? :=
  (frame_gen h hwf rets h .typedNil hwf (Nat.le_refl _) (fun _ _ => rfl) (Or.inl rfl) hids).1

/-- the accumulator `Handle` ends with is a nil `*Error` or a non-empty cell -/
theorem accumulate_shape (h : Heap) (rets : List Val) (hwf : WF h) (hids : ∀ id, Val.ref id ∈ rets → id < h.size) :
    AccShape (accumulate h rets).1 (accumulate h rets).2 :=
  (frame_gen h hwf rets h .typedNil hwf (Nat.le_refl _) (fun _ _ => rfl) (Or.inl rfl) hids).2

/-- the aggregate holds exactly the children's errors, in order -/
theorem accumulate_items (h : Heap) (rets : List Val) (hwf : WF h) (hids : ∀ id, Val.ref id ∈ rets → id < h.size) :
    argItems (accumulate h rets).1 (accumulate h rets).2 = rets.flatMap (argItems h) ∧ WF (accumulate h rets).1 := by
  rw [accumulate_eq_appendSeq]
  have := appendSeq_spec (rets.map fun v => [v]) h .typedNil (by simp) hwf (by intro id hid; cases hid)
    (by
      intro args hargs id' hmem
      obtain ⟨v, hv, rfl⟩ := List.mem_map.mp hargs
      have : Val.ref id' = v := by simpa using hmem
      exact ⟨hids id' (by rw [this]; exact hv), by intro id hid; cases hid⟩)
  refine ⟨?_, this.2⟩
  rw [this.1]
  have h0 : argItems h .typedNil = [] := by simp [argItems, isNil]
  rw [h0, List.nil_append, List.flatMap_map]
  congr 1
  funext v
  simp

/-- hence every error value that existed before reads the same afterwards: same items (so same `Count`, `Message`,
    `WrappedErrors`) -/
theorem accumulate_keeps_items (h : Heap) (rets : List Val) (hwf : WF h)
    (hids : ∀ id, Val.ref id ∈ rets → id < h.size) (id : Nat) (hid : id < h.size) :
    items (accumulate h rets).1 id = items h id := by
  have hfr := accumulate_frame h rets hwf hids
  have hwf' := (accumulate_items h rets hwf hids).2
  obtain ⟨l, e, c, _, hm⟩ := hwf.exists_chain (h.size - id) id (Nat.le_refl _) hid
  have c' : Chain (accumulate h rets).1 id l e := c.congr (fun i hi => hfr i (hm i hi).2)
  have hid' : id < (accumulate h rets).1.size := by
    have := hfr id hid
    rw [get_of_lt h id hid] at this
    exact (Array.getElem?_eq_some_iff.mp this).1
  rw [items_eq_of_chain hwf' c' hid', items_eq_of_chain hwf c hid]
  exact filterMap_congr' _ _ l (fun i hi => by rw [hfr i (hm i hi).2])


/-- `return result.ErrorOrNil()`: the interface value `Handle` returns is nil exactly when no delivery returned an
    error — a nil interface, a typed nil of either kind and an empty `*Error` all count as "no error" (`argItems`) —
    and otherwise it is the non-nil accumulated `*Error` -/
theorem returned_nil_iff (h : Heap) (rets : List Val) (hwf : WF h) (hids : ∀ id, Val.ref id ∈ rets → id < h.size) :
    returned h rets = .nilIface ↔ ∀ v ∈ rets, argItems h v = [] := by
  obtain ⟨hit, hwf'⟩ := accumulate_items h rets hwf hids
  have hflat : rets.flatMap (argItems h) = [] ↔ ∀ v ∈ rets, argItems h v = [] := by
    simp [List.flatMap_eq_nil_iff]
  rw [← hflat, ← hit]
  unfold returned
  rcases accumulate_shape h rets hwf hids with hs | ⟨a, hs, ha, hne⟩
  · rw [hs]; simp [errorOrNil, argItems, isNil]
  · rw [hs]
    simp only [errorOrNil, hne, argItems]
    constructor
    · intro hx; cases hx
    · intro hx; exact absurd hx (items_ne_nil hwf' ha hne)

/-- and when it is not nil it is a `*Error` that holds exactly the errors of this record's deliveries -/
theorem returned_ref (h : Heap) (rets : List Val) (hwf : WF h) (hids : ∀ id, Val.ref id ∈ rets → id < h.size)
    (hne : returned h rets ≠ .nilIface) :
    ∃ r, returned h rets = .ref r ∧ items (accumulate h rets).1 r = rets.flatMap (argItems h) := by
  obtain ⟨hit, _⟩ := accumulate_items h rets hwf hids
  unfold returned at hne ⊢
  rcases accumulate_shape h rets hwf hids with hs | ⟨a, hs, _, hnon⟩
  · rw [hs] at hne; simp [errorOrNil] at hne
  · rw [hs] at hit ⊢
    exact ⟨a, by simp [errorOrNil, hnon], by simpa [argItems] using hit⟩

end ML
