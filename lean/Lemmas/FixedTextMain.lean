import Lemmas.FixedTextRoundTrip
/-! C04 helper lemmas, part 3: `fromStr64 ∘ toStr = id`, `fromStr128 ∘ toStr = id`. -/
namespace FixedText

/-! ### congruence modulo 2^64 (int64 arithmetic) -/
def C64 (a b : Int) : Prop := ∃ k : Int, a = b + k * 2^64

theorem C64.refl (a : Int) : C64 a a := ⟨0, by simp⟩
theorem C64.wrap (x : Int) : C64 (wrap64 x) x := wrap64_cong x
theorem C64.trans {a b c : Int} (h1 : C64 a b) (h2 : C64 b c) : C64 a c := by
  obtain ⟨k1, e1⟩ := h1; obtain ⟨k2, e2⟩ := h2
  exact ⟨k1 + k2, by rw [e1, e2]; ring⟩
theorem C64.add {a a' b b' : Int} (h1 : C64 a a') (h2 : C64 b b') : C64 (a + b) (a' + b') := by
  obtain ⟨k1, e1⟩ := h1; obtain ⟨k2, e2⟩ := h2
  exact ⟨k1 + k2, by rw [e1, e2]; ring⟩
theorem C64.mul {a a' : Int} (m : Int) (h1 : C64 a a') : C64 (a * m) (a' * m) := by
  obtain ⟨k1, e1⟩ := h1
  exact ⟨k1 * m, by rw [e1]; ring⟩
theorem C64.neg {a a' : Int} (h1 : C64 a a') : C64 (-a) (-a') := by
  obtain ⟨k1, e1⟩ := h1
  exact ⟨-k1, by rw [e1]; ring⟩
theorem C64.wrap_eq {x r : Int} (hr : fits64 r = true) (h : C64 x r) : wrap64 x = r := by
  obtain ⟨k, e⟩ := h
  exact wrap64_eq_of_cong x r k hr e

/-! ### evaluation of the two halves of FromString on the texts String() produces -/
theorem head64_intStr (m z : Int) (hz : fits64 z = true) :
    head64 m (intStr z) = some (if z < 0 then (wrap64 (wrap64 (-z) * m), true) else (wrap64 (z * m), false)) := by
  obtain ⟨h1, h2, h3, h4⟩ := intStr_shape z
  unfold head64
  rw [if_neg (by simp [h1, intStr_ne_plus z]), if_neg (by simp [h2, h3]), parseInt64_intStr z hz]
  by_cases hneg : z < 0
  · simp [hneg]
  · have : ¬ (intStr z).head? = some 45 := fun h => hneg (h4.mp h)
    simp [hneg, this]

theorem head128_intStr (m z : Int) :
    head128 m (intStr z) = some (if z < 0 then ((-z) * m, true) else (z * m, false)) := by
  obtain ⟨h1, h2, h3, h4⟩ := intStr_shape z
  unfold head128
  rw [if_neg (by simp [h1, intStr_ne_plus z]), if_neg (by simp [h2, h3]), parseSigned_intStr z]
  by_cases hneg : z < 0
  · simp [hneg]
  · have : ¬ (intStr z).head? = some 45 := fun h => hneg (h4.mp h)
    simp [hneg, this]

theorem pow10_le (p : Nat) (hp : p ≤ 18) : (10:Nat)^p ≤ 10^18 := Nat.pow_le_pow_right (by decide) hp

theorem parseSigned_one_pad (p f : Nat) (hf : f < 10^p) :
    parseSigned (49 :: digitsPad p f) = some ((10^p + f : Nat) : Int) := by
  rw [parseSigned_digit_head 49 _ (by decide)]
  unfold parseUnsigned
  rw [if_neg]
  · rw [parseDigits_one_pad p f hf]; rfl
  · have hall : (49 :: digitsPad p f).all isDigit = true := by
      rw [List.all_eq_true]
      intro c hc
      rcases List.mem_cons.mp hc with h | h
      · subst h; decide
      · exact digitsPad_all p f c h
    simp [hall]

theorem parseInt64_one_pad (p f : Nat) (hp : p ≤ 18) (hf : f < 10^p) :
    parseInt64 (49 :: digitsPad p f) = some ((10^p + f : Nat) : Int) := by
  unfold parseInt64
  rw [parseSigned_one_pad p f hf]
  have := pow10_le p hp
  have hfit : fits64 ((10^p + f : Nat) : Int) = true := by
    simp only [fits64, Bool.and_eq_true, decide_eq_true_eq]
    omega
  show (if fits64 ((10^p + f : Nat) : Int) = true then some _ else none) = _
  rw [if_pos hfit]

theorem tail64_frac (p f : Nat) (hp : p ≤ 18) (hf : f < 10^p) (value : Int) (neg : Bool) :
    tail64 p (10^p) value neg (some (fracStr p f)) =
      .ok (if neg then wrap64 (-(wrap64 (value + f))) else wrap64 (value + f)) := by
  unfold tail64
  simp only [fracBuf_fracStr, parseInt64_one_pad p f hp hf]
  have : ((10^p + f : Nat) : Int) - 10^p = (f : Int) := by push_cast; ring
  rw [this]

theorem tail128_frac (p f : Nat) (hf : f < 10^p) (value : Int) (neg : Bool) :
    tail128 p (10^p) value neg (some (fracStr p f)) =
      .ok (sat128 (if neg then -(value + f) else value + f)) := by
  unfold tail128
  simp only [fracBuf_fracStr, parseSigned_one_pad p f hf]
  have : value + ((10^p + f : Nat) : Int) - 10^p = value + (f : Int) := by push_cast; ring
  rw [this]

/-! ### FromString on a clean text without / with a dot -/
theorem fromStr64_nodot (p : Nat) (m : Int) (a : Str) (ha : Clean a) (hne : a ≠ []) :
    fromStr64 p m a = match head64 m a with
      | none => .err
      | some (value, neg) => tail64 p m value neg none := by
  have hc := clean_ne a ha
  unfold fromStr64
  rw [if_neg hne]
  simp only [stripCommas_id a (fun c h => (hc c h).1), hasExp_false a (fun c h => ⟨(hc c h).2.2.1, (hc c h).2.2.2⟩),
    splitDot_nodot a (fun c h => (hc c h).2.1)]
  rfl

theorem fromStr64_dot (p : Nat) (m : Int) (a b : Str) (ha : Clean a) (hb : Clean b) :
    fromStr64 p m (a ++ 46 :: b) = match head64 m a with
      | none => .err
      | some (value, neg) => tail64 p m value neg (some b) := by
  have hca := clean_ne a ha
  have hcb := clean_ne b hb
  have hall : ∀ c ∈ a ++ 46 :: b, c ≠ 44 ∧ c ≠ 69 ∧ c ≠ 101 := by
    intro c hc
    rcases List.mem_append.mp hc with h | h
    · have := hca c h; omega
    · rcases List.mem_cons.mp h with h | h
      · omega
      · have := hcb c h; omega
  unfold fromStr64
  rw [if_neg (by simp)]
  simp only [stripCommas_id _ (fun c h => (hall c h).1), hasExp_false _ (fun c h => (hall c h).2),
    splitDot_dot a b (fun c h => (hca c h).2.1)]
  rfl

theorem fromStr128_nodot (p : Nat) (m : Int) (a : Str) (ha : Clean a) (hne : a ≠ []) :
    fromStr128 p m a = match head128 m a with
      | none => .err
      | some (value, neg) => tail128 p m value neg none := by
  have hc := clean_ne a ha
  unfold fromStr128
  rw [if_neg hne]
  simp only [stripCommas_id a (fun c h => (hc c h).1), hasExp_false a (fun c h => ⟨(hc c h).2.2.1, (hc c h).2.2.2⟩),
    splitDot_nodot a (fun c h => (hc c h).2.1)]
  rfl

theorem fromStr128_dot (p : Nat) (m : Int) (a b : Str) (ha : Clean a) (hb : Clean b) :
    fromStr128 p m (a ++ 46 :: b) = match head128 m a with
      | none => .err
      | some (value, neg) => tail128 p m value neg (some b) := by
  have hca := clean_ne a ha
  have hcb := clean_ne b hb
  have hall : ∀ c ∈ a ++ 46 :: b, c ≠ 44 ∧ c ≠ 69 ∧ c ≠ 101 := by
    intro c hc
    rcases List.mem_append.mp hc with h | h
    · have := hca c h; omega
    · rcases List.mem_cons.mp h with h | h
      · omega
      · have := hcb c h; omega
  unfold fromStr128
  rw [if_neg (by simp)]
  simp only [stripCommas_id _ (fun c h => (hall c h).1), hasExp_false _ (fun c h => (hall c h).2),
    splitDot_dot a b (fun c h => (hca c h).2.1)]
  rfl

theorem fracStr_clean (p f : Nat) : Clean (fracStr p f) := fun c hc => Or.inl (fracStr_digits p f c hc)

/-- the integer part of a 64-bit raw value fits in 64 bits -/
theorem fits64_tdiv (raw m : Int) (hm : 0 < m) (hr : fits64 raw = true) : fits64 (raw.tdiv m) = true := by
  obtain ⟨h1, h2, h3, h4, h5⟩ := tdiv_facts raw m hm
  simp only [fits64, Bool.and_eq_true, decide_eq_true_eq] at hr ⊢
  by_cases h : 0 ≤ raw
  · obtain ⟨hr0, hq0⟩ := h4 h
    have : 1 * raw.tdiv m ≤ m * raw.tdiv m := Int.mul_le_mul_of_nonneg_right (by omega) hq0
    omega
  · obtain ⟨hr0, hq0⟩ := h5 (by omega)
    have : 1 * (-(raw.tdiv m)) ≤ m * (-(raw.tdiv m)) := Int.mul_le_mul_of_nonneg_right (by omega) (by omega)
    have e : m * (-(raw.tdiv m)) = -(m * raw.tdiv m) := by ring
    omega

/-! ### the round trip -/
theorem fromStr64_toStr (p : Nat) (hp : p ≤ 18) (raw : Int) (hr : fits64 raw = true) :
    fromStr64 p (10^p) (toStr (10^p) raw) = .ok raw := by
  obtain ⟨h1, h2, h3, h4, h5⟩ := tdiv_facts raw (10^p) (pow10_pos p)
  have hq := fits64_tdiv raw (10^p) (pow10_pos p) hr
  generalize hqd : raw.tdiv (10^p) = q at *
  generalize hrd : raw.tmod (10^p) = r at *
  have hmq : (10:Int)^p * q = q * 10^p := by ring
  by_cases h0 : r = 0
  · -- integer value
    rw [toStr_int _ _ (by rw [hrd]; exact h0), hqd, fromStr64_nodot p _ _ (intStr_clean q) (intStr_shape q).1,
      head64_intStr _ q hq]
    have hraw : raw = q * 10^p := by omega
    by_cases hneg : q < 0
    · simp only [hneg, ↓reduceIte, tail64]
      apply congrArg Res.ok
      apply C64.wrap_eq hr
      have : C64 (-(wrap64 (wrap64 (-q) * 10^p))) (-((-q) * 10^p)) :=
        C64.neg (C64.trans (C64.wrap _) (C64.mul _ (C64.wrap _)))
      rw [show -((-q) * (10:Int)^p) = raw by rw [hraw]; ring] at this
      exact this
    · simp only [hneg, ↓reduceIte, tail64]
      apply congrArg Res.ok
      rw [hraw] at hr
      simpa [hraw] using wrap64_of_fits _ hr
  · -- value with a fraction
    have hne : raw.tmod (10^p) ≠ 0 := by rw [hrd]; exact h0
    rw [toStr_frac p raw hne, hqd, hrd]
    have hf : r.natAbs < 10^p := by
      have : ((10:Int)^p) = ((10^p : Nat) : Int) := by simp
      omega
    by_cases hz : q = 0 ∧ raw < 0
    · -- "-0.x"
      obtain ⟨hq0, hlt⟩ := hz
      subst hq0
      simp only [hlt, and_self, if_true]
      have e : ([45] ++ intStr 0 ++ [46] ++ fracStr p r.natAbs : Str) = [45, 48] ++ 46 :: fracStr p r.natAbs := by
        simp [intStr, natStr]
      rw [e, fromStr64_dot p _ [45, 48] _ (by intro c hc; simp at hc; rcases hc with h | h <;> simp [h, isDigit])
        (fracStr_clean p _)]
      have hh : head64 (10^p) [45, 48] = some (0, true) := by simp [head64]
      rw [hh]
      simp only [tail64_frac p _ hp hf, ↓reduceIte]
      apply congrArg Res.ok
      apply C64.wrap_eq hr
      have : C64 (-(wrap64 (0 + (r.natAbs : Int)))) (-(0 + (r.natAbs : Int))) := C64.neg (C64.wrap _)
      have hr' := (h5 (by omega)).1
      rw [show -(0 + (r.natAbs : Int)) = raw by omega] at this
      exact this
    · rw [if_neg hz]
      simp only [List.nil_append, List.append_assoc, List.cons_append]
      rw [fromStr64_dot p _ _ _ (intStr_clean q) (fracStr_clean p _), head64_intStr _ q hq]
      by_cases hneg : q < 0
      · have hr' := (h5 (by
          by_cases hh : raw ≤ 0
          · exact hh
          · have := (h4 (by omega)).2; omega)).1
        simp only [hneg, ↓reduceIte, tail64_frac p _ hp hf]
        apply congrArg Res.ok
        apply C64.wrap_eq hr
        have : C64 (-(wrap64 (wrap64 (wrap64 (-q) * 10^p) + (r.natAbs : Int)))) (-((-q) * 10^p + (r.natAbs : Int))) :=
          C64.neg (C64.trans (C64.wrap _) (C64.add (C64.trans (C64.wrap _) (C64.mul _ (C64.wrap _))) (C64.refl _)))
        rw [show -((-q) * (10:Int)^p + (r.natAbs : Int)) = raw by
          have : -((-q) * (10:Int)^p + (r.natAbs : Int)) = 10^p * q - (r.natAbs : Int) := by ring
          omega] at this
        exact this
      · -- q ≥ 0 and not (q = 0 ∧ raw < 0): raw > 0
        have hpos : 0 ≤ raw := by
          by_cases hh : 0 ≤ raw
          · exact hh
          · have := (h5 (by omega)).2
            exact absurd ⟨by omega, by omega⟩ hz
        have hr' := (h4 hpos).1
        simp only [hneg, ↓reduceIte, tail64_frac p _ hp hf]
        apply congrArg Res.ok
        apply C64.wrap_eq hr
        have : C64 (wrap64 (q * 10^p) + (r.natAbs : Int)) (q * 10^p + (r.natAbs : Int)) :=
          C64.add (C64.wrap _) (C64.refl _)
        rw [show q * (10:Int)^p + (r.natAbs : Int) = raw by omega] at this
        exact this

theorem sat128_of_fits (z : Int) (h : fits128 z = true) : sat128 z = z := by
  simp only [fits128, Bool.and_eq_true, decide_eq_true_eq] at h
  unfold sat128
  split
  · split <;> omega
  · split <;> omega

/-- f128 computes the fraction by subtraction; it is the same text -/
theorem toStr128_eq (mult raw : Int) : toStr128 mult raw = toStr mult raw := by
  have : raw - raw.tdiv mult * mult = raw.tmod mult := by
    have := Int.mul_tdiv_add_tmod raw mult
    rw [Int.mul_comm] at this
    omega
  unfold toStr128 toStr
  simp only [this]

theorem fromStr128_toStr (p : Nat) (raw : Int) (hr : fits128 raw = true) :
    fromStr128 p (10^p) (toStr (10^p) raw) = .ok raw := by
  obtain ⟨h1, h2, h3, h4, h5⟩ := tdiv_facts raw (10^p) (pow10_pos p)
  generalize hqd : raw.tdiv (10^p) = q at *
  generalize hrd : raw.tmod (10^p) = r at *
  have hsat := sat128_of_fits raw hr
  by_cases h0 : r = 0
  · rw [toStr_int _ _ (by rw [hrd]; exact h0), hqd, fromStr128_nodot p _ _ (intStr_clean q) (intStr_shape q).1,
      head128_intStr _ q]
    have hraw : raw = q * 10^p := by
      have : (10:Int)^p * q = q * 10^p := by ring
      omega
    by_cases hneg : q < 0
    · simp only [hneg, ↓reduceIte, tail128]
      rw [show -(-q * (10:Int)^p) = raw by rw [hraw]; ring, hsat]
    · simp only [hneg, ↓reduceIte, tail128]
      rw [← hraw]; simp [hsat]
  · have hne : raw.tmod (10^p) ≠ 0 := by rw [hrd]; exact h0
    rw [toStr_frac p raw hne, hqd, hrd]
    have hf : r.natAbs < 10^p := by
      have : ((10:Int)^p) = ((10^p : Nat) : Int) := by simp
      omega
    have hmq : (10:Int)^p * q = q * 10^p := by ring
    by_cases hz : q = 0 ∧ raw < 0
    · obtain ⟨hq0, hlt⟩ := hz
      subst hq0
      simp only [hlt, and_self, if_true]
      have e : ([45] ++ intStr 0 ++ [46] ++ fracStr p r.natAbs : Str) = [45, 48] ++ 46 :: fracStr p r.natAbs := by
        simp [intStr, natStr]
      rw [e, fromStr128_dot p _ [45, 48] _ (by intro c hc; simp at hc; rcases hc with h | h <;> simp [h, isDigit])
        (fracStr_clean p _)]
      have hh : head128 (10^p) [45, 48] = some (0, true) := by simp [head128]
      rw [hh]
      simp only [tail128_frac p _ hf, ↓reduceIte]
      have hr' := (h5 (by omega)).1
      rw [show -(0 + (r.natAbs : Int)) = raw by omega, hsat]
    · rw [if_neg hz]
      simp only [List.nil_append, List.append_assoc, List.cons_append]
      rw [fromStr128_dot p _ _ _ (intStr_clean q) (fracStr_clean p _), head128_intStr _ q]
      by_cases hneg : q < 0
      · have hr' := (h5 (by
          by_cases hh : raw ≤ 0
          · exact hh
          · have := (h4 (by omega)).2; omega)).1
        simp only [hneg, ↓reduceIte, tail128_frac p _ hf]
        rw [show -(-q * (10:Int)^p + (r.natAbs : Int)) = raw by
          have : -(-q * (10:Int)^p + (r.natAbs : Int)) = 10^p * q - (r.natAbs : Int) := by ring
          omega, hsat]
      · have hpos : 0 ≤ raw := by
          by_cases hh : 0 ≤ raw
          · exact hh
          · have := (h5 (by omega)).2
            exact absurd ⟨by omega, by omega⟩ hz
        have hr' := (h4 hpos).1
        simp only [hneg, ↓reduceIte, tail128_frac p _ hf]
        rw [show q * (10:Int)^p + (r.natAbs : Int) = raw by omega]; simp [hsat]

end FixedText
