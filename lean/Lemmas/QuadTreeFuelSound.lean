import Model.QuadTree
/-! Soundness of the driver's run-time fuel test, for EVERY instance of the rectangle operations (no law, no box — in
    particular the `Float` and `Int64` instances): the fuel-0 fallback of `Node.insert` can only be taken on a node that
    sits `fuel` levels below the node the insertion started at, insertion never makes a tree shallower, hence a result
    whose depth is below the fuel was computed without the fallback and is the result for every larger fuel.  Lifted to
    whole histories: if `Tree.fuelOK` holds after every prefix (what the driver tests after every line), the run is the
    run with any larger fuel — the unbounded recursion of the Go code.  Core Lean only. -/
namespace QT
variable {R P : Type} [L : RectOps R P]

namespace Node

theorem depth_addHere (n : Node R) (it : Item R) : (addHere n it).depth = n.depth := by
  cases n <;> rfl

/-- an inserter that never makes a node shallower -/
def Mono (ins : Node R → Item R → Node R) : Prop := ∀ c it, c.depth ≤ (ins c it).depth

theorem route_mono (ins : Node R → Item R → Node R) (h : Mono ins) : Mono (route ins) := by
  intro n it
  cases n with
  | leaf r cs => exact Nat.le_refl _
  | split r cs c0 c1 c2 c3 =>
    simp only [route]
    split
    · have := h c0 it; simp only [depth]; omega
    · split
      · have := h c1 it; simp only [depth]; omega
      · split
        · have := h c2 it; simp only [depth]; omega
        · split
          · have := h c3 it; simp only [depth]; omega
          · exact Nat.le_refl _

theorem fold_mono (g : Node R → Item R → Node R) (h : Mono g) (cs : List (Item R)) (acc : Node R) :
    acc.depth ≤ (cs.foldl g acc).depth := by
  induction cs generalizing acc with
  | nil => exact Nat.le_refl _
  | cons c cs ih => exact Nat.le_trans (h acc c) (ih (g acc c))

theorem insert_mono (threshold fuel : Nat) : Mono (insert (L := L) threshold fuel) := by
  induction fuel with
  | zero => intro c it; simp [insert, depth_addHere]
  | succ f ih =>
    intro n it
    simp only [insert]
    cases n with
    | split r cs c0 c1 c2 c3 => exact route_mono _ ih _ it
    | leaf r cs =>
      simp only
      split
      · simp [depth]
      · exact route_mono _ ih _ it

/-- two inserters agree whenever the first one's result is at most `d` deep -/
def AgreeBelow (ins ins' : Node R → Item R → Node R) (d : Nat) : Prop :=
  ∀ c it, (ins c it).depth < d → ins c it = ins' c it

theorem route_agree (ins ins' : Node R → Item R → Node R) (d : Nat) (ha : AgreeBelow ins ins' d) (n : Node R)
    (it : Item R) (hd : (route ins n it).depth < d + 1) : route ins n it = route ins' n it := by
  cases n with
  | leaf r cs => rfl
  | split r cs c0 c1 c2 c3 =>
    simp only [route] at hd ⊢
    split
    · rename_i hc; rw [if_pos hc] at hd; simp only [depth] at hd; rw [ha c0 it (by omega)]
    · rename_i h0
      rw [if_neg h0] at hd
      split
      · rename_i hc; rw [if_pos hc] at hd; simp only [depth] at hd; rw [ha c1 it (by omega)]
      · rename_i h1
        rw [if_neg h1] at hd
        split
        · rename_i hc; rw [if_pos hc] at hd; simp only [depth] at hd; rw [ha c2 it (by omega)]
        · rename_i h2
          rw [if_neg h2] at hd
          split
          · rename_i hc; rw [if_pos hc] at hd; simp only [depth] at hd; rw [ha c3 it (by omega)]
          · rfl

theorem fold_route_agree (ins ins' : Node R → Item R → Node R) (hm : Mono ins) (d : Nat) (ha : AgreeBelow ins ins' d)
    (cs : List (Item R)) (acc : Node R) (hd : (cs.foldl (fun a one => route ins a one) acc).depth < d + 1) :
    cs.foldl (fun a one => route ins a one) acc = cs.foldl (fun a one => route ins' a one) acc := by
  induction cs generalizing acc with
  | nil => rfl
  | cons c cs ih =>
    simp only [List.foldl_cons] at hd ⊢
    have h1 : (route ins acc c).depth < d + 1 :=
      Nat.lt_of_le_of_lt (fold_mono (fun a one => route ins a one) (route_mono ins hm) cs _) hd
    rw [← route_agree ins ins' d ha acc c h1]
    exact ih _ hd

/-- **a result shallower than the fuel does not depend on the fuel** -/
theorem insert_depth_sound (threshold : Nat) (f j : Nat) :
    AgreeBelow (insert (L := L) threshold f) (insert (L := L) threshold (f + j)) f := by
  induction f with
  | zero => intro c it h; omega
  | succ f ih =>
    intro n it hd
    have e : f + 1 + j = (f + j) + 1 := by omega
    rw [e]
    simp only [insert] at hd ⊢
    cases n with
    | split r cs c0 c1 c2 c3 => exact route_agree _ _ f ih _ it hd
    | leaf r cs =>
      simp only at hd ⊢
      split
      · rename_i hs
        rw [if_pos hs] at hd
        have hm := route_mono _ (insert_mono (L := L) threshold f)
        have hfold := Nat.lt_of_le_of_lt (hm _ it) hd
        rw [← fold_route_agree _ _ (insert_mono threshold f) f ih cs _ hfold]
        exact route_agree _ _ f ih _ it hd
      · rename_i hs
        rw [if_neg hs] at hd
        exact route_agree _ _ f ih _ it hd

end Node

namespace Tree

theorem reorgFold_mono (rect : R) (threshold fuel : Nat) (l : List (Item R)) (s : Node R × List (Item R)) :
    s.1.depth ≤ (l.foldl (reorgStep rect threshold fuel) s).1.depth := by
  induction l generalizing s with
  | nil => exact Nat.le_refl _
  | cons c t ih =>
    simp only [List.foldl_cons]
    refine Nat.le_trans ?_ (ih _)
    unfold reorgStep
    split
    · exact Node.insert_mono threshold fuel s.1 c
    · exact Nat.le_refl _

theorem reorgFold_sound (rect : R) (threshold f j : Nat) (l : List (Item R)) (s : Node R × List (Item R))
    (hd : (l.foldl (reorgStep rect threshold f) s).1.depth < f) :
    l.foldl (reorgStep rect threshold f) s = l.foldl (reorgStep rect threshold (f + j)) s := by
  induction l generalizing s with
  | nil => rfl
  | cons c t ih =>
    simp only [List.foldl_cons] at hd ⊢
    have h1 : (reorgStep rect threshold f s c).1.depth < f := Nat.lt_of_le_of_lt (reorgFold_mono rect threshold f t _) hd
    have e : reorgStep rect threshold f s c = reorgStep rect threshold (f + j) s c := by
      unfold reorgStep at h1 ⊢
      split
      · rename_i hc
        rw [if_pos hc] at h1
        rw [Node.insert_depth_sound threshold f j s.1 c h1]
      · rfl
    rw [← e]
    exact ih _ hd

theorem reorganize_sound (f j : Nat) (t : Tree R) (h : (t.reorganize f).fuelOK f = true) :
    t.reorganize f = t.reorganize (f + j) := by
  unfold reorganize at h ⊢
  simp only at h ⊢
  split
  · rfl
  · rename_i hne
    rw [if_neg hne] at h
    simp only [fuelOK, decide_eq_true_eq] at h
    rw [reorgFold_sound _ t.thr f j t.all _ h]

theorem insert_sound (f j : Nat) (t : Tree R) (it : Item R) (h : (t.insert f it).fuelOK f = true) :
    t.insert f it = t.insert (f + j) it := by
  unfold insert at h ⊢
  split
  · rfl
  · rename_i he
    rw [if_neg he] at h
    have hout : ∀ t1 : Tree R, (if t1.outside.length > t1.thr then t1.reorganize f else t1).fuelOK f = true →
        (if t1.outside.length > t1.thr then t1.reorganize f else t1) =
        (if t1.outside.length > t1.thr then t1.reorganize (f + j) else t1) := by
      intro t1 h1
      split
      · rename_i hl; rw [if_pos hl] at h1; exact reorganize_sound f j t1 h1
      · rfl
    cases hr : t.root with
    | none => simp only [hr] at h ⊢; exact hout _ h
    | some r =>
      simp only [hr] at h ⊢
      split
      · rename_i hc
        rw [if_pos hc] at h
        simp only [fuelOK, decide_eq_true_eq] at h
        rw [Node.insert_depth_sound t.nodeThr f j r it h]
      · rename_i hc
        rw [if_neg hc] at h
        exact hout _ h

theorem apply_sound (f j : Nat) (t : Tree R) (op : Op R) (h : (t.apply f op).fuelOK f = true) :
    t.apply f op = t.apply (f + j) op := by
  cases op with
  | insert it => exact insert_sound f j t it h
  | remove id b => rfl
  | reorganize => exact reorganize_sound f j t h
  | clear => rfl
  | setThreshold k => rfl

/-- **the driver's fuel test is sound**: if `fuelOK` holds after every prefix of the history, the run is the run with any
    larger fuel -/
theorem run_sound (f j : Nat) (k : Int) (ops : List (Op R))
    (h : ∀ n, (Tree.run f k (ops.take n)).fuelOK f = true) : Tree.run f k ops = Tree.run (f + j) k ops := by
  have aux : ∀ (ops : List (Op R)) (t : Tree R), (∀ n, ((ops.take n).foldl (Tree.apply f) t).fuelOK f = true) →
      ops.foldl (Tree.apply f) t = ops.foldl (Tree.apply (f + j)) t := by
    intro ops
    induction ops with
    | nil => intros; rfl
    | cons op rest ih =>
      intro t h
      simp only [List.foldl_cons]
      have h1 := h 1
      simp only [List.take_succ_cons, List.take_zero, List.foldl_cons, List.foldl_nil] at h1
      rw [← apply_sound f j t op h1]
      exact ih _ (fun n => by have := h (n + 1); simpa [List.take_succ_cons] using this)
  exact aux ops _ h

end Tree
end QT
