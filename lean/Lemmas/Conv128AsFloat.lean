import Lemmas.Conv128Float
/-! C02 float lemmas, part 4 (core Lean only): `AsFloat64` is exact below 2^53. -/
namespace Conv
open GoSem GoSem.F64

/-- `f` is finite and its exact value is the integer `z` (`±m·2^e = z`, stated without fractions) -/
def ValEq (f : F64) (z : Int) : Prop :=
  match f with
  | .fin s m e => -1074 ≤ e ∧ (if s then -(m : Int) else (m : Int)) * 2^(e + 1074).toNat = z * 2^1074
  | _ => False

theorem ofNat_valEq (u : Nat) (h0 : 0 < u) (h : u < 2^53) : ValEq (F64.ofNat u) (u : Int) ∧ ∃ m e, F64.ofNat u = .fin false m e ∧ m ≠ 0 := by
  have hu : u ≠ 0 := by omega
  have hl : u.log2 < 53 := (Nat.log2_lt hu).mpr h
  have := ofNat_exact u h0 h
  unfold F64.ofNat ofRat
  rw [this]
  refine ⟨⟨by omega, ?_⟩, _, _, rfl, ?_⟩
  · simp only [Bool.false_eq_true, if_false]
    have e1 : ((u.log2 : Int) - 52 + 1074).toNat = u.log2 + 1022 := by omega
    rw [e1]
    have : u * 2^(52 - u.log2) * 2^(u.log2 + 1022) = u * 2^1074 := by
      have e2 : 52 - u.log2 + (u.log2 + 1022) = 1074 := by omega
      rw [Nat.mul_assoc, ← Nat.pow_add, e2]
    have h2 := congrArg (fun n : Nat => (n : Int)) this
    push_cast at h2 ⊢
    exact h2
  · exact Nat.ne_of_gt (Nat.mul_pos h0 (pow_pos' _))

/-- **`Uint128.AsFloat64` is exact below 2^53** and has the value's sign (`+0` for 0, positive otherwise) -/
theorem U128.asFloat64_exact (u : U128) (h : u.toNat < 2^53) :
    ValEq u.asFloat64 (u.toNat : Int) ∧ ∃ m e, u.asFloat64 = .fin false m e ∧ (m = 0 ↔ u.toNat = 0) := by
  have hh := u.hi.isLt; have hl := u.lo.isLt
  have hhi : u.hi.toNat = 0 := by unfold U128.toNat at h; omega
  have hv : u.toNat = u.lo.toNat := by unfold U128.toNat; omega
  unfold U128.asFloat64
  rw [bv_eq_zero_iff, bv_eq_zero_iff, decide_eq_true hhi, if_pos rfl, hv]
  by_cases hl0 : u.lo.toNat = 0
  · rw [decide_eq_true hl0, if_pos rfl, hl0]
    exact ⟨⟨by decide, by simp⟩, 0, -1074, rfl, by simp⟩
  · rw [decide_eq_false hl0, if_neg (by simp)]
    obtain ⟨h1, m, e, h2, h3⟩ := ofNat_valEq u.lo.toNat (by omega) (by omega)
    exact ⟨h1, m, e, h2, by constructor <;> intro c <;> contradiction⟩

/-- **`Int128.AsFloat64` is exact below 2^53** and has the value's sign -/
theorem I128.asFloat64_exact (i : I128) (h1 : -(2^53) < i.toInt) (h2 : i.toInt < 2^53) :
    ValEq i.asFloat64 i.toInt ∧
      ∃ m e, i.asFloat64 = .fin (decide (i.toInt < 0)) m e ∧ (m = 0 ↔ i.toInt = 0) := by
  have hh := i.hi.isLt; have hl := i.lo.isLt
  unfold I128.asFloat64
  rw [and_signBit_ne]
  by_cases hs : 2^63 ≤ i.hi.toNat
  · rw [decide_eq_true hs, if_pos rfl]
    have hneg : i.toInt < 0 := by unfold I128.toInt; rw [if_neg (by omega)]; omega
    have ha := I128.absUint128_toNat i
    rw [if_pos hneg] at ha
    obtain ⟨hv, m, e, he, hm⟩ := U128.asFloat64_exact i.absUint128 (by omega)
    rw [he] at hv ⊢
    unfold ValEq at hv
    simp only [Bool.false_eq_true, if_false] at hv
    refine ⟨⟨hv.1, ?_⟩, m, e, by simp [F64.neg, hneg], by rw [hm]; omega⟩
    simp only [F64.neg, Bool.not_false, if_true]
    have := hv.2
    rw [ha] at this
    rw [Int.neg_mul, this, Int.neg_mul, Int.neg_neg]
  · rw [decide_eq_false hs, if_neg (by simp)]
    have hpos : ¬ i.toInt < 0 := by unfold I128.toInt; rw [if_pos (by omega)]; omega
    have hv : (i.asUint128.toNat : Int) = i.toInt := by
      unfold I128.asUint128 U128.toNat I128.toInt; rw [if_pos (by omega)]
    obtain ⟨hve, m, e, he, hm⟩ := U128.asFloat64_exact i.asUint128 (by omega)
    rw [hv] at hve
    exact ⟨hve, m, e, by rw [he, decide_eq_false hpos], by rw [hm]; omega⟩

end Conv
