import Lemmas.FixedFloatConv
import Lemmas.FixedTextLiteralAll
import Model.FixedTextExp
/-! C04 helper lemmas, part 9: the exponent branch of `FromString` (`Model/FixedTextExp.lean`).

    * the branch never produces a NaN, so the f128 outcome `panic` (`big.Float.SetFloat64(NaN)`) is unreachable;
    * the f64 outcome `implDefined` needs a float product above `2^62`;
    * the value returned for a well-formed exponent literal `±N·10^(E−k)` lies within the stated distance of the exact
      scaled value (two roundings for f64: `ParseFloat`, the float product; `ParseFloat` and the `Text('f', D+1)` detour
      for f128) — by the C03 theorems `ofRat_val`, `f64_from_val`, `f128_from_val`. -/
namespace FixedText
open GoSem (F64)
open GoSem.F64 Fixed.FloatLemmas Fixed.Rat

/-! ### the full function on the branches of the plain model -/

theorem fromStrX64_ok {p : Nat} {m : Int} {s : Str} {v : Int} (h : fromStr64 p m s = .ok v) :
    fromStrX64 p m s = .ok v := by simp [fromStrX64, h]
theorem fromStrX128_ok {p : Nat} {m : Int} {s : Str} {v : Int} (h : fromStr128 p m s = .ok v) :
    fromStrX128 p m s = .ok v := by simp [fromStrX128, h]
theorem fromStrX64_err {p : Nat} {m : Int} {s : Str} (h : fromStr64 p m s = .err) :
    fromStrX64 p m s = .err := by simp [fromStrX64, h]
theorem fromStrX128_err {p : Nat} {m : Int} {s : Str} (h : fromStr128 p m s = .err) :
    fromStrX128 p m s = .err := by simp [fromStrX128, h]
theorem fromStrX64_exp {p : Nat} {m : Int} {s : Str} (h : fromStr64 p m s = .exp) :
    fromStrX64 p m s = expBranch64 m (stripCommas s) := by simp [fromStrX64, h]
theorem fromStrX128_exp {p : Nat} {m : Int} {s : Str} (h : fromStr128 p m s = .exp) :
    fromStrX128 p m s = expBranch128 p m (stripCommas s) := by simp [fromStrX128, h]

/-! ### the float of an exponent literal -/

/-- magnitude of the literal as a quotient of naturals -/
theorem expValue_ofRat (neg : Bool) (N k : Nat) (E : Int) (hN : N ≠ 0) :
    ∃ A D : ℕ, 0 < A ∧ 0 < D ∧ expValue neg N k E = ofRat neg A D ∧
      (A : ℚ) / D = (N : ℚ) * (10 : ℚ) ^ (E - k) := by
  unfold expValue
  rw [if_neg hN]
  by_cases h : E - k ≥ 0
  · rw [if_pos h]
    refine ⟨N * 10 ^ (E - k).toNat, 1, by positivity, by norm_num, rfl, ?_⟩
    obtain ⟨n, hn⟩ := Int.eq_ofNat_of_zero_le h
    rw [hn]
    simp
  · rw [if_neg h]
    refine ⟨N, 10 ^ (-(E - k)).toNat, by omega, by positivity, rfl, ?_⟩
    obtain ⟨n, hn⟩ : ∃ n : ℕ, E - k = -(n : ℤ) := ⟨(-(E - k)).toNat, by omega⟩
    rw [hn]
    simp only [neg_neg, Int.toNat_natCast, zpow_neg, zpow_natCast]
    push_cast
    rw [div_eq_mul_inv]

/-- a rounding is never a NaN: the infinity of its sign or a finite datum of its sign -/
theorem ofRat_cases (neg : Bool) (A D : ℕ) (hA : 0 < A) (hD : 0 < D) :
    ofRat neg A D = .inf neg ∨ ∃ m e, ofRat neg A D = .fin neg m e := by
  unfold ofRat
  rcases roundRatN_val neg A D hA hD with ⟨h, _⟩ | ⟨m, e, h, _⟩
  · exact Or.inl h
  · exact Or.inr ⟨m, e, h⟩

theorem expValue_cases (neg : Bool) (N k : Nat) (E : Int) :
    expValue neg N k E = .inf neg ∨ ∃ m e, expValue neg N k E = .fin neg m e := by
  by_cases hN : N = 0
  · right; exact ⟨0, -1074, by simp [expValue, hN]⟩
  · obtain ⟨A, D, hA, hD, h, _⟩ := expValue_ofRat neg N k E hN
    rw [h]; exact ofRat_cases neg A D hA hD

/-- `ParseFloat` on the exponent grammar returns a finite float or an error -/
theorem parseFloatExp_fin (t : Str) (x : Flt) (h : parseFloatExp t = some x) : ∃ s m e, x = .fin s m e := by
  unfold parseFloatExp at h
  split at h
  · cases h
  · rename_i neg N k E _
    rcases expValue_cases neg N k E with hi | ⟨m, e, hf⟩
    · rw [hi] at h; simp at h
    · rw [hf] at h
      simp only [Option.some.injEq] at h
      exact ⟨neg, m, e, h.symm⟩

/-- … and, for a well-formed literal, it is the float of the literal -/
theorem parseFloatExp_lit (t : Str) (neg : Bool) (N k : Nat) (E : Int) (x : Flt)
    (hl : parseExpLit? t = some (neg, N, k, E)) (h : parseFloatExp t = some x) : x = expValue neg N k E := by
  unfold parseFloatExp at h
  rw [hl] at h
  simp only at h
  split at h
  · cases h
  · exact (Option.some.inj h).symm

/-! ### the whole grammar of `readFloat` (`readFloatAny`) -/

theorem hexFloatPrefixed_imp (t : Str) (h : hexFloatPrefixed t = true) : hexPrefixed t = true := by
  unfold hexFloatPrefixed at h
  unfold hexPrefixed
  generalize dropSign t = b at *
  match b, h with
  | 48 :: c :: _ :: _, h => exact h

/-- on a plain decimal exponent text (no hexadecimal prefix, no underscore) the whole grammar is the decimal one -/
theorem readFloatAny_plain (t : Str) (h : outsideExp t = false) : readFloatAny t = parseFloatExp t := by
  unfold outsideExp at h
  simp only [Bool.or_eq_false_iff] at h
  obtain ⟨h1, h2⟩ := h
  have h3 : hexFloatPrefixed t = false := by
    cases hh : hexFloatPrefixed t with
    | false => rfl
    | true => rw [hexFloatPrefixed_imp t hh] at h1; cases h1
  unfold readFloatAny
  rw [h3, h2]
  simp

theorem hexValue_cases (neg : Bool) (H k : Nat) (E : Int) :
    hexValue neg H k E = .inf neg ∨ ∃ m e, hexValue neg H k E = .fin neg m e := by
  unfold hexValue
  by_cases hH : H = 0
  · right; exact ⟨0, -1074, by simp [hH]⟩
  · rw [if_neg hH]
    split
    · exact ofRat_cases neg _ 1 (by positivity) (by norm_num)
    · exact ofRat_cases neg _ _ (by omega) (by positivity)

theorem finiteOrErr_fin (x y : Flt) (neg : Bool) (hx : x = .inf neg ∨ ∃ m e, x = .fin neg m e)
    (h : finiteOrErr x = some y) : ∃ s m e, y = .fin s m e := by
  rcases hx with hi | ⟨m, e, hf⟩
  · rw [hi] at h; simp [finiteOrErr] at h
  · rw [hf] at h
    simp only [finiteOrErr, Option.some.injEq] at h
    exact ⟨neg, m, e, h.symm⟩

/-- `ParseFloat` on a text of the exponent branch — decimal, with underscores, or hexadecimal — returns a finite float or
    an error, never a NaN and never an infinity -/
theorem readFloatAny_fin (t : Str) (x : Flt) (h : readFloatAny t = some x) : ∃ s m e, x = .fin s m e := by
  unfold readFloatAny at h
  split at h
  · split at h
    · cases h
    · split at h
      · cases h
      · rename_i neg H k E _
        exact finiteOrErr_fin _ x neg (hexValue_cases neg H k E) h
  · split at h
    · split at h
      · cases h
      · split at h
        · cases h
        · rename_i neg N k E _
          exact finiteOrErr_fin _ x neg (expValue_cases neg N k E) h
    · exact parseFloatExp_fin t x h

/-! ### `strconv.special` and the dispatch -/

theorem lowerAZ_noExp (c d : Nat) (h : lowerAZ c = d) (hd : d ≠ 101) : c ≠ 69 ∧ c ≠ 101 := by
  unfold lowerAZ at h
  split at h <;> omega

/-- a text matched in full by a lower-case word without 'e' contains neither 'e' nor 'E' -/
theorem commonPrefixLen_full : ∀ (s p : Str), (∀ d ∈ p, d ≠ 101) → commonPrefixLen s p = s.length →
    ∀ c ∈ s, c ≠ 69 ∧ c ≠ 101
  | [], _, _, _ => by simp
  | c :: s, [], _, h => by simp [commonPrefixLen] at h
  | c :: s, d :: p, hp, h => by
    unfold commonPrefixLen at h
    split at h
    · rename_i hcd
      have h' : commonPrefixLen s p = s.length := by simpa using h
      intro x hx
      rcases List.mem_cons.mp hx with hx | hx
      · subst hx; exact lowerAZ_noExp x d hcd (hp d (by simp))
      · exact commonPrefixLen_full s p (fun e he => hp e (by simp [he])) h' x hx
    · simp at h

theorem commonPrefixLen_le : ∀ (s p : Str), commonPrefixLen s p ≤ s.length
  | [], _ => by simp [commonPrefixLen]
  | _ :: _, [] => by simp [commonPrefixLen]
  | c :: s, d :: p => by
    unfold commonPrefixLen
    split
    · have := commonPrefixLen_le s p; simp; omega
    · simp

theorem specialInf_whole (neg : Bool) (k : Nat) (s : Str) (x : Flt) (n : Nat) (h : specialInf neg k s = some (x, n))
    (hn : n = k + s.length) : ∀ c ∈ s, c ≠ 69 ∧ c ≠ 101 := by
  unfold specialInf at h
  simp only at h
  have hle := commonPrefixLen_le s infinityTxt
  split at h
  · rename_i hc
    cases h
    apply commonPrefixLen_full s infinityTxt (by decide)
    unfold infLen at hn hc
    split at hn <;> omega
  · cases h

/-- **a special value that is the WHOLE text has no 'e' / 'E'**: "inf", "infinity", "nan" (any case, the infinities with an
    optional sign) are the only texts `special` accepts in full -/
theorem special_whole_noExp (t : Str) (x : Flt) (n : Nat) (h : special t = some (x, n)) (hn : n = t.length) :
    hasExp t = false := by
  apply hasExp_false
  cases t with
  | nil => simp [special] at h
  | cons c r =>
    unfold special at h
    simp only at h
    split at h
    · rename_i hc
      have hr := specialInf_whole _ 1 r x n h (by simp at hn; omega)
      intro d hd
      rcases List.mem_cons.mp hd with hd | hd
      · subst hd; omega
      · exact hr d hd
    · split at h
      · exact specialInf_whole _ 0 (c :: r) x n h (by simpa using hn)
      · split at h
        · split at h
          · rename_i h3
            cases h
            exact commonPrefixLen_full (c :: r) nanTxt (by decide) (by rw [h3]; exact hn)
          · cases h
        · cases h

/-- on a text with e/E `ParseFloat` never returns through `special`: it is `readFloat`'s result, or a syntax error because
    the special word is followed by more bytes -/
theorem parseFloatAny_exp (t : Str) (he : hasExp t = true) (x : Flt) (h : parseFloatAny t = some x) :
    special t = none ∧ readFloatAny t = some x := by
  unfold parseFloatAny at h
  split at h
  · rename_i y n hs
    split at h
    · rename_i hn
      rw [special_whole_noExp t y n hs hn] at he
      cases he
    · cases h
  · rename_i hs
    exact ⟨hs, h⟩

/-- **`ParseFloat` on a text of the exponent branch returns a finite float or an error** — the NaN and the error-free
    infinities of `special` need a text without e/E -/
theorem parseFloatAny_fin (t : Str) (he : hasExp t = true) (x : Flt) (h : parseFloatAny t = some x) :
    ∃ s m e, x = .fin s m e :=
  readFloatAny_fin t x (parseFloatAny_exp t he x h).2

theorem parseDecBody_bad_head (neg : Bool) (a : Nat) (w : Str) (ha : isDigit a = false) (h46 : a ≠ 46) :
    parseDecBody neg (a :: w) = none := by
  unfold parseDecBody
  have hs : splitDot (a :: w) = (a :: (splitDot w).1, (splitDot w).2) := by simp [splitDot, h46]
  rw [hs]
  simp [ha]

theorem commonPrefixLen_pos (s p : Str) (h : 0 < commonPrefixLen s p) :
    ∃ c s' d p', s = c :: s' ∧ p = d :: p' ∧ lowerAZ c = d := by
  match s, p, h with
  | c :: s', d :: p', h =>
    unfold commonPrefixLen at h
    split at h
    · rename_i hcd; exact ⟨c, s', d, p', rfl, rfl, hcd⟩
    · cases h

theorem lowerAZ_letter (c d : Nat) (h : lowerAZ c = d) (hd : d = 105 ∨ d = 110) : isDigit c = false ∧ c ≠ 46 ∧ c ≠ 69 ∧ c ≠ 101 := by
  unfold lowerAZ at h
  simp only [isDigit]
  split at h <;> (refine ⟨by simp; omega, by omega, by omega, by omega⟩)

theorem specialInf_head (neg : Bool) (k : Nat) (s : Str) (r : Flt × Nat) (h : specialInf neg k s = some r) :
    ∃ c s', s = c :: s' ∧ isDigit c = false ∧ c ≠ 46 ∧ c ≠ 69 ∧ c ≠ 101 := by
  unfold specialInf at h
  simp only at h
  split at h
  · rename_i hc
    have hpos : 0 < commonPrefixLen s infinityTxt := by unfold infLen at hc; split at hc <;> omega
    obtain ⟨c, s', d, p', hs, hp, hcd⟩ := commonPrefixLen_pos s infinityTxt hpos
    have hd : d = 105 := by
      unfold infinityTxt at hp
      cases hp; rfl
    exact ⟨c, s', hs, lowerAZ_letter c d hcd (Or.inl hd)⟩
  · cases h

/-- a text that begins like a special value is not a decimal exponent literal -/
theorem special_not_literal (t : Str) (r : Flt × Nat) (h : special t = some r) : parseExpLit? t = none := by
  have hdec : parseDec? (splitExp t).1 = none := by
    cases t with
    | nil => simp [special] at h
    | cons c w =>
      unfold special at h
      simp only at h
      split at h
      · rename_i hc
        obtain ⟨a, s', hs, ha, h46, h69, h101⟩ := specialInf_head _ _ _ _ h
        subst hs
        have hse : splitExp (c :: a :: s') = (c :: a :: (splitExp s').1, (splitExp s').2) := by
          have h1 : ¬ (c = 69 ∨ c = 101) := by omega
          have h2 : ¬ (a = 69 ∨ a = 101) := by omega
          simp [splitExp, h1, h2]
        rw [hse]
        rcases hc with hc | hc
        · subst hc
          exact parseDecBody_bad_head false a _ ha h46
        · subst hc
          exact parseDecBody_bad_head true a _ ha h46
      · rename_i hc
        have hbad : isDigit c = false ∧ c ≠ 46 ∧ c ≠ 69 ∧ c ≠ 101 ∧ c ≠ 45 ∧ c ≠ 43 := by
          split at h
          · rename_i h2; simp only [isDigit]; refine ⟨by simp; omega, by omega, by omega, by omega, by omega, by omega⟩
          · split at h
            · rename_i h2 h3; simp only [isDigit]; refine ⟨by simp; omega, by omega, by omega, by omega, by omega, by omega⟩
            · cases h
        obtain ⟨hd, h46, h69, h101, h45, h43⟩ := hbad
        have hse : splitExp (c :: w) = (c :: (splitExp w).1, (splitExp w).2) := by
          have h1 : ¬ (c = 69 ∨ c = 101) := by omega
          simp [splitExp, h1]
        rw [hse]
        have : parseDec? (c :: (splitExp w).1) = parseDecBody false (c :: (splitExp w).1) := by
          unfold parseDec?
          split
          · rename_i heq; cases heq; exact absurd rfl h45
          · rename_i heq; cases heq; exact absurd rfl h43
          · rfl
        rw [this]
        exact parseDecBody_bad_head false c _ hd h46
  unfold parseExpLit?
  cases (splitExp t).2 with
  | none => rfl
  | some ex => simp [hdec]

/-- on a plain decimal exponent literal the whole of `ParseFloat` is the decimal grammar -/
theorem parseFloatAny_plain (t : Str) (h : outsideExp t = false) (r : Bool × Nat × Nat × Int)
    (hl : parseExpLit? t = some r) : parseFloatAny t = parseFloatExp t := by
  have hs : special t = none := by
    cases hsp : special t with
    | none => rfl
    | some q => rw [special_not_literal t q hsp] at hl; cases hl
  unfold parseFloatAny
  rw [hs]
  exact readFloatAny_plain t h

/-! ### f128: the `panic` outcome is unreachable -/

theorem expBranch128_no_panic (p : Nat) (m : Int) (t : Str) (he : hasExp t = true) : expBranch128 p m t ≠ .panic := by
  unfold expBranch128
  split
  · simp
  · rename_i x hx
    obtain ⟨s, mm, e, rfl⟩ := parseFloatAny_fin t he x hx
    simp [Fixed.F128.fromFloat]

theorem fromStrX128_no_panic (p : Nat) (m : Int) (s : Str) : fromStrX128 p m s ≠ .panic := by
  unfold fromStrX128
  split
  · simp
  · simp
  · rename_i hexp
    exact expBranch128_no_panic p m _ ((fromStr128_exp_iff p m s).mp hexp).2

/-- f64 never reports `panic` and f128 never `implDefined` (the outcomes belong to one type each) -/
theorem fromStrX64_no_panic (p : Nat) (m : Int) (s : Str) : fromStrX64 p m s ≠ .panic := by
  unfold fromStrX64
  split
  · simp
  · simp
  · unfold expBranch64
    split
    · simp
    · split <;> simp

theorem fromStrX128_no_impl (p : Nat) (m : Int) (s : Str) : fromStrX128 p m s ≠ .implDefined := by
  unfold fromStrX128
  split
  · simp
  · simp
  · unfold expBranch128
    split
    · simp
    · split <;> simp

/-! ### f64: when the conversion is implementation-defined -/

/-- the outcome `implDefined` needs a float whose product with the multiplier exceeds `2^62` -/
theorem expBranch64_impl (m : Int) (hm : Fixed.Mult m) (t : Str) (he : hasExp t = true)
    (h : expBranch64 m t = .implDefined) :
    ∃ s mx ex, parseFloatAny t = some (.fin s mx ex) ∧ (2 : ℚ) ^ 62 < (mx : ℚ) * (2 : ℚ) ^ ex * m := by
  unfold expBranch64 at h
  split at h
  · cases h
  · rename_i x hx
    obtain ⟨s, mx, ex, rfl⟩ := parseFloatAny_fin t he x hx
    refine ⟨s, mx, ex, hx, ?_⟩
    by_contra hc
    obtain ⟨r, hr⟩ := f64_from_defined m hm s mx ex (not_lt.mp hc)
    rw [hr] at h
    cases h

/-! ### the value returned for a well-formed exponent literal -/

/-- the exact value of the literal, `±N·10^(E−k)` -/
def expRat (neg : Bool) (N k : Nat) (E : Int) : ℚ := sgn neg * ((N : ℚ) * (10 : ℚ) ^ (E - k))

/-- the float of a literal in the normal range: finite, of the literal's sign, relative error at most `2^-53` -/
theorem expValue_val (neg : Bool) (N k : Nat) (E : Int) (hN : N ≠ 0)
    (hlo : (2 : ℚ) ^ (-1022 : ℤ) ≤ (N : ℚ) * (10 : ℚ) ^ (E - k))
    (hhi : (N : ℚ) * (10 : ℚ) ^ (E - k) < (2 : ℚ) ^ (1023 : ℤ)) :
    ∃ m e, expValue neg N k E = .fin neg m e ∧
      |fval (expValue neg N k E) - expRat neg N k E| ≤ (N : ℚ) * (10 : ℚ) ^ (E - k) / 2 ^ 53 := by
  obtain ⟨A, D, hA, hD, h, hv⟩ := expValue_ofRat neg N k E hN
  obtain ⟨m, e, hf, hb⟩ := ofRat_val neg A D hA hD (by rw [hv]; exact hlo) (by rw [hv]; exact hhi)
  refine ⟨m, e, by rw [h, hf], ?_⟩
  rw [h, hf]
  unfold fval expRat
  rw [← mul_sub, abs_sgn_mul, ← hv]
  exact hb

/-- zero mantissa: the float is ±0 whatever the exponent -/
theorem expValue_zero (neg : Bool) (k : Nat) (E : Int) : expValue neg 0 k E = .fin neg 0 (-1074) := by
  simp [expValue]

/-- **f64**: for a well-formed exponent literal of normal magnitude, a defined result lies within
    `1 + |value·mult| / 2^51` of the exact scaled value (one raw unit from the truncation, the rest from the two
    roundings `ParseFloat` and the float product) -/
theorem expBranch64_val (m : Int) (hm : Fixed.Mult m) (t : Str) (neg : Bool) (N k : Nat) (E : Int) (r : Int)
    (ho : outsideExp t = false) (hl : parseExpLit? t = some (neg, N, k, E)) (hN : N ≠ 0)
    (hlo : (2 : ℚ) ^ (-1022 : ℤ) ≤ (N : ℚ) * (10 : ℚ) ^ (E - k))
    (hhi : (N : ℚ) * (10 : ℚ) ^ (E - k) < (2 : ℚ) ^ (1023 : ℤ))
    (h : expBranch64 m t = .ok r) :
    |(r : ℚ) - expRat neg N k E * m| < 1 + (N : ℚ) * (10 : ℚ) ^ (E - k) * m / 2 ^ 51 := by
  have hm0 : (0 : ℚ) < (m : ℚ) := by exact_mod_cast hm.pos
  unfold expBranch64 at h
  rw [parseFloatAny_plain t ho _ hl] at h
  split at h
  · cases h
  · have hdummy : True := trivial
    · rename_i x hx
      have hxe := parseFloatExp_lit t neg N k E x hl hx
      subst hxe
      obtain ⟨mm, e, _, hb⟩ := expValue_val neg N k E hN hlo hhi
      generalize expValue neg N k E = x at *
      generalize hV : (N : ℚ) * (10 : ℚ) ^ (E - k) = V at *
      have hV0 : 0 ≤ V := le_trans (le_of_lt (zp_pos _)) hlo
      have hfrom : Fixed.F64.fromFloat m x = .ok r := by
        split at h
        · rename_i v hv; cases h; exact hv
        · cases h
      have hr := f64_from_val m hm x r hfrom
      -- distance of the float product from the exact scaled value
      have hd : |fval x * m - expRat neg N k E * m| ≤ V * m / 2 ^ 53 := by
        rw [← sub_mul, abs_mul, abs_of_pos hm0]
        calc |fval x - expRat neg N k E| * m ≤ V / 2 ^ 53 * m := mul_le_mul_of_nonneg_right hb (le_of_lt hm0)
          _ = V * m / 2 ^ 53 := by ring
      have hrat : |expRat neg N k E| = V := by
        unfold expRat; rw [hV, abs_sgn_mul, abs_of_nonneg hV0]
      have hprod : |fval x * m| ≤ V * m + V * m / 2 ^ 53 := by
        have : fval x * m = (fval x * m - expRat neg N k E * m) + expRat neg N k E * m := by ring
        rw [this]
        refine le_trans (abs_add_le _ _) ?_
        rw [abs_mul (expRat neg N k E), hrat, abs_of_pos hm0]
        linarith
      have htri : |(r : ℚ) - expRat neg N k E * m| ≤ |(r : ℚ) - fval x * m| + |fval x * m - expRat neg N k E * m| := by
        have : (r : ℚ) - expRat neg N k E * m = ((r : ℚ) - fval x * m) + (fval x * m - expRat neg N k E * m) := by ring
        rw [this]; exact abs_add_le _ _
      have hVm : 0 ≤ V * m := mul_nonneg hV0 (le_of_lt hm0)
      rcases hr with h1 | h2
      · have : V * m / 2 ^ 53 ≤ V * m / 2 ^ 51 := by
          apply div_le_div_of_nonneg_left hVm (by positivity) (by norm_num)
        linarith
      · have h3 : |(r : ℚ) - fval x * m| ≤ (V * m + V * m / 2 ^ 53) / 2 ^ 53 :=
          le_trans h2 (div_le_div_of_nonneg_right hprod (by positivity))
        have : (V * m + V * m / 2 ^ 53) / 2 ^ 53 + V * m / 2 ^ 53 ≤ V * m / 2 ^ 51 := by
          have e : (V * m + V * m / 2 ^ 53) / 2 ^ 53 + V * m / 2 ^ 53 = V * m * ((1 + 1 / 2 ^ 53) / 2 ^ 53 + 1 / 2 ^ 53) := by
            ring
          rw [e, div_eq_mul_one_div (V * m)]
          exact mul_le_mul_of_nonneg_left (by norm_num) hVm
        linarith

/-- **f128**: for a well-formed exponent literal of normal magnitude, an unsaturated result, read as a number, lies within
    `19/20` of a raw unit plus the `ParseFloat` rounding of the exact value -/
theorem expBranch128_val (c : ℕ × ℤ) (hc : c ∈ Facts.fixedConfigs) (t : Str) (neg : Bool) (N k : Nat) (E : Int)
    (r : Int) (ho : outsideExp t = false) (hl : parseExpLit? t = some (neg, N, k, E)) (hN : N ≠ 0)
    (hlo : (2 : ℚ) ^ (-1022 : ℤ) ≤ (N : ℚ) * (10 : ℚ) ^ (E - k))
    (hhi : (N : ℚ) * (10 : ℚ) ^ (E - k) < (2 : ℚ) ^ (1023 : ℤ))
    (h : expBranch128 c.1 c.2 t = .ok r) (h1 : Fixed.F128.minRaw < r) (h2 : r < Fixed.F128.maxRaw) :
    |value c.2 r - expRat neg N k E| ≤ 19 / 20 / (c.2 : ℚ) + (N : ℚ) * (10 : ℚ) ^ (E - k) / 2 ^ 53 := by
  unfold expBranch128 at h
  rw [parseFloatAny_plain t ho _ hl] at h
  split at h
  · cases h
  · have hdummy : True := trivial
    · rename_i x hx
      have hxe := parseFloatExp_lit t neg N k E x hl hx
      subst hxe
      obtain ⟨mm, e, _, hb⟩ := expValue_val neg N k E hN hlo hhi
      generalize expValue neg N k E = x at *
      have hfrom : Fixed.F128.fromFloat c.2 c.1 x = some r := by
        split at h
        · rename_i v hv; cases h; exact hv
        · cases h
      have hr := f128_from_val c hc x r hfrom h1 h2
      have : value c.2 r - expRat neg N k E = (value c.2 r - fval x) + (fval x - expRat neg N k E) := by ring
      rw [this]
      exact le_trans (abs_add_le _ _) (add_le_add hr hb)

/-- zero mantissa, both types: `±0e…` is the value 0 -/
theorem expBranch_zero (c : ℕ × ℤ) (hc : c ∈ Facts.fixedConfigs) (t : Str) (neg : Bool) (k : Nat) (E : Int)
    (hl : parseExpLit? t = some (neg, 0, k, E)) (ho : outsideExp t = false) :
    expBranch64 c.2 t = .ok 0 ∧ expBranch128 c.1 c.2 t = .ok 0 := by
  have hm : Fixed.Mult c.2 := ⟨c, hc, rfl⟩
  have htab : ∀ q ∈ Facts.fixedConfigs, q.2 = (10 : ℤ) ^ q.1 := by decide
  have hpf : parseFloatExp t = some (.fin neg 0 (-1074)) := by
    unfold parseFloatExp; rw [hl]; simp [expValue_zero]
  unfold expBranch64 expBranch128
  rw [parseFloatAny_plain t ho _ hl]
  simp only [hpf]
  constructor
  · unfold Fixed.F64.fromFloat
    rw [mul_multF_zero c.2 hm, toI64_zero]
  · rw [htab c hc]
    simp [Fixed.F128.fromFloat, Fixed.F128.parseDigits, Fixed.F128.textDigits, GoSem.F64.num, GoSem.F64.den,
      GoSem.F64.roundQ, Fixed.F128.clamp, Fixed.F128.maxRaw, Fixed.F128.minRaw]

/-! ### range of the results of the branch -/

theorem toI64_fits (x : Flt) (v : Int) (h : GoSem.F64.toI64 x = .ok v) : fits64 v = true := by
  unfold GoSem.F64.toI64 at h
  split at h
  · rename_i hc
    cases h
    simp only [Bool.and_eq_true, decide_eq_true_eq] at hc
    simp only [fits64, Bool.and_eq_true, decide_eq_true_eq]
    omega
  · cases h

theorem expBranch64_fits (m : Int) (t : Str) (v : Int) (h : expBranch64 m t = .ok v) : fits64 v = true := by
  unfold expBranch64 at h
  split at h
  · cases h
  · split at h
    · rename_i w hw
      cases h
      exact toI64_fits _ _ hw
    · cases h

theorem clamp_fits (x : Int) : fits128 (Fixed.F128.clamp x) = true := by
  simp only [fits128, Bool.and_eq_true, decide_eq_true_eq]
  unfold Fixed.F128.clamp Fixed.F128.maxRaw Fixed.F128.minRaw
  split
  · omega
  · split <;> omega

theorem expBranch128_fits (p : Nat) (m : Int) (t : Str) (v : Int) (h : expBranch128 p m t = .ok v) :
    fits128 v = true := by
  unfold expBranch128 at h
  split at h
  · cases h
  · rename_i x hx
    cases x with
    | nan => simp [Fixed.F128.fromFloat] at h
    | inf s =>
      simp only [Fixed.F128.fromFloat] at h
      cases h
      decide
    | fin s mm e =>
      simp only [Fixed.F128.fromFloat] at h
      cases h
      exact clamp_fits _

/-- every value the full function returns lies in the range of its type -/
theorem fromStrX64_fits (p : Nat) (m : Int) (s : Str) (v : Int) (h : fromStrX64 p m s = .ok v) : fits64 v = true := by
  unfold fromStrX64 at h
  split at h
  · rename_i w hw
    cases h
    rcases fromStr64_total p m s with h1 | h1 | ⟨u, h1, h2⟩
    · rw [h1] at hw; cases hw
    · rw [h1] at hw; cases hw
    · rw [h1] at hw; cases hw; exact h2
  · cases h
  · exact expBranch64_fits m _ v h

theorem fromStrX128_fits (p : Nat) (m : Int) (s : Str) (v : Int) (h : fromStrX128 p m s = .ok v) :
    fits128 v = true := by
  unfold fromStrX128 at h
  split at h
  · rename_i w hw
    cases h
    rcases fromStr128_total p m s with h1 | h1 | ⟨u, h1, h2⟩
    · rw [h1] at hw; cases hw
    · rw [h1] at hw; cases hw
    · rw [h1] at hw; cases hw; exact h2
  · cases h
  · exact expBranch128_fits p m _ v h

end FixedText

/-! ### a text that begins with a double quote is not a number for `FromString` (why the Unmarshal entry points unquote) -/
namespace FixedText

theorem parseDec?_quote (u : Str) : parseDec? (34 :: u) = none := by
  have h : parseDec? (34 :: u) = parseDecBody false (34 :: u) := rfl
  rw [h]
  unfold parseDecBody
  have hs : splitDot (34 :: u) = (34 :: (splitDot u).1, (splitDot u).2) := by
    simp [splitDot]
  rw [hs]
  simp [isDigit]

theorem splitExp_quote (u : Str) : splitExp (34 :: u) = (34 :: (splitExp u).1, (splitExp u).2) := by
  simp [splitExp]

theorem parseFloatAny_quote (u : Str) : parseFloatAny (34 :: u) = none := by
  have hhex : hexFloatPrefixed (34 :: u) = false := by simp [hexFloatPrefixed, dropSign]
  have h1 : parseFloatExp (34 :: u) = none := by
    unfold parseFloatExp parseExpLit?
    rw [splitExp_quote]
    simp only
    cases (splitExp u).2 with
    | none => rfl
    | some ex => simp [parseDec?_quote]
  have h2 : parseExpLitU? (34 :: u) = none := by
    unfold parseExpLitU?
    rw [splitExp_quote]
    simp only
    cases (splitExp u).2 with
    | none => rfl
    | some ex =>
      have : List.filter (fun x => x != 95) (34 :: (splitExp u).1) = 34 :: List.filter (fun x => x != 95) (splitExp u).1 := by
        simp [List.filter]
      simp [this, parseDec?_quote]
  have hsp : special (34 :: u) = none := by simp [special]
  unfold parseFloatAny
  rw [hsp]
  unfold readFloatAny
  rw [hhex, h1, h2]
  simp

theorem head_quote (m : Int) (q : Str) : head64 m (34 :: q) = none ∧ head128 m (34 :: q) = none := by
  have hu : parseUnsigned (34 :: q) = none := by simp [parseUnsigned, isDigit]
  have hs : parseSigned (34 :: q) = none := by
    have : parseSigned (34 :: q) = (parseUnsigned (34 :: q)).map (fun n => (n : Int)) := rfl
    rw [this, hu]; rfl
  constructor
  · unfold head64 parseInt64
    rw [hs]; simp
  · unfold head128
    rw [hs]; simp

/-- **`FromString` rejects every text that begins with a double quote**, in both types, whatever follows -/
theorem fromStrX_quote (p : Nat) (m : Int) (u : Str) :
    fromStrX64 p m (34 :: u) = .err ∧ fromStrX128 p m (34 :: u) = .err := by
  have hsc : stripCommas (34 :: u) = 34 :: stripCommas u := by simp [stripCommas, List.filter]
  have hsd : splitDot (34 :: stripCommas u) = (34 :: (splitDot (stripCommas u)).1, (splitDot (stripCommas u)).2) := by
    simp [splitDot]
  have h64 : fromStr64 p m (34 :: u) = if hasExp (34 :: stripCommas u) = true then .exp else .err := by
    unfold fromStr64
    rw [if_neg (by simp), hsc]
    simp only
    split
    · rfl
    · rw [hsd, (head_quote m _).1]
  have h128 : fromStr128 p m (34 :: u) = if hasExp (34 :: stripCommas u) = true then .exp else .err := by
    unfold fromStr128
    rw [if_neg (by simp), hsc]
    simp only
    split
    · rfl
    · rw [hsd, (head_quote m _).2]
  unfold fromStrX64 fromStrX128
  rw [h64, h128, hsc]
  by_cases he : hasExp (34 :: stripCommas u) = true
  · simp only [he, if_true, expBranch64, expBranch128, parseFloatAny_quote, and_self]
  · simp only [he, if_false, and_self, Bool.false_eq_true]

end FixedText
