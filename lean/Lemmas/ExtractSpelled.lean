import Lemmas.ExtractREq
/-! C19: the destination as the caller spells it.  `Ex.absPath` is `filepath.Abs(dst)`, the first statement of both
    `ExtractWithMask`; whatever the spelling (relative, `.`/`..`, repeated or trailing separators, the empty string) and
    whatever the working directory, the root it yields satisfies the two path hypotheses every other theorem makes
    (`GoodPath`: components are non-empty and slash-free; `NoDots`: no component is empty, `.` or `..`), and it is a fixed
    point of `filepath.Abs` (`absPath_render`).  Also: error propagation stated directly about the RESOLVING loop
    bodies, for every file system (no invariant: a linked destination, a linked ancestor, anything). -/
namespace Ex

theorem goodPath_nil : GoodPath [] := by intro c hc; cases hc
theorem noDots_nil : NoDots [] := by intro c hc; cases hc

theorem absPath_good (cwd : P) (dst : List Nat) (hc : GoodPath cwd) : GoodPath (absPath cwd dst) := by
  unfold absPath
  split
  · exact cleanJoin_good [] dst goodPath_nil
  · exact cleanJoin_good cwd dst hc

theorem absPath_nodots (cwd : P) (dst : List Nat) (hc : NoDots cwd) : NoDots (absPath cwd dst) := by
  unfold absPath
  split
  · exact cleanJoin_nodots [] dst noDots_nil
  · exact cleanJoin_nodots cwd dst hc

/-- an absolute spelling does not look at the working directory -/
theorem absPath_absolute (cwd cwd' : P) (dst : List Nat) (h : dst.head? = some 47) :
    absPath cwd dst = absPath cwd' dst := by
  simp [absPath, h]

theorem absPath?_some (cwd : P) (dst : List Nat) : absPath? (some cwd) dst = some (absPath cwd dst) := by
  unfold absPath? absPath
  split <;> simp

/-! ### `filepath.Abs` of the text of a clean absolute path is that path -/

theorem splitSlash_ne_nil (l : List Nat) : splitSlash l ≠ [] := by
  cases l with
  | nil => simp [splitSlash]
  | cons c t =>
    unfold splitSlash
    split
    · simp
    · split <;> simp

theorem splitSlash_noslash_self (c : List Nat) (h : 47 ∉ c) : splitSlash c = [c] := by
  induction c with
  | nil => rfl
  | cons a t ih =>
    have ha : a ≠ 47 := by intro e; apply h; simp [e]
    have ht : 47 ∉ t := by intro e; apply h; simp [e]
    unfold splitSlash
    rw [if_neg ha, ih ht]

theorem splitSlash_comp_slash (c t : List Nat) (h : 47 ∉ c) : splitSlash (c ++ 47 :: t) = c :: splitSlash t := by
  induction c with
  | nil => simp [splitSlash]
  | cons a r ih =>
    have ha : a ≠ 47 := by intro e; apply h; simp [e]
    have hr : 47 ∉ r := by intro e; apply h; simp [e]
    simp only [List.cons_append]
    rw [splitSlash, if_neg ha, ih hr]

theorem splitSlash_comp_render (c : Comp) (t : P) (h : GoodPath (c :: t)) : splitSlash (c ++ render t) = c :: t := by
  induction t generalizing c with
  | nil =>
    have : render ([] : P) = [] := rfl
    rw [this, List.append_nil]
    exact splitSlash_noslash_self c (h c (by simp)).2
  | cons d t ih =>
    rw [render_cons, splitSlash_comp_slash c _ (h c (by simp)).2]
    rw [ih d (fun x hx => h x (by simp at hx ⊢; exact Or.inr hx))]

theorem foldl_cleanStep_nodots (p acc : P) (hd : NoDots p) : p.foldl cleanStep acc = acc ++ p := by
  induction p generalizing acc with
  | nil => simp
  | cons c t ih =>
    have hc := hd c (by simp)
    have : cleanStep acc c = acc ++ [c] := by
      unfold cleanStep
      rw [if_neg hc.1, if_neg hc.2]
    rw [List.foldl_cons, this, ih _ (fun x hx => hd x (by simp [hx]))]
    simp

/-- joining the text of a clean path to a clean path appends it -/
theorem cleanJoin_render (acc p : P) (hg : GoodPath p) (hd : NoDots p) : cleanJoin acc (render p) = acc ++ p := by
  unfold cleanJoin
  cases p with
  | nil => simp [render, splitSlash, cleanStep]
  | cons c t =>
    rw [render_cons]
    have : splitSlash (47 :: (c ++ render t)) = [] :: splitSlash (c ++ render t) := by
      rw [splitSlash]; simp
    rw [this, splitSlash_comp_render c t hg, List.foldl_cons]
    have h0 : cleanStep acc [] = acc := by simp [cleanStep]
    rw [h0]
    exact foldl_cleanStep_nodots _ acc hd

/-- `filepath.Abs` is the identity on the text of a clean absolute path other than `/` -/
theorem absPath_render (cwd p : P) (hne : p ≠ []) (hg : GoodPath p) (hd : NoDots p) : absPath cwd (render p) = p := by
  unfold absPath
  have : (render p).head? = some 47 := by
    cases p with
    | nil => exact absurd rfl hne
    | cons c t => rw [render_cons]; rfl
  rw [if_pos this, cleanJoin_render [] p hg hd]
  simp

/-! ### `filepath.Rel` as `internal.EnsureNoSymlinks` uses it -/

theorem commonLen_le (r p : P) : commonLen r p ≤ r.length ∧ commonLen r p ≤ p.length := by
  induction r generalizing p with
  | nil => simp [commonLen]
  | cons a s ih =>
    cases p with
    | nil => simp [commonLen]
    | cons b t =>
      simp only [commonLen]
      split
      · have := ih t; simp; omega
      · simp

theorem commonLen_take (r p : P) : r.take (commonLen r p) = p.take (commonLen r p) := by
  induction r generalizing p with
  | nil => simp [commonLen]
  | cons a s ih =>
    cases p with
    | nil => simp [commonLen]
    | cons b t =>
      simp only [commonLen]
      split
      · rename_i h; subst h; simp [ih t]
      · simp

theorem cleanStep_dotdot (acc : P) : cleanStep acc [46, 46] = acc.dropLast := by
  simp [cleanStep]

theorem foldl_dotdots (n : Nat) (acc : P) :
    (List.replicate n [46, 46]).foldl cleanStep acc = acc.take (acc.length - n) := by
  induction n generalizing acc with
  | zero => simp
  | succ k ih =>
    rw [List.replicate_succ, List.foldl_cons, cleanStep_dotdot, ih]
    rw [List.dropLast_eq_take, List.take_take]
    congr 1
    simp
    omega

/-- the defining property of `filepath.Rel`: joining the relative path to the root gives the path back -/
theorem relParts_join (root p : P) (hd : NoDots p) : (relParts root p).foldl cleanStep root = p := by
  unfold relParts
  split
  · rename_i h; subst h; simp [cleanStep]
  · rw [List.foldl_append, foldl_dotdots]
    have hle := commonLen_le root p
    have h1 : root.length - (root.length - commonLen root p) = commonLen root p := by omega
    rw [h1, foldl_cleanStep_nodots _ _ (fun c hc => hd c (List.mem_of_mem_drop hc)), commonLen_take]
    exact List.take_append_drop _ _

/-! ### error propagation on the resolving loop bodies, for every file system -/

theorem tarOneG_short (g : Bool) (fs : FS) (root : P) (mask : Nat) (e : Entry) (hs : e.short = true) (hk : e.kind = .reg) :
    (tarOneG g fs root mask e).2 = false := by
  unfold tarOneG
  simp only [hk]
  split
  · rfl
  split
  · rfl
  split
  · rfl
  split
  · rfl
  split
  · rfl
  · simp [hs]

theorem tarOneG_corrupt (g : Bool) (fs : FS) (root : P) (mask : Nat) (e : Entry) (hk : e.kind = .corrupt) :
    tarOneG g fs root mask e = (fs, false) := by
  simp [tarOneG, hk]

theorem zipOneG_short (g : Bool) (fs : FS) (root : P) (mask : Nat) (e : Entry) (hs : e.short = true) (hk : e.kind ≠ .dir) :
    (zipOneG g fs root mask e).2 = false := by
  unfold zipOneG
  simp only []
  split
  · rfl
  split
  · rfl
  split
  · simp [hs]
  · rename_i h; exact absurd h hk
  · rfl
  · split
    · rfl
    split
    · rfl
    · simp [hs]

/-- what an iteration whose payload is incomplete leaves: the same tree as the iteration of the same entry with a
    complete payload of those bytes (the file is there, holding what could be copied) -/
theorem tarOneG_short_tree (g : Bool) (fs : FS) (root : P) (mask : Nat) (e : Entry) :
    (tarOneG g fs root mask { e with short := true }).1 = (tarOneG g fs root mask { e with short := false }).1 := by
  unfold tarOneG
  simp only []
  split
  · rfl
  split
  · rfl
  split
  · rfl
  split
  · split
    · rfl
    · split <;> rfl
  · rfl
  · rfl
  · rfl
  · rfl

/-! ### the copy step as system calls (Model/ExtractR.lean: `extractFileR`, `tarOneF`, `zipOneF`) -/

/-- what the copy step makes of an entry: the bytes that reach the file, and whether the step is an error -/
def afterCopy (flt : Faults) (path : P) (e : Entry) : Entry :=
  { e with data := (ioCopy e.data e.short flt.writeLimit).1,
           short := deferredClose (ioCopy e.data e.short flt.writeLimit).2 (flt.closeFails.contains path) }

theorem setData_setData (a : Array Inode) (ino : Nat) (d1 d2 : List Nat) :
    setData (setData a ino d1) ino d2 = setData a ino d2 := by
  unfold setData
  cases h : a[ino]? with
  | none => simp [h]
  | some n =>
    have hlt : ino < a.size := by
      rcases Nat.lt_or_ge ino a.size with h1 | h1
      · exact h1
      · rw [Array.getElem?_eq_none h1] at h; cases h
    simp [h, Array.getElem?_setIfInBounds_self_of_lt hlt]

theorem setData_push (a : Array Inode) (x : Inode) (d : List Nat) :
    setData (a.push x) a.size d = a.push { x with data := d } := by
  unfold setData
  simp [Array.setIfInBounds]
  apply Array.ext_getElem?
  intro i
  rw [Array.getElem?_set]
  by_cases h : a.size = i
  · subst h; simp
  · simp [h, Array.getElem?_push]
    have h' : ¬ i = a.size := fun e => h e.symm
    simp [h']


/-- open, write*, close on the resolving file system is `openWriteR` of the bytes that reached the file, with the
    deferred-close result as the error -/
theorem extractFileR_eq (flt : Faults) (fs1 : FS) (path : P) (mode : Nat) (payload : List Nat) (readErr : Bool) :
    extractFileR flt fs1 path mode payload readErr =
      match openWriteR fs1 path mode (ioCopy payload readErr flt.writeLimit).1 with
      | none => (fs1, false)
      | some fs2 => (fs2, !deferredClose (ioCopy payload readErr flt.writeLimit).2 (flt.closeFails.contains path)) := by
  unfold extractFileR openTruncR openWriteR writeFd
  cases h : statR fs1 path with
  | found q n =>
    cases n with
    | file ino => simp [setData_setData]
    | dir m => simp
    | symlink t => simp
  | missing q =>
    simp only [FS.put]
    simp [setData_push]
  | err e => simp


/-- the entry as the loop bodies WITHOUT a copy step see it: payload = the bytes that reached the file, `short` = the
    copy step was an error (entries that have no copy step are unchanged) -/
def tarFaulted (flt : Faults) (root : P) (e : Entry) : Entry :=
  if e.kind = .reg then afterCopy flt (cleanJoin root e.name) e else e
def zipFaulted (flt : Faults) (root : P) (e : Entry) : Entry :=
  if e.kind = .symlink ∨ e.kind = .dir ∨ e.kind = .corrupt then e else afterCopy flt (cleanJoin root e.name) e

theorem tarOneF_eq (flt : Faults) (fs : FS) (root : P) (mask : Nat) (e : Entry) :
    tarOneF flt fs root mask e = tarOneR fs root mask (tarFaulted flt root e) := by
  unfold tarOneF tarOneR tarOneG tarFaulted
  cases hk : e.kind <;> (simp [hk, afterCopy, extractFileR_eq]; try rfl)

theorem zipOneF_eq (flt : Faults) (fs : FS) (root : P) (mask : Nat) (e : Entry) :
    zipOneF flt fs root mask e = zipOneR fs root mask (zipFaulted flt root e) := by
  unfold zipOneF zipOneR zipOneG zipFaulted
  cases hk : e.kind <;> (simp [hk, afterCopy, extractFileR_eq]; try rfl)

theorem extractWith_map (one : FS → Entry → FS × Bool) (f : Entry → Entry) (es : List Entry) (fs : FS) :
    extractWith (fun fs e => one fs (f e)) fs es = extractWith one fs (es.map f) := by
  induction es generalizing fs with
  | nil => rfl
  | cons e t ih =>
    simp only [List.map_cons, extractWith]
    split <;> simp_all

/-- the loops with faults are the fault-free loops on the entries as the copy step leaves them -/
theorem tarExtractF_eq (flt : Faults) (fs : FS) (root : P) (mask : Nat) (es : List Entry) :
    tarExtractF flt fs root mask es = tarExtractR fs root mask (es.map (tarFaulted flt root)) := by
  unfold tarExtractF tarExtractR
  rw [← extractWith_map]
  congr 1; funext fs e; exact tarOneF_eq flt fs root mask e

theorem zipExtractF_eq (flt : Faults) (fs : FS) (root : P) (mask : Nat) (es : List Entry) :
    zipExtractF flt fs root mask es = zipExtractR fs root mask (es.map (zipFaulted flt root)) := by
  unfold zipExtractF zipExtractR
  rw [← extractWith_map]
  congr 1; funext fs e; exact zipOneF_eq flt fs root mask e

theorem afterCopy_nofault (path : P) (e : Entry) : afterCopy {} path e = e := by
  cases e; simp [afterCopy, ioCopy, deferredClose]

theorem tarFaulted_nofault (root : P) (e : Entry) : tarFaulted {} root e = e := by
  unfold tarFaulted; split <;> simp [afterCopy_nofault]
theorem zipFaulted_nofault (root : P) (e : Entry) : zipFaulted {} root e = e := by
  unfold zipFaulted; split <;> simp [afterCopy_nofault]

theorem tarExtractF_nofault (fs : FS) (root : P) (mask : Nat) (es : List Entry) :
    tarExtractF {} fs root mask es = tarExtractR fs root mask es := by
  rw [tarExtractF_eq]; congr 1
  induction es with
  | nil => rfl
  | cons e t ih => simp [tarFaulted_nofault, ih]
theorem zipExtractF_nofault (fs : FS) (root : P) (mask : Nat) (es : List Entry) :
    zipExtractF {} fs root mask es = zipExtractR fs root mask es := by
  rw [zipExtractF_eq]; congr 1
  induction es with
  | nil => rfl
  | cons e t ih => simp [zipFaulted_nofault, ih]

/-- a write that hits the limit, or a failing close, makes the copy step an error -/
theorem afterCopy_short (flt : Faults) (path : P) (e : Entry)
    (h : (∃ k, flt.writeLimit = some k ∧ e.data.length > k) ∨ flt.closeFails.contains path = true ∨ e.short = true) :
    (afterCopy flt path e).short = true := by
  unfold afterCopy ioCopy deferredClose
  rcases h with ⟨k, hk, hl⟩ | h | h
  · simp [hk, hl]
  · have h' : path ∈ flt.closeFails := by simpa using h
    cases hw : flt.writeLimit with
    | none => cases hs : e.short <;> simp [h', hs]
    | some k => by_cases hl : e.data.length > k <;> cases hs : e.short <;> simp [h', hl, hs]
  · cases hw : flt.writeLimit with
    | none => simp [h]
    | some k => by_cases hl : e.data.length > k <;> simp [h, hl]

/-- the bytes that reach the file: all that could be read, cut at the write limit -/
theorem afterCopy_data (flt : Faults) (path : P) (e : Entry) :
    (afterCopy flt path e).data = match flt.writeLimit with
      | some k => e.data.take k
      | none => e.data := by
  unfold afterCopy ioCopy
  cases hw : flt.writeLimit with
  | none => rfl
  | some k =>
    by_cases hl : e.data.length > k
    · simp [hl]
    · simp [hl]; rw [List.take_of_length_le (by omega)]

end Ex
