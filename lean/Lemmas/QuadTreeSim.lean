import Model.QuadTree
/-! Simulation between two instances of the rectangle operations: if a map `φ` between two rectangle types commutes with
    the operations of `RectOps` on the rectangles a history can produce (`Sim`), then the whole quadtree model commutes
    with `φ` — the tree built over the first type is, node for node and entry for entry, the `φ`-image of the tree built
    over the second, and every query returns the same entries.  Used with `φ = Int64.toInt` (`Lemmas/QuadTreeWrap.lean`)
    to carry the theorems about unbounded integers over to machine integers.  Core Lean only. -/
namespace QT

variable {R1 P1 R2 P2 : Type} [L1 : RectOps R1 P1] [L2 : RectOps R2 P2]

/-- `φ` (rectangles) and `ψ` (points) commute with the operations.  `DS`: rectangles on which the predicates commute;
    `DN`: rectangles of tree nodes (closed under `quadrants`); `DU`: values of the running union of `Reorganize`; `DI`:
    bounds of stored nodes. -/
structure Sim (φ : R1 → R2) (ψ : P1 → P2) (DS DN DU DI : R1 → Prop) : Prop where
  empty_eq : ∀ a, L2.empty (φ a) = L1.empty a
  contains_eq : ∀ a b, DS a → DS b → L2.contains (φ a) (φ b) = L1.contains a b
  intersects_eq : ∀ a b, DS a → DS b → L2.intersects (φ a) (φ b) = L1.intersects a b
  inPt_eq : ∀ p a, DS a → L2.inPt (ψ p) (φ a) = L1.inPt p a
  canSplit_eq : ∀ a, DN a → L2.canSplit (φ a) = L1.canSplit a
  quad_eq : ∀ a, DN a → L2.quadrants (φ a) =
    (φ (L1.quadrants a).1, φ (L1.quadrants a).2.1, φ (L1.quadrants a).2.2.1, φ (L1.quadrants a).2.2.2)
  quad_dom : ∀ a, DN a → DN (L1.quadrants a).1 ∧ DN (L1.quadrants a).2.1 ∧ DN (L1.quadrants a).2.2.1 ∧
    DN (L1.quadrants a).2.2.2
  zero_eq : φ L1.zero = L2.zero
  zero_dom : DU L1.zero
  union_eq : ∀ a b, DU a → DI b → φ (L1.union a b) = L2.union (φ a) (φ b)
  union_dom : ∀ a b, DU a → DI b → DU (L1.union a b)
  du_dn : ∀ a, DU a → DN a
  dn_ds : ∀ a, DN a → DS a
  di_ds : ∀ a, DI a → DS a

def Item.map (φ : R1 → R2) (it : Item R1) : Item R2 := ⟨it.id, φ it.rect⟩

def Node.map (φ : R1 → R2) : Node R1 → Node R2
  | .leaf r cs => .leaf (φ r) (cs.map (Item.map φ))
  | .split r cs c0 c1 c2 c3 => .split (φ r) (cs.map (Item.map φ)) (map φ c0) (map φ c1) (map φ c2) (map φ c3)

def Tree.map (φ : R1 → R2) (t : Tree R1) : Tree R2 :=
  ⟨t.root.map (Node.map φ), t.outside.map (Item.map φ), t.threshold, t.nodeThr, t.count⟩

def Op.map (φ : R1 → R2) : Op R1 → Op R2
  | .insert it => .insert (Item.map φ it)
  | .remove id b => .remove id (φ b)
  | .reorganize => .reorganize
  | .clear => .clear
  | .setThreshold k => .setThreshold k

/-- all rectangles below a node are in their domains -/
def NDom (DN DI : R1 → Prop) : Node R1 → Prop
  | .leaf r cs => DN r ∧ ∀ it ∈ cs, DI it.rect
  | .split r cs c0 c1 c2 c3 => DN r ∧ (∀ it ∈ cs, DI it.rect) ∧ NDom DN DI c0 ∧ NDom DN DI c1 ∧ NDom DN DI c2 ∧
      NDom DN DI c3

structure TDom (DN DI : R1 → Prop) (t : Tree R1) : Prop where
  root : ∀ r, t.root = some r → NDom DN DI r
  outside : ∀ it ∈ t.outside, DI it.rect

section
variable {φ : R1 → R2} {ψ : P1 → P2} {DS DN DU DI : R1 → Prop}

@[simp] theorem Item.map_id (it : Item R1) : (Item.map φ it).id = it.id := rfl
@[simp] theorem Item.map_rect (it : Item R1) : (Item.map φ it).rect = φ it.rect := rfl

theorem Node.map_rect (n : Node R1) : (Node.map φ n).rect = φ n.rect := by
  cases n <;> rfl

theorem NDom.rect {n : Node R1} (h : NDom DN DI n) : DN n.rect := by
  cases n with
  | leaf r cs => exact h.1
  | split r cs c0 c1 c2 c3 => exact h.1

theorem Node.all_map (n : Node R1) : (Node.map φ n).all = n.all.map (Item.map φ) := by
  induction n with
  | leaf r cs => rfl
  | split r cs c0 c1 c2 c3 i0 i1 i2 i3 => simp [Node.map, Node.all, i0, i1, i2, i3]

theorem NDom.items {n : Node R1} (h : NDom DN DI n) : ∀ it ∈ n.all, DI it.rect := by
  induction n with
  | leaf r cs => exact h.2
  | split r cs c0 c1 c2 c3 i0 i1 i2 i3 =>
    obtain ⟨_, hc, h0, h1, h2, h3⟩ := h
    intro it hit
    simp only [Node.all, List.mem_append] at hit
    rcases hit with e | e | e | e | e
    · exact hc it e
    · exact i0 h0 it e
    · exact i1 h1 it e
    · exact i2 h2 it e
    · exact i3 h3 it e

theorem Node.depth_map (n : Node R1) : (Node.map φ n).depth = n.depth := by
  induction n with
  | leaf r cs => rfl
  | split r cs c0 c1 c2 c3 i0 i1 i2 i3 => simp [Node.map, Node.depth, i0, i1, i2, i3]

/-- the two inserters correspond -/
def InsSim (φ : R1 → R2) (DN DI : R1 → Prop) (i1 : Node R1 → Item R1 → Node R1) (i2 : Node R2 → Item R2 → Node R2) :
    Prop :=
  ∀ c it, NDom DN DI c → DI it.rect → NDom DN DI (i1 c it) ∧ Node.map φ (i1 c it) = i2 (Node.map φ c) (Item.map φ it)

theorem addHere_sim : InsSim φ DN DI Node.addHere Node.addHere := by
  intro c it hc hi
  cases c with
  | leaf r cs =>
    refine ⟨⟨hc.1, ?_⟩, by simp [Node.addHere, Node.map]⟩
    intro x hx
    rcases List.mem_append.mp hx with e | e
    · exact hc.2 x e
    · simp at e; subst e; exact hi
  | split r cs c0 c1 c2 c3 =>
    obtain ⟨a, b, h0, h1, h2, h3⟩ := hc
    refine ⟨⟨a, ?_, h0, h1, h2, h3⟩, by simp [Node.addHere, Node.map]⟩
    intro x hx
    rcases List.mem_append.mp hx with e | e
    · exact b x e
    · simp at e; subst e; exact hi

theorem route_sim (S : Sim φ ψ DS DN DU DI) (i1 : Node R1 → Item R1 → Node R1) (i2 : Node R2 → Item R2 → Node R2)
    (h : InsSim φ DN DI i1 i2) : InsSim φ DN DI (Node.route i1) (Node.route i2) := by
  intro n it hn hi
  cases n with
  | leaf r cs => exact addHere_sim (Node.leaf r cs) it hn hi
  | split r cs c0 c1 c2 c3 =>
    obtain ⟨a, b, h0, h1, h2, h3⟩ := hn
    have e : ∀ c : Node R1, NDom DN DI c →
        L2.contains (Node.map φ c).rect (Item.map φ it).rect = L1.contains c.rect it.rect := by
      intro c hc
      rw [Node.map_rect, Item.map_rect]
      exact S.contains_eq _ _ (S.dn_ds _ hc.rect) (S.di_ds _ hi)
    simp only [Node.route, Node.map, e c0 h0, e c1 h1, e c2 h2, e c3 h3]
    split
    · obtain ⟨x, y⟩ := h c0 it h0 hi
      exact ⟨⟨a, b, x, h1, h2, h3⟩, by simp [Node.map, y]⟩
    · split
      · obtain ⟨x, y⟩ := h c1 it h1 hi
        exact ⟨⟨a, b, h0, x, h2, h3⟩, by simp [Node.map, y]⟩
      · split
        · obtain ⟨x, y⟩ := h c2 it h2 hi
          exact ⟨⟨a, b, h0, h1, x, h3⟩, by simp [Node.map, y]⟩
        · split
          · obtain ⟨x, y⟩ := h c3 it h3 hi
            exact ⟨⟨a, b, h0, h1, h2, x⟩, by simp [Node.map, y]⟩
          · refine ⟨⟨a, ?_, h0, h1, h2, h3⟩, by simp [Node.map]⟩
            intro x hx
            rcases List.mem_append.mp hx with e | e
            · exact b x e
            · simp at e; subst e; exact hi

theorem fold_sim (g1 : Node R1 → Item R1 → Node R1) (g2 : Node R2 → Item R2 → Node R2) (h : InsSim φ DN DI g1 g2)
    (cs : List (Item R1)) (hcs : ∀ it ∈ cs, DI it.rect) (acc : Node R1) (hacc : NDom DN DI acc) :
    NDom DN DI (cs.foldl g1 acc) ∧
    Node.map φ (cs.foldl g1 acc) = (cs.map (Item.map φ)).foldl g2 (Node.map φ acc) := by
  induction cs generalizing acc with
  | nil => exact ⟨hacc, rfl⟩
  | cons c cs ih =>
    obtain ⟨x, y⟩ := h acc c hacc (hcs c (by simp))
    obtain ⟨p, q⟩ := ih (fun it hit => hcs it (by simp [hit])) (g1 acc c) x
    refine ⟨p, ?_⟩
    simp only [List.foldl_cons, List.map_cons]
    rw [q, y]

theorem insert_sim (S : Sim φ ψ DS DN DU DI) (threshold fuel : Nat) :
    InsSim φ DN DI (Node.insert (L := L1) threshold fuel) (Node.insert (L := L2) threshold fuel) := by
  induction fuel with
  | zero => intro c it hc hi; simpa [Node.insert] using addHere_sim c it hc hi
  | succ f ih =>
    intro n it hn hi
    have hr := route_sim S _ _ ih
    simp only [Node.insert]
    cases n with
    | split r cs c0 c1 c2 c3 => exact hr _ it hn hi
    | leaf r cs =>
      simp only [Node.map, List.length_map, S.canSplit_eq r hn.1]
      split
      · obtain ⟨d0, d1, d2, d3⟩ := S.quad_dom r hn.1
        have hacc : NDom DN DI (Node.split r [] (Node.leaf (L1.quadrants r).1 []) (Node.leaf (L1.quadrants r).2.1 [])
            (Node.leaf (L1.quadrants r).2.2.1 []) (Node.leaf (L1.quadrants r).2.2.2 [])) :=
          ⟨hn.1, by simp, ⟨d0, by simp⟩, ⟨d1, by simp⟩, ⟨d2, by simp⟩, ⟨d3, by simp⟩⟩
        obtain ⟨p, q⟩ := fold_sim _ _ hr cs hn.2 _ hacc
        obtain ⟨x, y⟩ := hr _ it p hi
        refine ⟨x, ?_⟩
        rw [y, q, S.quad_eq r hn.1]
        rfl
      · exact hr _ it hn hi

theorem swapRemove_map (cs : List (Item R1)) (id : Nat) :
    Node.swapRemove (cs.map (Item.map φ)) id = (Node.swapRemove cs id).map (List.map (Item.map φ)) := by
  induction cs with
  | nil => rfl
  | cons c cs ih =>
    simp only [List.map_cons, Node.swapRemove, Item.map_id]
    by_cases hc : c.id = id
    · simp only [hc, if_true, Option.map_some, List.getLast?_map]
      cases hl : cs.getLast? with
      | none => simp
      | some l => simp [List.map_dropLast]
    · simp only [hc, if_false, ih]
      cases Node.swapRemove cs id <;> simp

theorem swapRemove_sub (cs cs' : List (Item R1)) (id : Nat) (h : Node.swapRemove cs id = some cs') :
    ∀ x ∈ cs', x ∈ cs := by
  induction cs generalizing cs' with
  | nil => simp [Node.swapRemove] at h
  | cons c cs ih =>
    simp only [Node.swapRemove] at h
    split at h
    · injection h with h
      subst h
      cases hl : cs.getLast? with
      | none => simp
      | some l =>
        intro x hx
        simp only [List.mem_cons] at hx
        rcases hx with e | e
        · subst e; exact List.mem_cons_of_mem _ (List.mem_of_getLast? hl)
        · exact List.mem_cons_of_mem _ (List.dropLast_subset _ e)
    · cases hr : Node.swapRemove cs id with
      | none => rw [hr] at h; simp at h
      | some t =>
        rw [hr] at h
        simp only [Option.map_some, Option.some.injEq] at h
        subst h
        intro x hx
        rcases List.mem_cons.mp hx with e | e
        · subst e; simp
        · exact List.mem_cons_of_mem _ (ih t hr x e)

theorem remove_sim (S : Sim φ ψ DS DN DU DI) (id : Nat) (b : R1) (hb : DS b) (n : Node R1) (hn : NDom DN DI n) :
    Node.remove id (φ b) (Node.map φ n) = (Node.remove id b n).map (Node.map φ) ∧
    ∀ n', Node.remove id b n = some n' → NDom DN DI n' := by
  induction n with
  | leaf r cs =>
    simp only [Node.map, Node.remove, swapRemove_map]
    refine ⟨by cases Node.swapRemove cs id <;> simp [Node.map], ?_⟩
    intro n' h
    cases hs : Node.swapRemove cs id with
    | none => rw [hs] at h; simp at h
    | some cs' =>
      rw [hs] at h; simp at h; subst h
      exact ⟨hn.1, fun x hx => hn.2 x (swapRemove_sub cs cs' id hs x hx)⟩
  | split r cs c0 c1 c2 c3 i0 i1 i2 i3 =>
    obtain ⟨a, bb, h0, h1, h2, h3⟩ := hn
    obtain ⟨e0, d0⟩ := i0 h0
    obtain ⟨e1, d1⟩ := i1 h1
    obtain ⟨e2, d2⟩ := i2 h2
    obtain ⟨e3, d3⟩ := i3 h3
    simp only [Node.map, Node.remove, swapRemove_map, S.contains_eq r b (S.dn_ds _ a) hb, e0, e1, e2, e3]
    cases hs : Node.swapRemove cs id with
    | some cs' =>
      refine ⟨by simp [Node.map], ?_⟩
      intro n' h; simp at h; subst h
      exact ⟨a, fun x hx => bb x (swapRemove_sub cs cs' id hs x hx), h0, h1, h2, h3⟩
    | none =>
      simp only [Option.map_none]
      by_cases hc : L1.contains r b = true
      · simp only [hc, if_true]
        cases r0 : Node.remove id b c0 with
        | some c0' =>
          refine ⟨by simp [Node.map], ?_⟩
          intro n' h; simp at h; subst h
          exact ⟨a, bb, d0 _ r0, h1, h2, h3⟩
        | none =>
          simp only [Option.map_none]
          cases r1 : Node.remove id b c1 with
          | some c1' =>
            refine ⟨by simp [Node.map], ?_⟩
            intro n' h; simp at h; subst h
            exact ⟨a, bb, h0, d1 _ r1, h2, h3⟩
          | none =>
            simp only [Option.map_none]
            cases r2 : Node.remove id b c2 with
            | some c2' =>
              refine ⟨by simp [Node.map], ?_⟩
              intro n' h; simp at h; subst h
              exact ⟨a, bb, h0, h1, d2 _ r2, h3⟩
            | none =>
              simp only [Option.map_none]
              cases r3 : Node.remove id b c3 with
              | some c3' =>
                refine ⟨by simp [Node.map], ?_⟩
                intro n' h; simp at h; subst h
                exact ⟨a, bb, h0, h1, h2, d3 _ r3⟩
              | none => exact ⟨by simp, fun n' h => by simp at h⟩
      · simp only [hc]
        exact ⟨by simp, fun n' h => by simp at h⟩

theorem find_sim (pr1 : R1 → Bool) (pr2 : R2 → Bool) (f1 : Item R1 → Bool) (f2 : Item R2 → Bool)
    (hpr : ∀ r, DN r → pr2 (φ r) = pr1 r) (hf : ∀ it, DI it.rect → f2 (Item.map φ it) = f1 it)
    (n : Node R1) (hn : NDom DN DI n) :
    Node.find pr2 f2 (Node.map φ n) = (Node.find pr1 f1 n).map (Item.map φ) := by
  have hfil : ∀ cs : List (Item R1), (∀ it ∈ cs, DI it.rect) →
      (cs.map (Item.map φ)).filter f2 = (cs.filter f1).map (Item.map φ) := by
    intro cs hcs
    induction cs with
    | nil => rfl
    | cons c cs ih =>
      have := hf c (hcs c (by simp))
      simp only [List.map_cons, List.filter_cons, this]
      rw [ih (fun it hit => hcs it (by simp [hit]))]
      split <;> simp
  induction n with
  | leaf r cs =>
    simp only [Node.map, Node.find, hpr r hn.1, hfil cs hn.2]
    split <;> simp
  | split r cs c0 c1 c2 c3 i0 i1 i2 i3 =>
    obtain ⟨a, b, h0, h1, h2, h3⟩ := hn
    simp only [Node.map, Node.find, hpr r a, hfil cs b, i0 h0, i1 h1, i2 h2, i3 h3]
    split <;> simp

theorem any_sim (pr1 : R1 → Bool) (pr2 : R2 → Bool) (f1 : Item R1 → Bool) (f2 : Item R2 → Bool)
    (hpr : ∀ r, DN r → pr2 (φ r) = pr1 r) (hf : ∀ it, DI it.rect → f2 (Item.map φ it) = f1 it)
    (n : Node R1) (hn : NDom DN DI n) :
    Node.any pr2 f2 (Node.map φ n) = Node.any pr1 f1 n := by
  have hany : ∀ cs : List (Item R1), (∀ it ∈ cs, DI it.rect) → (cs.map (Item.map φ)).any f2 = cs.any f1 := by
    intro cs hcs
    induction cs with
    | nil => rfl
    | cons c cs ih =>
      simp only [List.map_cons, List.any_cons, hf c (hcs c (by simp)), ih (fun it hit => hcs it (by simp [hit]))]
  induction n with
  | leaf r cs => simp only [Node.map, Node.any, hpr r hn.1, hany cs hn.2]
  | split r cs c0 c1 c2 c3 i0 i1 i2 i3 =>
    obtain ⟨a, b, h0, h1, h2, h3⟩ := hn
    simp only [Node.map, Node.any, hpr r a, hany cs b, i0 h0, i1 h1, i2 h2, i3 h3]

/-! ### the tree -/

theorem Tree.all_map (t : Tree R1) : (Tree.map φ t).all = t.all.map (Item.map φ) := by
  cases hr : t.root with
  | none => simp [Tree.map, Tree.all, hr]
  | some r => simp [Tree.map, Tree.all, hr, Node.all_map]

theorem TDom.items {t : Tree R1} (h : TDom DN DI t) : ∀ it ∈ t.all, DI it.rect := by
  intro it hit
  simp only [Tree.all, List.mem_append] at hit
  rcases hit with e | e
  · exact h.outside it e
  · cases hr : t.root with
    | none => rw [hr] at e; simp at e
    | some r => rw [hr] at e; exact (h.root r hr).items it e

theorem Tree.thr_map (t : Tree R1) : (Tree.map φ t).thr = t.thr := rfl

theorem unionFold_sim (S : Sim φ ψ DS DN DU DI) (l : List (Item R1)) (hl : ∀ it ∈ l, DI it.rect) (acc : R1)
    (hacc : DU acc) :
    DU (l.foldl (fun r one => L1.union r one.rect) acc) ∧
    φ (l.foldl (fun r one => L1.union r one.rect) acc) =
      (l.map (Item.map φ)).foldl (fun r one => L2.union r one.rect) (φ acc) := by
  induction l generalizing acc with
  | nil => exact ⟨hacc, rfl⟩
  | cons c l ih =>
    have hc := hl c (by simp)
    obtain ⟨p, q⟩ := ih (fun it hit => hl it (by simp [hit])) (L1.union acc c.rect) (S.union_dom _ _ hacc hc)
    refine ⟨p, ?_⟩
    simp only [List.foldl_cons, List.map_cons, Item.map_rect]
    rw [q, S.union_eq _ _ hacc hc]

theorem reorgFold_sim (S : Sim φ ψ DS DN DU DI) (rect : R1) (hrect : DN rect) (threshold fuel : Nat)
    (l : List (Item R1)) (hl : ∀ it ∈ l, DI it.rect) (s : Node R1 × List (Item R1)) (hs1 : NDom DN DI s.1)
    (hs2 : ∀ it ∈ s.2, DI it.rect) :
    let res := l.foldl (Tree.reorgStep rect threshold fuel) s
    NDom DN DI res.1 ∧ (∀ it ∈ res.2, DI it.rect) ∧
    (l.map (Item.map φ)).foldl (Tree.reorgStep (φ rect) threshold fuel) (Node.map φ s.1, s.2.map (Item.map φ)) =
      (Node.map φ res.1, res.2.map (Item.map φ)) := by
  induction l generalizing s with
  | nil => exact ⟨hs1, hs2, rfl⟩
  | cons c l ih =>
    have hc := hl c (by simp)
    simp only [List.foldl_cons, List.map_cons]
    have step : Tree.reorgStep (φ rect) threshold fuel (Node.map φ s.1, s.2.map (Item.map φ)) (Item.map φ c) =
        (Node.map φ (Tree.reorgStep rect threshold fuel s c).1,
          (Tree.reorgStep rect threshold fuel s c).2.map (Item.map φ)) ∧
        NDom DN DI (Tree.reorgStep rect threshold fuel s c).1 ∧
        ∀ it ∈ (Tree.reorgStep rect threshold fuel s c).2, DI it.rect := by
      simp only [Tree.reorgStep, Item.map_rect, S.contains_eq rect c.rect (S.dn_ds _ hrect) (S.di_ds _ hc)]
      split
      · obtain ⟨x, y⟩ := insert_sim S threshold fuel s.1 c hs1 hc
        exact ⟨by simp [y], x, hs2⟩
      · refine ⟨by simp, hs1, ?_⟩
        intro it hit
        rcases List.mem_append.mp hit with e | e
        · exact hs2 it e
        · simp at e; subst e; exact hc
    obtain ⟨e, d1, d2⟩ := step
    rw [e]
    exact ih (fun it hit => hl it (by simp [hit])) _ d1 d2

theorem reorganize_sim (S : Sim φ ψ DS DN DU DI) (fuel : Nat) (t : Tree R1) (h : TDom DN DI t) :
    TDom DN DI (t.reorganize fuel) ∧ Tree.map φ (t.reorganize fuel) = (Tree.map φ t).reorganize fuel := by
  have hi := h.items
  obtain ⟨ud, ue⟩ := unionFold_sim S t.all hi L1.zero S.zero_dom
  rw [S.zero_eq] at ue
  simp only [Tree.reorganize, Tree.all_map, Tree.thr_map, List.isEmpty_map]
  split
  · exact ⟨⟨fun r hr => by simp at hr, fun it hit => by simp at hit⟩, by simp [Tree.map]⟩
  · have hleaf : NDom DN DI (Node.leaf (t.all.foldl (fun r one => L1.union r one.rect) L1.zero) []) :=
      ⟨S.du_dn _ ud, by simp⟩
    obtain ⟨a, b, c⟩ := reorgFold_sim S _ (S.du_dn _ ud) t.thr fuel t.all hi (Node.leaf _ [], []) hleaf (by simp)
    refine ⟨⟨fun r hr => ?_, b⟩, ?_⟩
    · simp at hr; subst hr; exact a
    · rw [← ue]
      simp only [Node.map, List.map_nil] at c
      simp only [Tree.map, c, Option.map_some]

theorem tinsert_sim (S : Sim φ ψ DS DN DU DI) (fuel : Nat) (t : Tree R1) (h : TDom DN DI t) (it : Item R1)
    (hit : L1.empty it.rect = true ∨ DI it.rect) :
    TDom DN DI (t.insert fuel it) ∧ Tree.map φ (t.insert fuel it) = (Tree.map φ t).insert fuel (Item.map φ it) := by
  simp only [Tree.insert, Item.map_rect, S.empty_eq]
  cases he : L1.empty it.rect with
  | true => exact ⟨by simpa using h, by simp⟩
  | false =>
    have hi : DI it.rect := by rcases hit with e | e; · rw [he] at e; simp at e
                               · exact e
    simp only [Bool.false_eq_true, if_false]
    -- the branch to the outside list
    have hout : ∀ t1 : Tree R1, TDom DN DI t1 →
        TDom DN DI (if ({ t1 with outside := t1.outside ++ [it] } : Tree R1).outside.length >
            ({ t1 with outside := t1.outside ++ [it] } : Tree R1).thr
          then ({ t1 with outside := t1.outside ++ [it] } : Tree R1).reorganize fuel
          else { t1 with outside := t1.outside ++ [it] }) ∧
        Tree.map φ (if ({ t1 with outside := t1.outside ++ [it] } : Tree R1).outside.length >
            ({ t1 with outside := t1.outside ++ [it] } : Tree R1).thr
          then ({ t1 with outside := t1.outside ++ [it] } : Tree R1).reorganize fuel
          else { t1 with outside := t1.outside ++ [it] }) =
        (if ({ Tree.map φ t1 with outside := (Tree.map φ t1).outside ++ [Item.map φ it] } : Tree R2).outside.length >
            ({ Tree.map φ t1 with outside := (Tree.map φ t1).outside ++ [Item.map φ it] } : Tree R2).thr
          then ({ Tree.map φ t1 with outside := (Tree.map φ t1).outside ++ [Item.map φ it] } : Tree R2).reorganize fuel
          else { Tree.map φ t1 with outside := (Tree.map φ t1).outside ++ [Item.map φ it] }) := by
      intro t1 h1
      have hd : TDom DN DI ({ t1 with outside := t1.outside ++ [it] } : Tree R1) :=
        ⟨h1.root, fun x hx => by
          rcases List.mem_append.mp hx with e | e
          · exact h1.outside x e
          · simp at e; subst e; exact hi⟩
      have hm : ({ Tree.map φ t1 with outside := (Tree.map φ t1).outside ++ [Item.map φ it] } : Tree R2) =
          Tree.map φ ({ t1 with outside := t1.outside ++ [it] } : Tree R1) := by simp [Tree.map]
      rw [hm]
      have hl : (Tree.map φ ({ t1 with outside := t1.outside ++ [it] } : Tree R1)).outside.length =
          ({ t1 with outside := t1.outside ++ [it] } : Tree R1).outside.length := by simp [Tree.map]
      rw [hl, Tree.thr_map]
      split
      · exact reorganize_sim S fuel _ hd
      · exact ⟨hd, rfl⟩
    have h1 : TDom DN DI ({ t with count := t.count + 1 } : Tree R1) := ⟨h.root, h.outside⟩
    have hm1 : ({ Tree.map φ t with count := (Tree.map φ t).count + 1 } : Tree R2) =
        Tree.map φ ({ t with count := t.count + 1 } : Tree R1) := rfl
    cases hr : t.root with
    | none =>
      have := hout _ h1
      simpa [Tree.map, hr] using this
    | some r =>
      have hnr := h.root r hr
      have hce : L2.contains (Node.map φ r).rect (φ it.rect) = L1.contains r.rect it.rect := by
        rw [Node.map_rect]; exact S.contains_eq _ _ (S.dn_ds _ hnr.rect) (S.di_ds _ hi)
      by_cases hc : L1.contains r.rect it.rect = true
      · obtain ⟨x, y⟩ := insert_sim S t.nodeThr fuel r it hnr hi
        simp only [Tree.map, hr, Option.map_some, hce, hc, if_true]
        refine ⟨⟨fun r' hr' => ?_, h.outside⟩, by simp [y]⟩
        simp at hr'; subst hr'; exact x
      · have := hout _ h1
        simp only [Tree.map, hr, Option.map_some, hce, hc]
        simpa [Tree.map, hr] using this

theorem tremove_sim (S : Sim φ ψ DS DN DU DI) (t : Tree R1) (h : TDom DN DI t) (id : Nat) (b : R1) (hb : DS b) :
    TDom DN DI (t.remove id b) ∧ Tree.map φ (t.remove id b) = (Tree.map φ t).remove id (φ b) := by
  simp only [Tree.remove, Tree.map, swapRemove_map]
  cases hs : Node.swapRemove t.outside id with
  | some o' =>
    exact ⟨⟨h.root, fun x hx => h.outside x (swapRemove_sub _ _ id hs x hx)⟩, by simp⟩
  | none =>
    simp only [Option.map_none]
    cases hr : t.root with
    | none => exact ⟨⟨by simp [hr], h.outside⟩, by simp [hr]⟩
    | some r =>
      obtain ⟨e, d⟩ := remove_sim S id b hb r (h.root r hr)
      simp only [Option.map_some, e]
      cases hrm : Node.remove id b r with
      | none => exact ⟨⟨by simpa [hr] using h.root r hr, h.outside⟩, by simp [hr]⟩
      | some r' =>
        refine ⟨⟨fun x hx => ?_, h.outside⟩, by simp⟩
        simp at hx; subst hx; exact d _ hrm

/-- the operations a history may contain: inserted bounds are empty or in `DI`, removed bounds in `DS` -/
def OpDom (DS DI : R1 → Prop) : Op R1 → Prop
  | .insert it => L1.empty it.rect = true ∨ DI it.rect
  | .remove _ b => DS b
  | _ => True

theorem apply_sim (S : Sim φ ψ DS DN DU DI) (fuel : Nat) (t : Tree R1) (h : TDom DN DI t) (op : Op R1)
    (hop : OpDom DS DI op) :
    TDom DN DI (t.apply fuel op) ∧ Tree.map φ (t.apply fuel op) = (Tree.map φ t).apply fuel (Op.map φ op) := by
  cases op with
  | insert it => exact tinsert_sim S fuel t h it hop
  | remove id b => exact tremove_sim S t h id b hop
  | reorganize => exact reorganize_sim S fuel t h
  | clear => exact ⟨⟨fun r hr => by simp [Tree.apply, Tree.clear] at hr, fun it hit => by simp [Tree.apply, Tree.clear] at hit⟩,
      by simp [Tree.apply, Tree.clear, Tree.map, Op.map]⟩
  | setThreshold k => exact ⟨⟨h.root, h.outside⟩, rfl⟩

/-- **simulation of whole histories**: the tree over `R1` after a history within the domain is in the domain, and its
    `φ`-image is the tree over `R2` after the `φ`-image of the history -/
theorem run_sim (S : Sim φ ψ DS DN DU DI) (fuel : Nat) (k : Int) (ops : List (Op R1))
    (hops : ∀ op ∈ ops, OpDom DS DI op) :
    TDom DN DI (Tree.run fuel k ops) ∧ Tree.map φ (Tree.run fuel k ops) = Tree.run fuel k (ops.map (Op.map φ)) := by
  have aux : ∀ (ops : List (Op R1)) (t : Tree R1), (∀ op ∈ ops, OpDom DS DI op) → TDom DN DI t →
      TDom DN DI (ops.foldl (Tree.apply fuel) t) ∧
      Tree.map φ (ops.foldl (Tree.apply fuel) t) = (ops.map (Op.map φ)).foldl (Tree.apply fuel) (Tree.map φ t) := by
    intro ops
    induction ops with
    | nil => intro t _ ht; exact ⟨ht, rfl⟩
    | cons op rest ih =>
      intro t ho ht
      obtain ⟨a, b⟩ := apply_sim S fuel t ht op (ho op (by simp))
      obtain ⟨c, d⟩ := ih _ (fun o h => ho o (by simp [h])) a
      refine ⟨c, ?_⟩
      simp only [List.foldl_cons, List.map_cons]
      rw [d, b]
  exact aux ops _ hops ⟨fun r hr => by simp [Tree.empty] at hr, fun it hit => by simp [Tree.empty] at hit⟩

/-- every pruned traversal of the tree returns the `φ`-image of what the traversal over `R1` returns -/
theorem tfind_sim (t : Tree R1) (h : TDom DN DI t) (pr1 : R1 → Bool) (pr2 : R2 → Bool) (f1 : Item R1 → Bool)
    (f2 : Item R2 → Bool) (hpr : ∀ r, DN r → pr2 (φ r) = pr1 r) (hf : ∀ it, DI it.rect → f2 (Item.map φ it) = f1 it) :
    (Tree.map φ t).find pr2 f2 = (t.find pr1 f1).map (Item.map φ) ∧ (Tree.map φ t).any pr2 f2 = t.any pr1 f1 := by
  have hfil : ∀ cs : List (Item R1), (∀ it ∈ cs, DI it.rect) →
      (cs.map (Item.map φ)).filter f2 = (cs.filter f1).map (Item.map φ) ∧
      (cs.map (Item.map φ)).any f2 = cs.any f1 := by
    intro cs hcs
    induction cs with
    | nil => exact ⟨rfl, rfl⟩
    | cons c cs ih =>
      have := hf c (hcs c (by simp))
      obtain ⟨i1, i2⟩ := ih (fun it hit => hcs it (by simp [hit]))
      refine ⟨?_, by simp only [List.map_cons, List.any_cons, this, i2]⟩
      simp only [List.map_cons, List.filter_cons, this]
      rw [i1]
      split <;> simp
  obtain ⟨o1, o2⟩ := hfil t.outside h.outside
  cases hr : t.root with
  | none => simp [Tree.map, Tree.find, Tree.any, hr, o1, o2]
  | some r =>
    have a := find_sim (φ := φ) pr1 pr2 f1 f2 hpr hf r (h.root r hr)
    have b := any_sim (φ := φ) pr1 pr2 f1 f2 hpr hf r (h.root r hr)
    simp [Tree.map, Tree.find, Tree.any, hr, o1, o2, a, b]

end
end QT
