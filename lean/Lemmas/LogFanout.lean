import Model.LogFanout
import Lemmas.LogHandlers
/-! C13: lemmas about `ML.handleTL` (core only). -/
namespace ML
open TL

theorem getSink_setSink (ss : Sinks) (i j : Nat) (k : SinkSt) :
    getSink (setSink ss i k) j = if j = i then k else getSink ss j := by
  unfold getSink setSink
  by_cases h : j = i
  · subst h; simp [List.lookup]
  · have hb : (j == i) = false := by simpa using h
    simp only [List.lookup, hb, if_neg h]
    congr 1
    induction ss with
    | nil => rfl
    | cons p ps ih =>
      obtain ⟨a, b⟩ := p
      by_cases ha : a = i
      · subst ha
        have : (j == a) = false := hb
        simp [List.filter, List.lookup, this, ih]
      · have hne : (a != i) = true := by simpa using ha
        simp only [List.filter, hne, List.lookup]
        cases hja : (j == a) <;> simp [ih]

/-- all sinks synchronous (no delivery channel) -/
def AllSync (ss : Sinks) : Prop := ∀ i, (getSink ss i).buf = none

/-- in synchronous mode a delivery leaves the sink's state alone -/
theorem deliver_sync (sk : SinkSt) (i : Nat) (line : Bytes) (hb : sk.buf = none) :
    TL.deliver sk i line =
      (sk, [line], match sk.mode with | .ok => Ret.nil | .fail k => Ret.err i k | .panic => Ret.panic i) := by
  unfold TL.deliver
  rw [hb]
  simp only [handleSync]
  cases sk.mode <;> rfl

/-- how a synchronous child's `Handle` ends, given the behaviour of its sink -/
def syncRet (ss : Sinks) (c : TL.Handler) : Ret :=
  match (getSink ss c.sink).mode with
  | .ok => .nil
  | .fail k => .err c.sink k
  | .panic => .panic c.sink

theorem foldl_stepTL_sync (σ : Store) (r : Record) (ss : Sinks) (hs : AllSync ss) :
    ∀ (cs : List TL.Handler) (acc : Fan), (∀ i, getSink acc.sinks i = getSink ss i) →
      (∀ i, getSink (cs.foldl (stepTL σ r) acc).sinks i = getSink ss i) ∧
      (cs.foldl (stepTL σ r) acc).writes =
        acc.writes ++ (cs.filter (TL.enabled · r.level)).map (fun c => (c.sink, TL.render σ c r)) ∧
      (cs.foldl (stepTL σ r) acc).rets =
        acc.rets ++ (cs.filter (TL.enabled · r.level)).map (fun c => (c.sink, syncRet ss c))
  | [], acc, h => by simp [h]
  | c :: cs, acc, h => by
    simp only [List.foldl_cons]
    by_cases he : TL.enabled c r.level = true
    · have hd := deliver_sync (getSink ss c.sink) c.sink (TL.render σ c r) (hs _)
      have hstep : stepTL σ r acc c =
          { sinks := setSink acc.sinks c.sink (getSink ss c.sink),
            writes := acc.writes ++ [(c.sink, TL.render σ c r)],
            rets := acc.rets ++ [(c.sink, syncRet ss c)] } := by
        simp only [stepTL, he, if_true, h, hd, List.map_cons, List.map_nil, syncRet]
      have hinv : ∀ i, getSink (stepTL σ r acc c).sinks i = getSink ss i := by
        intro i
        rw [hstep]
        simp only [getSink_setSink]
        by_cases hi : i = c.sink
        · simp [hi]
        · simp [hi, h]
      obtain ⟨h1, h2, h3⟩ := foldl_stepTL_sync σ r ss hs cs (stepTL σ r acc c) hinv
      refine ⟨h1, ?_, ?_⟩
      · rw [h2, hstep]; simp [List.filter_cons_of_pos, he, List.append_assoc]
      · rw [h3, hstep]; simp [List.filter_cons_of_pos, he, List.append_assoc]
    · have he' : TL.enabled c r.level = false := by simpa using he
      have hstep : stepTL σ r acc c = acc := by simp [stepTL, he']
      rw [hstep]
      obtain ⟨h1, h2, h3⟩ := foldl_stepTL_sync σ r ss hs cs acc h
      refine ⟨h1, ?_, ?_⟩
      · rw [h2]; simp [he']
      · rw [h3]; simp [he']

end ML
