import Lemmas.Conv128ScanHex
/-! C02 helper lemmas, part 14 (core Lean only): the signed value denoted by a decimal text; `Uint128.Int64()`. -/
namespace Conv

/-- the integer denoted by a decimal text with an optional leading `-` -/
def signedDecVal : List Char → Int
  | '-' :: t => -(decVal t : Int)
  | t => (decVal t : Int)

theorem signedDecVal_intDigits (z : Int) : signedDecVal (intDigits z) = z := by
  unfold intDigits
  by_cases hz : z < 0
  · rw [if_pos hz]
    show -(decVal (natDigits z.natAbs) : Int) = z
    rw [decVal_natDigits]; omega
  · rw [if_neg hz]
    obtain ⟨c, t, e, hc⟩ : ∃ c t, natDigits z.natAbs = c :: t ∧ c ≠ '-' := by
      by_cases hn : z.natAbs = 0
      · rw [hn, natDigits_zero]; exact ⟨'0', [], rfl, by decide⟩
      · obtain ⟨c, t, e, hc, _⟩ := natDigits_head z.natAbs hn
        exact ⟨c, t, e, isDec_ne hc '-' (by decide)⟩
    have hv := decVal_natDigits z.natAbs
    rw [e] at hv ⊢
    have : signedDecVal (c :: t) = (decVal (c :: t) : Int) := by
      unfold signedDecVal
      split
      · rename_i heq; injection heq with h1 _; exact absurd h1 hc
      · rfl
    rw [this, hv]; omega

/-- `Uint128.Int64()`: succeeds exactly below 2^63 and then returns the value -/
theorem U128.int64_spec (u : U128) :
    (u.int64 = none ↔ ¬ u.toNat < 2^63) ∧ ∀ v, u.int64 = some v → v.toInt = (u.toNat : Int) := by
  have hh := u.hi.isLt; have hl := u.lo.isLt
  have hlo := I128.asInt64_eq_lo u.asInt128
  have h64 := I128.isInt64_iff u.asInt128
  have hr := u.asInt128.asInt64.toInt_lt; have hle := u.asInt128.asInt64.le_toInt
  unfold U128.int64
  have hs : u.isInt128 = decide (u.hi.toNat < 2^63) := by unfold U128.isInt128; exact and_signBit u.hi
  by_cases h1 : u.hi.toNat < 2^63
  · have hi128 : u.isInt128 = true := by rw [hs]; exact decide_eq_true h1
    have hv : u.asInt128.toInt = (u.toNat : Int) := (U128.isInt128_iff u).mp hi128
    rw [hi128]
    simp only [if_true]
    by_cases h2 : u.asInt128.isInt64 = true
    · have hval := h64.mp h2
      rw [h2]; simp only [if_true]
      constructor
      · constructor
        · intro c; cases c
        · intro c; exact absurd (by omega : u.toNat < 2^63) c
      · intro v hv'; injection hv' with hv'; rw [← hv', hval, hv]
    · have h2' : u.asInt128.isInt64 = false := by cases hb : u.asInt128.isInt64 <;> simp_all
      rw [h2']; simp only [Bool.false_eq_true, if_false]
      constructor
      · constructor
        · intro _ hfit
          apply h2
          apply h64.mpr
          rw [hlo, BitVec.toInt_eq_toNat_cond]
          have : u.asInt128.lo = u.lo := rfl
          rw [this, hv]
          unfold U128.toNat at hfit ⊢
          rw [if_pos (by omega)]; omega
        · intro _; trivial
      · intro v hv'; cases hv'
  · have hi128 : u.isInt128 = false := by rw [hs]; exact decide_eq_false h1
    rw [hi128]; simp only [Bool.false_eq_true, if_false]
    constructor
    · constructor
      · intro _ hfit; unfold U128.toNat at hfit; omega
      · intro _; trivial
    · intro v hv'; cases hv'

end Conv
