import Lemmas.Errs
import Model.ErrsFmt
/-! C11 rendering lemmas: the token-carrying operations compute the same heap as the plain ones; recorded stacks are only
    ever added, never changed; the stacks along the chain of an `Append` result. Core-only. -/
namespace Errs

/-! ### the token-carrying loop computes the same heap, root and log -/

theorem appendLoopF_fst : ∀ (args : List Val) (h : Heap) (root cur : Option Nat) (log : List Nat) (T : Toks) (f c : Nat),
    ((appendLoopF h root cur log T f c args).1, (appendLoopF h root cur log T f c args).2.1,
      (appendLoopF h root cur log T f c args).2.2.1) = appendLoop h root cur log args := by
  intro args
  induction args with
  | nil => intro h root cur log T f c; rfl
  | cons a as ih =>
    intro h root cur log T f c
    rcases hA : argNode h a with ⟨h1, _ | n, w⟩
    · simp only [appendLoopF, appendLoop, hA]; exact ih _ _ _ _ _ _ _
    · cases cur with
      | none => simp only [appendLoopF, appendLoop, hA]; exact ih _ _ _ _ _ _ _
      | some e => simp only [appendLoopF, appendLoop, hA]; exact ih _ _ _ _ _ _ _

theorem appendFx_fst (args : List Val) (acc : Val) (h : Heap) (T : Toks) (f c : Nat) :
    ((appendFx h T f c acc args).1, (appendFx h T f c acc args).2.1, (appendFx h T f c acc args).2.2.1) =
      append h acc args := by
  cases acc with
  | nilIface => simp only [appendFx, append]; exact appendLoopF_fst _ _ _ _ _ _ _ _
  | typedNil => simp only [appendFx, append]; exact appendLoopF_fst _ _ _ _ _ _ _ _
  | foreignNil => simp only [appendFx, append, isNil]; exact appendLoopF_fst _ _ _ _ _ _ _ _
  | ref id => simp only [appendFx, append]; split <;> exact appendLoopF_fst _ _ _ _ _ _ _ _
  | plain u m => simp only [appendFx, append, isNil]; exact appendLoopF_fst _ _ _ _ _ _ _ _
  | fwrap u m inner => simp only [appendFx, append, isNil]; exact appendLoopF_fst _ _ _ _ _ _ _ _

/-- the heap of `appendF` is the heap of `append`, its value the root of `append` -/
theorem appendF_heap (s : FHeap) (f : Nat) (acc : Val) (args : List Val) :
    (appendF s f acc args).1.h = (append s.h acc args).1 ∧ (appendF s f acc args).2 = ptrVal (append s.h acc args).2.1 := by
  have := appendFx_fst args acc s.h s.T f s.sites
  simp only [appendF]
  rw [← this]
  exact ⟨rfl, rfl⟩

/-! ### recorded stacks are only added -/

theorem tokOf_append_left (T : Toks) (X : Array (Option Tok)) (i : Nat) (hi : i < T.size) :
    tokOf (T ++ X) i = tokOf T i := by
  unfold tokOf; rw [Array.getElem?_append_left hi]

theorem tokOf_push_left (T : Toks) (x : Option Tok) (i : Nat) (hi : i < T.size) : tokOf (T.push x) i = tokOf T i := by
  unfold tokOf; rw [Array.getElem?_push]; simp [Nat.ne_of_lt hi]

theorem appendLoopF_toks : ∀ (args : List Val) (h : Heap) (root cur : Option Nat) (log : List Nat) (T : Toks) (f c : Nat),
    T.size ≤ (appendLoopF h root cur log T f c args).2.2.2.1.size ∧
    ∀ i, i < T.size → tokOf (appendLoopF h root cur log T f c args).2.2.2.1 i = tokOf T i := by
  intro args
  induction args with
  | nil => intro h root cur log T f c; exact ⟨Nat.le_refl _, fun _ _ => rfl⟩
  | cons a as ih =>
    intro h root cur log T f c
    have key : ∀ (h' : Heap) (root' cur' : Option Nat) (log' : List Nat),
        T.size ≤ (appendLoopF h' root' cur' log' (T ++ (argToks h T f c a).1.toArray) f (argToks h T f c a).2 as).2.2.2.1.size ∧
        ∀ i, i < T.size →
          tokOf (appendLoopF h' root' cur' log' (T ++ (argToks h T f c a).1.toArray) f (argToks h T f c a).2 as).2.2.2.1 i =
            tokOf T i := by
      intro h' root' cur' log'
      obtain ⟨g1, g2⟩ := ih h' root' cur' log' (T ++ (argToks h T f c a).1.toArray) f (argToks h T f c a).2
      have hs : T.size ≤ (T ++ (argToks h T f c a).1.toArray).size := by simp
      exact ⟨Nat.le_trans hs g1, fun i hi => by rw [g2 i (by omega), tokOf_append_left T _ i hi]⟩
    rcases hA : argNode h a with ⟨h1, _ | n, w⟩
    · simp only [appendLoopF, hA]; exact key _ _ _ _
    · cases cur with
      | none => simp only [appendLoopF, hA]; exact key _ _ _ _
      | some e => simp only [appendLoopF, hA]; exact key _ _ _ _

/-! ### the stacks along the chain of an `Append` result -/

/-- the stacks of the cells visited from `id` -/
def chainToks (h : Heap) (T : Toks) (id : Nat) : List (Option Tok) := (chain h (fuelOf h) id).map (tokOf T)

/-- the stacks contributed by an argument list, read in the heap at the call: copies keep the stack of their source, every
    wrapped plain error gets a stack captured by this call (creator `f`, consecutive serial numbers) -/
def argsToks (h : Heap) (T : Toks) (f : Nat) : Nat → List Val → List (Option Tok)
  | _, [] => []
  | c, a :: as => (argToks h T f c a).1 ++ argsToks h T f (argToks h T f c a).2 as

theorem range_map_tok : ∀ (X : List (Option Tok)) (T : Toks),
    (List.range' T.size X.length).map (tokOf (T ++ X.toArray)) = X := by
  intro X
  induction X with
  | nil => intro T; rfl
  | cons x xs ih =>
    intro T
    have hsplit : T ++ (x :: xs).toArray = T.push x ++ xs.toArray := by
      apply Array.ext'
      simp
    have hhead : tokOf (T ++ (x :: xs).toArray) T.size = x := by
      unfold tokOf
      rw [Array.getElem?_append_right (Nat.le_refl _)]
      simp
    simp only [List.length_cons, List.range'_succ, List.map_cons, hhead]
    rw [hsplit]
    have := ih (T.push x)
    simp only [Array.size_push] at this
    rw [this]

/-- one argument, with the cells it allocates made explicit: the block `h.size, h.size+1, …`, one cell per stack of
    `argToks` -/
theorem argNode_specT (h : Heap) (T : Toks) (f c : Nat) (a : Val) (hwf : WF h)
    (hid : ∀ id, a = .ref id → id < h.size) :
    (argNode h a = (h, none, []) ∧ (argToks h T f c a).1 = []) ∨
    (∃ h1 w e', argNode h a = (h1, some h.size, w) ∧
       ArgBuilt h a h1 h.size w (List.range' h.size (argToks h T f c a).1.length) e') := by
  have wrapper : ∀ v : Val, isNil v = false → (∀ id, v ≠ .ref id) →
      argNode h v = (h.push (wrapperNode v), some h.size, []) → (argToks h T f c v).1.length = 1 →
      ∃ h1 w e', argNode h v = (h1, some h.size, w) ∧
        ArgBuilt h v h1 h.size w (List.range' h.size (argToks h T f c v).1.length) e' := by
    intro v hnil hnr hav hlen
    refine ⟨_, _, h.size, hav, ?_⟩
    rw [hlen]
    exact wrapper_built h v hwf hnil hnr
  cases a with
  | nilIface => exact Or.inl ⟨by simp [argNode, isNil], by simp [argToks, isNil]⟩
  | typedNil => exact Or.inl ⟨by simp [argNode], by simp [argToks]⟩
  | foreignNil => exact Or.inl ⟨by simp [argNode, isNil], by simp [argToks, isNil]⟩
  | plain u m =>
    exact Or.inr (wrapper _ (by simp [isNil]) (by simp) (by simp [argNode, isNil]) (by simp [argToks, isNil]))
  | fwrap u m inner =>
    exact Or.inr (wrapper _ (by simp [isNil]) (by simp) (by simp [argNode, isNil]) (by simp [argToks, isNil]))
  | ref id =>
    have hlt := hid id rfl
    by_cases he : isEmpty h id = true
    · exact Or.inl ⟨by simp [argNode, he], by simp [argToks, he]⟩
    · have he' : isEmpty h id = false := by simpa using he
      obtain ⟨cch, hm⟩ := hwf.chain_spec hlt
      have hin : ∀ i ∈ chain h (fuelOf h) id, i < h.size := fun i hi => (hm i hi).2
      have ok := cch.blockOK hwf hin he'
      have hsrc : (chain h (fuelOf h) id).map (fun i => (h[i]?).getD default) = (chain h (fuelOf h) id).map (getNode h) := rfl
      have hlen : (argToks h T f c (.ref id)).1.length = ((chain h (fuelOf h) id).map (getNode h)).length := by
        simp [argToks, he']
      refine Or.inr ⟨h ++ (freshBlock h.size ((chain h (fuelOf h) id).map (getNode h))).toArray,
        List.range' h.size ((h ++ (freshBlock h.size ((chain h (fuelOf h) id).map (getNode h))).toArray).size - h.size - 1),
        h.size + ((chain h (fuelOf h) id).map (getNode h)).length - 1,
        by simp only [argNode, he', copyChain, hsrc]; rfl, ?_⟩
      rw [hlen]
      refine built_of_block h (.ref id) _ _ hwf ok ?_ ?_
      · rw [map_get_visible h _ hin]; rfl
      · intro i hi
        rw [List.mem_range'_1] at hi
        exact hi.1

/-- the stacks an argument contributes do not depend on later changes that leave its chain alone -/
theorem argToks_frame (h h' : Heap) (T T' : Toks) (f c : Nat) (a : Val) (hwf : WF h) (hwf' : WF h')
    (hsz : h.size ≤ h'.size) (hT : T.size = h.size) (hTT : ∀ i, i < T.size → tokOf T' i = tokOf T i)
    (hid : ∀ id, a = .ref id → id < h.size ∧ ∀ i ∈ chain h (fuelOf h) id, h'[i]? = h[i]?) :
    argToks h' T' f c a = argToks h T f c a := by
  cases a with
  | nilIface => rfl
  | typedNil => rfl
  | foreignNil => rfl
  | plain u m => rfl
  | fwrap u m inner => rfl
  | ref id =>
    obtain ⟨hlt, hag⟩ := hid id rfl
    have hch := (arg_frame h h' hwf hwf' hsz id hlt hag).1
    have hemp : isEmpty h' id = isEmpty h id :=
      isEmpty_congr h h' id (hag id (hwf.chain_spec hlt).1.head_mem)
    simp only [argToks, hemp, hch]
    split
    · rfl
    · congr 1
      apply List.map_congr_left
      intro i hi
      exact hTT i (by rw [hT]; exact ((hwf.chain_spec hlt).2 i hi).2)

theorem loop_someT : ∀ (args : List Val) (h : Heap) (r e : Nat) (l log : List Nat) (T : Toks) (f c : Nat), WF h →
    Chain h r l e → (∀ i ∈ l, i < h.size) → isEmpty h r = false → T.size = h.size →
    (∀ id, Val.ref id ∈ args → id < h.size ∧ e ∉ chain h (fuelOf h) id) →
    chainToks (appendLoopF h (some r) (some e) log T f c args).1 (appendLoopF h (some r) (some e) log T f c args).2.2.2.1 r =
      l.map (tokOf T) ++ argsToks h T f c args := by
  intro args
  induction args with
  | nil =>
    intro h r e l log T f c hwf cc hin _ _ _
    have hr : r < h.size := hin r cc.head_mem
    simp only [appendLoopF, argsToks, List.append_nil, chainToks]
    rw [← (cc.bounds hwf hr).2.2.1]
  | cons a as ih =>
    intro h r e l log T f c hwf cc hin hne hT hargs
    have hargs' : ∀ id, Val.ref id ∈ as → id < h.size ∧ e ∉ chain h (fuelOf h) id :=
      fun id hid => hargs id (by simp [hid])
    rcases argNode_specT h T f c a hwf (fun id ha => (hargs id (by simp [ha])).1) with ⟨hsk, htk⟩ | ⟨h1, w, e', hb, B⟩
    · have hun : appendLoopF h (some r) (some e) log T f c (a :: as) =
          appendLoopF h (some r) (some e) log (T ++ (argToks h T f c a).1.toArray) f (argToks h T f c a).2 as := by
        simp only [appendLoopF, hsk]
      rw [hun]
      have hT' : T ++ (argToks h T f c a).1.toArray = T := by rw [htk]; simp
      rw [hT']
      rw [ih h r e l log T f (argToks h T f c a).2 hwf cc hin hne hT hargs']
      simp [argsToks, htk]
    · -- the same set-up as in `loop_some`
      have he : e < h.size := hin e cc.tail_mem
      have hgrow := B.grow
      have he1 : e < h1.size := by omega
      have c1 : Chain h1 r l e := cc.congr (fun i hi => B.frame i (hin i hi))
      have heB : e ∉ List.range' h.size (argToks h T f c a).1.length := fun hx => by have := (B.fresh e hx).1; omega
      have hn : h.size ≤ h.size ∧ h.size < h1.size := B.fresh h.size B.chain.head_mem
      have hsz2 : (setNext h1 e h.size).size = h1.size := setNext_size _ _ _
      have hwf2 : WF (setNext h1 e h.size) := WF_setNext h1 e h.size B.wf he1 (by omega) hn.2 B.headNonempty
      have c2 := c1.link B.chain he1 heB
      have hoth : ∀ i ∈ List.range' h.size (argToks h T f c a).1.length, (setNext h1 e h.size)[i]? = h1[i]? :=
        fun i hi => setNext_other h1 e h.size i (fun x => heB (by rw [← x]; exact hi))
      have cb2 := B.chain.congr hoth
      have hcur : tailOf (setNext h1 e h.size) (fuelOf (setNext h1 e h.size)) h.size = e' :=
        ((cb2.bounds hwf2 (by rw [hsz2]; exact hn.2)).2.2.2).symm
      have hun : appendLoopF h (some r) (some e) log T f c (a :: as) =
          appendLoopF (setNext h1 e h.size) (some r) (some e') (log ++ w ++ [e])
            (T ++ (argToks h T f c a).1.toArray) f (argToks h T f c a).2 as := by
        simp only [appendLoopF, hb, hcur]
      rw [hun]
      have hfr2 : ∀ i, i < h.size → i ≠ e → (setNext h1 e h.size)[i]? = h[i]? :=
        fun i hi hie => by rw [setNext_other h1 e h.size i hie, B.frame i hi]
      have he' : h.size ≤ e' := (B.fresh e' B.chain.tail_mem).1
      have hagree : ∀ id, Val.ref id ∈ as → id < h.size ∧
          ∀ i ∈ chain h (fuelOf h) id, (setNext h1 e h.size)[i]? = h[i]? := by
        intro id hid
        obtain ⟨hlt, hnot⟩ := hargs' id hid
        exact ⟨hlt, fun i hi => hfr2 i ((hwf.chain_spec hlt).2 i hi).2 (fun x => hnot (by rw [← x]; exact hi))⟩
      have hargs2 : ∀ id, Val.ref id ∈ as → id < (setNext h1 e h.size).size ∧
          e' ∉ chain (setNext h1 e h.size) (fuelOf (setNext h1 e h.size)) id := by
        intro id hid
        obtain ⟨hlt, hag⟩ := hagree id hid
        have hch := (arg_frame h _ hwf hwf2 (by rw [hsz2]; omega) id hlt hag).1
        refine ⟨by rw [hsz2]; omega, ?_⟩
        rw [hch]
        intro hx
        have := ((hwf.chain_spec hlt).2 e' hx).2
        omega
      have hin2 : ∀ i ∈ l ++ List.range' h.size (argToks h T f c a).1.length, i < (setNext h1 e h.size).size := by
        intro i hi
        rw [hsz2]
        rcases List.mem_append.mp hi with hi | hi
        · have := hin i hi; omega
        · exact (B.fresh i hi).2
      have hne2 : isEmpty (setNext h1 e h.size) r = false :=
        isEmpty_setNext h1 e h.size r (by rw [isEmpty_congr h h1 r (B.frame r (hin r cc.head_mem))]; exact hne)
      -- sizes of the stack table: one stack per allocated cell
      have hsize1 : h1.size = h.size + (argToks h T f c a).1.length := by
        have hlast := B.fresh _ B.chain.tail_mem
        have hall : ∀ i ∈ List.range' h.size (argToks h T f c a).1.length, i < h1.size := fun i hi => (B.fresh i hi).2
        have hlen := (B.chain.bounds B.wf hn.2).1
        -- the block is exactly the cells h.size … h1.size-1: ArgBuilt fixes the chain, its cells are below h1.size,
        -- and h1 has no other new cells (size of the allocation)
        rcases hb' : argNode h a with ⟨hh, nn, ww⟩
        rw [hb] at hb'
        cases a with
        | ref id =>
          by_cases hem : isEmpty h id = true
          · simp [argNode, hem] at hb
          · have hem' : isEmpty h id = false := by simpa using hem
            simp only [argNode, hem', copyChain] at hb
            have : h1 = h ++ (freshBlock h.size ((chain h (fuelOf h) id).map (fun i => (h[i]?).getD default))).toArray := by
              have := congrArg Prod.fst hb; simpa using this.symm
            rw [this]
            simp [freshBlock_length, argToks, hem']
        | nilIface => simp [argNode, isNil] at hb
        | typedNil => simp [argNode] at hb
        | foreignNil => simp [argNode, isNil] at hb
        | plain u m =>
          simp only [argNode, isNil] at hb
          have : h1 = h.push (wrapperNode (.plain u m)) := by have := congrArg Prod.fst hb; simpa using this.symm
          rw [this]; simp [argToks, isNil]
        | fwrap u m inner =>
          simp only [argNode, isNil] at hb
          have : h1 = h.push (wrapperNode (.fwrap u m inner)) := by have := congrArg Prod.fst hb; simpa using this.symm
          rw [this]; simp [argToks, isNil]
      have hT2 : (T ++ (argToks h T f c a).1.toArray).size = (setNext h1 e h.size).size := by
        rw [hsz2, hsize1]; simp [hT]
      have hTT : ∀ i, i < T.size → tokOf (T ++ (argToks h T f c a).1.toArray) i = tokOf T i :=
        fun i hi => tokOf_append_left T _ i hi
      rw [ih (setNext h1 e h.size) r e' (l ++ List.range' h.size (argToks h T f c a).1.length) (log ++ w ++ [e])
        (T ++ (argToks h T f c a).1.toArray) f (argToks h T f c a).2 hwf2 c2 hin2 hne2 hT2 hargs2]
      -- the old cells keep their stacks, the block carries the argument's stacks, later arguments read the same stacks
      have e1 : l.map (tokOf (T ++ (argToks h T f c a).1.toArray)) = l.map (tokOf T) := by
        apply List.map_congr_left
        intro i hi
        exact hTT i (by rw [hT]; exact hin i hi)
      have e2 : (List.range' h.size (argToks h T f c a).1.length).map (tokOf (T ++ (argToks h T f c a).1.toArray)) =
          (argToks h T f c a).1 := by
        rw [← hT]; exact range_map_tok _ T
      have e3 : ∀ (cc' : Nat), argsToks (setNext h1 e h.size) (T ++ (argToks h T f c a).1.toArray) f cc' as =
          argsToks h T f cc' as := by
        have gen : ∀ (as' : List Val), (∀ x ∈ as', x ∈ as) → ∀ cc', 
            argsToks (setNext h1 e h.size) (T ++ (argToks h T f c a).1.toArray) f cc' as' = argsToks h T f cc' as' := by
          intro as'
          induction as' with
          | nil => intro _ _; rfl
          | cons b bs ihb =>
            intro hsub cc'
            have hb1 : argToks (setNext h1 e h.size) (T ++ (argToks h T f c a).1.toArray) f cc' b = argToks h T f cc' b := by
              apply argToks_frame h _ T _ f cc' b hwf hwf2 (by rw [hsz2]; omega) hT hTT
              intro id hid
              subst hid
              exact hagree id (hsub _ (by simp))
            simp only [argsToks, hb1]
            rw [ihb (fun x hx => hsub x (by simp [hx]))]
        exact gen as (fun x hx => hx)
      rw [List.map_append, e1, e2, e3]
      simp [argsToks, List.append_assoc]

theorem appendLoopF_root_some : ∀ (args : List Val) (h : Heap) (r e : Nat) (log : List Nat) (T : Toks)
    (f c : Nat), (appendLoopF h (some r) (some e) log T f c args).2.1 = some r := by
  intro args
  induction args with
  | nil => intro h r e log T f c; rfl
  | cons a as ih =>
    intro h r e log T f c
    rcases hA : argNode h a with ⟨h1, _ | n, w⟩
    · simp only [appendLoopF, hA]; exact ih _ _ _ _ _ _ _
    · simp only [appendLoopF, hA]; exact ih _ _ _ _ _ _ _

/-- one stack per allocated cell -/
theorem argNode_sizeT (h : Heap) (T : Toks) (f c : Nat) (a : Val) (h1 : Heap) (n : Nat) (w : List Nat)
    (hb : argNode h a = (h1, some n, w)) : h1.size = h.size + (argToks h T f c a).1.length := by
  cases a with
  | ref id =>
    by_cases hem : isEmpty h id = true
    · simp [argNode, hem] at hb
    · have hem' : isEmpty h id = false := by simpa using hem
      simp only [argNode, hem', copyChain] at hb
      have : h1 = h ++ (freshBlock h.size ((chain h (fuelOf h) id).map (fun i => (h[i]?).getD default))).toArray := by
        have := congrArg Prod.fst hb; simpa using this.symm
      rw [this]
      simp [freshBlock_length, argToks, hem']
  | nilIface => simp [argNode, isNil] at hb
  | typedNil => simp [argNode] at hb
  | foreignNil => simp [argNode, isNil] at hb
  | plain u m =>
    simp only [argNode, isNil] at hb
    have : h1 = h.push (wrapperNode (.plain u m)) := by have := congrArg Prod.fst hb; simpa using this.symm
    rw [this]; simp [argToks, isNil]
  | fwrap u m inner =>
    simp only [argNode, isNil] at hb
    have : h1 = h.push (wrapperNode (.fwrap u m inner)) := by have := congrArg Prod.fst hb; simpa using this.symm
    rw [this]; simp [argToks, isNil]

theorem argsToks_frame (h h' : Heap) (T T' : Toks) (f : Nat) (hwf : WF h) (hwf' : WF h') (hsz : h.size ≤ h'.size)
    (hT : T.size = h.size) (hTT : ∀ i, i < T.size → tokOf T' i = tokOf T i) :
    ∀ (as : List Val), (∀ id, Val.ref id ∈ as → id < h.size ∧ ∀ i ∈ chain h (fuelOf h) id, h'[i]? = h[i]?) →
      ∀ c, argsToks h' T' f c as = argsToks h T f c as := by
  intro as
  induction as with
  | nil => intro _ _; rfl
  | cons b bs ih =>
    intro hag c
    have hb1 : argToks h' T' f c b = argToks h T f c b := by
      apply argToks_frame h h' T T' f c b hwf hwf' hsz hT hTT
      intro id hid
      subst hid
      exact hag id (by simp)
    simp only [argsToks, hb1]
    rw [ih (fun id hid => hag id (by simp [hid]))]

/-- the loop started without a root: the result chain carries exactly the stacks of the arguments -/
theorem loop_noneT : ∀ (args : List Val) (h : Heap) (log : List Nat) (T : Toks) (f c : Nat), WF h → T.size = h.size →
    (∀ id, Val.ref id ∈ args → id < h.size) →
    match (appendLoopF h none none log T f c args).2.1 with
    | none => argsToks h T f c args = []
    | some r => chainToks (appendLoopF h none none log T f c args).1 (appendLoopF h none none log T f c args).2.2.2.1 r =
        argsToks h T f c args := by
  intro args
  induction args with
  | nil => intro h log T f c _ _ _; rfl
  | cons a as ih =>
    intro h log T f c hwf hT hargs
    have hargs' : ∀ id, Val.ref id ∈ as → id < h.size := fun id hid => hargs id (by simp [hid])
    rcases argNode_specT h T f c a hwf (fun id ha => hargs id (by simp [ha])) with ⟨hsk, htk⟩ | ⟨h1, w, e', hb, B⟩
    · have hun : appendLoopF h none none log T f c (a :: as) =
          appendLoopF h none none log (T ++ (argToks h T f c a).1.toArray) f (argToks h T f c a).2 as := by
        simp only [appendLoopF, hsk]
      rw [hun]
      have hT' : T ++ (argToks h T f c a).1.toArray = T := by rw [htk]; simp
      rw [hT']
      have := ih h log T f (argToks h T f c a).2 hwf hT hargs'
      simpa [argsToks, htk] using this
    · have hgrow := B.grow
      have hn : h.size ≤ h.size ∧ h.size < h1.size := B.fresh h.size B.chain.head_mem
      have hcur : tailOf h1 (fuelOf h1) h.size = e' := ((B.chain.bounds B.wf hn.2).2.2.2).symm
      have hun : appendLoopF h none none log T f c (a :: as) =
          appendLoopF h1 (some h.size) (some e') (log ++ w) (T ++ (argToks h T f c a).1.toArray) f (argToks h T f c a).2 as := by
        simp only [appendLoopF, hb, hcur]
      rw [hun, appendLoopF_root_some]
      simp only
      have he' : h.size ≤ e' := (B.fresh e' B.chain.tail_mem).1
      have hagree : ∀ id, Val.ref id ∈ as → id < h.size ∧ ∀ i ∈ chain h (fuelOf h) id, h1[i]? = h[i]? := by
        intro id hid
        have hlt := hargs' id hid
        exact ⟨hlt, fun i hi => B.frame i ((hwf.chain_spec hlt).2 i hi).2⟩
      have hargs1 : ∀ id, Val.ref id ∈ as → id < h1.size ∧ e' ∉ chain h1 (fuelOf h1) id := by
        intro id hid
        obtain ⟨hlt, hag⟩ := hagree id hid
        have hch := (arg_frame h _ hwf B.wf (by omega) id hlt hag).1
        refine ⟨by omega, ?_⟩
        rw [hch]
        intro hx
        have := ((hwf.chain_spec hlt).2 e' hx).2
        omega
      have hsize1 := argNode_sizeT h T f c a h1 h.size w hb
      have hT1 : (T ++ (argToks h T f c a).1.toArray).size = h1.size := by rw [hsize1]; simp [hT]
      have hTT : ∀ i, i < T.size → tokOf (T ++ (argToks h T f c a).1.toArray) i = tokOf T i :=
        fun i hi => tokOf_append_left T _ i hi
      rw [loop_someT as h1 h.size e' (List.range' h.size (argToks h T f c a).1.length) (log ++ w)
        (T ++ (argToks h T f c a).1.toArray) f (argToks h T f c a).2 B.wf B.chain (fun i hi => (B.fresh i hi).2)
        B.headNonempty hT1 hargs1]
      have e2 : (List.range' h.size (argToks h T f c a).1.length).map (tokOf (T ++ (argToks h T f c a).1.toArray)) =
          (argToks h T f c a).1 := by
        rw [← hT]; exact range_map_tok _ T
      rw [e2, argsToks_frame h h1 T _ f hwf B.wf (by omega) hT hTT as hagree]
      simp [argsToks]

/-- **the stacks along the result of `Append` onto an existing error**: the accumulator's own stacks, then those of
    the arguments — copies keep the stacks of their sources, wrapped plain errors carry stacks captured by this call -/
theorem append_stacks_ref (h : Heap) (T : Toks) (f c : Nat) (id : Nat) (args : List Val) (hwf : WF h)
    (hT : T.size = h.size) (hid : id < h.size) (hne : isEmpty h id = false)
    (hargs : ∀ id', Val.ref id' ∈ args → id' < h.size ∧ tailOf h (fuelOf h) id ∉ chain h (fuelOf h) id') :
    (appendFx h T f c (.ref id) args).2.1 = some id ∧
    chainToks (appendFx h T f c (.ref id) args).1 (appendFx h T f c (.ref id) args).2.2.2.1 id =
      chainToks h T id ++ argsToks h T f c args := by
  have hun : appendFx h T f c (.ref id) args =
      appendLoopF h (some id) (some (tailOf h (fuelOf h) id)) [] T f c args := by simp [appendFx, hne]
  rw [hun]
  obtain ⟨cc, hm⟩ := hwf.chain_spec hid
  exact ⟨appendLoopF_root_some _ _ _ _ _ _ _ _,
    loop_someT args h id _ _ [] T f c hwf cc (fun i hi => (hm i hi).2) hne hT hargs⟩

/-- **… and of `Append` onto nothing** (a nil interface, a nil `*Error`, a typed nil or an empty error as accumulator): exactly the stacks of
    the arguments -/
theorem append_stacks_none (h : Heap) (T : Toks) (f c : Nat) (acc : Val) (args : List Val) (hwf : WF h)
    (hT : T.size = h.size)
    (hacc : acc = .nilIface ∨ acc = .typedNil ∨ acc = .foreignNil ∨ ∃ id, acc = .ref id ∧ isEmpty h id = true)
    (hargs : ∀ id', Val.ref id' ∈ args → id' < h.size) :
    match (appendFx h T f c acc args).2.1 with
    | none => argsToks h T f c args = []
    | some r => chainToks (appendFx h T f c acc args).1 (appendFx h T f c acc args).2.2.2.1 r = argsToks h T f c args := by
  have hun : appendFx h T f c acc args = appendLoopF h none none [] T f c args := by
    rcases hacc with rfl | rfl | rfl | ⟨id, rfl, he⟩
    · simp [appendFx]
    · simp [appendFx]
    · simp [appendFx, isNil]
    · simp [appendFx, he]
  rw [hun]
  exact loop_noneT args h [] T f c hwf hT hargs

/-! ### recorded stacks are never changed by `Append` -/

theorem appendFx_toks : ∀ (args : List Val) (acc : Val) (h : Heap) (T : Toks) (f c : Nat),
    T.size ≤ (appendFx h T f c acc args).2.2.2.1.size ∧
    ∀ i, i < T.size → tokOf (appendFx h T f c acc args).2.2.2.1 i = tokOf T i := by
  have wrapper : ∀ (args : List Val) (h : Heap) (T : Toks) (f c : Nat) (v : Val),
      T.size ≤ (appendLoopF (h.push (wrapperNode v)) (some h.size) (some h.size) [] (T.push (some { creator := f, site := c }))
        f (c + 1) args).2.2.2.1.size ∧
      ∀ i, i < T.size → tokOf (appendLoopF (h.push (wrapperNode v)) (some h.size) (some h.size) []
        (T.push (some { creator := f, site := c })) f (c + 1) args).2.2.2.1 i = tokOf T i := by
    intro args h T f c v
    obtain ⟨g1, g2⟩ := appendLoopF_toks args (h.push (wrapperNode v)) (some h.size) (some h.size) []
      (T.push (some { creator := f, site := c })) f (c + 1)
    simp only [Array.size_push] at g1 g2
    exact ⟨by omega, fun i hi => by rw [g2 i (by omega), tokOf_push_left T _ i hi]⟩
  intro args acc h T f c
  cases acc with
  | nilIface => simp only [appendFx]; exact appendLoopF_toks _ _ _ _ _ _ _ _
  | typedNil => simp only [appendFx]; exact appendLoopF_toks _ _ _ _ _ _ _ _
  | foreignNil => simp only [appendFx, isNil]; exact appendLoopF_toks _ _ _ _ _ _ _ _
  | ref id => simp only [appendFx]; split <;> exact appendLoopF_toks _ _ _ _ _ _ _ _
  | plain u m => simp only [appendFx, isNil]; exact wrapper _ _ _ _ _ _
  | fwrap u m inner => simp only [appendFx, isNil]; exact wrapper _ _ _ _ _ _

/-! ### the message of an aggregate in terms of its items -/

theorem items_eq_map (h : Heap) (hwf : WF h) (id : Nat) (hid : id < h.size) (hne : isEmpty h id = false) :
    items h id = (chain h (fuelOf h) id).map (fun i => itemOf (getNode h i)) ∧
    ∀ i ∈ chain h (fuelOf h) id, msgOf h i = (itemOf (getNode h i)).msg := by
  obtain ⟨c, hm⟩ := hwf.chain_spec hid
  refine ⟨?_, ?_⟩
  · unfold items itemsAt
    rw [← List.filterMap_eq_map]
    apply filterMap_congr'
    intro i hi
    have hlt := (hm i hi).2
    have hne_i : isEmpty h i = false := by
      rcases c.mem_cases i hi with rfl | ⟨p, hp⟩
      · exact hne
      · exact (hwf p i hp).2.2
    rw [get_of_lt h i hlt]
    simp only [Option.bind_some, Function.comp]
    exact visible_of_nonempty _ (isEmpty_false_node h i hlt hne_i)
  · intro i hi
    unfold msgOf
    rw [get_of_lt h i (hm i hi).2]
    rfl

/-- `Message()`: the message itself for a single error, otherwise the header with the count and one `- ` line per
    contained error -/
theorem message_eq_items (h : Heap) (hwf : WF h) (id : Nat) (hid : id < h.size) (hne : isEmpty h id = false) :
    message h id =
      match items h id with
      | [it] => it.msg
      | its => "Multiple (" ++ toString its.length ++ ") errors occurred:" ++
          String.join (its.map (fun it => "\n- " ++ it.msg)) := by
  obtain ⟨hmap, hmsg⟩ := items_eq_map h hwf id hid hne
  obtain ⟨l, e, c, _, _⟩ := hwf.exists_chain (h.size - id) id (Nat.le_refl _) hid
  have hl := (c.bounds hwf hid).2.2.1
  rw [← hl] at hmap hmsg
  have hjoin : (l.map (fun i => "\n- " ++ msgOf h i)) = (items h id).map (fun it => "\n- " ++ it.msg) := by
    rw [hmap, List.map_map]
    apply List.map_congr_left
    intro i hi
    simp only [Function.comp]
    rw [hmsg i hi]
  cases c with
  | last _ hn =>
    simp only [message, hn]
    rw [hmap]
    simp only [List.map_cons, List.map_nil]
    exact hmsg id (by simp)
  | step _ j l' _ hn c' =>
    obtain ⟨j', l'', rfl⟩ : ∃ j' l'', l' = j' :: l'' := by
      cases l' with
      | nil => exact absurd rfl c'.ne_nil
      | cons a b => exact ⟨a, b, rfl⟩
    simp only [message, hn]
    rw [count_eq_items, ← hl, hjoin]
    rw [hmap]
    simp only [List.map_cons, List.length_cons, List.length_map]

theorem tokOf_push_self (T : Toks) (x : Option Tok) (n : Nat) (hn : T.size = n) : tokOf (T.push x) n = x := by
  subst hn; unfold tokOf; simp

end Errs
