import Lemmas.FixedSpec

/-! C03: facts shared by the f64 and f128 bridges: the configuration table, wrap-around is the identity on
    representable values, bounds of truncated quotients. -/
namespace Fixed
open Fixed.Spec

/-- `m` is the multiplier of one of the configurations of the regenerated table -/
def Mult (m : Int) : Prop := ∃ p ∈ Facts.fixedConfigs, p.2 = m

theorem cfg_facts : ∀ p ∈ Facts.fixedConfigs, 10 ≤ p.2 ∧ p.2 ≤ 10000000000000000 ∧ p.2 = 2 * p.2.tdiv 2 := by
  decide

theorem Mult.pos {m : Int} (h : Mult m) : 0 < m := by
  obtain ⟨p, hp, rfl⟩ := h; have := cfg_facts p hp; omega
theorem Mult.le {m : Int} (h : Mult m) : m ≤ 10000000000000000 := by
  obtain ⟨p, hp, rfl⟩ := h; have := cfg_facts p hp; omega
theorem Mult.ge {m : Int} (h : Mult m) : 10 ≤ m := by
  obtain ⟨p, hp, rfl⟩ := h; have := cfg_facts p hp; omega
theorem Mult.even {m : Int} (h : Mult m) : m = 2 * m.tdiv 2 := by
  obtain ⟨p, hp, rfl⟩ := h; exact (cfg_facts p hp).2.2

theorem mult?_Mult {k : Nat} {m : Int} (h : mult? k = some m) : Mult m := by
  unfold mult? at h
  split at h
  · cases h
  · cases hk : Facts.fixedConfigs[k - 1]? with
    | none => rw [hk] at h; cases h
    | some p =>
      rw [hk] at h
      refine ⟨p, List.mem_of_getElem? hk, ?_⟩
      simpa using h

theorem wrap64_of_fits {x : Int} (h : fits64 x) : wrap64 x = x := by
  unfold fits64 at h; unfold wrap64; omega
theorem wrap128_of_fits {x : Int} (h : fits128 x) : wrap128 x = x := by
  unfold fits128 at h; unfold wrap128; omega
theorem fits64_wrap64 (x : Int) : fits64 (wrap64 x) := by
  unfold fits64 wrap64; omega
theorem fits128_wrap128 (x : Int) : fits128 (wrap128 x) := by
  unfold fits128 wrap128; omega
theorem fits128_of_fits64 {x : Int} (h : fits64 x) : fits128 x := by
  unfold fits64 at h; unfold fits128; omega

/-- a truncated remainder lies between 0 and the dividend -/
theorem tmod_between (x d : Int) :
    (0 ≤ x → 0 ≤ x.tmod d ∧ x.tmod d ≤ x) ∧ (x ≤ 0 → x ≤ x.tmod d ∧ x.tmod d ≤ 0) := by
  have h := Int.natAbs_tmod x d
  have h2 := Nat.mod_le x.natAbs d.natAbs
  constructor
  · intro hx
    have := Int.tmod_nonneg d hx
    omega
  · intro hx
    have := Int.tmod_nonneg d (show 0 ≤ -x by omega)
    rw [Int.neg_tmod] at this
    omega

/-- `q·d` for the truncated quotient `q = x / d` lies between 0 and the dividend -/
theorem tdiv_mul_between (x d : Int) :
    (0 ≤ x → 0 ≤ x.tdiv d * d ∧ x.tdiv d * d ≤ x) ∧ (x ≤ 0 → x ≤ x.tdiv d * d ∧ x.tdiv d * d ≤ 0) := by
  have h1 := Int.tmod_add_tdiv_mul x d
  have h2 := tmod_between x d
  constructor
  · intro hx; have := h2.1 hx; omega
  · intro hx; have := h2.2 hx; omega

/-- a truncated quotient by a positive number lies between 0 and the dividend -/
theorem tdiv_between (x d : Int) (hd : 0 < d) :
    (0 ≤ x → 0 ≤ x.tdiv d ∧ x.tdiv d ≤ x) ∧ (x ≤ 0 → x ≤ x.tdiv d ∧ x.tdiv d ≤ 0) := by
  have h := Int.natAbs_tdiv_le_natAbs x d
  constructor
  · intro hx
    have := Int.tdiv_nonneg hx (Int.le_of_lt hd)
    omega
  · intro hx
    have := Int.tdiv_nonneg (show 0 ≤ -x by omega) (Int.le_of_lt hd)
    rw [Int.neg_tdiv] at this
    omega

theorem fits64_tdiv {x d : Int} (hx : fits64 x) (hd : 0 < d) : fits64 (x.tdiv d) := by
  have := tdiv_between x d hd
  unfold fits64 at *; omega
theorem fits128_tdiv {x d : Int} (hx : fits128 x) (hd : 0 < d) : fits128 (x.tdiv d) := by
  have := tdiv_between x d hd
  unfold fits128 at *; omega
theorem fits64_tdiv_mul {x d : Int} (hx : fits64 x) : fits64 (x.tdiv d * d) := by
  have := tdiv_mul_between x d
  unfold fits64 at *; omega
theorem fits128_tdiv_mul {x d : Int} (hx : fits128 x) : fits128 (x.tdiv d * d) := by
  have := tdiv_mul_between x d
  unfold fits128 at *; omega
theorem fits64_tmod {x d : Int} (hx : fits64 x) : fits64 (x.tmod d) := by
  have := tmod_between x d
  unfold fits64 at *; omega
theorem fits128_tmod {x d : Int} (hx : fits128 x) : fits128 (x.tmod d) := by
  have := tmod_between x d
  unfold fits128 at *; omega

theorem Mult.fits64 {m : Int} (h : Mult m) : fits64 m := by
  have := h.pos; have := h.le; unfold Fixed.fits64; omega

end Fixed
