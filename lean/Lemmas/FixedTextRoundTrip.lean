import Lemmas.FixedTextBase
/-! C04 helper lemmas, part 2: the shape of `toStr` and the round trip `fromStr ∘ toStr`. -/
namespace FixedText

/-! ### intStr -/
theorem intStr_nonneg (z : Int) (h : 0 ≤ z) : intStr z = natStr z.natAbs := by
  unfold intStr; rw [if_neg (by omega)]
theorem intStr_neg (z : Int) (h : z < 0) : intStr z = 45 :: natStr z.natAbs := by
  unfold intStr; rw [if_pos h]

/-- bytes of the texts we produce: digits, '-' and '+' -/
def Clean (s : Str) : Prop := ∀ c ∈ s, isDigit c = true ∨ c = 45 ∨ c = 43

theorem natStr_digits (n : Nat) : ∀ c ∈ natStr n, isDigit c = true := by
  have := natStr_all n
  rw [List.all_eq_true] at this
  exact this

theorem intStr_clean (z : Int) : Clean (intStr z) := by
  intro c hc
  unfold intStr at hc
  split at hc
  · rcases List.mem_cons.mp hc with h | h
    · exact Or.inr (Or.inl h)
    · exact Or.inl (natStr_digits _ c h)
  · exact Or.inl (natStr_digits _ c hc)

theorem isDigit_bounds (c : Nat) (h : isDigit c = true) : 48 ≤ c ∧ c ≤ 57 := by
  simpa [isDigit] using h

theorem parseSigned_digit_head (c : Nat) (t : Str) (hc : isDigit c = true) :
    parseSigned (c :: t) = (parseUnsigned (c :: t)).map (fun n => (n : Int)) := by
  have hb := isDigit_bounds c hc
  unfold parseSigned
  split
  · rename_i heq; simp at heq; omega
  · rename_i heq; simp at heq; omega
  · rfl

theorem parseSigned_intStr (z : Int) : parseSigned (intStr z) = some z := by
  by_cases h : z < 0
  · rw [intStr_neg z h]
    show (parseUnsigned (natStr z.natAbs)).map (fun n => -(n : Int)) = some z
    rw [parseUnsigned_natStr]; simp; omega
  · rw [intStr_nonneg z (by omega)]
    obtain ⟨c, t, e, h1, h2, _⟩ := natStr_head z.natAbs
    have hp := parseUnsigned_natStr z.natAbs
    rw [e] at hp ⊢
    rw [parseSigned_digit_head c t (by simp [isDigit]; omega), hp]; simp; omega

theorem parseInt64_intStr (z : Int) (hz : fits64 z = true) : parseInt64 (intStr z) = some z := by
  unfold parseInt64; rw [parseSigned_intStr]; simp [hz]

/-- what the `switch parts[0]` needs to know about an integer text -/
theorem intStr_shape (z : Int) :
    intStr z ≠ [] ∧ intStr z ≠ [45] ∧ intStr z ≠ [45, 48] ∧ ((intStr z).head? = some 45 ↔ z < 0) := by
  by_cases h : z < 0
  · rw [intStr_neg z h]
    obtain ⟨c, t, e, h1, h2, h3⟩ := natStr_head z.natAbs
    rw [e]
    refine ⟨by simp, by simp, ?_, by simp [h]⟩
    intro heq
    simp at heq
    have := h3 heq.1
    omega
  · rw [intStr_nonneg z (by omega)]
    obtain ⟨c, t, e, h1, h2, h3⟩ := natStr_head z.natAbs
    rw [e]
    refine ⟨by simp, ?_, ?_, ?_⟩
    · intro heq; simp at heq; omega
    · intro heq; simp at heq; omega
    · simp [h]; omega

theorem intStr_ne_plus (z : Int) : intStr z ≠ [43] := by
  by_cases h : z < 0
  · rw [intStr_neg z h]; simp
  · rw [intStr_nonneg z (by omega)]
    obtain ⟨c, t, e, h1, _, _⟩ := natStr_head z.natAbs
    rw [e]; intro heq; simp at heq; omega

/-! ### comma / exponent / dot scanning on clean texts -/
theorem stripCommas_id (s : Str) (h : ∀ c ∈ s, c ≠ 44) : stripCommas s = s := by
  unfold stripCommas
  rw [List.filter_eq_self]
  intro c hc
  simpa using h c hc

theorem hasExp_false (s : Str) (h : ∀ c ∈ s, c ≠ 69 ∧ c ≠ 101) : hasExp s = false := by
  unfold hasExp
  rw [List.any_eq_false]
  intro c hc
  have := h c hc
  simp [this.1, this.2]

theorem splitDot_nodot (a : Str) (h : ∀ c ∈ a, c ≠ 46) : splitDot a = (a, none) := by
  induction a with
  | nil => rfl
  | cons c t ih =>
    have hc : c ≠ 46 := h c (List.mem_cons_self ..)
    have := ih (fun d hd => h d (List.mem_cons_of_mem _ hd))
    simp [splitDot, hc, this]

theorem splitDot_dot (a b : Str) (h : ∀ c ∈ a, c ≠ 46) : splitDot (a ++ 46 :: b) = (a, some b) := by
  induction a with
  | nil => simp [splitDot]
  | cons c t ih =>
    have hc : c ≠ 46 := h c (List.mem_cons_self ..)
    have := ih (fun d hd => h d (List.mem_cons_of_mem _ hd))
    simp [splitDot, hc, this]

theorem clean_ne (s : Str) (h : Clean s) : ∀ c ∈ s, c ≠ 44 ∧ c ≠ 46 ∧ c ≠ 69 ∧ c ≠ 101 := by
  intro c hc
  rcases h c hc with hd | hd
  · have := isDigit_bounds c hd; omega
  · omega

theorem clean_append (a b : Str) (ha : Clean a) (hb : Clean b) : Clean (a ++ b) := by
  intro c hc
  rcases List.mem_append.mp hc with h | h
  · exact ha c h
  · exact hb c h

/-! ### the shape of String() -/
/-- the fraction digits `String()` shows for a fraction `f` of `p` places -/
def fracStr (p f : Nat) : Str := stripZeros (digitsPad p f)

theorem fracStr_digits (p f : Nat) : ∀ c ∈ fracStr p f, isDigit c = true := fun c hc =>
  digitsPad_all p f c (stripZeros_subset _ c hc)

theorem fracStr_length (p f : Nat) : (fracStr p f).length ≤ p := by
  have := stripZeros_length_le (digitsPad p f)
  rw [digitsPad_length] at this
  exact this

theorem parseDigits_replicate_zero (n acc : Nat) :
    (List.replicate n 48).foldl (fun a c => a * 10 + (c - 48)) acc = acc * 10^n := by
  induction n generalizing acc with
  | zero => simp
  | succ n ih => simp only [List.replicate_succ, List.foldl_cons, ih]; rw [Nat.pow_succ]; ring

theorem fracStr_ne_nil (p f : Nat) (hf : f < 10^p) (h0 : f ≠ 0) : fracStr p f ≠ [] := by
  intro he
  have h := strip_pad (digitsPad p f)
  unfold fracStr at he
  rw [he, digitsPad_length] at h
  simp only [List.length_nil, Nat.sub_zero, List.nil_append] at h
  have hp := parse_digitsPad p f 0 hf
  rw [← h, parseDigits_replicate_zero] at hp
  omega

/-- what `FromString` rebuilds from the shown fraction: "1" + digits, padded, cut -/
theorem fracBuf_fracStr (p f : Nat) : fracBuf p (fracStr p f) = 49 :: digitsPad p f := by
  have hl := fracStr_length p f
  have h := strip_pad (digitsPad p f)
  rw [digitsPad_length] at h
  unfold fracBuf
  have e : 1 + p - (49 :: fracStr p f).length = p - (fracStr p f).length := by simp; omega
  rw [e]
  have : (49 :: fracStr p f) ++ List.replicate (p - (fracStr p f).length) 48 = 49 :: digitsPad p f := by
    unfold fracStr at *
    simp only [List.cons_append]; rw [h]
  rw [this]
  apply List.take_of_length_le
  simp [digitsPad_length]; omega

/-- truncated division facts used throughout -/
theorem tdiv_facts (raw m : Int) (hm : 0 < m) :
    raw = m * raw.tdiv m + raw.tmod m ∧ -m < raw.tmod m ∧ raw.tmod m < m ∧
    (0 ≤ raw → 0 ≤ raw.tmod m ∧ 0 ≤ raw.tdiv m) ∧ (raw ≤ 0 → raw.tmod m ≤ 0 ∧ raw.tdiv m ≤ 0) := by
  refine ⟨(Int.mul_tdiv_add_tmod raw m).symm, Int.lt_tmod_of_pos raw hm, Int.tmod_lt_of_pos raw hm, ?_, ?_⟩
  · intro h; exact ⟨Int.tmod_nonneg m h, Int.tdiv_nonneg h (by omega)⟩
  · intro h
    have h1 := Int.tmod_nonneg m (show 0 ≤ -raw by omega)
    have h2 := Int.tdiv_nonneg (show 0 ≤ -raw by omega) (show 0 ≤ m by omega)
    rw [Int.neg_tmod] at h1
    rw [Int.neg_tdiv] at h2
    omega

theorem toStr_int (mult raw : Int) (h : raw.tmod mult = 0) : toStr mult raw = intStr (raw.tdiv mult) := by
  unfold toStr; simp [h]

theorem pow10_pos (p : Nat) : (0 : Int) < 10 ^ p := Int.pow_pos (by decide)

theorem toStr_frac (p : Nat) (raw : Int) (h : raw.tmod (10^p) ≠ 0) :
    toStr (10^p) raw = (if raw.tdiv (10^p) = 0 ∧ raw < 0 then [45] else []) ++ intStr (raw.tdiv (10^p)) ++ [46] ++
      fracStr p (raw.tmod (10^p)).natAbs := by
  obtain ⟨_, h2, h3, _, _⟩ := tdiv_facts raw (10^p) (pow10_pos p)
  have hf : (raw.tmod (10^p)).natAbs < 10^p := by
    have : ((10:Int)^p) = ((10^p : Nat) : Int) := by simp
    omega
  have hf0 : (raw.tmod (10^p)).natAbs ≠ 0 := by omega
  unfold toStr
  simp only [h, if_false]
  congr 1
  have e : (if raw.tmod (10^p) < 0 then -raw.tmod (10^p) else raw.tmod (10^p)) + 10^p =
      ((10^p + (raw.tmod (10^p)).natAbs : Nat) : Int) := by
    have : ((10:Int)^p) = ((10^p : Nat) : Int) := by simp
    split <;> omega
  rw [e, intStr_nonneg _ (by omega), Int.natAbs_natCast, natStr_one_prefix p _ hf]
  have := fracStr_ne_nil p _ hf hf0
  unfold fracStr at this ⊢
  show (if stripZeros (digitsPad p (raw.tmod (10 ^ p)).natAbs) = [] then _ else _) = _
  rw [if_neg this]

end FixedText
