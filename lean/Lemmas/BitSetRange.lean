import Lemmas.BitSet
/-! C08: the per-bit actions, the inner bit loop and the outer word loop of the three range operations. -/
namespace BS

/-- what a per-bit body must do: apply `f` to bit `j`, leave the rest, keep `set − popcount` unchanged -/
structure BitSpec (act : W → Int → Nat → W × Int) (f : Bool → Bool) : Prop where
  bits : ∀ w s j k, j < 64 → k < 64 → (act w s j).1.getLsbD k = if k = j then f (w.getLsbD k) else w.getLsbD k
  cnt : ∀ w s j, j < 64 → (act w s j).2 = s + popcount (act w s j).1 - popcount w

/-- what a whole-word fast path must do -/
structure WholeSpec (whole : W → Int → W × Int) (f : Bool → Bool) : Prop where
  bits : ∀ w s k, k < 64 → (whole w s).1.getLsbD k = f (w.getLsbD k)
  cnt : ∀ w s, (whole w s).2 = s + popcount (whole w s).1 - popcount w

theorem popcount_of_bits (w w' : W) (j : Nat) (hj : j < 64) (f : Bool → Bool)
    (hb : ∀ k, k < 64 → w'.getLsbD k = if k = j then f (w.getLsbD k) else w.getLsbD k) :
    (popcount w' : Int) = popcount w + (if f (w.getLsbD j) = true then 1 else 0) - (if w.getLsbD j = true then 1 else 0) := by
  have h := popcount_update w w' j hj (by
    intro k hk
    by_cases h64 : k < 64
    · rw [hb k h64]; simp [hk]
    · rw [BitVec.getLsbD_of_ge _ _ (by omega), BitVec.getLsbD_of_ge _ _ (by omega)])
  rw [h, hb j hj]; simp

theorem bitSet_spec : BitSpec bitSet (fun _ => true) := by
  have hb : ∀ w s j k, j < 64 → k < 64 →
      (bitSet w s j).1.getLsbD k = if k = j then (fun _ => true) (w.getLsbD k) else w.getLsbD k := by
    intro w s j k hj hk
    have ht := testClear_eq w j
    unfold testClear at ht
    rw [Nat.mod_eq_of_lt hj] at ht
    unfold bitSet
    simp only [ht]
    cases hc : w.getLsbD j with
    | false =>
      simp only [Bool.not_false, if_true, BitVec.getLsbD_or, wordMask_bit j k hk, Nat.mod_eq_of_lt hj]
      by_cases e : k = j <;> simp [e]
    | true =>
      simp only [Bool.not_true]
      by_cases e : k = j
      · subst e; simp [hc]
      · simp [e]
  refine ⟨hb, ?_⟩
  intro w s j hj
  rw [popcount_of_bits w _ j hj (fun _ => true) (fun k hk => hb w s j k hj hk)]
  have ht := testClear_eq w j
  unfold testClear at ht
  rw [Nat.mod_eq_of_lt hj] at ht
  unfold bitSet
  simp only [ht]
  cases hc : w.getLsbD j <;> simp <;> omega

theorem bitClear_spec : BitSpec bitClear (fun _ => false) := by
  have hb : ∀ w s j k, j < 64 → k < 64 →
      (bitClear w s j).1.getLsbD k = if k = j then (fun _ => false) (w.getLsbD k) else w.getLsbD k := by
    intro w s j k hj hk
    have ht := testSet_eq w j
    unfold testSet at ht
    rw [Nat.mod_eq_of_lt hj] at ht
    unfold bitClear
    simp only [ht]
    cases hc : w.getLsbD j with
    | true =>
      simp only [if_true, BitVec.getLsbD_and, BitVec.getLsbD_not, wordMask_bit j k hk, Nat.mod_eq_of_lt hj]
      by_cases e : k = j <;> simp [e, hk]
    | false =>
      by_cases e : k = j
      · subst e; simp [hc]
      · simp [e]
  refine ⟨hb, ?_⟩
  intro w s j hj
  rw [popcount_of_bits w _ j hj (fun _ => false) (fun k hk => hb w s j k hj hk)]
  have ht := testSet_eq w j
  unfold testSet at ht
  rw [Nat.mod_eq_of_lt hj] at ht
  unfold bitClear
  simp only [ht]
  cases hc : w.getLsbD j <;> simp <;> omega

theorem bitFlip_spec : BitSpec bitFlip (fun v => !v) := by
  have hx : ∀ (w : W) j k, j < 64 → k < 64 →
      (w ^^^ wordMask j).getLsbD k = if k = j then !w.getLsbD k else w.getLsbD k := by
    intro w j k hj hk
    rw [BitVec.getLsbD_xor, wordMask_bit j k hk, Nat.mod_eq_of_lt hj]
    by_cases e : k = j <;> simp [e]
  have hfst : ∀ w s j, (bitFlip w s j).1 = w ^^^ wordMask j := by
    intro w s j; unfold bitFlip; simp only; split <;> rfl
  have hb : ∀ w s j k, j < 64 → k < 64 →
      (bitFlip w s j).1.getLsbD k = if k = j then (fun v => !v) (w.getLsbD k) else w.getLsbD k := by
    intro w s j k hj hk
    rw [hfst]; exact hx w j k hj hk
  refine ⟨hb, ?_⟩
  intro w s j hj
  rw [popcount_of_bits w _ j hj (fun v => !v) (fun k hk => hb w s j k hj hk)]
  have ht := testSet_eq (w ^^^ wordMask j) j
  unfold testSet at ht
  rw [Nat.mod_eq_of_lt hj, hx w j j hj hj] at ht
  unfold bitFlip
  simp only [ht]
  cases hc : w.getLsbD j <;> simp <;> omega

/-- the inner loop applies `f` to the bits `j … j+n−1` of the word and keeps `set − popcount` unchanged -/
theorem bitLoop_spec {act : W → Int → Nat → W × Int} {f : Bool → Bool} (hs : BitSpec act f) (n : Nat) :
    ∀ (w : W) (s : Int) (j : Nat), j + n ≤ 64 →
      (∀ k, k < 64 → (bitLoop act w s j n).1.getLsbD k
          = if j ≤ k ∧ k < j + n then f (w.getLsbD k) else w.getLsbD k)
      ∧ (bitLoop act w s j n).2 = s + popcount (bitLoop act w s j n).1 - popcount w := by
  induction n with
  | zero =>
    intro w s j _
    refine ⟨fun k _ => ?_, ?_⟩
    · have : ¬ (j ≤ k ∧ k < j + 0) := by omega
      rw [if_neg this]; rfl
    · show s = s + popcount w - popcount w
      omega
  | succ n ih =>
    intro w s j hjn
    simp only [bitLoop]
    have hj : j < 64 := by omega
    obtain ⟨ihb, ihc⟩ := ih (act w s j).1 (act w s j).2 (j + 1) (by omega)
    refine ⟨fun k hk => ?_, ?_⟩
    · rw [ihb k hk, hs.bits w s j k hj hk]
      by_cases e : k = j
      · subst e
        have h1 : ¬ (k + 1 ≤ k ∧ k < k + 1 + n) := by omega
        have h2 : k ≤ k ∧ k < k + (n + 1) := by omega
        simp [h1, h2]
      · by_cases h1 : j + 1 ≤ k ∧ k < j + 1 + n
        · have h2 : j ≤ k ∧ k < j + (n + 1) := by omega
          simp [h1, h2, e]
        · have h2 : ¬ (j ≤ k ∧ k < j + (n + 1)) := by omega
          simp [h1, h2, e]
    · rw [ihc, hs.cnt w s j hj]; omega

/-- the outer loop over the words `i … i2`: applies `f` to exactly the members in `[i·64 + j, i2·64 + lastBit]`,
    keeps the length, and keeps `set − card` unchanged -/
theorem rangeLoop_spec {whole : W → Int → W × Int} {act : W → Int → Nat → W × Int} {f : Bool → Bool}
    (hw : WholeSpec whole f) (hb : BitSpec act f) (i1 i2 lastBit : Nat) (hl : lastBit < 64) (n : Nat) :
    ∀ (d : List W) (s : Int) (i j : Nat), i1 ≤ i → i + n = i2 + 1 → i2 < d.length → j ≤ 64 → (i ≠ i1 → j = 0) →
      (rangeLoop whole act i1 i2 lastBit d s i j n).1.length = d.length
      ∧ (∀ x, bit (rangeLoop whole act i1 i2 lastBit d s i j n).1 x
          = if i * 64 + j ≤ x ∧ x ≤ i2 * 64 + lastBit then f (bit d x) else bit d x)
      ∧ (rangeLoop whole act i1 i2 lastBit d s i j n).2
          = s + card (rangeLoop whole act i1 i2 lastBit d s i j n).1 - card d := by
  induction n with
  | zero =>
    intro d s i j _ hin _ _ _
    refine ⟨rfl, fun x => ?_, ?_⟩
    · have : ¬ (i * 64 + j ≤ x ∧ x ≤ i2 * 64 + lastBit) := by omega
      rw [if_neg this]; rfl
    · show s = s + card d - card d
      omega
  | succ n ih =>
    intro d s i j hi1 hin hi2 hj hj0
    have hilen : i < d.length := by omega
    simp only [rangeLoop]
    by_cases hmid : (i != i1 && i != i2) = true
    · -- whole-word fast path
      simp only [hmid, if_true]
      have hne1 : i ≠ i1 := by
        intro h; simp [h] at hmid
      have hne2 : i ≠ i2 := by
        intro h; simp [h] at hmid
      have hjz : j = 0 := hj0 hne1
      subst hjz
      obtain ⟨l1, b1, c1⟩ := ih (d.set i (whole (getW d i) s).1) (whole (getW d i) s).2 (i + 1) 0
        (by omega) (by omega) (by simpa using hi2) (by omega) (fun _ => rfl)
      refine ⟨by rw [l1]; simp, fun x => ?_, ?_⟩
      · rw [b1 x, bit_set d i _ hilen x]
        by_cases hx : x / 64 = i
        · have h1 : ¬ ((i + 1) * 64 + 0 ≤ x ∧ x ≤ i2 * 64 + lastBit) := by omega
          have h2 : i * 64 + 0 ≤ x ∧ x ≤ i2 * 64 + lastBit := by omega
          rw [if_neg h1, if_pos hx, if_pos h2, hw.bits _ _ _ (Nat.mod_lt _ (by decide))]
          unfold bit; rw [hx]
        · rw [if_neg hx]
          by_cases h1 : (i + 1) * 64 + 0 ≤ x ∧ x ≤ i2 * 64 + lastBit
          · have h2 : i * 64 + 0 ≤ x ∧ x ≤ i2 * 64 + lastBit := by omega
            rw [if_pos h1, if_pos h2]
          · have h2 : ¬ (i * 64 + 0 ≤ x ∧ x ≤ i2 * 64 + lastBit) := by omega
            rw [if_neg h1, if_neg h2]
      · rw [c1, hw.cnt]
        have := card_set d i (whole (getW d i) s).1 hilen
        omega
    · -- first or last word: the bit loop
      simp only [hmid, Bool.false_eq_true, if_false]
      have hedge : i = i1 ∨ i = i2 := by
        by_cases h1 : i = i1
        · exact Or.inl h1
        · by_cases h2 : i = i2
          · exact Or.inr h2
          · exfalso; apply hmid; simp [h1, h2]
      -- the number of the last bit (exclusive) handled in this word
      generalize hld : (if (i == i2) = true then lastBit + 1 else dbpw) = last
      have hlast : last = if i = i2 then lastBit + 1 else 64 := by
        rw [← hld, dbpw_eq]; by_cases h : i = i2 <;> simp [h]
      have hlast64 : last ≤ 64 := by rw [hlast]; split <;> omega
      obtain ⟨bb, bc⟩ := bitLoop_spec hb (last - j) (getW d i) s j (by omega)
      obtain ⟨l1, b1, c1⟩ := ih (d.set i (bitLoop act (getW d i) s j (last - j)).1)
        (bitLoop act (getW d i) s j (last - j)).2 (i + 1) 0
        (by omega) (by omega) (by simpa using hi2) (by omega) (fun _ => rfl)
      refine ⟨by rw [l1]; simp, fun x => ?_, ?_⟩
      · rw [b1 x, bit_set d i _ hilen x]
        by_cases hx : x / 64 = i
        · have h1 : ¬ ((i + 1) * 64 + 0 ≤ x ∧ x ≤ i2 * 64 + lastBit) := by omega
          rw [if_neg h1, if_pos hx, bb _ (Nat.mod_lt _ (by decide))]
          have hbx : (getW d i).getLsbD (x % 64) = bit d x := by unfold bit; rw [hx]
          rw [hbx]
          by_cases h2 : j ≤ x % 64 ∧ x % 64 < j + (last - j)
          · have h3 : i * 64 + j ≤ x ∧ x ≤ i2 * 64 + lastBit := by
              rw [hlast] at h2; split at h2 <;> omega
            rw [if_pos h2, if_pos h3]
          · have h3 : ¬ (i * 64 + j ≤ x ∧ x ≤ i2 * 64 + lastBit) := by
              rw [hlast] at h2; split at h2 <;> omega
            rw [if_neg h2, if_neg h3]
        · rw [if_neg hx]
          by_cases h1 : (i + 1) * 64 + 0 ≤ x ∧ x ≤ i2 * 64 + lastBit
          · have h2 : i * 64 + j ≤ x ∧ x ≤ i2 * 64 + lastBit := by omega
            rw [if_pos h1, if_pos h2]
          · have h2 : ¬ (i * 64 + j ≤ x ∧ x ≤ i2 * 64 + lastBit) := by omega
            rw [if_neg h1, if_neg h2]
      · rw [c1, bc]
        have := card_set d i (bitLoop act (getW d i) s j (last - j)).1 hilen
        omega

end BS
