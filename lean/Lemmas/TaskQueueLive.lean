import Lemmas.TaskQueueW2
/-! C15: liveness WITHOUT Shutdown.  "Each task accepted by Submit is executed" must not depend on `Shutdown` ever being
    called: while an accepted task has not finished, some step other than a new `Submit` or `Shutdown` is enabled
    (`progress0` / `tprogress0`), and every such step strictly decreases the variant of Lemmas/TaskQueue3.lean
    (`mu_step_internal`), so any run of the queue left to itself reaches, within `mu2 s + 1` steps and whatever the
    scheduler does, a state in which every accepted task has finished (`taccepted_tasks_run`).  Core Lean only. -/
namespace TQ

/-- a step that is neither the completion of a `Submit` nor `Shutdown` (nor the hand-shake with it) -/
def Internal (s s' : S) : Prop := s'.nextId = s.nextId ∧ s'.shut = s.shut

theorem mu_step_internal (c : Cfg) (s s' : S) (st : Step c s s') (hi : Internal s s') : mu s' < mu s := by
  obtain ⟨hi1, hi2⟩ := hi
  unfold mu liveBacklog
  cases st <;> (try dsimp only [doSubmit, doTake, doFinish, doReport, doReady] at *)
  case submit p h1 h2 => omega
  case shutdown h1 => omega
  case take t rest h1 h2 => simp only [h1, List.length_cons]; omega
  case finish t ht =>
    have := List.length_erase_of_mem ht
    have hpos : 0 < s.running.length := List.length_pos_of_mem ht
    simp only [this]; omega
  case report h1 h2 => omega
  case recv t rest h1 h2 => simp only [h1, h2, lb, pcw, List.length_cons]; omega
  case closed h1 h2 h3 => simp only [h1, lb, pcw, List.drop_zero]; omega
  case selReadyEmpty h1 h2 h3 => omega
  case selReadyBacklog h1 h2 h3 => simp only [h1, lb, pcw]; omega
  case handoff t h1 h2 => simp only [h1, lb, pcw, List.length_append, List.length_cons, List.length_nil]; omega
  case toBacklog t h1 h2 h3 => simp only [h1, lb, pcw, List.length_append, List.length_cons, List.length_nil]; omega
  case toWait t h1 h2 h3 => simp only [h1, lb, pcw]; omega
  case waitReady t h1 h2 =>
    by_cases hb : s.backlog = []
    · simp only [hb, if_true, h1, lb, pcw, List.length_nil]; omega
    · simp only [hb, if_false, h1, lb, pcw]; omega
  case sendDirect t h1 h2 => simp only [h1, lb, pcw, List.length_append, List.length_cons, List.length_nil]; omega
  case sendBacklog t b rest h1 h2 h3 =>
    simp only [h1, h2, lb, pcw, List.length_append, List.length_cons, List.length_nil]; omega
  case sendBacklog2 b rest h1 h2 h3 =>
    simp only [h1, h2, lb, pcw, List.length_append, List.length_cons, List.length_nil]; omega
  case drainSend i b h1 h2 h3 =>
    have := drop_len _ _ _ h2
    simp only [h1, lb, pcw, List.length_append, List.length_cons, List.length_nil]; omega
  case drainReady i h1 h2 h3 => omega
  case drainDone i h1 h2 =>
    simp only [h1, lb, pcw, List.drop_eq_nil_of_le h2, List.length_nil]; omega
  case finalReady h1 h2 h3 => omega
  case finalClose h1 h2 => simp only [h1, lb, pcw]; omega
  case signalDone h1 h2 => omega

/-- Lemma A with the step named internal -/
theorem lemmaA0 (c : Cfg) (s : S) (hw : 1 ≤ c.workers) (hb : Bounds c s) (hT : 1 ≤ T s) :
    (∃ s', Step c s s' ∧ Internal s s') ∨ 0 < s.ready := by
  obtain ⟨b1, b2, b3⟩ := hb
  unfold T at hT
  cases hr : s.running with
  | cons t rest => left; exact ⟨_, Step.finish s t (by rw [hr]; simp), rfl, rfl⟩
  | nil =>
    rw [hr] at hT b1
    simp only [List.length_nil] at hT b1
    by_cases hrep : 0 < s.reporting
    · by_cases hrd : s.ready < c.workers
      · left; exact ⟨_, Step.report s hrep hrd, rfl, rfl⟩
      · right; omega
    · cases hq : s.tq with
      | cons t rest =>
        left; exact ⟨_, Step.take s t rest hq (by rw [hr]; simp; omega), rfl, rfl⟩
      | nil => right; rw [hq] at hT; simp at hT; omega

theorem lemmaA0' (c : Cfg) (s : S) (hw : 1 ≤ c.workers) (hb : Bounds c s) (hk : K c s) (ho : owes s.pc = 1)
    (hfull : ¬ s.tq.length < c.workers) : ∃ s', Step c s s' ∧ Internal s s' := by
  obtain ⟨b1, b2, b3⟩ := hb
  unfold K T at hk
  rw [ho] at hk
  cases hr : s.running with
  | cons t rest => exact ⟨_, Step.finish s t (by rw [hr]; simp), rfl, rfl⟩
  | nil =>
    rw [hr] at hk b1
    simp only [List.length_nil] at hk b1
    by_cases hrep : 0 < s.reporting ∧ s.ready < c.workers
    · exact ⟨_, Step.report s hrep.1 hrep.2, rfl, rfl⟩
    · cases hq : s.tq with
      | nil => rw [hq] at hfull; simp at hfull; omega
      | cons t rest =>
        by_cases hidle : s.running.length + s.reporting < c.workers
        · exact ⟨_, Step.take s t rest hq hidle, rfl, rfl⟩
        · exfalso
          rw [hr] at hidle
          simp only [List.length_nil, Nat.zero_add] at hidle
          have : ¬ (0 < s.reporting) ∨ ¬ (s.ready < c.workers) := by
            by_cases h0 : 0 < s.reporting
            · right; exact fun h => hrep ⟨h0, h⟩
            · left; exact h0
          omega

/-- **no stall before Shutdown**: while an accepted task has not finished, a step other than `Submit`/`Shutdown` is enabled -/
theorem progress0 (c : Cfg) (hw : 1 ≤ c.workers) (s : S) (h : Reachable c s) (hs : s.shut = 0)
    (hpend : ∃ id, id < s.nextId ∧ s.finished.count id = 0) : ∃ s', Step c s s' ∧ Internal s s' := by
  have hb := bounds c s h
  have hk := K_inv c s h
  have hB := B_inv c hw s h
  have hi := indexSafe c s h
  have hcons := conservation c s h
  have hdr := drained c s h
  cases hpc : s.pc with
  | sel =>
    cases hq : s.inq with
    | cons t rest => exact ⟨_, Step.recv s t rest hpc hq, rfl, rfl⟩
    | nil =>
      by_cases hrd : 0 < s.ready
      · by_cases hbk : s.backlog = []
        · exact ⟨_, Step.selReadyEmpty s hpc hrd hbk, rfl, rfl⟩
        · exact ⟨_, Step.selReadyBacklog s hpc hrd hbk, rfl, rfl⟩
      · by_cases hT : 1 ≤ T s
        · rcases lemmaA0 c s hw hb hT with h1 | h1
          · exact h1
          · exact absurd h1 hrd
        · -- nothing in flight, nothing queued: every accepted task has finished
          exfalso
          obtain ⟨id, hid, hfin⟩ := hpend
          have hbk : s.backlog = [] := by
            cases hbk : s.backlog with
            | nil => rfl
            | cons b r => exact absurd (hB.1 (Or.inl hpc) (by rw [hbk]; simp)) hT
          unfold T at hT
          have htq : s.tq = [] := List.eq_nil_of_length_eq_zero (by omega)
          have hrun : s.running = [] := List.eq_nil_of_length_eq_zero (by omega)
          have := hcons id
          simp only [places, liveBacklog, hpc, held, lb, hq, hbk, htq, hrun, List.append_nil, List.nil_append, hid,
            if_true] at this
          omega
  | got t =>
    by_cases h1 : canHandOff c s
    · exact ⟨_, Step.handoff s t hpc h1, rfl, rfl⟩
    · by_cases h2 : roomInBacklog c s
      · exact ⟨_, Step.toBacklog s t hpc h1 h2, rfl, rfl⟩
      · exact ⟨_, Step.toWait s t hpc h1 h2, rfl, rfl⟩
  | wr t =>
    rcases lemmaA0 c s hw hb (hB.2 ⟨t, hpc⟩) with h1 | h1
    · exact h1
    · exact ⟨_, Step.waitReady s t hpc h1, rfl, rfl⟩
  | sd t =>
    by_cases hf : s.tq.length < c.workers
    · exact ⟨_, Step.sendDirect s t hpc hf, rfl, rfl⟩
    · exact lemmaA0' c s hw hb hk (by rw [hpc]; rfl) hf
  | sb t =>
    by_cases hf : s.tq.length < c.workers
    · cases hbk : s.backlog with
      | nil => exact absurd hbk (hi.1 t hpc)
      | cons b rest => exact ⟨_, Step.sendBacklog s t b rest hpc hbk hf, rfl, rfl⟩
    · exact lemmaA0' c s hw hb hk (by rw [hpc]; rfl) hf
  | sb2 =>
    by_cases hf : s.tq.length < c.workers
    · cases hbk : s.backlog with
      | nil => exact absurd hbk (hi.2 hpc)
      | cons b rest => exact ⟨_, Step.sendBacklog2 s b rest hpc hbk hf, rfl, rfl⟩
    · exact lemmaA0' c s hw hb hk (by rw [hpc]; rfl) hf
  | dr i => have := (hdr (Or.inl ⟨i, hpc⟩)).2; omega
  | fw => have := (hdr (Or.inr (Or.inl hpc))).2; omega
  | ds => have := (hdr (Or.inr (Or.inr (Or.inl hpc)))).2; omega
  | fin => have := (hdr (Or.inr (Or.inr (Or.inr hpc)))).2; omega

end TQ

namespace TQW
open TQ

def TInternal (s s' : TS) : Prop := s'.q.nextId = s.q.nextId ∧ s'.q.shut = s.q.shut

/-- **no stall before Shutdown** in the threaded program -/
theorem tprogress0 (v : Variant) (c : Cfg) (hv : InDomain v) (hw : 1 ≤ c.workers) (s : TS) (h : TReachable v c s)
    (hs : s.q.shut = 0) (hpend : ∃ id, id < s.q.nextId ∧ s.q.finished.count id = 0) :
    ∃ s', TStep v c s s' ∧ TInternal s s' := by
  obtain ⟨hq, L⟩ := simulation v c hv.1.1 hv.1.2 s h
  obtain ⟨q', st, hint⟩ := progress0 (noH c) hw s.q hq hs hpend
  have hnest := nonest_inv v c hv.2 s h
  rcases step_cases _ _ _ st with ⟨l, hl, hn⟩ | ⟨t, rest, hq1, hg⟩ | ⟨t, ht⟩ | ⟨hr, hrd⟩
  · exact ⟨_, TStep.other s l q' hl hn, hint⟩
  · have htot := cnt_total s.ws
    have hlen := runningOf_length s.ws
    have := L.perm.length_eq
    have hidle : 0 < cnt widle s.ws := by
      have := L.rep; have := L.len; have := L.nodead
      have : (noH c).workers = c.workers := rfl
      omega
    obtain ⟨i, w, hi, hwi⟩ := exists_of_cnt_pos widle s.ws hidle
    cases w <;> simp [widle] at hwi
    exact ⟨_, TStep.take s i t rest hi hq1, rfl, rfl⟩
  · have : t ∈ runningOf s.ws := L.perm.mem_iff.mp ht
    obtain ⟨i, k, hi⟩ := exists_running_of_mem s.ws t this
    cases k with
    | zero =>
      by_cases hpan : t ∈ s.q.pan
      · exact ⟨_, TStep.panic s i t hi hpan, rfl, rfl⟩
      · exact ⟨_, TStep.ret s i t hi hpan, rfl, rfl⟩
    | succ k =>
      exfalso
      obtain ⟨a, b, h1, _⟩ := split_at s.ws i _ W.idle hi
      rw [h1, cnt_append] at hnest
      simp [cnt, wnest] at hnest
  · have hmid : 0 < cnt wmid s.ws := by rw [← L.rep]; exact hr
    obtain ⟨i, w, hi, hwi⟩ := exists_of_cnt_pos wmid s.ws hmid
    cases w <;> simp [wmid] at hwi
    case unwinding t =>
      cases hh : c.handler
      · exact ⟨_, TStep.recoverN s i t hi hv.1.1 hh, rfl, rfl⟩
      · exact ⟨_, TStep.recoverH s i t hi hv.1.1 hh, rfl, rfl⟩
    case handling t => exact ⟨_, TStep.handlerRet s i t hi, rfl, rfl⟩
    case unwindingH t => exact ⟨_, TStep.guardRecover s i t hi, rfl, rfl⟩
    case reporting => exact ⟨_, TStep.report s i hi hrd, rfl, rfl⟩

theorem mu2_step_internal (v : Variant) (c : Cfg) (hv : Sound v) (s s' : TS) (L : Link c s) (st : TStep v c s s')
    (hi : TInternal s s') : mu2 s' < mu2 s := by
  obtain ⟨h1, _⟩ := sim_step v c hv.1 hv.2 s s' L st
  unfold mu2
  rcases h1 with ⟨hst, hex⟩ | ⟨heq, hex⟩
  · have := mu_step_internal (noH c) s.q s'.q hst hi
    omega
  · rw [heq]; omega

/-- a run of the queue left to itself: at every index a step other than `Submit`/`Shutdown` fires (chosen by an arbitrary
    scheduler), or no such step is enabled and the state repeats -/
def IsInternalRun (v : Variant) (c : Cfg) (run : Nat → TS) : Prop :=
  ∀ i, (TStep v c (run i) (run (i + 1)) ∧ TInternal (run i) (run (i + 1))) ∨
       (run (i + 1) = run i ∧ ¬ ∃ s', TStep v c (run i) s' ∧ TInternal (run i) s')

theorem tinternal_run_inv (v : Variant) (c : Cfg) (hv : InDomain v) (s : TS) (h : TReachable v c s)
    (run : Nat → TS) (h0 : run 0 = s) (hrun : IsInternalRun v c run) (i : Nat) :
    TReachable v c (run i) ∧ (run i).q.shut = s.q.shut ∧ (run i).q.nextId = s.q.nextId ∧
    (mu2 (run i) + i ≤ mu2 s ∨ ¬ ∃ s', TStep v c (run i) s' ∧ TInternal (run i) s') := by
  induction i with
  | zero => rw [h0]; exact ⟨h, rfl, rfl, Or.inl (by omega)⟩
  | succ i ih =>
    obtain ⟨hr, hs1, hn1, hm⟩ := ih
    obtain ⟨hq, L⟩ := simulation v c hv.1.1 hv.1.2 _ hr
    rcases hrun i with ⟨st, hint⟩ | ⟨heq, hstuck⟩
    · have hm' := mu2_step_internal v c hv.1 _ _ L st hint
      refine ⟨TReachable.step _ _ hr st, by rw [hint.2]; exact hs1, by rw [hint.1]; exact hn1, ?_⟩
      rcases hm with hm | hm
      · left; omega
      · exact absurd ⟨_, st, hint⟩ hm
    · rw [heq]; exact ⟨hr, hs1, hn1, Or.inr hstuck⟩

/-- **every accepted task is executed, Shutdown or not**: from any reachable state in which `Shutdown` has not been
    called, any run of the queue left to itself has, after `mu2 s + 1` steps, finished every accepted task exactly once -/
theorem taccepted_tasks_run (v : Variant) (c : Cfg) (hv : InDomain v) (hw : 1 ≤ c.workers) (s : TS) (h : TReachable v c s)
    (hs : s.q.shut = 0) (run : Nat → TS) (h0 : run 0 = s) (hrun : IsInternalRun v c run) (id : Nat) (hid : id < s.q.nextId) :
    (run (mu2 s + 1)).q.finished.count id = 1 := by
  obtain ⟨hr, hs1, hn1, hm⟩ := tinternal_run_inv v c hv s h run h0 hrun (mu2 s + 1)
  have hstuck : ¬ ∃ s', TStep v c (run (mu2 s + 1)) s' ∧ TInternal (run (mu2 s + 1)) s' := by
    rcases hm with hm | hm
    · omega
    · exact hm
  have hle := (started_le_one _ _ (simulation v c hv.1.1 hv.1.2 _ hr).1 id).2.1
  have hne : (run (mu2 s + 1)).q.finished.count id ≠ 0 := by
    intro h0'
    exact hstuck (tprogress0 v c hv hw _ hr (by rw [hs1]; exact hs) ⟨id, by rw [hn1]; exact hid, h0'⟩)
  omega

end TQW
