import Lemmas.GeomRect
import Mathlib.Algebra.Order.Field.Basic
import Mathlib.Tactic.FieldSimp

/-! Contour / polygon laws for the model of `Model/Geom.lean`, over any linearly ordered field. -/
set_option linter.unusedSectionVars false
namespace Geom
section Field
variable {α : Type} [Field α] [LinearOrder α] [IsStrictOrderedRing α]

/-- x-coordinate, at height `y`, of the line through `cur` and `next` -/
def xAt (cur next : Point α) (y : α) : α := cur.x + (y - cur.y) * (next.x - cur.x) / (next.y - cur.y)
/-- the edge straddles the horizontal line through `pt` (lower end included, upper end excluded) -/
def Straddles (pt cur next : Point α) : Prop := min cur.y next.y ≤ pt.y ∧ pt.y < max cur.y next.y
/-- `pt` lies on the (non-horizontal) edge -/
def OnEdge (pt cur next : Point α) : Prop := Straddles pt cur next ∧ pt.x = xAt cur next pt.y
/-- crossing-number rule: the horizontal ray from `pt` towards +x crosses the edge -/
def Crosses (pt cur next : Point α) : Prop := Straddles pt cur next ∧ pt.x < xAt cur next pt.y

instance (pt cur next : Point α) : Decidable (Crosses pt cur next) := by unfold Crosses Straddles; infer_instance

theorem xAt_le_max (pt cur next : Point α) (h : Straddles pt cur next) : xAt cur next pt.y ≤ max cur.x next.x := by
  obtain ⟨h1, h2⟩ := h
  have hM1 : cur.x ≤ max cur.x next.x := le_max_left _ _
  have hM2 : next.x ≤ max cur.x next.x := le_max_right _ _
  generalize max cur.x next.x = M at *
  unfold xAt
  rcases lt_trichotomy cur.y next.y with hlt | heq | hgt
  · rw [min_eq_left hlt.le] at h1; rw [max_eq_right hlt.le] at h2
    have hd : 0 < next.y - cur.y := by linarith
    rw [← sub_nonneg, show M - (cur.x + (pt.y - cur.y) * (next.x - cur.x) / (next.y - cur.y)) =
        ((next.y - pt.y) * (M - cur.x) + (pt.y - cur.y) * (M - next.x)) / (next.y - cur.y) by field_simp; ring]
    apply div_nonneg _ hd.le
    have := mul_nonneg (show 0 ≤ next.y - pt.y by linarith) (show 0 ≤ M - cur.x by linarith)
    have := mul_nonneg (show 0 ≤ pt.y - cur.y by linarith) (show 0 ≤ M - next.x by linarith)
    linarith
  · rw [heq] at h1 h2; simp at h1 h2; exact absurd h2 (not_lt.mpr h1)
  · rw [min_eq_right hgt.le] at h1; rw [max_eq_left hgt.le] at h2
    have hd : 0 < cur.y - next.y := by linarith
    have hne : next.y - cur.y ≠ 0 := by intro h; linarith
    rw [← sub_nonneg, show M - (cur.x + (pt.y - cur.y) * (next.x - cur.x) / (next.y - cur.y)) =
        ((pt.y - next.y) * (M - cur.x) + (cur.y - pt.y) * (M - next.x)) / (cur.y - next.y) by
          have hne' : cur.y - next.y ≠ 0 := by intro h; linarith
          field_simp; ring]
    apply div_nonneg _ hd.le
    have := mul_nonneg (show 0 ≤ pt.y - next.y by linarith) (show 0 ≤ M - cur.x by linarith)
    have := mul_nonneg (show 0 ≤ cur.y - pt.y by linarith) (show 0 ≤ M - next.x by linarith)
    linarith

theorem straddles_iff (pt cur next : Point α) :
    Straddles pt cur next ↔
      (if cur.y > next.y then next else cur).y ≤ pt.y ∧ pt.y < (if cur.y > next.y then cur else next).y := by
  unfold Straddles
  by_cases h : cur.y > next.y
  · rw [if_pos h, if_pos h, min_eq_right h.le, max_eq_left h.le]
  · rw [if_neg h, if_neg h, min_eq_left (not_lt.mp h), max_eq_right (not_lt.mp h)]

/-- the five-conjunct test of the source is the crossing-number rule for every point that is not on the edge -/
theorem edgeHit_iff (pt cur next : Point α) (hoff : ¬ OnEdge pt cur next) :
    edgeHit pt cur next = true ↔ Crosses pt cur next := by
  unfold edgeHit Crosses
  simp only [Bool.and_eq_true, Bool.or_eq_true, decide_eq_true_eq, Bool.not_eq_true', decide_eq_false_iff_not, ge_iff_le]
  rw [straddles_iff]
  have hx : (pt.y - cur.y) * (next.x - cur.x) / (next.y - cur.y) + cur.x = xAt cur next pt.y := by
    unfold xAt; rw [add_comm]
  rw [hx]
  constructor
  · rintro ⟨⟨⟨⟨h1, h2⟩, h3⟩, h4⟩, h5⟩
    have hs : Straddles pt cur next := (straddles_iff pt cur next).mpr ⟨h1, h2⟩
    refine ⟨⟨h1, h2⟩, ?_⟩
    rcases h5 with h5 | h5
    · have : xAt cur next pt.y = cur.x := by unfold xAt; rw [h5]; simp
      rw [this, h5]; rw [h5] at h3; simpa using h3
    · exact lt_of_le_of_ne h5 (fun e => hoff ⟨hs, e⟩)
  · rintro ⟨⟨h1, h2⟩, h3⟩
    have hs : Straddles pt cur next := (straddles_iff pt cur next).mpr ⟨h1, h2⟩
    refine ⟨⟨⟨⟨h1, h2⟩, lt_of_lt_of_le h3 (xAt_le_max pt cur next hs)⟩, ?_⟩, Or.inr h3.le⟩
    intro e
    unfold Straddles at hs; rw [e] at hs; simp at hs
    exact absurd hs.2 (not_lt.mpr hs.1)

/-- `Contour.Contains` counts exactly the edges crossed by the ray, for points that lie on no edge -/
theorem crossings_eq (c : Contour α) (pt : Point α) (h : ∀ e ∈ Contour.edges c, ¬ OnEdge pt e.1 e.2) :
    Contour.crossings c pt = (Contour.edges c).countP (fun e => decide (Crosses pt e.1 e.2)) := by
  unfold Contour.crossings
  apply List.countP_congr
  intro e he
  have := edgeHit_iff pt e.1 e.2 (h e he)
  simp [this]

theorem parity_count_sum (l : List Nat) : (l.countP (fun n => n % 2 == 1)) % 2 = l.sum % 2 := by
  induction l with
  | nil => rfl
  | cons a t ih =>
    simp only [List.countP_cons, List.sum_cons]
    split
    · rename_i h; simp only [beq_iff_eq] at h; omega
    · rename_i h; simp only [beq_iff_eq] at h; omega

/-- the number of contours that `Contain` the point has the parity of the crossings summed over all edges of all
    contours, for points that lie on no edge -/
theorem evenodd_parity (p : Polygon α) (pt : Point α)
    (h : ∀ c ∈ p, ∀ e ∈ Contour.edges c, ¬ OnEdge pt e.1 e.2) :
    (p.countP (fun c => Contour.contains c pt)) % 2 =
      ((p.map (fun c => (Contour.edges c).countP (fun e => decide (Crosses pt e.1 e.2)))).sum) % 2 := by
  have e1 : p.countP (fun c => Contour.contains c pt) =
      (p.map (fun c => Contour.crossings c pt)).countP (fun n => n % 2 == 1) := by
    rw [List.countP_map]; rfl
  rw [e1, parity_count_sum]
  have e2 : p.map (fun c => Contour.crossings c pt) =
      p.map (fun c => (Contour.edges c).countP (fun e => decide (Crosses pt e.1 e.2))) := by
    apply List.map_congr_left
    intro c hc
    exact crossings_eq c pt (h c hc)
  rw [e2]

end Field

section Bounds
variable {α : Type} [CommRing α] [LinearOrder α] [IsStrictOrderedRing α]

theorem boundsFold (l : List (Point α)) (s : α × α × α × α) :
    let r := l.foldl boundsStep s
    r.1 ≤ s.1 ∧ r.2.1 ≤ s.2.1 ∧ s.2.2.1 ≤ r.2.2.1 ∧ s.2.2.2 ≤ r.2.2.2 ∧
    ∀ v ∈ l, r.1 ≤ v.x ∧ r.2.1 ≤ v.y ∧ v.x ≤ r.2.2.1 ∧ v.y ≤ r.2.2.2 := by
  induction l generalizing s with
  | nil => simp
  | cons p t ih =>
    obtain ⟨a1, a2, a3, a4, a5⟩ := ih (boundsStep s p)
    have b1 : (boundsStep s p).1 ≤ s.1 ∧ (boundsStep s p).1 ≤ p.x := by
      simp only [boundsStep]; split <;> constructor <;> first | exact le_refl _ | (apply le_of_lt; assumption) | (apply not_lt.mp; assumption)
    have b2 : (boundsStep s p).2.1 ≤ s.2.1 ∧ (boundsStep s p).2.1 ≤ p.y := by
      simp only [boundsStep]; split <;> constructor <;> first | exact le_refl _ | (apply le_of_lt; assumption) | (apply not_lt.mp; assumption)
    have b3 : s.2.2.1 ≤ (boundsStep s p).2.2.1 ∧ p.x ≤ (boundsStep s p).2.2.1 := by
      simp only [boundsStep]; split <;> constructor <;> first | exact le_refl _ | (apply le_of_lt; assumption) | (apply not_lt.mp; assumption)
    have b4 : s.2.2.2 ≤ (boundsStep s p).2.2.2 ∧ p.y ≤ (boundsStep s p).2.2.2 := by
      simp only [boundsStep]; split <;> constructor <;> first | exact le_refl _ | (apply le_of_lt; assumption) | (apply not_lt.mp; assumption)
    simp only [List.foldl_cons]
    refine ⟨le_trans a1 b1.1, le_trans a2 b2.1, le_trans b3.1 a3, le_trans b4.1 a4, ?_⟩
    intro v hv
    rcases List.mem_cons.mp hv with e | e
    · subst e
      exact ⟨le_trans a1 b1.2, le_trans a2 b2.2, le_trans b3.2 a3, le_trans b4.2 a4⟩
    · exact a5 v e

/-- `Contour.Bounds` encloses every vertex (in the half-open sense of `Point.In`) -/
theorem contour_bounds_In (c : Contour α) (v : Point α) (hv : v ∈ c) : Rect.In v (Contour.bounds c) := by
  cases c with
  | nil => simp at hv
  | cons p t =>
    simp only [Contour.bounds]
    obtain ⟨_, _, _, _, h⟩ := boundsFold (p :: t) (p.x, p.y, p.x, p.y)
    obtain ⟨h1, h2, h3, h4⟩ := h v hv
    generalize List.foldl boundsStep (p.x, p.y, p.x, p.y) (p :: t) = r at *
    refine ⟨?_, h1, h2, ?_, ?_⟩
    · rintro (h | h) <;> simp only at h <;> linarith
    · simp only [Rect.right]; linarith
    · simp only [Rect.bottom]; linarith

theorem foldl_union_In (cs : List (Contour α)) (b : Rect α) (v : Point α) :
    (Rect.In v b → Rect.In v (cs.foldl (fun b c => b.union (Contour.bounds c)) b)) ∧
    (∀ c ∈ cs, Rect.In v (Contour.bounds c) → Rect.In v (cs.foldl (fun b c => b.union (Contour.bounds c)) b)) := by
  induction cs generalizing b with
  | nil => simp
  | cons c t ih =>
    simp only [List.foldl_cons]
    obtain ⟨i1, i2⟩ := ih (b.union (Contour.bounds c))
    refine ⟨fun h => i1 (Rect.Union_covers _ _ _ (Or.inl h)), ?_⟩
    intro c' hc' h
    rcases List.mem_cons.mp hc' with e | e
    · subst e; exact i1 (Rect.Union_covers _ _ _ (Or.inr h))
    · exact i2 c' e h

/-- `Polygon.Bounds` encloses every vertex of every contour -/
theorem polygon_bounds_In (p : Polygon α) (c : Contour α) (hc : c ∈ p) (v : Point α) (hv : v ∈ c) :
    Rect.In v (Polygon.bounds p) := by
  cases p with
  | nil => simp at hc
  | cons c0 cs =>
    simp only [Polygon.bounds]
    obtain ⟨i1, i2⟩ := foldl_union_In cs (Contour.bounds c0) v
    rcases List.mem_cons.mp hc with e | e
    · subst e; exact i1 (contour_bounds_In _ v hv)
    · exact i2 c e (contour_bounds_In c v hv)

end Bounds
end Geom
