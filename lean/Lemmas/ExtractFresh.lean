import Lemmas.ExtractMain
/-! C19: pairwise distinct cleaned entry paths and an empty (or missing) destination imply the semantic no-conflict
    condition `FreshRun` of `tar_reproduces` on every error-free run: files are only ever created at entry paths. -/
namespace Ex

theorem mkdirAll_files (fs fs1 : FS) (p : P) (mode : Nat) (h : mkdirAll fs p mode = some fs1) (q : P) (ino : Nat)
    (hq : fs1.get q = some (.file ino)) : fs.get q = some (.file ino) := by
  rcases mkdirFrom_change p mode _ 1 fs fs1 (Nat.le_refl _) h q with h1 | ⟨_, h2, _⟩
  · rw [← h1]; exact hq
  · rw [h2] at hq; cases hq

theorem put_files (fs : FS) (p q : P) (n : Nd) (ino : Nat) (hq : (fs.put p n).get q = some (.file ino)) :
    fs.get q = some (.file ino) ∨ q = p := by
  by_cases e : q = p
  · exact Or.inr e
  · rw [get_put_other _ _ _ _ e] at hq; exact Or.inl hq

/-- one iteration creates file nodes only at the entry's own path -/
theorem tarOne_files (fs : FS) (root : P) (mask : Nat) (e : Entry) (r : FS × Bool) (h : tarOne fs root mask e = r)
    (q : P) (ino : Nat) (hq : r.1.get q = some (.file ino)) :
    fs.get q = some (.file ino) ∨ q = cleanJoin root e.name := by
  unfold tarOne at h
  split at h
  · subst h; exact Or.inl hq
  simp only [] at h
  split at h
  · subst h; exact Or.inl hq
  split at h
  · subst h; exact Or.inl hq
  split at h
  · split at h
    · subst h; exact Or.inl hq
    rename_i fs1 h1
    split at h
    · subst h; exact Or.inl (mkdirAll_files _ _ _ _ h1 q ino hq)
    rename_i fs2 h2
    subst h
    unfold writeFile at h2
    split at h2
    · cases h2
    · cases h2
    · simp at h2; subst h2
      exact Or.inl (mkdirAll_files _ _ _ _ h1 q ino hq)
    · split at h2
      · simp at h2; subst h2
        rcases put_files _ _ _ _ _ hq with h3 | h3
        · exact Or.inl (mkdirAll_files _ _ _ _ h1 q ino h3)
        · exact Or.inr h3
      · cases h2
  · split at h
    · subst h; exact Or.inl hq
    rename_i fs1 h1
    split at h
    · subst h; exact Or.inl (mkdirAll_files _ _ _ _ h1 q ino hq)
    split at h
    · subst h; exact Or.inl (mkdirAll_files _ _ _ _ h1 q ino hq)
    split at h
    · subst h; exact Or.inl (mkdirAll_files _ _ _ _ h1 q ino hq)
    rename_i fs2 h2
    subst h
    unfold linkAt at h2
    split at h2
    · split at h2
      · cases h2
      · split at h2
        · simp at h2; subst h2
          rcases put_files _ _ _ _ _ hq with h3 | h3
          · exact Or.inl (mkdirAll_files _ _ _ _ h1 q ino h3)
          · exact Or.inr h3
        · cases h2
    · cases h2
  · split at h
    · subst h; exact Or.inl hq
    rename_i fs1 h1
    split at h
    · subst h; exact Or.inl (mkdirAll_files _ _ _ _ h1 q ino hq)
    rename_i fs2 h2
    subst h
    unfold symlinkAt at h2
    split at h2
    · cases h2
    · split at h2
      · cases h2
      · split at h2
        · simp at h2; subst h2
          rcases put_files _ _ _ _ _ hq with h3 | h3
          · exact Or.inl (mkdirAll_files _ _ _ _ h1 q ino h3)
          · exact Or.inr h3
        · cases h2
  · split at h
    · subst h; exact Or.inl hq
    rename_i fs1 h1
    subst h
    exact Or.inl (mkdirAll_files _ _ _ _ h1 q ino hq)
  · subst h; exact Or.inl hq

/-- a regular-file entry that is extracted without error lies strictly below the root and found its path absent or
    a file -/
theorem tarOne_reg_ok (fs : FS) (root : P) (hr : GoodPath root) (mask : Nat) (e : Entry) (r : FS × Bool)
    (h : tarOne fs root mask e = r) (hk : e.kind = .reg) (hok : r.2 = true) :
    Below root (cleanJoin root e.name) ∧
      (fs.get (cleanJoin root e.name) = none ∨ ∃ ino, fs.get (cleanJoin root e.name) = some (.file ino)) := by
  unfold tarOne at h
  split at h
  · subst h; cases hok
  simp only [] at h
  split at h
  · subst h; cases hok
  rename_i hchk
  have hb : Below root (cleanJoin root e.name) := by
    have hl : lexOK root (cleanJoin root e.name) (e.kind == .dir) = true := by simpa using hchk
    rcases (lexOK_iff root _ hr (cleanJoin_good root e.name hr) _).mp hl with h1 | ⟨_, h2⟩
    · exact h1
    · rw [hk] at h2; cases h2
  refine ⟨hb, ?_⟩
  split at h
  · subst h; cases hok
  simp only [hk] at h
  split at h
  · subst h; cases hok
  rename_i fs1 h1
  have hfr : fs1.get (cleanJoin root e.name) = fs.get (cleanJoin root e.name) :=
    mkdirFrom_frame _ _ _ _ _ _ h1 _ (dropLast_take_ne _ hb.ne_nil)
  split at h
  · subst h; cases hok
  rename_i fs2 h2
  rw [← hfr]
  unfold writeFile at h2
  split at h2
  · cases h2
  · cases h2
  · rename_i ino hg; exact Or.inr ⟨ino, hg⟩
  · rename_i hg; exact Or.inl hg

/-- every file node strictly below the root is at the path of an entry extracted so far -/
def FileInv (root : P) (fs' : FS) (done : List Entry) : Prop :=
  ∀ q, Below root q → ∀ ino, fs'.get q = some (.file ino) → ∃ d ∈ done, q = d.path root

theorem freshRun_of_distinct (root : P) (hr : GoodPath root) (mask : Nat) :
    ∀ (es done : List Entry) (fs' : FS), FileInv root fs' done →
      (done ++ es).Pairwise (fun a b => a.path root ≠ b.path root) →
      (tarExtract fs' root mask es).2 = true → FreshRun root mask fs' es := by
  intro es
  induction es with
  | nil => intro _ _ _ _ _; trivial
  | cons x xs ih =>
    intro done fs' hinv hpw hok
    rw [tarExtract_cons] at hok
    by_cases hb : (tarOne fs' root mask x).2 = true
    · rw [if_pos hb] at hok
      have hassoc : (done ++ [x]) ++ xs = done ++ x :: xs := by simp
      refine ⟨fun hk => ?_, ih (done ++ [x]) _ ?_ (by rw [hassoc]; exact hpw) hok⟩
      · obtain ⟨hbel, hn | ⟨ino, hf⟩⟩ := tarOne_reg_ok fs' root hr mask x _ rfl hk hb
        · exact hn
        · obtain ⟨d, hd, heq⟩ := hinv _ hbel ino hf
          exact absurd heq.symm ((List.pairwise_append.mp hpw).2.2 d hd x (by simp))
      · intro q hq ino hg
        rcases tarOne_files fs' root mask x _ rfl q ino hg with h1 | h1
        · obtain ⟨d, hd, heq⟩ := hinv q hq ino h1
          exact ⟨d, List.mem_append_left _ hd, heq⟩
        · exact ⟨x, by simp, h1⟩
    · rw [if_neg hb] at hok; cases hok

end Ex
