import Lemmas.LogHandlers
import Lemmas.LogEntry
/-! C13, "one line": when no name, key, token or group name contains a line feed, the main line of a record contains
none — so the first line feed of the `Write` is the end of the record's line and whatever follows it is stack text.
Also: the declarative content of `strings.TrimSpace` as modelled by `ELog.trimSpace` (an infix of the input that neither
begins nor ends with a white-space rune). Core Lean only. -/

namespace TLSpec
open TL

mutual
/-- no line feed in any key or rendered value the attribute can print (the stack text of a carrier is not part of the
    main line; what it prints when it is NOT picked up is its fallback) -/
def NoLF : Attr → Prop
  | .leaf k t => 10 ∉ k ∧ 10 ∉ t
  | .empty => True
  | .group k kids => 10 ∉ k ∧ NoLFL kids
  | .stack _ _ fb => NoLF fb
def NoLFL : List Attr → Prop
  | [] => True
  | a :: as => NoLF a ∧ NoLFL as
end

/-- the same for the handler's entries: group names and `WithAttrs` attributes -/
def NoLFE : List Entry → Prop
  | [] => True
  | .grp g :: es => 10 ∉ g ∧ NoLFE es
  | .attrs as :: es => NoLFL as ∧ NoLFE es

theorem texts_append (a b : List Piece) : texts (a ++ b) = texts a ++ texts b := by simp [texts]

mutual
theorem pieces_noLF : ∀ (a : Attr) (p : Bytes), 10 ∉ p → NoLF a → 10 ∉ texts (pieces p a)
  | .leaf k t, p, hp, h => by
    obtain ⟨hk, ht⟩ := by simpa [NoLF] using h
    simp [pieces, texts, Piece.text, hp, hk, ht]
  | .empty, p, _, _ => by simp [pieces, texts]
  | .group k kids, p, hp, h => by
    obtain ⟨hk, hkids⟩ := by simpa [NoLF] using h
    by_cases he : kids.isEmpty = true
    · simp [pieces, he, texts]
    · rw [pieces, if_neg he]
      have := piecesL_noLF kids (p ++ (k ++ [46])) (by simp [hp, hk]) hkids
      simpa [texts, Piece.text] using this
  | .stack k tr fb, p, hp, h => by
    by_cases hc : p = [] ∧ k = stackKey
    · simp [pieces, hc, texts, Piece.text]
    · rw [pieces, if_neg hc]
      exact pieces_noLF fb p hp (by simpa [NoLF] using h)
theorem piecesL_noLF : ∀ (as : List Attr) (p : Bytes), 10 ∉ p → NoLFL as → 10 ∉ texts (piecesL p as)
  | [], _, _, _ => by simp [piecesL, texts]
  | a :: as, p, hp, h => by
    obtain ⟨ha, has⟩ := by simpa [NoLFL] using h
    rw [piecesL, texts_append]
    have h1 := pieces_noLF a p hp ha
    have h2 := piecesL_noLF as p hp has
    simp [h1, h2]
end

theorem piecesE_noLF : ∀ (es : List Entry) (p : Bytes), 10 ∉ p → NoLFE es →
    10 ∉ texts (piecesE p es) ∧ 10 ∉ prefixE p es
  | [], p, hp, _ => by simp [piecesE, prefixE, texts, hp]
  | .grp g :: es, p, hp, h => by
    obtain ⟨hg, hes⟩ := by simpa [NoLFE] using h
    simp only [piecesE, prefixE]
    by_cases h0 : g = []
    · simpa [h0] using piecesE_noLF es p hp hes
    · simpa [h0] using piecesE_noLF es (p ++ (g ++ [46])) (by simp [hp, hg]) hes
  | .attrs as :: es, p, hp, h => by
    obtain ⟨has, hes⟩ := by simpa [NoLFE] using h
    simp only [piecesE, prefixE, texts_append]
    have h1 := piecesL_noLF as p hp has
    have h2 := piecesE_noLF es p hp hes
    exact ⟨by simp [h1, h2.1], h2.2⟩

/-- the main line of a record contains no line feed when the header (level tag, time stamp, message), the handler's
    group names and attributes and the record's attributes contain none -/
theorem mainLine_noLF (names : List (Int × Bytes)) (entries : List Entry) (r : Record)
    (hh : 10 ∉ header names r) (he : NoLFE entries) (ha : NoLFL r.attrs) : 10 ∉ mainLine names entries r := by
  obtain ⟨h1, h2⟩ := piecesE_noLF entries [] (by simp) he
  have h3 := piecesL_noLF r.attrs (prefixE [] entries) h2 ha
  unfold mainLine allPieces
  rw [texts_append]
  by_cases hv : anyVisible (piecesE [] entries ++ piecesL (prefixE [] entries) r.attrs) = true <;>
    simp [hv, hh, h1, h3]

end TLSpec

namespace ELog
open TL

/-! ### `strings.TrimSpace` -/

theorem stripOne_some (seqs : List Bytes) (l r : Bytes) (h : stripOne seqs l = some r) :
    ∃ q ∈ seqs, q ++ r = l := by
  unfold stripOne at h
  obtain ⟨q, hq, hx⟩ := List.exists_of_findSome?_eq_some h
  by_cases hp : q.isPrefixOf l = true
  · simp only [hp, if_true, Option.some.injEq] at hx
    refine ⟨q, hq, ?_⟩
    rw [← hx]
    obtain ⟨t, rfl⟩ := List.isPrefixOf_iff_prefix.mp hp
    simp
  · simp [hp] at hx

/-- a prefix of a string that begins with a white-space sequence … -/
theorem stripOne_none_prefix (seqs : List Bytes) (a k : Bytes) (hk : k <+: a) (hn : stripOne seqs a = none) :
    stripOne seqs k = none := by
  unfold stripOne at hn ⊢
  rw [List.findSome?_eq_none_iff] at hn ⊢
  intro q hq
  have := hn q hq
  by_cases hp : q.isPrefixOf k = true
  · have hqa : q.isPrefixOf a = true :=
      List.isPrefixOf_iff_prefix.mpr ((List.isPrefixOf_iff_prefix.mp hp).trans hk)
    simp [hqa] at this
  · simp [hp]

/-- with fuel at least the length of the string and every sequence non-empty, left trimming is complete: nothing more
    can be stripped from the result -/
theorem trimLeftWith_done (seqs : List Bytes) (hne : ∀ q ∈ seqs, q ≠ []) :
    ∀ (n : Nat) (l : Bytes), l.length ≤ n → stripOne seqs (trimLeftWith seqs n l) = none
  | 0, l, h => by
    have : l = [] := List.length_eq_zero_iff.mp (Nat.le_zero.mp h)
    subst this
    simp only [trimLeftWith]
    unfold stripOne
    rw [List.findSome?_eq_none_iff]
    intro q hq
    have := hne q hq
    cases q with
    | nil => exact absurd rfl this
    | cons x xs => simp [List.isPrefixOf]
  | n + 1, l, h => by
    simp only [trimLeftWith]
    cases hs : stripOne seqs l with
    | none => simpa using hs
    | some r =>
      obtain ⟨q, hq, hql⟩ := stripOne_some seqs l r hs
      have hqne := hne q hq
      have hlen : r.length ≤ n := by
        have : q.length + r.length = l.length := by rw [← hql, List.length_append]
        have : 0 < q.length := List.length_pos_iff.mpr hqne
        omega
      exact trimLeftWith_done seqs hne n r hlen

theorem spaceSeqs_ne_nil : ∀ q ∈ spaceSeqs, q ≠ [] := by decide

theorem spaceSeqs_rev_ne_nil : ∀ q ∈ spaceSeqs.map List.reverse, q ≠ [] := by decide

/-- `TrimSpace` returns a contiguous piece of its argument … -/
theorem trimSpace_infix (l : Bytes) : trimSpace l <:+: l := by
  unfold trimSpace
  have h1 := trimLeftWith_suffix spaceSeqs l.length l
  have h2 := trimLeftWith_suffix (spaceSeqs.map List.reverse) (trimLeftWith spaceSeqs l.length l).length
    (trimLeftWith spaceSeqs l.length l).reverse
  have h3 : (trimLeftWith (spaceSeqs.map List.reverse) (trimLeftWith spaceSeqs l.length l).length
      (trimLeftWith spaceSeqs l.length l).reverse).reverse <+: trimLeftWith spaceSeqs l.length l := by
    have := List.reverse_prefix.mpr h2
    simpa using this
  exact h3.isInfix.trans h1.isInfix

/-- … that does not begin with a white-space rune … -/
theorem trimSpace_no_leading_space (l : Bytes) : stripOne spaceSeqs (trimSpace l) = none := by
  unfold trimSpace
  have hdone := trimLeftWith_done spaceSeqs spaceSeqs_ne_nil l.length l (Nat.le_refl _)
  have h2 := trimLeftWith_suffix (spaceSeqs.map List.reverse) (trimLeftWith spaceSeqs l.length l).length
    (trimLeftWith spaceSeqs l.length l).reverse
  have h3 : (trimLeftWith (spaceSeqs.map List.reverse) (trimLeftWith spaceSeqs l.length l).length
      (trimLeftWith spaceSeqs l.length l).reverse).reverse <+: trimLeftWith spaceSeqs l.length l := by
    have := List.reverse_prefix.mpr h2
    simpa using this
  exact stripOne_none_prefix spaceSeqs _ _ h3 hdone

/-- … and does not end with one (seen from the end: no reversed white-space encoding is a prefix of the reversal) -/
theorem trimSpace_no_trailing_space (l : Bytes) :
    stripOne (spaceSeqs.map List.reverse) (trimSpace l).reverse = none := by
  unfold trimSpace
  rw [List.reverse_reverse]
  exact trimLeftWith_done _ spaceSeqs_rev_ne_nil _ _ (by simp)

end ELog
