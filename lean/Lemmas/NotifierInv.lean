import Lemmas.Notifier
/-! C17: the representation invariant of a notifier state (`Inv`: the production map and the name map are mutual
    inverses, the batch set is the set of registered batch-capable targets, …) and its preservation by every operation. -/
namespace Nt

section assoc
variable {α β : Type} [DecidableEq α]

theorem assocGet_assocDel (l : List (α × β)) (k k' : α) :
    assocGet (assocDel l k) k' = if k' = k then none else assocGet l k' := by
  induction l with
  | nil => simp [assocDel, assocGet]
  | cons a l ih =>
    obtain ⟨k1, v1⟩ := a
    unfold assocDel at ih ⊢
    by_cases h1 : k1 = k
    · subst h1
      simp only [List.filter_cons, ne_eq, not_true_eq_false, decide_false, Bool.false_eq_true, if_false, ih, assocGet]
      by_cases h : k' = k1
      · simp [h]
      · have : ¬ k1 = k' := fun e => h e.symm
        simp [h, this]
    · simp only [List.filter_cons, ne_eq, h1, not_false_eq_true, decide_true, if_true, assocGet, ih]
      by_cases h : k1 = k'
      · have : ¬ k' = k := fun e => h1 (h.trans e)
        simp [h, this]
      · simp [h]

theorem keys_assocDel (l : List (α × β)) (k : α) : keys (assocDel l k) = (keys l).filter (fun x => x ≠ k) := by
  unfold keys assocDel
  induction l with
  | nil => simp
  | cons a l ih =>
    simp only [List.filter_cons, List.map_cons]
    by_cases h : a.1 = k
    · simp only [ne_eq, h, not_true_eq_false, decide_false, Bool.false_eq_true, if_false]; exact ih
    · simp only [ne_eq, h, not_false_eq_true, decide_true, if_true, List.map_cons]; rw [ih]

theorem nodup_assocDel (l : List (α × β)) (k : α) (h : (keys l).Nodup) : (keys (assocDel l k)).Nodup := by
  rw [keys_assocDel]; exact h.filter _

theorem mem_keys_iff (l : List (α × β)) (k : α) : k ∈ keys l ↔ (assocGet l k).isSome := by
  cases h : assocGet l k with
  | none => simp [(assocGet_none_iff _ _).mp h]
  | some v =>
    simp only [Option.isSome_some, iff_true]
    apply Classical.byContradiction
    intro hc; rw [(assocGet_none_iff _ _).mpr hc] at h; cases h

theorem mem_setIns (l : List α) (x y : α) : y ∈ setIns l x ↔ y = x ∨ y ∈ l := by
  unfold setIns
  split
  · rename_i h
    constructor
    · intro hy; exact Or.inr hy
    · rintro (rfl | hy)
      · exact h
      · exact hy
  · simp [or_comm]

theorem nodup_setIns (l : List α) (x : α) (h : l.Nodup) : (setIns l x).Nodup := by
  unfold setIns
  split
  · exact h
  · rename_i hx
    rw [List.nodup_append]
    exact ⟨h, by simp, by intro a ha b hb; simp at hb; subst hb; exact fun e => hx (e ▸ ha)⟩

theorem setIns_ne_nil (l : List α) (x : α) : setIns l x ≠ [] := by
  intro h
  have : x ∈ setIns l x := (mem_setIns l x x).mpr (Or.inl rfl)
  rw [h] at this; cases this

theorem mem_foldl_setIns (xs l : List α) (y : α) : y ∈ xs.foldl setIns l ↔ y ∈ xs ∨ y ∈ l := by
  induction xs generalizing l with
  | nil => simp
  | cons x xs ih =>
    simp only [List.foldl_cons, ih, mem_setIns, List.mem_cons]
    constructor
    · rintro (h | h | h)
      · exact Or.inl (Or.inr h)
      · exact Or.inl (Or.inl h)
      · exact Or.inr h
    · rintro ((h | h) | h)
      · exact Or.inr (Or.inl h)
      · exact Or.inl h
      · exact Or.inr (Or.inr h)

theorem nodup_foldl_setIns (xs l : List α) (h : l.Nodup) : (xs.foldl setIns l).Nodup := by
  induction xs generalizing l with
  | nil => exact h
  | cons x xs ih => exact ih _ (nodup_setIns _ _ h)

end assoc

/-- the name map lists name `n` for target `t` -/
def hasName (names : NMap) (t : Nat) (n : Name) : Prop := ∃ ns, assocGet names t = some ns ∧ n ∈ ns

/-- representation invariant of one notifier -/
structure Inv (s : NSt) : Prop where
  prodKeys : (keys s.prod).Nodup
  sets : SetsNodup s.prod
  nameKeys : (keys s.names).Nodup
  /-- production map and name map are mutual inverses -/
  consistent : ∀ n t, (lookup s.prod n t).isSome ↔ hasName s.names t n
  nonempty : ∀ t ns, assocGet s.names t = some ns → ns ≠ []
  /-- batch targets = registered targets that are batch-capable -/
  batchIff : ∀ t, t ∈ s.batch ↔ batchCapable t = true ∧ t ∈ keys s.names
  batchNodup : s.batch.Nodup
  idle : s.level = 0 → s.current = []

theorem inv_init : Inv {} := by
  refine ⟨by simp [keys], ?_, by simp [keys], ?_, ?_, ?_, by simp, by simp⟩
  · intro n set h; simp [assocGet] at h
  · intro n t; simp [lookup, hasName, assocGet]
  · intro t ns h; simp [assocGet] at h
  · intro t; simp [keys]

/-! ### Register -/
def addNames (names : NMap) (t : Nat) (ns : List Name) : NMap := ns.foldl (fun names n => addName names t n) names

theorem regLoop_prod (ns : List Name) (s : NSt) (t : Nat) (p : Int) :
    (ns.foldl (regStep t p) s).prod = registerAll s.prod ns t p := by
  unfold registerAll
  induction ns generalizing s with
  | nil => rfl
  | cons n ns ih => simp only [List.foldl_cons]; rw [ih]; rfl

theorem regLoop_names (ns : List Name) (s : NSt) (t : Nat) (p : Int) :
    (ns.foldl (regStep t p) s).names = addNames s.names t ns := by
  unfold addNames
  induction ns generalizing s with
  | nil => rfl
  | cons n ns ih => simp only [List.foldl_cons]; rw [ih]; rfl

theorem regLoop_rest (ns : List Name) (s : NSt) (t : Nat) (p : Int) :
    (ns.foldl (regStep t p) s).batch = s.batch ∧ (ns.foldl (regStep t p) s).current = s.current ∧
    (ns.foldl (regStep t p) s).level = s.level ∧ (ns.foldl (regStep t p) s).enabled = s.enabled := by
  induction ns generalizing s with
  | nil => simp
  | cons n ns ih => simp only [List.foldl_cons]; rw [(ih _).1, (ih _).2.1, (ih _).2.2.1, (ih _).2.2.2]; simp [regStep]

theorem assocGet_addName (names : NMap) (t t' : Nat) (n : Name) :
    assocGet (addName names t n) t' = if t' = t then some (setIns ((assocGet names t).getD []) n) else assocGet names t' := by
  unfold addName; rw [assocGet_assocSet]

theorem hasName_addName (names : NMap) (t t' : Nat) (n n' : Name) :
    hasName (addName names t n) t' n' ↔ (t' = t ∧ n' = n) ∨ hasName names t' n' := by
  unfold hasName
  rw [assocGet_addName]
  by_cases h : t' = t
  · subst h
    simp only [if_true, Option.some.injEq, exists_eq_left', true_and, mem_setIns]
    cases hg : assocGet names t' with
    | none => simp
    | some ns => simp
  · simp [h]

theorem hasName_addNames (ns : List Name) (names : NMap) (t t' : Nat) (n' : Name) :
    hasName (addNames names t ns) t' n' ↔ (t' = t ∧ n' ∈ ns) ∨ hasName names t' n' := by
  unfold addNames
  induction ns generalizing names with
  | nil => simp
  | cons n ns ih =>
    simp only [List.foldl_cons, ih, hasName_addName, List.mem_cons]
    constructor
    · rintro (⟨h1, h2⟩ | ⟨h1, h2⟩ | h)
      · exact Or.inl ⟨h1, Or.inr h2⟩
      · exact Or.inl ⟨h1, Or.inl h2⟩
      · exact Or.inr h
    · rintro (⟨h1, h2 | h2⟩ | h)
      · exact Or.inr (Or.inl ⟨h1, h2⟩)
      · exact Or.inl ⟨h1, h2⟩
      · exact Or.inr (Or.inr h)

theorem keys_addNames (ns : List Name) (names : NMap) (t t' : Nat) :
    t' ∈ keys (addNames names t ns) ↔ (t' = t ∧ ns ≠ []) ∨ t' ∈ keys names := by
  unfold addNames
  induction ns generalizing names with
  | nil => simp
  | cons n ns ih =>
    simp only [List.foldl_cons, ih]
    unfold addName
    rw [keys_assocSet]
    by_cases hk : t ∈ keys names
    · simp only [hk, if_true]
      constructor
      · rintro (⟨h1, _⟩ | h)
        · exact Or.inr (h1 ▸ hk)
        · exact Or.inr h
      · rintro (⟨h1, _⟩ | h)
        · exact Or.inr (h1 ▸ hk)
        · exact Or.inr h
    · simp only [hk, if_false, List.mem_append, List.mem_singleton]
      constructor
      · rintro (⟨h1, _⟩ | h | h)
        · exact Or.inl ⟨h1, by simp⟩
        · exact Or.inr h
        · exact Or.inl ⟨h, by simp⟩
      · rintro (⟨h1, _⟩ | h)
        · exact Or.inr (Or.inr h1)
        · exact Or.inr (Or.inl h)

theorem nodupKeys_addNames (ns : List Name) (names : NMap) (t : Nat) (h : (keys names).Nodup) :
    (keys (addNames names t ns)).Nodup := by
  unfold addNames
  induction ns generalizing names with
  | nil => exact h
  | cons n ns ih => exact ih _ (nodup_assocSet _ _ _ h)

theorem nonempty_addNames (ns : List Name) (names : NMap) (t : Nat)
    (h : ∀ t' l, assocGet names t' = some l → l ≠ []) :
    ∀ t' l, assocGet (addNames names t ns) t' = some l → l ≠ [] := by
  unfold addNames
  induction ns generalizing names with
  | nil => exact h
  | cons n ns ih =>
    apply ih
    intro t' l hl
    rw [assocGet_addName] at hl
    by_cases ht : t' = t
    · simp only [ht, if_true, Option.some.injEq] at hl
      rw [← hl]; exact setIns_ne_nil _ _
    · simp only [ht, if_false] at hl; exact h t' l hl

theorem nodupKeys_registerAll (ns : List Name) (prod : PMap) (t : Nat) (p : Int) (h : (keys prod).Nodup) :
    (keys (registerAll prod ns t p)).Nodup := by
  unfold registerAll
  induction ns generalizing prod with
  | nil => exact h
  | cons n ns ih => exact ih _ (nodup_assocSet _ _ _ h)

theorem inv_register (s : NSt) (h : Inv s) (t : Nat) (p : Int) (raws : List (List Nat)) : Inv (register s t p raws) := by
  unfold register
  by_cases hns : normNames raws = []
  · simp [hns]; exact h
  · simp only [hns, if_false]
    generalize hs0 : (if batchCapable t = true then { s with batch := setIns s.batch t } else s) = s0
    have hprod : s0.prod = s.prod := by rw [← hs0]; split <;> rfl
    have hnames : s0.names = s.names := by rw [← hs0]; split <;> rfl
    have hlev : s0.level = s.level ∧ s0.current = s.current := by rw [← hs0]; split <;> simp
    have hbatch : ∀ x, x ∈ s0.batch ↔ (x = t ∧ batchCapable t = true) ∨ x ∈ s.batch := by
      intro x; rw [← hs0]; split
      · rename_i hb; simp [mem_setIns, hb]
      · rename_i hb; simp [hb]
    have hbn : s0.batch.Nodup := by
      rw [← hs0]; split
      · exact nodup_setIns _ _ h.batchNodup
      · exact h.batchNodup
    obtain ⟨r1, r2, r3, r4⟩ := regLoop_rest (normNames raws) s0 t p
    refine ⟨?_, ?_, ?_, ?_, ?_, ?_, ?_, ?_⟩
    · rw [regLoop_prod, hprod]; exact nodupKeys_registerAll _ _ _ _ h.prodKeys
    · rw [regLoop_prod, hprod]; exact setsNodup_registerAll _ _ _ _ h.sets
    · rw [regLoop_names, hnames]; exact nodupKeys_addNames _ _ _ h.nameKeys
    · intro n t'
      rw [regLoop_prod, regLoop_names, hprod, hnames, lookup_registerAll, hasName_addNames, ← h.consistent]
      by_cases hc : n ∈ normNames raws ∧ t' = t
      · simp [hc]
      · rw [if_neg hc]
        constructor
        · intro hh; exact Or.inr hh
        · rintro (hh | hh)
          · exact absurd ⟨hh.2, hh.1⟩ hc
          · exact hh
    · rw [regLoop_names, hnames]; exact nonempty_addNames _ _ _ h.nonempty
    · intro x
      rw [r1, regLoop_names, hnames, hbatch, keys_addNames, h.batchIff]
      constructor
      · rintro (⟨h1, h2⟩ | ⟨h1, h2⟩)
        · exact ⟨h1 ▸ h2, Or.inl ⟨h1, hns⟩⟩
        · exact ⟨h1, Or.inr h2⟩
      · rintro ⟨h1, ⟨h2, _⟩ | h2⟩
        · exact Or.inl ⟨h2, h2 ▸ h1⟩
        · exact Or.inr ⟨h1, h2⟩
    · rw [r1]; exact hbn
    · rw [r2, r3, hlev.1, hlev.2]; exact h.idle

/-! ### Unregister -/
theorem lookup_unregStep (prod : PMap) (t : Nat) (n n' : Name) (t' : Nat) :
    lookup (unregStep t prod n) n' t' = if n' = n ∧ t' = t then none else lookup prod n' t' := by
  unfold unregStep
  cases hg : assocGet prod n with
  | none =>
    simp only
    by_cases h : n' = n ∧ t' = t
    · rw [if_pos h]; simp [lookup, h.1, hg]
    · rw [if_neg h]
  | some set =>
    simp only
    by_cases he : assocDel set t = []
    · simp only [he, if_true]
      unfold lookup; rw [assocGet_assocDel]
      by_cases hn : n' = n
      · subst hn
        simp only [if_true, Option.bind_none, true_and, hg, Option.bind_some]
        by_cases ht : t' = t
        · simp [ht]
        · simp only [ht, if_false]
          have := assocGet_assocDel set t t'
          rw [he] at this; simp only [assocGet, ht, if_false] at this; exact this
      · simp [hn]
    · simp only [he, if_false]
      unfold lookup; rw [assocGet_assocSet]
      by_cases hn : n' = n
      · subst hn
        simp only [if_true, Option.bind_some, true_and, hg, assocGet_assocDel]
      · simp [hn]

theorem lookup_unregAll (ns : List Name) (prod : PMap) (t : Nat) (n' : Name) (t' : Nat) :
    lookup (ns.foldl (unregStep t) prod) n' t' = if n' ∈ ns ∧ t' = t then none else lookup prod n' t' := by
  induction ns generalizing prod with
  | nil => simp
  | cons n ns ih =>
    simp only [List.foldl_cons]
    rw [ih, lookup_unregStep]
    by_cases h1 : n' ∈ ns ∧ t' = t
    · have : n' ∈ n :: ns ∧ t' = t := ⟨List.mem_cons_of_mem _ h1.1, h1.2⟩
      rw [if_pos h1, if_pos this]
    · rw [if_neg h1]
      by_cases h2 : n' = n ∧ t' = t
      · have : n' ∈ n :: ns ∧ t' = t := ⟨by simp [h2.1], h2.2⟩
        rw [if_pos h2, if_pos this]
      · have : ¬ (n' ∈ n :: ns ∧ t' = t) := by
          rintro ⟨hm, ht⟩
          rcases List.mem_cons.mp hm with e | e
          · exact h2 ⟨e, ht⟩
          · exact h1 ⟨e, ht⟩
        rw [if_neg h2, if_neg this]

theorem setsNodup_unregStep (prod : PMap) (t : Nat) (n : Name) (h : SetsNodup prod) : SetsNodup (unregStep t prod n) := by
  intro n' set' hg'
  unfold unregStep at hg'
  cases hg : assocGet prod n with
  | none => simp only [hg] at hg'; exact h n' set' hg'
  | some set =>
    simp only [hg] at hg'
    by_cases he : assocDel set t = []
    · simp only [he, if_true] at hg'
      rw [assocGet_assocDel] at hg'
      by_cases hn : n' = n
      · simp [hn] at hg'
      · simp only [hn, if_false] at hg'; exact h _ _ hg'
    · simp only [he, if_false] at hg'
      rw [assocGet_assocSet] at hg'
      by_cases hn : n' = n
      · simp only [hn, if_true, Option.some.injEq] at hg'
        rw [← hg']; exact nodup_assocDel _ _ (h n set hg)
      · simp only [hn, if_false] at hg'; exact h _ _ hg'

theorem nodupKeys_unregStep (prod : PMap) (t : Nat) (n : Name) (h : (keys prod).Nodup) :
    (keys (unregStep t prod n)).Nodup := by
  unfold unregStep
  split
  · exact h
  · simp only
    split
    · exact nodup_assocDel _ _ h
    · exact nodup_assocSet _ _ _ h

theorem unregAll_inv (ns : List Name) (prod : PMap) (t : Nat) (h1 : (keys prod).Nodup) (h2 : SetsNodup prod) :
    (keys (ns.foldl (unregStep t) prod)).Nodup ∧ SetsNodup (ns.foldl (unregStep t) prod) := by
  induction ns generalizing prod with
  | nil => exact ⟨h1, h2⟩
  | cons n ns ih => exact ih _ (nodupKeys_unregStep _ _ _ h1) (setsNodup_unregStep _ _ _ h2)

theorem inv_unregister (s : NSt) (h : Inv s) (t : Nat) : Inv (unregister s t) := by
  unfold unregister
  cases hg : assocGet s.names t with
  | none => exact h
  | some ns =>
    simp only
    have hmem : ∀ n, (lookup s.prod n t).isSome ↔ n ∈ ns := by
      intro n; rw [h.consistent]; unfold hasName; simp [hg]
    refine ⟨(unregAll_inv ns s.prod t h.prodKeys h.sets).1, (unregAll_inv ns s.prod t h.prodKeys h.sets).2,
      nodup_assocDel _ _ h.nameKeys, ?_, ?_, ?_, ?_, h.idle⟩
    · intro n t'
      rw [lookup_unregAll]
      unfold hasName
      rw [assocGet_assocDel]
      by_cases ht : t' = t
      · subst ht
        simp only [and_true, if_true]
        by_cases hn : n ∈ ns
        · simp [hn]
        · simp only [hn, if_false]
          have := hmem n
          simp only [hn, iff_false] at this
          simp [this]
      · simp only [ht, and_false, if_false]
        exact h.consistent n t'
    · intro t' l hl
      rw [assocGet_assocDel] at hl
      by_cases ht : t' = t
      · simp [ht] at hl
      · simp only [ht, if_false] at hl; exact h.nonempty t' l hl
    · intro x
      rw [keys_assocDel]
      simp only [List.mem_filter, ne_eq, decide_not, Bool.not_eq_eq_eq_not, Bool.not_true, decide_eq_false_iff_not]
      split
      · simp only [List.mem_filter, ne_eq, decide_not, Bool.not_eq_eq_eq_not, Bool.not_true, decide_eq_false_iff_not,
          h.batchIff]
        constructor
        · rintro ⟨⟨a, b⟩, c⟩; exact ⟨a, b, c⟩
        · rintro ⟨a, b, c⟩; exact ⟨⟨a, b⟩, c⟩
      · rename_i hb
        rw [h.batchIff]
        constructor
        · rintro ⟨a, b⟩; exact ⟨a, b, fun e => hb (e ▸ a)⟩
        · rintro ⟨a, b, _⟩; exact ⟨a, b⟩
    · split
      · exact h.batchNodup.filter _
      · exact h.batchNodup

/-! ### RegisterFromNotifier -/
section assoc2
variable {α β : Type} [DecidableEq α]
theorem assocGet_of_mem (l : List (α × β)) (h : (keys l).Nodup) (k : α) (v : β) (hm : (k, v) ∈ l) : assocGet l k = some v := by
  induction l with
  | nil => cases hm
  | cons a l ih =>
    obtain ⟨k1, v1⟩ := a
    have hn' : (keys l).Nodup := by unfold keys at h ⊢; simp at h; exact h.2
    have hnot : k1 ∉ keys l := by unfold keys at h ⊢; simp at h; simpa using h.1
    rcases List.mem_cons.mp hm with e | e
    · cases e; simp [assocGet]
    · have : k1 ≠ k := by
        intro e'; subst e'
        apply hnot; unfold keys; exact List.mem_map.mpr ⟨(k1, v), e, rfl⟩
      simp only [assocGet, this, if_false]; exact ih hn' e

theorem mem_of_assocGet (l : List (α × β)) (k : α) (v : β) (h : assocGet l k = some v) : (k, v) ∈ l := by
  induction l with
  | nil => simp [assocGet] at h
  | cons a l ih =>
    obtain ⟨k1, v1⟩ := a
    simp only [assocGet] at h
    by_cases hk : k1 = k
    · simp only [hk, if_true, Option.some.injEq] at h; subst h; subst hk; simp
    · simp only [hk, if_false] at h; exact List.mem_cons_of_mem _ (ih h)
end assoc2

theorem hasName_stepMergeNames (names : NMap) (e : Nat × List Name) (t : Nat) (n : Name) :
    hasName (stepMergeNames names e) t n ↔ (t = e.1 ∧ n ∈ e.2) ∨ hasName names t n := by
  unfold stepMergeNames hasName
  cases hg : assocGet names e.1 with
  | none =>
    simp only [assocGet_assocSet]
    by_cases ht : t = e.1
    · subst ht; simp [hg]
    · simp [ht]
  | some mine =>
    simp only [assocGet_assocSet]
    by_cases ht : t = e.1
    · subst ht; simp [hg, mem_foldl_setIns]
    · simp [ht]

theorem hasName_mergeNames_gen (other mine : NMap) (t : Nat) (n : Name) :
    hasName (mergeNames mine other) t n ↔ (∃ e ∈ other, t = e.1 ∧ n ∈ e.2) ∨ hasName mine t n := by
  unfold mergeNames
  induction other generalizing mine with
  | nil => simp
  | cons e rest ih =>
    simp only [List.foldl_cons, ih, hasName_stepMergeNames, List.mem_cons, exists_eq_or_imp]
    constructor
    · rintro (h | h | h)
      · exact Or.inl (Or.inr h)
      · exact Or.inl (Or.inl h)
      · exact Or.inr h
    · rintro ((h | h) | h)
      · exact Or.inr (Or.inl h)
      · exact Or.inl h
      · exact Or.inr (Or.inr h)

theorem hasName_mergeNames (other mine : NMap) (hk : (keys other).Nodup) (t : Nat) (n : Name) :
    hasName (mergeNames mine other) t n ↔ hasName other t n ∨ hasName mine t n := by
  rw [hasName_mergeNames_gen]
  have : (∃ e ∈ other, t = e.1 ∧ n ∈ e.2) ↔ hasName other t n := by
    unfold hasName
    constructor
    · rintro ⟨⟨t1, ns⟩, hm, rfl, hn⟩; exact ⟨ns, assocGet_of_mem other hk _ _ hm, hn⟩
    · rintro ⟨ns, hg, hn⟩; exact ⟨(t, ns), mem_of_assocGet other t ns hg, rfl, hn⟩
  rw [this]

theorem keys_stepMergeNames (names : NMap) (e : Nat × List Name) (t : Nat) :
    t ∈ keys (stepMergeNames names e) ↔ t = e.1 ∨ t ∈ keys names := by
  unfold stepMergeNames
  have key : ∀ v, t ∈ keys (assocSet names e.1 v) ↔ t = e.1 ∨ t ∈ keys names := by
    intro v; rw [keys_assocSet]
    split
    · rename_i hk
      constructor
      · intro h; exact Or.inr h
      · rintro (h | h)
        · exact h ▸ hk
        · exact h
    · simp [or_comm]
  split <;> exact key _

theorem keys_mergeNames (other mine : NMap) (t : Nat) :
    t ∈ keys (mergeNames mine other) ↔ t ∈ keys other ∨ t ∈ keys mine := by
  unfold mergeNames
  induction other generalizing mine with
  | nil => simp [keys]
  | cons e rest ih =>
    simp only [List.foldl_cons, ih, keys_stepMergeNames]
    unfold keys
    simp only [List.map_cons, List.mem_cons]
    constructor
    · rintro (h | h | h)
      · exact Or.inl (Or.inr h)
      · exact Or.inl (Or.inl h)
      · exact Or.inr h
    · rintro ((h | h) | h)
      · exact Or.inr (Or.inl h)
      · exact Or.inl h
      · exact Or.inr (Or.inr h)

theorem nodupKeys_mergeNames (other mine : NMap) (h : (keys mine).Nodup) : (keys (mergeNames mine other)).Nodup := by
  unfold mergeNames
  induction other generalizing mine with
  | nil => exact h
  | cons e rest ih =>
    apply ih
    unfold stepMergeNames
    split <;> exact nodup_assocSet _ _ _ h

theorem nonempty_mergeNames (other mine : NMap) (ho : ∀ e ∈ other, e.2 ≠ [])
    (h : ∀ t l, assocGet mine t = some l → l ≠ []) : ∀ t l, assocGet (mergeNames mine other) t = some l → l ≠ [] := by
  unfold mergeNames
  induction other generalizing mine with
  | nil => exact h
  | cons e rest ih =>
    apply ih _ (fun e' he' => ho e' (List.mem_cons_of_mem _ he'))
    intro t l hl
    unfold stepMergeNames at hl
    cases hg : assocGet mine e.1 with
    | none =>
      simp only [hg, assocGet_assocSet] at hl
      by_cases ht : t = e.1
      · simp only [ht, if_true, Option.some.injEq] at hl; rw [← hl]; exact ho e (by simp)
      · simp only [ht, if_false] at hl; exact h t l hl
    | some m =>
      simp only [hg, assocGet_assocSet] at hl
      by_cases ht : t = e.1
      · simp only [ht, if_true, Option.some.injEq] at hl
        have hm := h e.1 m hg
        intro hnil
        cases m with
        | nil => exact hm rfl
        | cons x xs =>
          have : x ∈ e.2.foldl setIns (x :: xs) := (mem_foldl_setIns _ _ _).mpr (Or.inr (by simp))
          rw [hl, hnil] at this; cases this
      · simp only [ht, if_false] at hl; exact h t l hl

theorem nodupKeys_mergeProd (other mine : PMap) (h : (keys mine).Nodup) : (keys (mergeProd mine other)).Nodup := by
  unfold mergeProd
  induction other generalizing mine with
  | nil => exact h
  | cons e rest ih =>
    apply ih
    unfold stepMerge
    split <;> exact nodup_assocSet _ _ _ h

theorem setsNodup_mergeProd (other mine : PMap) (ho : ∀ e ∈ other, (keys e.2).Nodup) (h : SetsNodup mine) :
    SetsNodup (mergeProd mine other) := by
  unfold mergeProd
  induction other generalizing mine with
  | nil => exact h
  | cons e rest ih =>
    apply ih _ (fun e' he' => ho e' (List.mem_cons_of_mem _ he'))
    intro n set hg'
    unfold stepMerge at hg'
    cases hg : assocGet mine e.1 with
    | none =>
      simp only [hg, assocGet_assocSet] at hg'
      by_cases hn : n = e.1
      · simp only [hn, if_true, Option.some.injEq] at hg'; rw [← hg']; exact ho e (by simp)
      · simp only [hn, if_false] at hg'; exact h n set hg'
    | some m =>
      simp only [hg, assocGet_assocSet] at hg'
      by_cases hn : n = e.1
      · simp only [hn, if_true, Option.some.injEq] at hg'; rw [← hg']; exact overlay_nodup _ _ (h e.1 m hg)
      · simp only [hn, if_false] at hg'; exact h n set hg'

theorem inv_mergeFrom (s o : NSt) (h : Inv s) (ho : Inv o) : Inv (mergeFrom s o) := by
  unfold mergeFrom
  refine ⟨nodupKeys_mergeProd _ _ h.prodKeys, ?_, nodupKeys_mergeNames _ _ h.nameKeys, ?_, ?_, ?_, ?_, h.idle⟩
  · apply setsNodup_mergeProd _ _ _ h.sets
    intro e he
    exact ho.sets e.1 e.2 (assocGet_of_mem _ ho.prodKeys _ _ he)
  · intro n t
    simp only
    rw [merge_spec o.prod s.prod ho.prodKeys ho.sets, hasName_mergeNames _ _ ho.nameKeys, ← h.consistent, ← ho.consistent]
    cases lookup o.prod n t <;> simp
  · apply nonempty_mergeNames _ _ _ h.nonempty
    intro e he
    exact ho.nonempty e.1 e.2 (assocGet_of_mem _ ho.nameKeys _ _ he)
  · intro x
    simp only
    rw [mem_foldl_setIns, keys_mergeNames, h.batchIff, ho.batchIff]
    constructor
    · rintro (⟨a, b⟩ | ⟨a, b⟩)
      · exact ⟨a, Or.inl b⟩
      · exact ⟨a, Or.inr b⟩
    · rintro ⟨a, b | b⟩
      · exact Or.inl ⟨a, b⟩
      · exact Or.inr ⟨a, b⟩
  · exact nodup_foldl_setIns _ _ h.batchNodup

/-! ### the remaining operations -/
theorem inv_reset (s : NSt) : Inv (reset s) := by
  unfold reset
  refine ⟨by simp [keys], ?_, by simp [keys], ?_, ?_, ?_, by simp, by simp⟩
  · intro n set h; simp [assocGet] at h
  · intro n t; simp [lookup, hasName, assocGet]
  · intro t ns h; simp [assocGet] at h
  · intro t; simp [keys]

theorem inv_setEnabled (s : NSt) (h : Inv s) (b : Bool) : Inv (setEnabled s b) :=
  ⟨h.prodKeys, h.sets, h.nameKeys, h.consistent, h.nonempty, h.batchIff, h.batchNodup, h.idle⟩

theorem inv_startBatch (s : NSt) (h : Inv s) : Inv (startBatch s).1 := by
  unfold startBatch
  split
  · exact h
  · simp only
    split
    · exact ⟨h.prodKeys, h.sets, h.nameKeys, h.consistent, h.nonempty, h.batchIff, h.batchNodup, by simp⟩
    · exact ⟨h.prodKeys, h.sets, h.nameKeys, h.consistent, h.nonempty, h.batchIff, h.batchNodup, by simp⟩

theorem inv_endBatch (s : NSt) (h : Inv s) : Inv (endBatch s).1 := by
  unfold endBatch
  split
  · simp only
    split
    · exact ⟨h.prodKeys, h.sets, h.nameKeys, h.consistent, h.nonempty, h.batchIff, h.batchNodup, by simp⟩
    · rename_i h2
      exact ⟨h.prodKeys, h.sets, h.nameKeys, h.consistent, h.nonempty, h.batchIff, h.batchNodup,
        fun e => absurd e h2⟩
  · exact h

end Nt
