import Lemmas.RBHeapIns
import Model.RBTreeChecked
set_option linter.unusedSimpArgs false
set_option linter.unusedVariables false
/-! C06 helper lemmas, part 10: the double-black repair loop of the pointer-level `Remove` (`recolor`, `tree.go:278-339`)
    case by case.  Core tactics only. -/
namespace RB
variable {K V : Type}
namespace PTree

/-- the last part of a `recolor` round, far nephew red, `n` the left child (`tree.go:301-306`) -/
def recolorFarL (t : PTree K V) (fuel : Nat) (parent sibling : Ptr) : Option (PTree K V) := do
  let t ← t.setBlack sibling (← t.get parent).black
  let t ← t.setBlack parent true
  let t ← t.setBlack (← t.get sibling).right true
  let t ← t.rotateLeft parent
  recolor t fuel t.root

def recolorFarR (t : PTree K V) (fuel : Nat) (parent sibling : Ptr) : Option (PTree K V) := do
  let t ← t.setBlack sibling (← t.get parent).black
  let t ← t.setBlack parent true
  let t ← t.setBlack (← t.get sibling).left true
  let t ← t.rotateRight parent
  recolor t fuel t.root

/-- the part of one `recolor` round after the red-sibling step, `n` the left child (`tree.go:291-307`) -/
def recolorTailL (t : PTree K V) (fuel : Nat) (n parent sibling : Ptr) : Option (PTree K V) := do
  let s ← t.get sibling
  if t.isBlack s.left && t.isBlack s.right then do
    let t ← t.setBlack sibling false
    recolor t fuel (← t.get n).parent
  else do
    let (t, sibling) ←
      if t.isBlack s.right then do
        let t ← t.setBlack s.left true
        let t ← t.setBlack sibling false
        let t ← t.rotateRight sibling
        some (t, (← t.get parent).right)
      else some (t, sibling)
    recolorFarL t fuel parent sibling

def recolorTailR (t : PTree K V) (fuel : Nat) (n parent sibling : Ptr) : Option (PTree K V) := do
  let s ← t.get sibling
  if t.isBlack s.right && t.isBlack s.left then do
    let t ← t.setBlack sibling false
    recolor t fuel (← t.get n).parent
  else do
    let (t, sibling) ←
      if t.isBlack s.left then do
        let t ← t.setBlack s.right true
        let t ← t.setBlack sibling false
        let t ← t.rotateLeft sibling
        some (t, (← t.get parent).left)
      else some (t, sibling)
    recolorFarR t fuel parent sibling

theorem recolor_succ_L (t : PTree K V) (fuel : Nat) (n parent sibling : Ptr) (x pn : PNode K V)
    (h1 : (n != t.root) = true) (h2 : t.isBlack n = true) (hn : t.get n = some x) (hp : x.parent = parent)
    (hpn : t.get parent = some pn) (hl : (pn.left == n) = true) (hs : pn.right = sibling) (hss : sibling.isSome = true) :
    recolor t (fuel + 1) n = (do
      let (t, parent, sibling) ←
        if t.isRed sibling then do
          let t ← t.setBlack sibling true
          let t ← t.setBlack parent false
          let t ← t.rotateLeft parent
          let parent := (← t.get n).parent
          let sibling := (← t.get parent).right
          some (t, parent, sibling)
        else some (t, parent, sibling)
      recolorTailL t fuel n parent sibling) := by
  rw [recolor]
  simp only [h1, h2, Bool.and_self, if_true, hn, Option.bind_eq_bind, Option.bind_some, hp, hpn, hl, hs, hss,
    recolorTailL, recolorFarL]

theorem recolor_succ_R (t : PTree K V) (fuel : Nat) (n parent : Ptr) (x pn : PNode K V)
    (h1 : (n != t.root) = true) (h2 : t.isBlack n = true) (hn : t.get n = some x) (hp : x.parent = parent)
    (hpn : t.get parent = some pn) (hl : (pn.left == n) = false) (hr : (pn.right == n) = true)
    (hss : pn.left.isSome = true) :
    recolor t (fuel + 1) n = (do
      let (t, parent, sibling) ←
        if t.isRed pn.left then do
          let t ← t.setBlack pn.left true
          let t ← t.setBlack parent false
          let t ← t.rotateRight parent
          let parent := (← t.get n).parent
          let sibling := (← t.get parent).left
          some (t, parent, sibling)
        else some (t, parent, pn.left)
      recolorTailR t fuel n parent sibling) := by
  rw [recolor]
  simp only [h1, h2, Bool.and_self, if_true, hn, Option.bind_eq_bind, Option.bind_some, hp, hpn, hl, hr, hss,
    recolorTailR, recolorFarR, Bool.false_eq_true, if_false]

theorem isBlack_of_owns {t : PTree K V} {par : Ptr} {s : AT K V} (h : Owns t par s) :
    t.isBlack s.ptr = !s.erase.isRed := by
  cases s with
  | nil => rfl
  | node a c l k v r =>
    simp only [isBlack, AT.ptr_node, h.1, AT.erase]
    cases c <;> rfl

/-- counting facts used by the frame arguments: nodup of a tree's addresses from a `Distinct` -/
syntax "count_nodup " ident : tactic
macro_rules
  | `(tactic| count_nodup $hd) => `(tactic|
      (rw [List.nodup_iff_count]; intro x; have := $hd x
       simp only [ctxAddrs, AT.addrs, List.count_cons, List.count_append, List.count_nil] at this ⊢; omega))

/-- `x ∉ l` by counting -/
syntax "count_notin " ident term : tactic
macro_rules
  | `(tactic| count_notin $hd $x) => `(tactic|
      (intro hm; have c1 := List.count_pos_iff.mpr hm; have := $hd $x
       simp only [ctxAddrs, AT.addrs, List.count_cons, List.count_append, List.count_nil, beq_self_eq_true, if_true] at this c1
       omega))

theorem far_L (t : PTree K V) (rest : Ctx K V) (pa sa ra : Nat) (pc sc0 : Color) (pk sk rk : K) (pv sv rv : V)
    (sl rl rr s : AT K V) (fuel : Nat)
    (hctx : OwnsCtx t (⟨.L, pa, pc, pk, pv, .node sa sc0 sl sk sv (.node ra .red rl rk rv rr)⟩ :: rest) s.ptr)
    (hs : Owns t (some pa) s)
    (hd : Distinct (⟨.L, pa, pc, pk, pv, .node sa sc0 sl sk sv (.node ra .red rl rk rv rr)⟩ :: rest) s) :
    ∃ t4, recolorFarL t fuel (some pa) (some sa) = recolor t4 fuel t4.root ∧ t4.count = t.count ∧
      OwnsCtx t4 rest (some sa) ∧
      Owns t4 (ctxPtr rest) (.node sa pc (.node pa .black s pk pv sl) sk sv (.node ra .black rl rk rv rr)) := by
  obtain ⟨hp, ⟨hsa, hsl, hra, hrl, hrr⟩, hrest⟩ := hctx
  simp only [AT.ptr_node] at hp hsa hra hsl hrl hrr hrest
  have hps : pa ≠ sa := by addr_ne hd pa
  have hpr : pa ≠ ra := by addr_ne hd pa
  have hsr : sa ≠ ra := by addr_ne hd sa
  have hfr : ∀ (u : AT K V), (∀ x, 0 < u.addrs.count x → x ≠ pa ∧ x ≠ sa ∧ x ≠ ra) → ∀ (t' : PTree K V) (par : Ptr),
      (∀ x, x ≠ pa → x ≠ sa → x ≠ ra → t'.get (some x) = t.get (some x)) → Owns t par u → Owns t' par u :=
    fun u hu t' par hf h => Owns.frame (fun x hx => hf x (hu x (List.count_pos_iff.mpr hx)).1
      (hu x (List.count_pos_iff.mpr hx)).2.1 (hu x (List.count_pos_iff.mpr hx)).2.2) h
  have ds : ∀ x, 0 < s.addrs.count x → x ≠ pa ∧ x ≠ sa ∧ x ≠ ra :=
    fun x hx => ⟨by addr_ne hd x, by addr_ne hd x, by addr_ne hd x⟩
  have dsl : ∀ x, 0 < sl.addrs.count x → x ≠ pa ∧ x ≠ sa ∧ x ≠ ra :=
    fun x hx => ⟨by addr_ne hd x, by addr_ne hd x, by addr_ne hd x⟩
  have drl : ∀ x, 0 < rl.addrs.count x → x ≠ pa ∧ x ≠ sa ∧ x ≠ ra :=
    fun x hx => ⟨by addr_ne hd x, by addr_ne hd x, by addr_ne hd x⟩
  have drr : ∀ x, 0 < rr.addrs.count x → x ≠ pa ∧ x ≠ sa ∧ x ≠ ra :=
    fun x hx => ⟨by addr_ne hd x, by addr_ne hd x, by addr_ne hd x⟩
  have drest : ∀ x, 0 < (ctxAddrs rest).count x → x ≠ pa ∧ x ≠ sa ∧ x ≠ ra :=
    fun x hx => ⟨by addr_ne hd x, by addr_ne hd x, by addr_ne hd x⟩
  obtain ⟨t1, e1, h1a, h1o, h1r, h1c⟩ := setBlack_spec t sa (decide (pc = .black)) _ hsa
  have hp1 : t1.get (some pa) = _ := (h1o pa hps).trans hp
  obtain ⟨t2, e2, h2a, h2o, h2r, h2c⟩ := setBlack_spec t1 pa true _ hp1
  have hsa2 : t2.get (some sa) = _ := (h2o sa (Ne.symm hps)).trans h1a
  have hra2 : t2.get (some ra) = _ := ((h2o ra (Ne.symm hpr)).trans (h1o ra (Ne.symm hsr))).trans hra
  obtain ⟨t3, e3, h3a, h3o, h3r, h3c⟩ := setBlack_spec t2 ra true _ hra2
  have hf3 : ∀ x, x ≠ pa → x ≠ sa → x ≠ ra → t3.get (some x) = t.get (some x) :=
    fun x h1 h2 h3 => ((h3o x h3).trans (h2o x h1)).trans (h1o x h2)
  have hp3 : t3.get (some pa) = _ := (h3o pa hpr).trans h2a
  have hsa3 : t3.get (some sa) = _ := (h3o sa hsr).trans hsa2
  have hown3 : Owns t3 (ctxPtr rest) (.node pa .black s pk pv (.node sa pc sl sk sv (.node ra .black rl rk rv rr))) :=
    ⟨hp3, hfr s ds t3 _ hf3 hs, hsa3, hfr sl dsl t3 _ hf3 hsl, h3a, hfr rl drl t3 _ hf3 hrl, hfr rr drr t3 _ hf3 hrr⟩
  have hnd3 : (AT.node pa .black s pk pv (.node sa pc sl sk sv (.node ra .black rl rk rv rr))).addrs.Nodup := by
    count_nodup hd
  have hrest3 : OwnsCtx t3 rest (some pa) :=
    OwnsCtx.frame (fun x hx => hf3 x (drest x (List.count_pos_iff.mpr hx)).1 (drest x (List.count_pos_iff.mpr hx)).2.1
      (drest x (List.count_pos_iff.mpr hx)).2.2) ((h3r.trans h2r).trans h1r) hrest
  have hpar3 : ∀ p, ctxPtr rest = some p →
      p ∉ (AT.node pa .black s pk pv (.node sa pc sl sk sv (.node ra .black rl rk rv rr))).addrs ∧
      (t3.get (some p)).isSome := by
    intro p hp'
    obtain ⟨h1, h2⟩ := hrest3.ptr_get p hp'
    have c2 := List.count_pos_iff.mpr h2
    exact ⟨by count_notin hd p, h1⟩
  obtain ⟨t4, e4, hown4, -, hc4, hr4, hf4, hP4⟩ := rotateLeft_owns t3 (ctxPtr rest) pa sa .black pc s sl _ pk sk pv sv hown3 hnd3 hpar3
  refine ⟨t4, ?_, by rw [hc4, h3c, h2c, h1c], ?_, hown4⟩
  · simp only [recolorFarL, hp, e1, Option.bind_eq_bind, Option.bind_some, e2, hsa2, e3, e4]
  · refine OwnsCtx.rehole hrest3 ?_ ?_ hr4 (fun p hp' => Or.inl (hP4 p hp')) ?_
    · count_nodup hd
    · count_notin hd pa
    · intro x hx hne'
      have c2 := List.count_pos_iff.mpr hx
      exact hf4 x (by count_notin hd x) hne'

theorem near_L (t : PTree K V) (rest : Ctx K V) (pa sa la : Nat) (pc sc0 : Color) (pk sk lk : K) (pv sv lv : V)
    (sr ll lr s : AT K V)
    (hctx : OwnsCtx t (⟨.L, pa, pc, pk, pv, .node sa sc0 (.node la .red ll lk lv lr) sk sv sr⟩ :: rest) s.ptr)
    (hs : Owns t (some pa) s)
    (hd : Distinct (⟨.L, pa, pc, pk, pv, .node sa sc0 (.node la .red ll lk lv lr) sk sv sr⟩ :: rest) s) :
    ∃ t3, (do
        let t ← t.setBlack (some la) true
        let t ← t.setBlack (some sa) false
        let t ← t.rotateRight (some sa)
        some (t, (← t.get (some pa)).right)) = some (t3, some la) ∧ t3.count = t.count ∧
      OwnsCtx t3 (⟨.L, pa, pc, pk, pv, .node la .black ll lk lv (.node sa .red lr sk sv sr)⟩ :: rest) s.ptr ∧
      Owns t3 (some pa) s ∧
      Distinct (⟨.L, pa, pc, pk, pv, .node la .black ll lk lv (.node sa .red lr sk sv sr)⟩ :: rest) s := by
  obtain ⟨hp, ⟨hsa, ⟨hla, hll, hlr⟩, hsr⟩, hrest⟩ := hctx
  simp only [AT.ptr_node] at hp hsa hla hll hlr hsr hrest
  have hps : pa ≠ sa := by addr_ne hd pa
  have hpl : pa ≠ la := by addr_ne hd pa
  have hsl : sa ≠ la := by addr_ne hd sa
  have hfr : ∀ (u : AT K V), (∀ x, 0 < u.addrs.count x → x ≠ la ∧ x ≠ sa) → ∀ (t' : PTree K V) (par : Ptr),
      (∀ x, x ≠ la → x ≠ sa → t'.get (some x) = t.get (some x)) → Owns t par u → Owns t' par u :=
    fun u hu t' par hf h => Owns.frame (fun x hx => hf x (hu x (List.count_pos_iff.mpr hx)).1
      (hu x (List.count_pos_iff.mpr hx)).2) h
  have dll : ∀ x, 0 < ll.addrs.count x → x ≠ la ∧ x ≠ sa := fun x hx => ⟨by addr_ne hd x, by addr_ne hd x⟩
  have dlr : ∀ x, 0 < lr.addrs.count x → x ≠ la ∧ x ≠ sa := fun x hx => ⟨by addr_ne hd x, by addr_ne hd x⟩
  have dsr : ∀ x, 0 < sr.addrs.count x → x ≠ la ∧ x ≠ sa := fun x hx => ⟨by addr_ne hd x, by addr_ne hd x⟩
  obtain ⟨t1, e1, h1a, h1o, h1r, h1c⟩ := setBlack_spec t la true _ hla
  have hsa1 : t1.get (some sa) = _ := (h1o sa hsl).trans hsa
  obtain ⟨t2, e2, h2a, h2o, h2r, h2c⟩ := setBlack_spec t1 sa false _ hsa1
  have hf2 : ∀ x, x ≠ la → x ≠ sa → t2.get (some x) = t.get (some x) := fun x h1 h2 => (h2o x h2).trans (h1o x h1)
  have hla2 : t2.get (some la) = _ := (h2o la (Ne.symm hsl)).trans h1a
  have hp2 : t2.get (some pa) = _ := (hf2 pa hpl hps).trans hp
  have hown2 : Owns t2 (some pa) (.node sa .red (.node la .black ll lk lv lr) sk sv sr) :=
    ⟨h2a, ⟨hla2, hfr ll dll t2 _ hf2 hll, hfr lr dlr t2 _ hf2 hlr⟩, hfr sr dsr t2 _ hf2 hsr⟩
  have hnd2 : (AT.node sa .red (.node la .black ll lk lv lr) sk sv sr).addrs.Nodup := by count_nodup hd
  have hpar2 : ∀ p, some pa = some p → p ∉ (AT.node sa .red (.node la .black ll lk lv lr) sk sv sr).addrs ∧
      (t2.get (some p)).isSome := by
    intro p hp'; cases hp'
    exact ⟨by count_notin hd pa, by rw [hp2]; rfl⟩
  obtain ⟨t3, e3, hown3, -, hc3, hr3, hf3, hP3⟩ := rotateRight_owns t2 (some pa) sa la .red .black ll lr sr sk lk sv lv hown2 hnd2 hpar2
  simp only [Option.isSome_some, if_true] at hr3
  have hp3 : t3.get (some pa) = some ⟨pk, pv, ctxPtr rest, s.ptr, some la, decide (pc = .black)⟩ := by
    rw [hP3 pa rfl, hp2]
    simp only [Option.map_some, relinkR, beq_self_eq_true, if_true]
  have hf3' : ∀ x, 0 < (ctxAddrs rest).count x ∨ 0 < s.addrs.count x → t3.get (some x) = t.get (some x) := by
    intro x hx
    have h1 : x ≠ pa := by rcases hx with hx | hx <;> addr_ne hd x
    have h2 : x ≠ la := by rcases hx with hx | hx <;> addr_ne hd x
    have h3 : x ≠ sa := by rcases hx with hx | hx <;> addr_ne hd x
    rw [hf3 x (by rcases hx with hx | hx <;> count_notin hd x) (fun e => h1 (by cases e; rfl))]
    exact hf2 x h2 h3
  refine ⟨t3, ?_, by rw [hc3, h2c, h1c], ⟨hp3, hown3, ?_⟩, ?_, ?_⟩
  · simp only [e1, e2, e3, hp3, Option.bind_eq_bind, Option.bind_some]
  · exact OwnsCtx.frame (fun x hx => hf3' x (Or.inl (List.count_pos_iff.mpr hx))) (hr3.trans (h2r.trans h1r)) hrest
  · exact Owns.frame (fun x hx => hf3' x (Or.inr (List.count_pos_iff.mpr hx))) hs
  · intro x; have := hd x
    simp only [ctxAddrs, AT.addrs, List.count_cons, List.count_append, List.count_nil] at this ⊢; omega

theorem redsib_L (t : PTree K V) (rest : Ctx K V) (pa sa qa na : Nat) (pc qc sc : Color) (pk sk qk nk : K)
    (pv sv qv nv : V) (sr ql qr nl nr : AT K V)
    (hctx : OwnsCtx t (⟨.L, pa, pc, pk, pv, .node sa .red (.node qa qc ql qk qv qr) sk sv sr⟩ :: rest) (some na))
    (hs : Owns t (some pa) (.node na sc nl nk nv nr))
    (hd : Distinct (⟨.L, pa, pc, pk, pv, .node sa .red (.node qa qc ql qk qv qr) sk sv sr⟩ :: rest)
      (.node na sc nl nk nv nr)) :
    ∃ t3, (do
        let t ← t.setBlack (some sa) true
        let t ← t.setBlack (some pa) false
        let t ← t.rotateLeft (some pa)
        let parent := (← t.get (some na)).parent
        let sibling := (← t.get parent).right
        some (t, parent, sibling)) = some (t3, some pa, some qa) ∧ t3.count = t.count ∧
      OwnsCtx t3 (⟨.L, pa, .red, pk, pv, .node qa qc ql qk qv qr⟩ :: ⟨.L, sa, .black, sk, sv, sr⟩ :: rest) (some na) ∧
      Owns t3 (some pa) (.node na sc nl nk nv nr) ∧
      Distinct (⟨.L, pa, .red, pk, pv, .node qa qc ql qk qv qr⟩ :: ⟨.L, sa, .black, sk, sv, sr⟩ :: rest)
        (.node na sc nl nk nv nr) := by
  obtain ⟨hp, ⟨hsa, hq, hsr⟩, hrest⟩ := hctx
  simp only [AT.ptr_node] at hp hsa hq hsr hrest
  have hps : pa ≠ sa := by addr_ne hd pa
  have hfr : ∀ (u : AT K V), (∀ x, 0 < u.addrs.count x → x ≠ pa ∧ x ≠ sa) → ∀ (t' : PTree K V) (par : Ptr),
      (∀ x, x ≠ pa → x ≠ sa → t'.get (some x) = t.get (some x)) → Owns t par u → Owns t' par u :=
    fun u hu t' par hf h => Owns.frame (fun x hx => hf x (hu x (List.count_pos_iff.mpr hx)).1
      (hu x (List.count_pos_iff.mpr hx)).2) h
  have ds : ∀ x, 0 < (AT.node na sc nl nk nv nr).addrs.count x → x ≠ pa ∧ x ≠ sa := by
    intro x hx
    simp only [AT.addrs, List.count_cons, List.count_append] at hx
    exact ⟨by addr_ne hd x, by addr_ne hd x⟩
  have dq : ∀ x, 0 < (AT.node qa qc ql qk qv qr).addrs.count x → x ≠ pa ∧ x ≠ sa := by
    intro x hx
    simp only [AT.addrs, List.count_cons, List.count_append] at hx
    exact ⟨by addr_ne hd x, by addr_ne hd x⟩
  have dsr : ∀ x, 0 < sr.addrs.count x → x ≠ pa ∧ x ≠ sa := fun x hx => ⟨by addr_ne hd x, by addr_ne hd x⟩
  have drest : ∀ x, 0 < (ctxAddrs rest).count x → x ≠ pa ∧ x ≠ sa := fun x hx => ⟨by addr_ne hd x, by addr_ne hd x⟩
  obtain ⟨t1, e1, h1a, h1o, h1r, h1c⟩ := setBlack_spec t sa true _ hsa
  have hp1 : t1.get (some pa) = _ := (h1o pa hps).trans hp
  obtain ⟨t2, e2, h2a, h2o, h2r, h2c⟩ := setBlack_spec t1 pa false _ hp1
  have hf2 : ∀ x, x ≠ pa → x ≠ sa → t2.get (some x) = t.get (some x) := fun x h1 h2 => (h2o x h1).trans (h1o x h2)
  have hsa2 : t2.get (some sa) = _ := (h2o sa (Ne.symm hps)).trans h1a
  have hown2 : Owns t2 (ctxPtr rest) (.node pa .red (.node na sc nl nk nv nr) pk pv
      (.node sa .black (.node qa qc ql qk qv qr) sk sv sr)) :=
    ⟨h2a, hfr _ ds t2 _ hf2 hs, hsa2, hfr _ dq t2 _ hf2 hq, hfr sr dsr t2 _ hf2 hsr⟩
  have hnd2 : (AT.node pa .red (.node na sc nl nk nv nr) pk pv
      (.node sa .black (.node qa qc ql qk qv qr) sk sv sr)).addrs.Nodup := by count_nodup hd
  have hrest2 : OwnsCtx t2 rest (some pa) :=
    OwnsCtx.frame (fun x hx => hf2 x (drest x (List.count_pos_iff.mpr hx)).1 (drest x (List.count_pos_iff.mpr hx)).2)
      (h2r.trans h1r) hrest
  have hpar2 : ∀ p, ctxPtr rest = some p →
      p ∉ (AT.node pa .red (.node na sc nl nk nv nr) pk pv (.node sa .black (.node qa qc ql qk qv qr) sk sv sr)).addrs ∧
      (t2.get (some p)).isSome := by
    intro p hp'
    obtain ⟨h1, h2⟩ := hrest2.ptr_get p hp'
    have c2 := List.count_pos_iff.mpr h2
    exact ⟨by count_notin hd p, h1⟩
  obtain ⟨t3, e3, hown3, -, hc3, hr3, hf3, hP3⟩ := rotateLeft_owns t2 (ctxPtr rest) pa sa .red .black _ _ sr pk sk pv sv hown2 hnd2 hpar2
  obtain ⟨hsa3, ⟨hpa3, hs3, hq3⟩, hsr3⟩ := hown3
  refine ⟨t3, ?_, by rw [hc3, h2c, h1c], ⟨hpa3, hq3, hsa3, hsr3, ?_⟩, hs3, ?_⟩
  · simp only [e1, e2, e3, hs3.1, hpa3, Option.bind_eq_bind, Option.bind_some, AT.ptr_node]
  · refine OwnsCtx.rehole hrest2 ?_ ?_ hr3 (fun p hp' => Or.inl (hP3 p hp')) ?_
    · count_nodup hd
    · count_notin hd pa
    · intro x hx hne'
      have c2 := List.count_pos_iff.mpr hx
      exact hf3 x (by count_notin hd x) hne'
  · intro x; have := hd x
    simp only [ctxAddrs, AT.addrs, List.count_cons, List.count_append, List.count_nil] at this ⊢; omega

end PTree

def Frame.fillT (f : Frame K V) (x : T K V) : T K V :=
  match f.side with
  | .L => .node f.c x f.k f.v f.sib.erase
  | .R => .node f.c f.sib.erase f.k f.v x

def plugT : Ctx K V → T K V → T K V
  | [], x => x
  | f :: rest, x => plugT rest (f.fillT x)

theorem erase_fill (f : Frame K V) (s : AT K V) : (f.fill s).erase = f.fillT s.erase := by
  obtain ⟨side, a, c, k, v, sib⟩ := f
  cases side <;> rfl

theorem erase_plug : ∀ (ctx : Ctx K V) (s : AT K V), (plug ctx s).erase = plugT ctx s.erase
  | [], s => rfl
  | f :: rest, s => by rw [plug, plugT, erase_plug rest, erase_fill]

namespace PTree

theorem bb_L (t : PTree K V) (rest : Ctx K V) (pa sa na : Nat) (pc sc sc0 : Color) (pk sk nk : K) (pv sv nv : V)
    (sl sr nl nr : AT K V) (fuel : Nat)
    (hctx : OwnsCtx t (⟨.L, pa, pc, pk, pv, .node sa sc0 sl sk sv sr⟩ :: rest) (some na))
    (hs : Owns t (some pa) (.node na sc nl nk nv nr))
    (hd : Distinct (⟨.L, pa, pc, pk, pv, .node sa sc0 sl sk sv sr⟩ :: rest) (.node na sc nl nk nv nr))
    (hsl : sl.erase.isRed = false) (hsr : sr.erase.isRed = false) :
    ∃ t1, recolorTailL t fuel (some na) (some pa) (some sa) = recolor t1 fuel (some pa) ∧ t1.count = t.count ∧
      OwnsCtx t1 rest (some pa) ∧
      Owns t1 (ctxPtr rest) (.node pa pc (.node na sc nl nk nv nr) pk pv (.node sa .red sl sk sv sr)) ∧
      Distinct rest (.node pa pc (.node na sc nl nk nv nr) pk pv (.node sa .red sl sk sv sr)) := by
  obtain ⟨hp, ⟨hsa, hsl', hsr'⟩, hrest⟩ := hctx
  simp only [AT.ptr_node] at hp hsa hsl' hsr' hrest
  have b1 := isBlack_of_owns hsl'
  have b2 := isBlack_of_owns hsr'
  rw [hsl] at b1; rw [hsr] at b2
  have hns : na ≠ sa := by addr_ne hd na
  have hps : pa ≠ sa := by addr_ne hd pa
  obtain ⟨t1, e1, h1a, h1o, h1r, h1c⟩ := setBlack_spec t sa false _ hsa
  have hfr : ∀ (u : AT K V) (par : Ptr), (∀ x, 0 < u.addrs.count x → x ≠ sa) → Owns t par u → Owns t1 par u :=
    fun u par hu h => Owns.frame (fun x hx => h1o x (hu x (List.count_pos_iff.mpr hx))) h
  refine ⟨t1, ?_, h1c, ?_, ⟨(h1o pa hps).trans hp, hfr _ _ ?_ hs, h1a, hfr _ _ ?_ hsl', hfr _ _ ?_ hsr'⟩, ?_⟩
  · simp only [recolorTailL, hsa, b1, b2, Option.bind_eq_bind, Option.bind_some, Bool.not_false, Bool.and_self, if_true, e1,
      (h1o na hns).trans hs.1]
  · exact OwnsCtx.frame (fun x hx => h1o x (by have c := List.count_pos_iff.mpr hx; addr_ne hd x)) h1r hrest
  · intro x hx
    simp only [AT.addrs, List.count_cons, List.count_append] at hx
    addr_ne hd x
  · intro x hx; addr_ne hd x
  · intro x hx; addr_ne hd x
  · intro x; have := hd x
    simp only [ctxAddrs, AT.addrs, List.count_cons, List.count_append, List.count_nil] at this ⊢; omega
theorem rot_L (t : PTree K V) (rest : Ctx K V) (pa sa na : Nat) (pc sc sc0 : Color) (pk sk nk : K) (pv sv nv : V)
    (sl sr nl nr : AT K V) (fuel : Nat)
    (hctx : OwnsCtx t (⟨.L, pa, pc, pk, pv, .node sa sc0 sl sk sv sr⟩ :: rest) (some na))
    (hs : Owns t (some pa) (.node na sc nl nk nv nr))
    (hd : Distinct (⟨.L, pa, pc, pk, pv, .node sa sc0 sl sk sv sr⟩ :: rest) (.node na sc nl nk nv nr))
    (hnb : ¬ (sl.erase.isRed = false ∧ sr.erase.isRed = false)) :
    ∃ t4 f1 f2, recolorTailL t fuel (some na) (some pa) (some sa) = recolor t4 fuel t4.root ∧ t4.count = t.count ∧
      OwnsCtx t4 (f1 :: f2 :: rest) (some na) ∧ Owns t4 (some pa) (.node na sc nl nk nv nr) ∧
      Distinct (f1 :: f2 :: rest) (.node na sc nl nk nv nr) ∧ f1.a = pa ∧ f1.side = .L ∧
      ∀ y, T.fixDefBlackSibC (.node pc y pk pv (AT.node sa sc0 sl sk sv sr).erase) .L
        = some (f2.fillT (f1.fillT y), false) := by
  have hctx0 := hctx
  obtain ⟨hp, ⟨hsa, hsl', hsr'⟩, hrest⟩ := hctx
  simp only [AT.ptr_node] at hp hsa hsl' hsr' hrest
  have b1 := isBlack_of_owns hsl'
  have b2 := isBlack_of_owns hsr'
  cases hr : sr.erase.isRed with
  | true =>
    -- far nephew red
    obtain ⟨ra, rc, rl, rk, rv, rr, rfl⟩ : ∃ a c l k v r, sr = AT.node a c l k v r := by
      cases sr with
      | nil => cases hr
      | node a c l k v r => exact ⟨a, c, l, k, v, r, rfl⟩
    cases rc with
    | black => cases hr
    | red =>
      obtain ⟨t4, e4, hc4, hrest4, hown4⟩ := far_L t rest pa sa ra pc sc0 pk sk rk pv sv rv sl rl rr
        (.node na sc nl nk nv nr) fuel hctx0 hs hd
      obtain ⟨hsa4, ⟨hpa4, hs4, hsl4⟩, hra4⟩ := hown4
      refine ⟨t4, ⟨.L, pa, .black, pk, pv, sl⟩, ⟨.L, sa, pc, sk, sv, .node ra .black rl rk rv rr⟩, ?_, hc4,
        ⟨hpa4, hsl4, hsa4, hra4, hrest4⟩, hs4, ?_, rfl, rfl, ?_⟩
      · have b2' : t.isBlack (some ra) = false := b2
        simp only [recolorTailL, hsa, b2', Option.bind_eq_bind, Option.bind_some, Bool.not_true, Bool.and_false,
          Bool.false_eq_true, if_false, AT.ptr_node]
        exact e4
      · intro x; have := hd x
        simp only [ctxAddrs, AT.addrs, List.count_cons, List.count_append, List.count_nil] at this ⊢; omega
      · intro y
        cases hsl0 : sl.erase.isRed <;>
        simp only [T.fixDefBlackSibC, AT.erase, T.isBlack, T.isRed, hsl0, Bool.not_true, Bool.not_false, Bool.and_false,
          Bool.false_eq_true, if_false, Option.bind_eq_bind, Option.bind_some, Option.pure_def, T.setBlackC, T.rotLC,
          Frame.fillT]
  | false =>
    have hl : sl.erase.isRed = true := by
      cases h : sl.erase.isRed with
      | true => rfl
      | false => exact absurd ⟨h, hr⟩ hnb
    obtain ⟨la, lc, ll, lk, lv, lr, rfl⟩ : ∃ a c l k v r, sl = AT.node a c l k v r := by
      cases sl with
      | nil => cases hl
      | node a c l k v r => exact ⟨a, c, l, k, v, r, rfl⟩
    cases lc with
    | black => cases hl
    | red =>
      obtain ⟨t3, e3, hc3, hctx3, hs3, hd3⟩ := near_L t rest pa sa la pc sc0 pk sk lk pv sv lv sr ll lr
        (.node na sc nl nk nv nr) hctx0 hs hd
      obtain ⟨t4, e4, hc4, hrest4, hown4⟩ := far_L t3 rest pa la sa pc .black pk lk sk pv lv sv ll lr sr
        (.node na sc nl nk nv nr) fuel hctx3 hs3 hd3
      obtain ⟨hla4, ⟨hpa4, hs4, hll4⟩, hsa4⟩ := hown4
      refine ⟨t4, ⟨.L, pa, .black, pk, pv, ll⟩, ⟨.L, la, pc, lk, lv, .node sa .black lr sk sv sr⟩, ?_, hc4.trans hc3,
        ⟨hpa4, hll4, hla4, hsa4, hrest4⟩, hs4, ?_, rfl, rfl, ?_⟩
      · rw [hr] at b2
        have b1' : t.isBlack (some la) = false := b1
        simp only [recolorTailL, hsa, b1', b2, Option.bind_eq_bind, Option.bind_some, Bool.not_true, Bool.not_false,
          Bool.false_and, Bool.false_eq_true, if_false, if_true, AT.ptr_node]
        simp only [Option.bind_eq_bind, Option.bind_some] at e3
        rcases Option.bind_eq_some_iff.mp e3 with ⟨u1, g1, e3⟩
        rcases Option.bind_eq_some_iff.mp e3 with ⟨u2, g2, e3⟩
        rcases Option.bind_eq_some_iff.mp e3 with ⟨u3, g3, e3⟩
        rcases Option.bind_eq_some_iff.mp e3 with ⟨x, g4, e3⟩
        simp only [Option.some.injEq, Prod.mk.injEq] at e3
        obtain ⟨rfl, hx⟩ := e3
        simp only [g1, g2, g3, g4, Option.bind_some, hx]
        exact e4
      · intro x; have := hd x
        simp only [ctxAddrs, AT.addrs, List.count_cons, List.count_append, List.count_nil] at this ⊢; omega
      · intro y
        have r1 : (T.node Color.red ll.erase lk lv lr.erase).isRed = true := rfl
        simp only [T.fixDefBlackSibC, AT.erase, T.isBlack, r1, hr, Bool.not_true, Bool.not_false, Bool.false_and,
          Bool.false_eq_true, if_false, if_true, Option.bind_eq_bind, Option.bind_some, Option.pure_def, T.setBlackC,
          T.rotLC, T.rotRC, Frame.fillT]

theorem far_R (t : PTree K V) (rest : Ctx K V) (pa sa ra : Nat) (pc sc0 : Color) (pk sk rk : K) (pv sv rv : V)
    (sl rl rr s : AT K V) (fuel : Nat)
    (hctx : OwnsCtx t (⟨.R, pa, pc, pk, pv, .node sa sc0 (.node ra .red rr rk rv rl) sk sv sl⟩ :: rest) s.ptr)
    (hs : Owns t (some pa) s)
    (hd : Distinct (⟨.R, pa, pc, pk, pv, .node sa sc0 (.node ra .red rr rk rv rl) sk sv sl⟩ :: rest) s) :
    ∃ t4, recolorFarR t fuel (some pa) (some sa) = recolor t4 fuel t4.root ∧ t4.count = t.count ∧
      OwnsCtx t4 rest (some sa) ∧
      Owns t4 (ctxPtr rest) (.node sa pc (.node ra .black rr rk rv rl) sk sv (.node pa .black sl pk pv s)) := by
  obtain ⟨hp, ⟨hsa, ⟨hra, hrr, hrl⟩, hsl⟩, hrest⟩ := hctx
  simp only [AT.ptr_node] at hp hsa hra hsl hrl hrr hrest
  have hps : pa ≠ sa := by addr_ne hd pa
  have hpr : pa ≠ ra := by addr_ne hd pa
  have hsr : sa ≠ ra := by addr_ne hd sa
  have hfr : ∀ (u : AT K V), (∀ x, 0 < u.addrs.count x → x ≠ pa ∧ x ≠ sa ∧ x ≠ ra) → ∀ (t' : PTree K V) (par : Ptr),
      (∀ x, x ≠ pa → x ≠ sa → x ≠ ra → t'.get (some x) = t.get (some x)) → Owns t par u → Owns t' par u :=
    fun u hu t' par hf h => Owns.frame (fun x hx => hf x (hu x (List.count_pos_iff.mpr hx)).1
      (hu x (List.count_pos_iff.mpr hx)).2.1 (hu x (List.count_pos_iff.mpr hx)).2.2) h
  have ds : ∀ x, 0 < s.addrs.count x → x ≠ pa ∧ x ≠ sa ∧ x ≠ ra :=
    fun x hx => ⟨by addr_ne hd x, by addr_ne hd x, by addr_ne hd x⟩
  have dsl : ∀ x, 0 < sl.addrs.count x → x ≠ pa ∧ x ≠ sa ∧ x ≠ ra :=
    fun x hx => ⟨by addr_ne hd x, by addr_ne hd x, by addr_ne hd x⟩
  have drl : ∀ x, 0 < rl.addrs.count x → x ≠ pa ∧ x ≠ sa ∧ x ≠ ra :=
    fun x hx => ⟨by addr_ne hd x, by addr_ne hd x, by addr_ne hd x⟩
  have drr : ∀ x, 0 < rr.addrs.count x → x ≠ pa ∧ x ≠ sa ∧ x ≠ ra :=
    fun x hx => ⟨by addr_ne hd x, by addr_ne hd x, by addr_ne hd x⟩
  have drest : ∀ x, 0 < (ctxAddrs rest).count x → x ≠ pa ∧ x ≠ sa ∧ x ≠ ra :=
    fun x hx => ⟨by addr_ne hd x, by addr_ne hd x, by addr_ne hd x⟩
  obtain ⟨t1, e1, h1a, h1o, h1r, h1c⟩ := setBlack_spec t sa (decide (pc = .black)) _ hsa
  have hp1 : t1.get (some pa) = _ := (h1o pa hps).trans hp
  obtain ⟨t2, e2, h2a, h2o, h2r, h2c⟩ := setBlack_spec t1 pa true _ hp1
  have hsa2 : t2.get (some sa) = _ := (h2o sa (Ne.symm hps)).trans h1a
  have hra2 : t2.get (some ra) = _ := ((h2o ra (Ne.symm hpr)).trans (h1o ra (Ne.symm hsr))).trans hra
  obtain ⟨t3, e3, h3a, h3o, h3r, h3c⟩ := setBlack_spec t2 ra true _ hra2
  have hf3 : ∀ x, x ≠ pa → x ≠ sa → x ≠ ra → t3.get (some x) = t.get (some x) :=
    fun x h1 h2 h3 => ((h3o x h3).trans (h2o x h1)).trans (h1o x h2)
  have hp3 : t3.get (some pa) = _ := (h3o pa hpr).trans h2a
  have hsa3 : t3.get (some sa) = _ := (h3o sa hsr).trans hsa2
  have hown3 : Owns t3 (ctxPtr rest) (.node pa .black (.node sa pc (.node ra .black rr rk rv rl) sk sv sl) pk pv s) :=
    ⟨hp3, ⟨hsa3, ⟨h3a, hfr rr drr t3 _ hf3 hrr, hfr rl drl t3 _ hf3 hrl⟩, hfr sl dsl t3 _ hf3 hsl⟩, hfr s ds t3 _ hf3 hs⟩
  have hnd3 : (AT.node pa .black (.node sa pc (.node ra .black rr rk rv rl) sk sv sl) pk pv s).addrs.Nodup := by
    count_nodup hd
  have hrest3 : OwnsCtx t3 rest (some pa) :=
    OwnsCtx.frame (fun x hx => hf3 x (drest x (List.count_pos_iff.mpr hx)).1 (drest x (List.count_pos_iff.mpr hx)).2.1
      (drest x (List.count_pos_iff.mpr hx)).2.2) ((h3r.trans h2r).trans h1r) hrest
  have hpar3 : ∀ p, ctxPtr rest = some p →
      p ∉ (AT.node pa .black (.node sa pc (.node ra .black rr rk rv rl) sk sv sl) pk pv s).addrs ∧
      (t3.get (some p)).isSome := by
    intro p hp'
    obtain ⟨h1, h2⟩ := hrest3.ptr_get p hp'
    have c2 := List.count_pos_iff.mpr h2
    exact ⟨by count_notin hd p, h1⟩
  obtain ⟨t4, e4, hown4, -, hc4, hr4, hf4, hP4⟩ := rotateRight_owns t3 (ctxPtr rest) pa sa .black pc _ sl s pk sk pv sv hown3 hnd3 hpar3
  refine ⟨t4, ?_, by rw [hc4, h3c, h2c, h1c], ?_, hown4⟩
  · simp only [recolorFarR, hp, e1, Option.bind_eq_bind, Option.bind_some, e2, hsa2, e3, e4]
  · refine OwnsCtx.rehole hrest3 ?_ ?_ hr4 (fun p hp' => Or.inr (hP4 p hp')) ?_
    · count_nodup hd
    · count_notin hd pa
    · intro x hx hne'
      have c2 := List.count_pos_iff.mpr hx
      exact hf4 x (by count_notin hd x) hne'


theorem near_R (t : PTree K V) (rest : Ctx K V) (pa sa la : Nat) (pc sc0 : Color) (pk sk lk : K) (pv sv lv : V)
    (sr ll lr s : AT K V)
    (hctx : OwnsCtx t (⟨.R, pa, pc, pk, pv, .node sa sc0 sr sk sv (.node la .red lr lk lv ll)⟩ :: rest) s.ptr)
    (hs : Owns t (some pa) s)
    (hd : Distinct (⟨.R, pa, pc, pk, pv, .node sa sc0 sr sk sv (.node la .red lr lk lv ll)⟩ :: rest) s) :
    ∃ t3, (do
        let t ← t.setBlack (some la) true
        let t ← t.setBlack (some sa) false
        let t ← t.rotateLeft (some sa)
        some (t, (← t.get (some pa)).left)) = some (t3, some la) ∧ t3.count = t.count ∧
      OwnsCtx t3 (⟨.R, pa, pc, pk, pv, .node la .black (.node sa .red sr sk sv lr) lk lv ll⟩ :: rest) s.ptr ∧
      Owns t3 (some pa) s ∧
      Distinct (⟨.R, pa, pc, pk, pv, .node la .black (.node sa .red sr sk sv lr) lk lv ll⟩ :: rest) s := by
  obtain ⟨hp, ⟨hsa, hsr, hla, hlr, hll⟩, hrest⟩ := hctx
  simp only [AT.ptr_node] at hp hsa hla hll hlr hsr hrest
  have hps : pa ≠ sa := by addr_ne hd pa
  have hpl : pa ≠ la := by addr_ne hd pa
  have hsl : sa ≠ la := by addr_ne hd sa
  have hfr : ∀ (u : AT K V), (∀ x, 0 < u.addrs.count x → x ≠ la ∧ x ≠ sa) → ∀ (t' : PTree K V) (par : Ptr),
      (∀ x, x ≠ la → x ≠ sa → t'.get (some x) = t.get (some x)) → Owns t par u → Owns t' par u :=
    fun u hu t' par hf h => Owns.frame (fun x hx => hf x (hu x (List.count_pos_iff.mpr hx)).1
      (hu x (List.count_pos_iff.mpr hx)).2) h
  have dll : ∀ x, 0 < ll.addrs.count x → x ≠ la ∧ x ≠ sa := fun x hx => ⟨by addr_ne hd x, by addr_ne hd x⟩
  have dlr : ∀ x, 0 < lr.addrs.count x → x ≠ la ∧ x ≠ sa := fun x hx => ⟨by addr_ne hd x, by addr_ne hd x⟩
  have dsr : ∀ x, 0 < sr.addrs.count x → x ≠ la ∧ x ≠ sa := fun x hx => ⟨by addr_ne hd x, by addr_ne hd x⟩
  obtain ⟨t1, e1, h1a, h1o, h1r, h1c⟩ := setBlack_spec t la true _ hla
  have hsa1 : t1.get (some sa) = _ := (h1o sa hsl).trans hsa
  obtain ⟨t2, e2, h2a, h2o, h2r, h2c⟩ := setBlack_spec t1 sa false _ hsa1
  have hf2 : ∀ x, x ≠ la → x ≠ sa → t2.get (some x) = t.get (some x) := fun x h1 h2 => (h2o x h2).trans (h1o x h1)
  have hla2 : t2.get (some la) = _ := (h2o la (Ne.symm hsl)).trans h1a
  have hp2 : t2.get (some pa) = _ := (hf2 pa hpl hps).trans hp
  have hown2 : Owns t2 (some pa) (.node sa .red sr sk sv (.node la .black lr lk lv ll)) :=
    ⟨h2a, hfr sr dsr t2 _ hf2 hsr, hla2, hfr lr dlr t2 _ hf2 hlr, hfr ll dll t2 _ hf2 hll⟩
  have hnd2 : (AT.node sa .red sr sk sv (.node la .black lr lk lv ll)).addrs.Nodup := by count_nodup hd
  have hpar2 : ∀ p, some pa = some p → p ∉ (AT.node sa .red sr sk sv (.node la .black lr lk lv ll)).addrs ∧
      (t2.get (some p)).isSome := by
    intro p hp'; cases hp'
    exact ⟨by count_notin hd pa, by rw [hp2]; rfl⟩
  obtain ⟨t3, e3, hown3, -, hc3, hr3, hf3, hP3⟩ := rotateLeft_owns t2 (some pa) sa la .red .black sr lr ll sk lk sv lv hown2 hnd2 hpar2
  simp only [Option.isSome_some, if_true] at hr3
  have hp3 : t3.get (some pa) = some ⟨pk, pv, ctxPtr rest, some la, s.ptr, decide (pc = .black)⟩ := by
    rw [hP3 pa rfl, hp2]
    simp only [Option.map_some, relinkL, beq_self_eq_true, if_true]
  have hf3' : ∀ x, 0 < (ctxAddrs rest).count x ∨ 0 < s.addrs.count x → t3.get (some x) = t.get (some x) := by
    intro x hx
    have h1 : x ≠ pa := by rcases hx with hx | hx <;> addr_ne hd x
    have h2 : x ≠ la := by rcases hx with hx | hx <;> addr_ne hd x
    have h3 : x ≠ sa := by rcases hx with hx | hx <;> addr_ne hd x
    rw [hf3 x (by rcases hx with hx | hx <;> count_notin hd x) (fun e => h1 (by cases e; rfl))]
    exact hf2 x h2 h3
  refine ⟨t3, ?_, by rw [hc3, h2c, h1c], ⟨hp3, hown3, ?_⟩, ?_, ?_⟩
  · simp only [e1, e2, e3, hp3, Option.bind_eq_bind, Option.bind_some]
  · exact OwnsCtx.frame (fun x hx => hf3' x (Or.inl (List.count_pos_iff.mpr hx))) (hr3.trans (h2r.trans h1r)) hrest
  · exact Owns.frame (fun x hx => hf3' x (Or.inr (List.count_pos_iff.mpr hx))) hs
  · intro x; have := hd x
    simp only [ctxAddrs, AT.addrs, List.count_cons, List.count_append, List.count_nil] at this ⊢; omega

theorem redsib_R (t : PTree K V) (rest : Ctx K V) (pa sa qa na : Nat) (pc qc sc : Color) (pk sk qk nk : K)
    (pv sv qv nv : V) (sr ql qr nl nr : AT K V)
    (hctx : OwnsCtx t (⟨.R, pa, pc, pk, pv, .node sa .red sr sk sv (.node qa qc qr qk qv ql)⟩ :: rest) (some na))
    (hs : Owns t (some pa) (.node na sc nr nk nv nl))
    (hd : Distinct (⟨.R, pa, pc, pk, pv, .node sa .red sr sk sv (.node qa qc qr qk qv ql)⟩ :: rest)
      (.node na sc nr nk nv nl)) :
    ∃ t3, (do
        let t ← t.setBlack (some sa) true
        let t ← t.setBlack (some pa) false
        let t ← t.rotateRight (some pa)
        let parent := (← t.get (some na)).parent
        let sibling := (← t.get parent).left
        some (t, parent, sibling)) = some (t3, some pa, some qa) ∧ t3.count = t.count ∧
      OwnsCtx t3 (⟨.R, pa, .red, pk, pv, .node qa qc qr qk qv ql⟩ :: ⟨.R, sa, .black, sk, sv, sr⟩ :: rest) (some na) ∧
      Owns t3 (some pa) (.node na sc nr nk nv nl) ∧
      Distinct (⟨.R, pa, .red, pk, pv, .node qa qc qr qk qv ql⟩ :: ⟨.R, sa, .black, sk, sv, sr⟩ :: rest)
        (.node na sc nr nk nv nl) := by
  obtain ⟨hp, ⟨hsa, hsr, hq⟩, hrest⟩ := hctx
  simp only [AT.ptr_node] at hp hsa hq hsr hrest
  have hps : pa ≠ sa := by addr_ne hd pa
  have hfr : ∀ (u : AT K V), (∀ x, 0 < u.addrs.count x → x ≠ pa ∧ x ≠ sa) → ∀ (t' : PTree K V) (par : Ptr),
      (∀ x, x ≠ pa → x ≠ sa → t'.get (some x) = t.get (some x)) → Owns t par u → Owns t' par u :=
    fun u hu t' par hf h => Owns.frame (fun x hx => hf x (hu x (List.count_pos_iff.mpr hx)).1
      (hu x (List.count_pos_iff.mpr hx)).2) h
  have ds : ∀ x, 0 < (AT.node na sc nr nk nv nl).addrs.count x → x ≠ pa ∧ x ≠ sa := by
    intro x hx
    simp only [AT.addrs, List.count_cons, List.count_append] at hx
    exact ⟨by addr_ne hd x, by addr_ne hd x⟩
  have dq : ∀ x, 0 < (AT.node qa qc qr qk qv ql).addrs.count x → x ≠ pa ∧ x ≠ sa := by
    intro x hx
    simp only [AT.addrs, List.count_cons, List.count_append] at hx
    exact ⟨by addr_ne hd x, by addr_ne hd x⟩
  have dsr : ∀ x, 0 < sr.addrs.count x → x ≠ pa ∧ x ≠ sa := fun x hx => ⟨by addr_ne hd x, by addr_ne hd x⟩
  have drest : ∀ x, 0 < (ctxAddrs rest).count x → x ≠ pa ∧ x ≠ sa := fun x hx => ⟨by addr_ne hd x, by addr_ne hd x⟩
  obtain ⟨t1, e1, h1a, h1o, h1r, h1c⟩ := setBlack_spec t sa true _ hsa
  have hp1 : t1.get (some pa) = _ := (h1o pa hps).trans hp
  obtain ⟨t2, e2, h2a, h2o, h2r, h2c⟩ := setBlack_spec t1 pa false _ hp1
  have hf2 : ∀ x, x ≠ pa → x ≠ sa → t2.get (some x) = t.get (some x) := fun x h1 h2 => (h2o x h1).trans (h1o x h2)
  have hsa2 : t2.get (some sa) = _ := (h2o sa (Ne.symm hps)).trans h1a
  have hown2 : Owns t2 (ctxPtr rest) (.node pa .red (.node sa .black sr sk sv (.node qa qc qr qk qv ql)) pk pv (.node na sc nr nk nv nl)) :=
    ⟨h2a, ⟨hsa2, hfr sr dsr t2 _ hf2 hsr, hfr _ dq t2 _ hf2 hq⟩, hfr _ ds t2 _ hf2 hs⟩
  have hnd2 : (AT.node pa .red (.node sa .black sr sk sv (.node qa qc qr qk qv ql)) pk pv (.node na sc nr nk nv nl)).addrs.Nodup := by count_nodup hd
  have hrest2 : OwnsCtx t2 rest (some pa) :=
    OwnsCtx.frame (fun x hx => hf2 x (drest x (List.count_pos_iff.mpr hx)).1 (drest x (List.count_pos_iff.mpr hx)).2)
      (h2r.trans h1r) hrest
  have hpar2 : ∀ p, ctxPtr rest = some p →
      p ∉ (AT.node pa .red (.node sa .black sr sk sv (.node qa qc qr qk qv ql)) pk pv (.node na sc nr nk nv nl)).addrs ∧
      (t2.get (some p)).isSome := by
    intro p hp'
    obtain ⟨h1, h2⟩ := hrest2.ptr_get p hp'
    have c2 := List.count_pos_iff.mpr h2
    exact ⟨by count_notin hd p, h1⟩
  obtain ⟨t3, e3, hown3, -, hc3, hr3, hf3, hP3⟩ := rotateRight_owns t2 (ctxPtr rest) pa sa .red .black sr _ _ pk sk pv sv hown2 hnd2 hpar2
  obtain ⟨hsa3, hsr3, hpa3, hq3, hs3⟩ := hown3
  refine ⟨t3, ?_, by rw [hc3, h2c, h1c], ⟨hpa3, hq3, hsa3, hsr3, ?_⟩, hs3, ?_⟩
  · simp only [e1, e2, e3, hs3.1, hpa3, Option.bind_eq_bind, Option.bind_some, AT.ptr_node]
  · refine OwnsCtx.rehole hrest2 ?_ ?_ hr3 (fun p hp' => Or.inr (hP3 p hp')) ?_
    · count_nodup hd
    · count_notin hd pa
    · intro x hx hne'
      have c2 := List.count_pos_iff.mpr hx
      exact hf3 x (by count_notin hd x) hne'
  · intro x; have := hd x
    simp only [ctxAddrs, AT.addrs, List.count_cons, List.count_append, List.count_nil] at this ⊢; omega

theorem bb_R (t : PTree K V) (rest : Ctx K V) (pa sa na : Nat) (pc sc sc0 : Color) (pk sk nk : K) (pv sv nv : V)
    (sl sr nl nr : AT K V) (fuel : Nat)
    (hctx : OwnsCtx t (⟨.R, pa, pc, pk, pv, .node sa sc0 sr sk sv sl⟩ :: rest) (some na))
    (hs : Owns t (some pa) (.node na sc nr nk nv nl))
    (hd : Distinct (⟨.R, pa, pc, pk, pv, .node sa sc0 sr sk sv sl⟩ :: rest) (.node na sc nr nk nv nl))
    (hsl : sl.erase.isRed = false) (hsr : sr.erase.isRed = false) :
    ∃ t1, recolorTailR t fuel (some na) (some pa) (some sa) = recolor t1 fuel (some pa) ∧ t1.count = t.count ∧
      OwnsCtx t1 rest (some pa) ∧
      Owns t1 (ctxPtr rest) (.node pa pc (.node sa .red sr sk sv sl) pk pv (.node na sc nr nk nv nl)) ∧
      Distinct rest (.node pa pc (.node sa .red sr sk sv sl) pk pv (.node na sc nr nk nv nl)) := by
  obtain ⟨hp, ⟨hsa, hsr', hsl'⟩, hrest⟩ := hctx
  simp only [AT.ptr_node] at hp hsa hsl' hsr' hrest
  have b1 := isBlack_of_owns hsl'
  have b2 := isBlack_of_owns hsr'
  rw [hsl] at b1; rw [hsr] at b2
  have hns : na ≠ sa := by addr_ne hd na
  have hps : pa ≠ sa := by addr_ne hd pa
  obtain ⟨t1, e1, h1a, h1o, h1r, h1c⟩ := setBlack_spec t sa false _ hsa
  have hfr : ∀ (u : AT K V) (par : Ptr), (∀ x, 0 < u.addrs.count x → x ≠ sa) → Owns t par u → Owns t1 par u :=
    fun u par hu h => Owns.frame (fun x hx => h1o x (hu x (List.count_pos_iff.mpr hx))) h
  refine ⟨t1, ?_, h1c, ?_, ⟨(h1o pa hps).trans hp, ⟨h1a, hfr _ _ ?_ hsr', hfr _ _ ?_ hsl'⟩, hfr _ _ ?_ hs⟩, ?_⟩
  · simp only [recolorTailR, hsa, b1, b2, Option.bind_eq_bind, Option.bind_some, Bool.not_false, Bool.and_self, if_true, e1,
      (h1o na hns).trans hs.1]
  · exact OwnsCtx.frame (fun x hx => h1o x (by have c := List.count_pos_iff.mpr hx; addr_ne hd x)) h1r hrest
  · intro x hx; addr_ne hd x
  · intro x hx; addr_ne hd x
  · intro x hx
    simp only [AT.addrs, List.count_cons, List.count_append] at hx
    addr_ne hd x
  · intro x; have := hd x
    simp only [ctxAddrs, AT.addrs, List.count_cons, List.count_append, List.count_nil] at this ⊢; omega
theorem rot_R (t : PTree K V) (rest : Ctx K V) (pa sa na : Nat) (pc sc sc0 : Color) (pk sk nk : K) (pv sv nv : V)
    (sl sr nl nr : AT K V) (fuel : Nat)
    (hctx : OwnsCtx t (⟨.R, pa, pc, pk, pv, .node sa sc0 sr sk sv sl⟩ :: rest) (some na))
    (hs : Owns t (some pa) (.node na sc nr nk nv nl))
    (hd : Distinct (⟨.R, pa, pc, pk, pv, .node sa sc0 sr sk sv sl⟩ :: rest) (.node na sc nr nk nv nl))
    (hnb : ¬ (sl.erase.isRed = false ∧ sr.erase.isRed = false)) :
    ∃ t4 f1 f2, recolorTailR t fuel (some na) (some pa) (some sa) = recolor t4 fuel t4.root ∧ t4.count = t.count ∧
      OwnsCtx t4 (f1 :: f2 :: rest) (some na) ∧ Owns t4 (some pa) (.node na sc nr nk nv nl) ∧
      Distinct (f1 :: f2 :: rest) (.node na sc nr nk nv nl) ∧ f1.a = pa ∧ f1.side = .R ∧
      ∀ y, T.fixDefBlackSibC (.node pc (AT.node sa sc0 sr sk sv sl).erase pk pv y) .R
        = some (f2.fillT (f1.fillT y), false) := by
  have hctx0 := hctx
  obtain ⟨hp, ⟨hsa, hsr', hsl'⟩, hrest⟩ := hctx
  simp only [AT.ptr_node] at hp hsa hsl' hsr' hrest
  have b1 := isBlack_of_owns hsl'
  have b2 := isBlack_of_owns hsr'
  cases hr : sr.erase.isRed with
  | true =>
    -- far nephew red
    obtain ⟨ra, rc, rr, rk, rv, rl, rfl⟩ : ∃ a c l k v r, sr = AT.node a c l k v r := by
      cases sr with
      | nil => cases hr
      | node a c l k v r => exact ⟨a, c, l, k, v, r, rfl⟩
    cases rc with
    | black => cases hr
    | red =>
      obtain ⟨t4, e4, hc4, hrest4, hown4⟩ := far_R t rest pa sa ra pc sc0 pk sk rk pv sv rv sl rl rr
        (.node na sc nr nk nv nl) fuel hctx0 hs hd
      obtain ⟨hsa4, hra4, hpa4, hsl4, hs4⟩ := hown4
      refine ⟨t4, ⟨.R, pa, .black, pk, pv, sl⟩, ⟨.R, sa, pc, sk, sv, .node ra .black rr rk rv rl⟩, ?_, hc4,
        ⟨hpa4, hsl4, hsa4, hra4, hrest4⟩, hs4, ?_, rfl, rfl, ?_⟩
      · have b2' : t.isBlack (some ra) = false := b2
        simp only [recolorTailR, hsa, b2', Option.bind_eq_bind, Option.bind_some, Bool.not_true, Bool.and_false,
          Bool.false_eq_true, if_false, AT.ptr_node]
        exact e4
      · intro x; have := hd x
        simp only [ctxAddrs, AT.addrs, List.count_cons, List.count_append, List.count_nil] at this ⊢; omega
      · intro y
        cases hsl0 : sl.erase.isRed <;>
        simp only [T.fixDefBlackSibC, AT.erase, T.isBlack, T.isRed, hsl0, Bool.not_true, Bool.not_false, Bool.and_false,
          Bool.false_eq_true, if_false, Option.bind_eq_bind, Option.bind_some, Option.pure_def, T.setBlackC, T.rotRC,
          Frame.fillT]
  | false =>
    have hl : sl.erase.isRed = true := by
      cases h : sl.erase.isRed with
      | true => rfl
      | false => exact absurd ⟨h, hr⟩ hnb
    obtain ⟨la, lc, lr, lk, lv, ll, rfl⟩ : ∃ a c l k v r, sl = AT.node a c l k v r := by
      cases sl with
      | nil => cases hl
      | node a c l k v r => exact ⟨a, c, l, k, v, r, rfl⟩
    cases lc with
    | black => cases hl
    | red =>
      obtain ⟨t3, e3, hc3, hctx3, hs3, hd3⟩ := near_R t rest pa sa la pc sc0 pk sk lk pv sv lv sr ll lr
        (.node na sc nr nk nv nl) hctx0 hs hd
      obtain ⟨t4, e4, hc4, hrest4, hown4⟩ := far_R t3 rest pa la sa pc .black pk lk sk pv lv sv ll lr sr
        (.node na sc nr nk nv nl) fuel hctx3 hs3 hd3
      obtain ⟨hla4, hsa4, hpa4, hll4, hs4⟩ := hown4
      refine ⟨t4, ⟨.R, pa, .black, pk, pv, ll⟩, ⟨.R, la, pc, lk, lv, .node sa .black sr sk sv lr⟩, ?_, hc4.trans hc3,
        ⟨hpa4, hll4, hla4, hsa4, hrest4⟩, hs4, ?_, rfl, rfl, ?_⟩
      · rw [hr] at b2
        have b1' : t.isBlack (some la) = false := b1
        simp only [recolorTailR, hsa, b1', b2, Option.bind_eq_bind, Option.bind_some, Bool.not_true, Bool.not_false,
          Bool.false_and, Bool.false_eq_true, if_false, if_true, AT.ptr_node]
        simp only [Option.bind_eq_bind, Option.bind_some] at e3
        rcases Option.bind_eq_some_iff.mp e3 with ⟨u1, g1, e3⟩
        rcases Option.bind_eq_some_iff.mp e3 with ⟨u2, g2, e3⟩
        rcases Option.bind_eq_some_iff.mp e3 with ⟨u3, g3, e3⟩
        rcases Option.bind_eq_some_iff.mp e3 with ⟨x, g4, e3⟩
        simp only [Option.some.injEq, Prod.mk.injEq] at e3
        obtain ⟨rfl, hx⟩ := e3
        simp only [g1, g2, g3, g4, Option.bind_some, hx]
        exact e4
      · intro x; have := hd x
        simp only [ctxAddrs, AT.addrs, List.count_cons, List.count_append, List.count_nil] at this ⊢; omega
      · intro y
        have r1 : (T.node Color.red lr.erase lk lv ll.erase).isRed = true := rfl
        simp only [T.fixDefBlackSibC, AT.erase, T.isBlack, r1, hr, Bool.not_true, Bool.not_false, Bool.false_and,
          Bool.false_eq_true, if_false, if_true, Option.bind_eq_bind, Option.bind_some, Option.pure_def, T.setBlackC,
          T.rotRC, T.rotLC, Frame.fillT]




end PTree

/-- the context with its outermost node (the root of the tree) black -/
def blackenLast : Ctx K V → Ctx K V
  | [] => []
  | [f] => [{ f with c := .black }]
  | f :: g :: rest => f :: blackenLast (g :: rest)

theorem ctxAddrs_blackenLast : ∀ (ctx : Ctx K V), ctxAddrs (blackenLast ctx) = ctxAddrs ctx
  | [] => rfl
  | [f] => rfl
  | f :: g :: rest => by
    have := ctxAddrs_blackenLast (g :: rest)
    simp only [blackenLast, ctxAddrs] at this ⊢
    rw [this]

theorem ctxPtr_blackenLast : ∀ (ctx : Ctx K V), ctxPtr (blackenLast ctx) = ctxPtr ctx
  | [] => rfl
  | [f] => rfl
  | f :: g :: rest => rfl

theorem plugT_blackenLast : ∀ (ctx : Ctx K V) (y : T K V), ctx ≠ [] → plugT (blackenLast ctx) y = (plugT ctx y).setBlack
  | [], _, h => absurd rfl h
  | [f], y, _ => by
    obtain ⟨side, a, c, k, v, sib⟩ := f
    cases side <;> rfl
  | f :: g :: rest, y, _ => by
    simp only [blackenLast, plugT]
    exact plugT_blackenLast (g :: rest) _ (by simp)

theorem head_blackenLast : ∀ (ctx : Ctx K V),
    (blackenLast ctx).head?.map (fun f => (f.a, f.side)) = ctx.head?.map (fun f => (f.a, f.side))
  | [] => rfl
  | [f] => rfl
  | f :: g :: rest => rfl

/-- address of the outermost node of a non-empty context -/
def rootAddr : Ctx K V → Option Nat
  | [] => none
  | [f] => some f.a
  | _ :: g :: rest => rootAddr (g :: rest)

theorem rootAddr_mem : ∀ (ctx : Ctx K V) (r : Nat), rootAddr ctx = some r → r ∈ ctxAddrs ctx
  | [], r, h => by cases h
  | [f], r, h => by simp only [rootAddr, Option.some.injEq] at h; subst h; simp [ctxAddrs]
  | f :: g :: rest, r, h => by
    have := rootAddr_mem (g :: rest) r h
    simp only [ctxAddrs, List.mem_cons, List.mem_append] at this ⊢
    exact Or.inr (Or.inr this)

namespace PTree

theorem OwnsCtx.root_eq {t : PTree K V} : ∀ {ctx : Ctx K V} {hole : Ptr}, OwnsCtx t ctx hole → ctx ≠ [] →
    t.root = rootAddr ctx
  | [], _, _, h => absurd rfl h
  | [f], _, ⟨_, _, h⟩, _ => h
  | f :: g :: rest, _, ⟨_, _, h⟩, _ => OwnsCtx.root_eq (ctx := g :: rest) h (by simp)

/-- `t.root.black = true` on a memory in context form: only the colour of the outermost frame changes -/
theorem OwnsCtx.blacken {t t' : PTree K V} : ∀ {ctx : Ctx K V} {hole : Ptr} (r : Nat) (x : PNode K V),
    OwnsCtx t ctx hole → rootAddr ctx = some r → (ctxAddrs ctx).Nodup → t.get (some r) = some x →
    t'.get (some r) = some { x with black := true } → (∀ j, j ≠ r → t'.get (some j) = t.get (some j)) →
    t'.root = t.root → OwnsCtx t' (blackenLast ctx) hole
  | [], _, _, _, _, h, _, _, _, _, _ => by cases h
  | [f], hole, r, x, ⟨h0, hs, hrest⟩, hr, hnd, hx, hx', ho, hroot => by
    simp only [rootAddr, Option.some.injEq] at hr; subst hr
    simp only [ctxAddrs, List.nodup_cons, List.mem_append, not_or, List.append_nil] at hnd
    rw [h0] at hx; cases hx
    refine ⟨hx', Owns.frame (fun y hy => ho y (by rintro rfl; exact hnd.1 hy)) hs, ?_⟩
    simp only [OwnsCtx] at hrest ⊢
    rw [hroot]; exact hrest
  | f :: g :: rest, hole, r, x, ⟨h0, hs, hrest⟩, hr, hnd, hx, hx', ho, hroot => by
    have hmem := rootAddr_mem (g :: rest) r hr
    simp only [ctxAddrs, List.nodup_cons, List.mem_append, List.mem_cons, not_or, List.nodup_append] at hnd hmem
    have hfr : f.a ≠ r := by
      rintro rfl
      rcases hmem with h | h | h
      · exact hnd.1.2.1 h
      · exact hnd.1.2.2.1 h
      · exact hnd.1.2.2.2 h
    refine ⟨?_, Owns.frame (fun y hy => ho y ?_) hs, OwnsCtx.blacken r x hrest hr ?_ hx hx' ho hroot⟩
    · rw [ho f.a hfr, ctxPtr_blackenLast]; exact h0
    · rintro rfl
      rcases hmem with h | h | h
      · exact hnd.2.2.2 y hy y (Or.inl h) rfl
      · exact hnd.2.2.2 y hy y (Or.inr (Or.inl h)) rfl
      · exact hnd.2.2.2 y hy y (Or.inr (Or.inr h)) rfl
    · simp only [ctxAddrs, List.nodup_cons, List.mem_append, not_or, List.nodup_append]
      exact hnd.2.2.1


theorem OwnsCtx.root_get {t : PTree K V} : ∀ {ctx : Ctx K V} {hole : Ptr} (r : Nat), OwnsCtx t ctx hole →
    rootAddr ctx = some r → (t.get (some r)).isSome = true
  | [], _, _, _, h => by cases h
  | [f], _, r, ⟨h0, _, _⟩, h => by
    simp only [rootAddr, Option.some.injEq] at h; subst h; rw [h0]; rfl
  | f :: g :: rest, _, r, ⟨_, _, h⟩, hr => OwnsCtx.root_get (ctx := g :: rest) r h hr

/-- the last round of `recolor` (`n == t.root`): `t.root.black = true` -/
theorem recolor_root (t : PTree K V) (ctx : Ctx K V) (s : AT K V) (hne : ctx ≠ []) (h1 : OwnsCtx t ctx s.ptr)
    (h2 : Owns t (ctxPtr ctx) s) (hd : Distinct ctx s) (fuel : Nat) :
    ∃ t', recolor t (fuel + 1) t.root = some t' ∧ t'.count = t.count ∧ OwnsCtx t' (blackenLast ctx) s.ptr ∧
      Owns t' (ctxPtr (blackenLast ctx)) s ∧ Distinct (blackenLast ctx) s := by
  have hroot := h1.root_eq hne
  obtain ⟨r, hr⟩ : ∃ r, rootAddr ctx = some r := by
    cases ctx with
    | nil => exact absurd rfl hne
    | cons f rest =>
      have : ∀ (l : Ctx K V), l ≠ [] → ∃ r, rootAddr l = some r := by
        intro l
        induction l with
        | nil => intro h; exact absurd rfl h
        | cons a l ih =>
          intro _
          cases l with
          | nil => exact ⟨a.a, rfl⟩
          | cons b l => exact ih (by simp)
      exact this _ hne
  obtain ⟨x, hx⟩ := exists_of_isSome (h1.root_get r hr)
  obtain ⟨t', e, ha, ho, hrt, hc⟩ := setBlack_spec t r true x hx
  have hmem := rootAddr_mem ctx r hr
  have hnd : (ctxAddrs ctx).Nodup := by
    rw [List.nodup_iff_count]; intro y; have := hd y; omega
  refine ⟨t', ?_, hc, OwnsCtx.blacken r x h1 hr hnd hx ha ho hrt, ?_, ?_⟩
  · rw [recolor]
    simp only [bne_self_eq_false, Bool.false_and, Bool.false_eq_true, if_false]
    rw [hroot, hr]; exact e
  · rw [ctxPtr_blackenLast]
    refine Owns.frame (fun y hy => ho y ?_) h2
    rintro rfl
    have c1 := List.count_pos_iff.mpr hy
    have c2 := List.count_pos_iff.mpr hmem
    have := hd y; omega
  · intro y; rw [ctxAddrs_blackenLast]; exact hd y

end PTree

/-- the functional repair of a black-height deficit along a context (`fixDefC` at every frame while the deficit lasts) -/
def zipDelC : Ctx K V → T K V × Bool → Option (T K V × Bool)
  | [], r => some r
  | f :: rest, r =>
    if r.2 then (T.fixDefC (f.fillT r.1) f.side).bind (zipDelC rest) else zipDelC rest (f.fillT r.1, false)

theorem zipDelC_false : ∀ (ctx : Ctx K V) (x : T K V), zipDelC ctx (x, false) = some (plugT ctx x, false)
  | [], x => rfl
  | f :: rest, x => by simp only [zipDelC, Bool.false_eq_true, if_false, plugT]; exact zipDelC_false rest _

theorem T.setBlack_setBlack (x : T K V) : x.setBlack.setBlack = x.setBlack := by cases x <;> rfl

namespace PTree

/-- what the induction of `recolor_spec` provides for the part of the context above `pa` -/
def LoopIH (restT : Ctx K V) (pa : Nat) (fuel : Nat) : Prop :=
  ∀ (t1 : PTree K V) (l r : AT K V) (k : K) (v : V), OwnsCtx t1 restT (some pa) →
    Owns t1 (ctxPtr restT) (.node pa .black l k v r) → Distinct restT (.node pa .black l k v r) →
    (zipDelC restT ((AT.node pa .black l k v r).erase, true)).isSome = true →
    ∃ t' ctxI, recolor t1 fuel (some pa) = some t' ∧ t'.count = t1.count ∧ OwnsCtx t' ctxI (some pa) ∧
      Owns t' (ctxPtr ctxI) (.node pa .black l k v r) ∧ Distinct ctxI (.node pa .black l k v r) ∧
      ∀ y, (zipDelC restT (y, true)).map (fun r => r.1.setBlack) = some (plugT ctxI y).setBlack

theorem tail_L (t : PTree K V) (restT : Ctx K V) (pa sa na : Nat) (pcT sc0 : Color) (pk sk nk : K) (pv sv nv : V)
    (sl sr nl nr : AT K V) (fuel : Nat)
    (hctx : OwnsCtx t (⟨.L, pa, pcT, pk, pv, .node sa sc0 sl sk sv sr⟩ :: restT) (some na))
    (hs : Owns t (some pa) (.node na .black nl nk nv nr))
    (hd : Distinct (⟨.L, pa, pcT, pk, pv, .node sa sc0 sl sk sv sr⟩ :: restT) (.node na .black nl nk nv nr))
    (hIH : pcT = .black → LoopIH restT pa (fuel + 1))
    (hC : ((T.fixDefBlackSibC (.node pcT (AT.node na .black nl nk nv nr).erase pk pv
      (AT.node sa sc0 sl sk sv sr).erase) .L).bind (zipDelC restT)).isSome = true) :
    ∃ t' ctx'', recolorTailL t (fuel + 1) (some na) (some pa) (some sa) = some t' ∧ t'.count = t.count ∧
      OwnsCtx t' ctx'' (some na) ∧ Owns t' (ctxPtr ctx'') (.node na .black nl nk nv nr) ∧
      Distinct ctx'' (.node na .black nl nk nv nr) ∧
      ctx''.head?.map (fun f => (f.a, f.side)) = some (pa, .L) ∧
      (∀ y, ((T.fixDefBlackSibC (.node pcT y pk pv (AT.node sa sc0 sl sk sv sr).erase) .L).bind
        (zipDelC restT)).map (fun r => r.1.setBlack) = some (plugT ctx'' y).setBlack) ∧
      (pcT = .red → ∀ y, ∃ r, T.fixDefBlackSibC (.node pcT y pk pv (AT.node sa sc0 sl sk sv sr).erase) .L
        = some (r, false)) := by
  by_cases hbb : sl.erase.isRed = false ∧ sr.erase.isRed = false
  · obtain ⟨t1, e1, hc1, hrest1, hown1, hd1⟩ := bb_L t restT pa sa na pcT .black sc0 pk sk nk pv sv nv sl sr nl nr (fuel + 1)
      hctx hs hd hbb.1 hbb.2
    have hfun : ∀ y, T.fixDefBlackSibC (.node pcT y pk pv (AT.node sa sc0 sl sk sv sr).erase) .L
        = some (if pcT = .red then ((T.node pcT y pk pv (.node .red sl.erase sk sv sr.erase)).setBlack, false)
            else (T.node pcT y pk pv (.node .red sl.erase sk sv sr.erase), true)) := by
      intro y
      simp only [T.fixDefBlackSibC, AT.erase, T.isBlack, hbb.1, hbb.2, Bool.not_false, Bool.and_self, if_true]
      split <;> rfl
    cases pcT with
    | red =>
      obtain ⟨hp1, hs1, hsib1⟩ := hown1
      have hpB : t1.isBlack (some pa) = false := by simp only [isBlack, hp1]; rfl
      obtain ⟨t2, e2, h2a, h2o, h2r, h2c⟩ := setBlack_spec t1 pa true _ hp1
      have hfr : ∀ (u : AT K V) (par : Ptr), (∀ x, 0 < u.addrs.count x → x ≠ pa) → Owns t1 par u → Owns t2 par u :=
        fun u par hu h => Owns.frame (fun x hx => h2o x (hu x (List.count_pos_iff.mpr hx))) h
      refine ⟨t2, ⟨.L, pa, .black, pk, pv, .node sa .red sl sk sv sr⟩ :: restT, ?_, h2c.trans hc1,
        ⟨h2a, hfr _ _ ?_ hsib1, ?_⟩, hfr _ _ ?_ hs1, ?_, rfl, ?_, fun _ y => ⟨_, by rw [hfun y, if_pos rfl]⟩⟩
      · rw [e1, recolor]
        simp only [hpB, Bool.and_false, Bool.false_eq_true, if_false]
        exact e2
      · intro x hx
        simp only [AT.addrs, List.count_cons, List.count_append] at hx
        addr_ne hd x
      · exact OwnsCtx.frame (fun x hx => h2o x (by have c := List.count_pos_iff.mpr hx; addr_ne hd x)) h2r hrest1
      · intro x hx
        simp only [AT.addrs, List.count_cons, List.count_append] at hx
        addr_ne hd x
      · intro x; have := hd x
        simp only [ctxAddrs, AT.addrs, List.count_cons, List.count_append, List.count_nil] at this ⊢; omega
      · intro y
        rw [hfun y]
        rw [if_pos rfl, Option.bind_some, zipDelC_false, Option.map_some]
        rfl
    | black =>
      rw [hfun, if_neg (by decide)] at hC
      simp only [Option.bind_some] at hC
      obtain ⟨t', ctxI, e, hc, hcI, hoI, hdI, hfI⟩ := hIH rfl t1 _ _ pk pv hrest1 hown1 hd1 hC
      obtain ⟨hp', hs', hsib'⟩ := hoI
      refine ⟨t', ⟨.L, pa, .black, pk, pv, .node sa .red sl sk sv sr⟩ :: ctxI, e1.trans e, hc.trans hc1,
        ⟨hp', hsib', hcI⟩, hs', ?_, rfl, ?_, fun h => by cases h⟩
      · intro x; have := hdI x
        simp only [ctxAddrs, AT.addrs, List.count_cons, List.count_append, List.count_nil] at this ⊢; omega
      · intro y
        rw [hfun y, if_neg (by decide)]
        simp only [Option.bind_some]
        exact hfI _
  · obtain ⟨t4, f1, f2, e4, hc4, hctx4, hs4, hd4, hf1a, hf1s, hfun⟩ := rot_L t restT pa sa na pcT .black sc0 pk sk nk pv sv nv
      sl sr nl nr (fuel + 1) hctx hs hd hbb
    obtain ⟨t', e, hc, h1, h2, h3⟩ := recolor_root t4 (f1 :: f2 :: restT) (.node na .black nl nk nv nr) (by simp) hctx4
      (by rw [show ctxPtr (f1 :: f2 :: restT) = some f1.a from rfl, hf1a]; exact hs4) hd4 fuel
    refine ⟨t', blackenLast (f1 :: f2 :: restT), e4.trans e, hc.trans hc4, h1, h2, h3, ?_, ?_, fun _ y => ⟨_, hfun y⟩⟩
    · rw [head_blackenLast]; simp only [List.head?_cons, Option.map_some, hf1a, hf1s]
    · intro y
      rw [hfun y]
      simp only [Option.bind_some, zipDelC_false, Option.map_some]
      rw [plugT_blackenLast _ _ (by simp), T.setBlack_setBlack]
      rfl
theorem tail_R (t : PTree K V) (restT : Ctx K V) (pa sa na : Nat) (pcT sc0 : Color) (pk sk nk : K) (pv sv nv : V)
    (sl sr nl nr : AT K V) (fuel : Nat)
    (hctx : OwnsCtx t (⟨.R, pa, pcT, pk, pv, .node sa sc0 sr sk sv sl⟩ :: restT) (some na))
    (hs : Owns t (some pa) (.node na .black nr nk nv nl))
    (hd : Distinct (⟨.R, pa, pcT, pk, pv, .node sa sc0 sr sk sv sl⟩ :: restT) (.node na .black nr nk nv nl))
    (hIH : pcT = .black → LoopIH restT pa (fuel + 1))
    (hC : ((T.fixDefBlackSibC (T.node pcT (AT.node sa sc0 sr sk sv sl).erase pk pv (AT.node na .black nr nk nv nl).erase) .R).bind (zipDelC restT)).isSome = true) :
    ∃ t' ctx'', recolorTailR t (fuel + 1) (some na) (some pa) (some sa) = some t' ∧ t'.count = t.count ∧
      OwnsCtx t' ctx'' (some na) ∧ Owns t' (ctxPtr ctx'') (.node na .black nr nk nv nl) ∧
      Distinct ctx'' (.node na .black nr nk nv nl) ∧
      ctx''.head?.map (fun f => (f.a, f.side)) = some (pa, .R) ∧
      (∀ y, ((T.fixDefBlackSibC (T.node pcT (AT.node sa sc0 sr sk sv sl).erase pk pv y) .R).bind
        (zipDelC restT)).map (fun r => r.1.setBlack) = some (plugT ctx'' y).setBlack) ∧
      (pcT = .red → ∀ y, ∃ r, T.fixDefBlackSibC (T.node pcT (AT.node sa sc0 sr sk sv sl).erase pk pv y) .R
        = some (r, false)) := by
  by_cases hbb : sl.erase.isRed = false ∧ sr.erase.isRed = false
  · obtain ⟨t1, e1, hc1, hrest1, hown1, hd1⟩ := bb_R t restT pa sa na pcT .black sc0 pk sk nk pv sv nv sl sr nl nr (fuel + 1)
      hctx hs hd hbb.1 hbb.2
    have hfun : ∀ y, T.fixDefBlackSibC (T.node pcT (AT.node sa sc0 sr sk sv sl).erase pk pv y) .R
        = some (if pcT = .red then ((T.node pcT (T.node .red sr.erase sk sv sl.erase) pk pv y).setBlack, false)
            else (T.node pcT (T.node .red sr.erase sk sv sl.erase) pk pv y, true)) := by
      intro y
      simp only [T.fixDefBlackSibC, AT.erase, T.isBlack, hbb.1, hbb.2, Bool.not_false, Bool.and_self, if_true]
      split <;> rfl
    cases pcT with
    | red =>
      obtain ⟨hp1, hsib1, hs1⟩ := hown1
      have hpB : t1.isBlack (some pa) = false := by simp only [isBlack, hp1]; rfl
      obtain ⟨t2, e2, h2a, h2o, h2r, h2c⟩ := setBlack_spec t1 pa true _ hp1
      have hfr : ∀ (u : AT K V) (par : Ptr), (∀ x, 0 < u.addrs.count x → x ≠ pa) → Owns t1 par u → Owns t2 par u :=
        fun u par hu h => Owns.frame (fun x hx => h2o x (hu x (List.count_pos_iff.mpr hx))) h
      refine ⟨t2, ⟨.R, pa, .black, pk, pv, .node sa .red sr sk sv sl⟩ :: restT, ?_, h2c.trans hc1,
        ⟨h2a, hfr _ _ ?_ hsib1, ?_⟩, hfr _ _ ?_ hs1, ?_, rfl, ?_, fun _ y => ⟨_, by rw [hfun y, if_pos rfl]⟩⟩
      · rw [e1, recolor]
        simp only [hpB, Bool.and_false, Bool.false_eq_true, if_false]
        exact e2
      · intro x hx
        simp only [AT.addrs, List.count_cons, List.count_append] at hx
        addr_ne hd x
      · exact OwnsCtx.frame (fun x hx => h2o x (by have c := List.count_pos_iff.mpr hx; addr_ne hd x)) h2r hrest1
      · intro x hx
        simp only [AT.addrs, List.count_cons, List.count_append] at hx
        addr_ne hd x
      · intro x; have := hd x
        simp only [ctxAddrs, AT.addrs, List.count_cons, List.count_append, List.count_nil] at this ⊢; omega
      · intro y
        rw [hfun y]
        rw [if_pos rfl, Option.bind_some, zipDelC_false, Option.map_some]
        rfl
    | black =>
      rw [hfun, if_neg (by decide)] at hC
      simp only [Option.bind_some] at hC
      obtain ⟨t', ctxI, e, hc, hcI, hoI, hdI, hfI⟩ := hIH rfl t1 _ _ pk pv hrest1 hown1 hd1 hC
      obtain ⟨hp', hsib', hs'⟩ := hoI
      refine ⟨t', ⟨.R, pa, .black, pk, pv, .node sa .red sr sk sv sl⟩ :: ctxI, e1.trans e, hc.trans hc1,
        ⟨hp', hsib', hcI⟩, hs', ?_, rfl, ?_, fun h => by cases h⟩
      · intro x; have := hdI x
        simp only [ctxAddrs, AT.addrs, List.count_cons, List.count_append, List.count_nil] at this ⊢; omega
      · intro y
        rw [hfun y, if_neg (by decide)]
        simp only [Option.bind_some]
        exact hfI _
  · obtain ⟨t4, f1, f2, e4, hc4, hctx4, hs4, hd4, hf1a, hf1s, hfun⟩ := rot_R t restT pa sa na pcT .black sc0 pk sk nk pv sv nv
      sl sr nl nr (fuel + 1) hctx hs hd hbb
    obtain ⟨t', e, hc, h1, h2, h3⟩ := recolor_root t4 (f1 :: f2 :: restT) (.node na .black nr nk nv nl) (by simp) hctx4
      (by rw [show ctxPtr (f1 :: f2 :: restT) = some f1.a from rfl, hf1a]; exact hs4) hd4 fuel
    refine ⟨t', blackenLast (f1 :: f2 :: restT), e4.trans e, hc.trans hc4, h1, h2, h3, ?_, ?_, fun _ y => ⟨_, hfun y⟩⟩
    · rw [head_blackenLast]; simp only [List.head?_cons, Option.map_some, hf1a, hf1s]
    · intro y
      rw [hfun y]
      simp only [Option.bind_some, zipDelC_false, Option.map_some]
      rw [plugT_blackenLast _ _ (by simp), T.setBlack_setBlack]
      rfl

end PTree

theorem T.fixDefBlackSibC_red_L (y : T K V) (k : K) (v : V) (s : T K V) (r : T K V) (d : Bool)
    (h : T.fixDefBlackSibC (.node .red y k v s) .L = some (r, d)) : d = false := by
  cases s with
  | nil => simp [T.fixDefBlackSibC] at h
  | node sc sl sk sv sr =>
    simp only [T.fixDefBlackSibC, Option.bind_eq_bind, Option.pure_def] at h
    split at h
    · simp at h; exact h.2
    · split at h
      · rcases Option.bind_eq_some_iff.mp h with ⟨_, _, h⟩
        rcases Option.bind_eq_some_iff.mp h with ⟨sib, _, h⟩
        split at h
        · rcases Option.bind_eq_some_iff.mp h with ⟨_, _, h⟩
          rcases Option.bind_eq_some_iff.mp h with ⟨_, _, h⟩
          simp at h; exact h.2
        · cases h
      · simp only [Option.bind_some] at h
        rcases Option.bind_eq_some_iff.mp h with ⟨_, _, h⟩
        rcases Option.bind_eq_some_iff.mp h with ⟨_, _, h⟩
        simp at h; exact h.2

theorem T.fixDefBlackSibC_red_R (y : T K V) (k : K) (v : V) (s : T K V) (r : T K V) (d : Bool)
    (h : T.fixDefBlackSibC (.node .red s k v y) .R = some (r, d)) : d = false := by
  cases s with
  | nil => simp [T.fixDefBlackSibC] at h
  | node sc sl sk sv sr =>
    simp only [T.fixDefBlackSibC, Option.bind_eq_bind, Option.pure_def] at h
    split at h
    · simp at h; exact h.2
    · split at h
      · rcases Option.bind_eq_some_iff.mp h with ⟨_, _, h⟩
        rcases Option.bind_eq_some_iff.mp h with ⟨sib, _, h⟩
        split at h
        · rcases Option.bind_eq_some_iff.mp h with ⟨_, _, h⟩
          rcases Option.bind_eq_some_iff.mp h with ⟨_, _, h⟩
          simp at h; exact h.2
        · cases h
      · simp only [Option.bind_some] at h
        rcases Option.bind_eq_some_iff.mp h with ⟨_, _, h⟩
        rcases Option.bind_eq_some_iff.mp h with ⟨_, _, h⟩
        simp at h; exact h.2


namespace PTree
theorem iterate_L (t : PTree K V) (rest : Ctx K V) (pa na : Nat) (pc : Color) (pk nk : K) (pv nv : V)
    (sib nl nr : AT K V) (k' : Nat)
    (hctx : OwnsCtx t (⟨.L, pa, pc, pk, pv, sib⟩ :: rest) (some na))
    (hs : Owns t (some pa) (.node na .black nl nk nv nr))
    (hd : Distinct (⟨.L, pa, pc, pk, pv, sib⟩ :: rest) (.node na .black nl nk nv nr))
    (hIH : LoopIH rest pa (k' + 1))
    (hC : (zipDelC (⟨.L, pa, pc, pk, pv, sib⟩ :: rest) ((AT.node na .black nl nk nv nr).erase, true)).isSome = true) :
    ∃ t' ctx'', recolor t (k' + 2) (some na) = some t' ∧ t'.count = t.count ∧
      OwnsCtx t' ctx'' (some na) ∧ Owns t' (ctxPtr ctx'') (.node na .black nl nk nv nr) ∧
      Distinct ctx'' (.node na .black nl nk nv nr) ∧
      ctx''.head?.map (fun f => (f.a, f.side)) = some (pa, .L) ∧
      ∀ y, (zipDelC (⟨.L, pa, pc, pk, pv, sib⟩ :: rest) (y, true)).map (fun r => r.1.setBlack)
        = some (plugT ctx'' y).setBlack := by
  have hctx0 := hctx
  obtain ⟨hp, hsib, hrest⟩ := hctx
  simp only [] at hp hsib hrest
  -- n is not the root, and black
  have hroot := hctx0.root_eq (by simp)
  have hnr : (some na != t.root) = true := by
    obtain ⟨r, hr⟩ : ∃ r, t.root = some r := by
      cases h : t.root with
      | none =>
        rw [h] at hroot
        cases rest with
        | nil => cases hroot
        | cons g rest' =>
          exfalso
          have : ∀ (l : Ctx K V), l ≠ [] → rootAddr l ≠ none := by
            intro l
            induction l with
            | nil => intro h; exact absurd rfl h
            | cons a l ih =>
              intro _
              cases l with
              | nil => simp [rootAddr]
              | cons b l => exact ih (by simp)
          exact this _ (by simp) hroot.symm
      | some r => exact ⟨r, rfl⟩
    rw [hr] at hroot ⊢
    have hm := rootAddr_mem _ r hroot.symm
    have c := List.count_pos_iff.mpr hm
    have : na ≠ r := by
      intro e; subst e; have := hd na
      simp only [AT.addrs, List.count_cons, beq_self_eq_true, if_true] at this; omega
    simp [this]
  have hnB : t.isBlack (some na) = true := by simp only [isBlack, hs.1]; rfl
  simp only [zipDelC, if_true, Frame.fillT] at hC
  cases sib with
  | nil => simp [T.fixDefC, T.fixDefBlackSibC, AT.erase, T.isRed] at hC
  | node sa sc sl sk sv sr =>
    have hsucc := recolor_succ_L t (k' + 1) (some na) (some pa) (some sa) _ _ hnr hnB hs.1 rfl hp
      (by simp) rfl rfl
    rw [show k' + 2 = k' + 1 + 1 from rfl, hsucc]
    cases sc with
    | black =>
      have hsR : t.isRed (some sa) = false := by simp only [isRed, hsib.1]; rfl
      simp only [hsR, Bool.false_eq_true, if_false, Option.bind_eq_bind, Option.bind_some]
      have hCe : ∀ y, T.fixDefC (.node pc y pk pv (AT.node sa .black sl sk sv sr).erase) .L
          = T.fixDefBlackSibC (.node pc y pk pv (AT.node sa .black sl sk sv sr).erase) .L := by
        intro y; simp only [T.fixDefC, AT.erase, T.isRed, Bool.false_eq_true, if_false]
      rw [hCe] at hC
      obtain ⟨t', ctx'', e, hc, h1, h2, h3, h4, h5, -⟩ := tail_L t rest pa sa na pc .black pk sk nk pv sv nv sl sr nl nr k'
        hctx0 hs hd (fun _ => hIH) hC
      refine ⟨t', ctx'', e, hc, h1, h2, h3, h4, ?_⟩
      intro y
      simp only [zipDelC, if_true, Frame.fillT]
      rw [hCe]; exact h5 y
    | red =>
      have hsR : t.isRed (some sa) = true := by simp only [isRed, hsib.1]; rfl
      cases sl with
      | nil => simp [T.fixDefC, T.fixDefBlackSibC, AT.erase, T.isRed, T.setBlackC, T.rotLC] at hC
      | node qa qc ql qk qv qr =>
        obtain ⟨t3, e3, hc3, hctx3, hs3, hd3⟩ := redsib_L t rest pa sa qa na pc qc .black pk sk qk nk pv sv qv nv sr ql qr
          nl nr hctx0 hs hd
        have hCe : ∀ y, T.fixDefC (.node pc y pk pv (AT.node sa .red (.node qa qc ql qk qv qr) sk sv sr).erase) .L
            = (T.fixDefBlackSibC (.node .red y pk pv (AT.node qa qc ql qk qv qr).erase) .L).bind
                (fun p => some (.node .black p.1 sk sv sr.erase, false)) := by
          intro y
          simp only [T.fixDefC, AT.erase, T.isRed, if_true, T.setBlackC, T.rotLC, Option.bind_eq_bind, Option.bind_some,
            Option.pure_def]
        rw [hCe] at hC
        have hC' : ((T.fixDefBlackSibC (.node .red (AT.node na .black nl nk nv nr).erase pk pv
            (AT.node qa qc ql qk qv qr).erase) .L).bind (zipDelC (⟨.L, sa, .black, sk, sv, sr⟩ :: rest))).isSome = true := by
          cases hfd : T.fixDefBlackSibC (.node .red (AT.node na .black nl nk nv nr).erase pk pv
            (AT.node qa qc ql qk qv qr).erase) .L with
          | none => rw [hfd] at hC; simp at hC
          | some p =>
            obtain ⟨r, d⟩ := p
            have := T.fixDefBlackSibC_red_L _ _ _ _ _ _ hfd
            subst this
            rw [hfd] at hC
            simpa [zipDelC, Frame.fillT] using hC
        obtain ⟨t', ctx'', e, hc, h1, h2, h3, h4, h5, h6⟩ := tail_L t3 (⟨.L, sa, .black, sk, sv, sr⟩ :: rest) pa qa na .red qc
          pk qk nk pv qv nv ql qr nl nr k' hctx3 hs3 hd3 (fun h => by cases h) hC'
        refine ⟨t', ctx'', ?_, hc.trans hc3, h1, h2, h3, h4, ?_⟩
        · rw [if_pos hsR]
          simp only [Option.bind_eq_bind] at e3 ⊢
          rcases Option.bind_eq_some_iff.mp e3 with ⟨u1, g1, e3⟩
          rcases Option.bind_eq_some_iff.mp e3 with ⟨u2, g2, e3⟩
          rcases Option.bind_eq_some_iff.mp e3 with ⟨u3, g3, e3⟩
          rcases Option.bind_eq_some_iff.mp e3 with ⟨x1, g4, e3⟩
          rcases Option.bind_eq_some_iff.mp e3 with ⟨x2, g5, e3⟩
          simp only [Option.some.injEq, Prod.mk.injEq] at e3
          obtain ⟨rfl, hx1, hx2⟩ := e3
          rw [hx1] at g5
          simp only [g1, g2, g3, g4, g5, Option.bind_some, hx1, hx2]
          exact e
        · intro y
          simp only [zipDelC, if_true, Frame.fillT]
          rw [hCe y]
          obtain ⟨r, hr⟩ := h6 rfl y
          have := h5 y
          rw [hr] at this ⊢
          simpa [zipDelC, Frame.fillT] using this
theorem recolor_succ_R' (t : PTree K V) (fuel : Nat) (n parent sibling : Ptr) (x pn : PNode K V)
    (h1 : (n != t.root) = true) (h2 : t.isBlack n = true) (hn : t.get n = some x) (hp : x.parent = parent)
    (hpn : t.get parent = some pn) (hs : pn.left = sibling) (hl : (sibling == n) = false)
    (hr : (pn.right == n) = true) (hss : sibling.isSome = true) :
    recolor t (fuel + 1) n = (do
      let (t, parent, sibling) ←
        if t.isRed sibling then do
          let t ← t.setBlack sibling true
          let t ← t.setBlack parent false
          let t ← t.rotateRight parent
          let parent := (← t.get n).parent
          let sibling := (← t.get parent).left
          some (t, parent, sibling)
        else some (t, parent, sibling)
      recolorTailR t fuel n parent sibling) := by
  subst hs
  exact recolor_succ_R t fuel n parent x pn h1 h2 hn hp hpn hl hr hss

theorem iterate_R (t : PTree K V) (rest : Ctx K V) (pa na : Nat) (pc : Color) (pk nk : K) (pv nv : V)
    (sib nl nr : AT K V) (k' : Nat)
    (hctx : OwnsCtx t (⟨.R, pa, pc, pk, pv, sib⟩ :: rest) (some na))
    (hs : Owns t (some pa) (.node na .black nr nk nv nl))
    (hd : Distinct (⟨.R, pa, pc, pk, pv, sib⟩ :: rest) (.node na .black nr nk nv nl))
    (hIH : LoopIH rest pa (k' + 1))
    (hC : (zipDelC (⟨.R, pa, pc, pk, pv, sib⟩ :: rest) ((AT.node na .black nr nk nv nl).erase, true)).isSome = true) :
    ∃ t' ctx'', recolor t (k' + 2) (some na) = some t' ∧ t'.count = t.count ∧
      OwnsCtx t' ctx'' (some na) ∧ Owns t' (ctxPtr ctx'') (.node na .black nr nk nv nl) ∧
      Distinct ctx'' (.node na .black nr nk nv nl) ∧
      ctx''.head?.map (fun f => (f.a, f.side)) = some (pa, .R) ∧
      ∀ y, (zipDelC (⟨.R, pa, pc, pk, pv, sib⟩ :: rest) (y, true)).map (fun r => r.1.setBlack)
        = some (plugT ctx'' y).setBlack := by
  have hctx0 := hctx
  obtain ⟨hp, hsib, hrest⟩ := hctx
  simp only [] at hp hsib hrest
  -- n is not the root, and black
  have hroot := hctx0.root_eq (by simp)
  have hnr : (some na != t.root) = true := by
    obtain ⟨r, hr⟩ : ∃ r, t.root = some r := by
      cases h : t.root with
      | none =>
        rw [h] at hroot
        cases rest with
        | nil => cases hroot
        | cons g rest' =>
          exfalso
          have : ∀ (l : Ctx K V), l ≠ [] → rootAddr l ≠ none := by
            intro l
            induction l with
            | nil => intro h; exact absurd rfl h
            | cons a l ih =>
              intro _
              cases l with
              | nil => simp [rootAddr]
              | cons b l => exact ih (by simp)
          exact this _ (by simp) hroot.symm
      | some r => exact ⟨r, rfl⟩
    rw [hr] at hroot ⊢
    have hm := rootAddr_mem _ r hroot.symm
    have c := List.count_pos_iff.mpr hm
    have : na ≠ r := by
      intro e; subst e; have := hd na
      simp only [AT.addrs, List.count_cons, beq_self_eq_true, if_true] at this; omega
    simp [this]
  have hnB : t.isBlack (some na) = true := by simp only [isBlack, hs.1]; rfl
  simp only [zipDelC, if_true, Frame.fillT] at hC
  cases sib with
  | nil => simp [T.fixDefC, T.fixDefBlackSibC, AT.erase, T.isRed] at hC
  | node sa sc sr sk sv sl =>
    have hsn : sa ≠ na := by addr_ne hd sa
    have hsucc := recolor_succ_R' t (k' + 1) (some na) (some pa) (some sa) _ _ hnr hnB hs.1 rfl hp rfl
      (by simp [hsn]) (by simp) rfl
    rw [show k' + 2 = k' + 1 + 1 from rfl, hsucc]
    cases sc with
    | black =>
      have hsR : t.isRed (some sa) = false := by simp only [isRed, hsib.1]; rfl
      simp only [hsR, Bool.false_eq_true, if_false, Option.bind_eq_bind, Option.bind_some]
      have hCe : ∀ y, T.fixDefC (T.node pc (AT.node sa .black sr sk sv sl).erase pk pv y) .R
          = T.fixDefBlackSibC (T.node pc (AT.node sa .black sr sk sv sl).erase pk pv y) .R := by
        intro y; simp only [T.fixDefC, AT.erase, T.isRed, Bool.false_eq_true, if_false]
      rw [hCe] at hC
      obtain ⟨t', ctx'', e, hc, h1, h2, h3, h4, h5, -⟩ := tail_R t rest pa sa na pc .black pk sk nk pv sv nv sl sr nl nr k'
        hctx0 hs hd (fun _ => hIH) hC
      refine ⟨t', ctx'', e, hc, h1, h2, h3, h4, ?_⟩
      intro y
      simp only [zipDelC, if_true, Frame.fillT]
      rw [hCe]; exact h5 y
    | red =>
      have hsR : t.isRed (some sa) = true := by simp only [isRed, hsib.1]; rfl
      cases sl with
      | nil => simp [T.fixDefC, T.fixDefBlackSibC, AT.erase, T.isRed, T.setBlackC, T.rotRC] at hC
      | node qa qc qr qk qv ql =>
        obtain ⟨t3, e3, hc3, hctx3, hs3, hd3⟩ := redsib_R t rest pa sa qa na pc qc .black pk sk qk nk pv sv qv nv sr ql qr
          nl nr hctx0 hs hd
        have hCe : ∀ y, T.fixDefC (T.node pc (AT.node sa .red sr sk sv (.node qa qc qr qk qv ql)).erase pk pv y) .R
            = (T.fixDefBlackSibC (T.node .red (AT.node qa qc qr qk qv ql).erase pk pv y) .R).bind
                (fun p => some (T.node .black sr.erase sk sv p.1, false)) := by
          intro y
          simp only [T.fixDefC, AT.erase, T.isRed, if_true, T.setBlackC, T.rotRC, Option.bind_eq_bind, Option.bind_some,
            Option.pure_def]
        rw [hCe] at hC
        have hC' : ((T.fixDefBlackSibC (T.node .red (AT.node qa qc qr qk qv ql).erase pk pv (AT.node na .black nr nk nv nl).erase) .R).bind (zipDelC (⟨.R, sa, .black, sk, sv, sr⟩ :: rest))).isSome = true := by
          cases hfd : T.fixDefBlackSibC (T.node .red (AT.node qa qc qr qk qv ql).erase pk pv (AT.node na .black nr nk nv nl).erase) .R with
          | none => rw [hfd] at hC; simp at hC
          | some p =>
            obtain ⟨r, d⟩ := p
            have := T.fixDefBlackSibC_red_R _ _ _ _ _ _ hfd
            subst this
            rw [hfd] at hC
            simpa [zipDelC, Frame.fillT] using hC
        obtain ⟨t', ctx'', e, hc, h1, h2, h3, h4, h5, h6⟩ := tail_R t3 (⟨.R, sa, .black, sk, sv, sr⟩ :: rest) pa qa na .red qc
          pk qk nk pv qv nv ql qr nl nr k' hctx3 hs3 hd3 (fun h => by cases h) hC'
        refine ⟨t', ctx'', ?_, hc.trans hc3, h1, h2, h3, h4, ?_⟩
        · rw [if_pos hsR]
          simp only [Option.bind_eq_bind] at e3 ⊢
          rcases Option.bind_eq_some_iff.mp e3 with ⟨u1, g1, e3⟩
          rcases Option.bind_eq_some_iff.mp e3 with ⟨u2, g2, e3⟩
          rcases Option.bind_eq_some_iff.mp e3 with ⟨u3, g3, e3⟩
          rcases Option.bind_eq_some_iff.mp e3 with ⟨x1, g4, e3⟩
          rcases Option.bind_eq_some_iff.mp e3 with ⟨x2, g5, e3⟩
          simp only [Option.some.injEq, Prod.mk.injEq] at e3
          obtain ⟨rfl, hx1, hx2⟩ := e3
          rw [hx1] at g5
          simp only [g1, g2, g3, g4, g5, Option.bind_some, hx1, hx2]
          exact e
        · intro y
          simp only [zipDelC, if_true, Frame.fillT]
          rw [hCe y]
          obtain ⟨r, hr⟩ := h6 rfl y
          have := h5 y
          rw [hr] at this ⊢
          simpa [zipDelC, Frame.fillT] using this


theorem recolor_spec : ∀ (m : Nat) (ctx : Ctx K V), ctx.length ≤ m → ∀ (t : PTree K V) (na : Nat) (nl nr : AT K V)
    (nk : K) (nv : V) (fuel : Nat),
    OwnsCtx t ctx (some na) → Owns t (ctxPtr ctx) (.node na .black nl nk nv nr) →
    Distinct ctx (.node na .black nl nk nv nr) → ctx.length + 2 ≤ fuel →
    (zipDelC ctx ((AT.node na .black nl nk nv nr).erase, true)).isSome = true →
    ∃ t' ctx'', recolor t fuel (some na) = some t' ∧ t'.count = t.count ∧ OwnsCtx t' ctx'' (some na) ∧
      Owns t' (ctxPtr ctx'') (.node na .black nl nk nv nr) ∧ Distinct ctx'' (.node na .black nl nk nv nr) ∧
      ctx''.head?.map (fun f => (f.a, f.side)) = ctx.head?.map (fun f => (f.a, f.side)) ∧
      ∀ y, (zipDelC ctx (y, true)).map (fun r => r.1.setBlack) = some (plugT ctx'' y).setBlack := by
  intro m
  induction m with
  | zero =>
    intro ctx hlen t na nl nr nk nv fuel hctx hown hd hfuel hC
    cases ctx with
    | cons f rest => simp at hlen
    | nil =>
      obtain ⟨k, rfl⟩ : ∃ k, fuel = k + 1 := ⟨fuel - 1, by omega⟩
      obtain ⟨h0, hl, hr⟩ := hown
      obtain ⟨t', e, ha, ho, hrt, hc⟩ := setBlack_spec t na true _ h0
      have hnd : (AT.node na .black nl nk nv nr).addrs.Nodup := by count_nodup hd
      simp only [AT.addrs, List.nodup_cons, List.mem_append, not_or] at hnd
      refine ⟨t', [], ?_, hc, hrt.trans hctx, ⟨ha, Owns.frame (fun x hx => ho x ?_) hl, Owns.frame (fun x hx => ho x ?_) hr⟩,
        hd, rfl, fun y => rfl⟩
      · rw [recolor]
        have : (some na != t.root) = false := by rw [show t.root = some na from hctx]; simp
        simp only [this, Bool.false_and, Bool.false_eq_true, if_false]
        exact e
      · rintro rfl; exact hnd.1.1 hx
      · rintro rfl; exact hnd.1.2 hx
  | succ m ih =>
    intro ctx hlen t na nl nr nk nv fuel hctx hown hd hfuel hC
    cases ctx with
    | nil =>
      obtain ⟨k, rfl⟩ : ∃ k, fuel = k + 1 := ⟨fuel - 1, by omega⟩
      obtain ⟨h0, hl, hr⟩ := hown
      obtain ⟨t', e, ha, ho, hrt, hc⟩ := setBlack_spec t na true _ h0
      have hnd : (AT.node na .black nl nk nv nr).addrs.Nodup := by count_nodup hd
      simp only [AT.addrs, List.nodup_cons, List.mem_append, not_or] at hnd
      refine ⟨t', [], ?_, hc, hrt.trans hctx, ⟨ha, Owns.frame (fun x hx => ho x ?_) hl, Owns.frame (fun x hx => ho x ?_) hr⟩,
        hd, rfl, fun y => rfl⟩
      · rw [recolor]
        have : (some na != t.root) = false := by rw [show t.root = some na from hctx]; simp
        simp only [this, Bool.false_and, Bool.false_eq_true, if_false]
        exact e
      · rintro rfl; exact hnd.1.1 hx
      · rintro rfl; exact hnd.1.2 hx
    | cons f rest =>
      obtain ⟨fside, pa, pc, pk, pv, sib⟩ := f
      simp only [List.length_cons] at hlen hfuel
      obtain ⟨k', rfl⟩ : ∃ k, fuel = k + 2 := ⟨fuel - 2, by omega⟩
      have hIH : LoopIH rest pa (k' + 1) := by
        intro t1 l r k v h1 h2 h3 h4
        obtain ⟨t', ctxI, e, hc, g1, g2, g3, -, g5⟩ := ih rest (by omega) t1 pa l r k v (k' + 1) h1 h2 h3 (by omega) h4
        exact ⟨t', ctxI, e, hc, g1, g2, g3, g5⟩
      cases fside with
      | L => exact iterate_L t rest pa na pc pk nk pv nv sib nl nr k' hctx hown hd hIH hC
      | R => exact iterate_R t rest pa na pc pk nk pv nv sib nr nl k' hctx hown hd hIH hC

end PTree
end RB
