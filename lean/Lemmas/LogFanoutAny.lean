import Lemmas.LogFanout
/-! C13: `ML.handleTL` for ARBITRARY sinks (synchronous, buffered, stalled, failing): seen from any one sink, a fan-out
`Handle` is nothing but the successive `TL.deliver` of the renderings of the enabled children that write to that sink, in
child order, on that sink's own state — the other children and sinks do not exist for it. Core only. -/
namespace ML
open TL

/-- successive `Handle` calls reaching ONE sink: its final state, the `Write` calls, how each call ended -/
def seqDeliver (k : Nat) : SinkSt → List Bytes → SinkSt × List Bytes × List Ret
  | sk, [] => (sk, [], [])
  | sk, l :: ls =>
    let d := TL.deliver sk k l
    let r := seqDeliver k d.1 ls
    (r.1, d.2.1 ++ r.2.1, d.2.2 :: r.2.2)

/-- the renderings of the enabled children whose sink is `k`, in child order -/
def linesFor (σ : Store) (r : Record) (k : Nat) (cs : List TL.Handler) : List Bytes :=
  (cs.filter (fun c => TL.enabled c r.level && c.sink == k)).map (fun c => TL.render σ c r)

def writesAt (k : Nat) (f : Fan) : List Bytes := (f.writes.filter (·.1 == k)).map (·.2)
def retsAt (k : Nat) (f : Fan) : List Ret := (f.rets.filter (·.1 == k)).map (·.2)

theorem foldl_stepTL_at (σ : Store) (r : Record) (k : Nat) : ∀ (cs : List TL.Handler) (acc : Fan),
    getSink (cs.foldl (stepTL σ r) acc).sinks k = (seqDeliver k (getSink acc.sinks k) (linesFor σ r k cs)).1 ∧
    writesAt k (cs.foldl (stepTL σ r) acc) =
      writesAt k acc ++ (seqDeliver k (getSink acc.sinks k) (linesFor σ r k cs)).2.1 ∧
    retsAt k (cs.foldl (stepTL σ r) acc) =
      retsAt k acc ++ (seqDeliver k (getSink acc.sinks k) (linesFor σ r k cs)).2.2
  | [], acc => by simp [linesFor, seqDeliver]
  | c :: cs, acc => by
    simp only [List.foldl_cons]
    obtain ⟨h1, h2, h3⟩ := foldl_stepTL_at σ r k cs (stepTL σ r acc c)
    rw [h1, h2, h3]
    by_cases he : TL.enabled c r.level = true
    · by_cases hk : c.sink = k
      · subst hk
        have hl : linesFor σ r c.sink (c :: cs) = TL.render σ c r :: linesFor σ r c.sink cs := by
          simp [linesFor, he]
        have hs : getSink (stepTL σ r acc c).sinks c.sink =
            (TL.deliver (getSink acc.sinks c.sink) c.sink (TL.render σ c r)).1 := by
          simp [stepTL, he, getSink_setSink]
        have hw : writesAt c.sink (stepTL σ r acc c) =
            writesAt c.sink acc ++ (TL.deliver (getSink acc.sinks c.sink) c.sink (TL.render σ c r)).2.1 := by
          simp [stepTL, he, writesAt, List.filter_map, Function.comp_def]
        have hr : retsAt c.sink (stepTL σ r acc c) =
            retsAt c.sink acc ++ [(TL.deliver (getSink acc.sinks c.sink) c.sink (TL.render σ c r)).2.2] := by
          simp [stepTL, he, retsAt]
        rw [hl, hs, hw, hr]
        simp [seqDeliver, List.append_assoc]
      · have hkb : (c.sink == k) = false := by simpa using hk
        have hl : linesFor σ r k (c :: cs) = linesFor σ r k cs := by simp [linesFor, hkb]
        have hs : getSink (stepTL σ r acc c).sinks k = getSink acc.sinks k := by
          have : ¬ k = c.sink := fun e => hk e.symm
          simp [stepTL, he, getSink_setSink, this]
        have hw : writesAt k (stepTL σ r acc c) = writesAt k acc := by
          simp [stepTL, he, writesAt, List.filter_map, Function.comp_def, hkb]
        have hr : retsAt k (stepTL σ r acc c) = retsAt k acc := by
          simp [stepTL, he, retsAt, hkb]
        rw [hl, hs, hw, hr]
        exact ⟨rfl, rfl, rfl⟩
    · have he' : TL.enabled c r.level = false := by simpa using he
      have hl : linesFor σ r k (c :: cs) = linesFor σ r k cs := by simp [linesFor, he']
      have hst : stepTL σ r acc c = acc := by simp [stepTL, he']
      rw [hl, hst]
      exact ⟨rfl, rfl, rfl⟩

/-- what a buffered sink still owes: the item inside `Write`, then the channel -/
def owed (sk : SinkSt) : List Bytes := match sk.buf with | some b => b.inflight.toList ++ b.queue | none => []

theorem take_pending (b : Buf) : b.take.inflight.toList ++ b.take.queue = b.inflight.toList ++ b.queue := by
  obtain ⟨cap, inflight, queue⟩ := b
  cases inflight <;> cases queue <;> simp [Buf.take]

/-- one `Handle` reaching a BUFFERED sink: it returns nil; what has been written so far followed by what is still owed
    grows by exactly this record, whole, when the channel had room, and by nothing when it was full -/
theorem deliver_buffered (sk : SinkSt) (k : Nat) (line : Bytes) (b : Buf) (hb : sk.buf = some b) :
    (TL.deliver sk k line).2.2 = Ret.nil ∧ (∃ b', (TL.deliver sk k line).1.buf = some b') ∧
    (TL.deliver sk k line).2.1 ++ owed (TL.deliver sk k line).1 =
      owed sk ++ (if b.queue.length < b.cap then [line] else []) := by
  have hp := take_pending (b.send line).1
  unfold TL.deliver
  rw [hb]
  by_cases hh : sk.held = true <;> by_cases hl : b.queue.length < b.cap <;>
    simp [hh, hl, owed, hb, Buf.send, Buf.drain] at hp ⊢ <;> simp [hp, List.append_assoc]

/-- successive `Handle` calls reaching a buffered sink: all return nil (none waits for the sink), and the sink receives —
    has received, or is still owed — what it was owed before followed by a SUBLIST of the records, each whole, in order,
    none twice: the missing ones met a full channel -/
theorem seqDeliver_buffered (k : Nat) : ∀ (lines : List Bytes) (sk : SinkSt) (b : Buf), sk.buf = some b →
    (seqDeliver k sk lines).2.2 = lines.map (fun _ => Ret.nil) ∧
    ∃ acc, acc.Sublist lines ∧ (seqDeliver k sk lines).2.1 ++ owed (seqDeliver k sk lines).1 = owed sk ++ acc
  | [], sk, _, _ => ⟨rfl, [], List.Sublist.refl _, by simp [seqDeliver]⟩
  | l :: ls, sk, b, hb => by
    obtain ⟨h1, ⟨b', hb'⟩, h3⟩ := deliver_buffered sk k l b hb
    obtain ⟨i1, acc, hsub, i3⟩ := seqDeliver_buffered k ls (TL.deliver sk k l).1 b' hb'
    refine ⟨by simp [seqDeliver, h1, i1], (if b.queue.length < b.cap then [l] else []) ++ acc, ?_, ?_⟩
    · by_cases hl : b.queue.length < b.cap
      · simpa [hl] using hsub.cons₂ l
      · simpa [hl] using hsub.cons l
    · simp only [seqDeliver, List.append_assoc]
      rw [i3, ← List.append_assoc, h3, List.append_assoc]

end ML
