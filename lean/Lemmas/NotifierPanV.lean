import Lemmas.NotifierCycles
/-! C17: WHO PANICS may change from call to call.  `pan : Nat → Bool` is a parameter of ONE exported call in `Nt.step`;
    `Nt.run pan` fixes it for a history.  Here every operation of a history comes with its own `pan` (`runFromV`): a target
    may panic in `BatchMode(true)` and not in `BatchMode(false)`, or on its second notification only.  The world and the
    calls made do not depend on any of this. -/
namespace Nt

def runFromV : World → List ((Nat → Bool) × Op) → World × List Event
  | w, [] => (w, [])
  | w, po :: l =>
    let r := step po.1 w po.2
    let r' := runFromV r.1 l
    (r'.1, r.2 ++ r'.2)

theorem step_world_pan (pan : Nat → Bool) (w : World) (op : Op) : (step pan w op).1 = (step nobody w op).1 := by
  cases op <;> rfl

theorem step_calls_pan (pan : Nat → Bool) (w : World) (op : Op) : calls (step pan w op).2 = (step nobody w op).2 := by
  rw [step_spec, step_spec]
  cases op with
  | notify n raw => exact (calls_deliverAll pan n _ _).1
  | startBatch n => exact (calls_batchAll pan n _ _).1
  | endBatch n => exact (calls_batchAll pan n _ _).1
  | merge n m => simp only [stepSpec]; split <;> simp [calls]
  | _ => rfl

theorem calls_append (a b : List Event) : calls (a ++ b) = calls a ++ calls b := by simp [calls]

theorem runFromV_spec (w : World) (l : List ((Nat → Bool) × Op)) :
    (runFromV w l).1 = (runFrom nobody w (l.map (·.2))).1 ∧
    calls (runFromV w l).2 = (runFrom nobody w (l.map (·.2))).2 := by
  induction l generalizing w with
  | nil => exact ⟨rfl, rfl⟩
  | cons po l ih =>
    simp only [runFromV, List.map_cons, runFrom]
    rw [step_world_pan po.1 w po.2]
    exact ⟨(ih _).1, by rw [calls_append, step_calls_pan, (ih _).2]⟩

theorem runFrom_world_pan (pan : Nat → Bool) (w : World) (ops : List Op) :
    (runFrom pan w ops).1 = (runFrom nobody w ops).1 := by
  induction ops generalizing w with
  | nil => rfl
  | cons op ops ih => simp only [runFrom]; rw [step_world_pan pan w op]; exact ih _

/-- `batch_nesting` when the panickers differ between the outer start, every call in between, and the matching end -/
theorem nest_outerV (pan₁ pan₃ : Nat → Bool) (w : World) (hw : WInv w) (n : Nat) (mid : List ((Nat → Bool) × Op))
    (he : (w n).enabled = true) (hl : (w n).level = 0) (hm : matched n 0 (mid.map (·.2)) = true) :
    (step pan₁ w (.startBatch n)).2 = batchAll pan₁ n true (w n).batch ∧
    NoBatchEvents n (runFromV (step pan₁ w (.startBatch n)).1 mid).2 ∧
    (step pan₃ (runFromV (step pan₁ w (.startBatch n)).1 mid).1 (.endBatch n)).2 = batchAll pan₃ n false (w n).batch := by
  have h1 := nest_outer pan₁ w hw n _ he hl hm
  have h3 := nest_outer pan₃ w hw n _ he hl hm
  have h0 := nest_outer nobody w hw n _ he hl hm
  have hworld : (runFromV (step pan₁ w (.startBatch n)).1 mid).1 =
      (runFrom pan₃ (step pan₃ w (.startBatch n)).1 (mid.map (·.2))).1 := by
    rw [(runFromV_spec _ mid).1, runFrom_world_pan pan₃, step_world_pan pan₁, step_world_pan pan₃]
  refine ⟨h1.1, ?_, by rw [hworld]; exact h3.2.2.1⟩
  intro e he' t b heq
  have hc : e ∈ calls (runFromV (step pan₁ w (.startBatch n)).1 mid).2 := by
    unfold calls
    exact List.mem_filter.mpr ⟨he', by rw [heq]; rfl⟩
  rw [(runFromV_spec _ mid).2, step_world_pan pan₁] at hc
  exact h0.2.1 e hc t b heq

end Nt
