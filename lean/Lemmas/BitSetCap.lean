import Lemmas.BitSet
/-! C08: why the model may treat a slice as a whole array (`len == cap`), and what happens when that stops being true.

The code makes every slice with `make([]uint64, n)` (length = capacity) and never reslices, so a bit set never sees words
beyond `len(b.data)`.  The regression ind6-c08-b consists of two allocation-saving edits that are each harmless and
together break this: `Copy` reusing the receiver's backing array (`append(b.data[:0], other.data...)`) leaves stale words
beyond the length, `EnsureCapacity` reslicing within the capacity (`b.data = b.data[:words]`) brings them back.  Here a
slice is a backing array plus a length; the two edits and the code's own forms are transcribed on it. -/
namespace BS

/-- a slice with spare capacity: backing array, length (`≤` the array's length), cached count -/
structure CapT where
  arr : List W := []
  len : Nat := 0
  set : Int := 0
deriving DecidableEq

/-- the bit set such a slice denotes: the first `len` words -/
def CapT.view (c : CapT) : T := { data := c.arr.take c.len, set := c.set }

/-- `len == cap`: what every slice of the code satisfies -/
def CapT.Tight (c : CapT) : Prop := c.len = c.arr.length

/-- the code's `Copy`: `make(len(other.data))` + `copy` -/
def copyFresh (_c : CapT) (other : T) : CapT := { arr := other.data, len := other.data.length, set := other.set }

/-- EDIT 1 (not the code): `b.data = append(b.data[:0], other.data...)` — the words of `other` overwrite the front of the
    receiver's array when they fit; the rest of the array stays -/
def copyReuse (c : CapT) (other : T) : CapT :=
  if other.data.length ≤ c.arr.length then
    { arr := other.data ++ c.arr.drop other.data.length, len := other.data.length, set := other.set }
  else { arr := other.data, len := other.data.length, set := other.set }

/-- the code's `EnsureCapacity` on such a slice: `make(size)` (zeroed) + `copy(data, b.data)` copies `len` words only -/
def ensureFresh (c : CapT) (words : Nat) : CapT :=
  if words > c.len then
    let size2 := c.len * 2
    let size3 := if size2 < words then words else size2
    { arr := c.arr.take c.len ++ List.replicate (size3 - c.len) 0#64, len := size3, set := c.set }
  else c

/-- EDIT 2 (not the code): `if words <= cap(b.data) { b.data = b.data[:words]; return }` before allocating -/
def ensureReslice (c : CapT) (words : Nat) : CapT :=
  if words ≤ c.len then c
  else if words ≤ c.arr.length then { c with len := words }
  else ensureFresh c words

theorem copyFresh_view (c : CapT) (o : T) : (copyFresh c o).view = copy c.view o := by
  unfold copyFresh CapT.view copy; simp

/-- edit 1 alone is invisible at the `Copy` itself … -/
theorem copyReuse_view (c : CapT) (o : T) : (copyReuse c o).view = copy c.view o := by
  unfold copyReuse CapT.view copy
  split <;> simp

/-- … and stays invisible under the code's `EnsureCapacity`, which never looks beyond the length: whatever is in the
    spare capacity, the result is the model's `ensureCapacity` of the denoted bit set, and it is tight again -/
theorem ensureFresh_view (c : CapT) (n : Nat) (h : c.len ≤ c.arr.length) :
    (ensureFresh c n).view = ensureCapacity c.view n ∧ (c.Tight → (ensureFresh c n).Tight) := by
  have hl : (c.arr.take c.len).length = c.len := by simp; omega
  have e : ∀ k, c.len ≤ k → (c.arr.take c.len ++ List.replicate (k - c.len) 0#64).take k
      = c.arr.take c.len ++ List.replicate (k - c.len) 0#64 := by
    intro k hk; apply List.take_of_length_le; simp; omega
  by_cases h1 : n > c.len
  · by_cases h2 : c.len * 2 < n
    · have e1 : ensureFresh c n = { arr := c.arr.take c.len ++ List.replicate (n - c.len) 0#64, len := n, set := c.set } := by
        unfold ensureFresh; simp only [if_pos h1, if_pos h2]
      have e2 : ensureCapacity c.view n = { data := c.arr.take c.len ++ List.replicate (n - c.len) 0#64, set := c.set } := by
        unfold ensureCapacity CapT.view; simp only [hl, if_pos h1, if_pos h2]
      rw [e1, e2]
      refine ⟨?_, fun _ => ?_⟩
      · unfold CapT.view; simp only [e n (by omega)]
      · unfold CapT.Tight; simp only [List.length_append, List.length_replicate, hl]; omega
    · have e1 : ensureFresh c n = { arr := c.arr.take c.len ++ List.replicate (c.len * 2 - c.len) 0#64, len := c.len * 2, set := c.set } := by
        unfold ensureFresh; simp only [if_pos h1, if_neg h2]
      have e2 : ensureCapacity c.view n = { data := c.arr.take c.len ++ List.replicate (c.len * 2 - c.len) 0#64, set := c.set } := by
        unfold ensureCapacity CapT.view; simp only [hl, if_pos h1, if_neg h2]
      rw [e1, e2]
      refine ⟨?_, fun _ => ?_⟩
      · unfold CapT.view; simp only [e (c.len * 2) (by omega)]
      · unfold CapT.Tight; simp only [List.length_append, List.length_replicate, hl]; omega
  · have e1 : ensureFresh c n = c := by unfold ensureFresh; simp only [if_neg h1]
    have e2 : ensureCapacity c.view n = c.view := by
      unfold ensureCapacity CapT.view; simp only [hl, if_neg h1]
    rw [e1, e2]; exact ⟨rfl, id⟩

/-- edit 2 alone is invisible: on a tight slice (all the code ever makes) the reslice branch is never taken -/
theorem ensureReslice_tight (c : CapT) (n : Nat) (h : c.Tight) :
    ensureReslice c n = ensureFresh c n := by
  unfold ensureReslice
  unfold CapT.Tight at h
  split
  · unfold ensureFresh; rw [if_neg (by omega)]
  · rw [if_neg (by omega)]

end BS
