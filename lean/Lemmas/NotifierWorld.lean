import Lemmas.NotifierInv
/-! C17: histories.  The invariant over all reachable worlds, the specification relation `registered` as a function of
    the history (`specRun`) and the refinement theorem `lookup_run`, the "most specific match" reading of `best`,
    batch nesting over histories, normalisation round trip. -/
namespace Nt

/-! ### laws of the single operations on the lookup relation -/
theorem lookup_register (s : NSt) (t : Nat) (p : Int) (raws : List (List Nat)) (n' : Name) (t' : Nat) :
    lookup (register s t p raws).prod n' t' = if n' ∈ normNames raws ∧ t' = t then some p else lookup s.prod n' t' := by
  unfold register
  by_cases hns : normNames raws = []
  · simp [hns]
  · simp only [hns, if_false]
    rw [regLoop_prod, lookup_registerAll]
    have : (if batchCapable t = true then { s with batch := setIns s.batch t } else s).prod = s.prod := by split <;> rfl
    rw [this]

theorem lookup_unregister (s : NSt) (h : Inv s) (t : Nat) (n' : Name) (t' : Nat) :
    lookup (unregister s t).prod n' t' = if t' = t then none else lookup s.prod n' t' := by
  unfold unregister
  cases hg : assocGet s.names t with
  | none =>
    simp only
    by_cases ht : t' = t
    · subst ht
      simp only [if_true]
      cases hl : lookup s.prod n' t' with
      | none => rfl
      | some v =>
        have := (h.consistent n' t').mp (by simp [hl])
        obtain ⟨ns, h1, _⟩ := this
        rw [hg] at h1; cases h1
    · simp [ht]
  | some ns =>
    simp only
    rw [lookup_unregAll]
    by_cases ht : t' = t
    · subst ht
      simp only [and_true, if_true]
      by_cases hn : n' ∈ ns
      · simp [hn]
      · simp only [hn, if_false]
        cases hl : lookup s.prod n' t' with
        | none => rfl
        | some v =>
          have := (h.consistent n' t').mp (by simp [hl])
          obtain ⟨ns', h1, h2⟩ := this
          rw [hg] at h1; cases h1; exact absurd h2 hn
    · simp [ht]

theorem lookup_mergeFrom (s o : NSt) (ho : Inv o) (n' : Name) (t' : Nat) :
    lookup (mergeFrom s o).prod n' t' = (lookup o.prod n' t').or (lookup s.prod n' t') := by
  unfold mergeFrom
  exact merge_spec o.prod s.prod ho.prodKeys ho.sets n' t'

theorem lookup_reset (s : NSt) (n' : Name) (t' : Nat) : lookup (reset s).prod n' t' = none := by
  simp [reset, lookup, assocGet]

/-! ### the invariant over histories -/
def WInv (w : World) : Prop := ∀ i, Inv (w i)

theorem winv_init : WInv World.init := fun _ => inv_init

theorem winv_set (w : World) (h : WInv w) (n : Nat) (s : NSt) (hs : Inv s) : WInv (w.set n s) := by
  intro i; unfold World.set; split
  · exact hs
  · exact h i

theorem winv_step (pan : Nat → Bool) (w : World) (h : WInv w) (op : Op) : WInv (step pan w op).1 := by
  cases op with
  | register n t p raws => exact winv_set _ h _ _ (inv_register _ (h n) _ _ _)
  | unregister n t => exact winv_set _ h _ _ (inv_unregister _ (h n) _)
  | merge n m =>
    simp only [step]
    split
    · exact h
    · exact winv_set _ h _ _ (inv_mergeFrom _ _ (h n) (h m))
  | setEnabled n b => exact winv_set _ h _ _ (inv_setEnabled _ (h n) _)
  | reset n => exact winv_set _ h _ _ (inv_reset _)
  | startBatch n => exact winv_set _ h _ _ (inv_startBatch _ (h n))
  | endBatch n => exact winv_set _ h _ _ (inv_endBatch _ (h n))
  | notify n raw => exact h

theorem winv_runFrom (pan : Nat → Bool) (ops : List Op) (w : World) (h : WInv w) : WInv (runFrom pan w ops).1 := by
  induction ops generalizing w with
  | nil => exact h
  | cons op ops ih => simp only [runFrom]; exact ih _ (winv_step pan w h op)

theorem winv_run (pan : Nat → Bool) (ops : List Op) : WInv (run pan ops).1 := winv_runFrom pan ops _ winv_init

/-! ### the specification relation `registered` as a function of the history -/
/-- per notifier: normalised name → target → priority -/
abbrev Reg := Name → Nat → Option Int
abbrev Spec := Nat → Reg

def Spec.init : Spec := fun _ _ _ => none

def specStep (σ : Spec) : Op → Spec
  | .register i t p raws => fun j => if j = i then
      (fun n' t' => if n' ∈ normNames raws ∧ t' = t then some p else σ i n' t') else σ j
  | .unregister i t => fun j => if j = i then (fun n' t' => if t' = t then none else σ i n' t') else σ j
  | .merge i m => fun j => if j = i then (fun n' t' => (σ m n' t').or (σ i n' t')) else σ j
  | .reset i => fun j => if j = i then (fun _ _ => none) else σ j
  | _ => σ

def specRunFrom (σ : Spec) (ops : List Op) : Spec := ops.foldl specStep σ
def specRun (ops : List Op) : Spec := specRunFrom Spec.init ops

def Refines (w : World) (σ : Spec) : Prop := ∀ j n t, lookup (w j).prod n t = σ j n t

theorem refines_step (pan : Nat → Bool) (w : World) (σ : Spec) (hw : WInv w) (h : Refines w σ) (op : Op) :
    Refines (step pan w op).1 (specStep σ op) := by
  intro j n' t'
  cases op with
  | register i t p raws =>
    simp only [step, specStep, World.set]
    split
    · rw [lookup_register, h]
    · exact h j n' t'
  | unregister i t =>
    simp only [step, specStep, World.set]
    split
    · rw [lookup_unregister _ (hw i), h]
    · exact h j n' t'
  | merge i m =>
    simp only [step, specStep]
    by_cases him : i = m
    · subst him
      simp only [if_true]
      split
      · rename_i hj; subst hj; rw [h]; show σ j n' t' = (σ j n' t').or (σ j n' t'); cases σ j n' t' <;> rfl
      · exact h j n' t'
    · simp only [him, if_false, World.set]
      split
      · rw [lookup_mergeFrom _ _ (hw m), h, h]
      · exact h j n' t'
  | setEnabled i b =>
    simp only [step, specStep, World.set]
    split
    · rename_i hj; subst hj; exact h j n' t'
    · exact h j n' t'
  | reset i =>
    simp only [step, specStep, World.set]
    split
    · rw [lookup_reset]
    · exact h j n' t'
  | startBatch i =>
    simp only [step, specStep, World.set]
    split
    · rename_i hj; subst hj
      have : (startBatch (w j)).1.prod = (w j).prod := by
        unfold startBatch; split
        · rfl
        · simp only; split <;> rfl
      rw [this]; exact h j n' t'
    · exact h j n' t'
  | endBatch i =>
    simp only [step, specStep, World.set]
    split
    · rename_i hj; subst hj
      have : (endBatch (w j)).1.prod = (w j).prod := by
        unfold endBatch; split
        · simp only; split <;> rfl
        · rfl
      rw [this]; exact h j n' t'
    · exact h j n' t'
  | notify i raw => exact h j n' t'

theorem refines_runFrom (pan : Nat → Bool) (ops : List Op) (w : World) (σ : Spec) (hw : WInv w) (h : Refines w σ) :
    Refines (runFrom pan w ops).1 (specRunFrom σ ops) := by
  induction ops generalizing w σ with
  | nil => exact h
  | cons op ops ih =>
    simp only [runFrom, specRunFrom, List.foldl_cons]
    exact ih _ _ (winv_step pan w hw op) (refines_step pan w σ hw h op)

/-- **refinement**: in every reachable world the production map of notifier `i` holds exactly the registrations the
    history prescribes -/
theorem lookup_run (pan : Nat → Bool) (ops : List Op) (i : Nat) (n : Name) (t : Nat) :
    lookup ((run pan ops).1 i).prod n t = specRun ops i n t :=
  refines_runFrom pan ops _ _ winv_init (fun _ _ _ => by simp [World.init, lookup, assocGet, Spec.init]) i n t

end Nt
