import Lemmas.EvenOddOutside
import Lemmas.EvenOddPerm

/-! C05: soundness of `EO.emptyCert` — when the certificate holds, the Boolean combination of "inside A" and
    "inside B" is false at every rational point. -/

namespace EOQ

/-! ### an edge crossed by the ray from `p` lies (partly) to the right of `p`; an edge right of `p` is crossed iff it
    straddles the ordinate of `p` -/

theorem crossed_up_lt_max (a b p : QPt) (h0 : a.y < b.y) (h1 : a.y ≤ p.y) (h2 : p.y < b.y)
    (h3 : (p.x - a.x) * (b.y - a.y) < (p.y - a.y) * (b.x - a.x)) : p.x < max a.x b.x := by
  by_contra hc
  rw [not_lt, max_le_iff] at hc
  obtain ⟨ha, hb⟩ := hc
  rcases le_or_gt (b.x - a.x) 0 with hw | hw
  · nlinarith [mul_nonneg (sub_nonneg.mpr ha) (sub_pos.mpr h0).le, mul_nonneg (sub_nonneg.mpr h1) (neg_nonneg.mpr hw)]
  · nlinarith [mul_nonneg (sub_nonneg.mpr h1) hw.le, mul_nonneg (sub_pos.mpr h2).le hw.le,
      mul_nonneg (sub_nonneg.mpr hb) (sub_pos.mpr h0).le]

theorem crosses_lt_max (a b p : QPt) (h : crosses a b p) : p.x < max a.x b.x := by
  have hs := (crosses_symm a b p).mp h
  rw [crosses_iff] at h hs
  rcases h with ⟨h0, h1, h2, h3⟩ | ⟨h0, _, _, _⟩
  · exact crossed_up_lt_max a b p h0 h1 h2 h3
  · rcases hs with ⟨_, h1, h2, h3⟩ | ⟨h0', _, _, _⟩
    · rw [max_comm]; exact crossed_up_lt_max b a p h0 h1 h2 h3
    · exact absurd h0 (not_lt.mpr h0'.le)

theorem crosses_y_range (a b p : QPt) (h : crosses a b p) : min a.y b.y ≤ p.y ∧ p.y < max a.y b.y :=
  ⟨h.2.1, h.2.2.1⟩

theorem left_up_crossed (a b p : QPt) (h0 : a.y < b.y) (h1 : a.y ≤ p.y) (h2 : p.y < b.y) (ha : p.x < a.x)
    (hb : p.x < b.x) : (p.x - a.x) * (b.y - a.y) < (p.y - a.y) * (b.x - a.x) := by
  rcases le_or_gt 0 (b.x - a.x) with hw | hw
  · nlinarith [mul_pos (sub_pos.mpr ha) (sub_pos.mpr h0), mul_nonneg (sub_nonneg.mpr h1) hw]
  · nlinarith [mul_pos (sub_pos.mpr h2) (neg_pos.mpr hw), mul_pos (sub_pos.mpr hb) (sub_pos.mpr h0)]

/-- for an edge entirely to the right of `p`: crossed iff it straddles the ordinate of `p` -/
theorem crosses_of_left (a b p : QPt) (ha : p.x < a.x) (hb : p.x < b.x) :
    crosses a b p ↔ (a.y ≠ b.y ∧ min a.y b.y ≤ p.y ∧ p.y < max a.y b.y) := by
  constructor
  · intro h; exact ⟨h.1, h.2.1, h.2.2.1⟩
  · rintro ⟨hne, hlo, hhi⟩
    rcases lt_or_gt_of_ne hne with h0 | h0
    · rw [min_eq_left h0.le] at hlo
      rw [max_eq_right h0.le] at hhi
      rw [crosses_iff]
      exact Or.inl ⟨h0, hlo, hhi, left_up_crossed a b p h0 hlo hhi ha hb⟩
    · rw [min_eq_right h0.le] at hlo
      rw [max_eq_left h0.le] at hhi
      rw [crosses_symm, crosses_iff]
      exact Or.inl ⟨h0, hlo, hhi, left_up_crossed b a p h0 hlo hhi hb ha⟩

/-! ### polygon level -/

theorem exists_crossed_of_inside (P : QPolygon) (p : QPt) (h : inside P p) :
    ∃ e ∈ EO.allEdges P, crosses e.1 e.2 p := by
  unfold inside crossCount at h
  have hpos : 0 < (EO.allEdges P).countP (fun e => decide (crosses e.1 e.2 p)) := by omega
  rw [List.countP_pos_iff] at hpos
  obtain ⟨e, he, hc⟩ := hpos
  exact ⟨e, he, by simpa using hc⟩

theorem not_inside_of_no_cross (P : QPolygon) (p : QPt) (h : ∀ e ∈ EO.allEdges P, ¬ crosses e.1 e.2 p) :
    ¬ inside P p := by
  intro hi
  obtain ⟨e, he, hc⟩ := exists_crossed_of_inside P p hi
  exact h e he hc

/-- a point to the left of every edge is outside (a closed contour crosses a horizontal line evenly often) -/
theorem not_inside_of_left (P : QPolygon) (p : QPt) (h : ∀ e ∈ EO.allEdges P, p.x < e.1.x ∧ p.x < e.2.x) :
    ¬ inside P p := by
  unfold inside crossCount
  have : (EO.allEdges P).countP (fun e => decide (crosses e.1 e.2 p)) =
      (EO.allEdges P).countP (fun e => decide (e.1.y ≤ p.y) != decide (e.2.y ≤ p.y)) := by
    apply List.countP_congr
    intro e he
    rw [decide_eq_true_eq, crosses_of_left _ _ _ (h e he).1 (h e he).2, ← straddle_iff]
  rw [this]
  have h2 : (EO.allEdges P).countP (fun e => decide (e.1.y ≤ p.y) != decide (e.2.y ≤ p.y)) % 2 = 0 :=
    allEdges_parity (fun v : QPt => decide (v.y ≤ p.y)) P
  omega

theorem mem_allEdges_polyQ (P : EO.Polygon) (e : QPt × QPt) (he : e ∈ EO.allEdges (polyQ P)) :
    ∃ a b : EO.Pt, (a, b) ∈ EO.allEdges P ∧ e = (toQ a, toQ b) := by
  unfold polyQ at he
  rw [allEdges_map, List.mem_map] at he
  obtain ⟨⟨a, b⟩, hab, rfl⟩ := he
  exact ⟨a, b, hab, rfl⟩

theorem noEdges_not_inside (P : EO.Polygon) (h : EO.noEdges P = true) (p : QPt) : ¬ inside (polyQ P) p := by
  apply not_inside_of_no_cross
  intro e he
  obtain ⟨a, b, hab, _⟩ := mem_allEdges_polyQ P e he
  unfold EO.noEdges at h
  rw [List.isEmpty_iff] at h
  rw [h] at hab
  cases hab

/-- operands separated by a vertical line -/
theorem sepX_sound (A B : EO.Polygon) (h : EO.sepX (EO.allEdges A) (EO.allEdges B) = true) (p : QPt) :
    ¬ (inside (polyQ A) p ∧ inside (polyQ B) p) := by
  rintro ⟨hA, hB⟩
  obtain ⟨e, he, hc⟩ := exists_crossed_of_inside _ p hA
  obtain ⟨a, b, hab, rfl⟩ := mem_allEdges_polyQ A e he
  have hlt := crosses_lt_max _ _ _ hc
  refine not_inside_of_left (polyQ B) p ?_ hB
  intro f hf
  obtain ⟨c, d, hcd, rfl⟩ := mem_allEdges_polyQ B f hf
  unfold EO.sepX at h
  rw [List.all_eq_true] at h
  have h1 := h (a, b) hab
  rw [List.all_eq_true] at h1
  have h2 := h1 (c, d) hcd
  unfold EO.edgeXLe at h2
  simp only [decide_eq_true_eq] at h2
  have h3 : ((max a.x b.x : Int) : ℚ) ≤ ((min c.x d.x : Int) : ℚ) := by exact_mod_cast h2
  simp only [toQ] at hlt ⊢
  push_cast at h3
  constructor
  · exact lt_of_lt_of_le hlt (le_trans h3 (min_le_left _ _))
  · exact lt_of_lt_of_le hlt (le_trans h3 (min_le_right _ _))

/-- operands separated by a horizontal line -/
theorem sepY_sound (A B : EO.Polygon) (h : EO.sepY (EO.allEdges A) (EO.allEdges B) = true) (p : QPt) :
    ¬ (inside (polyQ A) p ∧ inside (polyQ B) p) := by
  rintro ⟨hA, hB⟩
  obtain ⟨e, he, hc⟩ := exists_crossed_of_inside _ p hA
  obtain ⟨a, b, hab, rfl⟩ := mem_allEdges_polyQ A e he
  have hy := (crosses_y_range _ _ _ hc).2
  refine not_inside_of_no_cross (polyQ B) p ?_ hB
  intro f hf hcf
  obtain ⟨c, d, hcd, rfl⟩ := mem_allEdges_polyQ B f hf
  have hlo := (crosses_y_range _ _ _ hcf).1
  unfold EO.sepY at h
  rw [List.all_eq_true] at h
  have h1 := h (a, b) hab
  rw [List.all_eq_true] at h1
  have h2 := h1 (c, d) hcd
  unfold EO.edgeYLe at h2
  simp only [decide_eq_true_eq] at h2
  have h3 : ((max a.y b.y : Int) : ℚ) ≤ ((min c.y d.y : Int) : ℚ) := by exact_mod_cast h2
  simp only [toQ] at hy hlo
  push_cast at h3
  linarith

theorem separated_sound (A B : EO.Polygon) (h : EO.separated A B = true) (p : QPt) :
    ¬ (inside (polyQ A) p ∧ inside (polyQ B) p) := by
  unfold EO.separated at h
  simp only [Bool.or_eq_true] at h
  rcases h with ((h | h) | h) | h
  · exact sepX_sound A B h p
  · intro ⟨x, y⟩; exact sepX_sound B A h p ⟨y, x⟩
  · exact sepY_sound A B h p
  · intro ⟨x, y⟩; exact sepY_sound B A h p ⟨y, x⟩

/-! ### half-planes: a point that a line separates strictly from all vertices is outside -/

theorem up_edge_key (α β : ℚ) (a b p : QPt) (_h0 : a.y < b.y) (h1 : a.y ≤ p.y) (h2 : p.y < b.y)
    (ha : α * a.x + β * a.y < α * p.x + β * p.y) (hb : α * b.x + β * b.y < α * p.x + β * p.y) :
    α * (a.x * (b.y - a.y) + (p.y - a.y) * (b.x - a.x)) < α * (p.x * (b.y - a.y)) := by
  have hDt : 0 < b.y - p.y := by linarith
  have ht : 0 ≤ p.y - a.y := by linarith
  nlinarith [mul_pos hDt (sub_pos.mpr ha), mul_nonneg ht (sub_pos.mpr hb).le]

/-- if the linear form `α·x + β·y` is strictly smaller at every vertex of `P` than at `p`, then `p` is outside `P` -/
theorem halfplane_not_inside (P : QPolygon) (α β : ℚ) (p : QPt)
    (h : ∀ e ∈ EO.allEdges P, α * e.1.x + β * e.1.y < α * p.x + β * p.y ∧
      α * e.2.x + β * e.2.y < α * p.x + β * p.y) : ¬ inside P p := by
  rcases lt_trichotomy α 0 with hα | hα | hα
  · -- the half-plane opens to the left: every straddling edge is crossed; their number is even
    unfold inside crossCount
    have : (EO.allEdges P).countP (fun e => decide (crosses e.1 e.2 p)) =
        (EO.allEdges P).countP (fun e => decide (e.1.y ≤ p.y) != decide (e.2.y ≤ p.y)) := by
      apply List.countP_congr
      intro e he
      obtain ⟨ha, hb⟩ := h e he
      rw [decide_eq_true_eq, ← straddle_iff]
      constructor
      · intro hc; exact ⟨hc.1, hc.2.1, hc.2.2.1⟩
      · rintro ⟨hne, hlo, hhi⟩
        rcases lt_or_gt_of_ne hne with h0 | h0
        · rw [min_eq_left h0.le] at hlo
          rw [max_eq_right h0.le] at hhi
          rw [crosses_iff]; left
          refine ⟨h0, hlo, hhi, ?_⟩
          have key := up_edge_key α β e.1 e.2 p h0 hlo hhi ha hb
          have := (mul_lt_mul_left_of_neg hα).mp key
          linarith
        · rw [min_eq_right h0.le] at hlo
          rw [max_eq_left h0.le] at hhi
          rw [crosses_symm, crosses_iff]; left
          refine ⟨h0, hlo, hhi, ?_⟩
          have key := up_edge_key α β e.2 e.1 p h0 hlo hhi hb ha
          have := (mul_lt_mul_left_of_neg hα).mp key
          linarith
    rw [this]
    have h2 : (EO.allEdges P).countP (fun e => decide (e.1.y ≤ p.y) != decide (e.2.y ≤ p.y)) % 2 = 0 :=
      allEdges_parity (fun v : QPt => decide (v.y ≤ p.y)) P
    omega
  · -- horizontal line: no edge straddles the ordinate of p
    subst hα
    apply not_inside_of_no_cross
    intro e he hc
    obtain ⟨ha, hb⟩ := h e he
    simp only [zero_mul, zero_add] at ha hb
    obtain ⟨hlo, hhi⟩ := crosses_y_range _ _ _ hc
    rcases lt_trichotomy β 0 with hβ | hβ | hβ
    · have h1 : p.y < e.1.y := by nlinarith
      have h2 : p.y < e.2.y := by nlinarith
      have : p.y < min e.1.y e.2.y := lt_min h1 h2
      linarith
    · subst hβ; simp at ha
    · have h1 : e.1.y < p.y := by nlinarith
      have h2 : e.2.y < p.y := by nlinarith
      have : max e.1.y e.2.y < p.y := max_lt h1 h2
      linarith
  · -- the half-plane opens to the right: the ray never meets an edge
    apply not_inside_of_no_cross
    intro e he hc
    obtain ⟨ha, hb⟩ := h e he
    have hs := (crosses_symm e.1 e.2 p).mp hc
    rw [crosses_iff] at hc hs
    rcases hc with ⟨h0, h1, h2, h3⟩ | ⟨h0, _, _, _⟩
    · have key := up_edge_key α β e.1 e.2 p h0 h1 h2 ha hb
      have := (mul_lt_mul_iff_right₀ hα).mp key
      linarith
    · rcases hs with ⟨_, h1, h2, h3⟩ | ⟨h0', _, _, _⟩
      · have key := up_edge_key α β e.2 e.1 p h0 h1 h2 hb ha
        have := (mul_lt_mul_iff_right₀ hα).mp key
        linarith
      · exact absurd h0 (not_lt.mpr h0'.le)

/-- `orient u v w` as a linear form in `w` (over ℚ) -/
theorem orient_cast (u v w : EO.Pt) :
    ((EO.orient u v w : Int) : ℚ) =
      (-((v.y : ℚ) - u.y)) * w.x + ((v.x : ℚ) - u.x) * w.y - ((-((v.y : ℚ) - u.y)) * u.x + ((v.x : ℚ) - u.x) * u.y) := by
  unfold EO.orient; push_cast; ring

theorem sideOK_sound (u v : EO.Pt) (A B : EO.Polygon)
    (h : EO.sideOK u v (EO.allEdges A) (EO.allEdges B) = true) (p : QPt) :
    ¬ (inside (polyQ A) p ∧ inside (polyQ B) p) := by
  unfold EO.sideOK at h
  rw [Bool.and_eq_true, List.all_eq_true, List.all_eq_true] at h
  obtain ⟨hA, hB⟩ := h
  rintro ⟨iA, iB⟩
  set α : ℚ := -((v.y : ℚ) - u.y) with hα
  set β : ℚ := (v.x : ℚ) - u.x with hβ
  set c : ℚ := α * u.x + β * u.y with hc
  rcases lt_or_ge c (α * p.x + β * p.y) with hp | hp
  · -- p strictly on the left: outside A
    refine halfplane_not_inside (polyQ A) α β p ?_ iA
    intro e he
    obtain ⟨a, b, hab, rfl⟩ := mem_allEdges_polyQ A e he
    have := hA (a, b) hab
    simp only [decide_eq_true_eq] at this
    have h1 : ((EO.orient u v a : Int) : ℚ) ≤ 0 := by exact_mod_cast this.1
    have h2 : ((EO.orient u v b : Int) : ℚ) ≤ 0 := by exact_mod_cast this.2
    rw [orient_cast] at h1 h2
    simp only [toQ]
    constructor <;> linarith
  · -- p on the closed right side: outside B
    refine halfplane_not_inside (polyQ B) (-α) (-β) p ?_ iB
    intro e he
    obtain ⟨a, b, hab, rfl⟩ := mem_allEdges_polyQ B e he
    have := hB (a, b) hab
    simp only [decide_eq_true_eq] at this
    have h1 : (0 : ℚ) < ((EO.orient u v a : Int) : ℚ) := by exact_mod_cast this.1
    have h2 : (0 : ℚ) < ((EO.orient u v b : Int) : ℚ) := by exact_mod_cast this.2
    rw [orient_cast] at h1 h2
    simp only [toQ]
    constructor <;> linarith

/-- operands separated by the line through one of their edges have disjoint regions -/
theorem sepLine_sound (A B : EO.Polygon) (h : EO.sepLine A B = true) (p : QPt) :
    ¬ (inside (polyQ A) p ∧ inside (polyQ B) p) := by
  unfold EO.sepLine at h
  simp only [List.any_eq_true, Bool.or_eq_true] at h
  obtain ⟨e, _, ((h | h) | h) | h⟩ := h
  · exact sideOK_sound e.1 e.2 A B h p
  · exact sideOK_sound e.2 e.1 A B h p
  · intro ⟨x, y⟩; exact sideOK_sound e.1 e.2 B A h p ⟨y, x⟩
  · intro ⟨x, y⟩; exact sideOK_sound e.2 e.1 B A h p ⟨y, x⟩

/-! ### the covering rectangle -/

theorem inside_rect (x0 y0 x1 y1 : ℚ) (p : QPt) (hx0 : x0 < p.x) (hx1 : p.x < x1) (hy0 : y0 ≤ p.y) (hy1 : p.y < y1) :
    inside [[⟨x0, y0⟩, ⟨x1, y0⟩, ⟨x1, y1⟩, ⟨x0, y1⟩]] p := by
  have hy : y0 < y1 := lt_of_le_of_lt hy0 hy1
  have c1 : ¬ crosses ⟨x0, y0⟩ ⟨x1, y0⟩ p := by intro h; exact h.1 rfl
  have c3 : ¬ crosses ⟨x1, y1⟩ ⟨x0, y1⟩ p := by intro h; exact h.1 rfl
  have c2 : crosses ⟨x1, y0⟩ ⟨x1, y1⟩ p := by
    rw [crosses_iff]; left
    refine ⟨hy, hy0, hy1, ?_⟩
    simp only [sub_self, mul_zero]
    exact mul_neg_of_neg_of_pos (by linarith) (by linarith)
  have c4 : ¬ crosses ⟨x0, y1⟩ ⟨x0, y0⟩ p := by
    rw [crosses_iff]
    rintro (⟨h, _⟩ | ⟨_, _, _, h⟩)
    · simp only at h; linarith
    · simp only [sub_self, mul_zero] at h
      have : (p.x - x0) * (y0 - y1) < 0 := mul_neg_of_pos_of_neg (by linarith) (by linarith)
      linarith
  unfold inside crossCount EO.allEdges EO.edgesOf
  simp [EO.pairs, c1, c2, c3, c4]

theorem rectCovers_sound (A B : EO.Polygon) (h : EO.rectCovers B A = true) (p : QPt) (hA : inside (polyQ A) p) :
    inside (polyQ B) p := by
  unfold EO.rectCovers at h
  split at h
  · rename_i b0 b1 b2 b3
    rw [Bool.and_eq_true, decide_eq_true_eq, List.all_eq_true] at h
    obtain ⟨⟨e1, e2, e3, e4, hx, hy⟩, hall⟩ := h
    have hin : ∀ a b : EO.Pt, (a, b) ∈ EO.allEdges A →
        (b0.x : ℚ) < a.x ∧ (a.x : ℚ) ≤ b2.x ∧ (b0.x : ℚ) < b.x ∧ (b.x : ℚ) ≤ b2.x ∧
        (b0.y : ℚ) ≤ a.y ∧ (a.y : ℚ) ≤ b2.y ∧ (b0.y : ℚ) ≤ b.y ∧ (b.y : ℚ) ≤ b2.y := by
      intro a b hab
      have := hall (a, b) hab
      unfold EO.inRectEdge at this
      simp only [decide_eq_true_eq] at this
      obtain ⟨t1, t2, t3, t4, t5, t6, t7, t8⟩ := this
      exact ⟨by exact_mod_cast t1, by exact_mod_cast t2, by exact_mod_cast t3, by exact_mod_cast t4,
        by exact_mod_cast t5, by exact_mod_cast t6, by exact_mod_cast t7, by exact_mod_cast t8⟩
    obtain ⟨e, he, hc⟩ := exists_crossed_of_inside _ p hA
    obtain ⟨a, b, hab, rfl⟩ := mem_allEdges_polyQ A e he
    obtain ⟨_, i2, _, i4, i5, i6, i7, i8⟩ := hin a b hab
    have hlt := crosses_lt_max _ _ _ hc
    have hyr := crosses_y_range _ _ _ hc
    simp only [toQ] at hlt hyr
    have px1 : p.x < (b2.x : ℚ) := lt_of_lt_of_le hlt (max_le i2 i4)
    have py0 : (b0.y : ℚ) ≤ p.y := le_trans (le_min i5 i7) hyr.1
    have py1 : p.y < (b2.y : ℚ) := lt_of_lt_of_le hyr.2 (max_le i6 i8)
    have px0 : (b0.x : ℚ) < p.x := by
      by_contra hcon
      rw [not_lt] at hcon
      refine not_inside_of_left (polyQ A) p ?_ hA
      intro f hf
      obtain ⟨c, d, hcd, rfl⟩ := mem_allEdges_polyQ A f hf
      obtain ⟨j1, _, j3, _⟩ := hin c d hcd
      simp only [toQ]
      exact ⟨lt_of_le_of_lt hcon j1, lt_of_le_of_lt hcon j3⟩
    have := inside_rect (b0.x : ℚ) (b0.y : ℚ) (b2.x : ℚ) (b2.y : ℚ) p px0 px1 py0 py1
    have hB : polyQ [[b0, b1, b2, b3]] =
        [[⟨(b0.x : ℚ), (b0.y : ℚ)⟩, ⟨(b2.x : ℚ), (b0.y : ℚ)⟩, ⟨(b2.x : ℚ), (b2.y : ℚ)⟩, ⟨(b0.x : ℚ), (b2.y : ℚ)⟩]] := by
      simp only [polyQ, toQ, List.map_cons, List.map_nil]
      rw [← e1, ← e2, e3, e4]
    rw [hB]; exact this
  · cases h

/-- **soundness of the emptiness certificate**: the combined region is empty -/
theorem emptyCert_sound (op : EO.Op) (A B : EO.Polygon) (h : EO.emptyCert op A B = true) (p : QPt) :
    ¬ holds op (inside (polyQ A) p) (inside (polyQ B) p) := by
  cases op
  · -- union
    simp only [EO.emptyCert, Bool.and_eq_true] at h
    simp only [holds]
    rintro (hA | hB)
    · exact noEdges_not_inside A h.1 p hA
    · exact noEdges_not_inside B h.2 p hB
  · -- inter
    simp only [EO.emptyCert, Bool.or_eq_true] at h
    simp only [holds]
    rcases h with ((h | h) | h) | h
    · intro ⟨hA, _⟩; exact noEdges_not_inside A h p hA
    · intro ⟨_, hB⟩; exact noEdges_not_inside B h p hB
    · exact separated_sound A B h p
    · exact sepLine_sound A B h p
  · -- sub
    simp only [EO.emptyCert, Bool.or_eq_true, decide_eq_true_eq] at h
    simp only [holds]
    rcases h with (h | h) | h
    · intro ⟨hA, _⟩; exact noEdges_not_inside A h p hA
    · subst h; intro ⟨hA, hnB⟩; exact hnB hA
    · intro ⟨hA, hnB⟩; exact hnB (rectCovers_sound A B h p hA)
  · -- xor
    simp only [EO.emptyCert, Bool.or_eq_true, Bool.and_eq_true, decide_eq_true_eq] at h
    simp only [holds]
    rcases h with h | h
    · subst h; simp
    · intro hx
      apply hx
      constructor
      · intro hA; exact absurd hA (noEdges_not_inside A h.1 p)
      · intro hB; exact absurd hB (noEdges_not_inside B h.2 p)

end EOQ
