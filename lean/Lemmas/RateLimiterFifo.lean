import Lemmas.RateLimiterGrants
/-! Reachable-state versions of the grant invariants, queue discipline of the service loop, Close progress. Core Lean. -/
namespace RL

theorem grantInv {c : Nat} {s : S} (h : Reachable c s) : GrantInv s := by
  induction h with
  | init => exact grantInv_init c
  | step s s' hr st ih =>
    have t := tree hr
    cases st with
    | useZero l hl h0 h1 =>
      refine grantInv_grant ih l 0 hl rfl rfl rfl rfl ?_ rfl rfl (fun _ => rfl) rfl
      funext x
      simp [doUseZero, unlock, charge]
    | useGrant l amt hl ha h0 h1 h2 h3 => exact grantInv_grant ih l amt hl rfl rfl rfl rfl rfl rfl rfl (fun _ => rfl) rfl
    | newChild p cp hp h0 h1 =>
      have g := grantInv_newChild s p cp t ih
      exact ⟨g.period_le, g.chain_eq, g.cur_le, g.cur_eq, g.past, g.last_eq⟩
    | closeChild l hl hr' h0 h1 => exact grantInv_same ih rfl rfl rfl rfl rfl rfl rfl (resets_closeChild s l) rfl
    | tickRuns h1 h0 =>
      have g := grantInv_tick s (capInv hr) (queueOk hr) ih
      exact ⟨g.period_le, g.chain_eq, g.cur_le, g.cur_eq, g.past, g.last_eq⟩
    | setCap l cc hl h0 =>
      exact ⟨ih.period_le, ih.chain_eq, ih.cur_le, ih.cur_eq, fun hz => absurd hz (Nat.succ_ne_zero _), ih.last_eq⟩
    | _ => exact grantInv_same ih rfl rfl rfl rfl rfl rfl rfl (fun _ h => h) rfl

/-- in no period is more granted to a limiter and its descendants than its capacity (while `SetCap` is not used) -/
theorem gsum_le_cap {c : Nat} {s : S} (h : Reachable c s) (hz : s.setCaps = 0) (p x : Nat) :
    gsum p x s.glog ≤ s.cap x := by
  have gi := grantInv h
  rcases Nat.lt_trichotomy p s.ticks with hp | hp | hp
  · exact gi.past hz p hp x
  · subst hp; exact Nat.le_trans (gi.cur_le x) (capInv h hz x)
  · rw [gsum_zero_of_period]
    · exact Nat.zero_le _
    · intro g hg; have := gi.period_le g hg; omega

/-- a `nil` answer has a grant in the log -/
theorem ok_granted {c : Nat} {s : S} (h : Reachable c s) (id : Nat) (hok : (id, Ans.ok) ∈ s.answered) :
    ∃ g ∈ s.glog, g.id = id := by
  induction h with
  | init => simp [init] at hok
  | step s s' hr st ih =>
    have err : ∀ a : Ans, a ≠ .ok → (id, Ans.ok) ∈ (answer s a).answered → ∃ g ∈ s.glog, g.id = id := by
      intro a ha hm
      rcases List.mem_cons.mp hm with h | h
      · simp at h; exact absurd h.2.symm ha
      · exact ih h
    cases st with
    | useNeg => exact err _ (by decide) hok
    | useClosed => exact err _ (by decide) hok
    | useTooBig => exact err _ (by decide) hok
    | useZero l hl h0 h1 =>
      rcases List.mem_cons.mp hok with h | h
      · simp at h; exact ⟨_, List.mem_cons_self, h.symm⟩
      · obtain ⟨g, hg, hid⟩ := ih h; exact ⟨g, List.mem_cons_of_mem _ hg, hid⟩
    | useGrant l amt hl ha h0 h1 h2 h3 =>
      rcases List.mem_cons.mp hok with h | h
      · simp at h; exact ⟨_, List.mem_cons_self, h.symm⟩
      · obtain ⟨g, hg, hid⟩ := ih h; exact ⟨g, List.mem_cons_of_mem _ hg, hid⟩
    | tickRuns h1 h0 =>
      rcases List.mem_append.mp hok with h | h
      · obtain ⟨g, hg, hid⟩ := service_ok_granted _ _ _ _ _ _ id h
        exact ⟨g, List.mem_append_left _ hg, hid⟩
      · obtain ⟨g, hg, hid⟩ := ih h; exact ⟨g, List.mem_append_right _ hg, hid⟩
    | drain h1 h0 =>
      rcases List.mem_append.mp hok with h | h
      · simp at h
      · exact ih h
    | _ => exact ih hok

/-- no grant is ever made to a limiter that is closed at that moment -/
theorem grant_open {s s' : S} (st : Step s s') : ∀ g ∈ s'.glog, g ∈ s.glog ∨ s.closed g.lim = false := by
  cases st with
  | useZero l hl h0 h1 =>
    intro g hg
    rcases List.mem_cons.mp hg with h | h
    · subst h; exact Or.inr h1
    · exact Or.inl h
  | useGrant l amt hl ha h0 h1 h2 h3 =>
    intro g hg
    rcases List.mem_cons.mp hg with h | h
    · subst h; exact Or.inr h1
    · exact Or.inl h
  | tickRuns h1 h0 =>
    intro g hg
    rcases List.mem_append.mp hg with h | h
    · obtain ⟨_, r, _, _, hl, _, _, hc⟩ := service_grants _ _ _ _ _ _ g h
      rw [hl]; exact Or.inr hc
    · exact Or.inl h
  | _ => exact fun g hg => Or.inl hg

/-! ### queue discipline -/

/-- the service loop is a left-to-right pass: what happens to a request depends only on the requests ahead of it -/
theorem service_append (cap : Nat → Nat) (chain : Nat → List Nat) (closed : Nat → Bool) (p : Nat)
    (used : Nat → Nat) (w1 w2 : List Req) :
    service cap chain closed p used (w1 ++ w2) =
      ⟨(service cap chain closed p (service cap chain closed p used w1).used w2).used,
       (service cap chain closed p used w1).waiting ++ (service cap chain closed p (service cap chain closed p used w1).used w2).waiting,
       (service cap chain closed p used w1).answers ++ (service cap chain closed p (service cap chain closed p used w1).used w2).answers,
       (service cap chain closed p used w1).grants ++ (service cap chain closed p (service cap chain closed p used w1).used w2).grants⟩ := by
  induction w1 generalizing used with
  | nil => simp [service]
  | cons r rs ih =>
    simp only [List.cons_append, service]
    split
    · simp [ih]
    · split
      · simp [ih]
      · split
        · simp [ih]
        · simp [ih]

/-- a closed limiter's pending requests fail at the next tick -/
theorem service_closed (cap : Nat → Nat) (chain : Nat → List Nat) (closed : Nat → Bool) (p : Nat)
    (used : Nat → Nat) (w : List Req) (r : Req) (hr : r ∈ w) (hc : closed r.lim = true) :
    (r.id, Ans.errClosed) ∈ (service cap chain closed p used w).answers := by
  induction w generalizing used with
  | nil => cases hr
  | cons r' rs ih =>
    simp only [service]
    rcases List.mem_cons.mp hr with h | h
    · subst h; simp [hc]
    · split
      · exact List.mem_cons_of_mem _ (ih used h)
      · split
        · exact List.mem_cons_of_mem _ (ih used h)
        · split
          · exact List.mem_cons_of_mem _ (ih _ h)
          · exact ih used h

/-- a queued request whose amount is meanwhile above the smallest capacity along its chain (a `SetCap` on its limiter or
    on an ancestor) fails at the next tick -/
theorem service_toobig (cap : Nat → Nat) (chain : Nat → List Nat) (closed : Nat → Bool) (p : Nat)
    (used : Nat → Nat) (w : List Req) (r : Req) (hr : r ∈ w) (hc : closed r.lim = false)
    (hb : r.amt > effCap cap (chain r.lim) (cap r.lim)) :
    (r.id, Ans.errCap) ∈ (service cap chain closed p used w).answers := by
  induction w generalizing used with
  | nil => cases hr
  | cons r' rs ih =>
    simp only [service]
    rcases List.mem_cons.mp hr with h | h
    · subst h; simp [hc, hb]
    · split
      · exact List.mem_cons_of_mem _ (ih used h)
      · split
        · exact List.mem_cons_of_mem _ (ih used h)
        · split
          · exact List.mem_cons_of_mem _ (ih _ h)
          · exact ih used h

/-- as capacity returns: at a tick the request at the head of the queue is granted if its limiter is open and its
    amount is within the capacity of every limiter on its chain -/
theorem head_served {c : Nat} {s : S} (h : Reachable c s) (r : Req) (rest : List Req) (hw : s.waiting = r :: rest)
    (ho : s.closed r.lim = false) (hfit : ∀ x ∈ s.chain r.lim, r.amt ≤ s.cap x) :
    (r.id, Ans.ok) ∈ (doTickRuns s).answered := by
  have t := tree h
  have hr : r ∈ s.waiting := by rw [hw]; exact List.mem_cons_self
  obtain ⟨hl, ha, _⟩ := queueOk h r hr
  have hres := open_resets t r.lim ho
  have h0 : (if resets s 0 = true then 0 else s.used 0) < s.cap 0 := by
    have h1 := hres 0 (t.root _ hl)
    have h2 := hfit 0 (t.root _ hl)
    simp only [h1, if_true]; omega
  have hf : fits s.cap (fun x => if resets s x = true then 0 else s.used x) (s.chain r.lim) r.amt = true := by
    rw [fits_iff]; intro x hx
    simp only [hres x hx, if_true]
    have := hfit x hx; omega
  have hcap : ¬ r.amt > effCap s.cap (s.chain r.lim) (s.cap r.lim) := by
    have := (le_effCap_iff s.cap (s.chain r.lim) (s.cap r.lim) r.amt).mpr ⟨hfit _ (t.self _ hl), hfit⟩
    omega
  show (r.id, Ans.ok) ∈ (service s.cap s.chain s.closed (s.ticks + 1) (fun x => if resets s x then 0 else s.used x)
    s.waiting).answers ++ s.answered
  rw [hw]
  simp only [service, ho, Bool.false_eq_true, if_false, hcap, h0, hf, and_self, if_true]
  exact List.mem_append_left _ List.mem_cons_self

/-! ### Close progress -/

/-- the goroutine in root `Close` is inside `Close` (it holds the lock, or has marked the tree, or is blocked on `done`) -/
def InClose (s : S) : Prop := s.cpc = .crit ∨ s.cpc = .marked ∨ s.cpc = .send ∨ s.cpc = .unl

/-- a state of the system `R` in which the closer is inside `Close` and no step can change the position of the closer
    or of the ticker goroutine, nor who holds the lock: neither of them, nor the holder of the lock, can move -/
def DeadlockedIn (R : S → S → Prop) (s : S) : Prop :=
  InClose s ∧ ∀ s', R s s' → s'.tpc = s.tpc ∧ s'.cpc = s.cpc ∧ s'.holder = s.holder

def Deadlocked (s : S) : Prop := DeadlockedIn Step s

/-- whoever holds the lock has an enabled step, and the lock is free again after at most two steps of the holder -/
theorem lock_released {c : Nat} {s : S} (h : Reachable c s) (hh : s.holder ≠ .free) :
    ∃ s', Steps s s' ∧ s'.holder = .free := by
  obtain ⟨h1, h2, _⟩ := lockInv h
  cases hq : s.holder with
  | free => exact absurd hq hh
  | api => exact ⟨_, .tail _ _ _ (.refl _) (.apiRead s hq), rfl⟩
  | ticker =>
    rcases h1.mp hq with ht | ht | ht | ht
    · exact ⟨doTickUnlock (doTickRuns s), .tail _ _ _ (.tail _ _ _ (.refl _) (.tickRuns s ht hq)) (.tickUnlock _ rfl), rfl⟩
    · exact ⟨_, .tail _ _ _ (.refl _) (.tickUnlock s ht), rfl⟩
    · exact ⟨doDrainUnlock (doDrain s), .tail _ _ _ (.tail _ _ _ (.refl _) (.drain s ht hq)) (.drainUnlock _ rfl), rfl⟩
    · exact ⟨_, .tail _ _ _ (.refl _) (.drainUnlock s ht), rfl⟩
  | closer =>
    rcases h2.mp hq with hc | hc
    · cases h0 : s.closed 0 with
      | true => exact ⟨_, .tail _ _ _ (.refl _) (.closeSkip s h0 hc), rfl⟩
      | false =>
        exact ⟨doCloseUnlock (doCloseRootMark s),
          .tail _ _ _ (.tail _ _ _ (.refl _) (.closeRoot s hq h0 hc)) (.closeUnlock _ rfl), rfl⟩
    · exact ⟨_, .tail _ _ _ (.refl _) (.closeUnlock s hc), rfl⟩

/-- while the closer is inside `Close`, some step of the closer, of the ticker goroutine or of the holder of the lock is
    enabled -/
theorem close_progress {c : Nat} {s : S} (h : Reachable c s) (hs : InClose s) :
    ∃ s', Step s s' ∧ (s'.tpc ≠ s.tpc ∨ s'.cpc ≠ s.cpc ∨ s'.holder ≠ s.holder) := by
  obtain ⟨h1, h2, h3⟩ := lockInv h
  rcases hs with hc | hc | hc | hc
  · cases h0 : s.closed 0 with
    | true => exact ⟨_, .closeSkip s h0 hc, Or.inr (Or.inl (by simp [doCloseSkip, hc]))⟩
    | false =>
      exact ⟨_, .closeRoot s (h2.mpr (Or.inl hc)) h0 hc, Or.inr (Or.inl (by simp [doCloseRootMark, hc]))⟩
  · exact ⟨_, .closeUnlock s hc, Or.inr (Or.inl (by simp [doCloseUnlock, hc]))⟩
  · -- blocked on `done`: the closer does not hold the lock
    have hnc : s.holder ≠ .closer := by
      intro hq; rcases h2.mp hq with h | h <;> rw [hc] at h <;> cases h
    cases ht : s.tpc with
    | sel => exact ⟨_, .doneReceived s ht hc, Or.inl (by simp [doDoneReceived, ht])⟩
    | tlock =>
      cases hq : s.holder with
      | free => exact ⟨_, .tickLock s ht hq, Or.inl (by simp [doTickLock, ht])⟩
      | api => exact ⟨_, .apiRead s hq, Or.inr (Or.inr (by simp [unlock, hq]))⟩
      | closer => exact absurd hq hnc
      | ticker => rcases h1.mp hq with h | h | h | h <;> rw [ht] at h <;> cases h
    | tcrit => exact ⟨_, .tickRuns s ht (h1.mpr (Or.inl ht)), Or.inl (by simp [doTickRuns, ht])⟩
    | tunl => exact ⟨_, .tickUnlock s ht, Or.inl (by simp [doTickUnlock, ht])⟩
    | dlock => have := closer_returned h (Or.inl ht); rw [hc] at this; cases this
    | dcrit => have := closer_returned h (Or.inr (Or.inl ht)); rw [hc] at this; cases this
    | dunl => have := closer_returned h (Or.inr (Or.inr (Or.inl ht))); rw [hc] at this; cases this
    | tend => have := closer_returned h (Or.inr (Or.inr (Or.inr ht))); rw [hc] at this; cases this
  · exact absurd hc h3

theorem not_deadlocked {c : Nat} {s : S} (h : Reachable c s) : ¬ Deadlocked s := by
  intro ⟨hs, hd⟩
  obtain ⟨s', st, hp⟩ := close_progress h hs
  obtain ⟨a, b, d⟩ := hd s' st
  rcases hp with hp | hp | hp
  · exact hp a
  · exact hp b
  · exact hp d

theorem steps_trans {s t u : S} (a : Steps s t) (b : Steps t u) : Steps s u := by
  induction b with
  | refl => exact a
  | tail v w _ hw ih => exact .tail _ _ _ ih hw

/-- from every reachable state in which root `Close` is blocked on `done` there is a continuation — steps of the holder
    of the lock and of the ticker goroutine only — that completes the hand-over -/
theorem close_can_return {c : Nat} {s : S} (h : Reachable c s) (hs : s.cpc = .send) :
    ∃ s', Steps s s' ∧ s'.cpc = .ret := by
  -- first let the holder (if any) release the lock, keeping the closer at `send`; then run the ticker to its select
  obtain ⟨h1, h2, h3⟩ := lockInv h
  have hnc : s.holder ≠ .closer := by
    intro hq; rcases h2.mp hq with h | h <;> rw [hs] at h <;> cases h
  cases ht : s.tpc with
  | sel => exact ⟨_, .tail _ _ _ (.refl _) (.doneReceived s ht hs), rfl⟩
  | tlock =>
    cases hq : s.holder with
    | free =>
      refine ⟨doDoneReceived (doTickUnlock (doTickRuns (doTickLock s))), ?_, rfl⟩
      exact .tail _ _ _ (.tail _ _ _ (.tail _ _ _ (.tail _ _ _ (.refl _) (.tickLock s ht hq)) (.tickRuns _ rfl rfl))
        (.tickUnlock _ rfl)) (.doneReceived _ rfl hs)
    | api =>
      refine ⟨doDoneReceived (doTickUnlock (doTickRuns (doTickLock (unlock s)))), ?_, rfl⟩
      exact .tail _ _ _ (.tail _ _ _ (.tail _ _ _ (.tail _ _ _ (.tail _ _ _ (.refl _) (.apiRead s hq))
        (.tickLock _ ht rfl)) (.tickRuns _ rfl rfl)) (.tickUnlock _ rfl)) (.doneReceived _ rfl hs)
    | closer => exact absurd hq hnc
    | ticker => rcases h1.mp hq with h | h | h | h <;> rw [ht] at h <;> cases h
  | tcrit =>
    refine ⟨doDoneReceived (doTickUnlock (doTickRuns s)), ?_, rfl⟩
    exact .tail _ _ _ (.tail _ _ _ (.tail _ _ _ (.refl _) (.tickRuns s ht (h1.mpr (Or.inl ht)))) (.tickUnlock _ rfl))
      (.doneReceived _ rfl hs)
  | tunl =>
    refine ⟨doDoneReceived (doTickUnlock s), ?_, rfl⟩
    exact .tail _ _ _ (.tail _ _ _ (.refl _) (.tickUnlock s ht)) (.doneReceived _ rfl hs)
  | dlock => have := closer_returned h (Or.inl ht); rw [hs] at this; cases this
  | dcrit => have := closer_returned h (Or.inr (Or.inl ht)); rw [hs] at this; cases this
  | dunl => have := closer_returned h (Or.inr (Or.inr (Or.inl ht))); rw [hs] at this; cases this
  | tend => have := closer_returned h (Or.inr (Or.inr (Or.inr ht))); rw [hs] at this; cases this

/-! ### the unrepaired order dead-locks -/

/-- the schedule: a tick fires (the ticker goroutine now waits for the lock); root `Close` takes the lock and marks the
    tree; it now has to hand `done` over while holding the lock -/
def stuckState : S := doCloseRootMark (doCloseLock (doTickFires (init 5)))

theorem stuckState_reachableU : ReachableU 5 stuckState := by
  have r0 : ReachableU 5 (init 5) := .init
  have r1 : ReachableU 5 (doTickFires (init 5)) :=
    .step _ _ r0 (.common _ _ (.tickFires _ rfl) (by intro h; cases h.1))
  have r2 : ReachableU 5 (doCloseLock (doTickFires (init 5))) :=
    .step _ _ r1 (.common _ _ (.closeLock _ rfl rfl) (by intro h; cases h.1))
  exact .step _ _ r2 (.common _ _ (.closeRoot _ rfl rfl rfl) (by intro h; cases h.1))

/-- … and nothing can move any more: the closer's send needs the ticker goroutine at its `select`, the ticker goroutine
    needs the lock, the lock is held by the closer -/
theorem stuckState_deadlocked : DeadlockedIn StepU stuckState := by
  refine ⟨Or.inr (Or.inl rfl), ?_⟩
  intro s' st
  have hh : stuckState.holder = .closer := rfl
  have ht : stuckState.tpc = .tlock := rfl
  have hc : stuckState.cpc = .marked := rfl
  generalize stuckState = s at st hh ht hc
  cases st with
  | sendHeld h1 h2 => rw [ht] at h2; cases h2
  | unlockAfter h => rw [hc] at h; cases h
  | common =>
    rename_i st0 hne
    cases st0 with
    | useNeg => exact ⟨rfl, rfl, rfl⟩
    | apiLock h => rw [hh] at h; cases h
    | apiRead h => rw [hh] at h; cases h
    | useClosed l hl h0 => rw [hh] at h0; cases h0
    | useZero l hl h0 => rw [hh] at h0; cases h0
    | useTooBig l amt hl h0 => rw [hh] at h0; cases h0
    | useGrant l amt hl ha h0 => rw [hh] at h0; cases h0
    | useWait l amt hl ha h0 => rw [hh] at h0; cases h0
    | newChild p cp hp h0 => rw [hh] at h0; cases h0
    | closeChild l hl hr h0 => rw [hh] at h0; cases h0
    | setCap l cp hl h0 => rw [hh] at h0; cases h0
    | closeLock h0 => rw [hh] at h0; cases h0
    | closeRoot h0 h1 h2 => rw [hc] at h2; cases h2
    | closeSkip h1 h2 => rw [hc] at h2; cases h2
    | closeUnlock h2 => exact absurd ⟨hc, rfl⟩ hne
    | tickFires h => rw [ht] at h; cases h
    | tickLock h1 h0 => rw [hh] at h0; cases h0
    | tickRuns h1 => rw [ht] at h1; cases h1
    | tickUnlock h1 => rw [ht] at h1; cases h1
    | doneReceived h1 => rw [ht] at h1; cases h1
    | drainLock h1 => rw [ht] at h1; cases h1
    | drain h1 => rw [ht] at h1; cases h1
    | drainUnlock h1 => rw [ht] at h1; cases h1

end RL
