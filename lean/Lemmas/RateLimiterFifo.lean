import Lemmas.RateLimiterGrants
/-! Reachable-state versions of the grant invariants, queue discipline of the service loop, Close progress. Core Lean. -/
namespace RL

theorem grantInv {c : Nat} {s : S} (h : Reachable c s) : GrantInv s := by
  induction h with
  | init => exact grantInv_init c
  | step s s' hr st ih =>
    have t := tree hr
    cases st with
    | useNeg => exact grantInv_same ih rfl rfl rfl rfl rfl rfl rfl (fun _ h => h) rfl
    | useZero l hl h0 h1 =>
      refine grantInv_grant ih l 0 hl rfl rfl rfl rfl ?_ rfl rfl (fun _ => rfl) rfl
      funext x
      simp [doUseZero, charge]
    | useClosed => exact grantInv_same ih rfl rfl rfl rfl rfl rfl rfl (fun _ h => h) rfl
    | useTooBig => exact grantInv_same ih rfl rfl rfl rfl rfl rfl rfl (fun _ h => h) rfl
    | useGrant l amt hl ha h0 h1 h2 h3 => exact grantInv_grant ih l amt hl rfl rfl rfl rfl rfl rfl rfl (fun _ => rfl) rfl
    | useWait => exact grantInv_same ih rfl rfl rfl rfl rfl rfl rfl (fun _ h => h) rfl
    | newChild p cp hp h0 h1 => exact grantInv_newChild s p cp t ih
    | closeChild l hl hr' h0 h1 => exact grantInv_same ih rfl rfl rfl rfl rfl rfl rfl (resets_closeChild s l) rfl
    | closeRoot => exact grantInv_same ih rfl rfl rfl rfl rfl rfl rfl (fun _ h => h) rfl
    | tickFires => exact grantInv_same ih rfl rfl rfl rfl rfl rfl rfl (fun _ h => h) rfl
    | tickRuns h1 h0 => exact grantInv_tick s (capInv hr) (queueOk hr) ih
    | doneReceived => exact grantInv_same ih rfl rfl rfl rfl rfl rfl rfl (fun _ h => h) rfl
    | drain => exact grantInv_same ih rfl rfl rfl rfl rfl rfl rfl (fun _ h => h) rfl
    | setCap l cc hl h0 =>
      exact ⟨ih.period_le, ih.chain_eq, ih.cur_le, ih.cur_eq, fun hz => absurd hz (Nat.succ_ne_zero _), ih.last_eq⟩

/-- in no period is more granted to a limiter and its descendants than its capacity (while `SetCap` is not used) -/
theorem gsum_le_cap {c : Nat} {s : S} (h : Reachable c s) (hz : s.setCaps = 0) (p x : Nat) :
    gsum p x s.glog ≤ s.cap x := by
  have gi := grantInv h
  rcases Nat.lt_trichotomy p s.ticks with hp | hp | hp
  · exact gi.past hz p hp x
  · subst hp; exact Nat.le_trans (gi.cur_le x) (capInv h hz x)
  · rw [gsum_zero_of_period]
    · exact Nat.zero_le _
    · intro g hg; have := gi.period_le g hg; omega

/-- a `nil` answer has a grant in the log -/
theorem ok_granted {c : Nat} {s : S} (h : Reachable c s) (id : Nat) (hok : (id, Ans.ok) ∈ s.answered) :
    ∃ g ∈ s.glog, g.id = id := by
  induction h with
  | init => simp [init] at hok
  | step s s' hr st ih =>
    have err : ∀ a : Ans, a ≠ .ok → (id, Ans.ok) ∈ (answer s a).answered → ∃ g ∈ s.glog, g.id = id := by
      intro a ha hm
      rcases List.mem_cons.mp hm with h | h
      · simp at h; exact absurd h.2.symm ha
      · exact ih h
    cases st with
    | useNeg => exact err _ (by decide) hok
    | useClosed => exact err _ (by decide) hok
    | useTooBig => exact err _ (by decide) hok
    | useZero l hl h0 h1 =>
      rcases List.mem_cons.mp hok with h | h
      · simp at h; exact ⟨_, List.mem_cons_self, h.symm⟩
      · obtain ⟨g, hg, hid⟩ := ih h; exact ⟨g, List.mem_cons_of_mem _ hg, hid⟩
    | useGrant l amt hl ha h0 h1 h2 h3 =>
      rcases List.mem_cons.mp hok with h | h
      · simp at h; exact ⟨_, List.mem_cons_self, h.symm⟩
      · obtain ⟨g, hg, hid⟩ := ih h; exact ⟨g, List.mem_cons_of_mem _ hg, hid⟩
    | tickRuns h1 h0 =>
      rcases List.mem_append.mp hok with h | h
      · obtain ⟨g, hg, hid⟩ := service_ok_granted _ _ _ _ _ _ id h
        exact ⟨g, List.mem_append_left _ hg, hid⟩
      · obtain ⟨g, hg, hid⟩ := ih h; exact ⟨g, List.mem_append_right _ hg, hid⟩
    | drain h1 h0 =>
      rcases List.mem_append.mp hok with h | h
      · simp at h
      · exact ih h
    | useWait => exact ih hok
    | newChild => exact ih hok
    | closeChild => exact ih hok
    | closeRoot => exact ih hok
    | tickFires => exact ih hok
    | doneReceived => exact ih hok
    | setCap => exact ih hok

/-- no grant is ever made to a limiter that is closed at that moment -/
theorem grant_open {s s' : S} (st : Step s s') : ∀ g ∈ s'.glog, g ∈ s.glog ∨ s.closed g.lim = false := by
  cases st with
  | useZero l hl h0 h1 =>
    intro g hg
    rcases List.mem_cons.mp hg with h | h
    · subst h; exact Or.inr h1
    · exact Or.inl h
  | useGrant l amt hl ha h0 h1 h2 h3 =>
    intro g hg
    rcases List.mem_cons.mp hg with h | h
    · subst h; exact Or.inr h1
    · exact Or.inl h
  | tickRuns h1 h0 =>
    intro g hg
    rcases List.mem_append.mp hg with h | h
    · obtain ⟨_, r, _, _, hl, _, _, hc⟩ := service_grants _ _ _ _ _ _ g h
      rw [hl]; exact Or.inr hc
    · exact Or.inl h
  | _ => exact fun g hg => Or.inl hg

/-! ### queue discipline -/

/-- the service loop is a left-to-right pass: what happens to a request depends only on the requests ahead of it -/
theorem service_append (cap : Nat → Nat) (chain : Nat → List Nat) (closed : Nat → Bool) (p : Nat)
    (used : Nat → Nat) (w1 w2 : List Req) :
    service cap chain closed p used (w1 ++ w2) =
      ⟨(service cap chain closed p (service cap chain closed p used w1).used w2).used,
       (service cap chain closed p used w1).waiting ++ (service cap chain closed p (service cap chain closed p used w1).used w2).waiting,
       (service cap chain closed p used w1).answers ++ (service cap chain closed p (service cap chain closed p used w1).used w2).answers,
       (service cap chain closed p used w1).grants ++ (service cap chain closed p (service cap chain closed p used w1).used w2).grants⟩ := by
  induction w1 generalizing used with
  | nil => simp [service]
  | cons r rs ih =>
    simp only [List.cons_append, service]
    split
    · simp [ih]
    · split
      · simp [ih]
      · split
        · simp [ih]
        · simp [ih]

/-- a closed limiter's pending requests fail at the next tick -/
theorem service_closed (cap : Nat → Nat) (chain : Nat → List Nat) (closed : Nat → Bool) (p : Nat)
    (used : Nat → Nat) (w : List Req) (r : Req) (hr : r ∈ w) (hc : closed r.lim = true) :
    (r.id, Ans.errClosed) ∈ (service cap chain closed p used w).answers := by
  induction w generalizing used with
  | nil => cases hr
  | cons r' rs ih =>
    simp only [service]
    rcases List.mem_cons.mp hr with h | h
    · subst h; simp [hc]
    · split
      · exact List.mem_cons_of_mem _ (ih used h)
      · split
        · exact List.mem_cons_of_mem _ (ih used h)
        · split
          · exact List.mem_cons_of_mem _ (ih _ h)
          · exact ih used h

/-- a queued request whose limiter's cap has meanwhile been lowered below its amount fails at the next tick -/
theorem service_toobig (cap : Nat → Nat) (chain : Nat → List Nat) (closed : Nat → Bool) (p : Nat)
    (used : Nat → Nat) (w : List Req) (r : Req) (hr : r ∈ w) (hc : closed r.lim = false) (hb : r.amt > cap r.lim) :
    (r.id, Ans.errCap) ∈ (service cap chain closed p used w).answers := by
  induction w generalizing used with
  | nil => cases hr
  | cons r' rs ih =>
    simp only [service]
    rcases List.mem_cons.mp hr with h | h
    · subst h; simp [hc, hb]
    · split
      · exact List.mem_cons_of_mem _ (ih used h)
      · split
        · exact List.mem_cons_of_mem _ (ih used h)
        · split
          · exact List.mem_cons_of_mem _ (ih _ h)
          · exact ih used h

/-- as capacity returns: at a tick the request at the head of the queue is granted if its limiter is open and its
    amount is within the capacity of every limiter on its chain -/
theorem head_served {c : Nat} {s : S} (h : Reachable c s) (r : Req) (rest : List Req) (hw : s.waiting = r :: rest)
    (ho : s.closed r.lim = false) (hfit : ∀ x ∈ s.chain r.lim, r.amt ≤ s.cap x) :
    (r.id, Ans.ok) ∈ (doTickRuns s).answered := by
  have t := tree h
  have hr : r ∈ s.waiting := by rw [hw]; exact List.mem_cons_self
  obtain ⟨hl, ha, _⟩ := queueOk h r hr
  have hres := open_resets t r.lim ho
  have h0 : (if resets s 0 = true then 0 else s.used 0) < s.cap 0 := by
    have h1 := hres 0 (t.root _ hl)
    have h2 := hfit 0 (t.root _ hl)
    simp only [h1, if_true]; omega
  have hf : fits s.cap (fun x => if resets s x = true then 0 else s.used x) (s.chain r.lim) r.amt = true := by
    rw [fits_iff]; intro x hx
    simp only [hres x hx, if_true]
    have := hfit x hx; omega
  have hcap : ¬ r.amt > s.cap r.lim := by have := hfit _ (t.self _ hl); omega
  show (r.id, Ans.ok) ∈ (service s.cap s.chain s.closed (s.ticks + 1) (fun x => if resets s x then 0 else s.used x)
    s.waiting).answers ++ s.answered
  rw [hw]
  simp only [service, ho, Bool.false_eq_true, if_false, hcap, h0, hf, and_self, if_true]
  exact List.mem_append_left _ List.mem_cons_self

/-! ### Close progress -/

/-- the goroutine in root `Close` is blocked on `done` and neither it nor the ticker goroutine can take a step -/
def Deadlocked (s : S) : Prop := s.cpc = .send ∧ ∀ s', Step s s' → s'.tpc = s.tpc ∧ s'.cpc = s.cpc

theorem close_progress {c : Nat} {s : S} (h : Reachable c s) (hs : s.cpc = .send) :
    ∃ s', Step s s' ∧ (s'.cpc = .ret ∨ s'.tpc ≠ s.tpc) := by
  have hl := lockFree h
  cases ht : s.tpc with
  | sel => exact ⟨_, Step.doneReceived s ht hs, Or.inl rfl⟩
  | tlock => exact ⟨_, Step.tickRuns s ht hl, Or.inr (by simp [doTickRuns])⟩
  | dlock => exact ⟨_, Step.drain s ht hl, Or.inr (by simp [doDrain])⟩
  | tend =>
    have := closer_returned h (Or.inl ht)
    rw [hs] at this; cases this

theorem not_deadlocked {c : Nat} {s : S} (h : Reachable c s) : ¬ Deadlocked s := by
  intro ⟨hs, hd⟩
  obtain ⟨s', st, hp⟩ := close_progress h hs
  have := hd s' st
  rcases hp with hp | hp
  · rw [this.2, hs] at hp; cases hp
  · exact hp this.1

/-- from every reachable state in which root `Close` is blocked on `done`, at most two steps of the ticker goroutine
    lead to its return -/
theorem close_can_return {c : Nat} {s : S} (h : Reachable c s) (hs : s.cpc = .send) :
    ∃ s', Steps s s' ∧ s'.cpc = .ret := by
  have hl := lockFree h
  cases ht : s.tpc with
  | sel => exact ⟨_, .tail _ _ _ (.refl _) (Step.doneReceived s ht hs), rfl⟩
  | tlock =>
    refine ⟨doDoneReceived (doTickRuns s), .tail _ _ _ (.tail _ _ _ (.refl _) (Step.tickRuns s ht hl)) ?_, rfl⟩
    exact Step.doneReceived (doTickRuns s) rfl hs
  | dlock =>
    have := closer_returned h (Or.inr ht)
    rw [hs] at this; cases this
  | tend =>
    have := closer_returned h (Or.inl ht)
    rw [hs] at this; cases this

/-- with the lock kept during the hand-over (the code before the repair) the state "closer blocked on `done`, ticker
    goroutine waiting for the lock" is stuck for ever -/
theorem held_lock_is_stuck (s : S) (h0 : s.lockHeld = true) (h1 : s.tpc = .tlock) (h2 : s.cpc = .send) : Deadlocked s := by
  refine ⟨h2, ?_⟩
  intro s' st
  cases st with
  | tickFires h => rw [h1] at h; cases h
  | tickRuns _ h => rw [h0] at h; cases h
  | doneReceived h _ => rw [h1] at h; cases h
  | drain h _ => rw [h1] at h; cases h
  | closeRoot h => rw [h0] at h; cases h
  | _ => exact ⟨rfl, rfl⟩

end RL
